package c19

// Unit "stream-frames-sequence": the message reader as a whole. The other units feed ONE field section to the parsers;
// here generated SEQUENCES of HTTP/3 frames (DATA, trailer HEADERS well-formed and malformed in every way the property
// lists, unknown / GREASE frames, reserved HTTP/2 frame types, frames after the trailers, FIN at every byte position) are
// fed through the real receive side of a request stream - http3.Stream.Read + body + the decodeTrailers closure, wired by
// /repo/http3/verif_hooks_c19c.go exactly like RawServerConn.handleRequestStream (server, request body) and
// ClientConn.openRequestStream + RequestStream.ReadResponse (client, response body) wire it - to a generated CONSUMER
// that, unlike every other test, may go on reading after the first error (k more Reads, or the ubiquitous
// `io.Copy(io.Discard, body)` drain) and then looks at the trailers.
//
// Oracle (from "only well-formed field sections are accepted ... anything else is rejected as malformed"), against an
// independent interpretation of the wire bytes (own frame splitter, qpack module for decoding, the reference predicate
// `analyse` of c19_test.go):
//   - a message whose trailer section is malformed / undecodable / truncated / over the limit, or that carries a frame
//     where none may come (DATA or HEADERS after the trailers, reserved frame type), is REJECTED: the Read that meets the
//     offending frame returns an error that is not io.EOF, and the rejection is final - no later Read delivers body bytes,
//     and the message's trailers never become visible or change afterwards;
//   - the bytes delivered up to the error are exactly the DATA payloads before the offending frame;
//   - a well-formed sequence delivers the concatenation of its DATA payloads, then io.EOF, and its Trailer is the one
//     trailer section (canonical keys, values in order); trailers are only ever set once;
//   - a tidy consumer (stops at the first error) and a persistent one observe the same body and trailers (the persistent
//     consumer IS the tidy one plus further Reads, so this is "nothing changes after the first error").
// Not judged here (recorded C18 findings, counted as classes `c18:*`): whether a frame after well-formed trailers closes
// the connection (only that it fails the Read and delivers nothing), and how a FIN inside a frame is reported (clean
// io.EOF or error - only that the bytes before it are delivered and no trailers appear).

import (
	"bytes"
	"context"
	"errors"
	"fmt"
	"io"
	"net/http"
	"runtime"
	"runtime/debug"
	"strings"
	"testing"
	"time"

	"github.com/quic-go/qpack"
	quic "github.com/refraction-networking/uquic"
	"github.com/refraction-networking/uquic/http3"
	"github.com/refraction-networking/uquic/verif/vf"
	"pgregory.net/rapid"
)

// ---------------------------------------------------------------------------------------------
// case

// SFrame is one frame put on the wire: type, payload bytes, and the length it announces (= len(P) + Extra).
type SFrame struct {
	T     uint64 `json:"t"`
	TLen  int    `json:"tl,omitempty"` // bytes used for the type varint (0 = minimal)
	LLen  int    `json:"ll,omitempty"` // bytes used for the length varint (0 = minimal)
	P     S      `json:"p"`
	Extra uint64 `json:"extra,omitempty"`
	Note  string `json:"note,omitempty"` // what the generator meant (never read by the oracle)
}

type SeqCase struct {
	Client      bool     `json:"client"`
	Limit       int      `json:"limit"` // MaxHeaderBytes / MaxResponseHeaderBytes
	CL          int64    `json:"cl"`    // -1 or the message's Content-Length
	Frames      []SFrame `json:"frames"`
	Cut         int      `json:"cut"`   // -1: FIN after the last frame; else FIN after this many bytes of the frames
	Chunk       []int    `json:"chunk"` // the stream hands out at most Chunk[i mod n] bytes per Read (0 = no limit)
	EOFWithData bool     `json:"eof_with_data"`
	Bufs        []int    `json:"bufs"` // consumer buffer sizes, cycled
	Mode        string   `json:"mode"` // "tidy" | "reads" | "copy": what the consumer does after the first error
	K           int      `json:"k"`
}

func appendVarintN(b []byte, v uint64, n int) []byte {
	min := 1
	switch {
	case v >= 1<<30:
		min = 8
	case v >= 1<<14:
		min = 4
	case v >= 1<<6:
		min = 2
	}
	if n < min {
		n = min
	}
	switch n {
	case 1:
		return append(b, byte(v))
	case 2:
		return append(b, 0x40|byte(v>>8), byte(v))
	case 4:
		return append(b, 0x80|byte(v>>24), byte(v>>16), byte(v>>8), byte(v))
	default:
		return append(b, 0xc0|byte(v>>56), byte(v>>48), byte(v>>40), byte(v>>32), byte(v>>24), byte(v>>16), byte(v>>8), byte(v))
	}
}

func (f SFrame) wire() []byte {
	b := appendVarintN(nil, f.T, f.TLen)
	b = appendVarintN(b, uint64(len(f.P))+f.Extra, f.LLen)
	return append(b, f.P...)
}

func seqWire(c SeqCase) []byte {
	var w []byte
	for _, f := range c.Frames {
		w = append(w, f.wire()...)
	}
	if c.Cut >= 0 && c.Cut < len(w) {
		w = w[:c.Cut]
	}
	return w
}

// plain QPACK: prefix 00 00, every field a literal field line without name reference, no Huffman.
func qpackPlain(fields []F) []byte {
	b := []byte{0, 0}
	for _, f := range fields {
		n := len(f.N)
		if n < 7 {
			b = append(b, 0x20|byte(n))
		} else {
			b = append(b, 0x27)
			b = appendHpackInt(b, uint64(n-7))
		}
		b = append(b, f.N...)
		n = len(f.V)
		if n < 127 {
			b = append(b, byte(n))
		} else {
			b = append(b, 0x7f)
			b = appendHpackInt(b, uint64(n-127))
		}
		b = append(b, f.V...)
	}
	return b
}

func appendHpackInt(b []byte, i uint64) []byte {
	for ; i >= 128; i >>= 7 {
		b = append(b, byte(0x80|(i&0x7f)))
	}
	return append(b, byte(i))
}

func qpackLib(fields []F) []byte {
	var buf bytes.Buffer
	e := qpack.NewEncoder(&buf)
	for _, f := range fields {
		e.WriteField(qpack.HeaderField{Name: string(f.N), Value: string(f.V)})
	}
	if len(fields) == 0 {
		return []byte{0, 0}
	}
	return buf.Bytes()
}

// ---------------------------------------------------------------------------------------------
// reference interpretation of the wire bytes

const (
	endClean = iota // FIN after a complete frame, nothing wrong: io.EOF
	endError        // an offending frame / field section: an error that is not io.EOF, final
	endAny          // FIN inside a frame, or a Content-Length that is not met: how it is reported is C18's business
)

type seqExpect struct {
	body      []byte
	trailer   map[string][]string // nil: no trailers may ever become visible
	end       int
	reason    string
	grey      bool // contains something the reference does not decide (never generated on purpose)
	afterTr   bool // a well-formed trailer section was met
	restAfter int  // bytes of the wire after the offending frame's header (what a persistent reader goes on to parse)
	emptyTr   bool
	zeroData  bool
	unknown   bool
}

var coreTrailerNames = map[string]bool{"server-timing": true, "grpc-status": true, "grpc-message": true}

func coreTrailerField(f F) bool {
	n := string(f.N)
	if !(strings.HasPrefix(n, "x-") || coreTrailerNames[n]) {
		return false
	}
	for i := 0; i < len(n); i++ {
		c := n[i]
		if !(c >= 'a' && c <= 'z' || c >= '0' && c <= '9' || c == '-') {
			return false
		}
	}
	for i := 0; i < len(f.V); i++ {
		if f.V[i] < 0x20 || f.V[i] > 0x7e {
			return false
		}
	}
	return true
}

func modelSeq(w []byte, limit int, cl int64) seqExpect {
	e := seqExpect{}
	remaining := cl
	pos := 0
	stop := func(end int, reason string, rest int) seqExpect {
		e.end, e.reason, e.restAfter = end, reason, rest
		return e
	}
	for {
		if pos == len(w) {
			if cl >= 0 && remaining > 0 {
				return stop(endAny, "content-length-not-reached", 0)
			}
			return stop(endClean, "fin-after-complete-frame", 0)
		}
		t, n, ok := readVarint(w[pos:])
		if !ok {
			return stop(endAny, "fin-in-frame-header", 0)
		}
		l, m, ok := readVarint(w[pos+n:])
		if !ok {
			return stop(endAny, "fin-in-frame-header", 0)
		}
		hdrEnd := pos + n + m
		avail := uint64(len(w) - hdrEnd)
		if avail > l {
			avail = l
		}
		switch t {
		case 0x0: // DATA
			if e.afterTr {
				return stop(endError, "data-after-trailers", len(w)-hdrEnd)
			}
			if l == 0 {
				e.zeroData = true
			}
			if cl >= 0 && l > uint64(remaining) {
				take := avail
				if take >= uint64(remaining) {
					take = uint64(remaining)
					e.body = append(e.body, w[hdrEnd:hdrEnd+int(take)]...)
					return stop(endError, "content-length-exceeded", len(w)-hdrEnd-int(take))
				}
				e.body = append(e.body, w[hdrEnd:hdrEnd+int(take)]...)
				return stop(endAny, "fin-in-data-frame", 0)
			}
			e.body = append(e.body, w[hdrEnd:hdrEnd+int(avail)]...)
			remaining -= int64(avail)
			if avail < l {
				return stop(endAny, "fin-in-data-frame", 0)
			}
		case 0x1: // HEADERS
			if e.afterTr {
				return stop(endError, "headers-after-trailers", len(w)-hdrEnd)
			}
			if l > uint64(limit) {
				return stop(endError, "trailers-frame-over-limit", len(w)-hdrEnd)
			}
			if avail < l {
				if avail == 0 {
					return stop(endAny, "fin-after-headers-frame-header", 0)
				}
				return stop(endError, "trailers-truncated", 0)
			}
			fields, err := decodeBlock(w[hdrEnd : hdrEnd+int(l)])
			if err != nil {
				return stop(endError, "trailers-undecodable", len(w)-hdrEnd-int(l))
			}
			a := analyse("trl", fields, limit, true)
			if len(a.defects) > 0 {
				return stop(endError, "trailers-malformed:"+a.codes()[0], len(w)-hdrEnd-int(l))
			}
			e.trailer = map[string][]string{}
			for _, f := range fields {
				if !coreTrailerField(f) {
					e.grey = true
				}
				k := canon(string(f.N))
				e.trailer[k] = append(e.trailer[k], string(f.V))
			}
			e.afterTr = true
			e.emptyTr = len(fields) == 0
		case 0x2, 0x6, 0x8, 0x9: // reserved (HTTP/2) frame types: connection error H3_FRAME_UNEXPECTED
			return stop(endError, "reserved-frame", len(w)-hdrEnd)
		case 0x3, 0x4, 0x5, 0x7, 0xd: // known frames that do not belong on a request stream: not this property's business
			e.grey = true
			return stop(endAny, "control-frame", 0)
		default: // unknown / GREASE: skipped
			e.unknown = true
			if avail < l {
				return stop(endAny, "fin-in-unknown-frame", 0)
			}
		}
		pos = hdrEnd + int(l)
	}
}

// ---------------------------------------------------------------------------------------------
// in-memory stream (behaves like quic.ReceiveStream.Read: short reads, EOF with or after the last bytes, an error
// after CancelRead or after the connection was closed)

type seqStream struct {
	data        []byte
	pos         int
	chunk       []int
	ci          int
	eofWithData bool
	finSeen     bool
	dead        error
	connClosed  bool
	written     int
}

var _ http3.VerifDatagramStream = &seqStream{}

func (s *seqStream) Read(p []byte) (int, error) {
	if s.finSeen {
		return 0, io.EOF
	}
	if s.dead != nil {
		return 0, s.dead
	}
	if len(p) == 0 {
		return 0, nil
	}
	if s.pos == len(s.data) {
		s.finSeen = true
		return 0, io.EOF
	}
	n := len(s.data) - s.pos
	if n > len(p) {
		n = len(p)
	}
	if len(s.chunk) > 0 {
		if k := s.chunk[s.ci%len(s.chunk)]; k > 0 && n > k {
			n = k
		}
		s.ci++
	}
	copy(p, s.data[s.pos:s.pos+n])
	s.pos += n
	if s.pos == len(s.data) && s.eofWithData {
		s.finSeen = true
		return n, io.EOF
	}
	return n, nil
}
func (s *seqStream) Write(p []byte) (int, error) { s.written += len(p); return len(p), nil }
func (s *seqStream) Close() error                { return nil }
func (s *seqStream) CancelRead(code quic.StreamErrorCode) {
	if s.finSeen || s.dead != nil {
		return
	}
	s.dead = &quic.StreamError{StreamID: 0, ErrorCode: code, Remote: false}
}
func (s *seqStream) CancelWrite(quic.StreamErrorCode)  {}
func (s *seqStream) StreamID() quic.StreamID           { return 0 }
func (s *seqStream) Context() context.Context          { return context.Background() }
func (s *seqStream) SetDeadline(time.Time) error       { return nil }
func (s *seqStream) SetReadDeadline(time.Time) error   { return nil }
func (s *seqStream) SetWriteDeadline(time.Time) error  { return nil }
func (s *seqStream) SendDatagram([]byte) error         { return errors.New("verif: no datagrams") }
func (s *seqStream) QUICStream() *quic.Stream          { return nil }
func (s *seqStream) ReceiveDatagram(context.Context) ([]byte, error) {
	return nil, errors.New("verif: no datagrams")
}

// closeConn is what the connection's CloseWithError does to the stream: every later Read fails.
func (s *seqStream) closeConn(code quic.ApplicationErrorCode, msg string) error {
	s.connClosed = true
	if s.dead == nil {
		s.dead = &quic.ApplicationError{ErrorCode: code, ErrorMessage: msg}
	}
	return nil
}

// ---------------------------------------------------------------------------------------------
// the monitored consumer

type seqMonitor struct {
	r       io.Reader
	trailer func() http.Header
	st      *seqStream
	exp     *seqExpect
	got     []byte
	reads   int
	bound   int
	first   error // first error any Read returned (io.EOF included)
	firstAt int
	snap    map[string][]string
	v       *vf.Verdict
	nilConn bool
}

var errNilConnClosed = errors.New("verif: connection closed with H3_FRAME_UNEXPECTED (no connection in this harness)")

// safeRead calls Read. The Stream has no connection (conn == nil, see verif_hooks_c19c.go): where Stream.Read closes the
// connection itself (a SETTINGS / GOAWAY frame on a request stream - never sent on purpose, but a reader that goes on
// after an error may parse the unread payload of a rejected HEADERS frame as frames), rawConn.CloseWithError dereferences
// nil. Exactly that panic is taken for what the real call does: the connection is closed, the stream is dead, the Read
// fails. Any other panic is passed on (vf.Guard turns it into a violation).
func (m *seqMonitor) safeRead(p []byte) (n int, err error) {
	defer func() {
		if r := recover(); r != nil {
			if _, ok := r.(runtime.Error); ok && strings.Contains(string(debug.Stack()), "http3.(*rawConn).CloseWithError") {
				m.nilConn = true
				m.st.closeConn(0x105, "")
				n, err = 0, errNilConnClosed
				return
			}
			panic(r)
		}
	}()
	return m.r.Read(p)
}

func headerMap(h http.Header) map[string][]string {
	if h == nil {
		return nil
	}
	out := make(map[string][]string, len(h))
	for k, v := range h {
		out[k] = append([]string(nil), v...)
	}
	return out
}

func (m *seqMonitor) bad(sig, format string, args ...any) {
	if m.v == nil {
		m.v = vf.Bad(sig, format, args...)
	}
}

func (m *seqMonitor) Read(p []byte) (int, error) {
	n, err := m.safeRead(p)
	m.reads++
	if m.v != nil {
		return n, err
	}
	if m.reads > m.bound {
		m.bad("C19/stream/no-progress", "%d Reads without reaching the end of a %d byte stream", m.reads, len(m.st.data))
		return n, io.ErrNoProgress
	}
	if n > 0 && m.first != nil {
		m.bad("C19/stream/body-after-reject", "Read #%d failed with %q (%s); Read #%d then delivered %d more body bytes %q",
			m.firstAt, m.first, m.exp.reason, m.reads, n, p[:n])
	}
	m.got = append(m.got, p[:n]...)
	if !bytes.HasPrefix(m.exp.body, m.got) {
		m.bad("C19/stream/body-mismatch", "after Read #%d the delivered bytes %q are not a prefix of the DATA payloads %q that precede %s", m.reads, m.got, m.exp.body, m.exp.reason)
	}
	m.checkTrailer()
	if err != nil && m.first == nil {
		m.first, m.firstAt = err, m.reads
		m.judgeEnd(err)
	}
	return n, err
}

func (m *seqMonitor) checkTrailer() {
	t := headerMap(m.trailer())
	switch {
	case t == nil && m.snap == nil:
	case t != nil && m.snap == nil:
		m.snap = t
		if m.first != nil {
			m.bad("C19/stream/trailers-after-reject", "Read #%d failed with %q (%s); after Read #%d the message's trailers are %v", m.firstAt, m.first, m.exp.reason, m.reads, t)
			return
		}
		if m.exp.trailer == nil {
			m.bad("C19/stream/malformed-trailers-accepted", "trailers %v became visible although the message has no well-formed trailer section (%s)", t, m.exp.reason)
			return
		}
		if ok, why := equalHeader(t, m.exp.trailer, true); !ok {
			m.bad("C19/stream/trailers-mismatch", "trailers %v, the trailer section is %v: %s", t, m.exp.trailer, why)
			return
		}
		if !bytes.Equal(m.got, m.exp.body) {
			m.bad("C19/stream/body-mismatch", "trailers visible after %q, the DATA payloads before the trailer section are %q", m.got, m.exp.body)
		}
	case t == nil:
		m.bad("C19/stream/trailers-mismatch", "trailers %v disappeared after Read #%d", m.snap, m.reads)
	default:
		if ok, why := equalHeader(t, m.snap, true); !ok {
			if m.first != nil {
				m.bad("C19/stream/trailers-after-reject", "Read #%d failed with %q (%s); after Read #%d the trailers changed from %v to %v", m.firstAt, m.first, m.exp.reason, m.reads, m.snap, t)
			} else {
				m.bad("C19/stream/trailers-replaced", "trailers changed from %v to %v (%s)", m.snap, t, why)
			}
		}
	}
}

func (m *seqMonitor) judgeEnd(err error) {
	if m.v != nil {
		return
	}
	switch m.exp.end {
	case endClean:
		if err != io.EOF {
			m.bad("C19/stream/valid-rejected", "well-formed frame sequence (body %q, trailers %v): Read #%d failed with %q", m.exp.body, m.exp.trailer, m.reads, err)
			return
		}
		if m.exp.trailer != nil && m.snap == nil {
			m.bad("C19/stream/trailers-mismatch", "end of message reached, trailer section %v not handed on", m.exp.trailer)
			return
		}
	case endError:
		if err == io.EOF {
			m.bad("C19/stream/reject-missing", "%s: the message ends with a clean io.EOF (Read #%d) after %q", m.exp.reason, m.reads, m.got)
			return
		}
	}
	if !bytes.Equal(m.got, m.exp.body) {
		m.bad("C19/stream/body-mismatch", "first error %q at Read #%d (%s): delivered %q, the DATA payloads before that point are %q", err, m.reads, m.exp.reason, m.got, m.exp.body)
	}
}

// ---------------------------------------------------------------------------------------------
// check

func responseHeaderFrame(cl int64) []byte {
	fields := []F{{":status", "200"}}
	if cl >= 0 {
		fields = append(fields, F{"content-length", S(fmt.Sprint(cl))})
	}
	p := qpackLib(fields)
	return SFrame{T: 1, P: S(p)}.wire()
}

func checkSeqCase(c SeqCase, u *vf.Unit) *vf.Verdict {
	w := seqWire(c)
	exp := modelSeq(w, c.Limit, c.CL)
	if exp.grey || c.Client && c.CL >= 0 && c.Limit < 128 {
		u.Class("grey-skipped")
		return nil
	}
	st := &seqStream{chunk: c.Chunk, eofWithData: c.EOFWithData}
	m := &seqMonitor{st: st, exp: &exp, bound: 2*len(w) + 4*len(c.Frames) + 64}
	if c.Client {
		st.data = append(responseHeaderFrame(c.CL), w...)
		rr := http3.VerifNewResponseReader(st, c.Limit, st.closeConn)
		req, _ := http.NewRequest(http.MethodGet, "https://example.com/", nil)
		if err := rr.SendRequestHeader(req); err != nil {
			return vf.Bad("C19/stream/valid-rejected", "SendRequestHeader: %v", err)
		}
		rsp, err := rr.ReadResponse()
		if err != nil {
			return vf.Bad("C19/stream/valid-rejected", "ReadResponse on a valid response header (content-length %d): %v", c.CL, err)
		}
		m.r, m.trailer = rsp.Body, func() http.Header { return rsp.Trailer }
		u.Class("side:client")
	} else {
		st.data = w
		br := http3.VerifNewRequestBodyReader(st, c.CL, c.Limit, st.closeConn)
		m.r, m.trailer = br.Request.Body, func() http.Header { return br.Request.Trailer }
		u.Class("side:server")
	}

	// phase 1: what every consumer does - read until the first error
	bufs := c.Bufs
	if len(bufs) == 0 {
		bufs = []int{512}
	}
	for i := 0; m.first == nil && m.v == nil; i++ {
		m.Read(make([]byte, bufs[i%len(bufs)]))
	}
	// phase 2: what a persistent consumer does afterwards
	switch c.Mode {
	case "reads":
		for i := 0; i < c.K && m.v == nil; i++ {
			m.Read(make([]byte, bufs[(i+1)%len(bufs)]))
		}
	case "copy":
		for i := 0; i < c.K && m.v == nil; i++ {
			io.Copy(io.Discard, m) // `defer io.Copy(io.Discard, r.Body)`
		}
	}
	if m.v == nil {
		m.checkTrailer() // ... and then the consumer looks at the trailers
	}
	if m.v != nil {
		return m.v
	}

	// bookkeeping
	u.Class("consumer:" + c.Mode)
	u.Class([]string{"end:clean", "end:error", "end:unjudged-c18"}[exp.end])
	u.Class("reason:" + exp.reason)
	if strings.HasPrefix(exp.reason, "fin-in") || strings.HasPrefix(exp.reason, "fin-after-headers") {
		u.Class("c18:fin-inside-frame")
		if m.first == io.EOF {
			u.Class("c18:fin-inside-frame-clean-eof")
		}
	}
	if exp.reason == "data-after-trailers" || exp.reason == "headers-after-trailers" {
		u.Class("c18:frame-after-trailers")
	}
	if exp.afterTr {
		u.Class("trailers-accepted")
		if exp.emptyTr {
			u.Class("empty-trailer-section")
		}
	}
	if strings.HasPrefix(exp.reason, "trailers-") {
		u.Class("trailer-section-rejected")
	}
	if exp.zeroData {
		u.Class("zero-length-data")
	}
	if exp.unknown {
		u.Class("unknown-frame")
	}
	if c.CL >= 0 {
		u.Class("content-length")
	}
	if m.nilConn {
		u.Class("conn-closed-via-nil-conn")
	}
	if st.connClosed {
		u.Class("connection-closed")
	}
	if exp.end == endError && c.Mode != "tidy" {
		u.Class("persistent-after-reject")
		if exp.restAfter > 0 {
			u.Class("persistent-after-reject-with-more-wire")
			if strings.HasPrefix(exp.reason, "trailers-") {
				u.Class("persistent-after-rejected-trailers-with-more-wire")
				u.NonTrivial("seq", c.Client, exp.reason, c.Mode, c.K, exp.restAfter, len(exp.body), c.Limit)
			}
		}
	}
	if exp.end == endClean && c.Mode != "tidy" {
		u.Class("persistent-after-eof")
	}
	return nil
}

// ---------------------------------------------------------------------------------------------
// generator

var (
	seqGoodNames  = []string{"x-checksum", "x-t", "server-timing", "grpc-status", "x-long-trailer-name", "grpc-message"}
	seqGoodValues = []string{"", "1", "0", "abc", "sha256=deadbeef", "miss, hit", "a b", "smuggled"}
	seqBadFields  = map[string][]F{
		"upper":    {{"X-Checksum", "1"}, {"x-Sum", "1"}, {"GRPC-STATUS", "0"}},
		"connspec": {{"connection", "close"}, {"keep-alive", "timeout=5"}, {"proxy-connection", "keep-alive"}, {"transfer-encoding", "chunked"}, {"upgrade", "websocket"}, {"te", "gzip"}},
		"pseudo":   {{":status", "200"}, {":path", "/"}, {":method", "GET"}, {":authority", "a"}, {":unknown", "x"}},
		"value":    {{"x-checksum", "a\r\nb"}, {"x-checksum", "a\x00"}, {"x-t", "\x7f"}, {"x-t", "a\nx-evil: 1"}, {"x-t", "\x01"}},
		"name":     {{"x checksum", "1"}, {"x@y", "1"}, {"", "1"}, {"x\x00y", "1"}, {"x:y", "1"}, {"x-\xc3\xa4", "1"}},
	}
	seqBadKinds    = []string{"upper", "connspec", "pseudo", "value", "name", "oversize", "undecodable", "undecodable-tail"}
	seqUndecodable = [][]byte{{}, {0x00}, {0x00, 0x00, 0xff}, {0x00, 0x00, 0x27, 0x05, 'a'}, {0x05, 0x00, 0xc0}, {0x00, 0x01, 0xc0},
		{0x00, 0x00, 0x80}, {0x00, 0x00, 0xff, 0xff, 0x7f}, {0x00, 0x00, 0x10}, {0x00, 0x00, 0x23, 'x', '-', 't', 0x85, 0xff, 0xff, 0xff, 0xff, 0xff}}
	seqUnknownTypes = []uint64{0x21, 0x40, 0x5f, 0x0a, 0x0e, 0x1f*7 + 0x21, 0x1f*1000 + 0x21, 0x1f*(1<<40) + 0x21, 1<<62 - 1}
	seqReserved     = []uint64{0x2, 0x6, 0x8, 0x9}
)

func genVarLen(t *rapid.T, label string) int {
	if rapid.IntRange(0, 9).Draw(t, label) > 0 {
		return 0
	}
	return rapid.SampledFrom([]int{2, 4, 8}).Draw(t, label+"-n")
}

func genGoodTrailerFields(t *rapid.T, min, max int) []F {
	n := rapid.IntRange(min, max).Draw(t, "ntrl")
	var fs []F
	for i := 0; i < n; i++ {
		fs = append(fs, F{S(rapid.SampledFrom(seqGoodNames).Draw(t, "tn")), S(rapid.SampledFrom(seqGoodValues).Draw(t, "tv"))})
	}
	return fs
}

func encodeSection(t *rapid.T, fs []F) []byte {
	if rapid.Bool().Draw(t, "plain-qpack") {
		return qpackPlain(fs)
	}
	return qpackLib(fs)
}

func genDataFrame(t *rapid.T) SFrame {
	var n int
	switch k := rapid.IntRange(0, 9).Draw(t, "dsize"); {
	case k < 2:
		n = 0
	case k < 7:
		n = rapid.IntRange(1, 12).Draw(t, "dlen")
	case k < 9:
		n = rapid.IntRange(13, 80).Draw(t, "dlen")
	default:
		n = rapid.IntRange(81, 600).Draw(t, "dlen")
	}
	p := make([]byte, n)
	seed := rapid.IntRange(0, 25).Draw(t, "dseed")
	for i := range p {
		p[i] = byte('a' + (seed+i)%26)
	}
	return SFrame{T: 0, P: S(p), TLen: genVarLen(t, "tl"), LLen: genVarLen(t, "ll"), Note: "data"}
}

func genUnknownFrame(t *rapid.T) SFrame {
	n := rapid.IntRange(0, 12).Draw(t, "ulen")
	p := make([]byte, n)
	for i := range p {
		p[i] = byte(rapid.IntRange(0, 255).Draw(t, "ub"))
	}
	return SFrame{T: rapid.SampledFrom(seqUnknownTypes).Draw(t, "utype"), P: S(p), TLen: genVarLen(t, "tl"), LLen: genVarLen(t, "ll"), Note: "unknown"}
}

func genGoodTrailers(t *rapid.T) SFrame {
	fs := genGoodTrailerFields(t, 0, 3)
	return SFrame{T: 1, P: S(encodeSection(t, fs)), TLen: genVarLen(t, "tl"), LLen: genVarLen(t, "ll"), Note: "trailers"}
}

func genBadTrailers(t *rapid.T, limit int) SFrame {
	kind := rapid.SampledFrom(seqBadKinds).Draw(t, "bad")
	f := SFrame{T: 1, TLen: genVarLen(t, "tl"), LLen: genVarLen(t, "ll"), Note: "bad-trailers:" + kind}
	switch kind {
	case "undecodable":
		f.P = S(rapid.SampledFrom(seqUndecodable).Draw(t, "raw"))
	case "undecodable-tail":
		p := encodeSection(t, genGoodTrailerFields(t, 1, 2))
		if rapid.Bool().Draw(t, "chop") {
			p = p[:len(p)-1]
		} else {
			p = append(p, 0xff, 0xff)
		}
		f.P = S(p)
	case "oversize":
		// decoded size (name + value + 32 per field) beyond the limit, encoded size within it
		if limit > 2000 {
			limit = 2000 // (then it is simply a well-formed section)
		}
		var fs []F
		if rapid.Bool().Draw(t, "many") {
			for i := 0; i <= limit/36; i++ {
				fs = append(fs, F{"x-t", "1"})
			}
			f.P = S(qpackLib(fs))
		} else {
			fs = []F{{"x-t", S(strings.Repeat("a", limit))}}
			f.P = S(qpackLib(fs)) // Huffman: 5 bits per 'a'
		}
	default:
		bad := rapid.SampledFrom(seqBadFields[kind]).Draw(t, "badf")
		before := genGoodTrailerFields(t, 0, 2)
		after := genGoodTrailerFields(t, 0, 2)
		fs := append(append(before, bad), after...)
		f.P = S(encodeSection(t, fs))
	}
	return f
}

func genOverLimitFrame(t *rapid.T, limit int) SFrame {
	f := SFrame{T: 1, TLen: genVarLen(t, "tl"), LLen: genVarLen(t, "ll"), Note: "trailers-frame-over-limit"}
	switch k := rapid.IntRange(0, 3).Draw(t, "over"); {
	case k == 0 && limit <= 1024: // the payload is really there
		f.P = S(qpackPlain([]F{{"x-long-trailer-name", S(strings.Repeat("v", limit))}}))
	case k == 1:
		f.Extra = uint64(limit) + 1
	case k == 2:
		f.Extra = uint64(limit) + uint64(rapid.IntRange(2, 100000).Draw(t, "extra"))
	default:
		f.Extra = rapid.SampledFrom([]uint64{1 << 24, 1 << 32, 1 << 40, 1<<62 - 1}).Draw(t, "huge")
	}
	return f
}

func genReservedFrame(t *rapid.T) SFrame {
	n := rapid.IntRange(0, 6).Draw(t, "rlen")
	return SFrame{T: rapid.SampledFrom(seqReserved).Draw(t, "rtype"), P: S(make([]byte, n)), Note: "reserved"}
}

func genSeqCase(t *rapid.T) SeqCase {
	c := SeqCase{Client: rapid.Bool().Draw(t, "client"), CL: -1, Cut: -1}
	c.Limit = rapid.SampledFrom([]int{64, 200, 1024, 65536, 200, 1024}).Draw(t, "limit")
	nPre := rapid.IntRange(0, 3).Draw(t, "npre")
	for i := 0; i < nPre; i++ {
		if rapid.IntRange(0, 3).Draw(t, "pre") == 0 {
			c.Frames = append(c.Frames, genUnknownFrame(t))
		} else {
			c.Frames = append(c.Frames, genDataFrame(t))
		}
	}
	bodyLen := 0
	for _, f := range c.Frames {
		if f.T == 0 {
			bodyLen += len(f.P)
		}
	}
	ev := rapid.IntRange(0, 99).Draw(t, "event")
	switch {
	case ev < 30:
		c.Frames = append(c.Frames, genGoodTrailers(t))
	case ev < 70:
		c.Frames = append(c.Frames, genBadTrailers(t, c.Limit))
	case ev < 80:
		c.Frames = append(c.Frames, genOverLimitFrame(t, c.Limit))
	case ev < 85:
		c.Frames = append(c.Frames, genReservedFrame(t))
	}
	if ev < 85 {
		nPost := rapid.IntRange(0, 3).Draw(t, "npost")
		for i := 0; i < nPost; i++ {
			switch k := rapid.IntRange(0, 19).Draw(t, "post"); {
			case k < 8:
				c.Frames = append(c.Frames, genDataFrame(t))
			case k < 14:
				c.Frames = append(c.Frames, genGoodTrailers(t))
			case k < 16:
				c.Frames = append(c.Frames, genBadTrailers(t, c.Limit))
			case k < 19:
				c.Frames = append(c.Frames, genUnknownFrame(t))
			default:
				c.Frames = append(c.Frames, genReservedFrame(t))
			}
		}
	}
	// Content-Length: mostly absent or right (for the DATA frames ahead of the first HEADERS frame)
	switch k := rapid.IntRange(0, 19).Draw(t, "cl"); {
	case k < 13:
	case k < 17:
		c.CL = int64(bodyLen)
	case k < 18 && bodyLen > 0:
		c.CL = int64(rapid.IntRange(0, bodyLen-1).Draw(t, "cl-less"))
	case k < 19:
		c.CL = int64(bodyLen + rapid.IntRange(1, 20).Draw(t, "cl-more"))
	}
	if c.Client && c.Limit < 128 {
		c.CL = -1 // the limit also covers the response header: ":status" + "content-length" do not fit into 64 bytes
	}
	// FIN
	total := 0
	var bounds []int
	for _, f := range c.Frames {
		total += len(f.wire())
		bounds = append(bounds, total)
	}
	switch k := rapid.IntRange(0, 19).Draw(t, "fin"); {
	case k < 11 || total == 0:
	case k < 14:
		c.Cut = rapid.SampledFrom(bounds).Draw(t, "cut-boundary")
	default:
		c.Cut = rapid.IntRange(0, total).Draw(t, "cut")
	}
	c.Chunk = rapid.SliceOfN(rapid.SampledFrom([]int{0, 0, 1, 2, 3, 7, 64}), 1, 3).Draw(t, "chunk")
	c.EOFWithData = rapid.Bool().Draw(t, "eof-with-data")
	c.Bufs = rapid.SliceOfN(rapid.SampledFrom([]int{1, 2, 5, 16, 64, 512, 4096}), 1, 3).Draw(t, "bufs")
	switch k := rapid.IntRange(0, 9).Draw(t, "mode"); {
	case k < 2:
		c.Mode = "tidy"
	case k < 6:
		c.Mode = "reads"
		c.K = rapid.IntRange(1, 8).Draw(t, "k")
	default:
		c.Mode = "copy"
		c.K = rapid.IntRange(1, 3).Draw(t, "k")
	}
	return c
}

func TestStreamFramesSequence(t *testing.T) {
	vf.RunRapid(t, "stream-frames-sequence", genSeqCase, checkSeqCase)
}

// ---------------------------------------------------------------------------------------------
// pinned examples (unit "stream-frames-examples"): the shapes the generated unit is about, spelled out, on both sides and
// for every consumer; they pin the reference interpretation as well (expected classification stated per example).

func TestStreamFramesExamples(t *testing.T) {
	u := vf.U("stream-frames-examples")
	data := func(s string) SFrame { return SFrame{T: 0, P: S(s)} }
	hdr := func(fs ...F) SFrame { return SFrame{T: 1, P: S(qpackPlain(fs))} }
	hdrLib := func(fs ...F) SFrame { return SFrame{T: 1, P: S(qpackLib(fs))} }
	good := hdr(F{"x-checksum", "smuggled"})
	type ex struct {
		name    string
		frames  []SFrame
		cut     int
		limit   int
		end     int
		reason  string
		body    string
		trailer bool
	}
	exs := []ex{
		{"well-formed", []SFrame{data("body"), data(""), hdrLib(F{"x-checksum", "1"}, F{"x-checksum", "2"})}, -1, 1024, endClean, "fin-after-complete-frame", "body", true},
		{"no-trailers", []SFrame{data("bo"), {T: 0x21, P: "zz"}, data("dy")}, -1, 1024, endClean, "fin-after-complete-frame", "body", false},
		{"empty-section-then-trailers", []SFrame{data("body"), hdr(), good}, -1, 1024, endError, "headers-after-trailers", "body", true},
		{"data-after-trailers", []SFrame{data("body"), good, data("more")}, -1, 1024, endError, "data-after-trailers", "body", true},
		{"reserved", []SFrame{data("body"), {T: 0x2, P: "x"}, data("more")}, -1, 1024, endError, "reserved-frame", "body", false},
		{"over-frame-limit", []SFrame{data("body"), {T: 1, Extra: 65}, good, data("more")}, -1, 64, endError, "trailers-frame-over-limit", "body", false},
		{"truncated-section", []SFrame{data("body"), good}, 6 + 5, 1024, endError, "trailers-truncated", "body", false},
		{"fin-in-data", []SFrame{data("body")}, 4, 1024, endAny, "fin-in-data-frame", "bo", false},
		{"undecodable", []SFrame{data("body"), {T: 1, P: S([]byte{0, 0, 0xff})}, good, data("more")}, -1, 1024, endError, "trailers-undecodable", "body", false},
		{"decoded-size-over-limit", []SFrame{data("body"), hdrLib(F{"x-t", S(strings.Repeat("a", 64))}), good, data("more")}, -1, 64, endError, "trailers-malformed:oversize", "body", false},
	}
	for _, bad := range []F{{"connection", "close"}, {"X-Checksum", "1"}, {":status", "200"}, {"x-checksum", "a\r\nb"}, {"x checksum", "1"}, {"te", "gzip"}} {
		exs = append(exs, ex{"malformed " + bad.String(), []SFrame{data("body"), hdr(F{"x-t", "1"}, bad), good, data("smuggled body")}, -1, 1024, endError, "trailers-malformed:", "body", false})
	}
	for _, e := range exs {
		w := seqWire(SeqCase{Frames: e.frames, Cut: e.cut})
		exp := modelSeq(w, e.limit, -1)
		if exp.end != e.end || !strings.HasPrefix(exp.reason, e.reason) || string(exp.body) != e.body || (exp.trailer != nil) != e.trailer || exp.grey {
			t.Fatalf("example %q: reference interpretation %+v", e.name, exp)
		}
		for _, client := range []bool{false, true} {
			for _, mode := range []string{"tidy", "reads", "copy"} {
				for _, buf := range []int{1, 3, 512} {
					c := SeqCase{Client: client, Limit: e.limit, CL: -1, Frames: e.frames, Cut: e.cut, Bufs: []int{buf}, Mode: mode, K: 6, EOFWithData: buf == 3}
					u.Case()
					if v := vf.Guard("stream-frames-examples", func() *vf.Verdict { return checkSeqCase(c, u) }); v != nil {
						if u.Report(v, c) {
							t.Fatalf("VIOLATION %s: example %q: %s", v.Sig, e.name, v.Detail)
						}
					}
				}
			}
		}
	}
}
