// Unit request-writer: valid http.Request values through requestWriter (the client's HEADERS frame and
// trailer frame), decoded with the qpack module, judged by the reference predicate, fed to the
// request / trailer parser and compared with the message.
package c19

import (
	"bytes"
	"fmt"
	"io"
	"net/http"
	"net/url"
	"sort"
	"strconv"
	"strings"
	"testing"

	"pgregory.net/rapid"

	"github.com/refraction-networking/uquic/http3"
	"github.com/refraction-networking/uquic/verif/vf"
)

type KV struct {
	K S   `json:"k"`
	V []S `json:"v"`
}

// WCase describes an http.Request the way a user of net/http would build it.
type WCase struct {
	Method             string `json:"method"`
	Host               string `json:"host"`             // URL.Host
	Target             string `json:"target"`           // escaped path [?query]; "" or starting with "/"
	Opaque             string `json:"opaque,omitempty"` // "" | "abs" (URL.Opaque = //host/target, golang.org/issue/16847) | "star" (OPTIONS *)
	HostOverride       string `json:"host_override,omitempty"`
	Proto              string `json:"proto"`
	Header             []KV   `json:"header"`
	Trailer            []KV   `json:"trailer,omitempty"`
	Body               int    `json:"body"` // -2 nil, -1 http.NoBody, n >= 0: reader over n bytes
	CL                 int64  `json:"cl"`   // Request.ContentLength
	DisableCompression bool   `json:"disable_compression,omitempty"`
}

// hosts with the authority the client has to put on the wire (IDNA / punycode table written by hand).
var hostTable = map[string]string{
	"example.com":           "example.com",
	"example.com:8443":      "example.com:8443",
	"a":                     "a",
	"127.0.0.1:443":         "127.0.0.1:443",
	"[::1]:8443":            "[::1]:8443",
	"sub.Example.ORG":       "sub.Example.ORG",
	"bücher.example":     "xn--bcher-kva.example",
	"bücher.example:444": "xn--bcher-kva.example:444",
}

var (
	wTargets = []string{"", "/", "/a/b", "/a/b?x=1&y=2", "/%41%2fb", "/a%20b", "/~u/-._", "/a;p=1/b", "/a?", "/q?k=v&k=w&e=%3D", "/a:b@c", "/a+b,c=d$e",
		"/a!b'(c)*", "//double", "/a/../b", "/?only=query", "/x?y=a%20b+c"}
	wHeaderNames = []string{"Accept", "Accept-Language", "X-Custom", "X-A", "x-lower", "X-UPPER", "x-custom", "Cookie", "cookie", "Authorization",
		"Content-Type", "X_y.Z!", "If-None-Match", "Cache-Control", "X-1"}
	wSpecialNames = []string{"Host", "Content-Length", "Connection", "Keep-Alive", "Proxy-Connection", "Transfer-Encoding", "Upgrade", "Te", "Trailer",
		"Range", "Accept-Encoding", "User-Agent", "user-agent", "TE", "connection", "accept-encoding"}
	wValues        = []string{"", "v", "1", "a b", "text/html; charset=utf-8", "\"quoted\"", "\xc3\xa9", "a\tb", " lead", "trail ", "gzip, br", "a=b", "c=d; e=f", "W/\"x\"", "\xff"}
	wTrailerNames  = []string{"X-T", "X-U", "x-lower-t", "X-Checksum", "Server-Timing"}
	wTrailerForbid = []string{"Content-Length", "Host", "Trailer", "Transfer-Encoding", "Authorization", "If-Match", "Te", "Content-Type", "Connection", "Range"}
)

// wTEValues: the canonical spelling, case / whitespace variants of it, lists with and without the keyword, other codings.
var wTEValues = []string{"trailers", "trailers", "trailers", "Trailers", "TRAILERS", "tRaIlErS", " trailers", "trailers ", "\ttrailers", " Trailers  ", "TRAILERS ",
	"gzip", "deflate;q=0.5", "trailers, deflate", "gzip,Trailers", "trailers,trailers", "Trailers;q=1", "trailer", "trailers2", ""}

// teMeaning classifies one caller-supplied TE value: "keyword" = the trailers keyword alone (any case, surrounding
// whitespace), "list" = a list that contains the keyword among other members, "other" = no trailers keyword.
func teMeaning(v string) string {
	if strings.EqualFold(strings.Trim(v, " \t"), "trailers") {
		return "keyword"
	}
	for _, m := range strings.Split(v, ",") {
		if strings.EqualFold(strings.Trim(m, " \t"), "trailers") {
			return "list"
		}
	}
	return "other"
}

func genKV(t *rapid.T, name string) KV {
	kv := KV{K: S(name)}
	n := rapid.SampledFrom([]int{1, 1, 1, 2, 2, 3, 0}).Draw(t, "nv")
	for i := 0; i < n; i++ {
		kv.V = append(kv.V, S(pick(t, "v", wValues)))
	}
	return kv
}

func genWCase(t *rapid.T) WCase {
	c := WCase{Proto: "HTTP/1.1", Body: -2}
	hosts := make([]string, 0, len(hostTable))
	for h := range hostTable {
		hosts = append(hosts, h)
	}
	sort.Strings(hosts)
	c.Host = pick(t, "host", hosts)
	c.Method = rapid.SampledFrom([]string{"GET", "GET", "GET", "HEAD", "POST", "POST", "PUT", "DELETE", "OPTIONS", "PATCH", "CONNECT", "CONNECT", "PROPFIND", "M-SEARCH", ""}).Draw(t, "method")
	c.Target = pick(t, "target", wTargets)
	switch rapid.IntRange(0, 19).Draw(t, "urlmode") {
	case 0:
		c.Opaque = "abs"
		if c.Target == "" {
			c.Target = "/"
		}
	case 1:
		if c.Method == "OPTIONS" {
			c.Opaque = "star"
		}
	}
	if rapid.IntRange(0, 3).Draw(t, "override") == 0 {
		c.HostOverride = pick(t, "hostov", hosts)
	}
	if c.Method == "CONNECT" {
		c.Proto = rapid.SampledFrom([]string{"HTTP/1.1", "", "websocket", "connect-udp", "webtransport"}).Draw(t, "proto")
		if !strings.Contains(c.Host, ":") || strings.HasSuffix(c.Host, "]") {
			c.Host += ":443"
			if _, ok := hostTable[c.Host]; !ok {
				c.Host = "example.com:8443"
			}
		}
	} else {
		c.Proto = rapid.SampledFrom([]string{"HTTP/1.1", "HTTP/1.1", "", "HTTP/2.0", "HTTP/3.0"}).Draw(t, "proto")
	}

	used := map[string]bool{}
	n := rapid.IntRange(0, 6).Draw(t, "nh")
	for i := 0; i < n; i++ {
		var name string
		if rapid.IntRange(0, 3).Draw(t, "special") == 0 {
			name = pick(t, "sn", wSpecialNames)
		} else {
			name = pick(t, "hn", wHeaderNames)
		}
		if used[name] {
			continue
		}
		used[name] = true
		kv := genKV(t, name)
		switch asciiLower(name) {
		case "te":
			kv.V = nil
			// RFC 9110 10.1.4: the keyword is case-insensitive (ABNF literal) and RFC 9110 5.5 / 5.6.1 make the whitespace
			// around a value / list member insignificant, so callers legitimately write "Trailers", " trailers" ...; lists
			// and several TE lines are legal HTTP/1.1 usage that an HTTP/3 writer has to reduce (RFC 9114 4.2)
			for j := rapid.SampledFrom([]int{1, 1, 2, 3}).Draw(t, "nte"); j > 0; j-- {
				kv.V = append(kv.V, S(pick(t, "te", wTEValues)))
			}
		case "trailer":
			kv.V = []S{S(pick(t, "tr", []string{"X-T", "X-T, X-U", "x-v"}))}
		case "content-length":
			kv.V = []S{S(pick(t, "hcl", []string{"3", "0", "999"}))}
		case "host":
			kv.V = []S{"other.example"}
		case "range":
			kv.V = []S{"bytes=0-9"}
		case "accept-encoding":
			kv.V = []S{S(pick(t, "ae", []string{"br", "gzip", "identity", ""}))}
		case "user-agent":
			kv.V = nil
			for j := rapid.IntRange(0, 2).Draw(t, "nua"); j > 0; j-- {
				kv.V = append(kv.V, S(pick(t, "ua", []string{"ua/1.0", "", "other/2"})))
			}
		case "connection":
			kv.V = []S{S(pick(t, "conn", []string{"close", "keep-alive", "upgrade"}))}
		case "transfer-encoding":
			kv.V = []S{"chunked"}
		case "upgrade":
			kv.V = []S{"websocket"}
		}
		c.Header = append(c.Header, kv)
	}

	switch rapid.IntRange(0, 5).Draw(t, "bodymode") {
	case 0, 1:
		c.Body, c.CL = -2, 0
	case 2:
		c.Body, c.CL = -1, 0
	case 3:
		c.Body = rapid.IntRange(1, 100000).Draw(t, "bodylen")
		c.CL = int64(c.Body)
	case 4:
		c.Body = rapid.IntRange(0, 100).Draw(t, "bodylen")
		c.CL = rapid.SampledFrom([]int64{0, -1}).Draw(t, "unknowncl")
	case 5:
		c.Body = 0
		c.CL = 0
	}
	if c.Body != -2 && rapid.IntRange(0, 2).Draw(t, "trailers") == 0 {
		usedT := map[string]bool{}
		for i := rapid.IntRange(1, 3).Draw(t, "nt"); i > 0; i-- {
			var name string
			if rapid.IntRange(0, 4).Draw(t, "forbid") == 0 {
				name = pick(t, "ft", wTrailerForbid)
			} else {
				name = pick(t, "tn", wTrailerNames)
			}
			if usedT[name] {
				continue
			}
			usedT[name] = true
			c.Trailer = append(c.Trailer, genKV(t, name))
		}
	}
	c.DisableCompression = rapid.IntRange(0, 3).Draw(t, "nocompress") == 0
	return c
}

type zeroReader struct{ n int }

func (z *zeroReader) Read(p []byte) (int, error) {
	if z.n == 0 {
		return 0, io.EOF
	}
	n := min(len(p), z.n)
	for i := range p[:n] {
		p[i] = 'x'
	}
	z.n -= n
	return n, nil
}

func buildRequest(c WCase) (*http.Request, error) {
	var u *url.URL
	switch c.Opaque {
	case "star":
		u = &url.URL{Scheme: "https", Host: c.Host, Opaque: "*"}
	case "abs":
		u = &url.URL{Scheme: "https", Host: c.Host, Opaque: "//" + c.Host + c.Target}
	default:
		var err error
		u, err = url.Parse("https://" + c.Host + c.Target)
		if err != nil {
			return nil, err
		}
	}
	req := &http.Request{Method: c.Method, URL: u, Proto: c.Proto, Header: http.Header{}, Host: c.HostOverride, ContentLength: c.CL}
	for _, kv := range c.Header {
		vals := make([]string, len(kv.V))
		for i, v := range kv.V {
			vals[i] = string(v)
		}
		req.Header[string(kv.K)] = vals
	}
	if len(c.Trailer) > 0 {
		req.Trailer = http.Header{}
		for _, kv := range c.Trailer {
			var vals []string
			for _, v := range kv.V {
				vals = append(vals, string(v))
			}
			req.Trailer[string(kv.K)] = vals
		}
	}
	switch {
	case c.Body == -1:
		req.Body = http.NoBody
	case c.Body >= 0:
		req.Body = io.NopCloser(&zeroReader{n: c.Body})
	}
	return req, nil
}

type nv struct{ n, v string }

func sortNV(x []nv) []nv {
	out := append([]nv(nil), x...)
	sort.Slice(out, func(i, j int) bool {
		if out[i].n != out[j].n {
			return out[i].n < out[j].n
		}
		return out[i].v < out[j].v
	})
	return out
}

func nvString(x []nv) string {
	var b strings.Builder
	for _, e := range x {
		fmt.Fprintf(&b, "[%q: %q] ", e.n, e.v)
	}
	return b.String()
}

// headersFrameFields checks that b is exactly one HEADERS frame and decodes its field section.
func headersFrameFields(b []byte) ([]F, error) {
	frames, err := splitFrames(b)
	if err != nil {
		return nil, err
	}
	if len(frames) != 1 || frames[0].typ != 1 {
		return nil, fmt.Errorf("expected exactly one HEADERS frame, got %d frames (first type %v)", len(frames), frames)
	}
	return decodeBlock(frames[0].payload)
}

const writerParseLimit = 1 << 20 // http.DefaultMaxHeaderBytes, the server's default (server.go maxHeaderBytes)

func checkWCase(c WCase, u *vf.Unit) *vf.Verdict {
	k := &collector{u: u, c: c}
	req, err := buildRequest(c)
	if err != nil {
		u.Class("gen-url-error")
		return nil
	}
	// the real caller (RequestStream.sendRequestHeader, stream.go) decides about gzip like this:
	gzip := !c.DisableCompression && req.Method != http.MethodHead && req.Header.Get("Accept-Encoding") == "" && req.Header.Get("Range") == ""

	var buf bytes.Buffer
	werr := http3.VerifWriteRequestHeader(&buf, req, gzip)
	if werr != nil {
		u.Class("writer-error")
		if c.Opaque == "" {
			k.bad("C19/writer/rejects-valid", "request writer refused a valid request: %v", werr)
		}
		return k.first
	}
	fields, err := headersFrameFields(buf.Bytes())
	if err != nil {
		k.bad("C19/writer/malformed-output", "request HEADERS frame: %v", err)
		return k.first
	}

	// ---- the message, as the model sees it
	method := c.Method
	isConnect := method == "CONNECT"
	extended := isConnect && c.Proto != "" && c.Proto != "HTTP/1.1"
	authorityIn := c.Host
	if c.HostOverride != "" {
		authorityIn = c.HostOverride
	}
	authority := hostTable[authorityIn]
	wantPath := req.URL.RequestURI() // net/url defines the request target of an http.Request
	switch c.Opaque {
	case "abs":
		wantPath = c.Target
	case "":
		if want := c.Target; want != wantPath && !(want == "" && wantPath == "/") && !(strings.HasPrefix(want, "/?") && false) {
			u.Class("gen-target-normalised")
		}
	}

	var want []nv
	multiSource := map[string]int{}
	hasUA := false
	teDropped, teVariant, teList := 0, 0, 0
	for _, kv := range c.Header {
		l := asciiLower(string(kv.K))
		multiSource[l]++
		switch {
		case l == "host" || l == "content-length": // replaced by :authority / the real length
			continue
		case connSpecific[l]: // deliberately not sent (RFC 9114 4.2)
			continue
		case l == "user-agent": // at most one, empty means none (net/http behaviour)
			hasUA = true
			if len(kv.V) > 0 && kv.V[0] != "" {
				want = append(want, nv{l, string(kv.V[0])})
			}
			continue
		}
		for _, v := range kv.V {
			if l == "te" {
				// The request means "TE: trailers" when a value is the keyword in any spelling; on the wire only the exact
				// lowercase form is permitted (RFC 9114 4.2), so that is what the writer has to emit for it. A list that
				// contains the keyword may be reduced to it or dropped (a writer need not parse lists): optional.
				switch teMeaning(string(v)) {
				case "keyword":
					if v != "trailers" {
						teVariant++
					}
					want = append(want, nv{l, "trailers"})
					continue
				case "list":
					teList++
				}
			}
			want = append(want, nv{l, string(v)})
		}
	}
	if !hasUA {
		want = append(want, nv{"user-agent", "*"}) // default user agent, value not judged
	}
	if gzip {
		want = append(want, nv{"accept-encoding", "gzip"})
	}

	// ---- the emitted section against the reference predicate
	a := analyse("req", fields, writerParseLimit, true)
	for _, code := range a.codes() {
		switch {
		case code == "te-not-trailers":
			k.bad("C19/writer/te-not-trailers", "request writer emitted a te field other than \"trailers\": %s", fieldsString(fields))
		case code == "missing-method" && c.Method == "":
			k.bad("C19/writer/empty-method", "Request.Method \"\" (documented as GET) is written as an empty :method: %s", fieldsString(fields))
		default:
			k.bad("C19/writer/malformed-output", "request writer emitted a malformed section (%s): %s", code, fieldsString(fields))
		}
	}

	// ---- pseudo fields
	wantPseudo := map[string]string{":authority": authority, ":method": method}
	if method == "" {
		wantPseudo[":method"] = "GET"
	}
	if !isConnect || extended {
		wantPseudo[":path"] = wantPath
		wantPseudo[":scheme"] = "https"
	}
	if extended {
		wantPseudo[":protocol"] = c.Proto
	}
	for name, wv := range wantPseudo {
		gv := a.pseudo[name]
		if name == ":method" && c.Method == "" && len(gv) == 1 && gv[0] == "" {
			continue // reported above as empty-method
		}
		if len(gv) != 1 || gv[0] != wv {
			k.bad("C19/writer/decode-mismatch", "pseudo field %s: emitted %q, message has %q (%s)", name, gv, wv, fieldsString(fields))
		}
	}
	for name := range a.pseudo {
		if _, ok := wantPseudo[name]; !ok {
			k.bad("C19/writer/decode-mismatch", "unexpected pseudo field %s = %q", name, a.pseudo[name])
		}
	}

	// ---- regular fields: multiset, and order per single-source name
	var got []nv
	var gotCL, gotTrailer []string
	for _, f := range a.regular {
		n, v := string(f.N), string(f.V)
		switch n {
		case "content-length":
			gotCL = append(gotCL, v)
		case "trailer":
			gotTrailer = append(gotTrailer, v)
		case "user-agent":
			if !hasUA {
				v = "*"
			}
			got = append(got, nv{n, v})
		default:
			got = append(got, nv{n, v})
		}
	}
	// te: values other than "trailers" may be dropped by a writer (they must not be sent); "trailers" must stay
	filterTE := func(x []nv, count bool) []nv {
		out := x[:0:0]
		for _, e := range x {
			if e.n == "te" && e.v != "trailers" {
				if count {
					teDropped++
				}
				continue
			}
			out = append(out, e)
		}
		return out
	}
	wantCmp := filterTE(want, true)
	gotCmp := filterTE(got, false)
	{
		// up to teList further "trailers" (from reduced lists) are acceptable
		cnt := func(x []nv) (n int) {
			for _, e := range x {
				if e.n == "te" {
					n++
				}
			}
			return
		}
		for extra := cnt(gotCmp) - cnt(wantCmp); extra > 0 && extra <= teList; extra-- {
			wantCmp = append(wantCmp, nv{"te", "trailers"})
		}
	}
	// Trailer header values supplied by the user in Header["Trailer"] are ordinary fields here
	var wantTrailerFromHeader []string
	{
		tmp := wantCmp[:0:0]
		for _, e := range wantCmp {
			if e.n == "trailer" {
				wantTrailerFromHeader = append(wantTrailerFromHeader, e.v)
				continue
			}
			tmp = append(tmp, e)
		}
		wantCmp = tmp
	}
	if gs, ws := sortNV(gotCmp), sortNV(wantCmp); nvString(gs) != nvString(ws) {
		k.bad("C19/writer/decode-mismatch", "regular fields differ:\n emitted %s\n message %s", nvString(gs), nvString(ws))
	}
	for _, kv := range c.Header {
		l := asciiLower(string(kv.K))
		if multiSource[l] != 1 || l == "te" || l == "trailer" || l == "user-agent" || l == "accept-encoding" || l == "host" || l == "content-length" || connSpecific[l] {
			continue
		}
		var seq []string
		for _, e := range got {
			if e.n == l {
				seq = append(seq, e.v)
			}
		}
		var wseq []string
		for _, v := range kv.V {
			wseq = append(wseq, string(v))
		}
		if !equalStrings(seq, wseq) {
			k.bad("C19/writer/decode-mismatch", "values of %q reordered: emitted %q, message %q", l, seq, wseq)
		}
	}

	// ---- content length
	switch {
	case c.Body >= 1 && c.CL == int64(c.Body): // declared
		if len(gotCL) != 1 || gotCL[0] != strconv.FormatInt(c.CL, 10) {
			k.bad("C19/writer/decode-mismatch", "declared ContentLength %d, emitted content-length %q", c.CL, gotCL)
		}
	case c.Body >= 0 && c.CL <= 0 && !(c.Body == 0 && c.CL == 0): // unknown length
		if len(gotCL) != 0 {
			k.bad("C19/writer/decode-mismatch", "unknown body length (ContentLength %d), emitted content-length %q", c.CL, gotCL)
		}
	default: // no body: absent or "0"
		if len(gotCL) > 1 || (len(gotCL) == 1 && gotCL[0] != "0") {
			k.bad("C19/writer/decode-mismatch", "no body, emitted content-length %q", gotCL)
		}
	}

	// ---- announced trailers
	mustAnnounce, mayAnnounce := map[string]bool{}, map[string]bool{}
	for _, kv := range c.Trailer {
		name := canon(string(kv.K))
		mayAnnounce[name] = true
		if isPlainTrailerName(name) {
			mustAnnounce[name] = true
		}
	}
	for _, tok := range splitTrailerTokens(wantTrailerFromHeader) {
		mayAnnounce[tok] = true
		mustAnnounce[tok] = true
	}
	announced := map[string]bool{}
	for _, tok := range splitTrailerTokens(gotTrailer) {
		announced[tok] = true
		if !mayAnnounce[tok] {
			k.bad("C19/writer/decode-mismatch", "trailer %q announced but not in the message (emitted %q)", tok, gotTrailer)
		}
	}
	for tok := range mustAnnounce {
		if !announced[tok] {
			k.bad("C19/writer/decode-mismatch", "trailer %q of the message not announced (emitted %q)", tok, gotTrailer)
		}
	}

	// ---- the parser's view
	preq, perr := http3.VerifRequestFromHeaders(toQpack(fields), writerParseLimit)
	if perr != nil {
		if len(a.defects) == 0 {
			k.bad("C19/writer/parser-rejects", "request parser rejects what the request writer emitted: %v: %s", perr, fieldsString(fields))
		}
		u.Class("parser-rejected")
	} else {
		u.Class("parser-accepted")
		if wm := wantPseudo[":method"]; preq.Method != wm {
			k.bad("C19/writer/decode-mismatch", "parsed Method %q, message %q", preq.Method, wm)
		}
		if preq.Host != authority {
			k.bad("C19/writer/decode-mismatch", "parsed Host %q, message authority %q", preq.Host, authority)
		}
		if !isConnect && preq.RequestURI != wantPath {
			k.bad("C19/writer/decode-mismatch", "parsed RequestURI %q, message target %q", preq.RequestURI, wantPath)
		}
		msgPath := req.URL.Path
		if msgPath == "" {
			msgPath = "/" // RFC 9114 4.3.1: a URI without a path component is sent as "/"
		}
		if !isConnect && c.Opaque == "" && (preq.URL.Path != msgPath || preq.URL.RawQuery != req.URL.RawQuery) {
			k.bad("C19/writer/decode-mismatch", "parsed URL path %q query %q, message %q %q", preq.URL.Path, preq.URL.RawQuery, msgPath, req.URL.RawQuery)
		}
		if extended && (preq.URL.Scheme != "https" || preq.URL.Host != authority) {
			k.bad("C19/writer/decode-mismatch", "extended CONNECT: parsed URL %v", preq.URL)
		}
		// header multiset
		wantHdr := map[string][]string{}
		for _, e := range wantCmp {
			wantHdr[canon(e.n)] = append(wantHdr[canon(e.n)], e.v)
		}
		gotHdr := map[string][]string{}
		for kk, vv := range preq.Header {
			if kk == "Content-Length" {
				continue
			}
			vv = append([]string(nil), vv...)
			if kk == "User-Agent" && !hasUA {
				vv = []string{"*"}
			}
			if kk == "Te" {
				vv = nil
				for _, v := range preq.Header[kk] {
					if v == "trailers" {
						vv = append(vv, v)
					}
				}
				if len(vv) == 0 {
					continue
				}
			}
			gotHdr[kk] = vv
		}
		if ck, ok := wantHdr["Cookie"]; ok {
			// RFC 9114 4.2.1: crumbs joined with "; "
			var crumbs []string
			for _, v := range ck {
				crumbs = append(crumbs, strings.Split(v, "; ")...)
			}
			sort.Strings(crumbs)
			wantHdr["Cookie"] = crumbs
			if g, ok := gotHdr["Cookie"]; ok {
				if len(g) != 1 {
					k.bad("C19/writer/decode-mismatch", "parsed Cookie has %d values: %q", len(g), g)
				}
				var gc []string
				for _, v := range g {
					gc = append(gc, strings.Split(v, "; ")...)
				}
				sort.Strings(gc)
				gotHdr["Cookie"] = gc
			}
		}
		if ok, why := equalHeader(gotHdr, wantHdr, false); !ok {
			k.bad("C19/writer/decode-mismatch", "parsed header differs from the message: %s\n parsed %v\n message %v", why, gotHdr, wantHdr)
		}
		// content length
		switch {
		case c.Body >= 1 && c.CL == int64(c.Body):
			if preq.ContentLength != c.CL {
				k.bad("C19/writer/decode-mismatch", "parsed ContentLength %d, message %d", preq.ContentLength, c.CL)
			}
		case c.Body >= 0 && c.CL <= 0 && !(c.Body == 0 && c.CL == 0):
			if preq.ContentLength != -1 {
				k.bad("C19/writer/decode-mismatch", "parsed ContentLength %d for a body of unknown length", preq.ContentLength)
			}
		default:
			if preq.ContentLength != -1 && preq.ContentLength != 0 {
				k.bad("C19/writer/decode-mismatch", "parsed ContentLength %d for a request without body", preq.ContentLength)
			}
		}
		for tok := range mustAnnounce {
			if _, ok := preq.Trailer[tok]; !ok {
				k.bad("C19/writer/decode-mismatch", "parsed Request.Trailer %v lacks %q", preq.Trailer, tok)
			}
		}
		for tok := range preq.Trailer {
			if !mayAnnounce[tok] {
				k.bad("C19/writer/decode-mismatch", "parsed Request.Trailer has %q, not in the message", tok)
			}
		}
	}

	// ---- trailer section (sent by ClientConn.doRequest after the body when len(req.Trailer) > 0)
	if len(c.Trailer) > 0 {
		var tbuf bytes.Buffer
		if err := http3.VerifWriteRequestTrailer(&tbuf, req); err != nil {
			k.bad("C19/writer/rejects-valid", "trailer writer error: %v", err)
			return k.first
		}
		checkTrailerFrame(k, u, "C19/writer", tbuf.Bytes(), c.Trailer)
	}

	// ---- classes
	u.Class("method:" + map[bool]string{true: "(empty)", false: c.Method}[c.Method == ""])
	if extended {
		u.Class("extended-connect")
	}
	if c.HostOverride != "" {
		u.Class("host-override")
	}
	if c.Opaque != "" {
		u.Class("opaque:" + c.Opaque)
	}
	if gzip {
		u.Class("gzip")
	}
	if len(c.Trailer) > 0 {
		u.Class("trailers")
	}
	if len(gotCL) > 0 {
		u.Class("content-length")
	}
	if teDropped > 0 {
		u.Class("te-other")
	}
	if teVariant > 0 {
		u.Class("te-keyword-variant")
	}
	if teList > 0 {
		u.Class("te-list-with-keyword")
	}
	nTE := 0
	for _, kv := range c.Header {
		if asciiLower(string(kv.K)) == "te" {
			nTE += len(kv.V)
		}
	}
	if nTE > 1 {
		u.Class("te-multiple-lines")
	}
	if strings.Contains(c.Target, "?") {
		u.Class("query")
	}
	repeated := false
	for l, n := range multiSource {
		if n > 1 {
			repeated = true
			u.Class("folded-keys")
			_ = l
		}
	}
	for _, kv := range c.Header {
		if len(kv.V) > 1 {
			repeated = true
		}
		if connSpecific[asciiLower(string(kv.K))] {
			u.Class("dropped-connection-specific")
		}
		if asciiLower(string(kv.K)) == "cookie" && len(kv.V) > 1 {
			u.Class("cookies")
		}
	}
	if repeated {
		u.Class("repeated-fields")
		u.NonTrivial(fieldsString(fields))
	}
	return k.first
}

// isPlainTrailerName: names every implementation has to allow as trailers (nothing RFC 9110 6.5.1 excludes).
func isPlainTrailerName(canonName string) bool {
	l := asciiLower(canonName)
	return strings.HasPrefix(l, "x-") || l == "server-timing"
}

// checkTrailerFrame judges the trailer HEADERS frame a writer produced for the trailer map tr.
func checkTrailerFrame(k *collector, u *vf.Unit, sigp string, b []byte, tr []KV) {
	frames, err := splitFrames(b)
	if err != nil {
		k.bad(sigp+"/malformed-output", "trailer frame: %v", err)
		return
	}
	var must, may []nv
	for _, kv := range tr {
		name := asciiLower(string(kv.K))
		for _, v := range kv.V {
			may = append(may, nv{name, string(v)})
			if isPlainTrailerName(name) {
				must = append(must, nv{name, string(v)})
			}
		}
	}
	if len(frames) == 0 {
		if len(must) > 0 {
			k.bad(sigp+"/decode-mismatch", "no trailer frame although the message has trailers %s", nvString(must))
		}
		return
	}
	if len(frames) != 1 || frames[0].typ != 1 {
		k.bad(sigp+"/malformed-output", "trailer: expected one HEADERS frame, got %d", len(frames))
		return
	}
	fields, err := decodeBlock(frames[0].payload)
	if err != nil {
		k.bad(sigp+"/malformed-output", "trailer: QPACK: %v", err)
		return
	}
	u.Class("trailer-frame")
	a := analyse("trl", fields, writerParseLimit, true)
	for _, code := range a.codes() {
		k.bad(sigp+"/malformed-output", "trailer section malformed (%s): %s", code, fieldsString(fields))
	}
	hdr, perr := http3.VerifParseTrailers(toQpack(fields), writerParseLimit)
	if perr != nil {
		if len(a.defects) == 0 {
			k.bad(sigp+"/parser-rejects", "trailer parser rejects what the writer emitted: %v: %s", perr, fieldsString(fields))
		}
		return
	}
	var got []nv
	for _, f := range fields {
		got = append(got, nv{string(f.N), string(f.V)})
	}
	// must ⊆ got ⊆ may (as multisets)
	count := func(x []nv) map[nv]int {
		m := map[nv]int{}
		for _, e := range x {
			m[e]++
		}
		return m
	}
	gc, mc, yc := count(got), count(must), count(may)
	for e, n := range mc {
		if gc[e] < n {
			k.bad(sigp+"/decode-mismatch", "trailer %q: %q missing from the emitted section %s", e.n, e.v, nvString(got))
		}
	}
	for e, n := range gc {
		if yc[e] < n {
			k.bad(sigp+"/decode-mismatch", "trailer %q: %q emitted but not in the message", e.n, e.v)
		}
	}
	// parsed = emitted, canonical keys
	want := map[string][]string{}
	for _, e := range got {
		want[canon(e.n)] = append(want[canon(e.n)], e.v)
	}
	if ok, why := equalHeader(hdr, want, true); !ok {
		k.bad(sigp+"/decode-mismatch", "parsed trailer differs from the emitted one: %s", why)
	}
}

func TestRequestWriter(t *testing.T) {
	vf.RunRapid(t, "request-writer", genWCase, func(c WCase, u *vf.Unit) *vf.Verdict {
		v := checkWCase(c, u)
		if v == nil && u.WantSample() && len(c.Header) > 2 {
			u.Sample(c)
		}
		return v
	})
}
