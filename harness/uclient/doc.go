// Package uclient wraps the /repo hook VerifNewUClientConn (verif_hooks_uclient.go, build tag verif): it
// builds the client connection of a spec-driven ("parrot") dial from a specgen.Desc and a description of
// the user Config WITHOUT running it, reads the transport parameters that connection advertises from the
// ClientHello it produced (independent readers: sim.ParseClientHello, refwire), and lets a SCRIPTED PEER
// feed 1-RTT frames, encoded by refwire, into the production frame handling path.
//
// The peer is not an endpoint of this implementation: it can stay exactly within a limit, sit on it, go
// one beyond it, and it can use every legal encoding of a frame (DATAGRAM without length field, non-minimal
// varints), which the in-tree server never does.
//
// Everything except this file needs -tags verif (as every test package of the harness does).
package uclient
