//go:build verif

package uclient

import (
	"context"
	"errors"
	"fmt"
	"time"

	quic "github.com/refraction-networking/uquic"
	"github.com/refraction-networking/uquic/internal/ackhandler"
	"github.com/refraction-networking/uquic/internal/protocol"
	"github.com/refraction-networking/uquic/internal/wire"
	"github.com/refraction-networking/uquic/verif/refwire"
	"github.com/refraction-networking/uquic/verif/sim"
	"github.com/refraction-networking/uquic/verif/specgen"
)

// Cfg is the JSON-serialisable description of the user's quic.Config (the part that competes with the
// spec's transport parameters). Zero values mean "not set" exactly as in quic.Config.
type Cfg struct {
	Nil                   bool   `json:"nil,omitempty"` // the application passes a nil *quic.Config
	MaxIncomingStreams    int64  `json:"max_in_streams,omitempty"`
	MaxIncomingUniStreams int64  `json:"max_in_uni,omitempty"`
	EnableDatagrams       bool   `json:"datagrams,omitempty"`
	InitialStreamWin      uint64 `json:"init_stream_win,omitempty"`
	MaxStreamWin          uint64 `json:"max_stream_win,omitempty"`
	InitialConnWin        uint64 `json:"init_conn_win,omitempty"`
	MaxConnWin            uint64 `json:"max_conn_win,omitempty"`
	MaxIdleTimeoutMs      int    `json:"idle_ms,omitempty"`
	ResetPartial          bool   `json:"reset_partial,omitempty"` // EnableStreamResetPartialDelivery
	DisablePMTUD          bool   `json:"no_pmtud,omitempty"`
}

// Build returns the quic.Config (nil for Cfg.Nil).
func (c Cfg) Build() *quic.Config {
	if c.Nil {
		return nil
	}
	return &quic.Config{
		MaxIncomingStreams:               c.MaxIncomingStreams,
		MaxIncomingUniStreams:            c.MaxIncomingUniStreams,
		EnableDatagrams:                  c.EnableDatagrams,
		InitialStreamReceiveWindow:       c.InitialStreamWin,
		MaxStreamReceiveWindow:           c.MaxStreamWin,
		InitialConnectionReceiveWindow:   c.InitialConnWin,
		MaxConnectionReceiveWindow:       c.MaxConnWin,
		MaxIdleTimeout:                   time.Duration(c.MaxIdleTimeoutMs) * time.Millisecond,
		EnableStreamResetPartialDelivery: c.ResetPartial,
		DisablePathMTUDiscovery:          c.DisablePMTUD,
	}
}

// Advertised is the reading of the quic_transport_parameters extension of a ClientHello.
type Advertised struct {
	Raw    []byte                       // extension body as on the wire
	Params []refwire.TransportParameter // in wire order
	ints   map[uint64]uint64            // integer-valued parameters that are present
	has    map[uint64]bool
}

// ParseAdvertised reads a ClientHello handshake message (with its 4-byte header). It fails if the message
// has no quic_transport_parameters extension (0x39), if the extension body is malformed, if an
// integer-valued standard parameter does not hold exactly one varint, or if a standard parameter occurs
// twice (RFC 9000 7.4: a peer rejects such a list, so it advertises nothing).
func ParseAdvertised(clientHello []byte) (*Advertised, *sim.ClientHello, error) {
	msgs, _ := sim.HandshakeMessages(clientHello)
	if len(msgs) == 0 || msgs[0].Type != 1 {
		return nil, nil, errors.New("uclient: no complete ClientHello in the Initial crypto data")
	}
	ch, err := sim.ParseClientHello(msgs[0].Raw)
	if err != nil {
		return nil, nil, fmt.Errorf("uclient: ClientHello: %w", err)
	}
	body, ok := ch.Ext(0x39)
	if !ok {
		return nil, ch, errors.New("uclient: ClientHello without quic_transport_parameters")
	}
	a := &Advertised{Raw: body, ints: map[uint64]uint64{}, has: map[uint64]bool{}}
	a.Params, err = refwire.ParseTransportParameters(body)
	if err != nil {
		return nil, ch, fmt.Errorf("uclient: quic_transport_parameters: %w", err)
	}
	for _, p := range a.Params {
		known := refwire.IsVarintTransportParameter(p.ID) || p.ID == refwire.TPDisableActiveMigration ||
			p.ID == refwire.TPInitialSourceConnectionID || refwire.IsServerOnlyTransportParameter(p.ID)
		if a.has[p.ID] && known {
			return nil, ch, fmt.Errorf("uclient: transport parameter 0x%x twice on the wire", p.ID)
		}
		a.has[p.ID] = true
		if refwire.IsVarintTransportParameter(p.ID) {
			v, err := refwire.TPVarint(p.Value)
			if err != nil {
				return nil, ch, fmt.Errorf("uclient: transport parameter 0x%x: %w", p.ID, err)
			}
			a.ints[p.ID] = v
		}
	}
	return a, ch, nil
}

// Has reports whether the parameter is on the wire.
func (a *Advertised) Has(id uint64) bool { return a.has[id] }

// Uint returns the value of an integer-valued parameter, def when it is absent.
func (a *Advertised) Uint(id, def uint64) uint64 {
	if v, ok := a.ints[id]; ok {
		return v
	}
	return def
}

// The limits with their RFC 9000 18.2 / RFC 9221 3 defaults for an absent parameter.
func (a *Advertised) MaxStreamsBidi() uint64 { return a.Uint(refwire.TPInitialMaxStreamsBidi, 0) }
func (a *Advertised) MaxStreamsUni() uint64  { return a.Uint(refwire.TPInitialMaxStreamsUni, 0) }
func (a *Advertised) MaxData() uint64        { return a.Uint(refwire.TPInitialMaxData, 0) }
func (a *Advertised) StreamDataBidiLocal() uint64 {
	return a.Uint(refwire.TPInitialMaxStreamDataBidiLocal, 0)
}
func (a *Advertised) StreamDataBidiRemote() uint64 {
	return a.Uint(refwire.TPInitialMaxStreamDataBidiRemote, 0)
}
func (a *Advertised) StreamDataUni() uint64 { return a.Uint(refwire.TPInitialMaxStreamDataUni, 0) }

// MaxDatagramFrameSize is 0 when DATAGRAM frames are not supported (parameter absent or 0).
func (a *Advertised) MaxDatagramFrameSize() uint64 {
	return a.Uint(refwire.TPMaxDatagramFrameSize, 0)
}
func (a *Advertised) ActiveConnectionIDLimit() uint64 {
	return a.Uint(refwire.TPActiveConnectionIDLimit, 2)
}
func (a *Advertised) MaxIdleTimeoutMs() uint64 { return a.Uint(refwire.TPMaxIdleTimeout, 0) }

// Client is a spec-driven client connection driven by a scripted peer.
type Client struct {
	V    *quic.VerifUClientConn
	Conn *quic.Conn
	Adv  *Advertised
	CH   *sim.ClientHello
}

// New builds the connection a quic.UTransport{QUICSpec: d.Build()} creates for a dial with cfg.Build().
func New(d specgen.Desc, cfg Cfg) (*Client, error) {
	spec, err := d.Build()
	if err != nil {
		return nil, err
	}
	return NewFromSpec(spec, cfg.Build())
}

// NewFromSpec is New for a ready spec.
func NewFromSpec(spec *quic.QUICSpec, conf *quic.Config) (*Client, error) {
	v, err := quic.VerifNewUClientConn(spec, conf)
	if err != nil {
		return nil, err
	}
	adv, ch, err := ParseAdvertised(v.ClientHello())
	if err != nil {
		v.Close(nil)
		return nil, err
	}
	return &Client{V: v, Conn: v.Conn(), Adv: adv, CH: ch}, nil
}

// PeerParams returns the transport parameters of a generous server (the scripted peer's own limits are
// not the subject): 1 MiB windows, 100 streams each way, DATAGRAM frames up to 65535 bytes.
func PeerParams() *wire.TransportParameters {
	tok := protocol.StatelessResetToken{0x5e, 0x12, 0xfe, 0x2d}
	return &wire.TransportParameters{
		InitialMaxStreamDataBidiLocal:  1 << 20,
		InitialMaxStreamDataBidiRemote: 1 << 20,
		InitialMaxStreamDataUni:        1 << 20,
		InitialMaxData:                 1 << 20,
		MaxBidiStreamNum:               100,
		MaxUniStreamNum:                100,
		MaxIdleTimeout:                 time.Minute,
		MaxUDPPayloadSize:              1452,
		AckDelayExponent:               3,
		MaxAckDelay:                    25 * time.Millisecond,
		ActiveConnectionIDLimit:        4,
		MaxDatagramFrameSize:           65535,
		StatelessResetToken:            &tok,
	}
}

// Complete finishes the handshake with the server's transport parameters (PeerParams() when nil).
func (c *Client) Complete(p *wire.TransportParameters) error {
	if p == nil {
		p = PeerParams()
	}
	return c.V.CompleteHandshake(p)
}

// Feed delivers the frames as the payload of one 1-RTT packet.
func (c *Client) Feed(frames ...refwire.Frame) error { return c.FeedRaw(Encode(frames...)) }

// FeedRaw delivers payload as the payload of one 1-RTT packet.
func (c *Client) FeedRaw(payload []byte) error {
	return c.V.HandleFrames(payload, protocol.Encryption1RTT)
}

// Close ends the connection (err: the error HandleFrames returned, or nil).
func (c *Client) Close(err error) { c.V.Close(err) }

var cancelled = func() context.Context {
	ctx, cancel := context.WithCancel(context.Background())
	cancel()
	return ctx
}()

// AcceptBidi returns the streams AcceptStream hands out without blocking, in order.
func (c *Client) AcceptBidi() []*quic.Stream {
	var out []*quic.Stream
	for {
		s, err := c.Conn.AcceptStream(cancelled)
		if err != nil {
			return out
		}
		out = append(out, s)
	}
}

// AcceptUni is AcceptBidi for unidirectional streams.
func (c *Client) AcceptUni() []*quic.ReceiveStream {
	var out []*quic.ReceiveStream
	for {
		s, err := c.Conn.AcceptUniStream(cancelled)
		if err != nil {
			return out
		}
		out = append(out, s)
	}
}

// Datagrams returns the datagrams ReceiveDatagram hands out without blocking, in order; err is the error
// of the call that ended the loop (context.Canceled when the queue is simply empty).
func (c *Client) Datagrams() (out [][]byte, err error) {
	for {
		d, err := c.Conn.ReceiveDatagram(cancelled)
		if err != nil {
			return out, err
		}
		out = append(out, d)
	}
}

// Flush collects everything the client wants to send (window updates, MAX_STREAMS, RESET_STREAM,
// STOP_SENDING, STREAM frames, ...), packet by packet, and acknowledges every frame as a peer that
// received the packet does. It stops when nothing is left (or after 1000 packets).
func (c *Client) Flush() []wire.Frame {
	var out []wire.Frame
	for i := 0; i < 1000; i++ {
		frames, streamFrames := c.V.PopFrames(1200)
		if len(frames) == 0 && len(streamFrames) == 0 {
			break
		}
		for _, f := range frames {
			out = append(out, f.Frame)
		}
		for _, f := range streamFrames {
			out = append(out, f.Frame)
		}
		ack(frames, streamFrames)
	}
	return out
}

func ack(frames []ackhandler.Frame, streamFrames []ackhandler.StreamFrame) {
	for _, f := range frames {
		if f.Handler != nil {
			f.Handler.OnAcked(f.Frame)
		}
	}
	for _, f := range streamFrames {
		if f.Handler != nil {
			f.Handler.OnAcked(f.Frame)
		}
	}
}

// ErrInfo classifies an error returned by the frame handling path.
type ErrInfo struct {
	Transport bool   // a *quic.TransportError
	Code      uint64 // its error code
	Remote    bool
	Text      string
}

// Classify inspects err (nil gives the zero ErrInfo).
func Classify(err error) ErrInfo {
	if err == nil {
		return ErrInfo{}
	}
	var te *quic.TransportError
	if errors.As(err, &te) {
		return ErrInfo{Transport: true, Code: uint64(te.ErrorCode), Remote: te.Remote, Text: err.Error()}
	}
	return ErrInfo{Text: err.Error()}
}

// Transport error codes (RFC 9000 20.1).
const (
	CodeInternalError      = 0x01
	CodeFlowControlError   = 0x03
	CodeStreamLimitError   = 0x04
	CodeStreamStateError   = 0x05
	CodeFinalSizeError     = 0x06
	CodeFrameEncodingError = 0x07
	CodeConnectionIDLimit  = 0x09
	CodeProtocolViolation  = 0x0a
)
