//go:build verif

package uclient

import "github.com/refraction-networking/uquic/verif/refwire"

// Frame builders of the scripted peer (a server). All encodings are refwire's, not the implementation's.

// Stream IDs by 1-based stream number (RFC 9000 2.1).
func ServerBidiID(n uint64) uint64 { return 4*(n-1) + 1 }
func ServerUniID(n uint64) uint64  { return 4*(n-1) + 3 }
func ClientBidiID(n uint64) uint64 { return 4 * (n - 1) }
func ClientUniID(n uint64) uint64  { return 4*(n-1) + 2 }

// ServerStreamID is ServerUniID / ServerBidiID.
func ServerStreamID(uni bool, n uint64) uint64 {
	if uni {
		return ServerUniID(n)
	}
	return ServerBidiID(n)
}

// Stream is a STREAM frame with an explicit length field (so that other frames may follow it).
func Stream(id, off uint64, data []byte, fin bool) refwire.Frame {
	return refwire.Frame{Name: refwire.NameStream, StreamID: id, Offset: off, Data: data, Fin: fin, HasLen: true}
}

// StreamLast is a STREAM frame without length field (it extends to the end of the packet).
func StreamLast(id, off uint64, data []byte, fin bool) refwire.Frame {
	return refwire.Frame{Name: refwire.NameStream, StreamID: id, Offset: off, Data: data, Fin: fin}
}

func ResetStream(id, code, finalSize uint64) refwire.Frame {
	return refwire.Frame{Name: refwire.NameResetStream, StreamID: id, ErrorCode: code, FinalSize: finalSize}
}

func StopSending(id, code uint64) refwire.Frame {
	return refwire.Frame{Name: refwire.NameStopSending, StreamID: id, ErrorCode: code}
}

func MaxStreamData(id, max uint64) refwire.Frame {
	return refwire.Frame{Name: refwire.NameMaxStreamData, StreamID: id, Max: max}
}

func StreamDataBlocked(id, limit uint64) refwire.Frame {
	return refwire.Frame{Name: refwire.NameStreamDataBlocked, StreamID: id, Max: limit}
}

func StreamsBlocked(bidi bool, limit uint64) refwire.Frame {
	return refwire.Frame{Name: refwire.NameStreamsBlocked, Bidi: bidi, Max: limit}
}

func MaxStreams(bidi bool, max uint64) refwire.Frame {
	return refwire.Frame{Name: refwire.NameMaxStreams, Bidi: bidi, Max: max}
}

func MaxData(max uint64) refwire.Frame { return refwire.Frame{Name: refwire.NameMaxData, Max: max} }

func DataBlocked(limit uint64) refwire.Frame {
	return refwire.Frame{Name: refwire.NameDataBlocked, Max: limit}
}

func NewConnectionID(seq, retirePriorTo uint64, cid []byte, token [16]byte) refwire.Frame {
	return refwire.Frame{Name: refwire.NameNewConnectionID, SeqNum: seq, RetirePriorTo: retirePriorTo, ConnID: cid, ResetToken: token}
}

func RetireConnectionID(seq uint64) refwire.Frame {
	return refwire.Frame{Name: refwire.NameRetireConnectionID, SeqNum: seq}
}

func Ping() refwire.Frame          { return refwire.Frame{Name: refwire.NamePing} }
func HandshakeDone() refwire.Frame { return refwire.Frame{Name: refwire.NameHandshakeDone} }
func Padding(n int) refwire.Frame  { return refwire.Frame{Name: refwire.NamePadding, PaddingLen: n} }

// Datagram is a DATAGRAM frame: type 0x31 with a (minimal) length field, or type 0x30 without one, which is
// only legal as the last frame of a packet (RFC 9221 4).
func Datagram(payload []byte, withLen bool) refwire.Frame {
	return refwire.Frame{Name: refwire.NameDatagram, Data: payload, HasLen: withLen}
}

// Encode concatenates the frames' encodings.
func Encode(frames ...refwire.Frame) []byte {
	var b []byte
	for _, f := range frames {
		b = f.Append(b)
	}
	return b
}

// DatagramBytes encodes a DATAGRAM frame. lenBytes 0: no length field (type 0x30); 1, 2, 4, 8: type 0x31 with
// the length in a varint of that many bytes (a non-minimal encoding is legal, RFC 9000 16).
func DatagramBytes(payload []byte, lenBytes int) []byte {
	if lenBytes == 0 {
		return append([]byte{refwire.TypeDatagram}, payload...)
	}
	b := []byte{refwire.TypeDatagramLen}
	b = refwire.AppendVarintLen(b, uint64(len(payload)), lenBytes)
	return append(b, payload...)
}

// DatagramWireSize is the size of a DATAGRAM frame on the wire: type, length field if any, payload
// (RFC 9221 3: this is what max_datagram_frame_size bounds).
func DatagramWireSize(payloadLen, lenBytes int) int { return 1 + lenBytes + payloadLen }

// DatagramLayout chooses payload length and length-field size for a DATAGRAM frame of exactly size bytes on
// the wire. Without length field every size >= 1 works. With one, the minimal encoding is used when some
// payload length gives exactly size (size 2..65 and >= 67), else (size 66) a 2-byte varint for a payload of 63.
func DatagramLayout(size int, withLen bool) (payloadLen, lenBytes int, ok bool) {
	if !withLen {
		if size < 1 {
			return 0, 0, false
		}
		return size - 1, 0, true
	}
	if size < 2 {
		return 0, 0, false
	}
	for _, lb := range []int{1, 2, 4} {
		n := size - 1 - lb
		if n >= 0 && refwire.VarintLen(uint64(n)) == lb {
			return n, lb, true
		}
	}
	// no minimal encoding has this size: use a longer length field than necessary
	for _, lb := range []int{2, 4, 8} {
		n := size - 1 - lb
		if n >= 0 && refwire.VarintLen(uint64(n)) <= lb {
			return n, lb, true
		}
	}
	return 0, 0, false
}
