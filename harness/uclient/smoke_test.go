//go:build verif

package uclient

import (
	"runtime"
	"testing"
	"time"

	"github.com/refraction-networking/uquic/verif/specgen"
)

// TestSmoke builds one client per built-in base, reads its advertised limits from the ClientHello, opens a
// stream, delivers both DATAGRAM encodings, finishes the stream and goes one stream beyond the limit.
func TestSmoke(t *testing.T) {
	before := runtime.NumGoroutine()
	for _, base := range specgen.BaseNames() {
		c, err := New(specgen.Desc{Base: base}, Cfg{})
		if err != nil {
			t.Fatal(base, err)
		}
		if c.Adv.MaxStreamsUni() == 0 || c.Adv.MaxDatagramFrameSize() == 0 {
			t.Fatalf("%s: advertised uni=%d dgram=%d", base, c.Adv.MaxStreamsUni(), c.Adv.MaxDatagramFrameSize())
		}
		if err := c.Complete(nil); err != nil {
			t.Fatal(base, err)
		}
		if err := c.Feed(Stream(ServerUniID(1), 0, []byte("x"), true), Ping(), Datagram([]byte("hello"), true)); err != nil {
			t.Fatal(base, err)
		}
		if err := c.Feed(Datagram([]byte("world"), false)); err != nil {
			t.Fatal(base, err)
		}
		if d, _ := c.Datagrams(); len(d) != 2 || string(d[0]) != "hello" || string(d[1]) != "world" {
			t.Fatalf("%s: datagrams %q", base, d)
		}
		us := c.AcceptUni()
		if len(us) != 1 {
			t.Fatalf("%s: %d uni streams accepted", base, len(us))
		}
		us[0].CancelRead(0)
		if len(c.Flush()) == 0 {
			t.Fatalf("%s: no MAX_STREAMS after the stream completed", base)
		}
		err = c.Feed(ResetStream(ServerUniID(c.Adv.MaxStreamsUni()+2), 0, 0))
		if ei := Classify(err); !ei.Transport || ei.Code != CodeStreamLimitError {
			t.Fatalf("%s: beyond the limit: %v", base, err)
		}
		c.Close(err)
	}
	time.Sleep(20 * time.Millisecond)
	if after := runtime.NumGoroutine(); after > before {
		t.Fatalf("goroutines: %d before, %d after", before, after)
	}
}
