//go:build verif

package uclient

import "pgregory.net/rapid"

// GenCfg draws a user Config description: every field that competes with a transport parameter of the spec,
// each unset (the quic.Config default) or set to a small / large / negative value.
func GenCfg(t *rapid.T) Cfg {
	if rapid.SampledFrom([]int{0, 0, 0, 0, 0, 0, 0, 0, 0, 1}).Draw(t, "nil-config") == 1 {
		return Cfg{Nil: true}
	}
	streams := func(label string) int64 {
		switch rapid.SampledFrom([]int{0, 0, 1, 2, 2, 3, 3}).Draw(t, label+"-cls") {
		case 0:
			return 0
		case 1:
			return rapid.SampledFrom([]int64{-1, -1, -100, -1 << 62}).Draw(t, label+"-neg")
		case 2:
			return rapid.SampledFrom([]int64{1, 2, 3, 4, 5}).Draw(t, label+"-small")
		}
		return rapid.SampledFrom([]int64{16, 99, 100, 101, 103, 1000, 1 << 32, 1 << 60, 1 << 61}).Draw(t, label+"-large")
	}
	c := Cfg{
		MaxIncomingStreams:    streams("cfg-bidi"),
		MaxIncomingUniStreams: streams("cfg-uni"),
		EnableDatagrams:       rapid.Bool().Draw(t, "cfg-dgram"),
		ResetPartial:          rapid.SampledFrom([]bool{false, false, true}).Draw(t, "cfg-rsa"),
		DisablePMTUD:          rapid.Bool().Draw(t, "cfg-pmtud"),
	}
	if rapid.SampledFrom([]int{0, 0, 1}).Draw(t, "cfg-win") == 1 {
		c.InitialStreamWin = rapid.SampledFrom([]uint64{1, 1000, 1 << 20}).Draw(t, "cfg-isw")
		c.MaxStreamWin = rapid.SampledFrom([]uint64{0, 1 << 21}).Draw(t, "cfg-msw")
		c.InitialConnWin = rapid.SampledFrom([]uint64{1, 1500, 1 << 20}).Draw(t, "cfg-icw")
		c.MaxConnWin = rapid.SampledFrom([]uint64{0, 1 << 22}).Draw(t, "cfg-mcw")
	}
	if rapid.SampledFrom([]int{0, 0, 1}).Draw(t, "cfg-idle") == 1 {
		c.MaxIdleTimeoutMs = rapid.SampledFrom([]int{1000, 10000, 300000}).Draw(t, "cfg-idle-ms")
	}
	return c
}
