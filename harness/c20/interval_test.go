package c20

import (
	"fmt"

	"github.com/refraction-networking/uquic/verif/vf"
)

// sendRec is one call of pacer.SentPacket as seen by the model.
type sendRec struct {
	t    int64   // model clock, ns
	size int64   // bytes
	bw   float64 // un-adjusted bandwidth estimate in bytes/s in effect at this call
	mds  int64   // largest datagram size in effect (pacer's or sender's, whichever is larger)
	auth bool    // true if the packet was released by the pacer (budget >= one datagram at send time)
}

// intervalChecker decides the pacing clause of the property:
//
//	over EVERY interval [t1,t2] the bytes the pacer authorised are at most
//	one burst + 1.25 * (largest bandwidth estimate in the interval) * (t2-t1) + one packet,
//
// where one burst = max(10 datagrams, 1.25 * bandwidth * (MinPacingDelay+TimerGranularity = 2ms)), the
// documented burst allowance of the pacer. Only intervals that start and end at a send need to be looked
// at (every other interval is dominated by one of these). Packets that were not released by the pacer
// (pure ACKs while pacing- or congestion-limited, PTO probes) are not counted, but the bandwidth in effect
// when they were sent counts for the maximum because the pacer refills its bucket at that moment.
type intervalChecker struct {
	recs     []sendRec
	lookback int // number of most recent sends used as interval start (all, if the history is shorter)
	// running totals for the whole-history interval
	totalAuth int64
	maxBW     float64
	maxMDS    int64
	checked   int64
}

func burstOf(bw float64, mds int64) float64 {
	b := 10 * float64(mds)
	if x := 1.25 * bw * 0.002; x > b {
		b = x
	}
	return b
}

func (c *intervalChecker) add(r sendRec) *vf.Verdict {
	c.recs = append(c.recs, r)
	if r.bw > c.maxBW {
		c.maxBW = r.bw
	}
	if r.mds > c.maxMDS {
		c.maxMDS = r.mds
	}
	if !r.auth {
		return nil
	}
	c.totalAuth += r.size
	j := len(c.recs) - 1
	lo := 0
	if c.lookback > 0 && j-c.lookback > 0 {
		lo = j - c.lookback
	}
	var sum int64
	var bw float64
	var mds int64
	for i := j; i >= lo; i-- {
		ri := &c.recs[i]
		if ri.bw > bw {
			bw = ri.bw
		}
		if ri.mds > mds {
			mds = ri.mds
		}
		if !ri.auth {
			continue
		}
		sum += ri.size
		c.checked++
		// fast pre-check with a small margin below the exact decision; decideInterval decides
		if float64(sum) > burstOf(bw, mds)+1.25e-9*bw*float64(r.t-ri.t)+float64(mds) {
			if v := decideInterval(sum, bw, mds, r.t-ri.t, i, j); v != nil {
				return v
			}
		}
	}
	if lo > 0 {
		// the interval from the very first send
		if v := decideInterval(c.totalAuth, c.maxBW, c.maxMDS, r.t-c.recs[0].t, 0, j); v != nil {
			return v
		}
	}
	return nil
}

func decideInterval(sum int64, bw float64, mds int64, dt int64, i, j int) *vf.Verdict {
	allowed := burstOf(bw, mds) + 1.25*bw*float64(dt)/1e9 + float64(mds)
	// float64 slack: relative 1e-9 and one byte; the implementation rounds every term down
	if float64(sum) > allowed*(1+1e-9)+1 {
		return vf.Bad(sigInterval, "sends #%d..#%d: %d bytes released by the pacer within %d ns, allowed burst %.0f + 1.25*%.6g B/s*dt %.0f + one packet %d = %.0f",
			i, j, sum, dt, burstOf(bw, mds), bw, 1.25*bw*float64(dt)/1e9, mds, allowed)
	}
	return nil
}

func (c *intervalChecker) String() string {
	return fmt.Sprintf("%d sends, %d intervals checked", len(c.recs), c.checked)
}
