package c20

import (
	"testing"
	"time"

	"pgregory.net/rapid"

	"github.com/refraction-networking/uquic/internal/ackhandler"
	"github.com/refraction-networking/uquic/internal/monotime"
	"github.com/refraction-networking/uquic/internal/protocol"
	"github.com/refraction-networking/uquic/internal/utils"
	"github.com/refraction-networking/uquic/internal/wire"
	"github.com/refraction-networking/uquic/verif/vf"
)

// Tie-in with loss recovery: whenever sentPacketHandler.SendMode(now) == SendAny - the only mode in which the
// connection releases new ack-eliciting data (connection.go triggerSending / sendPackets*) - the bytes in flight
// are below the congestion window. PTO probes (SendPTO*) and pure ACKs (SendAck, SendPacingLimited) are excepted
// by the property. The machine works in the 1-RTT space after the handshake (Initial and Handshake spaces dropped)
// and lets the handler do all loss detection itself; a full loss-recovery model lives in C06.
type HParams struct {
	MDS    int64 `json:"mds"`
	Server bool  `json:"server"`
	// generator hints (Apply does not read them): a history directed to the maximum window, see genNear
	Near      bool  `json:"near,omitempty"`
	NearRTT   int64 `json:"near_rtt,omitempty"`
	NearChunk int   `json:"near_chunk,omitempty"`
	// ECN: the handler is built with enableECN and every packet carries the codepoint ECNMode(true) returns, as
	// connection.go does (sendPackedShortHeaderPacket / appendOneShortHeaderPacket: ecn := sentPacketHandler.ECNMode(true));
	// the ACK frames then carry the ECN counts of a conformant receiver
	ECN bool `json:"ecn,omitempty"`
}

const (
	sigSPHTwice   = "C20/sendmode/second-reduction-for-packets-sent-before-the-last-reduction"
	sigSPHNoEvent = "C20/sendmode/window-lowered-without-loss-or-ce"
	// own signature for a deviation of the unchanged tree (NOTES.md "once per window through the handler"): the CE
	// event belongs to a non-ack-eliciting packet that was sent before the last reduction but after the last
	// ack-eliciting one, and cubicSender only remembers ack-eliciting packet numbers
	sigSPHTwiceAckOnly = "C20/sendmode/second-reduction-ce-attributed-to-ack-only-packet-sent-before-the-last-reduction"
)

type HOp struct {
	K    string `json:"k"` // send | ack | timeout | mtu | tick | rounds
	Dt   int64  `json:"dt,omitempty"`
	N    int    `json:"n,omitempty"`
	Size int64  `json:"sz,omitempty"`
	Wait bool   `json:"w,omitempty"`
	// ack: indices into the list of sent, not yet acknowledged packets (packet numbers are not reproducible: the
	// 1-RTT packet number generator skips numbers using crypto/rand), From..To inclusive, minus every Hole-th
	From     int   `json:"from,omitempty"`
	To       int   `json:"to,omitempty"`
	Hole     int   `json:"hole,omitempty"`
	AckDelay int64 `json:"ad,omitempty"`
	MDS      int64 `json:"mds,omitempty"`
	// ack: how many of the newly acknowledged ECT-marked packets arrived CE-marked at the receiver (capped by their number)
	CE int `json:"ce,omitempty"`
	// rounds (macro-op, expanded inside Apply into the ordinary calls): R window-limited round trips. In each the
	// window is filled as send{wait} does, then everything outstanding at that moment is acknowledged in ACK frames
	// of Chunk packets (0: one frame), each arriving RTT after its largest packet left, and the window is refilled
	// after every frame (ACK clocking).
	R     int   `json:"r,omitempty"`
	Chunk int   `json:"chunk,omitempty"`
	RTT   int64 `json:"rtt,omitempty"`
}

// lossRecorder is the frame handler of every ack-eliciting packet: the handler reports a lost packet's frames through
// OnLost (queueFramesForRetransmission), which tells the model exactly which packets were declared lost inside a
// ReceivedAck / OnLossDetectionTimeout call (QueueProbePacket also calls it, outside such a call: not a loss event).
type lossRecorder struct {
	m  *sphMachine
	pn protocol.PacketNumber
}

func (lossRecorder) OnAcked(wire.Frame) {}
func (r lossRecorder) OnLost(wire.Frame) {
	if r.m.inCall {
		r.m.lostInCall = append(r.m.lostInCall, r.pn)
	}
}

type hpkt struct {
	pn   protocol.PacketNumber
	size int64
	ae   bool
	sent int64
	ecn  protocol.ECN
}

type sphMachine struct {
	u   *vf.Unit
	h   ackhandler.SentPacketHandler
	rtt *utils.RTTStats
	now int64
	mds int64

	sent []hpkt // sent and not yet acknowledged by one of our ACK frames (the handler may have declared them lost)

	sawAny, sawAck, sawPacing, sawPTO bool
	atWindow, equalWindow             bool
	shrank, grewAfterShrink           bool
	lastCwnd, minCwndSeen             int64
	anyChecks                         int
	sig                               []byte

	p                  HParams
	work               int  // SentPacket calls so far (generator budget)
	hitMax, nearMax    bool // window at / within three packets below the maximum
	roundsAtMax        int  // round trips of a rounds op that began with the window within three packets of the maximum
	roundsOp           bool
	mtuAtMax           bool
	nearExit, nearLeft bool // generator state

	// once-per-window oracle (see judgeReduction)
	inCall            bool
	lostInCall        []protocol.PacketNumber
	largestSent       protocol.PacketNumber // any packet
	largestSentAE     protocol.PacketNumber // ack-eliciting packets only (what cubicSender.OnPacketSent records)
	lsrAE             protocol.PacketNumber // largest ack-eliciting packet number sent at the last reduction
	largestAcked      protocol.PacketNumber // largest packet number acknowledged by a frame that newly acknowledged something
	lsr               protocol.PacketNumber // largest packet number sent when the window was last seen reduced
	reductions        int
	lastReductionByCE bool
	// the receiver's ECN counters (RFC 9000 13.4.1: one count per received packet, reported cumulatively)
	rcvECT0, rcvCE     uint64
	ceSeen             uint64 // CE count of the last frame that raised the largest acknowledged (ecnTracker sees only those)
	sentECT            int
	ecnValidated       bool
	ceRaised           bool // a window reduction caused by a CE increase alone
	ceIgnorable        bool // a CE-raising ACK whose largest acknowledged was sent before the last reduction
	ceIgnorableNewSent bool // ... and a new packet had been sent since that reduction
	ceChain            int  // generator state: further CE-raising ACKs to follow within the same flight
	ceChainSend        bool
}

func newSPHMachine(p HParams) vf.Machine[HOp] {
	m := &sphMachine{u: vf.U("sendmode-window"), now: 3_600_000_000_000, mds: p.MDS, p: p,
		largestSent: protocol.InvalidPacketNumber, largestAcked: protocol.InvalidPacketNumber, lsr: protocol.InvalidPacketNumber,
		largestSentAE: protocol.InvalidPacketNumber, lsrAE: protocol.InvalidPacketNumber}
	m.rtt = utils.NewRTTStats()
	m.rtt.SetMaxAckDelay(25 * time.Millisecond)
	pers := protocol.PerspectiveClient
	if p.Server {
		pers = protocol.PerspectiveServer
	}
	m.h = ackhandler.NewSentPacketHandler(0, protocol.ByteCount(p.MDS), m.rtt, &utils.ConnectionStats{}, true, p.ECN, nil, pers, nil, utils.DefaultLogger)
	m.h.DropPackets(protocol.EncryptionInitial, m.t())
	m.h.DropPackets(protocol.EncryptionHandshake, m.t())
	m.lastCwnd = int64(ackhandler.VerifCongestionWindow(m.h))
	m.minCwndSeen = m.lastCwnd
	return m
}

func (m *sphMachine) t() monotime.Time { return monotime.Time(m.now) }

// mode evaluates SendMode(now) and decides the oracle.
func (m *sphMachine) mode() (ackhandler.SendMode, *vf.Verdict) {
	sm := m.h.SendMode(m.t())
	bif := int64(ackhandler.VerifBytesInFlight(m.h))
	cwnd := int64(ackhandler.VerifCongestionWindow(m.h))
	if cwnd < m.lastCwnd {
		m.shrank = true
	} else if cwnd > m.lastCwnd && m.shrank {
		m.grewAfterShrink = true
	}
	m.lastCwnd = cwnd
	// window bounds through the production wiring (NewSentPacketHandler -> NewCubicSender(reno)): property text,
	// "between two full-size packets and the configured maximum (plus at most one packet)"
	if cwnd > (protocol.MaxCongestionWindowPackets+1)*m.mds {
		return sm, vf.Bad(sigAboveMax, "sentPacketHandler: cwnd %d > (%d+1)*%d (bytes in flight %d)", cwnd, protocol.MaxCongestionWindowPackets, m.mds, bif)
	}
	if cwnd < 2*m.mds {
		return sm, vf.Bad(sigBelowMin, "sentPacketHandler: cwnd %d < 2*%d (bytes in flight %d)", cwnd, m.mds, bif)
	}
	if cwnd >= protocol.MaxCongestionWindowPackets*m.mds {
		m.hitMax = true
	} else if cwnd >= (protocol.MaxCongestionWindowPackets-3)*m.mds {
		m.nearMax = true
	}
	if bif >= cwnd {
		m.atWindow = true
		if bif == cwnd {
			m.equalWindow = true
		}
	}
	switch sm {
	case ackhandler.SendAny:
		m.sawAny = true
		m.anyChecks++
		if bif >= cwnd {
			return sm, vf.Bad(sigSendAny, "SendMode(now)=SendAny with %d bytes in flight and a congestion window of %d", bif, cwnd)
		}
	case ackhandler.SendAck:
		m.sawAck = true
	case ackhandler.SendPacingLimited:
		m.sawPacing = true
		if bif >= cwnd {
			// pacing-limited means "new data may leave once the pacer allows"; above the window that is wrong as well
			return sm, vf.Bad(sigSendAny, "SendMode(now)=SendPacingLimited with %d bytes in flight and a congestion window of %d", bif, cwnd)
		}
	case ackhandler.SendPTOAppData:
		m.sawPTO = true
	}
	return sm, nil
}

func (m *sphMachine) sendPacket(size int64, ackEliciting bool) {
	pn := m.h.PopPacketNumber(protocol.Encryption1RTT)
	var frames []ackhandler.Frame
	largestAcked := protocol.InvalidPacketNumber
	if ackEliciting {
		frames = []ackhandler.Frame{{Frame: &wire.PingFrame{}, Handler: lossRecorder{m, pn}}}
	} else {
		largestAcked = 0
	}
	ecn := protocol.ECNNon
	if m.p.ECN {
		ecn = m.h.ECNMode(true)
		if ecn == protocol.ECT0 {
			// ecnTracker.Mode: ECT(0) for the 10 testing packets, then Not-ECT until the path is validated
			if m.sentECT >= 10 {
				m.ecnValidated = true
			}
			m.sentECT++
		}
	}
	m.h.SentPacket(m.t(), pn, largestAcked, nil, frames, protocol.Encryption1RTT, ecn, protocol.ByteCount(size), false, false)
	m.sent = append(m.sent, hpkt{pn: pn, size: size, ae: ackEliciting, sent: m.now, ecn: ecn})
	m.largestSent = pn
	if ackEliciting {
		m.largestSentAE = pn
	}
	m.work++
}

// receivedAck builds the ACK frame a conformant receiver sends for the packets in acked (ascending, sent, not yet
// acknowledged by an earlier frame) - ranges plus, with ECN, its cumulative ECT(0) / CE counters after counting these
// packets, ce of the ECT-marked ones as CE (RFC 9000 13.4.1) - hands it to the handler and judges a window reduction.
func (m *sphMachine) receivedAck(acked []hpkt, ce int, ackDelay int64) *vf.Verdict {
	pns := make([]protocol.PacketNumber, len(acked))
	nECT := 0
	for i, p := range acked {
		pns[i] = p.pn
		if p.ecn == protocol.ECT0 {
			nECT++
		}
	}
	ce = min(ce, nECT)
	m.rcvCE += uint64(ce)
	m.rcvECT0 += uint64(nECT - ce)
	ranges := ackRanges(pns)
	f := &wire.AckFrame{AckRanges: ranges, DelayTime: time.Duration(ackDelay)}
	if m.p.ECN {
		f.ECT0, f.ECNCE = m.rcvECT0, m.rcvCE
	}
	largest := ranges[0].Largest
	before := int64(ackhandler.VerifCongestionWindow(m.h))
	m.inCall, m.lostInCall = true, m.lostInCall[:0]
	processed, err := m.h.ReceivedAck(f, protocol.Encryption1RTT, m.t())
	m.inCall = false
	if err != nil {
		return vf.Bad(sigSPHError, "ReceivedAck(%d ranges, largest %d, ect0 %d ce %d) for sent packets returned %v", len(ranges), largest, f.ECT0, f.ECNCE, err)
	}
	// the CE signal the handler may act on: an ACK that newly acknowledges a packet (ReceivedAck reports that: it
	// returns false when every packet of the frame had already left its history, e.g. declared lost), raises the
	// largest acknowledged and whose CE count is above the one of the previous such ACK (sentPacketHandler.ReceivedAck /
	// ecnTracker.HandleNewlyAcked, RFC 9000 13.4.2.1); it belongs to the largest acknowledged packet of this frame
	// (RFC 9002 7.1 / B.7: sent_packets[ack.largest_acked].time_sent)
	ceEvent := false
	if processed {
		if m.p.ECN && largest > m.largestAcked {
			ceEvent = m.rcvCE > m.ceSeen
			m.ceSeen = m.rcvCE
		}
		m.largestAcked = max(m.largestAcked, largest)
	}
	if ceEvent && m.ecnValidated && m.reductions > 0 && m.lastReductionByCE && largest <= m.lsr {
		m.ceIgnorable = true
		if m.largestSent > m.lsr {
			m.ceIgnorableNewSent = true
		}
	}
	return m.judgeReduction("ReceivedAck", before, ceEvent, largest)
}

// judgeReduction: "shrinks at most once per window of packets in response to loss and never in response to
// acknowledgements". The congestion events of one handler call are the packets it declared lost (OnLost) and, for
// an ACK, a CE increase attributed to the frame's largest acknowledged packet. If the window is lower after the
// call, (a) there must be such an event at all and (b) one of them must belong to a packet sent after the previous
// reduction (packet number above the largest one sent when that reduction happened): RFC 9002 7.3.1 / 7.3.2, B.6
// OnCongestionEvent(sent_time): "No reaction if already in a recovery period". The model's mark only moves when the
// window visibly drops, the sender's (cubicSender.largestSentAtLastCutback) on every accepted event, so the model's
// mark is never above the sender's. The handler has no persistent-congestion collapse (OnRetransmissionTimeout has
// no caller), so there is no exempted path.
func (m *sphMachine) judgeReduction(call string, before int64, ceEvent bool, ceFor protocol.PacketNumber) *vf.Verdict {
	after := int64(ackhandler.VerifCongestionWindow(m.h))
	if after >= before {
		return nil
	}
	fresh, largestEv := false, protocol.InvalidPacketNumber
	for _, pn := range m.lostInCall {
		fresh = fresh || pn > m.lsr
		largestEv = max(largestEv, pn)
	}
	if ceEvent {
		fresh = fresh || ceFor > m.lsr
		largestEv = max(largestEv, ceFor)
	}
	if !fresh && m.reductions > 0 && largestEv > m.lsrAE {
		// (lost packets are ack-eliciting, so this is a CE event:) only ack-only packets lie between the sender's
		// mark and the event's packet
		v := vf.Bad(sigSPHTwiceAckOnly, "%s lowered the congestion window %d -> %d for a congestion event (%d lost, ce increase %v) of packet %d, sent before the previous reduction (largest sent then %d, largest ack-eliciting then %d; %d reductions so far): second reduction within one window of packets",
			call, before, after, len(m.lostInCall), ceEvent, largestEv, m.lsr, m.lsrAE, m.reductions)
		if !vf.IsKnown(sigSPHTwiceAckOnly) {
			return v
		}
		m.u.KnownHit(sigSPHTwiceAckOnly)
		fresh = true
	}
	if len(m.lostInCall) == 0 && !ceEvent {
		return vf.Bad(sigSPHNoEvent, "%s lowered the congestion window %d -> %d although no packet was declared lost and the ACK did not raise the ECN-CE count (ce %d)", call, before, after, m.rcvCE)
	}
	if !fresh {
		return vf.Bad(sigSPHTwice, "%s lowered the congestion window %d -> %d for congestion events (%d lost, ce increase %v) that all belong to packets <= %d, but the window was already reduced (%d reductions so far) when packet %d was the largest sent (largest sent now %d): second reduction within one window of packets",
			call, before, after, len(m.lostInCall), ceEvent, largestEv, m.reductions, m.lsr, m.largestSent)
	}
	if ceEvent && len(m.lostInCall) == 0 {
		m.ceRaised = true
	}
	m.reductions++
	m.lastReductionByCE = ceEvent
	m.lsr, m.lsrAE = m.largestSent, m.largestSentAE
	return nil
}

// ackRanges builds the ACK ranges (descending) for packet numbers that were really sent.
func ackRanges(pns []protocol.PacketNumber) []wire.AckRange {
	var ranges []wire.AckRange
	for i := len(pns) - 1; i >= 0; i-- {
		if n := len(ranges); n > 0 && ranges[n-1].Smallest == pns[i]+1 {
			ranges[n-1].Smallest = pns[i]
		} else {
			ranges = append(ranges, wire.AckRange{Smallest: pns[i], Largest: pns[i]})
		}
	}
	return ranges
}

// fill sends new data while SendMode allows it, waiting for the pacer like the connection's timer.
func (m *sphMachine) fill(chunk int, rtt int64) *vf.Verdict {
	until := int64(0) // arrival of the next ACK frame: it is processed before a later pacing deadline
	if n := len(m.sent); n > 0 && rtt > 0 {
		c := n
		if chunk > 0 {
			c = min(c, chunk)
		}
		until = m.sent[c-1].sent + rtt
	}
	for i := 0; i < 40000; i++ {
		sm, v := m.mode()
		if v != nil {
			return v
		}
		switch sm {
		case ackhandler.SendAny:
			m.sendPacket(m.mds, true)
		case ackhandler.SendPacingLimited:
			t := int64(m.h.TimeUntilSend())
			if t <= m.now {
				t = m.now + 100_000
			}
			if until > 0 && t > until {
				return nil
			}
			m.now = t
		default:
			return nil
		}
	}
	return nil
}

func (m *sphMachine) applyRounds(op HOp) *vf.Verdict {
	m.roundsOp = true
	for r := 0; r < max(op.R, 1); r++ {
		if v := m.fill(op.Chunk, op.RTT); v != nil {
			return v
		}
		if int64(ackhandler.VerifCongestionWindow(m.h)) >= (protocol.MaxCongestionWindowPackets-3)*m.mds {
			m.roundsAtMax++
		}
		n := len(m.sent)
		for n > 0 && len(m.sent) > 0 {
			c := min(n, len(m.sent))
			if op.Chunk > 0 {
				c = min(c, op.Chunk)
			}
			batch := m.sent[:c:c]
			m.sent = m.sent[c:]
			n -= c
			m.now = max(m.now, batch[c-1].sent+op.RTT)
			if v := m.receivedAck(batch, 0, 0); v != nil {
				return v
			}
			if _, v := m.mode(); v != nil {
				return v
			}
			if v := m.fill(op.Chunk, op.RTT); v != nil {
				return v
			}
		}
	}
	return nil
}

func (m *sphMachine) Apply(op HOp) *vf.Verdict {
	if op.Dt > 0 {
		m.now += op.Dt
	}
	m.sig = append(m.sig, op.K[0], byte(op.N), byte(op.To-op.From))
	switch op.K {
	case "send":
		size := op.Size
		if size <= 0 || size > m.mds {
			size = m.mds
		}
		for i := 0; i < max(op.N, 1); i++ {
			sm, v := m.mode()
			if v != nil {
				return v
			}
			switch sm {
			case ackhandler.SendAny:
				m.sendPacket(size, true)
			case ackhandler.SendPTOAppData:
				// sendProbePacket: retransmit the oldest outstanding packet's frames (or new data)
				if i%2 == 0 {
					m.h.QueueProbePacket(protocol.Encryption1RTT)
				}
				m.sendPacket(size, true)
			case ackhandler.SendAck:
				m.sendPacket(40, false)
				i = op.N // at most one ACK-only packet
			case ackhandler.SendPacingLimited:
				if !op.Wait {
					m.sendPacket(40, false) // maybeSendAckOnlyPacket
					i = op.N
					break
				}
				if t := int64(m.h.TimeUntilSend()); t > m.now {
					m.now = t
				} else {
					m.now += 1_000_000
				}
			default:
				i = op.N
			}
		}
	case "ack":
		if len(m.sent) == 0 {
			break
		}
		from, to := min(op.From, len(m.sent)-1), min(op.To, len(m.sent)-1)
		if from > to {
			from = to
		}
		var acked []hpkt
		keep := m.sent[:0:0]
		keep = append(keep, m.sent[:from]...)
		for i := from; i <= to; i++ {
			if op.Hole > 1 && (i-from)%op.Hole == op.Hole-1 && i != to {
				keep = append(keep, m.sent[i])
				continue
			}
			acked = append(acked, m.sent[i])
		}
		keep = append(keep, m.sent[to+1:]...)
		m.sent = keep
		// ranges: descending, contiguous runs of packet numbers that were really sent
		if v := m.receivedAck(acked, op.CE, op.AckDelay); v != nil {
			return v
		}
	case "timeout":
		if al := int64(m.h.GetLossDetectionTimeout()); al != 0 {
			if al > m.now {
				m.now = al
			}
			before := int64(ackhandler.VerifCongestionWindow(m.h))
			m.inCall, m.lostInCall = true, m.lostInCall[:0]
			err := m.h.OnLossDetectionTimeout(m.t())
			m.inCall = false
			if err != nil {
				return vf.Bad(sigSPHError, "OnLossDetectionTimeout returned %v", err)
			}
			if v := m.judgeReduction("OnLossDetectionTimeout", before, false, 0); v != nil {
				return v
			}
		}
	case "mtu":
		s := min(max(op.MDS, m.mds), protocol.MaxPacketBufferSize)
		if s > m.mds && int64(ackhandler.VerifCongestionWindow(m.h)) >= (protocol.MaxCongestionWindowPackets-3)*m.mds {
			m.mtuAtMax = true
		}
		m.h.SetMaxDatagramSize(protocol.ByteCount(s))
		m.mds = s
	case "rounds":
		if v := m.applyRounds(op); v != nil {
			return v
		}
	}
	_, v := m.mode()
	return v
}

func (m *sphMachine) Finish(u *vf.Unit) *vf.Verdict {
	for _, c := range []struct {
		n string
		b bool
	}{{"send-any", m.sawAny}, {"congestion-limited", m.sawAck}, {"pacing-limited", m.sawPacing}, {"pto", m.sawPTO},
		{"inflight>=cwnd", m.atWindow}, {"inflight==cwnd", m.equalWindow}, {"window-reduced", m.shrank}, {"grew-after-reduction", m.grewAfterShrink},
		{"near-history", m.p.Near}, {"rounds-op", m.roundsOp}, {"at-maximum", m.hitMax}, {"within-3-packets-of-maximum", m.nearMax},
		{"window-limited-round-trips-at-maximum>=3", m.roundsAtMax >= 3}, {"window-limited-round-trips-at-maximum>=5", m.roundsAtMax >= 5},
		{"mtu-increase-at-maximum", m.mtuAtMax},
		{"ecn", m.p.ECN}, {"ecn-validated", m.ecnValidated}, {"ce-raised", m.ceRaised}, {"reductions>=2", m.reductions >= 2},
		{"two-ce-acks-within-one-window", m.ceIgnorable}, {"ce-after-new-packet-sent", m.ceIgnorableNewSent}} {
		if c.b {
			u.Class(c.n)
		}
	}
	// non-trivial: the window was reached (slow start), reduced (recovery) and grew again afterwards (congestion avoidance)
	if m.atWindow && m.shrank && m.grewAfterShrink {
		u.NonTrivial(m.sig)
	}
	return nil
}

// genNear directs the history to the maximum window through the handler: loss-free window-limited round trips at a
// low round-trip time (slow start doubles the window up to the maximum), then round trips with a clearly higher
// round-trip time in frames of <= 1000 packets, so that hybrid slow start sees 8 increased samples in one round and
// ends slow start without a loss, then further window-limited round trips in (Reno) congestion avoidance at the
// maximum, mixed with small MTU increases and ordinary ops.
func (m *sphMachine) genNear(t *rapid.T) (HOp, bool) {
	if m.nearLeft || m.work > 160_000 {
		return HOp{}, false
	}
	cwnd := int64(ackhandler.VerifCongestionWindow(m.h))
	maxW := protocol.MaxCongestionWindowPackets * m.mds
	if !m.nearExit {
		if cwnd < maxW {
			r := 1
			for w := 2 * cwnd; w < maxW; w *= 2 { // slow start doubles the window every round trip
				r++
			}
			return HOp{K: "rounds", R: r, RTT: m.p.NearRTT, Chunk: m.p.NearChunk}, true
		}
		m.nearExit = true
	}
	if cwnd < maxW-64*m.mds {
		m.nearLeft = true // a reduction: Reno needs thousands of round trips to come back
		return HOp{}, false
	}
	high := m.p.NearRTT*9/4 + 20_000_000
	switch x := rapid.IntRange(0, 9).Draw(t, "near-op"); {
	case x < 7:
		return HOp{K: "rounds", R: rapid.IntRange(1, 2).Draw(t, "r"), RTT: high, Chunk: rapid.SampledFrom([]int{1000, 1000, 64, 500}).Draw(t, "chunk")}, true
	case x == 7:
		return HOp{K: "mtu", MDS: min(m.mds+rapid.SampledFrom([]int64{1, 1, 2, 7}).Draw(t, "near-mtu"), 1452)}, true
	}
	return HOp{}, false
}

func (m *sphMachine) Gen(t *rapid.T) HOp {
	if m.p.Near {
		if op, ok := m.genNear(t); ok {
			return op
		}
	}
	n := len(m.sent)
	// a CE-marking queue on the path: several CE-raising ACKs within one round trip, each acknowledging a few of the
	// oldest outstanding packets, with new packets sent in between
	if m.ceChain > 0 && n > 0 {
		m.ceChain--
		if m.ceChainSend = !m.ceChainSend; m.ceChainSend {
			return HOp{K: "send", N: rapid.IntRange(1, 3).Draw(t, "n"), Wait: true, Dt: rapid.SampledFrom([]int64{0, 1000, 200_000}).Draw(t, "dt")}
		}
		return HOp{K: "ack", To: rapid.IntRange(0, min(n-1, 3)).Draw(t, "to"), CE: rapid.IntRange(0, 2).Draw(t, "ce"), Dt: rapid.SampledFrom([]int64{0, 1000, 200_000}).Draw(t, "dt")}
	}
	op := HOp{Dt: rapid.SampledFrom([]int64{0, 0, 1000, 100_000, 1_000_000, 5_000_000, 20_000_000, 50_000_000, 300_000_000, 2_000_000_000}).Draw(t, "dt")}
	kinds := []string{"send", "send", "send", "ack", "ack", "ack", "timeout", "mtu", "tick"}
	if n == 0 {
		kinds = []string{"send", "send", "tick", "mtu"}
	}
	switch rapid.SampledFrom(kinds).Draw(t, "kind") {
	case "send":
		op.K = "send"
		op.N = rapid.SampledFrom([]int{1, 3, 10, 40, 40, 200}).Draw(t, "n")
		op.Wait = rapid.IntRange(0, 4).Draw(t, "wait") != 0
		if rapid.IntRange(0, 5).Draw(t, "szmode") == 0 {
			op.Size = rapid.Int64Range(30, m.mds).Draw(t, "size")
		}
	case "ack":
		op.K = "ack"
		switch rapid.IntRange(0, 4).Draw(t, "ackmode") {
		case 0: // everything
			op.From, op.To = 0, n-1
		case 1, 2: // a prefix
			op.From, op.To = 0, rapid.IntRange(0, n-1).Draw(t, "to")
		case 3: // skip some at the front: they become lost
			op.From = rapid.IntRange(0, min(n-1, 5)).Draw(t, "from")
			op.To = rapid.IntRange(op.From, n-1).Draw(t, "to")
		default:
			op.From, op.To = 0, n-1
			op.Hole = rapid.IntRange(2, 7).Draw(t, "hole")
		}
		if rapid.IntRange(0, 3).Draw(t, "admode") == 0 {
			op.AckDelay = rapid.Int64Range(0, 30_000_000).Draw(t, "ad")
		}
		if m.p.ECN {
			if op.CE = rapid.SampledFrom([]int{0, 0, 0, 1, 1, 2, 5}).Draw(t, "ce"); op.CE > 0 {
				m.ceChain = rapid.SampledFrom([]int{0, 2, 4, 6}).Draw(t, "ce-chain")
				m.ceChainSend = false
			}
		}
	case "timeout":
		op.K = "timeout"
	case "mtu":
		op.K = "mtu"
		op.MDS = rapid.SampledFrom([]int64{m.mds, 1400, 1452}).Draw(t, "mds")
	default:
		op.K = "tick"
	}
	return op
}

func TestSendModeWindow(t *testing.T) {
	vf.RunMachine(t, "sendmode-window", 70, func(t *rapid.T) HParams {
		p := HParams{MDS: rapid.SampledFrom([]int64{1200, 1252, 1280, 1452}).Draw(t, "mds"), Server: rapid.Bool().Draw(t, "server"),
			ECN: rapid.IntRange(0, 3).Draw(t, "ecn") != 0}
		// (a value from the middle of the range: rapid favours the ends)
		if nearOneIn == 1 || rapid.IntRange(0, 2*nearOneIn-1).Draw(t, "near") == nearOneIn+1 {
			p.Near = true
			p.NearRTT = rapid.SampledFrom([]int64{2_000_000, 10_000_000, 20_000_000, 50_000_000, 100_000_000}).Draw(t, "near-rtt")
			p.NearChunk = rapid.SampledFrom([]int{0, 0, 2, 64, 1000}).Draw(t, "near-chunk")
		}
		return p
	}, newSPHMachine)
}
