package c20

import (
	"testing"
	"time"

	"pgregory.net/rapid"

	"github.com/refraction-networking/uquic/internal/ackhandler"
	"github.com/refraction-networking/uquic/internal/monotime"
	"github.com/refraction-networking/uquic/internal/protocol"
	"github.com/refraction-networking/uquic/internal/utils"
	"github.com/refraction-networking/uquic/internal/wire"
	"github.com/refraction-networking/uquic/verif/vf"
)

// Tie-in with loss recovery: whenever sentPacketHandler.SendMode(now) == SendAny - the only mode in which the
// connection releases new ack-eliciting data (connection.go triggerSending / sendPackets*) - the bytes in flight
// are below the congestion window. PTO probes (SendPTO*) and pure ACKs (SendAck, SendPacingLimited) are excepted
// by the property. The machine works in the 1-RTT space after the handshake (Initial and Handshake spaces dropped)
// and lets the handler do all loss detection itself; a full loss-recovery model lives in C06.
type HParams struct {
	MDS    int64 `json:"mds"`
	Server bool  `json:"server"`
	// generator hints (Apply does not read them): a history directed to the maximum window, see genNear
	Near      bool  `json:"near,omitempty"`
	NearRTT   int64 `json:"near_rtt,omitempty"`
	NearChunk int   `json:"near_chunk,omitempty"`
}

type HOp struct {
	K    string `json:"k"` // send | ack | timeout | mtu | tick | rounds
	Dt   int64  `json:"dt,omitempty"`
	N    int    `json:"n,omitempty"`
	Size int64  `json:"sz,omitempty"`
	Wait bool   `json:"w,omitempty"`
	// ack: indices into the list of sent, not yet acknowledged packets (packet numbers are not reproducible: the
	// 1-RTT packet number generator skips numbers using crypto/rand), From..To inclusive, minus every Hole-th
	From     int   `json:"from,omitempty"`
	To       int   `json:"to,omitempty"`
	Hole     int   `json:"hole,omitempty"`
	AckDelay int64 `json:"ad,omitempty"`
	MDS      int64 `json:"mds,omitempty"`
	// rounds (macro-op, expanded inside Apply into the ordinary calls): R window-limited round trips. In each the
	// window is filled as send{wait} does, then everything outstanding at that moment is acknowledged in ACK frames
	// of Chunk packets (0: one frame), each arriving RTT after its largest packet left, and the window is refilled
	// after every frame (ACK clocking).
	R     int   `json:"r,omitempty"`
	Chunk int   `json:"chunk,omitempty"`
	RTT   int64 `json:"rtt,omitempty"`
}

type nopFrameHandler struct{}

func (nopFrameHandler) OnAcked(wire.Frame) {}
func (nopFrameHandler) OnLost(wire.Frame)  {}

type hpkt struct {
	pn   protocol.PacketNumber
	size int64
	ae   bool
	sent int64
}

type sphMachine struct {
	u   *vf.Unit
	h   ackhandler.SentPacketHandler
	rtt *utils.RTTStats
	now int64
	mds int64

	sent []hpkt // sent and not yet acknowledged by one of our ACK frames (the handler may have declared them lost)

	sawAny, sawAck, sawPacing, sawPTO bool
	atWindow, equalWindow             bool
	shrank, grewAfterShrink           bool
	lastCwnd, minCwndSeen             int64
	anyChecks                         int
	sig                               []byte

	p                  HParams
	work               int  // SentPacket calls so far (generator budget)
	hitMax, nearMax    bool // window at / within three packets below the maximum
	roundsAtMax        int  // round trips of a rounds op that began with the window within three packets of the maximum
	roundsOp           bool
	mtuAtMax           bool
	nearExit, nearLeft bool // generator state
}

func newSPHMachine(p HParams) vf.Machine[HOp] {
	m := &sphMachine{u: vf.U("sendmode-window"), now: 3_600_000_000_000, mds: p.MDS, p: p}
	m.rtt = utils.NewRTTStats()
	m.rtt.SetMaxAckDelay(25 * time.Millisecond)
	pers := protocol.PerspectiveClient
	if p.Server {
		pers = protocol.PerspectiveServer
	}
	m.h = ackhandler.NewSentPacketHandler(0, protocol.ByteCount(p.MDS), m.rtt, &utils.ConnectionStats{}, true, false, nil, pers, nil, utils.DefaultLogger)
	m.h.DropPackets(protocol.EncryptionInitial, m.t())
	m.h.DropPackets(protocol.EncryptionHandshake, m.t())
	m.lastCwnd = int64(ackhandler.VerifCongestionWindow(m.h))
	m.minCwndSeen = m.lastCwnd
	return m
}

func (m *sphMachine) t() monotime.Time { return monotime.Time(m.now) }

// mode evaluates SendMode(now) and decides the oracle.
func (m *sphMachine) mode() (ackhandler.SendMode, *vf.Verdict) {
	sm := m.h.SendMode(m.t())
	bif := int64(ackhandler.VerifBytesInFlight(m.h))
	cwnd := int64(ackhandler.VerifCongestionWindow(m.h))
	if cwnd < m.lastCwnd {
		m.shrank = true
	} else if cwnd > m.lastCwnd && m.shrank {
		m.grewAfterShrink = true
	}
	m.lastCwnd = cwnd
	// window bounds through the production wiring (NewSentPacketHandler -> NewCubicSender(reno)): property text,
	// "between two full-size packets and the configured maximum (plus at most one packet)"
	if cwnd > (protocol.MaxCongestionWindowPackets+1)*m.mds {
		return sm, vf.Bad(sigAboveMax, "sentPacketHandler: cwnd %d > (%d+1)*%d (bytes in flight %d)", cwnd, protocol.MaxCongestionWindowPackets, m.mds, bif)
	}
	if cwnd < 2*m.mds {
		return sm, vf.Bad(sigBelowMin, "sentPacketHandler: cwnd %d < 2*%d (bytes in flight %d)", cwnd, m.mds, bif)
	}
	if cwnd >= protocol.MaxCongestionWindowPackets*m.mds {
		m.hitMax = true
	} else if cwnd >= (protocol.MaxCongestionWindowPackets-3)*m.mds {
		m.nearMax = true
	}
	if bif >= cwnd {
		m.atWindow = true
		if bif == cwnd {
			m.equalWindow = true
		}
	}
	switch sm {
	case ackhandler.SendAny:
		m.sawAny = true
		m.anyChecks++
		if bif >= cwnd {
			return sm, vf.Bad(sigSendAny, "SendMode(now)=SendAny with %d bytes in flight and a congestion window of %d", bif, cwnd)
		}
	case ackhandler.SendAck:
		m.sawAck = true
	case ackhandler.SendPacingLimited:
		m.sawPacing = true
		if bif >= cwnd {
			// pacing-limited means "new data may leave once the pacer allows"; above the window that is wrong as well
			return sm, vf.Bad(sigSendAny, "SendMode(now)=SendPacingLimited with %d bytes in flight and a congestion window of %d", bif, cwnd)
		}
	case ackhandler.SendPTOAppData:
		m.sawPTO = true
	}
	return sm, nil
}

func (m *sphMachine) sendPacket(size int64, ackEliciting bool) {
	pn := m.h.PopPacketNumber(protocol.Encryption1RTT)
	var frames []ackhandler.Frame
	largestAcked := protocol.InvalidPacketNumber
	if ackEliciting {
		frames = []ackhandler.Frame{{Frame: &wire.PingFrame{}, Handler: nopFrameHandler{}}}
	} else {
		largestAcked = 0
	}
	m.h.SentPacket(m.t(), pn, largestAcked, nil, frames, protocol.Encryption1RTT, protocol.ECNNon, protocol.ByteCount(size), false, false)
	m.sent = append(m.sent, hpkt{pn: pn, size: size, ae: ackEliciting, sent: m.now})
	m.work++
}

// ackRanges builds the ACK ranges (descending) for packet numbers that were really sent.
func ackRanges(pns []protocol.PacketNumber) []wire.AckRange {
	var ranges []wire.AckRange
	for i := len(pns) - 1; i >= 0; i-- {
		if n := len(ranges); n > 0 && ranges[n-1].Smallest == pns[i]+1 {
			ranges[n-1].Smallest = pns[i]
		} else {
			ranges = append(ranges, wire.AckRange{Smallest: pns[i], Largest: pns[i]})
		}
	}
	return ranges
}

// fill sends new data while SendMode allows it, waiting for the pacer like the connection's timer.
func (m *sphMachine) fill(chunk int, rtt int64) *vf.Verdict {
	until := int64(0) // arrival of the next ACK frame: it is processed before a later pacing deadline
	if n := len(m.sent); n > 0 && rtt > 0 {
		c := n
		if chunk > 0 {
			c = min(c, chunk)
		}
		until = m.sent[c-1].sent + rtt
	}
	for i := 0; i < 40000; i++ {
		sm, v := m.mode()
		if v != nil {
			return v
		}
		switch sm {
		case ackhandler.SendAny:
			m.sendPacket(m.mds, true)
		case ackhandler.SendPacingLimited:
			t := int64(m.h.TimeUntilSend())
			if t <= m.now {
				t = m.now + 100_000
			}
			if until > 0 && t > until {
				return nil
			}
			m.now = t
		default:
			return nil
		}
	}
	return nil
}

func (m *sphMachine) applyRounds(op HOp) *vf.Verdict {
	m.roundsOp = true
	for r := 0; r < max(op.R, 1); r++ {
		if v := m.fill(op.Chunk, op.RTT); v != nil {
			return v
		}
		if int64(ackhandler.VerifCongestionWindow(m.h)) >= (protocol.MaxCongestionWindowPackets-3)*m.mds {
			m.roundsAtMax++
		}
		n := len(m.sent)
		for n > 0 && len(m.sent) > 0 {
			c := min(n, len(m.sent))
			if op.Chunk > 0 {
				c = min(c, op.Chunk)
			}
			batch := m.sent[:c:c]
			m.sent = m.sent[c:]
			n -= c
			m.now = max(m.now, batch[c-1].sent+op.RTT)
			pns := make([]protocol.PacketNumber, c)
			for i, p := range batch {
				pns[i] = p.pn
			}
			ranges := ackRanges(pns)
			if _, err := m.h.ReceivedAck(&wire.AckFrame{AckRanges: ranges}, protocol.Encryption1RTT, m.t()); err != nil {
				return vf.Bad(sigSPHError, "ReceivedAck(%d ranges, largest %d) for sent packets returned %v", len(ranges), ranges[0].Largest, err)
			}
			if _, v := m.mode(); v != nil {
				return v
			}
			if v := m.fill(op.Chunk, op.RTT); v != nil {
				return v
			}
		}
	}
	return nil
}

func (m *sphMachine) Apply(op HOp) *vf.Verdict {
	if op.Dt > 0 {
		m.now += op.Dt
	}
	m.sig = append(m.sig, op.K[0], byte(op.N), byte(op.To-op.From))
	switch op.K {
	case "send":
		size := op.Size
		if size <= 0 || size > m.mds {
			size = m.mds
		}
		for i := 0; i < max(op.N, 1); i++ {
			sm, v := m.mode()
			if v != nil {
				return v
			}
			switch sm {
			case ackhandler.SendAny:
				m.sendPacket(size, true)
			case ackhandler.SendPTOAppData:
				// sendProbePacket: retransmit the oldest outstanding packet's frames (or new data)
				if i%2 == 0 {
					m.h.QueueProbePacket(protocol.Encryption1RTT)
				}
				m.sendPacket(size, true)
			case ackhandler.SendAck:
				m.sendPacket(40, false)
				i = op.N // at most one ACK-only packet
			case ackhandler.SendPacingLimited:
				if !op.Wait {
					m.sendPacket(40, false) // maybeSendAckOnlyPacket
					i = op.N
					break
				}
				if t := int64(m.h.TimeUntilSend()); t > m.now {
					m.now = t
				} else {
					m.now += 1_000_000
				}
			default:
				i = op.N
			}
		}
	case "ack":
		if len(m.sent) == 0 {
			break
		}
		from, to := min(op.From, len(m.sent)-1), min(op.To, len(m.sent)-1)
		if from > to {
			from = to
		}
		var pns []protocol.PacketNumber
		keep := m.sent[:0:0]
		keep = append(keep, m.sent[:from]...)
		for i := from; i <= to; i++ {
			if op.Hole > 1 && (i-from)%op.Hole == op.Hole-1 && i != to {
				keep = append(keep, m.sent[i])
				continue
			}
			pns = append(pns, m.sent[i].pn)
		}
		keep = append(keep, m.sent[to+1:]...)
		m.sent = keep
		// ranges: descending, contiguous runs of packet numbers that were really sent
		ranges := ackRanges(pns)
		if _, err := m.h.ReceivedAck(&wire.AckFrame{AckRanges: ranges, DelayTime: time.Duration(op.AckDelay)}, protocol.Encryption1RTT, m.t()); err != nil {
			return vf.Bad(sigSPHError, "ReceivedAck(%v) for sent packets returned %v", ranges, err)
		}
	case "timeout":
		if al := int64(m.h.GetLossDetectionTimeout()); al != 0 {
			if al > m.now {
				m.now = al
			}
			if err := m.h.OnLossDetectionTimeout(m.t()); err != nil {
				return vf.Bad(sigSPHError, "OnLossDetectionTimeout returned %v", err)
			}
		}
	case "mtu":
		s := min(max(op.MDS, m.mds), protocol.MaxPacketBufferSize)
		if s > m.mds && int64(ackhandler.VerifCongestionWindow(m.h)) >= (protocol.MaxCongestionWindowPackets-3)*m.mds {
			m.mtuAtMax = true
		}
		m.h.SetMaxDatagramSize(protocol.ByteCount(s))
		m.mds = s
	case "rounds":
		if v := m.applyRounds(op); v != nil {
			return v
		}
	}
	_, v := m.mode()
	return v
}

func (m *sphMachine) Finish(u *vf.Unit) *vf.Verdict {
	for _, c := range []struct {
		n string
		b bool
	}{{"send-any", m.sawAny}, {"congestion-limited", m.sawAck}, {"pacing-limited", m.sawPacing}, {"pto", m.sawPTO},
		{"inflight>=cwnd", m.atWindow}, {"inflight==cwnd", m.equalWindow}, {"window-reduced", m.shrank}, {"grew-after-reduction", m.grewAfterShrink},
		{"near-history", m.p.Near}, {"rounds-op", m.roundsOp}, {"at-maximum", m.hitMax}, {"within-3-packets-of-maximum", m.nearMax},
		{"window-limited-round-trips-at-maximum>=3", m.roundsAtMax >= 3}, {"window-limited-round-trips-at-maximum>=5", m.roundsAtMax >= 5},
		{"mtu-increase-at-maximum", m.mtuAtMax}} {
		if c.b {
			u.Class(c.n)
		}
	}
	// non-trivial: the window was reached (slow start), reduced (recovery) and grew again afterwards (congestion avoidance)
	if m.atWindow && m.shrank && m.grewAfterShrink {
		u.NonTrivial(m.sig)
	}
	return nil
}

// genNear directs the history to the maximum window through the handler: loss-free window-limited round trips at a
// low round-trip time (slow start doubles the window up to the maximum), then round trips with a clearly higher
// round-trip time in frames of <= 1000 packets, so that hybrid slow start sees 8 increased samples in one round and
// ends slow start without a loss, then further window-limited round trips in (Reno) congestion avoidance at the
// maximum, mixed with small MTU increases and ordinary ops.
func (m *sphMachine) genNear(t *rapid.T) (HOp, bool) {
	if m.nearLeft || m.work > 160_000 {
		return HOp{}, false
	}
	cwnd := int64(ackhandler.VerifCongestionWindow(m.h))
	maxW := protocol.MaxCongestionWindowPackets * m.mds
	if !m.nearExit {
		if cwnd < maxW {
			r := 1
			for w := 2 * cwnd; w < maxW; w *= 2 { // slow start doubles the window every round trip
				r++
			}
			return HOp{K: "rounds", R: r, RTT: m.p.NearRTT, Chunk: m.p.NearChunk}, true
		}
		m.nearExit = true
	}
	if cwnd < maxW-64*m.mds {
		m.nearLeft = true // a reduction: Reno needs thousands of round trips to come back
		return HOp{}, false
	}
	high := m.p.NearRTT*9/4 + 20_000_000
	switch x := rapid.IntRange(0, 9).Draw(t, "near-op"); {
	case x < 7:
		return HOp{K: "rounds", R: rapid.IntRange(1, 2).Draw(t, "r"), RTT: high, Chunk: rapid.SampledFrom([]int{1000, 1000, 64, 500}).Draw(t, "chunk")}, true
	case x == 7:
		return HOp{K: "mtu", MDS: min(m.mds+rapid.SampledFrom([]int64{1, 1, 2, 7}).Draw(t, "near-mtu"), 1452)}, true
	}
	return HOp{}, false
}

func (m *sphMachine) Gen(t *rapid.T) HOp {
	if m.p.Near {
		if op, ok := m.genNear(t); ok {
			return op
		}
	}
	op := HOp{Dt: rapid.SampledFrom([]int64{0, 0, 1000, 100_000, 1_000_000, 5_000_000, 20_000_000, 50_000_000, 300_000_000, 2_000_000_000}).Draw(t, "dt")}
	n := len(m.sent)
	kinds := []string{"send", "send", "send", "ack", "ack", "ack", "timeout", "mtu", "tick"}
	if n == 0 {
		kinds = []string{"send", "send", "tick", "mtu"}
	}
	switch rapid.SampledFrom(kinds).Draw(t, "kind") {
	case "send":
		op.K = "send"
		op.N = rapid.SampledFrom([]int{1, 3, 10, 40, 40, 200}).Draw(t, "n")
		op.Wait = rapid.IntRange(0, 4).Draw(t, "wait") != 0
		if rapid.IntRange(0, 5).Draw(t, "szmode") == 0 {
			op.Size = rapid.Int64Range(30, m.mds).Draw(t, "size")
		}
	case "ack":
		op.K = "ack"
		switch rapid.IntRange(0, 4).Draw(t, "ackmode") {
		case 0: // everything
			op.From, op.To = 0, n-1
		case 1, 2: // a prefix
			op.From, op.To = 0, rapid.IntRange(0, n-1).Draw(t, "to")
		case 3: // skip some at the front: they become lost
			op.From = rapid.IntRange(0, min(n-1, 5)).Draw(t, "from")
			op.To = rapid.IntRange(op.From, n-1).Draw(t, "to")
		default:
			op.From, op.To = 0, n-1
			op.Hole = rapid.IntRange(2, 7).Draw(t, "hole")
		}
		if rapid.IntRange(0, 3).Draw(t, "admode") == 0 {
			op.AckDelay = rapid.Int64Range(0, 30_000_000).Draw(t, "ad")
		}
	case "timeout":
		op.K = "timeout"
	case "mtu":
		op.K = "mtu"
		op.MDS = rapid.SampledFrom([]int64{m.mds, 1400, 1452}).Draw(t, "mds")
	default:
		op.K = "tick"
	}
	return op
}

func TestSendModeWindow(t *testing.T) {
	vf.RunMachine(t, "sendmode-window", 70, func(t *rapid.T) HParams {
		p := HParams{MDS: rapid.SampledFrom([]int64{1200, 1252, 1280, 1452}).Draw(t, "mds"), Server: rapid.Bool().Draw(t, "server")}
		// (a value from the middle of the range: rapid favours the ends)
		if nearOneIn == 1 || rapid.IntRange(0, 2*nearOneIn-1).Draw(t, "near") == nearOneIn+1 {
			p.Near = true
			p.NearRTT = rapid.SampledFrom([]int64{2_000_000, 10_000_000, 20_000_000, 50_000_000, 100_000_000}).Draw(t, "near-rtt")
			p.NearChunk = rapid.SampledFrom([]int{0, 0, 2, 64, 1000}).Draw(t, "near-chunk")
		}
		return p
	}, newSPHMachine)
}
