//go:build go1.25

package c20

// Unit send-loop: the CONNECTION's send loops consult the congestion controller and the pacer before every packet.
//
// The other C20 units decide the window and pacing bounds on the components (internal/congestion, sentPacketHandler).
// This unit decides that connection.go really asks them: it runs the real Conn.run loop with the real send queue,
// the real sentPacketHandler (Reno + pacer), the real receivedPacketHandler and MTU discoverer, on both send paths
// (sendPacketsWithGSO / sendPacketsWithoutGSO) plus triggerSending, maybeSendAckOnlyPacket and sendProbePacket, in a
// testing/synctest bubble (virtual time: pacing and loss deadlines are exact). Only three collaborators are replaced
// (see /repo/verif_hooks_c20.go): the packer (this file decides the size of every packet), the sendConn (records every
// Write with its gsoSize, can report GSO) and the unpacker (ACKs are injected as cleartext 1-RTT packets and travel the
// real receive path handlePacket -> handleShortHeaderPacket -> handleFrames -> handleAckFrame -> ReceivedAck).
//
// Everything generated is drawn before the bubble starts; the verdict is returned after it ended.

import (
	"context"
	"encoding/binary"
	"errors"
	"fmt"
	"os"
	"sort"
	"strings"
	"sync"
	"testing"
	"testing/synctest"
	"time"

	"pgregory.net/rapid"

	quic "github.com/refraction-networking/uquic"
	"github.com/refraction-networking/uquic/internal/ackhandler"
	"github.com/refraction-networking/uquic/internal/monotime"
	"github.com/refraction-networking/uquic/internal/protocol"
	"github.com/refraction-networking/uquic/internal/qerr"
	"github.com/refraction-networking/uquic/internal/wire"
	"github.com/refraction-networking/uquic/verif/vf"
)

const (
	sigSLWindow     = "C20/send-loop/released-at-or-above-window"
	sigSLPacing     = "C20/send-loop/released-while-pacing-limited"
	sigSLMode       = "C20/send-loop/released-while-sending-forbidden"
	sigSLEpoch      = "C20/send-loop/window-exceeded-between-acks"
	sigSLBurst      = "C20/send-loop/burst-exceeds-pacer-budget"
	sigSLInterval   = "C20/send-loop/pacing-interval-bound-exceeded"
	sigSLIdle       = "C20/send-loop/idle-with-data-and-budget"
	sigSLQueueRace  = "C20/send-loop/idle-after-send-queue-was-full"
	sigSLBusy       = "C20/send-loop/busy-loop"
	sigSLConnError  = "C20/send-loop/connection-error"
	sigSLGSOShape   = "C20/send-loop/gso-batch-malformed"
	sigSLNotWritten = "C20/send-loop/packed-packet-not-written"
	sigSLHarness    = "C20/send-loop/harness"
)

// ---- case ----

type SLAck struct {
	Mode    string `json:"m"`            // all | old | new | holes
	K       int    `json:"k,omitempty"`  // old: the K oldest; new: the K newest; holes: every K-th is left out
	DelayUs int64  `json:"ad,omitempty"` // ack delay field
	Ping    bool   `json:"ping,omitempty"`
}

type SLStep struct {
	K string `json:"k"` // q(ueue) | s(leep) | a(ck) | d(eadline: sleep until the pacing deadline) | t(imer: sleep until the loss detection timer)
	// q: N packets following pattern Pat with parameters A, B (or the explicit list Sizes);
	// a size value v <= 0 means "maximum packet size + v", v > 0 is an absolute size
	Pat   string `json:"pat,omitempty"`
	N     int    `json:"n,omitempty"`
	A     int    `json:"a,omitempty"`
	B     int    `json:"b,omitempty"`
	Sizes []int  `json:"sz,omitempty"`
	// q: inject Ack from inside the packer, just before the AckAt-th packet of this step is packed (mid-burst); -1: none
	AckAt int    `json:"at,omitempty"`
	Ack   *SLAck `json:"ack,omitempty"`
	// s: duration in microseconds
	Us int64 `json:"us,omitempty"`
}

type SLCase struct {
	GSO     bool     `json:"gso"`
	DF      bool     `json:"df"`       // socket has the DF bit: path MTU discovery runs
	IPS     int      `json:"ips"`      // Config.InitialPacketSize
	RTTus   int64    `json:"rtt_us"`   // RTT restored from the address validation token; 0: none
	PeerMax int      `json:"peermax"`  // peer's max_udp_payload_size
	Rtx     bool     `json:"rtx"`      // lost packets are queued again (retransmittable frames); false: DATAGRAM-like
	WriteNs int64    `json:"write_ns"` // virtual duration of one socket write (0: instantaneous); > 0 fills the send queue
	Steps   []SLStep `json:"steps"`
}

func expandSizes(s *SLStep) []int {
	if s.Pat == "mix" {
		return s.Sizes
	}
	out := make([]int, s.N)
	for i := range out {
		switch s.Pat {
		case "full":
			out[i] = 0
		case "short":
			out[i] = -s.A
		case "alt":
			if i%2 == 1 {
				out[i] = -s.A
			}
		case "tail": // B full-size packets, then one packet tail
			if s.B > 0 && i%(s.B+1) == s.B {
				out[i] = -s.A
			}
		case "dgram":
			out[i] = s.A
		}
	}
	return out
}

func genSLAck(t *rapid.T, label string) *SLAck {
	a := &SLAck{Mode: rapid.SampledFrom([]string{"all", "all", "old", "old", "new", "new", "holes"}).Draw(t, label+"mode")}
	switch a.Mode {
	case "old":
		a.K = rapid.SampledFrom([]int{1, 2, 3, 5, 10, 20, 40, 100}).Draw(t, label+"k")
	case "new":
		a.K = rapid.SampledFrom([]int{1, 1, 2, 3, 5, 10, 30}).Draw(t, label+"k")
	case "holes":
		a.K = rapid.IntRange(2, 6).Draw(t, label+"k")
	}
	if rapid.IntRange(0, 3).Draw(t, label+"hasdelay") == 0 {
		a.DelayUs = rapid.Int64Range(0, 30000).Draw(t, label+"delay")
	}
	a.Ping = rapid.IntRange(0, 3).Draw(t, label+"ping") == 0
	return a
}

func genSLCase(t *rapid.T) SLCase {
	c := SLCase{
		GSO:     rapid.IntRange(0, 2).Draw(t, "gso") > 0,
		DF:      rapid.IntRange(0, 3).Draw(t, "df") == 0,
		IPS:     rapid.SampledFrom([]int{1200, 1200, 1252, 1280, 1280}).Draw(t, "ips"),
		PeerMax: rapid.SampledFrom([]int{1200, 1350, 1452, 1500, 65527}).Draw(t, "peermax"),
		Rtx:     rapid.Bool().Draw(t, "rtx"),
		WriteNs: rapid.SampledFrom([]int64{0, 0, 0, 0, 1, 300, 5000}).Draw(t, "writens"),
	}
	if c.PeerMax < c.IPS {
		c.PeerMax = c.IPS
	}
	switch rapid.IntRange(0, 5).Draw(t, "rttkind") {
	case 0:
		c.RTTus = 0
	case 1:
		c.RTTus = rapid.Int64Range(100, 2000).Draw(t, "rtt")
	case 2, 3:
		c.RTTus = rapid.Int64Range(2000, 100000).Draw(t, "rtt")
	default:
		c.RTTus = rapid.Int64Range(100000, 1500000).Draw(t, "rtt")
	}
	n := rapid.IntRange(1, 14).Draw(t, "nsteps")
	for i := 0; i < n; i++ {
		var s SLStep
		kind := "q"
		if i > 0 {
			kind = rapid.SampledFrom([]string{"q", "q", "q", "s", "s", "a", "a", "a", "d", "d", "d", "t"}).Draw(t, "kind")
		}
		s.K = kind
		switch kind {
		case "q":
			s.Pat = rapid.SampledFrom([]string{"full", "full", "short", "short", "alt", "tail", "dgram", "mix"}).Draw(t, "pat")
			s.N = rapid.SampledFrom([]int{1, 2, 3, 8, 12, 20, 35, 50, 80, 150, 300}).Draw(t, "n")
			if rapid.IntRange(0, 3).Draw(t, "nfree") == 0 {
				s.N = rapid.IntRange(1, 300).Draw(t, "nn")
			}
			switch s.Pat {
			case "short", "alt", "tail":
				s.A = rapid.SampledFrom([]int{1, 1, 1, 2, 7, 40, 200, 700}).Draw(t, "a")
				s.B = rapid.IntRange(1, 5).Draw(t, "b")
			case "dgram":
				s.A = rapid.SampledFrom([]int{40, 100, 300, 600, 1000, 1199}).Draw(t, "a")
			case "mix":
				m := min(s.N, 60)
				s.N = m
				s.Sizes = make([]int, m)
				for j := range s.Sizes {
					s.Sizes[j] = rapid.SampledFrom([]int{0, 0, 0, -1, -1, -2, -30, -600, 40, 200, 900}).Draw(t, "size")
				}
			}
			s.AckAt = -1
			if i > 0 && rapid.IntRange(0, 2).Draw(t, "midack") == 0 {
				s.AckAt = rapid.IntRange(0, min(s.N-1, 40)).Draw(t, "ackat")
				s.Ack = genSLAck(t, "mid")
			}
		case "s":
			switch rapid.IntRange(0, 4).Draw(t, "skind") {
			case 0:
				s.Us = 0
			case 1:
				s.Us = rapid.Int64Range(1, 1000).Draw(t, "us")
			case 2, 3:
				s.Us = rapid.Int64Range(1000, 200000).Draw(t, "us")
			default:
				s.Us = rapid.Int64Range(200000, 3000000).Draw(t, "us")
			}
		case "a":
			s.Ack = genSLAck(t, "ack")
			// an ACK usually arrives some time after the packets were sent
			if rapid.IntRange(0, 2).Draw(t, "ackwait") > 0 {
				s.Us = rapid.Int64Range(1, 300000).Draw(t, "us")
			}
		}
		c.Steps = append(c.Steps, s)
	}
	return c
}

// ---- harness state ----

type slPkt struct {
	pn       protocol.PacketNumber
	size     protocol.ByteCount
	t        monotime.Time
	kind     byte // 'd' new data (gated), 'm' MTU probe (gated), 'p' PTO probe, 'a' pure ACK
	ae       bool // ack-eliciting
	short    bool // smaller than the maximum packet size at that time
	done     bool // acknowledged or declared lost (callbacks of the sent packet handler)
	peerAckd bool // covered by one of our ACK frames
	written  bool
	bw       float64 // cwnd/srtt in bytes per second when it was packed
	burst    float64 // the pacer's burst allowance for that bandwidth
}

type slQueued struct {
	size int // <= 0: max + size; > 0 absolute
	ack  *SLAck
}

type slHarness struct {
	c    *SLCase
	u    *vf.Unit
	conn *quic.VerifSendLoopConn
	sph  ackhandler.SentPacketHandler
	t0   monotime.Time // virtual time at the start of the case (monotime is negative inside a bubble)

	mu   sync.Mutex // the send queue goroutine (Write) runs concurrently with the run loop (packer callbacks)
	viol *vf.Verdict

	queue  []slQueued
	pkts   []*slPkt
	byPN   map[protocol.PacketNumber]*slPkt
	rcvPN  protocol.PacketNumber
	mdsMax protocol.ByteCount // largest datagram size the pacer may have been configured with

	ownInFlight   protocol.ByteCount // own ledger of ack-eliciting bytes neither acknowledged nor declared lost
	epochReleased protocol.ByteCount // gated bytes released since the last ack / loss event
	instT         monotime.Time
	instBytes     protocol.ByteCount
	instBurst     float64
	instCalls     int
	busy          bool
	lastCwnd      protocol.ByteCount
	// suspect: after the last packet handed out by AppendPacket at least sendQueueCapacity (8) packets were not yet
	// taken by the send queue's goroutine, so the send loop may have returned because sendQueue.WouldBlock() was true.
	// On the unchanged tree the run loop then evaluates WouldBlock() a second time; if the send queue's goroutine took
	// an entry in between, no wake-up is armed at all (finding sigSLQueueRace). The liveness oracle is silent then.
	suspect bool

	writes, gsoWrites, gsoMulti, written int
	inWrite                              int // socket writes in progress (WriteNs > 0)
	nextWrite                            int // index into pkts of the next packet expected on the wire

	cls map[string]bool
	// counters for classes
	nGated, nShortRun, curShortRun, nAckEvents, nLossEvents int
	sig                                                     []byte
}

// class records a class label; the caller holds h.mu.
func (h *slHarness) class(s string) { h.cls[s] = true }

// classL is class for callers that do not hold h.mu.
func (h *slHarness) classL(s string) { h.mu.Lock(); h.cls[s] = true; h.mu.Unlock() }

// rel prints a time relative to the start of the case.
func (h *slHarness) rel(t monotime.Time) string {
	if t.IsZero() {
		return "none"
	}
	return t.Sub(h.t0).String()
}

// slOnly restricts the oracles to the listed signatures (comma separated suffixes): used to measure what each oracle
// catches on its own (NOTES.md, mutant table).
var slOnly = os.Getenv("C20_SL_ONLY")

func (h *slHarness) fail(sig, format string, args ...any) {
	if slOnly != "" && !strings.Contains(","+slOnly+",", ","+strings.TrimPrefix(sig, "C20/send-loop/")+",") {
		return
	}
	if h.viol == nil {
		h.viol = vf.Bad(sig, format, args...)
	}
}

// ---- sendConn ----

func (h *slHarness) Capabilities() (df, gso, ecn bool) { return h.c.DF, h.c.GSO, false }

func (h *slHarness) Write(b []byte, gsoSize uint16, _ protocol.ECN) error {
	h.record1Write(b, gsoSize)
	if h.c.WriteNs > 0 {
		// a slow socket: the send queue's goroutine is busy for a while (virtual time passes only once the run loop blocks)
		time.Sleep(time.Duration(h.c.WriteNs))
		h.mu.Lock()
		h.inWrite--
		h.mu.Unlock()
	}
	return nil
}

func (h *slHarness) record1Write(b []byte, gsoSize uint16) {
	h.mu.Lock()
	defer h.mu.Unlock()
	if h.c.WriteNs > 0 {
		h.inWrite++
	}
	h.writes++
	segs := 1
	seg := len(b)
	if gsoSize > 0 {
		h.gsoWrites++
		seg = int(gsoSize)
		segs = (len(b) + seg - 1) / seg
		if segs > 1 {
			h.gsoMulti++
		}
	}
	// a GSO write is cut by the kernel into segments of gsoSize bytes (the last one may be shorter): every packet
	// must start on a segment boundary
	for i := 0; i < segs; i++ {
		off := i * seg
		if len(b)-off < 8 {
			h.fail(sigSLGSOShape, "write of %d bytes with gsoSize %d: segment %d has only %d bytes", len(b), gsoSize, i, len(b)-off)
			return
		}
		pn := protocol.PacketNumber(binary.BigEndian.Uint64(b[off:]))
		if h.nextWrite >= len(h.pkts) || h.pkts[h.nextWrite].pn != pn {
			want := "none"
			if h.nextWrite < len(h.pkts) {
				want = fmt.Sprint(h.pkts[h.nextWrite].pn)
			}
			h.fail(sigSLGSOShape, "write of %d bytes with gsoSize %d: segment %d starts with packet number %d, the next packed packet is %s (a packet shorter than gsoSize in the middle of a batch, or packets reordered)", len(b), gsoSize, i, pn, want)
			return
		}
		p := h.pkts[h.nextWrite]
		end := min(off+seg, len(b))
		if protocol.ByteCount(end-off) != p.size {
			h.fail(sigSLGSOShape, "write of %d bytes with gsoSize %d: segment %d has %d bytes, packet %d was packed with %d", len(b), gsoSize, i, end-off, pn, p.size)
			return
		}
		p.written = true
		h.written++
		h.nextWrite++
	}
}

// ---- frame handler ----

type slFrameHandler struct {
	h *slHarness
	p *slPkt
}

func (f slFrameHandler) OnAcked(wire.Frame) { f.h.settled(f.p, false) }
func (f slFrameHandler) OnLost(wire.Frame)  { f.h.settled(f.p, true) }

func (h *slHarness) settled(p *slPkt, lost bool) {
	h.mu.Lock()
	defer h.mu.Unlock()
	if p.done {
		return
	}
	p.done = true
	h.ownInFlight -= p.size
	h.epochReleased = 0
	if lost {
		h.nLossEvents++
		if h.instT == monotime.Now() && h.instBytes > 0 {
			h.class("loss-in-the-instant-of-a-burst")
		}
		if h.c.Rtx && p.kind != 'm' {
			// the frames of the lost packet are sent again before new data (retransmission queue)
			h.queue = append([]slQueued{{size: int(p.size)}}, h.queue...)
		}
	} else {
		h.nAckEvents++
	}
}

// ---- packer (run-loop goroutine) ----

const (
	slAckOnlySize       = 38
	slSendQueueCapacity = 8 // send_queue.go sendQueueCapacity
)

func (h *slHarness) estimate() (bw, burst float64) {
	cwnd := ackhandler.VerifCongestionWindow(h.sph)
	srtt := h.conn.RTTStats().SmoothedRTT()
	if srtt <= 0 {
		srtt = protocol.TimerGranularity // congestion.cubicSender.BandwidthEstimate
	}
	bw = float64(cwnd) / srtt.Seconds()
	burst = max(10*float64(h.mdsMax), 1.25*bw*(protocol.MinPacingDelay+protocol.TimerGranularity).Seconds())
	return
}

// record registers a packet that is about to be handed to the connection. Caller holds h.mu.
func (h *slHarness) record(pn protocol.PacketNumber, size protocol.ByteCount, kind byte, ae, short bool) *slPkt {
	bw, burst := h.estimate()
	p := &slPkt{pn: pn, size: size, t: monotime.Now(), kind: kind, ae: ae, short: short, bw: bw, burst: burst}
	h.pkts = append(h.pkts, p)
	h.byPN[pn] = p
	if ae {
		h.ownInFlight += size
	}
	return p
}

func (h *slHarness) pingFor(p *slPkt) ackhandler.Frame {
	return ackhandler.Frame{Frame: &wire.PingFrame{}, Handler: slFrameHandler{h: h, p: p}}
}

// spinGuard notices a run loop that keeps calling the packer without letting virtual time advance.
func (h *slHarness) spinGuard(now monotime.Time) bool {
	if now != h.instT {
		h.instT, h.instBytes, h.instBurst, h.instCalls = now, 0, 0, 0
	}
	h.instCalls++
	if h.instCalls > 20000 && !h.busy {
		h.busy = true
		h.fail(sigSLBusy, "the run loop called the packer more than 20000 times in one virtual instant (queued %d, send mode %s)", len(h.queue), h.sph.SendMode(now))
		go h.conn.Destroy(errors.New("verif: busy loop"))
	}
	return h.busy
}

// gate checks the release of one gated (new ack-eliciting, non-probe) packet. Caller holds h.mu.
func (h *slHarness) gate(now monotime.Time, size protocol.ByteCount, what string) {
	mode := h.sph.SendMode(now)
	bif := ackhandler.VerifBytesInFlight(h.sph)
	cwnd := ackhandler.VerifCongestionWindow(h.sph)
	if cwnd < h.lastCwnd {
		h.class("window-reduced")
	}
	h.lastCwnd = cwnd
	ctx := func() string {
		return fmt.Sprintf("%s of %d bytes (gated packet #%d, gso=%v) at t=%v: send mode %s, bytes in flight %d (own ledger %d), congestion window %d, released since the last ack/loss event %d, released in this instant %d",
			what, size, h.nGated+1, h.c.GSO, h.rel(now), mode, bif, h.ownInFlight, cwnd, h.epochReleased, h.instBytes)
	}
	switch mode {
	case ackhandler.SendAny:
	case ackhandler.SendAck:
		h.fail(sigSLWindow, "new ack-eliciting data released while congestion limited: %s", ctx())
	case ackhandler.SendPacingLimited:
		h.fail(sigSLPacing, "new ack-eliciting data released before the pacer allows it (deadline %v): %s", h.rel(h.sph.TimeUntilSend()), ctx())
	default:
		h.fail(sigSLMode, "new ack-eliciting data released in a send mode that does not allow it: %s", ctx())
	}
	if bif >= cwnd {
		h.fail(sigSLWindow, "bytes in flight not below the congestion window: %s", ctx())
	}
	if h.ownInFlight >= cwnd {
		h.fail(sigSLWindow, "bytes in flight (own ledger) not below the congestion window: %s", ctx())
	}
	// between two ack / loss events the window is constant and nothing leaves the network: at most one window plus
	// the packet that crosses it
	if h.epochReleased >= cwnd {
		h.fail(sigSLEpoch, "more than a congestion window (plus one packet) released between two acknowledgements: %s", ctx())
	}
	// one virtual instant: the token bucket is not refilled, so at most one burst (plus the packet that empties it)
	_, burst := h.estimate()
	h.instBurst = max(h.instBurst, burst)
	if float64(h.instBytes) > h.instBurst*(1+1e-9)+1 {
		h.fail(sigSLBurst, "more than the pacer's burst (%.0f bytes, plus one packet) released without any time passing: %s", h.instBurst, ctx())
	}
	h.epochReleased += size
	h.instBytes += size
	h.nGated++
}

func (h *slHarness) AppendPacket(pn protocol.PacketNumber, maxSize protocol.ByteCount, now monotime.Time) (quic.VerifShortHeaderPacket, bool) {
	h.mu.Lock()
	defer h.mu.Unlock()
	now = monotime.Now()
	if h.spinGuard(now) {
		return quic.VerifShortHeaderPacket{}, false
	}
	h.mdsMax = max(h.mdsMax, maxSize)
	if len(h.queue) == 0 {
		// packetPacker.composeNextPacket: without data an ACK is only sent if one is queued
		ack := h.conn.GetAckFrame(now, true)
		if ack == nil {
			return quic.VerifShortHeaderPacket{}, false
		}
		h.record(pn, slAckOnlySize, 'a', false, true)
		h.suspect = len(h.pkts)-h.written >= slSendQueueCapacity
		h.class("ack-in-send-loop")
		return quic.VerifShortHeaderPacket{Ack: ack, Length: slAckOnlySize}, true
	}
	q := h.queue[0]
	h.queue = h.queue[1:]
	if q.ack != nil {
		h.mu.Unlock()
		injected := h.injectAck(q.ack)
		h.mu.Lock()
		if injected {
			h.class("ack-mid-burst")
		}
	}
	size := protocol.ByteCount(q.size)
	if q.size <= 0 {
		size = maxSize + protocol.ByteCount(q.size)
	}
	size = max(min(size, maxSize), slAckOnlySize+2)
	short := size < maxSize
	h.gate(now, size, "AppendPacket")
	if short {
		h.curShortRun++
		if h.curShortRun >= 3 {
			h.class("short-run>=3")
		}
		if h.curShortRun >= 12 {
			h.class("short-run>=12")
		}
	} else {
		h.curShortRun = 0
	}
	p := h.record(pn, size, 'd', true, short)
	h.suspect = len(h.pkts)-h.written >= slSendQueueCapacity
	return quic.VerifShortHeaderPacket{
		Frames: []ackhandler.Frame{h.pingFor(p)},
		Ack:    h.conn.GetAckFrame(now, false),
		Length: size,
	}, true
}

func (h *slHarness) PackAckOnlyPacket(pn protocol.PacketNumber, _ protocol.ByteCount, now monotime.Time) (quic.VerifShortHeaderPacket, bool) {
	h.mu.Lock()
	defer h.mu.Unlock()
	now = monotime.Now()
	if h.spinGuard(now) {
		return quic.VerifShortHeaderPacket{}, false
	}
	ack := h.conn.GetAckFrame(now, true)
	if ack == nil {
		return quic.VerifShortHeaderPacket{}, false
	}
	h.record(pn, slAckOnlySize, 'a', false, true)
	h.suspect = false
	h.class("ack-only-packet")
	return quic.VerifShortHeaderPacket{Ack: ack, Length: slAckOnlySize}, true
}

func (h *slHarness) PackPTOProbePacket(pn protocol.PacketNumber, maxSize protocol.ByteCount, addPingIfEmpty bool, now monotime.Time) (quic.VerifShortHeaderPacket, bool) {
	h.mu.Lock()
	defer h.mu.Unlock()
	now = monotime.Now()
	if h.spinGuard(now) {
		return quic.VerifShortHeaderPacket{}, false
	}
	h.mdsMax = max(h.mdsMax, maxSize)
	var size protocol.ByteCount
	if len(h.queue) > 0 {
		q := h.queue[0]
		h.queue = h.queue[1:]
		size = protocol.ByteCount(q.size)
		if q.size <= 0 {
			size = maxSize + protocol.ByteCount(q.size)
		}
		size = max(min(size, maxSize), slAckOnlySize+2)
	} else if addPingIfEmpty {
		size = slAckOnlySize + 2
	} else {
		return quic.VerifShortHeaderPacket{}, false
	}
	// exempt from the window and the pacer (RFC 9002 section 7.5; property text: "probe packets and pure ACKs excepted")
	p := h.record(pn, size, 'p', true, size < maxSize)
	h.suspect = false
	h.class("pto-probe")
	return quic.VerifShortHeaderPacket{
		Frames: []ackhandler.Frame{h.pingFor(p)},
		Ack:    h.conn.GetAckFrame(now, false),
		Length: size,
	}, true
}

func (h *slHarness) PackMTUProbePacket(pn protocol.PacketNumber, ping ackhandler.Frame, size protocol.ByteCount) quic.VerifShortHeaderPacket {
	h.mu.Lock()
	defer h.mu.Unlock()
	now := monotime.Now()
	h.spinGuard(now)
	// an MTU probe is ack-eliciting new data: sendPackets is only entered in SendAny
	h.gate(now, size, "PackMTUProbePacket")
	p := h.record(pn, size, 'm', true, false)
	h.suspect = false
	h.class("mtu-probe")
	return quic.VerifShortHeaderPacket{Frames: []ackhandler.Frame{ping, h.pingFor(p)}, Length: size}
}

// ---- the peer ----

// injectAck sends an ACK for packets that left at an earlier virtual instant (a peer cannot answer in zero time).
// Must not be called with h.mu held.
func (h *slHarness) injectAck(a *SLAck) bool {
	h.mu.Lock()
	now := monotime.Now()
	var cand []*slPkt
	for _, p := range h.pkts {
		if !p.peerAckd && p.t < now {
			cand = append(cand, p)
		}
	}
	var pick []*slPkt
	switch a.Mode {
	case "all":
		pick = cand
	case "old":
		pick = cand[:min(a.K, len(cand))]
	case "new":
		pick = cand[len(cand)-min(a.K, len(cand)):]
	case "holes":
		for i, p := range cand {
			if a.K > 0 && i%a.K != a.K-1 {
				pick = append(pick, p)
			}
		}
	}
	hasAE := false
	for _, p := range pick {
		if p.ae {
			hasAE = true
		}
	}
	if len(pick) == 0 || !hasAE {
		// a peer only sends an ACK for ack-eliciting packets; nothing to acknowledge yet
		h.mu.Unlock()
		return false
	}
	for _, p := range pick {
		p.peerAckd = true
	}
	// the peer reports everything it has received so far, newest first
	var pns []protocol.PacketNumber
	for _, p := range h.pkts {
		if p.peerAckd {
			pns = append(pns, p.pn)
		}
	}
	sort.Slice(pns, func(i, j int) bool { return pns[i] > pns[j] })
	var ranges []wire.AckRange
	for _, pn := range pns {
		if n := len(ranges); n > 0 && ranges[n-1].Smallest == pn+1 {
			ranges[n-1].Smallest = pn
			continue
		}
		if len(ranges) == 150 {
			break
		}
		ranges = append(ranges, wire.AckRange{Smallest: pn, Largest: pn})
	}
	h.rcvPN++
	rcvPN := h.rcvPN
	h.mu.Unlock()

	frames := []wire.Frame{&wire.AckFrame{AckRanges: ranges, DelayTime: time.Duration(a.DelayUs) * time.Microsecond}}
	if a.Ping {
		frames = append(frames, &wire.PingFrame{})
	}
	if err := h.conn.Receive(rcvPN, frames, protocol.ECNNon); err != nil {
		h.mu.Lock()
		h.fail(sigSLHarness, "cannot serialise the ACK: %v", err)
		h.mu.Unlock()
		return false
	}
	return true
}

// ---- quiescent checks (harness goroutine, run loop durably blocked) ----

func (h *slHarness) closed() (bool, error) {
	select {
	case <-h.conn.Context().Done():
		return true, context.Cause(h.conn.Context())
	default:
		return false, nil
	}
}

func (h *slHarness) quiescent(where string) {
	h.mu.Lock()
	defer h.mu.Unlock()
	if h.viol != nil {
		return
	}
	now := monotime.Now()
	mode := h.sph.SendMode(now)
	if len(h.queue) > 0 {
		switch mode {
		case ackhandler.SendAck:
			h.class("window-limited-stop")
			if ackhandler.VerifBytesInFlight(h.sph) == ackhandler.VerifCongestionWindow(h.sph) {
				h.class("stop-at-inflight==cwnd")
			}
		case ackhandler.SendPacingLimited:
			h.class("pacing-limited-stop")
		case ackhandler.SendNone:
			h.class("tracked-packets-limit-stop")
		}
	}
	if h.written != len(h.pkts) {
		h.fail(sigSLNotWritten, "%s: %d packets packed, %d written although the connection is idle", where, len(h.pkts), h.written)
		return
	}
	// liveness: the connection may not sit idle with data queued while the congestion controller and the pacer
	// allow sending and the pacer's own deadline has passed (nothing is left that could wake it up in time)
	if len(h.queue) > 0 && mode == ackhandler.SendAny && !h.conn.SendQueueWouldBlock() {
		tus := h.sph.TimeUntilSend()
		if tus.IsZero() || !tus.After(now) {
			if h.suspect {
				h.class("obs:idle-after-send-queue-was-full")
				if os.Getenv("C20_SL_DEBUG") != "" {
					dl, imm := h.conn.PacingDeadline()
					fmt.Printf("OBS %s t=%v queued=%d gso=%v unwritten-after-last-packet>=8 pkts=%d tus=%v conn.pacingDeadline=%v imm=%v last=%v\n", where, h.rel(now), len(h.queue), h.c.GSO, len(h.pkts), h.rel(tus), h.rel(dl), imm, h.trace()[max(0, len(h.trace())-3):])
				}
				h.u.KnownHit(sigSLQueueRace)
				return
			}
			dl, imm := h.conn.PacingDeadline()
			h.fail(sigSLIdle, "%s: at t=%v the run loop is blocked with %d packets queued although the send mode is SendAny (bytes in flight %d, window %d) and the pacing deadline %v is not in the future; connection's pacing timer: %v (send-immediately=%v), loss timer %v",
				where, h.rel(now), len(h.queue), ackhandler.VerifBytesInFlight(h.sph), ackhandler.VerifCongestionWindow(h.sph), h.rel(tus), h.rel(dl), imm, h.rel(h.sph.GetLossDetectionTimeout()))
		}
	}
	if len(h.queue) > 0 {
		if h.suspect {
			h.class("liveness-skipped(send-queue-may-have-filled)")
		} else {
			h.class("liveness-checked")
		}
	}
}

// intervals is the connection-level version of the pacer's interval bound: the gated bytes released in [t_i, t_j]
// never exceed one burst + 1.25 x bandwidth x (t_j - t_i) + one packet, for the largest bandwidth estimate
// (cwnd / smoothed RTT) in force at any packet in the interval.
func (h *slHarness) intervals() {
	const back = 96
	n := len(h.pkts)
	for j := 0; j < n; j++ {
		pj := h.pkts[j]
		if pj.kind != 'd' && pj.kind != 'm' {
			continue
		}
		var sum, maxPkt protocol.ByteCount
		var bw, burst float64
		lo := max(0, j-back)
		check := func(i int) {
			pi := h.pkts[i]
			dt := pj.t.Sub(pi.t).Seconds()
			bound := burst + 1.25*bw*dt + float64(maxPkt)
			if float64(sum) > bound*(1+1e-9)+2 {
				h.fail(sigSLInterval, "gated packets %d..%d (of %d packets): %d bytes of new ack-eliciting data released within %v, the pacer allows at most burst %.0f + 1.25 x %.0f B/s x elapsed + one packet (%d) = %.0f",
					i, j, n, sum, pj.t.Sub(pi.t), burst, bw, maxPkt, bound)
			}
		}
		for i := j; i >= 0; i-- {
			pi := h.pkts[i]
			bw, burst = max(bw, pi.bw), max(burst, pi.burst)
			if pi.kind != 'd' && pi.kind != 'm' {
				continue
			}
			sum += pi.size
			maxPkt = max(maxPkt, pi.size)
			if i >= lo || i == 0 {
				check(i)
			}
			if h.viol != nil {
				return
			}
		}
	}
}

// ---- one case ----

func runSendLoop(c *SLCase, u *vf.Unit) *vf.Verdict {
	h := &slHarness{c: c, u: u, t0: monotime.Now(), byPN: map[protocol.PacketNumber]*slPkt{}, cls: map[string]bool{}, mdsMax: 1280}
	conf := &quic.Config{
		InitialPacketSize:       uint16(c.IPS),
		DisablePathMTUDiscovery: !c.DF,
		MaxIdleTimeout:          10 * time.Minute,
	}
	peer := &wire.TransportParameters{
		MaxIdleTimeout:          10 * time.Minute,
		MaxUDPPayloadSize:       protocol.ByteCount(c.PeerMax),
		AckDelayExponent:        protocol.AckDelayExponent,
		MaxAckDelay:             25 * time.Millisecond,
		ActiveConnectionIDLimit: 2,
		InitialMaxData:          1 << 30,
		MaxDatagramFrameSize:    protocol.InvalidByteCount,
	}
	conn, err := quic.VerifNewSendLoopConn(h, h, conf, time.Duration(c.RTTus)*time.Microsecond, peer)
	if err != nil {
		return vf.Bad(sigSLHarness, "constructing the connection: %v", err)
	}
	h.conn = conn
	h.sph = conn.SentPacketHandler()
	h.lastCwnd = ackhandler.VerifCongestionWindow(h.sph)

	errCh := make(chan error, 1)
	go func() { errCh <- conn.Run() }()
	synctest.Wait()

	stopped := false
	check := func(where string) bool {
		synctest.Wait()
		if c.WriteNs > 0 {
			// let the socket finish: the run loop may be waiting for the send queue
			for n := 0; ; n++ {
				h.mu.Lock()
				busy := h.inWrite > 0
				h.mu.Unlock()
				if !busy {
					break
				}
				if n == 0 && conn.SendQueueWouldBlock() {
					h.classL("send-queue-blocked")
				}
				if n > 100000 {
					h.mu.Lock()
					h.fail(sigSLHarness, "%s: the send queue does not drain", where)
					h.mu.Unlock()
					break
				}
				time.Sleep(time.Duration(c.WriteNs))
				synctest.Wait()
			}
		}
		if done, cause := h.closed(); done {
			stopped = true
			h.mu.Lock()
			if errors.Is(cause, qerr.ErrIdleTimeout) {
				h.class("closed:idle-timeout")
			} else if !h.busy {
				h.fail(sigSLConnError, "%s: the connection closed itself: %v", where, cause)
			}
			h.mu.Unlock()
			return false
		}
		h.quiescent(where)
		return h.viol == nil
	}

	for i, s := range c.Steps {
		where := fmt.Sprintf("step %d (%s)", i, s.K)
		h.sig = append(h.sig, s.K[0])
		switch s.K {
		case "q":
			sizes := expandSizes(&s)
			h.mu.Lock()
			for j, sz := range sizes {
				q := slQueued{size: sz}
				if j == s.AckAt && s.Ack != nil {
					q.ack = s.Ack
				}
				h.queue = append(h.queue, q)
			}
			h.mu.Unlock()
			h.sig = append(h.sig, s.Pat[0], byte(len(sizes)>>3))
			conn.ScheduleSending()
		case "s":
			time.Sleep(time.Duration(s.Us) * time.Microsecond)
		case "a":
			if s.Us > 0 {
				time.Sleep(time.Duration(s.Us) * time.Microsecond)
				if !check(where + " wait") {
					break
				}
			}
			h.sig = append(h.sig, s.Ack.Mode[0])
			if h.injectAck(s.Ack) {
				h.classL("ack-injected")
			}
		case "d":
			// sleep exactly until the pacer's deadline
			h.mu.Lock()
			now := monotime.Now()
			var d time.Duration
			if len(h.queue) > 0 && h.sph.SendMode(now) == ackhandler.SendPacingLimited {
				if tus := h.sph.TimeUntilSend(); tus.After(now) {
					d = tus.Sub(now)
				}
			}
			h.mu.Unlock()
			if d > 0 {
				before := len(h.pkts)
				time.Sleep(d)
				synctest.Wait()
				h.mu.Lock()
				h.class("deadline-wait")
				if len(h.pkts) > before {
					h.class("released-at-deadline")
				}
				h.mu.Unlock()
			}
		case "t":
			now := monotime.Now()
			if t := h.sph.GetLossDetectionTimeout(); !t.IsZero() && t.After(now) && t.Sub(now) < 2*time.Minute {
				time.Sleep(t.Sub(now))
				h.classL("loss-timer-wait")
			}
		}
		if stopped || !check(where) {
			break
		}
	}

	if !stopped {
		conn.Destroy(nil)
	}
	select {
	case <-errCh:
	case <-time.After(time.Hour):
		h.fail(sigSLHarness, "the run loop did not return after destroy")
	}
	synctest.Wait()

	h.mu.Lock()
	defer h.mu.Unlock()
	if h.viol == nil {
		h.intervals()
	}
	if h.viol != nil {
		h.viol.Trace = h.trace()
		return h.viol
	}

	// bookkeeping
	if c.GSO {
		u.Class("gso")
		if h.gsoMulti > 0 {
			u.Class("gso-batch>=2")
		}
		if h.gsoWrites > 0 {
			u.Class("gso-path-exercised")
		}
	} else {
		u.Class("no-gso")
		if h.nGated > 0 {
			u.Class("non-gso-path-exercised")
		}
	}
	for k := range h.cls {
		u.Class(k)
	}
	if h.nAckEvents > 0 {
		u.Class("ack-processed")
	}
	if h.nLossEvents > 0 {
		u.Class("loss")
	}
	if h.nGated >= 100 {
		u.Class("released>=100")
	}
	if h.mdsMax > protocol.ByteCount(max(c.IPS, 1280)) {
		u.Class("mtu-increase")
	}
	limited := h.cls["window-limited-stop"] || h.cls["pacing-limited-stop"]
	if limited && h.nAckEvents > 0 && h.nGated >= 12 {
		u.NonTrivial(c.GSO, c.IPS, c.Rtx, string(h.sig))
	}
	return nil
}

func (h *slHarness) trace() []string {
	var out []string
	n := len(h.pkts)
	lo := max(0, n-60)
	if lo > 0 {
		out = append(out, fmt.Sprintf("... %d earlier packets", lo))
	}
	for _, p := range h.pkts[lo:] {
		out = append(out, fmt.Sprintf("t=%v pn=%d %c size=%d written=%v", h.rel(p.t), p.pn, p.kind, p.size, p.written))
	}
	return out
}

func TestSendLoop(t *testing.T) {
	vf.ReplayRepeat = 5
	vf.RunRapid(t, "send-loop", genSLCase, func(c SLCase, u *vf.Unit) (v *vf.Verdict) {
		defer func() {
			// synctest panics when goroutines of an abandoned bubble remain; keep the verdict that caused it
			if r := recover(); r != nil && v == nil {
				s := fmt.Sprint(r)
				if len(s) > 2000 {
					s = s[:2000]
				}
				v = vf.Bad("C20/send-loop/bubble", "%s", strings.TrimSpace(s))
			}
		}()
		synctest.Test(t, func(*testing.T) {
			v = vf.Guard("C20/send-loop", func() *vf.Verdict { return runSendLoop(&c, u) })
		})
		return v
	})
}
