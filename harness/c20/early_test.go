// C20 unit wire-early-window: whole connections over the simulated network; the oracle reads the decrypted wire log.
//
// Until the first acknowledgement for the client's application data has been delivered to the client (and before its
// first probe timeout can fire), nothing has left the network, so everything the client sent is in flight: the
// ack-eliciting 0-RTT + 1-RTT bytes it sent must fit the initial congestion window (plus the one packet that may
// overshoot, plus one packet per acknowledged Initial / Handshake packet: slow start), and what it sends within one
// virtual instant must fit the pacer's burst. See NOTES.md, section "wire-early-window".
package c20

import (
	"context"
	"encoding/json"
	"fmt"
	"io"
	"os"
	"strings"
	"sync"
	"testing"
	"time"

	tls "github.com/refraction-networking/utls"
	"pgregory.net/rapid"

	quic "github.com/refraction-networking/uquic"
	"github.com/refraction-networking/uquic/internal/utils"
	"github.com/refraction-networking/uquic/verif/refwire"
	"github.com/refraction-networking/uquic/verif/sim"
	"github.com/refraction-networking/uquic/verif/specgen"
	"github.com/refraction-networking/uquic/verif/vf"
)

const (
	sigEarlyWindow = "C20/wire/early-window-exceeded"
	sigEarlyBurst  = "C20/wire/early-burst-exceeded"
	sigEarlyConn   = "C20/wire/early-harness"
	sigEarlyStall  = "C20/wire/early-stall-after-queued-acks"

	// internal/congestion: initialCongestionWindow = 32 (packets of the connection's initial packet size),
	// pacer: maxBurstSizePackets = 10 datagrams of initialMaxDatagramSize = 1280 bytes (the pacer keeps 1280 whatever
	// Config.InitialPacketSize says); the bandwidth term of maxBurstSize (1.25 * cwnd/srtt * 2 ms) stays below that
	// for every smoothed RTT >= 8.75 ms, and the scenario's RTTs start at 20 ms (before a sample: 100 ms).
	ewInitialWindowPackets = 32
	ewPacerBurst           = 10 * 1280
	// internal/utils/rtt_stats.go: PTO() without an RTT sample is 2 * DefaultInitialRTT = 200 ms, restored RTTs do not
	// count as a sample (RFC 9002 would give 3 * kInitialRtt = 999 ms). The first probe of the client can therefore
	// fire 200 ms after its (last) first-flight Initial; the measurement stops at 0.9 of that after the FIRST one.
	ewFirstPTO = 200 * time.Millisecond
)

type EWCase struct {
	Client   string  `json:"client"` // plain | spec:<base>
	Mode     string  `json:"mode"`   // 0rtt: DialEarly on a resumed session, data written as soon as DialEarly returns | control: Dial, data written as soon as Dial returns
	RTTms    int     `json:"rtt_ms"`
	InitSize int     `json:"initial_packet_size,omitempty"` // client Config.InitialPacketSize (0 = 1280)
	Chunks   [][]int `json:"chunks"`                        // per stream: sizes of the successive Write calls
	Drop     []int   `json:"drop_s2c,omitempty"`            // ordinals (among the measured connection's s2c datagrams) that are dropped
	Seed     uint64  `json:"seed"`
}

func genEWCase(t *rapid.T) EWCase {
	c := EWCase{Seed: rapid.Uint64().Draw(t, "seed")}
	c.Client = rapid.SampledFrom([]string{"plain", "plain", "plain", "spec:chrome115", "spec:firefoxA"}).Draw(t, "client")
	c.Mode = rapid.SampledFrom([]string{"0rtt", "0rtt", "0rtt", "control"}).Draw(t, "mode")
	c.RTTms = rapid.SampledFrom([]int{20, 30, 60, 100, 150, 250, 400}).Draw(t, "rtt")
	c.InitSize = rapid.SampledFrom([]int{0, 0, 1200, 1252}).Draw(t, "initsize")
	ns := rapid.IntRange(1, 3).Draw(t, "streams")
	total := rapid.SampledFrom([]int{0, 3000, 20000, 45000, 60000, 100000, 200000, 300000}).Draw(t, "total")
	for s := 0; s < ns; s++ {
		left := total / ns
		var ch []int
		for left > 0 {
			n := rapid.SampledFrom([]int{100, 1000, 1400, 4000, 16000, 64000}).Draw(t, "chunk")
			if n > left {
				n = left
			}
			ch = append(ch, n)
			left -= n
		}
		c.Chunks = append(c.Chunks, ch)
	}
	if c.Mode == "0rtt" && rapid.IntRange(0, 2).Draw(t, "dropflight") == 0 {
		// the server's first flight (one to three datagrams)
		for i := 0; i < 3; i++ {
			if rapid.Bool().Draw(t, "drop") {
				c.Drop = append(c.Drop, i)
			}
		}
	}
	return c
}

type ewCache struct {
	inner tls.ClientSessionCache
	puts  chan struct{}
}

func (c *ewCache) Get(k string) (*tls.ClientSessionState, bool) { return c.inner.Get(k) }
func (c *ewCache) Put(k string, s *tls.ClientSessionState) {
	c.inner.Put(k, s)
	select {
	case c.puts <- struct{}{}:
	default:
	}
}

var ewT *testing.T

// ewStrict (VERIF_C20_STRICT=1) reports the stall finding instead of tolerating it.
var ewStrict = os.Getenv("VERIF_C20_STRICT") == "1"

func checkEW(c EWCase, u *vf.Unit) *vf.Verdict {
	u.Journal(c)
	var v *vf.Verdict
	sim.Bubble(ewT, 20*time.Second, func() { v = runEW(c, u) }, func(rep sim.LeakReport) {
		if v == nil {
			v = vf.Bad(sigEarlyConn, "%d goroutines alive after the scenario closed everything:\n%s", rep.Count, rep.Dump)
		}
	})
	return v
}

func runEW(c EWCase, u *vf.Unit) *vf.Verdict {
	w := sim.NewWorld(time.Duration(c.RTTms)*time.Millisecond, nil, nil, nil)
	defer w.Close()
	w.Observe()
	mds := 1280
	if c.InitSize > 0 {
		mds = c.InitSize
	}
	isSpec := strings.HasPrefix(c.Client, "spec:")

	st := &quic.Transport{Conn: w.ServerConn}
	sconf := &quic.Config{DisablePathMTUDiscovery: true, Allow0RTT: true, MaxIdleTimeout: 20 * time.Second, HandshakeIdleTimeout: 10 * time.Second}
	ln, err := st.ListenEarly(sim.ServerTLS(false, w.ServerKeys), sconf)
	if err != nil {
		st.Close()
		return vf.Bad(sigEarlyConn, "listen: %v", err)
	}
	ct := &quic.Transport{Conn: w.ClientConn}
	ctx, cancel := context.WithTimeout(context.Background(), 120*time.Second)
	var open []*quic.Conn
	var openMu sync.Mutex
	cleanup := func() {
		cancel()
		openMu.Lock()
		for _, cn := range open {
			cn.CloseWithError(0, "")
		}
		openMu.Unlock()
		ln.Close()
		ct.Close()
		st.Close()
	}
	bad := func(sig, f string, a ...any) *vf.Verdict {
		v := vf.Bad(sig, f, a...)
		v.Trace = w.Router.Trace(200)
		cleanup()
		return v
	}

	// server: accepts connections, drains every unidirectional stream
	go func() {
		for {
			conn, err := ln.Accept(ctx)
			if err != nil {
				return
			}
			openMu.Lock()
			open = append(open, conn)
			openMu.Unlock()
			go func() {
				for {
					str, err := conn.AcceptUniStream(ctx)
					if err != nil {
						return
					}
					go io.Copy(io.Discard, str)
				}
			}()
		}
	}()

	ctls := sim.ClientTLS(w.ClientKeys)
	cache := &ewCache{inner: tls.NewLRUClientSessionCache(8), puts: make(chan struct{}, 8)}
	ctls.ClientSessionCache = cache
	cconf := &quic.Config{DisablePathMTUDiscovery: true, MaxIdleTimeout: 20 * time.Second, HandshakeIdleTimeout: 10 * time.Second}
	if c.InitSize > 0 {
		cconf.InitialPacketSize = uint16(c.InitSize)
	}
	dial := func(early bool) (*quic.Conn, error) {
		if isSpec {
			spec, e := specgen.Desc{Base: strings.TrimPrefix(c.Client, "spec:")}.Build()
			if e != nil {
				return nil, e
			}
			// the built-in parrots do not offer pre_shared_key: without it a spec-driven client can never resume
			spec.ClientHelloSpec.Extensions = append(spec.ClientHelloSpec.Extensions, &tls.UtlsPreSharedKeyExtension{})
			ut := &quic.UTransport{Transport: ct, QUICSpec: spec}
			if early {
				return ut.DialEarly(ctx, sim.ServerAddr, ctls, cconf)
			}
			return ut.Dial(ctx, sim.ServerAddr, ctls, cconf)
		}
		if early {
			return ct.DialEarly(ctx, sim.ServerAddr, ctls, cconf)
		}
		return ct.Dial(ctx, sim.ServerAddr, ctls, cconf)
	}
	if isSpec {
		ctls.OmitEmptyPsk = true // uTLS: a pre_shared_key extension without a session is left out instead of failing the dial
	}

	// ---- first connection: session ticket
	if c.Mode == "0rtt" {
		conn, err := dial(false)
		if err != nil {
			return bad(sigEarlyConn, "first connection (%s): %v", c.Client, err)
		}
		select {
		case <-cache.puts:
		case <-time.After(3 * time.Second):
		}
		conn.CloseWithError(0, "")
		time.Sleep(3 * time.Second) // closing period
	}

	// ---- measured connection
	mark := w.Router.Mark()
	var faults []sim.Fault
	for _, n := range c.Drop {
		faults = append(faults, sim.Fault{Dir: "s2c", Nth: n, Kind: "drop"})
	}
	w.Router.Arm(faults)
	t0 := w.Router.Now()
	conn, err := dial(c.Mode == "0rtt")
	if err != nil {
		return bad(sigEarlyConn, "measured connection (%s, %s): %v", c.Client, c.Mode, err)
	}
	openMu.Lock()
	open = append(open, conn)
	openMu.Unlock()
	dialReturned := w.Router.Now() - t0
	earlyReturn := false
	select {
	case <-conn.HandshakeComplete():
	default:
		earlyReturn = true
	}
	total := 0
	var wg sync.WaitGroup
	for si, chunks := range c.Chunks {
		if len(chunks) == 0 {
			continue
		}
		str, err := conn.OpenUniStream()
		if err != nil {
			return bad(sigEarlyConn, "OpenUniStream #%d: %v", si, err)
		}
		for _, n := range chunks {
			total += n
		}
		wg.Add(1)
		go func() {
			defer wg.Done()
			buf := make([]byte, 65536)
			for _, n := range chunks {
				if n > len(buf) {
					buf = make([]byte, n)
				}
				if _, err := str.Write(buf[:n]); err != nil {
					return
				}
			}
			str.Close()
		}()
	}
	written := make(chan struct{})
	go func() { wg.Wait(); close(written) }()
	allWritten := sim.WaitCtx(written, 30*time.Second)
	select {
	case <-conn.HandshakeComplete():
	case <-conn.Context().Done():
	case <-time.After(15 * time.Second):
	}
	used0RTT := conn.ConnectionState().Used0RTT
	connErr := context.Cause(conn.Context())
	time.Sleep(time.Duration(c.RTTms)*time.Millisecond + 50*time.Millisecond)
	recs := w.Router.Trace(1 << 30)[mark:]
	cleanup()
	<-written
	if (connErr != nil || !allWritten) && c.Mode == "0rtt" && len(w.Router.AppliedFaults()) > 0 && !isSpec {
		// Finding on the unchanged tree (NOTES.md): the acknowledgements that re-open the window sit in 1-RTT packets the
		// client queued as undecryptable; after processing them the run loop goes back to sleep without sending.
		v := &vf.Verdict{Sig: sigEarlyStall, Detail: fmt.Sprintf("plain 0-RTT client, server's first flight partly lost (%v): connection error %v, all data taken %v", w.Router.AppliedFaults(), connErr, allWritten), Trace: w.Router.Trace(300)}
		if ewStrict {
			return v
		}
		u.KnownHit(sigEarlyStall)
		u.Class("finding:early-stall-tolerated")
		return nil
	}
	if connErr != nil {
		js, _ := json.Marshal(c)
		return &vf.Verdict{Sig: sigEarlyConn, Detail: fmt.Sprintf("measured connection (%s, %s) died: %v; case %s", c.Client, c.Mode, connErr, js), Trace: w.Router.Trace(300)}
	}
	if !allWritten {
		return &vf.Verdict{Sig: sigEarlyConn, Detail: fmt.Sprintf("%d bytes were not taken by the connection within 30 s (rtt %d ms)", total, c.RTTms), Trace: w.Router.Trace(300)}
	}

	// ---- the wire log of the measured connection
	var tFirst time.Duration = -1
	for _, r := range recs {
		if r.Dir == "c2s" && !r.Forged {
			tFirst = r.T
			break
		}
	}
	if tFirst < 0 {
		return &vf.Verdict{Sig: sigEarlyConn, Detail: "the measured connection sent nothing"}
	}
	// end of the measurement: delivery of the first datagram that carries an ACK frame in a 1-RTT packet to the client
	// (delivery precedes processing), or 0.9 x the first probe timeout after the first Initial
	tEnd := tFirst + ewFirstPTO*9/10
	endBy := "0.9 x first PTO"
	firstS2C := time.Duration(1 << 62)
	for _, r := range recs {
		if r.Dir != "s2c" || r.Forged || len(r.Dlv) == 0 {
			continue
		}
		if r.Dlv[0] < firstS2C {
			firstS2C = r.Dlv[0]
		}
		pk, _ := r.Pkts.([]*sim.Packet)
		for _, p := range pk {
			if p.Kind != "1rtt" {
				continue
			}
			for _, f := range p.Frames {
				if f.Name == refwire.NameAck && r.Dlv[0] < tEnd {
					tEnd, endBy = r.Dlv[0], "first application-data ACK delivered"
				}
			}
		}
	}
	cwnd0 := ewInitialWindowPackets * mds
	var cum, ihPackets, zeroRTTBytes, appPackets, undecryptable int
	var instT time.Duration = -1
	var instBytes, maxInst int
	for _, r := range recs {
		if r.Dir != "c2s" || r.Forged {
			continue
		}
		if r.T >= tEnd {
			break
		}
		pk, _ := r.Pkts.([]*sim.Packet)
		for _, p := range pk {
			kind, ae := p.Kind, p.AckEliciting
			if kind == "undecryptable" && strings.HasSuffix(p.Err, "0rtt packet") {
				// The TLS stack does not write CLIENT_EARLY_TRAFFIC_SECRET to the key log, so the observer cannot open
				// 0-RTT packets; the long header type is in the clear. A 0-RTT packet cannot carry ACK frames and the
				// packer only builds one when it has application frames for it: every 0-RTT packet is ack-eliciting
				// (a CONNECTION_CLOSE at this level only follows the harness closing the connection, after the window).
				kind, ae = "0rtt", true
			}
			switch kind {
			case "initial", "handshake":
				if p.AckEliciting {
					ihPackets++
				}
			case "undecryptable":
				undecryptable++
			case "0rtt", "1rtt":
				if !ae {
					continue
				}
				if kind == "0rtt" {
					zeroRTTBytes += p.Len
				}
				appPackets++
				cum += p.Len
				if r.T != instT {
					instT, instBytes = r.T, 0
				}
				instBytes += p.Len
				if instBytes > maxInst {
					maxInst = instBytes
				}
				// acknowledged Initial / Handshake packets leave the bytes in flight and open the window by one packet each
				// (slow start): none before anything from the server has arrived, afterwards at most all of them
				k := 0
				if firstS2C <= r.T {
					k = ihPackets
				}
				if limit := cwnd0 + (1+k)*mds; cum > limit {
					return &vf.Verdict{Sig: sigEarlyWindow, Detail: fmt.Sprintf("%s client, %s: %d bytes of ack-eliciting 0-RTT/1-RTT packets (%d packets, %d bytes of them 0-RTT) sent by %v after the first Initial, before any acknowledgement for application data was delivered (%s at %v) and before a probe timeout; the initial congestion window is %d x %d = %d bytes, %d Initial/Handshake packets may have been acknowledged: limit %d",
						c.Client, c.Mode, cum, appPackets, zeroRTTBytes, r.T-tFirst, endBy, tEnd-tFirst, ewInitialWindowPackets, mds, cwnd0, k, limit), Trace: w.Router.Trace(120)}
				}
				if limit := ewPacerBurst + mds; instBytes > limit {
					return &vf.Verdict{Sig: sigEarlyBurst, Detail: fmt.Sprintf("%s client, %s: %d bytes of ack-eliciting 0-RTT/1-RTT packets left in one instant (%v after the first Initial); the pacer's burst is %d bytes (+ one packet of %d)",
						c.Client, c.Mode, instBytes, r.T-tFirst, ewPacerBurst, mds), Trace: w.Router.Trace(120)}
				}
			}
		}
	}

	// ---- bookkeeping
	kind := "plain"
	if isSpec {
		kind = "spec"
	}
	u.Class("mode:" + c.Mode)
	u.Class("end:" + endBy)
	switch {
	case c.Mode == "0rtt" && used0RTT && zeroRTTBytes > 0:
		u.Class(kind + "-client-0rtt")
		if total > cwnd0+2*mds {
			u.Class("early-data-beyond-window")
		}
		if cum > cwnd0-3*mds {
			u.Class("window-filled-before-first-ack")
		}
	case c.Mode == "0rtt" && isSpec:
		u.Class("spec-client-resumed-no-0rtt")
	case c.Mode == "0rtt":
		u.Class("plain-client-0rtt-not-used")
	default:
		u.Class(kind + "-client-control")
		if cum > 0 {
			u.Class("control-data-before-first-ack")
		}
	}
	if earlyReturn {
		u.Class("dial-returned-before-handshake")
	}
	if len(w.Router.AppliedFaults()) > 0 {
		u.Class("server-flight-dropped")
	}
	if maxInst > ewPacerBurst-2*mds {
		u.Class("burst-filled")
	}
	if undecryptable > 0 {
		u.Class("undecryptable-c2s")
	}
	_ = dialReturned
	if cum > 0 {
		u.NonTrivial(c.Client, c.Mode, c.RTTms, mds, total, len(c.Chunks), fmt.Sprint(c.Drop))
		if u.WantSample() {
			u.Sample(c)
		}
	}
	return nil
}

func TestWireEarlyWindow(t *testing.T) {
	ewT = t
	vf.ReplayRepeat = 20
	vf.RunRapid(t, "wire-early-window", genEWCase, checkEW)
}

// TestWireEarlyWindowDbg runs one case given as JSON in C20_EW_CASE (development aid).
func TestWireEarlyWindowDbg(t *testing.T) {
	js := os.Getenv("C20_EW_CASE")
	if js == "" {
		t.Skip("no case")
	}
	ewT = t
	if os.Getenv("C20_EW_LOG") != "" {
		utils.DefaultLogger.SetLogLevel(utils.LogLevelDebug)
		utils.DefaultLogger.SetLogTimeFormat("05.000")
	}
	var c EWCase
	if err := json.Unmarshal([]byte(js), &c); err != nil {
		t.Fatal(err)
	}
	if v := checkEW(c, vf.Scratch()); v != nil {
		tr, _ := json.Marshal(v.Trace)
		t.Fatalf("%s: %s\n%s", v.Sig, v.Detail, tr)
	}
}
