// C20: congestion window and pacing stay within their bounds for every event history.
//
// Four engines (see NOTES.md):
//   - sender_test.go  model-based machine over congestion.NewCubicSender (Reno and Cubic), driven the way
//     ackhandler.sentPacketHandler drives it, with an own outstanding-packet ledger, a model clock and a
//     real utils.RTTStats; the same machine also checks the pacing of the sender (HasPacingBudget /
//     TimeUntilSend) against the interval bound;
//   - pacer_test.go   the token-bucket pacer alone through congestion.VerifNewPacer;
//   - sph_test.go     ackhandler.NewSentPacketHandler: SendMode == SendAny only below the window.
package c20

import (
	"testing"

	"github.com/refraction-networking/uquic/verif/vf"
)

func TestMain(m *testing.M) { vf.Main(m) }

// Signatures of this property (root causes, not inputs).
const (
	sigBelowMin        = "C20/cwnd/below-minimum"
	sigBelowMinMTU     = "C20/cwnd/below-minimum-after-mtu-increase"
	sigAboveMax        = "C20/cwnd/above-maximum"
	sigAckLowers       = "C20/cwnd/ack-lowers-window"
	sigAckLowersCub    = "C20/cwnd/ack-lowers-window-cubic-overflow"
	sigAckLowersMTU    = "C20/cwnd/ack-lowers-window-cubic-after-mtu-increase"
	sigAckLowersMinRTT = "C20/cwnd/ack-lowers-window-cubic-min-rtt-decrease"
	sigNonLossLowers   = "C20/cwnd/lowered-without-loss"
	sigLossGrows       = "C20/cwnd/loss-increases-window"
	sigTwice           = "C20/recovery/second-reduction-in-window"
	sigAppLimited      = "C20/cwnd/growth-while-not-window-limited"
	sigCanSend         = "C20/cansend/not-equivalent-to-below-window"
	sigMTUShrinks      = "C20/mtu/window-lowered"
	sigInterval        = "C20/pacing/interval-bound-exceeded"
	sigBudgetCap       = "C20/pacing/budget-above-burst-cap"
	sigBudgetNeg       = "C20/pacing/budget-negative-or-wrapped"
	sigBurstCap        = "C20/pacing/burst-cap-out-of-range"
	sigTUSBeforeSend   = "C20/pacing/time-until-send-before-last-send"
	sigTUSZero         = "C20/pacing/time-until-send-zero-without-budget"
	sigTUSNonZero      = "C20/pacing/time-until-send-set-although-budget-available"
	sigTUSEarly        = "C20/pacing/timer-expires-before-budget-available"
	sigTUSDivZero      = "C20/pacing/time-until-send-divides-by-zero-bandwidth"
	sigSendAny         = "C20/sendmode/send-any-at-or-above-window"
	sigSPHError        = "C20/sendmode/harness-precondition"
)
