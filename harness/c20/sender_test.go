package c20

import (
	"fmt"
	"os"
	"strconv"
	"testing"
	"time"

	"pgregory.net/rapid"

	"github.com/refraction-networking/uquic/internal/congestion"
	"github.com/refraction-networking/uquic/internal/monotime"
	"github.com/refraction-networking/uquic/internal/protocol"
	"github.com/refraction-networking/uquic/internal/utils"
	"github.com/refraction-networking/uquic/verif/vf"
)

// senderAPI is what the machine uses of *congestion.cubicSender.
type senderAPI interface {
	congestion.SendAlgorithmWithDebugInfos
	BandwidthEstimate() congestion.Bandwidth
}

// pacerInitialMDS is the datagram size the sender's pacer starts with (congestion.initialMaxDatagramSize =
// protocol.InitialPacketSize) independently of the size the sender itself was constructed with; the two are
// only brought in line by the first SetMaxDatagramSize call.
const pacerInitialMDS = int64(protocol.InitialPacketSize)

const maxClock = int64(1) << 62 // the model clock never goes beyond this (about 146 years in ns)

type SParams struct {
	Reno    bool  `json:"reno"`
	MDS     int64 `json:"mds"`      // initial max datagram size (Config.InitialPacketSize: 1200..1452)
	Start   int64 `json:"start"`    // initial clock, ns (>0)
	Profile int   `json:"profile"`  // 0: clock steps from 0/1ns to decades; 1: fine-grained clock (pacing binds)
	InitRTT int64 `json:"init_rtt"` // RTTStats.SetInitialRTT (token RTT), 0 = none
	Big     bool  `json:"big"`      // generator hint: long bursts, tries to reach the maximum window
	Huge    bool  `json:"huge"`     // generator hint: one clock step in twenty is between 24 s and 36 years
	// generator hints for histories that live next to the maximum window (see genNear); Apply does not read them
	Near      bool  `json:"near,omitempty"`        // loss-free slow start to NearK packets below the maximum, leave slow start there, stay
	NearK     int   `json:"near_k,omitempty"`      // distance of the slow-start exit from the maximum window, packets
	NearRTT   int64 `json:"near_rtt,omitempty"`    // round-trip time of the ramp, ns
	NearChunk int   `json:"near_chunk,omitempty"`  // packets per ACK frame during the ramp (0: a whole flight per frame)
	NearMTUAt int   `json:"near_mtu_at,omitempty"` // > 0: one SetMaxDatagramSize increase once the window passed this many packets
	NearWork  int   `json:"near_work,omitempty"`   // callback budget of the directed part of the history
}

type SOp struct {
	K  string `json:"k"`            // send | ack | lossto | rto | mtu | tick | flight
	Dt int64  `json:"dt,omitempty"` // clock advance before the op, ns
	// send
	N       int    `json:"n,omitempty"`       // number of packets
	Size    int64  `json:"sz,omitempty"`      // packet size; 0 = full datagram
	Mode    string `json:"m,omitempty"`       // any (new ack-eliciting data, gated) | probe (PTO probe, not gated) | ackonly
	Wait    bool   `json:"w,omitempty"`       // when pacing-limited wait until TimeUntilSend like the connection's timer
	Skip    int64  `json:"skip,omitempty"`    // packet numbers skipped before the first packet
	Requeue bool   `json:"requeue,omitempty"` // probe: QueueProbePacket first (oldest outstanding leaves bytes in flight silently)
	Until   int64  `json:"until,omitempty"`   // with w: do not wait for the pacer beyond this time (set by flight: the arrival of the next ACK frame)
	Spin    bool   `json:"spin,omitempty"`    // with w: keep waiting while the pacer (still working with 1280-byte datagrams) withholds the last bytes of a larger datagram
	// ack / lossto
	Acked    []int64 `json:"acked,omitempty"` // newly acknowledged packet numbers, ascending
	Lost     []int64 `json:"lost,omitempty"`  // packets declared lost by the loss detection run of this event
	AckDelay int64   `json:"ad,omitempty"`
	FreeRTT  int64   `json:"frtt,omitempty"` // if > 0 feed this RTT sample instead of now - sendTime(largest acked)
	CE       bool    `json:"ce,omitempty"`   // the ACK reports new ECN-CE marks
	// mtu
	MDS int64 `json:"mds,omitempty"`
	// rto
	Retrans bool `json:"rx,omitempty"`
	// flight (macro-op, expanded inside Apply into the ordinary per-packet calls): R round trips; in each the N
	// oldest outstanding packets (0 = everything outstanding at the start of the round trip) are acknowledged in
	// ACK frames of Chunk packets (0 = one frame); a frame arrives no earlier than RTT after its largest packet
	// left; FreeRTT / AckDelay as for ack. With Refill the window is refilled before the round trip and after
	// every frame exactly as send{any, wait} does (ACK clocking: the sender stays window-limited).
	R      int   `json:"r,omitempty"`
	Chunk  int   `json:"chunk,omitempty"`
	RTT    int64 `json:"rtt,omitempty"`
	Refill bool  `json:"refill,omitempty"`
}

type spkt struct {
	pn   int64
	size int64
	sent int64
	ae   bool // ack-eliciting => counted in bytes in flight, reported to the sender on ack/loss
}

type senderMachine struct {
	u    *vf.Unit
	p    SParams
	s    senderAPI
	rtt  *utils.RTTStats
	now  int64
	mds  int64
	pmds int64 // datagram size the sender's pacer works with (model knowledge, see pacerInitialMDS)

	out              []spkt // sent, not yet acked / lost, ascending pn
	inflight         int64
	nextPN           int64
	largestAcked     int64 // largest acknowledged packet number (-1)
	largestAckedSent int64 // send time of the packet that produced the last RTT sample
	largestSentAE    int64 // largest ack-eliciting packet number sent (model's own)
	marker           int64 // largestSentAE at the last observed reduction (-1: none / reset by RTO)
	lastSend         int64 // time of the last OnPacketSent (0: none)
	mtuSinceEpoch    bool  // SetMaxDatagramSize raised the window since the last loss/RTO (cubic attribution)
	belowMinKnown    bool  // window is currently below the floor as a consequence of an open known finding
	epochStart       int64 // cubic attribution: model time of the first congestion-avoidance ACK of the epoch (0: none)
	epochMinRTT      time.Duration

	iv       intervalChecker
	reported map[string]bool // known findings already counted for this history

	// bookkeeping
	ackSS, ackRec, ackCA      bool
	grewSS, grewCA            bool
	reductions, rtos, mtus    int
	hitMax, hitMin, pacedWait bool
	appLimitedAcks            int
	hugeDt, zeroDt            bool
	mismatchSpin              bool
	freeRTT, ce               bool
	sig                       []byte

	// neighbourhood of the maximum window (classes; the bounds oracle itself is in bounds())
	nearMax         bool // the window was within three packets below the maximum
	caAtMaxAcks     int  // window-limited ACKs processed in congestion avoidance with the window within three packets of the maximum (or above)
	ssAtMax         bool // a window-limited ACK was processed in slow start with the window at the maximum
	ssExit          bool // MaybeExitSlowStart ended slow start (no loss involved)
	ssExitNearMax   bool // ... with the window within 16 packets of the maximum
	reductionAtMax  bool // a congestion event lowered a window that was within three packets of the maximum
	mtuAtMax        bool // SetMaxDatagramSize grew the datagram size while the window was within three packets of the maximum
	appLimitedAtMax bool // an ACK arrived while the window was near the maximum and the sender was not window-limited
	fracAtMax       bool // the window was at or above the maximum and not a multiple of the datagram size
	work            int  // per-packet callbacks made so far (generator budget)
	flights         int  // flight ops applied

	// generator-only state (never read by Apply): mirror of the hybrid-slow-start round bookkeeping
	// (hybrid_slow_start.go: StartReceiveRound / IsEndOfRound / rttSampleCount) and a queue of planned ops
	hsStarted  bool
	hsEnd      int64
	hsCount    int
	plan       []SOp
	nearMTU    bool // the ramp's MTU increase has been issued
	nearFilled bool // the previous op was the generator's window fill
	nearLeft   bool // the directed part is over (reduction, budget used up)
	cheap      bool // remaining ops must be cheap (budget used up with thousands of packets outstanding)
}

func newSenderMachine(unit string) func(SParams) vf.Machine[SOp] {
	return func(p SParams) vf.Machine[SOp] {
		m := &senderMachine{u: vf.U(unit), p: p, now: p.Start, mds: p.MDS, pmds: pacerInitialMDS,
			largestAcked: -1, largestSentAE: -1, marker: -1, reported: map[string]bool{}}
		m.rtt = utils.NewRTTStats()
		m.rtt.SetMaxAckDelay(25 * time.Millisecond)
		if p.InitRTT > 0 {
			m.rtt.SetInitialRTT(time.Duration(p.InitRTT))
		}
		m.s = congestion.NewCubicSender(congestion.DefaultClock{}, m.rtt, &utils.ConnectionStats{}, protocol.ByteCount(p.MDS), p.Reno, nil)
		m.iv.lookback = 256
		if p.Big || p.Near {
			m.iv.lookback = 48
		}
		return m
	}
}

func (m *senderMachine) t() monotime.Time      { return monotime.Time(m.now) }
func (m *senderMachine) cwnd() int64           { return int64(m.s.GetCongestionWindow()) }
func (m *senderMachine) bwBytes() float64      { return float64(uint64(m.s.BandwidthEstimate())) / 8 }
func (m *senderMachine) maxMDS() int64         { return max(m.mds, m.pmds) }
func (m *senderMachine) note(b ...byte)        { m.sig = append(m.sig, b...) }
func (m *senderMachine) known(sig string) bool { return vf.IsKnown(sig) }
func (m *senderMachine) floor() int64          { return 2 * m.mds }
func (m *senderMachine) ceiling() int64        { return (protocol.MaxCongestionWindowPackets + 1) * m.mds }
func (m *senderMachine) maxWindow() int64      { return protocol.MaxCongestionWindowPackets * m.mds }
func (m *senderMachine) atMax(w int64) bool    { return w >= m.maxWindow()-3*m.mds } // within three packets of the maximum, or above
func (m *senderMachine) limited(prior, w int64) bool {
	return prior >= w || w-prior <= 3*m.mds // the window-limited test that does not depend on slow start
}
func (m *senderMachine) hasBudget() bool { return m.s.HasPacingBudget(m.t()) }
func (m *senderMachine) canSend() bool   { return m.s.CanSend(protocol.ByteCount(m.inflight)) }
func (m *senderMachine) tus() int64      { return int64(m.s.TimeUntilSend(protocol.ByteCount(m.inflight))) }
func (m *senderMachine) describe() string {
	return fmt.Sprintf("[reno=%v mds=%d cwnd=%d inflight=%d now=%d ss=%v rec=%v]", m.p.Reno, m.mds, m.cwnd(), m.inflight, m.now, m.s.InSlowStart(), m.s.InRecovery())
}

// tolerated reports whether v is an open known finding; it is then counted and the history continues (every
// call site leaves the model consistent in that case), so that the search goes on past shallow known defects.
func (m *senderMachine) tolerated(v *vf.Verdict) bool {
	if v != nil && m.known(v.Sig) {
		if !m.reported[v.Sig] { // count histories, not calls
			m.reported[v.Sig] = true
			m.u.Report(v, nil)
			m.u.Class("known:" + v.Sig)
		}
		return true
	}
	return false
}

// bounds checks the window bounds and the CanSend equivalence; called after every step.
func (m *senderMachine) bounds(where string) *vf.Verdict {
	w := m.cwnd()
	if w < m.floor() {
		if m.belowMinKnown {
			// already reported for this history (known finding); the window stays small until it grows again
		} else {
			return vf.Bad(sigBelowMin, "%s: cwnd %d < 2*%d %s", where, w, m.mds, m.describe())
		}
	} else {
		m.belowMinKnown = false
	}
	if w > m.ceiling() {
		return vf.Bad(sigAboveMax, "%s: cwnd %d > (%d+1)*%d %s", where, w, protocol.MaxCongestionWindowPackets, m.mds, m.describe())
	}
	if w >= protocol.MaxCongestionWindowPackets*m.mds {
		m.hitMax = true
		if w%m.mds != 0 {
			m.fracAtMax = true
		}
	} else if m.atMax(w) {
		m.nearMax = true
	}
	if w == m.floor() {
		m.hitMin = true
	}
	for _, b := range []int64{0, m.inflight, w - 1, w, w + 1, int64(protocol.MaxByteCount)} {
		if b < 0 {
			continue
		}
		if got := m.s.CanSend(protocol.ByteCount(b)); got != (b < w) {
			return vf.Bad(sigCanSend, "%s: CanSend(%d)=%v with cwnd %d", where, b, got, w)
		}
	}
	return nil
}

// congestionEvent wraps OnCongestionEvent with the once-per-window oracle.
func (m *senderMachine) congestionEvent(pn, lostBytes, prior int64) *vf.Verdict {
	before := m.cwnd()
	m.s.OnCongestionEvent(protocol.PacketNumber(pn), protocol.ByteCount(lostBytes), protocol.ByteCount(prior))
	after := m.cwnd()
	if after > before && !(m.belowMinKnown && after <= m.floor()) { // (a window left below the floor by the known MTU finding is lifted to it)
		return vf.Bad(sigLossGrows, "congestion event for pn %d raised cwnd %d -> %d %s", pn, before, after, m.describe())
	}
	if after < before {
		if pn <= m.marker {
			return vf.Bad(sigTwice, "cwnd reduced %d -> %d by the loss of pn %d, but the previous reduction happened when pn %d was the largest packet sent: no packet sent after the previous reduction was lost %s",
				before, after, pn, m.marker, m.describe())
		}
		m.marker = m.largestSentAE
		m.reductions++
		if m.atMax(before) {
			m.reductionAtMax = true
		}
		m.mtuSinceEpoch = false
		m.epochStart = 0
	}
	return m.bounds("after congestion event")
}

// packetAcked wraps OnPacketAcked with the ack oracles.
func (m *senderMachine) packetAcked(pn, size, prior int64) *vf.Verdict {
	before := m.cwnd()
	ss := m.s.InSlowStart() // as seen while the ACK is processed
	m.s.OnPacketAcked(protocol.PacketNumber(pn), protocol.ByteCount(size), protocol.ByteCount(prior), m.t())
	m.work++
	after := m.cwnd()
	rec := m.s.InRecovery()
	if !rec && m.s.InSlowStart() && pn > m.hsEnd {
		m.hsStarted = false // generator mirror: hybridSlowStart.OnPacketAcked / IsEndOfRound
	}
	if m.atMax(before) && !rec {
		switch lim := m.limited(prior, before); {
		case !lim:
			m.appLimitedAtMax = true
		case ss && before >= m.maxWindow():
			m.ssAtMax = true
		case !ss:
			m.caAtMaxAcks++
		}
	}
	switch {
	case rec:
		m.ackRec = true
	case ss:
		m.ackSS = true
	default:
		m.ackCA = true
	}
	if after < before {
		v := vf.Bad(m.attributeAckLowers(), "ack of pn %d (size %d, prior in flight %d) lowered cwnd %d -> %d (epoch age %v, minRTT %v -> %v) %s",
			pn, size, prior, before, after, time.Duration(m.now-m.epochStart), m.epochMinRTT, m.rtt.MinRTT(), m.describe())
		if !m.tolerated(v) {
			return v
		}
		if after < m.floor() {
			m.belowMinKnown = true // consequence of the same known finding
		}
	}
	m.trackEpoch(prior, before, ss, rec)
	// Window-limited criterion (conservative): the sender is certainly NOT window-limited when, at the time the
	// ACK arrived, strictly less than half of the window was in flight AND more than maxBurstPackets (3) full
	// datagrams of window were unused (RFC 9002 7.8: an under-utilised window must not grow; cubic_sender.go
	// isCwndLimited: "Do not increase the congestion window unless the sender is close to using the current window").
	if 2*prior < before && before-prior > 3*m.mds {
		m.appLimitedAcks++
		if after > before {
			return vf.Bad(sigAppLimited, "ack of pn %d grew cwnd %d -> %d although only %d bytes were in flight (less than half, %d unused > 3*%d) %s",
				pn, before, after, prior, before-prior, m.mds, m.describe())
		}
	}
	if after > before {
		if ss && !rec {
			m.grewSS = true
		}
		if !ss && !rec {
			m.grewCA = true
		}
	}
	return m.bounds("after ack")
}

// attributeAckLowers names the root cause of a window that shrank on an ACK. Reno has no such path. In cubic mode
// three causes are known; the model keeps just enough state to tell them apart (this classifies a violation, it
// does not decide one).
func (m *senderMachine) attributeAckLowers() string {
	if m.p.Reno {
		return sigAckLowers
	}
	switch {
	case m.epochStart != 0 && m.now-m.epochStart+int64(m.rtt.MinRTT()) > int64(24*time.Second):
		// 410*offset^3*1280 exceeds 2^63 once |elapsed-K| > ~25.3 s (offset in 1/1024 s)
		return sigAckLowersCub
	case m.epochStart != 0 && m.rtt.MinRTT() < m.epochMinRTT:
		return sigAckLowersMinRTT
	case m.mtuSinceEpoch:
		return sigAckLowersMTU
	}
	return sigAckLowers
}

// trackEpoch mirrors when cubic (re)starts its epoch: reset by a reduction, an RTO and an application-limited
// ACK, started by the first window-limited ACK in congestion avoidance.
func (m *senderMachine) trackEpoch(prior, cwndBefore int64, ss, rec bool) {
	if m.p.Reno || rec {
		return
	}
	limited := prior >= cwndBefore || cwndBefore-prior <= 3*m.mds || (ss && prior > cwndBefore/2)
	if !limited {
		m.epochStart = 0
		return
	}
	if ss || cwndBefore >= m.maxWindow() {
		// at the maximum the sender returns before consulting cubic (maybeIncreaseCwnd): no epoch starts, and the
		// minimum RTT cubic last saw stays what it was
		return
	}
	if m.epochStart == 0 {
		m.epochStart = m.now
	}
	m.epochMinRTT = m.rtt.MinRTT()
}

// take removes the listed packet numbers from the ledger (one merge pass; entries that are not ascending or
// not outstanding are ignored, ok filters candidates) and returns the removed packets in ascending order.
func (m *senderMachine) take(pns []int64, ok func(pn int64) bool) []spkt {
	var taken []spkt
	keep := m.out[:0]
	j := 0
	for _, p := range m.out {
		for j < len(pns) && pns[j] < p.pn {
			j++
		}
		if j < len(pns) && pns[j] == p.pn && (ok == nil || ok(p.pn)) {
			taken = append(taken, p)
			j++
			continue
		}
		keep = append(keep, p)
	}
	m.out = keep
	return taken
}

func (m *senderMachine) sendOne(size int64, ae, auth bool) *vf.Verdict {
	pn := m.nextPN
	m.nextPN++
	bw := m.bwBytes() // the estimate the pacer uses inside OnPacketSent
	if ae {
		m.inflight += size
		m.largestSentAE = pn
	}
	before := m.cwnd()
	m.s.OnPacketSent(m.t(), protocol.ByteCount(m.inflight), protocol.PacketNumber(pn), protocol.ByteCount(size), ae)
	m.work++
	m.out = append(m.out, spkt{pn: pn, size: size, sent: m.now, ae: ae})
	m.lastSend = m.now
	if m.cwnd() != before {
		return vf.Bad(sigNonLossLowers, "OnPacketSent changed cwnd %d -> %d", before, m.cwnd())
	}
	return m.iv.add(sendRec{t: m.now, size: size, bw: bw, mds: m.maxMDS(), auth: auth})
}

func (m *senderMachine) applySend(op SOp) *vf.Verdict {
	size := op.Size
	if size <= 0 || size > m.mds {
		size = m.mds
	}
	m.nextPN += max(0, min(op.Skip, 2))
	switch op.Mode {
	case "probe":
		// PTO: up to two probe packets regardless of window and pacer (sentPacketHandler.SendMode returns
		// ptoMode while numProbesToSend > 0). QueueProbePacket takes the oldest outstanding packet out of
		// bytes in flight without telling the congestion controller.
		if op.Requeue {
			for i := range m.out {
				if m.out[i].ae {
					m.inflight -= m.out[i].size
					m.out = append(m.out[:i], m.out[i+1:]...)
					break
				}
			}
		}
		for i := 0; i < min(max(op.N, 1), 2); i++ {
			if v := m.sendOne(size, true, false); v != nil {
				return v
			}
		}
		return nil
	case "ackonly":
		// a pure ACK is sent in SendAck / SendPacingLimited mode as well; it is not ack-eliciting
		return m.sendOne(min(size, 60), false, false)
	}
	for i := 0; i < max(op.N, 1); i++ {
		// gate exactly as sentPacketHandler.SendMode: CanSend(bytesInFlight) then HasPacingBudget(now)
		if !m.canSend() {
			break
		}
		if !m.hasBudget() {
			if !op.Wait {
				break
			}
			// connection.go: pacingDeadline = TimeUntilSend(); the timer fires at (or after) the deadline and
			// triggerSending evaluates SendMode again
			var t int64
			if v := m.callTUS(&t); v != nil {
				return v
			}
			if t < 0 {
				break // known finding: the call panicked, the connection would have died here
			}
			if uint64(m.s.BandwidthEstimate())/8*5/4 == 0 {
				break // zero bandwidth: the bucket never refills, no deadline is "right" (the call must not panic)
			}
			if t != 0 && t < m.lastSend {
				return vf.Bad(sigTUSBeforeSend, "TimeUntilSend %d lies before the last send at %d", t, m.lastSend)
			}
			if m.mds <= m.pmds {
				// the pacer's notion of "one datagram" covers the sender's: zero means budget is available
				if t == 0 {
					return vf.Bad(sigTUSZero, "HasPacingBudget(now)=false but TimeUntilSend()=0 %s", m.describe())
				}
			} else if t == 0 || t <= m.now {
				// observation, not decided here: the sender was built with a datagram size above the pacer's fixed
				// initial 1280 and SetMaxDatagramSize has not been called yet; HasPacingBudget wants one sender-size
				// datagram, TimeUntilSend answers for a 1280-byte one (zero or a deadline that has already passed),
				// so the connection's pacing timer would fire immediately and spin until the difference is refilled
				m.mismatchSpin = true
			}
			if t > maxClock {
				break
			}
			if op.Until > 0 && t > op.Until {
				break // an ACK arrives before the pacing timer fires: the connection processes it first
			}
			if t > m.now {
				m.now = t
				m.pacedWait = true
			}
			if !m.hasBudget() {
				if m.mds <= m.pmds && t != 0 {
					return vf.Bad(sigTUSEarly, "still no pacing budget at the deadline TimeUntilSend()=%d (bandwidth unchanged) %s", t, m.describe())
				}
				if !op.Spin || m.mds <= m.pmds {
					break
				}
				// sender size above the pacer's (see the observation above): the connection's pacing timer fires at once,
				// again and again, until the last few bytes are refilled; time passes meanwhile
				for step := int64(1000); step <= 1_000_000_000 && m.now+step < maxClock && !m.hasBudget(); step *= 2 {
					m.now += step
				}
				if !m.hasBudget() {
					break
				}
			}
		}
		if v := m.sendOne(size, true, true); v != nil {
			return v
		}
	}
	return nil
}

// callTUS calls TimeUntilSend; a zero bandwidth estimate (smoothed RTT larger than cwnd seconds) makes the pacer
// divide by zero there.
func (m *senderMachine) callTUS(out *int64) (v *vf.Verdict) {
	zeroBW := uint64(m.s.BandwidthEstimate())/8*5/4 == 0
	defer func() {
		if r := recover(); r != nil {
			if !zeroBW {
				panic(r)
			}
			v = vf.Bad(sigTUSDivZero, "TimeUntilSend panicked (%v): bandwidth estimate %d bit/s gives an adjusted bandwidth of 0 bytes/s; smoothed RTT %v, cwnd %d",
				r, uint64(m.s.BandwidthEstimate()), m.rtt.SmoothedRTT(), m.cwnd())
			if m.tolerated(v) {
				v = nil
				*out = -1
			}
		}
	}()
	*out = m.tus()
	return nil
}

func (m *senderMachine) applyAck(op SOp) *vf.Verdict {
	// newly acknowledged packets, ascending, all from the ledger
	return m.ackPkts(m.take(op.Acked, nil), op)
}

// ackPkts is sentPacketHandler.ReceivedAck for the newly acknowledged packets acked (already taken from the ledger).
func (m *senderMachine) ackPkts(acked []spkt, op SOp) *vf.Verdict {
	if len(acked) == 0 {
		return nil // ReceivedAck returns early: nothing newly acknowledged
	}
	prior := m.inflight
	hasAE := false
	for _, p := range acked {
		hasAE = hasAE || p.ae
	}
	largest := acked[len(acked)-1]
	if hasAE {
		if m.largestAckedSent == 0 || largest.sent >= m.largestAckedSent {
			sample := m.now - largest.sent
			if op.FreeRTT > 0 {
				sample = op.FreeRTT
				m.freeRTT = true
			}
			m.rtt.UpdateRTT(time.Duration(sample), min(time.Duration(op.AckDelay), m.rtt.MaxAckDelay()))
			m.largestAckedSent = largest.sent
		}
		before := m.cwnd()
		ss := m.s.InSlowStart()
		if ss { // generator mirror: hybridSlowStart.ShouldExitSlowStart is consulted, a round starts if none is running
			if !m.hsStarted {
				m.hsStarted, m.hsEnd, m.hsCount = true, m.largestSentAE, 0
			}
			m.hsCount++
		}
		m.s.MaybeExitSlowStart()
		if m.cwnd() != before {
			return vf.Bad(sigNonLossLowers, "MaybeExitSlowStart changed cwnd %d -> %d", before, m.cwnd())
		}
		if ss && !m.s.InSlowStart() {
			m.ssExit = true
			if before >= m.maxWindow()-16*m.mds {
				m.ssExitNearMax = true
			}
		}
	}
	if op.CE && largest.pn > m.largestAcked {
		m.ce = true
		if v := m.congestionEvent(largest.pn, 0, prior); v != nil {
			return v
		}
	}
	m.largestAcked = max(m.largestAcked, largest.pn)
	if v := m.applyLosses(op.Lost); v != nil {
		return v
	}
	for _, p := range acked {
		if !p.ae {
			continue
		}
		if v := m.packetAcked(p.pn, p.size, prior); v != nil {
			return v
		}
		m.inflight -= p.size
	}
	return nil
}

// applyLosses is detectLostPackets: every lost packet is below the largest acknowledged one, ack-eliciting packets
// leave bytes in flight and are reported with the in-flight value from before the detection run.
func (m *senderMachine) applyLosses(lost []int64) *vf.Verdict {
	if len(lost) == 0 {
		return nil
	}
	prior := m.inflight
	for _, p := range m.take(lost, func(pn int64) bool { return pn < m.largestAcked }) {
		if !p.ae {
			continue
		}
		m.inflight -= p.size
		if v := m.congestionEvent(p.pn, p.size, prior); v != nil {
			return v
		}
	}
	return nil
}

// applyFlight expands the macro-op "flight" into the ordinary calls: refill (send{any, wait}), then ACK frames over
// the oldest outstanding packets, each followed by a refill. Every per-packet oracle runs as for single ops
// (sendOne, ackPkts -> packetAcked -> bounds).
func (m *senderMachine) applyFlight(op SOp) *vf.Verdict {
	m.flights++
	// arrival time of the next ACK frame of this flight (0: unknown / not timed)
	next := func(n int) int64 {
		if op.RTT <= 0 || len(m.out) == 0 {
			return 0
		}
		c := len(m.out)
		if n > 0 {
			c = min(c, n)
		}
		if op.Chunk > 0 {
			c = min(c, op.Chunk)
		}
		return min(m.out[c-1].sent+op.RTT, maxClock)
	}
	// refill as send{any, wait} does, but an ACK frame that arrives before the pacer's deadline is processed first
	// (the run loop handles received packets while it waits for the pacing timer)
	fill := func(n int) *vf.Verdict {
		if !op.Refill {
			return nil
		}
		return m.applySend(SOp{K: "send", Mode: "any", N: 30000, Wait: true, Spin: true, Until: next(n)})
	}
	for r := 0; r < max(op.R, 1); r++ {
		if v := fill(op.N); v != nil {
			return v
		}
		n := op.N
		if n <= 0 || n > len(m.out) {
			n = len(m.out) // the flight outstanding at the start of the round trip
		}
		for n > 0 && len(m.out) > 0 {
			c := min(n, len(m.out))
			if op.Chunk > 0 {
				c = min(c, op.Chunk)
			}
			acked := m.out[:c:c]
			m.out = m.out[c:]
			n -= c
			if op.RTT > 0 { // the frame arrives one round-trip time after its largest packet left (or now, if that is later)
				m.now = min(max(m.now, acked[c-1].sent+op.RTT), maxClock)
			}
			if v := m.ackPkts(acked, SOp{K: "ack", FreeRTT: op.FreeRTT, AckDelay: op.AckDelay}); v != nil {
				return v
			}
			nn := n
			if nn == 0 && r+1 < max(op.R, 1) {
				nn = op.N // the next round trip begins
			}
			if v := fill(nn); v != nil {
				return v
			}
		}
	}
	return nil
}

func (m *senderMachine) Apply(op SOp) *vf.Verdict {
	return m.apply(op)
}

func (m *senderMachine) apply(op SOp) *vf.Verdict {
	if op.Dt > 0 {
		m.now = min(m.now+op.Dt, maxClock)
		if op.Dt >= int64(30*time.Second) {
			m.hugeDt = true
		}
	} else {
		m.zeroDt = true
	}
	before := m.cwnd()
	switch op.K {
	case "send":
		m.note('s', byte(op.N), op.Mode[0])
		if v := m.applySend(op); v != nil {
			return v
		}
	case "ack":
		m.note('a', byte(len(op.Acked)), byte(len(op.Lost)))
		if v := m.applyAck(op); v != nil {
			return v
		}
	case "lossto":
		m.note('l', byte(len(op.Lost)))
		if v := m.applyLosses(op.Lost); v != nil {
			return v
		}
	case "rto":
		m.note('r')
		// not called by sentPacketHandler today, but part of the SendAlgorithm interface: a timeout collapses the
		// window to the minimum (a permitted reduction) and starts a new loss epoch.
		m.s.OnRetransmissionTimeout(op.Retrans)
		if m.cwnd() > before && !(m.belowMinKnown && m.cwnd() <= m.floor()) {
			return vf.Bad(sigLossGrows, "OnRetransmissionTimeout raised cwnd %d -> %d", before, m.cwnd())
		}
		m.marker = -1
		m.rtos++
		if op.Retrans { // only then is the cubic state reset
			m.mtuSinceEpoch = false
			m.epochStart = 0
			m.hsStarted = false
		}
		before = m.cwnd()
	case "mtu":
		m.note('m')
		s := max(op.MDS, m.mds) // never decreases (cubicSender panics by design otherwise)
		s = min(s, protocol.MaxPacketBufferSize)
		wasMin := before == m.floor()
		m.s.SetMaxDatagramSize(protocol.ByteCount(s))
		grew := s > m.mds
		if grew && m.atMax(before) {
			m.mtuAtMax = true
		}
		m.mds, m.pmds = s, s
		m.mtus++
		if m.cwnd() < before {
			return vf.Bad(sigMTUShrinks, "SetMaxDatagramSize(%d) lowered cwnd %d -> %d", s, before, m.cwnd())
		}
		if m.cwnd() > before {
			m.mtuSinceEpoch = true
		}
		if grew && !wasMin && m.cwnd() < m.floor() {
			v := vf.Bad(sigBelowMinMTU, "SetMaxDatagramSize(%d): cwnd stays %d < 2*%d (it was above the old minimum, so it is not lifted to the new one) %s", s, m.cwnd(), s, m.describe())
			if !m.tolerated(v) {
				return v
			}
			m.belowMinKnown = true
		}
		before = m.cwnd()
	case "tick":
		m.note('t')
		// queries only
		m.hasBudget()
	case "flight":
		m.note('f', byte(op.R), byte(min(op.Chunk, 255)))
		if v := m.applyFlight(op); v != nil {
			return v
		}
	}
	if op.K != "ack" && op.K != "lossto" && op.K != "flight" && m.cwnd() < before {
		return vf.Bad(sigNonLossLowers, "%s lowered cwnd %d -> %d", op.K, before, m.cwnd())
	}
	return m.bounds("after " + op.K)
}

func (m *senderMachine) Finish(u *vf.Unit) *vf.Verdict {
	u.Class(map[bool]string{true: "reno", false: "cubic"}[m.p.Reno])
	for _, c := range []struct {
		n string
		b bool
	}{{"ack-in-slow-start", m.ackSS}, {"ack-in-recovery", m.ackRec}, {"ack-in-cong-avoid", m.ackCA}, {"grew-slow-start", m.grewSS},
		{"grew-cong-avoid", m.grewCA}, {"reduction", m.reductions > 0}, {"reductions>=2", m.reductions >= 2}, {"rto", m.rtos > 0},
		{"mtu-increase", m.mtus > 0}, {"hit-max-window", m.hitMax}, {"hit-min-window", m.hitMin}, {"paced-wait", m.pacedWait},
		{"app-limited-ack", m.appLimitedAcks > 0}, {"clock-step>=30s", m.hugeDt}, {"clock-step-0", m.zeroDt}, {"free-rtt-sample", m.freeRTT},
		{"ecn-ce", m.ce}, {"sends>=100", len(m.iv.recs) >= 100},
		{"obs:pacing-deadline-not-in-future-while-no-budget(sender-mds>pacer-mds)", m.mismatchSpin}} {
		if c.b {
			u.Class(c.n)
		}
	}
	// the neighbourhood of the maximum window, per mode
	mode := map[bool]string{true: "/reno", false: "/cubic"}[m.p.Reno]
	for _, c := range []struct {
		n string
		b bool
	}{{"at-maximum", m.hitMax}, {"within-3-packets-of-maximum", m.nearMax}, {"congestion-avoidance-at-maximum", m.caAtMaxAcks > 0},
		{"congestion-avoidance-at-maximum>=2-windows-of-acks", m.caAtMaxAcks >= 2*protocol.MaxCongestionWindowPackets},
		{"slow-start-at-maximum", m.ssAtMax}, {"slow-start-exit-without-loss", m.ssExit},
		{"slow-start-exit-without-loss-near-maximum", m.ssExitNearMax}, {"reduction-at-maximum", m.reductionAtMax},
		{"mtu-increase-at-maximum", m.mtuAtMax}, {"app-limited-ack-at-maximum", m.appLimitedAtMax},
		{"at-maximum-not-a-multiple-of-the-datagram-size", m.fracAtMax}} {
		if c.b {
			u.Class(c.n)
			u.Class(c.n + mode)
		}
	}
	if m.p.Near {
		u.Class("near-history")
	}
	if m.flights > 0 {
		u.Class("flight-op")
	}
	if m.ackSS && m.ackRec && m.ackCA {
		u.NonTrivial(m.p.Reno, m.p.MDS, m.sig)
	}
	return nil
}

// ---------------------------------------------------------------------------------------------------------------
// generator

var dtWide = []int64{0, 0, 1, 1, 999, 1000, 50_000, 1_000_000, 1_000_001, 5_000_000, 20_000_000, 100_000_000, 1_000_000_000, 5_000_000_000}
var dtHuge = []int64{24_000_000_000, 27_000_000_000, 60_000_000_000, 1_800_000_000_000, 3_600_000_000_000, 86_400_000_000_000,
	31_536_000_000_000_000, 1 << 60}
var dtFine = []int64{0, 0, 0, 1, 100, 1000, 10_000, 100_000, 500_000, 1_000_000, 2_000_000, 5_000_000, 20_000_000, 100_000_000}

func (m *senderMachine) genDt(t *rapid.T) int64 {
	tab := dtWide
	if m.p.Profile == 1 && rapid.IntRange(0, 19).Draw(t, "dtprof") != 0 {
		tab = dtFine
	}
	if m.p.Profile == 0 {
		switch x := rapid.IntRange(0, 19).Draw(t, "dtprof"); {
		case x < 6:
			tab = dtFine
		case x == 19 && m.p.Huge:
			tab = dtHuge // 24 s .. 36 years
		}
	}
	d := rapid.SampledFrom(tab).Draw(t, "dt")
	if d > 1000 && rapid.Bool().Draw(t, "dtjit") {
		d = rapid.Int64Range(d/2, d).Draw(t, "dtv")
	}
	return d
}

func (m *senderMachine) outstandingAE() []spkt {
	var r []spkt
	for _, p := range m.out {
		if p.ae {
			r = append(r, p)
		}
	}
	return r
}

func (m *senderMachine) Gen(t *rapid.T) SOp {
	if m.p.Near {
		if op, ok := m.genNear(t); ok {
			return op
		}
	}
	return m.genPlain(t)
}

// genNear directs a history into the neighbourhood of the maximum window (10000 datagrams), where no undirected
// history ever gets: loss-free, window-limited slow start (flights) up to NearK packets below the maximum; there the
// round-trip time rises so that hybrid slow start sees 8 increased samples at the start of a round and
// MaybeExitSlowStart ends slow start without a loss; then window-limited round trips in congestion avoidance, mixed
// with MTU increases, application-limited flights and the ordinary ops (losses, ECN, probes, timeouts). All choices
// are made from the machine state, so interleaved ordinary ops do not derail it. ok=false: use the plain generator.
func (m *senderMachine) genNear(t *rapid.T) (SOp, bool) {
	if len(m.plan) > 0 {
		op := m.plan[0]
		m.plan = m.plan[1:]
		return op, true
	}
	if m.nearLeft {
		return SOp{}, false
	}
	leave := func() (SOp, bool) {
		m.nearLeft = true
		m.cheap = len(m.out) > 256
		return SOp{}, false
	}
	if m.work > m.p.NearWork {
		return leave()
	}
	w, mds, maxW := m.cwnd(), m.mds, m.maxWindow()
	rtt := m.p.NearRTT
	high := rtt + rtt/4 + 20_000_000 // above minRTT + clamp(minRTT/8, 4 ms, 16 ms)
	ss, rec := m.s.InSlowStart(), m.s.InRecovery()
	filled := m.nearFilled
	m.nearFilled = false
	switch {
	case rec || (!ss && m.p.Reno && w < maxW-64*mds):
		// a reduction (or an early end of slow start) took the window away from the maximum; Reno needs thousands of
		// round trips to come back
		return leave()
	case ss:
		if m.p.NearMTUAt > 0 && !m.nearMTU && w >= int64(m.p.NearMTUAt)*mds {
			m.nearMTU = true
			return SOp{K: "mtu", MDS: min(mds+rapid.SampledFrom([]int64{1, 1, 7, 100, 172, 252}).Draw(t, "near-mtu"), 1452)}, true
		}
		if m.canSend() && !filled {
			m.nearFilled = true
			return SOp{K: "send", Mode: "any", N: 30000, Wait: true, Spin: true, Dt: 1000}, true
		}
		target := maxW - int64(m.p.NearK)*mds
		g := (target - w + mds - 1) / mds // packets of growth still wanted
		ww := int64(len(m.out))           // a full window is outstanding
		free := int64(0)
		if rapid.IntRange(0, 3).Draw(t, "near-free") != 0 {
			free = rtt
		}
		if g-7 > ww && ww > 0 {
			// whole round trips of slow start: every acknowledged packet adds one datagram, the window doubles
			r := 0
			for g-7 > ww && (m.p.NearMTUAt == 0 || m.nearMTU || ww < int64(m.p.NearMTUAt)) {
				g -= ww
				ww *= 2
				r++
			}
			return SOp{K: "flight", R: max(r, 1), Chunk: m.p.NearChunk, RTT: rtt, FreeRTT: free, Refill: true}, true
		}
		// the last round trip of slow start: grow by exactly g packets, then 8 samples of a fresh hybrid-slow-start
		// round must show the increased delay; the 8th ends slow start before its packets are processed
		if m.hsStarted {
			idx := int64(len(m.out))
			for i, p := range m.out {
				if p.ae && p.pn > m.hsEnd {
					idx = int64(i)
					break
				}
			}
			n1 := int(max(g-7, idx+1, 1)) // this frame ends the running round (it acknowledges a packet sent after the round began)
			m.plan = []SOp{{K: "flight", N: 8, Chunk: 1, RTT: high, FreeRTT: high, Refill: true}}
			return SOp{K: "flight", N: n1, Chunk: n1, RTT: rtt, FreeRTT: free, Refill: true}, true
		}
		n1 := int(max(g-6, 1)) // no round is running: this frame is the first sample of the new one
		m.plan = []SOp{{K: "flight", N: 7, Chunk: 1, RTT: high, FreeRTT: high, Refill: true}}
		return SOp{K: "flight", N: n1, Chunk: n1, RTT: high, FreeRTT: high, Refill: true}, true
	}
	// congestion avoidance next to the maximum (Cubic: anywhere, its window returns within seconds of model time)
	rtts := []int64{rtt, rtt, high, high}
	if !m.p.Reno {
		rtts = append(rtts, 300_000_000, 1_000_000_000, 3_000_000_000)
	}
	r2 := rapid.SampledFrom(rtts).Draw(t, "near-rtt")
	free := int64(0)
	if rapid.Bool().Draw(t, "near-free2") {
		free = r2
	}
	switch x := rapid.IntRange(0, 19).Draw(t, "near-op"); {
	case x < 12: // window-limited round trips
		return SOp{K: "flight", R: rapid.IntRange(1, 3).Draw(t, "r"), Chunk: rapid.SampledFrom([]int{0, 0, 0, 2, 10, 64, 1000}).Draw(t, "chunk"),
			RTT: r2, FreeRTT: free, Refill: true}, true
	case x < 14: // the maximum moves (in bytes)
		return SOp{K: "mtu", MDS: min(mds+rapid.SampledFrom([]int64{1, 1, 2, 7, 100, 252}).Draw(t, "near-mtu"), 1452)}, true
	case x == 14: // application-limited: the flight drains without being refilled
		return SOp{K: "flight", R: 1, Chunk: rapid.SampledFrom([]int{2, 64, 1000}).Draw(t, "chunk"), RTT: r2, FreeRTT: free}, true
	case x == 15:
		return SOp{K: "tick", Dt: m.genDt(t)}, true
	}
	return SOp{}, false // an ordinary op: loss, ECN-CE, probe, timeout, partial ACK, ...
}

func (m *senderMachine) genPlain(t *rapid.T) SOp {
	view := m.out // packets the ack generator chooses from
	if m.cheap && len(view) > 64 {
		view = view[:64]
	}
	nOut := len(view)
	if m.p.Big && rapid.IntRange(0, 9).Draw(t, "pump") < 8 {
		// goal-directed: fill the window, acknowledge everything, repeat - doubles the window up to the maximum
		if m.canSend() || nOut == 0 {
			return SOp{K: "send", Mode: "any", N: 25000, Wait: true, Dt: 1000}
		}
		op := SOp{K: "ack", Dt: 20_000_000}
		for _, p := range m.out {
			op.Acked = append(op.Acked, p.pn)
		}
		return op
	}
	op := SOp{Dt: m.genDt(t)}
	kinds := []string{"send", "send", "send", "ack", "ack", "ack", "ack", "lossto", "mtu", "tick", "rto", "probe", "ackonly"}
	if nOut == 0 {
		kinds = []string{"send", "send", "send", "send", "mtu", "tick", "rto"}
	} else if !m.canSend() {
		kinds = []string{"ack", "ack", "ack", "ack", "ack", "ack", "lossto", "mtu", "tick", "rto", "probe", "ackonly"}
	}
	k := rapid.SampledFrom(kinds).Draw(t, "kind")
	if k == "rto" && rapid.IntRange(0, 3).Draw(t, "rto-rare") != 0 {
		k = "send"
	}
	if k == "mtu" && rapid.IntRange(0, 1).Draw(t, "mtu-rare") != 0 {
		k = "send"
	}
	switch k {
	case "send":
		op.K, op.Mode = "send", "any"
		switch rapid.IntRange(0, 5).Draw(t, "nmode") {
		case 0:
			op.N = 1
		case 1, 2:
			op.N = rapid.IntRange(1, 12).Draw(t, "n")
		default:
			op.N = 200 // fill the window
			if m.p.Big || (m.p.Near && !m.cheap) {
				op.N = 25000
			}
		}
		if rapid.IntRange(0, 4).Draw(t, "szmode") == 0 {
			op.Size = rapid.Int64Range(25, m.mds).Draw(t, "size")
		}
		op.Wait = rapid.IntRange(0, 5).Draw(t, "wait") != 0
		if rapid.IntRange(0, 9).Draw(t, "skipmode") == 0 {
			op.Skip = 1
		}
	case "probe":
		op.K, op.Mode = "send", "probe"
		op.N = rapid.IntRange(1, 2).Draw(t, "n")
		op.Requeue = rapid.Bool().Draw(t, "requeue")
	case "ackonly":
		op.K, op.Mode = "send", "ackonly"
		op.Size = rapid.Int64Range(25, 60).Draw(t, "size")
	case "ack":
		op.K = "ack"
		pick := rapid.IntRange(0, 9).Draw(t, "ackmode")
		switch {
		case pick <= 2: // everything outstanding
			for _, p := range view {
				op.Acked = append(op.Acked, p.pn)
			}
		case pick <= 5: // a prefix
			n := rapid.IntRange(1, nOut).Draw(t, "prefix")
			for _, p := range view[:n] {
				op.Acked = append(op.Acked, p.pn)
			}
		case pick <= 7: // a suffix after a gap: the classic loss pattern
			gap := rapid.IntRange(1, min(nOut, 6)).Draw(t, "gap")
			if gap == nOut {
				gap = nOut - 1
			}
			n := rapid.IntRange(1, nOut-gap).Draw(t, "n")
			for _, p := range view[gap : gap+n] {
				op.Acked = append(op.Acked, p.pn)
			}
		case pick == 8: // only the newest
			op.Acked = []int64{view[nOut-1].pn}
		default: // arbitrary subset
			sub := view
			if len(sub) > 48 {
				sub = sub[:48]
			}
			for _, p := range sub {
				if rapid.Bool().Draw(t, "in") {
					op.Acked = append(op.Acked, p.pn)
				}
			}
			if len(op.Acked) == 0 {
				op.Acked = []int64{view[0].pn}
			}
		}
		la := max(m.largestAcked, op.Acked[len(op.Acked)-1])
		op.Lost = m.genLost(t, la, op.Acked)
		switch rapid.IntRange(0, 9).Draw(t, "admode") {
		case 0:
			op.AckDelay = rapid.Int64Range(0, 30_000_000).Draw(t, "ad")
		case 1:
			op.AckDelay = 1 << 40
		}
		if rapid.IntRange(0, 11).Draw(t, "frttmode") == 0 {
			op.FreeRTT = rapid.SampledFrom([]int64{1, 999, 1000, 50_000, 1_000_000, 20_000_000, 100_000_000, 1_000_000_000, 10_000_000_000}).Draw(t, "frtt")
			if rapid.IntRange(0, 6).Draw(t, "frtthuge") == 0 { // 50 min .. 73 years: the bandwidth estimate reaches zero
				op.FreeRTT = rapid.SampledFrom([]int64{3_000_000_000_000, 40_000_000_000_000, 31_536_000_000_000_000, 1 << 61}).Draw(t, "frtt")
			}
		}
		op.CE = rapid.IntRange(0, 29).Draw(t, "ce") == 0
	case "lossto":
		op.K = "lossto"
		op.Lost = m.genLost(t, m.largestAcked, nil)
		if len(op.Lost) == 0 {
			op.K = "tick"
		}
	case "mtu":
		op.K = "mtu"
		op.MDS = rapid.SampledFrom([]int64{m.mds, m.mds + 1, 1452, 1452, 1400, 1350}).Draw(t, "mds")
		if rapid.IntRange(0, 3).Draw(t, "mdsrand") == 0 {
			op.MDS = rapid.Int64Range(m.mds, 1452).Draw(t, "mdsv")
		}
		op.MDS = max(op.MDS, m.mds)
	case "rto":
		op.K = "rto"
		op.Retrans = rapid.Bool().Draw(t, "rx")
	default:
		op.K = "tick"
	}
	return op
}

// genLost chooses packets to declare lost among the outstanding ones below the largest acknowledged.
func (m *senderMachine) genLost(t *rapid.T, largestAcked int64, acked []int64) []int64 {
	isAcked := map[int64]bool{}
	for _, a := range acked {
		isAcked[a] = true
	}
	var cand []int64
	for _, p := range m.out {
		if p.pn < largestAcked && !isAcked[p.pn] {
			cand = append(cand, p.pn)
		}
	}
	if len(cand) == 0 {
		return nil
	}
	switch rapid.IntRange(0, 9).Draw(t, "lossmode") {
	case 0, 1, 2: // none (reordering tolerated)
		return nil
	case 3, 4, 5: // the packet-threshold rule: everything at least 3 below the largest acknowledged
		var r []int64
		for _, c := range cand {
			if largestAcked-c >= 3 {
				r = append(r, c)
			}
		}
		return r
	case 6, 7: // time threshold: all of them
		return cand
	case 8: // one
		return []int64{cand[rapid.IntRange(0, len(cand)-1).Draw(t, "which")]}
	default:
		var r []int64
		if len(cand) > 48 {
			cand = cand[:48]
		}
		for _, c := range cand {
			if rapid.Bool().Draw(t, "lost") {
				r = append(r, c)
			}
		}
		return r
	}
}

// nearOneIn: about one history in nearOneIn is directed to the maximum window (each costs 100-300 thousand callbacks).
// C20_NEAR_ONE_IN overrides it (development aid for measuring the directed histories: 1 = every history).
var nearOneIn = func() int {
	if n, err := strconv.Atoi(os.Getenv("C20_NEAR_ONE_IN")); err == nil && n > 0 {
		return n
	}
	return 32
}()

func genSParams(profile int) func(t *rapid.T) SParams {
	return func(t *rapid.T) SParams {
		p := SParams{Profile: profile}
		p.Reno = rapid.IntRange(0, 2).Draw(t, "reno") != 2 // the connection always uses Reno; cubic is 1/3 of the cases
		p.MDS = rapid.SampledFrom([]int64{1200, 1252, 1280, 1280, 1350, 1452}).Draw(t, "mds")
		p.Start = rapid.SampledFrom([]int64{1, 3_600_000_000_000, 3_600_000_000_000, 1 << 55}).Draw(t, "start")
		if rapid.IntRange(0, 5).Draw(t, "initrtt") == 0 {
			p.InitRTT = rapid.SampledFrom([]int64{1, 1000, 1_000_000, 20_000_000, 333_000_000, 10_000_000_000}).Draw(t, "rtt")
		}
		p.Big = rapid.IntRange(0, 119).Draw(t, "big") == 119
		p.Huge = profile == 0 && rapid.IntRange(0, 2).Draw(t, "huge") == 2
		// (rapid's integer ranges favour their ends, 0 above all; a value from the middle gives a rare event its nominal frequency)
		if !p.Big && (nearOneIn == 1 || rapid.IntRange(0, nearOneIn-1).Draw(t, "near") == nearOneIn/2+1) {
			p.Near = true
			p.Huge = false
			p.NearK = rapid.SampledFrom([]int{0, 0, 1, 1, 2, 3, 3, 5, 9}).Draw(t, "near-k")
			p.NearRTT = rapid.SampledFrom([]int64{2_000_000, 10_000_000, 20_000_000, 50_000_000, 100_000_000, 300_000_000}).Draw(t, "near-rtt")
			p.NearChunk = rapid.SampledFrom([]int{0, 0, 2, 10, 64, 500}).Draw(t, "near-chunk")
			if rapid.IntRange(0, 2).Draw(t, "near-mtu") == 0 {
				p.NearMTUAt = rapid.SampledFrom([]int{33, 200, 3000, 8000, 8193}).Draw(t, "near-mtu-at")
			}
			p.NearWork = rapid.SampledFrom([]int{120_000, 200_000, 300_000}).Draw(t, "near-work")
			if p.InitRTT > 1_000_000_000 {
				p.InitRTT = 0
			}
		}
		return p
	}
}

func TestSenderModel(t *testing.T) {
	vf.RunMachine(t, "sender-model", 90, genSParams(0), newSenderMachine("sender-model"))
}

func TestSenderPacing(t *testing.T) {
	vf.RunMachine(t, "sender-pacing", 90, genSParams(1), newSenderMachine("sender-pacing"))
}
