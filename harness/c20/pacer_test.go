package c20

import (
	"math"
	"math/bits"
	"testing"

	"pgregory.net/rapid"

	"github.com/refraction-networking/uquic/internal/congestion"
	"github.com/refraction-networking/uquic/internal/monotime"
	"github.com/refraction-networking/uquic/internal/protocol"
	"github.com/refraction-networking/uquic/verif/vf"
)

// The pacer alone (congestion.VerifNewPacer), driven with the protocol of its real caller:
//
//   - cubicSender.OnPacketSent calls pacer.SentPacket for EVERY packet, ack-eliciting or not;
//   - new data leaves only in SendAny mode, i.e. when HasPacingBudget(now): Budget(now) >= one datagram
//     (sentPacketHandler.SendMode); otherwise the connection arms a timer for TimeUntilSend() and evaluates
//     SendMode again when it fires, at that time or later (connection.go triggerSending / resetPacingDeadline);
//   - pure ACKs (SendPacingLimited / SendAck) and PTO probes are sent without asking the pacer;
//   - a path-MTU probe is released like data but is larger than the current datagram size;
//   - the bandwidth function (cwnd / smoothed RTT) changes between calls; SetMaxDatagramSize only increases.
type PParams struct {
	Start int64  `json:"start"`
	BW    uint64 `json:"bw"` // initial bandwidth, bits per second
}

type POp struct {
	K    string `json:"k"`            // send | unauth | bw | mtu | tick
	Dt   int64  `json:"dt,omitempty"` // clock advance before the op
	Wrap int64  `json:"wrap,omitempty"`
	// Wrap != 0: the clock advance is ceil(2^64 / adjusted bandwidth) + Wrap - 2 ns instead, the first time gap
	// for which bandwidth*gap no longer fits 64 bits (aims at the overflow guard of timeScaledBandwidth)
	N    int    `json:"n,omitempty"`
	Size int64  `json:"sz,omitempty"` // 0: a full datagram
	Wait bool   `json:"w,omitempty"`
	Over bool   `json:"over,omitempty"` // send: path-MTU probe, larger than the current datagram size
	BW   uint64 `json:"bw,omitempty"`
	MDS  int64  `json:"mds,omitempty"`
}

type pacerMachine struct {
	u   *vf.Unit
	p   *congestion.VerifPacer
	bw  uint64 // bits per second, read by the pacer through the closure
	mds int64
	now int64

	lastSend      int64 // 0: nothing sent yet
	deadline      int64 // TimeUntilSend() right after the last send (0: budget was available / unknown)
	bwSinceSend   bool  // bandwidth or datagram size changed since the last send
	oversize      int   // path-MTU probes sent (bounded so that their overdraft stays within "one packet")
	iv            intervalChecker
	authSends     int
	waited        bool
	hugeGap       bool
	hugeBW, zeroB bool
	guardAimed    bool
	bwChanges     int
	limited       bool
	sig           []byte
	reported      map[string]bool // known findings already counted for this history
}

func newPacerMachine(p PParams) vf.Machine[POp] {
	m := &pacerMachine{u: vf.U("pacer-model"), bw: p.BW, mds: int64(protocol.InitialPacketSize), now: p.Start, reported: map[string]bool{}}
	m.p = congestion.VerifNewPacer(func() congestion.Bandwidth { return congestion.Bandwidth(m.bw) })
	return m
}

func (m *pacerMachine) t() monotime.Time { return monotime.Time(m.now) }

// adjusted is the integer bandwidth in bytes/s the pacer derives (bits/8*5/4); used only to predict a zero
// bandwidth and to aim clock steps at the overflow guard, never as an oracle.
func (m *pacerMachine) adjusted() uint64 { return m.bw / 8 * 5 / 4 }

func (m *pacerMachine) tolerated(v *vf.Verdict) bool {
	if v != nil && vf.IsKnown(v.Sig) {
		if !m.reported[v.Sig] { // count histories, not calls
			m.reported[v.Sig] = true
			m.u.Report(v, nil)
			m.u.Class("known:" + v.Sig)
		}
		return true
	}
	return false
}

// timeUntilSend calls TimeUntilSend; ok=false if it panicked on a zero bandwidth (open known finding).
func (m *pacerMachine) timeUntilSend() (t int64, ok bool, v *vf.Verdict) {
	zero := m.adjusted() == 0
	defer func() {
		if r := recover(); r != nil {
			if !zero {
				panic(r)
			}
			v = vf.Bad(sigTUSDivZero, "TimeUntilSend panicked (%v) with a bandwidth of %d bit/s (adjusted 0 bytes/s) and less than one datagram of budget", r, m.bw)
			if m.tolerated(v) {
				v = nil
			}
			ok = false
		}
	}()
	return int64(m.p.TimeUntilSend()), true, nil
}

// check is evaluated after every step at the current model time.
func (m *pacerMachine) check(where string) *vf.Verdict {
	capU := m.p.VerifMaxBurstSize()
	bwB := float64(m.bw) / 8
	if capU < uint64(10*m.mds) || float64(capU) > burstOf(bwB, m.mds)*(1+1e-9)+1 {
		return vf.Bad(sigBurstCap, "%s: burst cap %d outside [10*%d, max(10 datagrams, 1.25*%.6g B/s*2ms)=%.0f]", where, capU, m.mds, bwB, burstOf(bwB, m.mds))
	}
	b := int64(m.p.Budget(m.t()))
	if b < 0 {
		return vf.Bad(sigBudgetNeg, "%s: Budget(now)=%d", where, b)
	}
	if uint64(b) > capU {
		return vf.Bad(sigBudgetCap, "%s: Budget(now)=%d above the burst cap %d", where, b, capU)
	}
	if b < m.mds {
		m.limited = true
	}
	// the budget that was left right after the last send
	atLast := int64(m.p.Budget(monotime.Time(m.lastSend)))
	if m.lastSend == 0 {
		atLast = int64(capU)
	}
	needTUS := atLast < m.mds
	if needTUS && m.adjusted() == 0 {
		m.zeroB = true
	}
	t, ok, v := m.timeUntilSend()
	if v != nil {
		return v
	}
	if !ok {
		return nil
	}
	if needTUS && m.adjusted() == 0 {
		// zero bandwidth: the bucket never refills, so no deadline is "right"; the call must not panic and a
		// deadline, if given, must not lie before the last send
		if t != 0 && t < m.lastSend {
			return vf.Bad(sigTUSBeforeSend, "%s: TimeUntilSend()=%d lies before the last send at %d", where, t, m.lastSend)
		}
		return nil
	}
	if t == 0 {
		if needTUS {
			return vf.Bad(sigTUSZero, "%s: TimeUntilSend()=0 but only %d bytes (< %d) were left after the last send", where, atLast, m.mds)
		}
	} else {
		if !needTUS {
			return vf.Bad(sigTUSNonZero, "%s: TimeUntilSend()=%d although %d bytes (>= %d) were left after the last send", where, t, atLast, m.mds)
		}
		if t < m.lastSend {
			return vf.Bad(sigTUSBeforeSend, "%s: TimeUntilSend()=%d lies before the last send at %d", where, t, m.lastSend)
		}
		if t <= maxClock {
			// "We might need to round up this value. Otherwise, we might have a budget (slightly) smaller than the
			// datagram size when the timer expires." (pacer.go)
			if bt := int64(m.p.Budget(monotime.Time(t))); bt < m.mds {
				return vf.Bad(sigTUSEarly, "%s: Budget(TimeUntilSend()=%d) = %d < %d: the pacing timer expires before a datagram may be sent (last send %d, bandwidth %d bit/s)", where, t, bt, m.mds, m.lastSend, m.bw)
			}
		}
	}
	// once the deadline computed after the last send has passed, a datagram stays sendable however late the timer
	// fires (bandwidth and datagram size unchanged): the budget must not wrap
	if m.deadline != 0 && !m.bwSinceSend && m.now >= m.deadline && b < m.mds {
		return vf.Bad(sigBudgetNeg, "%s: Budget(now=%d)=%d < %d although the pacing deadline %d (set after the send at %d) has passed and the bandwidth %d bit/s did not change",
			where, m.now, b, m.mds, m.deadline, m.lastSend, m.bw)
	}
	return nil
}

func (m *pacerMachine) sent(size int64, auth bool) *vf.Verdict {
	m.p.SentPacket(m.t(), protocol.ByteCount(size))
	m.lastSend = m.now
	m.bwSinceSend = false
	m.deadline = 0
	if auth {
		m.authSends++
	}
	if v := m.iv.add(sendRec{t: m.now, size: size, bw: float64(m.bw) / 8, mds: m.mds, auth: auth}); v != nil {
		return v
	}
	if m.adjusted() != 0 {
		if t := int64(m.p.TimeUntilSend()); t != 0 && t <= maxClock {
			m.deadline = t
		}
	}
	return nil
}

func (m *pacerMachine) Apply(op POp) *vf.Verdict {
	dt := op.Dt
	if op.Wrap != 0 {
		if a := m.adjusted(); a > 0 {
			q := math.MaxUint64 / a // the guard triggers for ns > q
			if q < uint64(maxClock) {
				dt = int64(q) + op.Wrap - 2
				m.guardAimed = true
			}
		}
	}
	if dt > 0 {
		m.now = min(m.now+dt, maxClock)
		if m.now < 0 || m.now > maxClock {
			m.now = maxClock
		}
		if dt >= 3_600_000_000_000 {
			m.hugeGap = true
		}
	}
	m.sig = append(m.sig, op.K[0], byte(bits.Len64(uint64(dt))))
	switch op.K {
	case "bw":
		m.bw = op.BW
		m.bwSinceSend = true
		m.bwChanges++
		if op.BW >= 1<<62 {
			m.hugeBW = true
		}
	case "mtu":
		s := min(max(op.MDS, m.mds), protocol.MaxPacketBufferSize)
		m.p.SetMaxDatagramSize(protocol.ByteCount(s))
		if s != m.mds {
			m.bwSinceSend = true
		}
		m.mds = s
	case "unauth":
		// pure ACK or PTO probe: not released by the pacer
		size := op.Size
		if size <= 0 || size > m.mds {
			size = m.mds
		}
		if v := m.sent(size, false); v != nil {
			return v
		}
	case "send":
		for i := 0; i < max(op.N, 1); i++ {
			if v := m.check("before send"); v != nil {
				return v
			}
			if int64(m.p.Budget(m.t())) < m.mds {
				if !op.Wait {
					break
				}
				t, ok, v := m.timeUntilSend()
				if v != nil {
					return v
				}
				if !ok || t == 0 || t > maxClock {
					break // (t == 0 without budget is reported by check)
				}
				if t > m.now {
					m.now = t
					m.waited = true
				}
				if int64(m.p.Budget(m.t())) < m.mds {
					break // reported by check as timer-expires-before-budget-available
				}
			}
			size := op.Size
			if size <= 0 || size > m.mds {
				size = m.mds
			}
			if op.Over && m.oversize < 3 && m.mds < protocol.MaxPacketBufferSize {
				size = protocol.MaxPacketBufferSize
				m.oversize++
			}
			if v := m.sent(size, true); v != nil {
				return v
			}
		}
	}
	return m.check("after " + op.K)
}

func (m *pacerMachine) Finish(u *vf.Unit) *vf.Verdict {
	for _, c := range []struct {
		n string
		b bool
	}{{"waited-for-deadline", m.waited}, {"pacing-limited", m.limited}, {"gap>=1h", m.hugeGap}, {"bw>=2^62", m.hugeBW},
		{"zero-bw-while-limited", m.zeroB}, {"guard-aimed-gap", m.guardAimed}, {"bw-changed", m.bwChanges > 0},
		{"auth-sends>=20", m.authSends >= 20}, {"mtu-probe", m.oversize > 0}} {
		if c.b {
			u.Class(c.n)
		}
	}
	// non-trivial: the pacer actually limited the sender at least once and released at least a burst
	if m.limited && m.authSends > 10 {
		u.NonTrivial(m.sig)
	}
	return nil
}

var pacerBW = []uint64{0, 1, 7, 8, 9, 15, 16, 63, 64, 800, 8000, 80_000, 1_000_000, 8_000_000, 100_000_000, 1_000_000_000,
	10_000_000_000, 1 << 40, 1 << 50, 1 << 56, 1 << 60, 1<<62 - 1, 1 << 62, 1<<63 - 1, 1 << 63, 1<<63 + 1, math.MaxUint64}

func genBW(t *rapid.T) uint64 {
	switch rapid.IntRange(0, 3).Draw(t, "bwmode") {
	case 0:
		return rapid.SampledFrom(pacerBW).Draw(t, "bw")
	case 1: // uniform in the exponent
		e := rapid.IntRange(0, 63).Draw(t, "bwexp")
		return uint64(1)<<e + rapid.Uint64Range(0, uint64(1)<<e-1).Draw(t, "bwmant")
	default: // realistic: 10 kB/s .. 10 GB/s
		return rapid.Uint64Range(80_000, 80_000_000_000).Draw(t, "bwreal")
	}
}

var pacerDt = []int64{0, 0, 1, 10, 1000, 10_000, 100_000, 999_999, 1_000_000, 1_000_001, 2_000_000, 2_000_001, 10_000_000, 1_000_000_000,
	60_000_000_000, 3_600_000_000_000, 1_000_000_000_000_000, 1_000_000_000_000_000_000, 1 << 62}

func (m *pacerMachine) Gen(t *rapid.T) POp {
	op := POp{}
	switch x := rapid.IntRange(0, 19).Draw(t, "dtmode"); {
	case x < 12:
		op.Dt = rapid.SampledFrom(pacerDt[:12]).Draw(t, "dt")
	case x < 16:
		op.Dt = rapid.SampledFrom(pacerDt).Draw(t, "dt")
	case x < 18:
		op.Dt = rapid.Int64Range(0, 50_000_000).Draw(t, "dtv")
	default:
		op.Wrap = rapid.Int64Range(1, 6).Draw(t, "wrap")
	}
	switch rapid.SampledFrom([]string{"send", "send", "send", "send", "send", "unauth", "bw", "bw", "mtu", "tick"}).Draw(t, "kind") {
	case "send":
		op.K = "send"
		op.N = rapid.SampledFrom([]int{1, 1, 2, 5, 12, 30}).Draw(t, "n")
		op.Wait = rapid.IntRange(0, 3).Draw(t, "wait") != 0
		if rapid.IntRange(0, 4).Draw(t, "szmode") == 0 {
			op.Size = rapid.Int64Range(25, m.mds).Draw(t, "size")
		}
		op.Over = rapid.IntRange(0, 24).Draw(t, "over") == 0
	case "unauth":
		op.K = "unauth"
		if rapid.Bool().Draw(t, "small") {
			op.Size = rapid.Int64Range(25, 60).Draw(t, "size")
		}
	case "bw":
		op.K = "bw"
		op.BW = genBW(t)
	case "mtu":
		op.K = "mtu"
		op.MDS = rapid.SampledFrom([]int64{m.mds, m.mds + 1, 1350, 1452, 1452}).Draw(t, "mds")
	default:
		op.K = "tick"
	}
	return op
}

func TestPacerModel(t *testing.T) {
	vf.RunMachine(t, "pacer-model", 80, func(t *rapid.T) PParams {
		return PParams{Start: rapid.SampledFrom([]int64{1, 3_600_000_000_000, 1 << 55}).Draw(t, "start"), BW: genBW(t)}
	}, newPacerMachine)
}
