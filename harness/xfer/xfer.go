// C01: stream data arrives intact, in order, exactly once under any network faults.
//
// Engine: complete connections (plain Transport, UTransport without spec, spec-driven UTransport)
// against the in-tree server over sim's fault-injecting network inside a synctest bubble.
// Oracle: the reader compares every Read against the writer's byte string (prefix property), EOF
// only at the full length after the writer closed; any outcome other than "all transfers completed"
// must be justified by the router's log (a timeout only when the endpoint really received nothing
// intact for the timeout period).
package xfer

import (
	"bytes"
	"context"
	"errors"
	"fmt"
	"github.com/refraction-networking/uquic/verif/refwire"
	"github.com/refraction-networking/uquic/verif/specgen"
	"io"
	"net"
	"sort"
	"strings"
	"sync"
	"testing"
	"time"

	tls "github.com/refraction-networking/utls"
	"pgregory.net/rapid"

	quic "github.com/refraction-networking/uquic"
	"github.com/refraction-networking/uquic/verif/sim"
	"github.com/refraction-networking/uquic/verif/vf"
)

type StreamSpec struct {
	Init     string `json:"init"` // "c" or "s": who opens and writes
	Uni      bool   `json:"uni,omitempty"`
	Size     int    `json:"size"`
	Chunks   []int  `json:"chunks"` // Write chunk sizes, cycled
	ReadBuf  int    `json:"readbuf"`
	RevSize  int    `json:"rev,omitempty"` // bidi: bytes the acceptor writes back
	NoClose  bool   `json:"noclose,omitempty"`
	CancelAt int    `json:"cancel_at,omitempty"` // >0: writer calls CancelWrite after this many bytes
}

type Case struct {
	Client string `json:"client"` // plain | unil | spec:<name>
	// ClientWin (spec clients only): the spec advertises these receive windows [bidi_local, bidi_remote, uni] in KiB
	// instead of the parrot's (which are equal per type for Chrome and far above every generated transfer)
	ClientWin []int `json:"client_win_kb,omitempty"`
	// Observed: "" | "log" (debug logging on, output discarded) | "trace" (Config.Tracer set on both sides, events
	// dropped) | "both": what the endpoints do must not depend on whether anybody watches
	Observed string `json:"observed,omitempty"`
	// Retry: the server validates the client's address with a Retry first
	Retry     bool         `json:"retry,omitempty"`
	V2        bool         `json:"v2,omitempty"`
	RTTms     int          `json:"rtt_ms"`
	IdleMs    int          `json:"idle_ms"`
	Streams   []StreamSpec `json:"streams"`
	Datagrams int          `json:"datagrams,omitempty"`
	Faults    []sim.Fault  `json:"faults,omitempty"`
	Loss      *sim.Loss    `json:"loss,omitempty"`
	Blackout  [][2]int     `json:"blackouts_ms,omitempty"`
	Seed      uint64       `json:"seed"`
	WinKB     int          `json:"win_kb,omitempty"` // >0: small flow-control windows on both endpoints (initial = WinKB, max = 4x)
	// Early (plain and unil clients only; a spec-driven client never gets 0-RTT keys): the client first makes a fault-free
	// preliminary connection to the same server to obtain a session ticket, closes it, and the measured connection is
	// made with DialEarly: the client's streams are opened and written (and its datagrams sent) before the handshake
	// has completed. Faults, loss window and blackouts apply to the measured connection only.
	Early bool `json:"early,omitempty"`
	// EarlyReject (only with Early): after the preliminary connection the server's listener is replaced by one (same
	// transport, same TLS configuration, hence the same ticket keys) that does not accept 0-RTT: the TLS session is
	// resumed, the early data is rejected. The client application does what the API documents: its stream calls of the
	// first attempt fail with Err0RTTRejected, it calls NextConnection and does ALL its transfers again from the start
	// on the returned connection (fresh Open calls: the stream IDs start over). The bytes it writes during the rejected
	// attempt differ from those of the second one, so that a reader can tell them apart.
	EarlyReject bool `json:"early_reject,omitempty"`
	// EarlyRejectHow: "" = the new listener has Allow0RTT off | "limits" = Allow0RTT on, but the stream limits it
	// advertises are lower than those remembered with the ticket
	EarlyRejectHow string `json:"early_reject_how,omitempty"`
}

// GenUnit is the unit that generator exclusions are counted under.
var GenUnit = "sim-random"

var specs = map[string]quic.QUICID{
	"chrome115":  quic.QUICChrome_115_IPv4,
	"chrome146":  quic.QUICChrome_146_IPv4,
	"chrome1156": quic.QUICChrome_115_IPv6,
}

func pattern(seed uint64, idx, n int) []byte {
	b := make([]byte, n)
	s := seed*0x9e3779b97f4a7c15 + uint64(idx)*0xbf58476d1ce4e5b9 + 1
	for i := 0; i < n; i += 8 {
		s ^= s << 13
		s ^= s >> 7
		s ^= s << 17
		for j := 0; j < 8 && i+j < n; j++ {
			b[i+j] = byte(s >> (8 * j))
		}
	}
	return b
}

func genFaults(t *rapid.T, max int) []sim.Fault {
	n := rapid.IntRange(0, max).Draw(t, "nfaults")
	fs := make([]sim.Fault, 0, n)
	lossy := map[string]int{}
	for i := 0; i < n; i++ {
		f := sim.Fault{
			Dir:  rapid.SampledFrom([]string{"c2s", "s2c"}).Draw(t, "dir"),
			Cls:  rapid.SampledFrom([]string{"", "", "", "initial", "handshake", "1rtt", "1rtt"}).Draw(t, "cls"),
			Kind: rapid.SampledFrom([]string{"drop", "drop", "drop", "dup", "delay", "flip", "trunc"}).Draw(t, "kind"),
		}
		f.Nth = rapid.IntRange(0, 14).Draw(t, "nth")
		if f.Cls == "initial" || f.Cls == "handshake" {
			f.Nth = rapid.IntRange(0, 3).Draw(t, "nth-hs")
		}
		switch f.Kind {
		case "dup":
			f.Arg = rapid.IntRange(1, 3).Draw(t, "copies")
		case "delay":
			f.Arg = rapid.SampledFrom([]int{1, 5, 20, 60, 150, 400}).Draw(t, "delay")
		case "flip":
			f.Arg = rapid.IntRange(5, 1500).Draw(t, "idx") // bytes 1..4 (version field) are excluded: a forged Version Negotiation is an allowed failure
			f.Arg2 = 1 << rapid.IntRange(0, 7).Draw(t, "bit")
		case "trunc":
			f.Arg = rapid.IntRange(0, 1500).Draw(t, "len")
		}
		if f.Kind == "drop" || f.Kind == "flip" || f.Kind == "trunc" {
			lossy[f.Dir]++
		}
		fs = append(fs, f)
	}
	return fs
}

func GenCase(t *rapid.T) Case {
	c := Case{Seed: rapid.Uint64().Draw(t, "seed")}
	c.Client = rapid.SampledFrom([]string{"plain", "plain", "unil", "spec:chrome115", "spec:chrome146"}).Draw(t, "client")
	if c.Client == "plain" || c.Client == "unil" {
		c.V2 = rapid.Bool().Draw(t, "v2")
	} else if rapid.IntRange(0, 2).Draw(t, "cwin") == 0 {
		c.ClientWin = []int{rapid.SampledFrom([]int{2, 4, 16, 64}).Draw(t, "bl"), rapid.SampledFrom([]int{2, 4, 16, 64}).Draw(t, "br"), rapid.SampledFrom([]int{2, 4, 16, 64}).Draw(t, "uw")}
	}
	c.Observed = rapid.SampledFrom([]string{"", "", "", "", "", "", "", "", "", "log", "trace", "both"}).Draw(t, "observed")
	c.Retry = rapid.IntRange(0, 5).Draw(t, "retry") == 0
	c.RTTms = rapid.SampledFrom([]int{2, 10, 30, 80, 200}).Draw(t, "rtt")
	c.IdleMs = rapid.SampledFrom([]int{5000, 10000, 30000}).Draw(t, "idle")
	maxSize := 256 << 10
	if vf.Thorough() {
		maxSize = 2 << 20
	}
	ns := rapid.IntRange(1, 6).Draw(t, "nstreams")
	for i := 0; i < ns; i++ {
		s := StreamSpec{Init: rapid.SampledFrom([]string{"c", "s"}).Draw(t, "init"), Uni: rapid.Bool().Draw(t, "uni")}
		s.Size = rapid.OneOf(rapid.IntRange(0, 3000), rapid.IntRange(0, 40000), rapid.IntRange(0, maxSize)).Draw(t, "size")
		nch := rapid.IntRange(1, 4).Draw(t, "nchunks")
		for j := 0; j < nch; j++ {
			s.Chunks = append(s.Chunks, rapid.OneOf(rapid.IntRange(0, 64), rapid.IntRange(1, 3000), rapid.IntRange(1000, 70000)).Draw(t, "chunk"))
		}
		s.ReadBuf = rapid.OneOf(rapid.IntRange(1, 32), rapid.IntRange(100, 4096), rapid.Just(32768)).Draw(t, "readbuf")
		if !s.Uni {
			s.RevSize = rapid.OneOf(rapid.Just(0), rapid.IntRange(1, 20000)).Draw(t, "rev")
		}
		if rapid.IntRange(0, 9).Draw(t, "cancel") == 0 && s.Size > 10 {
			s.CancelAt = rapid.IntRange(1, s.Size-1).Draw(t, "cancel_at")
		}
		c.Streams = append(c.Streams, s)
	}
	c.Datagrams = rapid.SampledFrom([]int{0, 0, 3, 12}).Draw(t, "dgrams")
	c.WinKB = rapid.SampledFrom([]int{0, 0, 0, 2, 8, 32}).Draw(t, "win")
	c.Faults = genFaults(t, 8)
	if rapid.IntRange(0, 3).Draw(t, "lossy") == 0 {
		from := rapid.IntRange(0, 1500).Draw(t, "loss_from")
		c.Loss = &sim.Loss{Permille: rapid.IntRange(10, 400).Draw(t, "p"), FromMs: from, ToMs: from + rapid.IntRange(50, 2000).Draw(t, "loss_len"), Seed: rapid.Uint64().Draw(t, "loss_seed")}
	}
	if rapid.IntRange(0, 4).Draw(t, "blackout") == 0 {
		from := rapid.IntRange(0, 3000).Draw(t, "bo_from")
		c.Blackout = [][2]int{{from, from + rapid.IntRange(10, c.IdleMs/3).Draw(t, "bo_len")}}
	}
	// 0-RTT dimension. These draws come last so that everything above keeps its meaning for a given rapid bit stream.
	if !NoEarly && (c.Client == "plain" || c.Client == "unil") && rapid.IntRange(0, 5).Draw(t, "early") == 0 {
		c.Early = true
		// bias towards the interesting corner: more early data than the initial congestion window (32 packets) ...
		if rapid.IntRange(0, 2).Draw(t, "early_big") > 0 {
			s := &c.Streams[rapid.IntRange(0, len(c.Streams)-1).Draw(t, "early_stream")]
			s.Init = "c"
			s.Size = rapid.SampledFrom([]int{45000, 64000, 100000, 192000, 250000}).Draw(t, "early_size")
			s.Chunks = []int{rapid.SampledFrom([]int{1400, 16000, 64000}).Draw(t, "early_chunk")}
			s.CancelAt = 0
			c.WinKB = 0
		}
		// ... while (part of) the server's first flight is lost
		if rapid.IntRange(0, 2).Draw(t, "early_dropflight") > 0 {
			var fl []sim.Fault
			for i := 0; i < 3; i++ {
				if rapid.Bool().Draw(t, "early_drop") {
					fl = append(fl, sim.Fault{Dir: "s2c", Nth: i, Kind: "drop"})
				}
			}
			c.Faults = append(fl, c.Faults...)
		}
		if !NoEarlyReject && rapid.IntRange(0, 2).Draw(t, "early_reject") == 0 {
			c.EarlyReject = true
			c.EarlyRejectHow = rapid.SampledFrom([]string{"", "", "limits"}).Draw(t, "early_reject_how")
		}
	}
	return c
}

// NoEarlyReject makes GenCase never draw rejected 0-RTT.
var NoEarlyReject bool

// attempt is the client's part of a connection attempt that is kept apart from the judged transfers.
type attempt struct {
	o   *outcome
	fwd [][]byte
	wg  sync.WaitGroup
}

// NoEarly makes GenCase never draw the 0-RTT dimension.
var NoEarly bool

// sessionCache signals every session ticket the client stores and hands the resumption PSK to the wire observer.
type sessionCache struct {
	inner tls.ClientSessionCache
	puts  chan struct{}
	obs   func() *sim.Observer
}

func (sc *sessionCache) Get(k string) (*tls.ClientSessionState, bool) {
	cs, ok := sc.inner.Get(k)
	if o := sc.obs(); ok && o != nil {
		if _, st, err := cs.ResumptionState(); err == nil && st != nil {
			if b, err := st.Bytes(); err == nil {
				if psk, ok := sim.PSKFromSessionState(b); ok {
					o.AddResumptionPSK(psk)
				}
			}
		}
	}
	return cs, ok
}

func (sc *sessionCache) Put(k string, s *tls.ClientSessionState) {
	sc.inner.Put(k, s)
	select {
	case sc.puts <- struct{}{}:
	default:
	}
}

type streamResult struct {
	idx       int
	dir       string // "fwd" or "rev"
	got       int
	eof       bool
	readErr   error
	writeErr  error
	wrote     int
	closed    bool
	cancelled bool
	opened    bool
}

type outcome struct {
	mu       sync.Mutex
	results  []*streamResult
	verdict  *vf.Verdict
	dgramsRx map[string]int
	// rejected: what the client wrote on stream i during a rejected 0-RTT attempt (nil otherwise)
	rejected [][]byte
}

func (o *outcome) bad(v *vf.Verdict) {
	o.mu.Lock()
	if o.verdict == nil {
		o.verdict = v
	}
	o.mu.Unlock()
}

// writer writes data according to the chunking and closes / cancels.
func writeAll(w interface {
	Write([]byte) (int, error)
	Close() error
	CancelWrite(quic.StreamErrorCode)
}, data []byte, chunks []int, noClose bool, cancelAt int, r *streamResult) {
	off, ci := 0, 0
	for off < len(data) {
		n := chunks[ci%len(chunks)]
		ci++
		if n == 0 {
			if _, err := w.Write(nil); err != nil {
				r.writeErr = err
				return
			}
			if ci > 4*len(chunks)+8 { // all-zero chunk lists would never progress
				n = 1000
			} else {
				continue
			}
		}
		if off+n > len(data) {
			n = len(data) - off
		}
		if cancelAt > 0 && off+n > cancelAt {
			n = cancelAt - off
		}
		m, err := w.Write(data[off : off+n])
		off += m
		r.wrote = off
		if err != nil {
			r.writeErr = err
			return
		}
		if cancelAt > 0 && off >= cancelAt {
			w.CancelWrite(7)
			r.cancelled = true
			return
		}
	}
	r.wrote = off
	if !noClose {
		if err := w.Close(); err != nil {
			r.writeErr = err
			return
		}
		r.closed = true
	}
}

// readAll reads and compares against want (prefix oracle).
func readAll(rd io.Reader, want []byte, bufSize int, r *streamResult, o *outcome, label string) {
	buf := make([]byte, bufSize)
	for {
		n, err := rd.Read(buf)
		if n > 0 {
			if r.got+n > len(want) {
				o.bad(vf.Bad("C01/stream/extra-data", "%s: read %d bytes at offset %d but the writer only wrote %d", label, n, r.got, len(want)))
				return
			}
			for i := 0; i < n; i++ {
				if buf[i] != want[r.got+i] {
					if r.dir == "fwd-read" && o.rejected != nil && r.idx < len(o.rejected) && r.got+n <= len(o.rejected[r.idx]) && n >= 4 && bytes.Equal(buf[:n], o.rejected[r.idx][r.got:r.got+n]) {
						// the bytes the peer wrote ON THIS connection attempt are the reference; these belong to the rejected one
						o.bad(vf.Bad("C01/early-reject/rejected-data-delivered", "%s: the %d bytes read at offset %d are what the client wrote during the REJECTED 0-RTT attempt, not what it wrote on the connection returned by NextConnection", label, n, r.got))
						return
					}
					o.bad(vf.Bad("C01/stream/corrupt", "%s: byte at offset %d is %#x, writer wrote %#x (read of %d bytes at offset %d)", label, r.got+i, buf[i], want[r.got+i], n, r.got))
					return
				}
			}
			r.got += n
		}
		if err != nil {
			if err == io.EOF {
				r.eof = true
			} else {
				r.readErr = err
			}
			return
		}
	}
}

func isTimeout(err error) (idle, hs bool) {
	var ie *quic.IdleTimeoutError
	var he *quic.HandshakeTimeoutError
	return errors.As(err, &ie), errors.As(err, &he)
}

// Options selects which oracle decides.
type Options struct {
	WirePrefixes []string // when non-empty: only wire-level findings with these signature prefixes are reported (the C01 oracle is not applied)
	Unit         string
}

// CheckCase runs one case in a bubble.
func CheckCase(t *testing.T, c Case, u *vf.Unit, opt Options) *vf.Verdict {
	bubbleT = t
	curOpt = opt
	var v *vf.Verdict
	var trace any
	u.Journal(c)
	tt := &testing.T{}
	_ = tt
	runBubble(c, u, &v, &trace)
	if v != nil && v.Trace == nil {
		v.Trace = trace
	}
	return v
}

var bubbleT *testing.T
var curOpt Options

func runBubble(c Case, u *vf.Unit, vout **vf.Verdict, trace *any) {
	sim.Bubble(bubbleT, 90*time.Second, func() {
		*vout = runCase(c, u, trace)
	}, func(rep sim.LeakReport) {
		if *vout == nil {
			*vout = vf.Bad("C01/leak/goroutines", "%d goroutines still alive 90 s (virtual) after both transports were closed:\n%s", rep.Count, rep.Dump)
		}
	})
}

func runCase(c Case, u *vf.Unit, trace *any) *vf.Verdict {
	idle := time.Duration(c.IdleMs) * time.Millisecond
	var bos [][2]time.Duration
	for _, b := range c.Blackout {
		bos = append(bos, [2]time.Duration{time.Duration(b[0]) * time.Millisecond, time.Duration(b[1]) * time.Millisecond})
	}
	var w *sim.World
	if c.Early {
		// the fault model is armed once the preliminary connection is over (Router.ArmAll below)
		w = sim.NewWorld(time.Duration(c.RTTms)*time.Millisecond, nil, nil, nil)
	} else {
		w = sim.NewWorld(time.Duration(c.RTTms)*time.Millisecond, c.Faults, c.Loss, bos)
	}
	defer w.Close()
	mark := 0 // log position of the first datagram of the measured connection
	if c.Observed == "log" || c.Observed == "both" {
		defer sim.DebugLogging()()
	}
	if c.Observed != "" {
		u.Class("observability-on")
	}
	wire := len(curOpt.WirePrefixes) > 0
	// replays decode the wire so that a verdict can say what the packets carried; 0-RTT cases always do, because a
	// handshake that stalls is classified by what the packets carried (earlyStallKind)
	observed := wire || vf.ReplayMode() || c.Early
	if observed {
		w.Observe()
	}
	var aliveUntil time.Duration // set when both connections were alive at the end of the transfers
	zeroRTTAccepted := false     // the client reports Used0RTT
	wireVerdict := func() *vf.Verdict {
		for _, f := range w.WireCheck(sim.WireOptions{AliveUntil: aliveUntil, FromSeq: mark, ZeroRTTSameLimits: c.Early && !c.EarlyReject, ZeroRTTAccepted: c.Early && !c.EarlyReject && zeroRTTAccepted}) {
			for _, pre := range curOpt.WirePrefixes {
				if strings.HasPrefix(f.Sig, pre) {
					return vf.Bad(f.Sig, "%s", f.Detail)
				}
			}
		}
		return nil
	}
	o := &outcome{dgramsRx: map[string]int{}}
	hsIdle := 5 * time.Second
	conf := func() *quic.Config {
		q := &quic.Config{DisablePathMTUDiscovery: true, MaxIdleTimeout: idle, HandshakeIdleTimeout: hsIdle, EnableDatagrams: c.Datagrams > 0,
			MaxIncomingStreams: 100, MaxIncomingUniStreams: 100}
		if c.Observed == "trace" || c.Observed == "both" {
			q.Tracer = sim.DiscardTracer
		}
		if c.V2 {
			q.Versions = []quic.Version{quic.Version2}
		}
		if c.WinKB > 0 {
			q.InitialStreamReceiveWindow, q.MaxStreamReceiveWindow = uint64(c.WinKB)<<10, uint64(c.WinKB)<<12
			q.InitialConnectionReceiveWindow, q.MaxConnectionReceiveWindow = uint64(c.WinKB)<<11, uint64(c.WinKB)<<13
		}
		return q
	}
	st := &quic.Transport{Conn: w.ServerConn}
	if c.Retry {
		st.VerifySourceAddress = func(net.Addr) bool { return true }
		u.Class("server-sends-retry")
	}
	defer st.Close()
	sconf := conf()
	sconf.Versions = []quic.Version{quic.Version1, quic.Version2}
	sconf.Allow0RTT = c.Early
	stls := sim.ServerTLS(false, w.ServerKeys)
	ln, err := st.Listen(stls, sconf)
	if err != nil {
		return vf.Bad("C01/harness/listen", "%v", err)
	}
	defer func() { ln.Close() }()
	ct := &quic.Transport{Conn: w.ClientConn}
	defer ct.Close()

	ctx, cancel := context.WithTimeout(context.Background(), 150*time.Second)
	defer cancel()

	// data
	fwd := make([][]byte, len(c.Streams))
	rev := make([][]byte, len(c.Streams))
	for i, s := range c.Streams {
		fwd[i] = pattern(c.Seed, 2*i, s.Size)
		rev[i] = pattern(c.Seed, 2*i+1, s.RevSize)
	}
	reject := c.Early && c.EarlyReject
	if reject {
		for i, s := range c.Streams {
			o.rejected = append(o.rejected, pattern(c.Seed+0x5eed, 2*i, s.Size))
		}
	}

	ctls := sim.ClientTLS(w.ClientKeys)
	cache := &sessionCache{inner: tls.NewLRUClientSessionCache(4), puts: make(chan struct{}, 8), obs: func() *sim.Observer { return w.Obs }}
	if c.Early {
		ctls.ClientSessionCache = cache
	}
	dial := func(early bool) (*quic.Conn, error) {
		switch {
		case c.Client == "plain":
			if early {
				return ct.DialEarly(ctx, sim.ServerAddr, ctls, conf())
			}
			return ct.Dial(ctx, sim.ServerAddr, ctls, conf())
		case c.Client == "unil":
			if early {
				return (&quic.UTransport{Transport: ct}).DialEarly(ctx, sim.ServerAddr, ctls, conf())
			}
			return (&quic.UTransport{Transport: ct}).Dial(ctx, sim.ServerAddr, ctls, conf())
		default:
			d := specgen.Desc{Base: strings.TrimPrefix(c.Client, "spec:")}
			if len(c.ClientWin) == 3 {
				kb := func(i int) uint64 { return uint64(c.ClientWin[i]) << 10 }
				d.TPs = []specgen.TPDesc{{K: "idle", N: 30000}, {K: "maxdata", N: 4 << 20}, {K: "bidi_local", N: kb(0)}, {K: "bidi_remote", N: kb(1)},
					{K: "uni", N: kb(2)}, {K: "streams_bidi", N: 100}, {K: "streams_uni", N: 100}, {K: "iscid"}, {K: "cidlimit", N: 4}, {K: "dgram", N: 65535}}
			}
			spec, e := d.Build()
			if e != nil {
				return nil, e
			}
			return (&quic.UTransport{Transport: ct, QUICSpec: spec}).Dial(ctx, sim.ServerAddr, ctls, conf())
		}
	}
	type accRes struct {
		conn *quic.Conn
		err  error
	}
	gotTicket := false
	if c.Early {
		// ---- preliminary connection (fault-free): session ticket for the measured one
		u.Class("early")
		pacc := make(chan accRes, 1)
		go func() {
			conn, err := ln.Accept(ctx)
			pacc <- accRes{conn, err}
		}()
		pconn, err := dial(false)
		if err != nil {
			cancel()
			<-pacc
			return vf.Bad("C01/harness/early-preliminary", "the preliminary connection (no faults) failed: %v", err)
		}
		select {
		case <-cache.puts:
			gotTicket = true
		case <-time.After(3 * time.Second):
		}
		par := <-pacc
		pconn.CloseWithError(0, "")
		time.Sleep(time.Duration(c.RTTms)*time.Millisecond + 100*time.Millisecond)
		if par.conn != nil {
			par.conn.CloseWithError(0, "") // normally closed by the client's CONNECTION_CLOSE already
		}
		time.Sleep(3 * time.Second) // closing / draining periods
		if !gotTicket {
			u.Class("early:no-ticket")
		}
		if reject {
			// the server stops accepting 0-RTT: same transport, same TLS configuration (ticket keys), new listener
			u.Class("early-reject")
			ln.Close()
			rconf := sconf.Clone()
			if c.EarlyRejectHow == "limits" {
				rconf.MaxIncomingStreams, rconf.MaxIncomingUniStreams = 60, 60
				u.Class("early-reject:by-lower-limits")
			} else {
				rconf.Allow0RTT = false
			}
			if ln, err = st.Listen(stls, rconf); err != nil {
				return vf.Bad("C01/harness/listen", "second listener: %v", err)
			}
		}
		mark = w.Router.ArmAll(c.Faults, c.Loss, bos)
	}
	traceOf := func() any {
		tr := w.Router.Trace(mark + 400)
		return tr[min(mark, len(tr)):]
	}
	// what the 0-RTT dimension exercised (counted for every outcome)
	used0RTT, rejectUnsent := false, false
	defer func() {
		if !c.Early || mark == 0 {
			return
		}
		if rejectUnsent {
			u.Class("early-reject:unsent-data-at-rejection")
		}
		if used0RTT {
			u.Class("early:0rtt-used")
		}
		demand := 0
		for _, s := range c.Streams {
			if s.Init == "c" {
				if s.CancelAt > 0 {
					demand += s.CancelAt
				} else {
					demand += s.Size
				}
			}
		}
		zeroRTTBytes, flightLost := 0, false
		has := func(cls []string, k string) bool {
			for _, x := range cls {
				if x == k {
					return true
				}
			}
			return false
		}
		tr := w.Router.Trace(1 << 30)
		for _, r := range tr[min(mark, len(tr)):] {
			if r.Forged {
				continue
			}
			if r.Dir == "c2s" && has(r.Class, "0rtt") {
				zeroRTTBytes += r.Len
			}
			if r.Dir == "s2c" && (has(r.Class, "initial") || has(r.Class, "handshake")) {
				switch {
				case r.Fate == "dropped" || r.Fate == "lost" || r.Fate == "blackout" || strings.HasPrefix(r.Fate, "flipped") || strings.HasPrefix(r.Fate, "truncated"):
					flightLost = true
				}
			}
		}
		// the initial congestion window is 32 packets of 1280 bytes: more was asked for, and the 0-RTT packets filled it
		beyond := demand > 34*1280 && zeroRTTBytes >= 26*1280
		if zeroRTTBytes > 0 {
			u.Class("early:0rtt-on-wire")
		}
		if beyond {
			u.Class("early:data-beyond-window")
		}
		if flightLost {
			u.Class("early:handshake-flight-lost")
		}
		if beyond && flightLost {
			u.Class("early:beyond-window+flight-lost")
		}
	}()

	type dialRes struct {
		conn *quic.Conn
		err  error
		at   time.Duration
	}
	dialCh := make(chan dialRes, 1)
	go func() {
		conn, err := dial(c.Early)
		dialCh <- dialRes{conn, err, w.Router.Now()}
	}()
	accCh := make(chan accRes, 1)
	go func() {
		conn, err := ln.Accept(ctx)
		accCh <- accRes{conn, err}
	}()
	dr := <-dialCh
	finish := func(v *vf.Verdict) *vf.Verdict {
		*trace = traceOf()
		return v
	}
	if dr.err != nil {
		cancel()
		<-accCh
		if wire {
			return finish(wireVerdict())
		}
		return finish(judgeFailure(c, w, "dial", dr.err, dr.at, hsIdle, idle, true, u))
	}
	cconn := dr.conn
	var wg sync.WaitGroup
	// first: the client's part of a 0-RTT attempt that is going to be rejected: its own results and bytes, only the
	// calls a client makes before it knows (open and write its streams, read the reverse directions)
	first := &attempt{o: &outcome{dgramsRx: map[string]int{}}, fwd: o.rejected}
	side := func(me *quic.Conn, mine string, att *attempt) {
		o, fwd, wg := o, fwd, &wg
		if att != nil {
			o, fwd, wg = att.o, att.fwd, &att.wg
		}
		// open my streams in order, accept the peer's in order
		var myIdx, peerBidi, peerUni []int
		for i, s := range c.Streams {
			if s.Init == mine {
				myIdx = append(myIdx, i)
			} else if s.Uni {
				peerUni = append(peerUni, i)
			} else {
				peerBidi = append(peerBidi, i)
			}
		}
		wg.Add(1)
		go func() { // opener
			defer wg.Done()
			for _, i := range myIdx {
				s := c.Streams[i]
				r := &streamResult{idx: i, dir: "fwd"}
				o.mu.Lock()
				o.results = append(o.results, r)
				o.mu.Unlock()
				if s.Uni {
					str, err := me.OpenUniStreamSync(ctx)
					if err != nil {
						r.writeErr = err
						continue
					}
					r.opened = true
					wg.Add(1)
					go func() { defer wg.Done(); writeAll(str, fwd[i], s.Chunks, s.NoClose, s.CancelAt, r) }()
				} else {
					str, err := me.OpenStreamSync(ctx)
					if err != nil {
						r.writeErr = err
						continue
					}
					r.opened = true
					wg.Add(2)
					go func() { defer wg.Done(); writeAll(str, fwd[i], s.Chunks, s.NoClose, s.CancelAt, r) }()
					rr := &streamResult{idx: i, dir: "rev"}
					o.mu.Lock()
					o.results = append(o.results, rr)
					o.mu.Unlock()
					go func() {
						defer wg.Done()
						readAll(str, rev[i], s.ReadBuf, rr, o, fmt.Sprintf("stream %d (reverse direction, read by %s)", i, mine))
					}()
				}
			}
		}()
		if att != nil {
			return
		}
		wg.Add(2)
		go func() { // bidi acceptor
			defer wg.Done()
			for _, i := range peerBidi {
				s := c.Streams[i]
				str, err := me.AcceptStream(ctx)
				r := &streamResult{idx: i, dir: "fwd-read"}
				o.mu.Lock()
				o.results = append(o.results, r)
				o.mu.Unlock()
				if err != nil {
					r.readErr = err
					return
				}
				wg.Add(2)
				go func() {
					defer wg.Done()
					readAll(str, fwd[i], s.ReadBuf, r, o, fmt.Sprintf("stream %d (bidi, read by %s)", i, mine))
				}()
				rw := &streamResult{idx: i, dir: "rev-write"}
				o.mu.Lock()
				o.results = append(o.results, rw)
				o.mu.Unlock()
				go func() { defer wg.Done(); writeAll(str, rev[i], []int{1200, 5000}, false, 0, rw) }()
			}
		}()
		go func() { // uni acceptor
			defer wg.Done()
			for _, i := range peerUni {
				s := c.Streams[i]
				str, err := me.AcceptUniStream(ctx)
				r := &streamResult{idx: i, dir: "fwd-read"}
				o.mu.Lock()
				o.results = append(o.results, r)
				o.mu.Unlock()
				if err != nil {
					r.readErr = err
					return
				}
				wg.Add(1)
				go func() {
					defer wg.Done()
					readAll(str, fwd[i], s.ReadBuf, r, o, fmt.Sprintf("stream %d (uni, read by %s)", i, mine))
				}()
			}
		}()
		if c.Datagrams > 0 {
			wg.Add(2)
			go func() {
				defer wg.Done()
				// every message is formatted into one scratch buffer that is overwritten as soon as SendDatagram has
				// returned (a relay does that): the connection has to own what it queued
				var scratch []byte
				for k := 0; k < c.Datagrams; k++ {
					scratch = append(scratch[:0], fmt.Sprintf("%s-%d-", mine, k)...)
					scratch = append(scratch, pattern(c.Seed, 1000+k, 5+k*70)...)
					err := me.SendDatagram(scratch)
					for i := range scratch {
						scratch[i] = 'X'
					}
					if err != nil {
						return
					}
					if c.Seed%3 != 0 {
						time.Sleep(time.Millisecond) // a third of the cases send the datagrams as one burst
					}
				}
			}()
			go func() {
				defer wg.Done()
				for {
					m, err := me.ReceiveDatagram(ctx)
					if err != nil {
						return
					}
					o.mu.Lock()
					o.dgramsRx[mine+"<"+string(m)]++
					o.mu.Unlock()
				}
			}()
		}
	}
	var ar accRes
	if c.Early {
		// the client's part of the scenario starts before the handshake has completed
		if reject {
			side(cconn, "c", first)
		} else {
			side(cconn, "c", nil)
		}
		select {
		case ar = <-accCh:
		case <-cconn.Context().Done():
			// the client gave up before the server's handshake completed
			// Accept has not returned: the server's handshake never completed, so the server was subject to its
			// handshake idle timeout whatever the client's view of the handshake is (with 0-RTT the client may
			// have completed it and run into its own, longer idle timeout talking to a server that gave up)
			cerr, at, hs := context.Cause(cconn.Context()), w.Router.Now(), true
			used0RTT = cconn.ConnectionState().Used0RTT
			zeroRTTAccepted = used0RTT
			cancel()
			if r := <-accCh; r.conn != nil {
				r.conn.CloseWithError(0, "")
			}
			wg.Wait()
			first.wg.Wait()
			if wire {
				return finish(wireVerdict())
			}
			if o.verdict != nil {
				return finish(o.verdict)
			}
			v := judgeFailure(c, w, "client", cerr, at, hsIdle, idle, hs, u)
			if v != nil && v.Sig == sigStallTimeout {
				if kind, why := earlyStallKind(w, mark, hsIdle); kind != "" {
					v.Sig, v.Detail = kind, why+"; "+v.Detail
				}
			}
			return finish(v)
		}
	} else {
		ar = <-accCh
	}
	if ar.err != nil {
		at := w.Router.Now()
		cconn.CloseWithError(0, "")
		cancel()
		wg.Wait()
		first.wg.Wait()
		if wire {
			return finish(wireVerdict())
		}
		return finish(judgeFailure(c, w, "accept", ar.err, at, hsIdle, idle, true, u))
	}
	sconn := ar.conn
	if !c.Early {
		side(cconn, "c", nil)
	}
	side(sconn, "s", nil)
	if reject {
		// Accept returned: the server's handshake is complete, the client's completes with the server's Finished at the
		// latest. What an application does (interface.go, Err0RTTRejected / NextConnection): see that 0-RTT was not
		// used, wait for its calls to fail, call NextConnection, start over.
		select {
		case <-cconn.HandshakeComplete():
		case <-cconn.Context().Done():
		}
		switch {
		case cconn.Context().Err() != nil:
			// judged below like any connection failure
		case cconn.ConnectionState().Used0RTT:
			// the server accepted 0-RTT although its configuration changed: not C01's business (C13 decides that), and
			// the rest of the scenario is meaningless
			u.Class("early-reject:accepted-anyway")
			used0RTT = true
			cconn.CloseWithError(0, "done")
			sconn.CloseWithError(0, "done")
			cancel()
			wg.Wait()
			first.wg.Wait()
			return finish(nil)
		default:
			firstDone := make(chan struct{})
			go func() { first.wg.Wait(); close(firstDone) }()
			if !sim.WaitCtx(firstDone, 60*time.Second) && cconn.Context().Err() == nil {
				v := vf.Bad("C01/early-reject/call-not-unblocked", "0-RTT was rejected and the handshake is complete, but 60 s later a stream call of the rejected attempt has still not returned (documented: they fail with Err0RTTRejected); first attempt: %s", summarize(first.o))
				cconn.CloseWithError(0, "done")
				sconn.CloseWithError(0, "done")
				cancel()
				wg.Wait()
				first.wg.Wait()
				if wire {
					return finish(wireVerdict())
				}
				return finish(v)
			}
			first.o.mu.Lock()
			for _, r := range first.o.results {
				if r.dir == "fwd" && r.opened && errors.Is(r.writeErr, quic.Err0RTTRejected) && r.wrote < len(first.fwd[r.idx]) {
					// a Write (or the Open before it) was cut short by the rejection: the stream still had data to send
					rejectUnsent = true
				}
			}
			first.o.mu.Unlock()
			if nconn, err := cconn.NextConnection(ctx); err == nil && nconn != nil && cconn.Context().Err() == nil {
				side(nconn, "c", nil)
			}
		}
	}

	// Streams the acceptor never learns about (NoClose + size 0) cannot be waited for: the generator always
	// writes or closes. Wait for all transfers, bounded in virtual time.
	done := make(chan struct{})
	go func() {
		// datagram receivers only end with the connection: wait for the stream work first
		wgStreams(&wg, c, o, cconn, sconn, done)
	}()
	// A stall is the absence of progress, not slowness (2 MiB written 24 bytes at a time over a 200 ms path takes
	// minutes): the transfers are stalled when no reader received a byte and no writer finished for 60 s of virtual
	// time - longer than any configured idle timeout - while neither connection reports an error.
	progress := func() int {
		o.mu.Lock()
		defer o.mu.Unlock()
		n := 0
		for _, r := range o.results {
			n += r.got + r.wrote
			if r.eof || r.closed || r.cancelled {
				n++
			}
		}
		return n
	}
	stalled := false
	for last, idleFor := progress(), time.Duration(0); ; {
		if sim.WaitCtx(done, 20*time.Second) {
			break
		}
		if now := progress(); now != last {
			last, idleFor = now, 0
		} else if idleFor += 20 * time.Second; idleFor >= 60*time.Second {
			stalled = true
			break
		}
	}
	cerr, serr := context.Cause(cconn.Context()), context.Cause(sconn.Context())
	endAt := w.Router.Now()
	used0RTT = cconn.ConnectionState().Used0RTT
	zeroRTTAccepted = used0RTT
	if cerr == nil && serr == nil {
		aliveUntil = endAt
	}
	cconn.CloseWithError(0, "done")
	sconn.CloseWithError(0, "done")
	cancel()
	wg.Wait()
	first.wg.Wait()
	*trace = traceOf()

	if wire {
		v := wireVerdict()
		wireClasses(w, u) // after WireCheck: includes its counters
		if v != nil {
			return v
		}
		if len(w.Router.AppliedFaults()) > 0 {
			u.NonTrivial(c.Client, c.V2, len(c.Streams), strings.Join(w.Router.AppliedFaults(), ","))
		}
		if u.WantSample() && len(w.Router.AppliedFaults()) > 1 {
			u.Sample(c)
		}
		return nil
	}
	if o.verdict != nil {
		return o.verdict
	}
	// datagrams: delivered ones are unmodified (content is self-describing) and at most once
	for k, n := range o.dgramsRx {
		if n > 1 {
			carriers := ""
			if observed {
				msg := []byte(strings.SplitN(k, "<", 2)[1])
				for _, rec := range w.Router.Log {
					pk, _ := rec.Pkts.([]*sim.Packet)
					for _, p := range pk {
						for _, f := range p.Frames {
							if f.Name == refwire.NameDatagram && bytes.Equal(f.Data, msg) {
								carriers += fmt.Sprintf(" [#%d %s t=%v %s pn=%d fate=%s delivered=%v]", rec.Seq, rec.Dir, rec.T, p.Kind, p.PN, rec.Fate, rec.Dlv)
							}
						}
					}
				}
				carriers = "; packets that carried it:" + carriers
			}
			return vf.Bad("C01/datagram/duplicate", "application datagram %q delivered %d times%s", k[:min(len(k), 40)], n, carriers)
		}
		parts := strings.SplitN(k, "<", 2)
		var from string
		var idx int
		if _, err := fmt.Sscanf(parts[1], "%1s-%d-", &from, &idx); err != nil || from == parts[0] || idx < 0 || idx >= c.Datagrams {
			return vf.Bad("C01/datagram/modified", "received datagram %q that the peer never sent", k[:min(len(k), 40)])
		}
		want := append([]byte(fmt.Sprintf("%s-%d-", from, idx)), pattern(c.Seed, 1000+idx, 5+idx*70)...)
		if string(want) != parts[1] {
			return vf.Bad("C01/datagram/modified", "datagram %d from %s arrived modified", idx, from)
		}
	}
	// per-stream EOF discipline
	writers := map[string]*streamResult{}
	for _, r := range o.results {
		if r.dir == "fwd" || r.dir == "rev-write" {
			writers[fmt.Sprintf("%d/%v", r.idx, r.dir == "fwd")] = r
		}
	}
	complete := true
	for _, r := range o.results {
		if r.dir != "fwd-read" && r.dir != "rev" {
			continue
		}
		wr := writers[fmt.Sprintf("%d/%v", r.idx, r.dir == "fwd-read")]
		total := c.Streams[r.idx].Size
		if r.dir == "rev" {
			total = c.Streams[r.idx].RevSize
		}
		if r.eof {
			if wr == nil || !wr.closed || r.got != wr.wrote || r.got != total {
				return vf.Bad("C01/stream/early-eof", "stream %d %s: reader saw EOF after %d bytes; writer wrote %v closed=%v of %d", r.idx, r.dir, r.got, wrote(wr), wr != nil && wr.closed, total)
			}
		} else {
			expectIncomplete := wr != nil && (wr.cancelled || (c.Streams[r.idx].NoClose && r.dir == "fwd-read"))
			if !expectIncomplete {
				complete = false
			}
		}
	}
	for _, wr := range writers {
		if wr.writeErr != nil {
			complete = false
		}
	}
	if len(o.results) == 0 {
		complete = false
	}
	nt := func() {
		applied := w.Router.AppliedFaults()
		hit := false
		for _, a := range applied {
			if strings.Contains(a, "/initial/") || strings.Contains(a, "/handshake/") || strings.Contains(a, "/1rtt/") {
				hit = true
			}
		}
		big := false
		for _, s := range c.Streams {
			if s.Size > 2500 || s.RevSize > 2500 {
				big = true
			}
		}
		sort.Strings(applied)
		u.Class("client:" + strings.SplitN(c.Client, ":", 2)[0])
		if len(applied) > 0 {
			u.Class("fault-applied")
		}
		if hit && big {
			u.NonTrivial(c.Client, c.V2, len(c.Streams), strings.Join(applied, ","))
		}
	}
	if complete && cerr == nil && serr == nil && !stalled {
		if reject {
			u.Class("early-reject:next-connection-completed")
		}
		u.Class("completed")
		nt()
		if u.WantSample() && len(w.Router.AppliedFaults()) > 0 {
			u.Sample(c)
		}
		return nil
	}
	// something did not complete: it must be justified by the network
	if cerr == nil && serr == nil {
		if stalled {
			return vf.Bad("C01/liveness/stall", "no reader received a byte and no writer finished for 60 s of virtual time although neither connection reports an error; results: %s", summarize(o))
		}
		return vf.Bad("C01/liveness/incomplete", "all calls returned, neither connection reports an error, but transfers are incomplete: %s", summarize(o))
	}
	which, e := "client", cerr
	if cerr == nil {
		which, e = "server", serr
	}
	return judgeFailure(c, w, which, e, endAt, hsIdle, idle, false, u)
}

func wrote(r *streamResult) any {
	if r == nil {
		return "?"
	}
	return r.wrote
}

func summarize(o *outcome) string {
	var sb strings.Builder
	o.mu.Lock()
	defer o.mu.Unlock()
	for _, r := range o.results {
		fmt.Fprintf(&sb, "[#%d %s got=%d eof=%v rerr=%v wrote=%d closed=%v werr=%v] ", r.idx, r.dir, r.got, r.eof, r.readErr, r.wrote, r.closed, r.writeErr)
	}
	return sb.String()
}

func wgStreams(wg *sync.WaitGroup, c Case, o *outcome, cconn, sconn *quic.Conn, done chan struct{}) {
	// poll (virtual time) until every expected reader has finished and every writer returned
	expectReaders := 0
	for _, s := range c.Streams {
		expectReaders++
		if !s.Uni {
			expectReaders++
		}
	}
	for {
		o.mu.Lock()
		fin := 0
		wfin := 0
		for _, r := range o.results {
			if (r.dir == "fwd-read" || r.dir == "rev") && (r.eof || r.readErr != nil) {
				fin++
			}
			if (r.dir == "fwd" || r.dir == "rev-write") && (r.closed || r.cancelled || r.writeErr != nil || (c.Streams[r.idx].NoClose && r.wrote == c.Streams[r.idx].Size)) {
				wfin++
			}
		}
		bad := o.verdict != nil
		o.mu.Unlock()
		// readers of NoClose streams never finish: count those whose data is complete
		if bad || (fin >= expectReaders-noCloseReaders(c, o) && wfin >= expectReaders) {
			close(done)
			return
		}
		if cconn.Context().Err() != nil || sconn.Context().Err() != nil {
			close(done)
			return
		}
		time.Sleep(20 * time.Millisecond)
	}
}

func noCloseReaders(c Case, o *outcome) int {
	n := 0
	o.mu.Lock()
	defer o.mu.Unlock()
	for _, r := range o.results {
		if r.dir == "fwd-read" && !r.eof && r.readErr == nil {
			s := c.Streams[r.idx]
			if (s.NoClose && r.got == s.Size) || s.CancelAt > 0 {
				n++
			}
		}
	}
	return n
}

// judgeFailure decides whether a connection-level failure is justified by what the network did.
func judgeFailure(c Case, w *sim.World, who string, err error, at time.Duration, hsIdle, idle time.Duration, handshake bool, u *vf.Unit) *vf.Verdict {
	isIdle, isHS := isTimeout(err)
	if !isIdle && !isHS {
		if errors.Is(err, context.DeadlineExceeded) || errors.Is(err, context.Canceled) {
			isHS = true // Dial/Accept gave up on the harness' 150 s context
		} else {
			sig := "C01/conn/unjustified-error"
			if c.Early && c.EarlyReject {
				// same criterion, own label: the connection returned by NextConnection after a rejected 0-RTT attempt
				sig = "C01/early-reject/connection-error"
			}
			return vf.Bad(sig, "%s failed with %v although the network only lost / duplicated / delayed / corrupted datagrams (faults applied: %v)", who, err, w.Router.AppliedFaults())
		}
	}
	// A timeout is justified only if the endpoint that gave up received no intact datagram for the whole
	// timeout period AND the network actually lost something in that period (a connection that goes quiet
	// with unfinished transfers although nothing was lost is a stall, not a dead path).
	limit := idle
	if handshake && hsIdle < limit {
		limit = hsIdle
	}
	dirToE := "s2c"
	if who == "server" || who == "accept" {
		dirToE = "c2s"
	}
	rtt := time.Duration(c.RTTms) * time.Millisecond
	ctxGaveUp := errors.Is(err, context.DeadlineExceeded) || errors.Is(err, context.Canceled)
	if !ctxGaveUp && !isHS && !handshake { // during the handshake an intact datagram may still be undecryptable (keys not yet available)
		if intact, _, _ := w.Router.Silence(dirToE, at-limit+rtt+100*time.Millisecond, at-50*time.Millisecond); intact > 0 {
			return vf.Bad("C01/liveness/unjustified-timeout", "%s reports %v at %v although %d intact datagrams were delivered to it during the preceding timeout period (%v); faults applied: %v", who, err, at, intact, limit, w.Router.AppliedFaults())
		}
	}
	// PTO back-off can at most double a silence, so a timeout needs the path to have been dead for > limit/2;
	// anything with a dead stretch >= limit/3 is accepted as justified, less is a stall.
	dead := w.Router.DeadStretch(at)
	if dead < limit/3 {
		return vf.Bad(sigStallTimeout, "%s reports %v at %v, but the longest stretch during which the network delivered nothing intact in a direction while losing datagrams was only %v (timeout %v): transfers stalled although the path was alive; faults applied: %v", who, err, at, dead, limit, w.Router.AppliedFaults())
	}
	u.Class("justified-timeout")
	return nil
}

const (
	sigStallTimeout = "C01/liveness/stall-then-timeout"
	// A 0-RTT handshake that stalled on a living path although the server's Finished had reached the client: the client
	// never sent its own Finished (a Handshake packet with a CRYPTO frame). The two kinds have different causes:
	// with 0-RTT packets still unacknowledged the client may be congestion limited (its Finished waits for a window
	// that only acknowledgements or a probe timeout can open); with everything acknowledged nothing at all holds it back.
	sigEarlyNothingInFlight = "C01/liveness/early-finished-unsent/nothing-in-flight"
	sigEarly0RTTInFlight    = "C01/liveness/early-finished-unsent/0rtt-in-flight"
	// The client did send its Finished, but later after the arrival of the server's Finished than the server's
	// handshake idle timeout lasts: nobody is left to receive it (the anti-deadlock probe timeout is the only thing that
	// lets a congestion-limited client send it, and its back-off is not reset before address validation).
	sigEarlyFinishedLate = "C01/liveness/early-finished-late"
)

// earlyStallKind reads the decoded wire log of the measured connection (from log position mark).
func earlyStallKind(w *sim.World, mark int, hsIdle time.Duration) (sig, why string) {
	tr := w.Router.Trace(1 << 30)
	sent := map[uint64]bool{} // ack-eliciting 0-RTT / 1-RTT packets of the client
	var acked []refwire.AckRange
	n0rtt, serverFin, clientFin := 0, false, false
	var tServerFin, tClientFin time.Duration
	for _, rec := range tr[min(mark, len(tr)):] {
		if rec.Forged {
			continue
		}
		pk, _ := rec.Pkts.([]*sim.Packet)
		intact := len(rec.Dlv) > 0 && !rec.Mutated
		for _, p := range pk {
			hasCrypto := false
			for _, f := range p.Frames {
				if f.Name == refwire.NameCrypto {
					hasCrypto = true
				}
			}
			switch {
			case rec.Dir == "c2s" && (p.Kind == "0rtt" || p.Kind == "1rtt"):
				if p.Kind == "0rtt" {
					n0rtt++
				}
				if p.AckEliciting {
					sent[p.PN] = true
				}
			case rec.Dir == "c2s" && p.Kind == "handshake" && hasCrypto:
				if !clientFin {
					clientFin, tClientFin = true, rec.T
				}
			case rec.Dir == "s2c" && p.Kind == "handshake" && hasCrypto && intact:
				if !serverFin || rec.Dlv[0] < tServerFin {
					serverFin, tServerFin = true, rec.Dlv[0]
				}
			case rec.Dir == "s2c" && p.Kind == "1rtt" && intact:
				for _, f := range p.Frames {
					if f.Name == refwire.NameAck {
						acked = append(acked, f.AckRanges...)
					}
				}
			}
		}
	}
	if n0rtt == 0 || !serverFin {
		return "", ""
	}
	if clientFin {
		if d := tClientFin - tServerFin; d >= hsIdle {
			return sigEarlyFinishedLate, fmt.Sprintf("0-RTT handshake: the server's Handshake CRYPTO data reached the client at %v, the client's first Handshake packet with CRYPTO data (its Finished) left at %v, %v later - more than the server's handshake idle timeout (%v)", tServerFin, tClientFin, d, hsIdle)
		}
		return "", ""
	}
	unacked := 0
	for pn := range sent {
		ok := false
		for _, rg := range acked {
			if rg.Smallest <= pn && pn <= rg.Largest {
				ok = true
				break
			}
		}
		if !ok {
			unacked++
		}
	}
	if unacked == 0 {
		return sigEarlyNothingInFlight, fmt.Sprintf("0-RTT handshake: the server's Handshake CRYPTO data was delivered to the client, every one of the client's %d ack-eliciting 0-RTT/1-RTT packets was acknowledged in 1-RTT packets delivered to it, but the client never sent a Handshake packet with CRYPTO data (its Finished)", len(sent))
	}
	return sigEarly0RTTInFlight, fmt.Sprintf("0-RTT handshake: the server's Handshake CRYPTO data was delivered to the client, %d of the client's %d ack-eliciting 0-RTT/1-RTT packets were never acknowledged in a 1-RTT packet delivered to it, and the client never sent a Handshake packet with CRYPTO data (its Finished)", unacked, len(sent))
}

// longestSilence returns the longest interval up to 'until' during which one of the endpoints was sent
// datagrams by its peer... more precisely: the longest gap between two consecutive intact deliveries to the
// same endpoint (or from start / to the end), taking the maximum over both endpoints.
func longestSilence(w *sim.World, until time.Duration) time.Duration {
	var longest time.Duration
	for _, dir := range []string{"c2s", "s2c"} {
		last := time.Duration(0)
		for _, r := range w.Router.Trace(1 << 20) {
			if r.Dir != dir || r.T > until {
				continue
			}
			ok := r.Fate == "delivered" || strings.HasPrefix(r.Fate, "dup") || strings.HasPrefix(r.Fate, "delayed")
			if ok {
				if r.T-last > longest {
					longest = r.T - last
				}
				last = r.T
			}
		}
		if until-last > longest {
			longest = until - last
		}
	}
	return longest
}

// wireClasses labels what the observer saw (coverage of the wire-level units).
func wireClasses(w *sim.World, u *vf.Unit) {
	o := w.Obs
	if o == nil {
		return
	}
	var n1rtt, n0rtt, nAck, nKU, nStream, nMax int
	for d := 0; d < 2; d++ {
		for _, p := range o.Packets[d] {
			if p.Kind == "1rtt" {
				n1rtt++
			}
			if p.Kind == "0rtt" {
				n0rtt++ // opened by the observer with the early traffic secret it derived from the resumption PSK
			}
			if p.KeyGen > 0 {
				nKU++
			}
			for _, f := range p.Names {
				switch f {
				case "ACK":
					nAck++
				case "STREAM":
					nStream++
				case "MAX_DATA", "MAX_STREAM_DATA":
					nMax++
				}
			}
		}
	}
	u.ClassN("packets-1rtt", n1rtt)
	u.ClassN("packets-0rtt", n0rtt)
	for k, v := range w.Judged {
		u.ClassN("opened-by-peer:"+k, v)
	}
	u.ClassN("frames-ack", nAck)
	u.ClassN("frames-stream", nStream)
	u.ClassN("frames-max", nMax)
	if nKU > 0 {
		u.Class("key-update-seen")
	}
	if nMax > 0 {
		u.Class("window-update-seen")
	}
}
