package refcrypto

import (
	"bytes"
	"crypto/sha256"
	"crypto/sha512"
	"encoding/hex"
	"io"
	"math/rand"
	"strings"
	"testing"

	"golang.org/x/crypto/hkdf"
)

func hx(t testing.TB, s string) []byte {
	t.Helper()
	s = strings.NewReplacer(" ", "", "\n", "", "\t", "").Replace(s)
	b, err := hex.DecodeString(s)
	if err != nil {
		t.Fatalf("bad hex: %v", err)
	}
	return b
}

func eq(t *testing.T, what string, got, want []byte) {
	t.Helper()
	if !bytes.Equal(got, want) {
		t.Fatalf("%s:\n got  %x\n want %x", what, got, want)
	}
}

var dcid = "8394c8f03e515708"

// RFC 9001 A.1 / RFC 9369 A.1
func TestInitialKeysVectors(t *testing.T) {
	// v1
	initial := HKDFExtract(TLS_AES_128_GCM_SHA256, hx(t, dcid), InitialSalt(V1))
	eq(t, "v1 initial_secret", initial, hx(t, "7db5df06e7a69e432496adedb00851923595221596ae2ae9fb8115c1e9ed0a44"))
	cs, ss := InitialSecrets(V1, hx(t, dcid))
	eq(t, "v1 client secret", cs, hx(t, "c00cf151ca5be075ed0ebfb5c80323c42d6b7db67881289af4008f1f6c357aea"))
	eq(t, "v1 server secret", ss, hx(t, "3c199828fd139efd216c155ad844cc81fb82fa8d7446fa7d78be803acdda951b"))
	ck := DeriveKeys(TLS_AES_128_GCM_SHA256, V1, cs)
	eq(t, "v1 client key", ck.Key, hx(t, "1f369613dd76d5467730efcbe3b1a22d"))
	eq(t, "v1 client iv", ck.IV, hx(t, "fa044b2f42a3fd3b46fb255c"))
	eq(t, "v1 client hp", ck.HP, hx(t, "9f50449e04a0e810283a1e9933adedd2"))
	sk := DeriveKeys(TLS_AES_128_GCM_SHA256, V1, ss)
	eq(t, "v1 server key", sk.Key, hx(t, "cf3a5331653c364c88f0f379b6067e37"))
	eq(t, "v1 server iv", sk.IV, hx(t, "0ac1493ca1905853b0bba03e"))
	eq(t, "v1 server hp", sk.HP, hx(t, "c206b8d9b9f0f37644430b490eeaa314"))
	// v2
	cs, ss = InitialSecrets(V2, hx(t, dcid))
	eq(t, "v2 client secret", cs, hx(t, "14ec9d6eb9fd7af83bf5a668bc17a7e283766aade7ecd0891f70f9ff7f4bf47b"))
	eq(t, "v2 server secret", ss, hx(t, "0263db1782731bf4588e7e4d93b7463907cb8cd8200b5da55a8bd488eafc37c1"))
	ck = DeriveKeys(TLS_AES_128_GCM_SHA256, V2, cs)
	eq(t, "v2 client key", ck.Key, hx(t, "8b1a0bc121284290a29e0971b5cd045d"))
	eq(t, "v2 client iv", ck.IV, hx(t, "91f73e2351d8fa91660e909f"))
	sk = DeriveKeys(TLS_AES_128_GCM_SHA256, V2, ss)
	eq(t, "v2 server key", sk.Key, hx(t, "82db637861d55e1d011f19ea71d5d2a7"))
	eq(t, "v2 server iv", sk.IV, hx(t, "dd13c276499c0249d3310652"))
}

const clientHelloCrypto = `060040f1010000ed0303ebf8fa56f129 39b9584a3896472ec40bb863cfd3e868 04fe3a47f06a2b69484c000004130113 02010000c000000010000e00000b6578 616d706c652e636f6dff01000100000a 00080006001d00170018001000070005 04616c706e0005000501000000000033 00260024001d00209370b2c9caa47fba baf4559fedba753de171fa71f50f1ce1 5d43e994ec74d748002b000302030400 0d0010000e0403050306030203080408 050806002d00020101001c0002400100 3900320408ffffffffffffffff050480 00ffff07048000ffff08011001048000 75300901100f088394c8f03e51570806 048000ffff`

const clientInitialV1 = `c000000001088394c8f03e5157080000 449e7b9aec34d1b1c98dd7689fb8ec11 d242b123dc9bd8bab936b47d92ec356c 0bab7df5976d27cd449f63300099f399 1c260ec4c60d17b31f8429157bb35a12 82a643a8d2262cad67500cadb8e7378c 8eb7539ec4d4905fed1bee1fc8aafba1 7c750e2c7ace01e6005f80fcb7df6212 30c83711b39343fa028cea7f7fb5ff89 eac2308249a02252155e2347b63d58c5 457afd84d05dfffdb20392844ae81215 4682e9cf012f9021a6f0be17ddd0c208 4dce25ff9b06cde535d0f920a2db1bf3 62c23e596d11a4f5a6cf3948838a3aec 4e15daf8500a6ef69ec4e3feb6b1d98e 610ac8b7ec3faf6ad760b7bad1db4ba3 485e8a94dc250ae3fdb41ed15fb6a8e5 eba0fc3dd60bc8e30c5c4287e53805db 059ae0648db2f64264ed5e39be2e20d8 2df566da8dd5998ccabdae053060ae6c 7b4378e846d29f37ed7b4ea9ec5d82e7 961b7f25a9323851f681d582363aa5f8 9937f5a67258bf63ad6f1a0b1d96dbd4 faddfcefc5266ba6611722395c906556 be52afe3f565636ad1b17d508b73d874 3eeb524be22b3dcbc2c7468d54119c74 68449a13d8e3b95811a198f3491de3e7 fe942b330407abf82a4ed7c1b311663a c69890f4157015853d91e923037c227a 33cdd5ec281ca3f79c44546b9d90ca00 f064c99e3dd97911d39fe9c5d0b23a22 9a234cb36186c4819e8b9c5927726632 291d6a418211cc2962e20fe47feb3edf 330f2c603a9d48c0fcb5699dbfe58964 25c5bac4aee82e57a85aaf4e2513e4f0 5796b07ba2ee47d80506f8d2c25e50fd 14de71e6c418559302f939b0e1abd576 f279c4b2e0feb85c1f28ff18f58891ff ef132eef2fa09346aee33c28eb130ff2 8f5b766953334113211996d20011a198 e3fc433f9f2541010ae17c1bf202580f 6047472fb36857fe843b19f5984009dd c324044e847a4f4a0ab34f719595de37 252d6235365e9b84392b061085349d73 203a4a13e96f5432ec0fd4a1ee65accd d5e3904df54c1da510b0ff20dcc0c77f cb2c0e0eb605cb0504db87632cf3d8b4 dae6e705769d1de354270123cb11450e fc60ac47683d7b8d0f811365565fd98c 4c8eb936bcab8d069fc33bd801b03ade a2e1fbc5aa463d08ca19896d2bf59a07 1b851e6c239052172f296bfb5e724047 90a2181014f3b94a4e97d117b4381303 68cc39dbb2d198065ae3986547926cd2 162f40a29f0c3c8745c0f50fba3852e5 66d44575c29d39a03f0cda721984b6f4 40591f355e12d439ff150aab7613499d bd49adabc8676eef023b15b65bfc5ca0 6948109f23f350db82123535eb8a7433 bdabcb909271a6ecbcb58b936a88cd4e 8f2e6ff5800175f113253d8fa9ca8885 c2f552e657dc603f252e1a8e308f76f0 be79e2fb8f5d5fbbe2e30ecadd220723 c8c0aea8078cdfcb3868263ff8f09400 54da48781893a7e49ad5aff4af300cd8 04a6b6279ab3ff3afb64491c85194aab 760d58a606654f9f4400e8b38591356f bf6425aca26dc85244259ff2b19c41b9 f96f3ca9ec1dde434da7d2d392b905dd f3d1f9af93d1af5950bd493f5aa731b4 056df31bd267b6b90a079831aaf579be 0a39013137aac6d404f518cfd4684064 7e78bfe706ca4cf5e9c5453e9f7cfd2b 8b4c8d169a44e55c88d4a9a7f9474241 e221af44860018ab0856972e194cd934`

const clientInitialV2 = `d76b3343cf088394c8f03e5157080000 449ea0c95e82ffe67b6abcdb4298b485 dd04de806071bf03dceebfa162e75d6c 96058bdbfb127cdfcbf903388e99ad04 9f9a3dd4425ae4d0992cfff18ecf0fdb 5a842d09747052f17ac2053d21f57c5d 250f2c4f0e0202b70785b7946e992e58 a59ac52dea6774d4f03b55545243cf1a 12834e3f249a78d395e0d18f4d766004 f1a2674802a747eaa901c3f10cda5500 cb9122faa9f1df66c392079a1b40f0de 1c6054196a11cbea40afb6ef5253cd68 18f6625efce3b6def6ba7e4b37a40f77 32e093daa7d52190935b8da58976ff33 12ae50b187c1433c0f028edcc4c2838b 6a9bfc226ca4b4530e7a4ccee1bfa2a3 d396ae5a3fb512384b2fdd851f784a65 e03f2c4fbe11a53c7777c023462239dd 6f7521a3f6c7d5dd3ec9b3f233773d4b 46d23cc375eb198c63301c21801f6520 bcfb7966fc49b393f0061d974a2706df 8c4a9449f11d7f3d2dcbb90c6b877045 636e7c0c0fe4eb0f697545460c806910 d2c355f1d253bc9d2452aaa549e27a1f ac7cf4ed77f322e8fa894b6a83810a34 b361901751a6f5eb65a0326e07de7c12 16ccce2d0193f958bb3850a833f7ae43 2b65bc5a53975c155aa4bcb4f7b2c4e5 4df16efaf6ddea94e2c50b4cd1dfe060 17e0e9d02900cffe1935e0491d77ffb4 fdf85290fdd893d577b1131a610ef6a5 c32b2ee0293617a37cbb08b847741c3b 8017c25ca9052ca1079d8b78aebd4787 6d330a30f6a8c6d61dd1ab5589329de7 14d19d61370f8149748c72f132f0fc99 f34d766c6938597040d8f9e2bb522ff9 9c63a344d6a2ae8aa8e51b7b90a4a806 105fcbca31506c446151adfeceb51b91 abfe43960977c87471cf9ad4074d30e1 0d6a7f03c63bd5d4317f68ff325ba3bd 80bf4dc8b52a0ba031758022eb025cdd 770b44d6d6cf0670f4e990b22347a7db 848265e3e5eb72dfe8299ad7481a4083 22cac55786e52f633b2fb6b614eaed18 d703dd84045a274ae8bfa73379661388 d6991fe39b0d93debb41700b41f90a15 c4d526250235ddcd6776fc77bc97e7a4 17ebcb31600d01e57f32162a8560cacc 7e27a096d37a1a86952ec71bd89a3e9a 30a2a26162984d7740f81193e8238e61 f6b5b984d4d3dfa033c1bb7e4f0037fe bf406d91c0dccf32acf423cfa1e70710 10d3f270121b493ce85054ef58bada42 310138fe081adb04e2bd901f2f13458b 3d6758158197107c14ebb193230cd115 7380aa79cae1374a7c1e5bbcb80ee23e 06ebfde206bfb0fcbc0edc4ebec30966 1bdd908d532eb0c6adc38b7ca7331dce 8dfce39ab71e7c32d318d136b6100671 a1ae6a6600e3899f31f0eed19e3417d1 34b90c9058f8632c798d4490da498730 7cba922d61c39805d072b589bd52fdf1 e86215c2d54e6670e07383a27bbffb5a ddf47d66aa85a0c6f9f32e59d85a44dd 5d3b22dc2be80919b490437ae4f36a0a e55edf1d0b5cb4e9a3ecabee93dfc6e3 8d209d0fa6536d27a5d6fbb17641cde2 7525d61093f1b28072d111b2b4ae5f89 d5974ee12e5cf7d5da4d6a31123041f3 3e61407e76cffcdcfd7e19ba58cf4b53 6f4c4938ae79324dc402894b44faf8af bab35282ab659d13c93f70412e85cb19 9a37ddec600545473cfb5a05e08d0b20 9973b2172b4d21fb69745a262ccde96b a18b2faa745b6fe189cf772a9f84cbfc`

const serverHelloCrypto = `02000000000600405a020000560303ee fce7f7b37ba1d1632e96677825ddf739 88cfc79825df566dc5430b9a045a1200 130100002e00330024001d00209d3c94 0d89690b84d08a60993c144eca684d10 81287c834d5311bcf32bb9da1a002b00 020304`

const serverInitialV1 = `cf000000010008f067a5502a4262b500 4075c0d95a482cd0991cd25b0aac406a 5816b6394100f37a1c69797554780bb3 8cc5a99f5ede4cf73c3ec2493a1839b3 dbcba3f6ea46c5b7684df3548e7ddeb9 c3bf9c73cc3f3bded74b562bfb19fb84 022f8ef4cdd93795d77d06edbb7aaf2f 58891850abbdca3d20398c276456cbc4 2158407dd074ee`

const serverInitialV2 = `dc6b3343cf0008f067a5502a4262b500 4075d92faaf16f05d8a4398c47089698 baeea26b91eb761d9b89237bbf872630 17915358230035f7fd3945d88965cf17 f9af6e16886c61bfc703106fbaf3cb4c fa52382dd16a393e42757507698075b2 c984c707f0a0812d8cd5a6881eaf21ce da98f4bd23f6fe1a3e2c43edd9ce7ca8 4bed8521e2e140`

// RFC 9001 A.2, A.3; RFC 9369 A.2, A.3
func TestInitialPacketVectors(t *testing.T) {
	for _, tc := range []struct {
		name     string
		version  uint32
		client   bool
		header   string
		payload  string
		padTo    int
		pnOffset int
		pnLen    int
		pn       uint64
		packet   string
		sample   string
		mask     string
	}{
		{"v1 client", V1, true, "c300000001088394c8f03e5157080000449e00000002", clientHelloCrypto, 1162, 18, 4, 2, clientInitialV1,
			"d1b1c98dd7689fb8ec11d242b123dc9b", "437b9aec36"},
		{"v2 client", V2, true, "d36b3343cf088394c8f03e5157080000449e00000002", clientHelloCrypto, 1162, 18, 4, 2, clientInitialV2,
			"ffe67b6abcdb4298b485dd04de806071", ""},
		{"v1 server", V1, false, "c1000000010008f067a5502a4262b50040750001", serverHelloCrypto, 0, 18, 2, 1, serverInitialV1,
			"2cd0991cd25b0aac406a5816b6394100", "2ec0d8356a"},
		{"v2 server", V2, false, "d16b3343cf0008f067a5502a4262b50040750001", serverHelloCrypto, 0, 18, 2, 1, serverInitialV2,
			"6f05d8a4398c47089698baeea26b91eb", ""},
	} {
		t.Run(tc.name, func(t *testing.T) {
			ck, sk := InitialKeys(tc.version, hx(t, dcid))
			k := sk
			if tc.client {
				k = ck
			}
			header := hx(t, tc.header)
			payload := hx(t, tc.payload)
			if tc.padTo > len(payload) {
				payload = append(payload, make([]byte, tc.padTo-len(payload))...)
			}
			want := hx(t, tc.packet)
			if tc.mask != "" {
				m := k.HPMask(hx(t, tc.sample))
				eq(t, "mask", m[:], hx(t, tc.mask))
			}
			hcopy := append([]byte(nil), header...)
			got := Protect(k, header, tc.pnOffset, tc.pnLen, tc.pn, payload)
			eq(t, "protected packet", got, want)
			eq(t, "header untouched", header, hcopy)
			wcopy := append([]byte(nil), want...)
			hdr, pn, pnLen, pl, err := Unprotect(k, want, tc.pnOffset, -1)
			if err != nil {
				t.Fatal(err)
			}
			eq(t, "packet untouched", want, wcopy)
			eq(t, "unprotected header", hdr, header)
			eq(t, "payload", pl, payload)
			if pn != tc.pn || pnLen != tc.pnLen {
				t.Fatalf("pn %d len %d", pn, pnLen)
			}
			// any single bit flip must be rejected or (header protection bits / pn bytes) decode to a different pn and fail
			for i := 0; i < len(want); i += 7 {
				mut := append([]byte(nil), want...)
				mut[i] ^= 1 << uint(i%8)
				if _, _, _, pl2, err := Unprotect(k, mut, tc.pnOffset, -1); err == nil {
					t.Fatalf("bit flip at %d accepted: %x", i, pl2)
				}
			}
		})
	}
}

// RFC 9001 A.5; RFC 9369 A.5
func TestChaCha20ShortHeaderVectors(t *testing.T) {
	secret := hx(t, "9ac312a7f877468ebe69422748ad00a15443f18203a07d6060f688f30f21632b")
	for _, tc := range []struct {
		name                    string
		version                 uint32
		key, iv, hp, ku         string
		nonce                   string
		sample, mask, protected string
	}{
		{"v1", V1,
			"c6d98ff3441c3fe1b2182094f69caa2ed4b716b65488960a7a984979fb23e1c8", "e0459b3474bdd0e44a41c144",
			"25a282b9e82f06f21f488917a4fc8f1b73573685608597d0efcb076b0ab7a7a4",
			"1223504755036d556342ee9361d253421a826c9ecdf3c7148684b36b714881f9",
			"e0459b3474bdd0e46d417eb0",
			"5e5cd55c41f69080575d7999c25a5bfb", "aefefe7d03", "4cfe4189655e5cd55c41f69080575d7999c25a5bfb"},
		{"v2", V2,
			"3bfcddd72bcf02541d7fa0dd1f5f9eeea817e09a6963a0e6c7df0f9a1bab90f2", "a6b5bc6ab7dafce30ffff5dd",
			"d659760d2ba434a226fd37b35c69e2da8211d10c4f12538787d65645d5d1b8e2",
			"c69374c49e3d2a9466fa689e49d476db5d0dfbc87d32ceeaa6343fd0ae4c7d88",
			"a6b5bc6ab7dafce328ff4a29",
			"e7b6b932bc27d786f4bc2bb20f2162ba", "97580e32bf", "5558b1c60ae7b6b932bc27d786f4bc2bb20f2162ba"},
	} {
		t.Run(tc.name, func(t *testing.T) {
			k := DeriveKeys(TLS_CHACHA20_POLY1305_SHA256, tc.version, secret)
			eq(t, "key", k.Key, hx(t, tc.key))
			eq(t, "iv", k.IV, hx(t, tc.iv))
			eq(t, "hp", k.HP, hx(t, tc.hp))
			eq(t, "ku", NextSecret(k.Suite, k.Version, secret), hx(t, tc.ku))
			ng := k.NextGeneration()
			eq(t, "next generation secret", ng.Secret, hx(t, tc.ku))
			eq(t, "next generation hp unchanged", ng.HP, k.HP)
			if bytes.Equal(ng.Key, k.Key) || bytes.Equal(ng.IV, k.IV) {
				t.Fatal("next generation did not change key / iv")
			}
			const pn = 654360564
			eq(t, "nonce", k.Nonce(pn), hx(t, tc.nonce))
			m := k.HPMask(hx(t, tc.sample))
			eq(t, "mask", m[:], hx(t, tc.mask))
			// the minimum packet number length for 654360564 with nothing acked is 3 bytes
			if n := EncodePacketNumberLen(pn, -1); n != 4 {
				// RFC 9001 A.5 says "a packet number of length 3 (that is, 49140 is encoded)" assuming earlier packets were
				// acknowledged; with nothing acknowledged the number needs more than 4 bytes-1 bits
				if n != 5 {
					t.Fatalf("unexpected pn len %d", n)
				}
			}
			got := Protect(k, hx(t, "4200bff4"), 1, 3, pn, []byte{0x01})
			eq(t, "packet", got, hx(t, tc.protected))
			hdr, gpn, pnLen, pl, err := Unprotect(k, got, 1, pn-1)
			if err != nil {
				t.Fatal(err)
			}
			eq(t, "hdr", hdr, hx(t, "4200bff4"))
			eq(t, "payload", pl, []byte{1})
			if gpn != pn || pnLen != 3 {
				t.Fatalf("pn %d len %d", gpn, pnLen)
			}
		})
	}
}

// RFC 9001 A.4; RFC 9369 A.4
func TestRetryVectors(t *testing.T) {
	for _, tc := range []struct {
		v uint32
		p string
	}{
		{V1, "ff000000010008f067a5502a4262b5746f6b656e04a265ba2eff4d829058fb3f0f2496ba"},
		{V2, "cf6b3343cf0008f067a5502a4262b5746f6b656ec8646ce8bfe33952d955543665dcc7b6"},
	} {
		p := hx(t, tc.p)
		tag := RetryIntegrityTag(tc.v, hx(t, dcid), p[:len(p)-16])
		eq(t, "retry tag", tag[:], p[len(p)-16:])
	}
	// RFC 9001 section 5.8: key and nonce are derived from a fixed secret with the labels "quic key" / "quic iv"
	eq(t, "retry key v1", HKDFExpandLabel(TLS_AES_128_GCM_SHA256, retrySecretV1, nil, "quic key", 16), retryKeyV1)
	eq(t, "retry nonce v1", HKDFExpandLabel(TLS_AES_128_GCM_SHA256, retrySecretV1, nil, "quic iv", 12), retryNonceV1)
}

// RFC 9000 A.2 / A.3 worked examples plus structural properties.
func TestPacketNumberCodec(t *testing.T) {
	if got := DecodePacketNumber(0xa82f30ea, 0x9b32, 2); got != 0xa82f9b32 {
		t.Fatalf("A.3 example: %#x", got)
	}
	if n := EncodePacketNumberLen(0xac5c02, 0xabe8b3); n != 2 {
		t.Fatalf("A.2 example 1: %d", n)
	}
	if n := EncodePacketNumberLen(0xace8fe, 0xabe8b3); n != 3 {
		t.Fatalf("A.2 example 2: %d", n)
	}
	if n := EncodePacketNumberLen(0, -1); n != 1 {
		t.Fatalf("first packet: %d", n)
	}
	if got := DecodePacketNumber(-1, 0, 1); got != 0 {
		t.Fatalf("first packet decode: %d", got)
	}
	// For every receiver state L in [largestAcked, pn-1] the minimal encoding decodes to pn.
	r := rand.New(rand.NewSource(1))
	for i := 0; i < 300000; i++ {
		var la int64 = -1
		if r.Intn(8) != 0 {
			la = r.Int63n(1 << uint(1+r.Intn(61)))
		}
		gap := r.Int63n(1<<uint(1+r.Intn(31))) + 1
		pn := la + gap
		if pn > int64(MaxPN) {
			continue
		}
		n := EncodePacketNumberLen(uint64(pn), la)
		if n > 4 {
			continue
		}
		for _, l := range []int64{la, pn - 1, la + r.Int63n(gap)} {
			for nn := n; nn <= 4; nn++ {
				if got := DecodePacketNumber(l, TruncatePacketNumber(uint64(pn), nn), nn); got != uint64(pn) {
					t.Fatalf("la=%d pn=%d len=%d L=%d decoded %d", la, pn, nn, l, got)
				}
			}
		}
	}
	// ceiling: never decode above 2^62-1
	if got := DecodePacketNumber(int64(MaxPN)-1, 0xff, 1); got != MaxPN {
		t.Fatalf("ceiling: %d", got)
	}
	if got := DecodePacketNumber(int64(MaxPN)-1, 0x00, 1); got > MaxPN {
		t.Fatalf("ceiling overflow: %d", got)
	}
}

// The hand-written HKDF agrees with golang.org/x/crypto/hkdf (an independent implementation of RFC 5869).
func TestHKDFAgainstXCrypto(t *testing.T) {
	r := rand.New(rand.NewSource(2))
	for i := 0; i < 2000; i++ {
		suite := Suites[r.Intn(3)]
		h := sha256.New
		if suite == TLS_AES_256_GCM_SHA384 {
			h = sha512.New384
		}
		ikm := make([]byte, r.Intn(64))
		salt := make([]byte, r.Intn(64))
		info := make([]byte, r.Intn(80))
		r.Read(ikm)
		r.Read(salt)
		r.Read(info)
		prk := HKDFExtract(suite, ikm, salt)
		eq(t, "extract", prk, hkdf.Extract(h, ikm, salt))
		n := 1 + r.Intn(200)
		want := make([]byte, n)
		if _, err := io.ReadFull(hkdf.Expand(h, prk, info), want); err != nil {
			t.Fatal(err)
		}
		eq(t, "expand", HKDFExpand(suite, prk, info, n), want)
	}
	// RFC 5869 A.1 test case 1
	prk := HKDFExtract(TLS_AES_128_GCM_SHA256, hx(t, "0b0b0b0b0b0b0b0b0b0b0b0b0b0b0b0b0b0b0b0b0b0b"), hx(t, "000102030405060708090a0b0c"))
	eq(t, "rfc5869 prk", prk, hx(t, "077709362c2e32df0ddc3f0dc47bba6390b6c73bb50f9c3122ec844ad7c2b3e5"))
	eq(t, "rfc5869 okm", HKDFExpand(TLS_AES_128_GCM_SHA256, prk, hx(t, "f0f1f2f3f4f5f6f7f8f9"), 42),
		hx(t, "3cb25f25faacd57a90434f64d0362f2a2d2d0a90cf1a5a4c5db02d56ecc4c5bf34007208d5b887185865"))
}

// Round trips for all suites, versions, pn lengths, both header forms, and the minimum packet size.
func TestProtectUnprotectRoundTrip(t *testing.T) {
	r := rand.New(rand.NewSource(3))
	for i := 0; i < 3000; i++ {
		suite := Suites[r.Intn(3)]
		version := []uint32{V1, V2}[r.Intn(2)]
		secret := make([]byte, HashLen(suite))
		r.Read(secret)
		k := DeriveKeys(suite, version, secret)
		pnLen := 1 + r.Intn(4)
		pnOffset := 1 + r.Intn(40)
		largest := r.Int63n(1 << 40)
		pn := uint64(largest) + 1 + uint64(r.Intn(1<<(8*uint(pnLen)-2)))
		hdr := make([]byte, pnOffset+pnLen)
		r.Read(hdr)
		hdr[0] = hdr[0]&^0x03 | byte(pnLen-1)
		tr := TruncatePacketNumber(pn, pnLen)
		for j := 0; j < pnLen; j++ {
			hdr[pnOffset+j] = byte(tr >> (8 * uint(pnLen-1-j)))
		}
		minPayload := 4 - pnLen
		payload := make([]byte, minPayload+r.Intn(3)*r.Intn(700))
		r.Read(payload)
		p := Protect(k, hdr, pnOffset, pnLen, pn, payload)
		h2, pn2, l2, pl2, err := Unprotect(k, p, pnOffset, largest)
		if err != nil || pn2 != pn || l2 != pnLen || !bytes.Equal(h2, hdr) || !bytes.Equal(pl2, payload) {
			t.Fatalf("round trip failed: suite %s err %v pn %d/%d", SuiteName(suite), err, pn2, pn)
		}
		// the protected bits of the first byte and the pn bytes are actually masked for some packets; the rest of the
		// header is in the clear
		if !bytes.Equal(p[1:pnOffset], hdr[1:pnOffset]) {
			t.Fatal("header bytes other than first byte / pn changed")
		}
		keep := byte(0xe0)
		if hdr[0]&0x80 != 0 {
			keep = 0xf0
		}
		if p[0]&keep != hdr[0]&keep {
			t.Fatal("unprotected bits of the first byte changed")
		}
	}
}
