// Package refcrypto is an independent implementation of QUIC packet protection written
// from RFC 9001 (QUIC-TLS), RFC 9369 (QUIC v2), RFC 8446 section 7.1 (HKDF-Expand-Label),
// RFC 5869 (HKDF) and RFC 9000 Appendix A (packet number encoding / decoding).
//
// It is the oracle of the verification harness and therefore imports NOTHING from
// github.com/refraction-networking/uquic. Only the Go standard library and
// golang.org/x/crypto primitives (ChaCha20, ChaCha20-Poly1305) are used; HKDF is
// implemented here directly on top of crypto/hmac.
//
// None of the functions keeps state between calls and none mutates its arguments, with the
// exception of the documented output parameters.
package refcrypto

import (
	"crypto/aes"
	"crypto/cipher"
	"crypto/hmac"
	"crypto/sha256"
	"crypto/sha512"
	"encoding/binary"
	"errors"
	"fmt"
	"hash"

	"golang.org/x/crypto/chacha20"
	"golang.org/x/crypto/chacha20poly1305"
)

// QUIC versions.
const (
	V1 uint32 = 0x00000001
	V2 uint32 = 0x6b3343cf
)

// TLS 1.3 cipher suites usable with QUIC (RFC 9001 section 5.3; TLS_AES_128_CCM_8_SHA256 is forbidden,
// TLS_AES_128_CCM_SHA256 is not implemented by the code under test).
const (
	TLS_AES_128_GCM_SHA256       uint16 = 0x1301
	TLS_AES_256_GCM_SHA384       uint16 = 0x1302
	TLS_CHACHA20_POLY1305_SHA256 uint16 = 0x1303
)

// TagLen is the length of the AEAD authentication tag of all three suites.
const TagLen = 16

// SampleLen is the length of the header protection sample (RFC 9001 section 5.4.2).
const SampleLen = 16

// ErrOpen is returned when the AEAD authentication fails.
var ErrOpen = errors.New("refcrypto: AEAD open failed")

// ErrShort is returned by Unprotect when the packet is too short to contain a header protection sample.
var ErrShort = errors.New("refcrypto: packet too short for header protection sample")

// Suites lists the supported suites.
var Suites = []uint16{TLS_AES_128_GCM_SHA256, TLS_AES_256_GCM_SHA384, TLS_CHACHA20_POLY1305_SHA256}

// SuiteName returns the IANA name.
func SuiteName(suite uint16) string {
	switch suite {
	case TLS_AES_128_GCM_SHA256:
		return "TLS_AES_128_GCM_SHA256"
	case TLS_AES_256_GCM_SHA384:
		return "TLS_AES_256_GCM_SHA384"
	case TLS_CHACHA20_POLY1305_SHA256:
		return "TLS_CHACHA20_POLY1305_SHA256"
	}
	return fmt.Sprintf("suite(%#04x)", suite)
}

func newHash(suite uint16) func() hash.Hash {
	switch suite {
	case TLS_AES_128_GCM_SHA256, TLS_CHACHA20_POLY1305_SHA256:
		return sha256.New
	case TLS_AES_256_GCM_SHA384:
		return sha512.New384
	}
	panic(fmt.Sprintf("refcrypto: unknown cipher suite %#04x", suite))
}

// HashLen returns the output length of the suite's hash (= length of its traffic secrets).
func HashLen(suite uint16) int { return newHash(suite)().Size() }

// KeyLen returns the AEAD (and header protection) key length of the suite.
func KeyLen(suite uint16) int {
	switch suite {
	case TLS_AES_128_GCM_SHA256:
		return 16
	case TLS_AES_256_GCM_SHA384, TLS_CHACHA20_POLY1305_SHA256:
		return 32
	}
	panic(fmt.Sprintf("refcrypto: unknown cipher suite %#04x", suite))
}

// HKDFExtract is HKDF-Extract of RFC 5869 section 2.2: PRK = HMAC-Hash(salt, IKM).
func HKDFExtract(suite uint16, ikm, salt []byte) []byte {
	h := newHash(suite)
	if salt == nil {
		salt = make([]byte, h().Size())
	}
	m := hmac.New(h, salt)
	m.Write(ikm)
	return m.Sum(nil)
}

// HKDFExpand is HKDF-Expand of RFC 5869 section 2.3.
func HKDFExpand(suite uint16, prk, info []byte, length int) []byte {
	h := newHash(suite)
	hl := h().Size()
	if length < 0 || length > 255*hl {
		panic("refcrypto: HKDF-Expand length out of range")
	}
	var okm, t []byte
	for i := byte(1); len(okm) < length; i++ {
		m := hmac.New(h, prk)
		m.Write(t)
		m.Write(info)
		m.Write([]byte{i})
		t = m.Sum(nil)
		okm = append(okm, t...)
	}
	return okm[:length]
}

// HKDFExpandLabel is HKDF-Expand-Label of RFC 8446 section 7.1:
//
//	struct { uint16 length; opaque label<7..255> = "tls13 " + Label; opaque context<0..255>; } HkdfLabel;
func HKDFExpandLabel(suite uint16, secret, context []byte, label string, length int) []byte {
	full := "tls13 " + label
	if len(full) > 255 || len(context) > 255 || length > 0xffff {
		panic("refcrypto: HKDF-Expand-Label argument too long")
	}
	info := make([]byte, 0, 2+1+len(full)+1+len(context))
	info = append(info, byte(length>>8), byte(length))
	info = append(info, byte(len(full)))
	info = append(info, full...)
	info = append(info, byte(len(context)))
	info = append(info, context...)
	return HKDFExpand(suite, secret, info, length)
}

// Initial salts: RFC 9001 section 5.2 and RFC 9369 section 3.3.1.
var (
	initialSaltV1 = []byte{0x38, 0x76, 0x2c, 0xf7, 0xf5, 0x59, 0x34, 0xb3, 0x4d, 0x17, 0x9a, 0xe6, 0xa4, 0xc8, 0x0c, 0xad, 0xcc, 0xbb, 0x7f, 0x0a}
	initialSaltV2 = []byte{0x0d, 0xed, 0xe3, 0xde, 0xf7, 0x00, 0xa6, 0xdb, 0x81, 0x93, 0x81, 0xbe, 0x6e, 0x26, 0x9d, 0xcb, 0xf9, 0xbd, 0x2e, 0xd9}
)

func knownVersion(version uint32) {
	if version != V1 && version != V2 {
		panic(fmt.Sprintf("refcrypto: unsupported QUIC version %#08x", version))
	}
}

// InitialSalt returns the version's initial salt.
func InitialSalt(version uint32) []byte {
	knownVersion(version)
	if version == V2 {
		return append([]byte(nil), initialSaltV2...)
	}
	return append([]byte(nil), initialSaltV1...)
}

// InitialSecrets computes client_initial_secret and server_initial_secret (RFC 9001 section 5.2):
//
//	initial_secret = HKDF-Extract(initial_salt, client_dst_connection_id)
//	client_initial_secret = HKDF-Expand-Label(initial_secret, "client in", "", Hash.length)
//	server_initial_secret = HKDF-Expand-Label(initial_secret, "server in", "", Hash.length)
//
// The labels "client in" / "server in" are the same in QUIC v2; only the salt differs.
func InitialSecrets(version uint32, clientDCID []byte) (clientSecret, serverSecret []byte) {
	const s = TLS_AES_128_GCM_SHA256
	initial := HKDFExtract(s, clientDCID, InitialSalt(version))
	clientSecret = HKDFExpandLabel(s, initial, nil, "client in", 32)
	serverSecret = HKDFExpandLabel(s, initial, nil, "server in", 32)
	return
}

// Keys is one direction's packet protection key set for one key phase.
type Keys struct {
	Suite   uint16
	Version uint32
	Secret  []byte // the traffic secret the keys were derived from
	Key     []byte // AEAD key
	IV      []byte // AEAD IV (12 bytes)
	HP      []byte // header protection key
}

func labelPrefix(version uint32) string {
	knownVersion(version)
	if version == V2 {
		return "quicv2 "
	}
	return "quic "
}

// DeriveKeys derives key, iv and hp from a traffic secret (RFC 9001 section 5.1, RFC 9369 section 3.3.2).
func DeriveKeys(suite uint16, version uint32, secret []byte) *Keys {
	p := labelPrefix(version)
	kl := KeyLen(suite)
	return &Keys{
		Suite:   suite,
		Version: version,
		Secret:  append([]byte(nil), secret...),
		Key:     HKDFExpandLabel(suite, secret, nil, p+"key", kl),
		IV:      HKDFExpandLabel(suite, secret, nil, p+"iv", 12),
		HP:      HKDFExpandLabel(suite, secret, nil, p+"hp", kl),
	}
}

// InitialKeys returns the Initial keys of both directions.
func InitialKeys(version uint32, clientDCID []byte) (client, server *Keys) {
	cs, ss := InitialSecrets(version, clientDCID)
	return DeriveKeys(TLS_AES_128_GCM_SHA256, version, cs), DeriveKeys(TLS_AES_128_GCM_SHA256, version, ss)
}

// NextSecret computes the next generation's traffic secret (RFC 9001 section 6.1):
//
//	secret_<n+1> = HKDF-Expand-Label(secret_<n>, "quic ku", "", Hash.length)
//
// RFC 9369 section 3.3.2 changes the label to "quicv2 ku" for QUIC v2.
func NextSecret(suite uint16, version uint32, secret []byte) []byte {
	return HKDFExpandLabel(suite, secret, nil, labelPrefix(version)+"ku", HashLen(suite))
}

// NextGeneration returns the keys of the next key phase. The header protection key is not updated
// (RFC 9001 section 6.1: "The header protection key is not updated").
func (k *Keys) NextGeneration() *Keys {
	ns := NextSecret(k.Suite, k.Version, k.Secret)
	n := DeriveKeys(k.Suite, k.Version, ns)
	n.HP = append([]byte(nil), k.HP...)
	return n
}

// NextGenerationWithLabel is NextGeneration with an explicit key update label (without the "tls13 "
// prefix). It exists to let a check diagnose WHICH label an implementation used.
func (k *Keys) NextGenerationWithLabel(label string) *Keys {
	ns := HKDFExpandLabel(k.Suite, k.Secret, nil, label, HashLen(k.Suite))
	n := DeriveKeys(k.Suite, k.Version, ns)
	n.HP = append([]byte(nil), k.HP...)
	return n
}

func (k *Keys) aead() cipher.AEAD {
	switch k.Suite {
	case TLS_AES_128_GCM_SHA256, TLS_AES_256_GCM_SHA384:
		b, err := aes.NewCipher(k.Key)
		if err != nil {
			panic(err)
		}
		a, err := cipher.NewGCM(b)
		if err != nil {
			panic(err)
		}
		return a
	case TLS_CHACHA20_POLY1305_SHA256:
		a, err := chacha20poly1305.New(k.Key)
		if err != nil {
			panic(err)
		}
		return a
	}
	panic(fmt.Sprintf("refcrypto: unknown cipher suite %#04x", k.Suite))
}

// Nonce computes the AEAD nonce of a packet (RFC 9001 section 5.3): the 62 bits of the reconstructed
// packet number in network byte order are left-padded with zeros to the size of the IV and XORed with it.
func (k *Keys) Nonce(pn uint64) []byte {
	n := make([]byte, 12)
	binary.BigEndian.PutUint64(n[4:], pn)
	for i := range n {
		n[i] ^= k.IV[i]
	}
	return n
}

// Seal protects the payload; header is the associated data (the unprotected header up to and including
// the packet number). It returns ciphertext||tag in a fresh slice.
func (k *Keys) Seal(pn uint64, header, plaintext []byte) []byte {
	return k.aead().Seal(nil, k.Nonce(pn), plaintext, header)
}

// Open is the inverse of Seal. The result is a fresh slice (never nil on success).
func (k *Keys) Open(pn uint64, header, ciphertext []byte) ([]byte, error) {
	if len(ciphertext) < TagLen {
		return nil, ErrOpen
	}
	out, err := k.aead().Open(make([]byte, 0, len(ciphertext)), k.Nonce(pn), ciphertext, header)
	if err != nil {
		return nil, ErrOpen
	}
	return out, nil
}

// HPMask computes the 5-byte header protection mask from a 16-byte sample (RFC 9001 sections 5.4.3, 5.4.4).
func (k *Keys) HPMask(sample []byte) [5]byte {
	if len(sample) != SampleLen {
		panic("refcrypto: header protection sample must be 16 bytes")
	}
	var mask [5]byte
	switch k.Suite {
	case TLS_AES_128_GCM_SHA256, TLS_AES_256_GCM_SHA384:
		// mask = AES-ECB(hp_key, sample)
		b, err := aes.NewCipher(k.HP)
		if err != nil {
			panic(err)
		}
		var out [16]byte
		b.Encrypt(out[:], sample)
		copy(mask[:], out[:5])
	case TLS_CHACHA20_POLY1305_SHA256:
		// counter = sample[0..3] (little endian), nonce = sample[4..15]; mask = ChaCha20(hp_key, counter, nonce, {0,0,0,0,0})
		c, err := chacha20.NewUnauthenticatedCipher(k.HP, sample[4:16])
		if err != nil {
			panic(err)
		}
		c.SetCounter(binary.LittleEndian.Uint32(sample[0:4]))
		c.XORKeyStream(mask[:], mask[:])
	default:
		panic(fmt.Sprintf("refcrypto: unknown cipher suite %#04x", k.Suite))
	}
	return mask
}

// MaxPN is the largest packet number (RFC 9000 section 12.3).
const MaxPN uint64 = 1<<62 - 1

// DecodePacketNumber is RFC 9000 Appendix A.3. largest is the largest packet number successfully
// processed in the current packet number space, or -1 when there is none (then expected_pn = 0).
func DecodePacketNumber(largest int64, truncated uint64, pnLen int) uint64 {
	if pnLen < 1 || pnLen > 4 {
		panic("refcrypto: packet number length must be 1..4")
	}
	expected := largest + 1
	win := int64(1) << (8 * uint(pnLen))
	hwin := win / 2
	mask := win - 1
	// The incoming packet number should be greater than expected_pn - pn_hwin and less than or equal
	// to expected_pn + pn_hwin.
	candidate := (expected &^ mask) | int64(truncated&uint64(mask))
	if candidate <= expected-hwin && candidate < (int64(1)<<62)-win {
		return uint64(candidate + win)
	}
	if candidate > expected+hwin && candidate >= win {
		return uint64(candidate - win)
	}
	return uint64(candidate)
}

// EncodePacketNumberLen is RFC 9000 Appendix A.2: the minimal number of bytes for the packet number
// given the largest acknowledged packet number (-1 when nothing was acknowledged yet):
//
//	num_unacked = full_pn + 1 (nothing acked) or full_pn - largest_acked
//	min_bits = log(num_unacked, 2) + 1; num_bytes = ceil(min_bits / 8)
//
// i.e. the smallest n with 2^(8n-1) >= num_unacked. Results above 4 cannot be encoded; 5 is returned.
func EncodePacketNumberLen(pn uint64, largestAcked int64) int {
	var unacked uint64
	if largestAcked < 0 {
		unacked = pn + 1
	} else {
		unacked = pn - uint64(largestAcked)
	}
	for n := 1; n <= 4; n++ {
		if unacked <= uint64(1)<<(8*uint(n)-1) {
			return n
		}
	}
	return 5
}

// TruncatePacketNumber returns the pnLen least significant bytes of pn.
func TruncatePacketNumber(pn uint64, pnLen int) uint64 {
	return pn & (uint64(1)<<(8*uint(pnLen)) - 1)
}

func isLong(first byte) bool { return first&0x80 != 0 }

// Unprotect removes header protection and opens the AEAD of ONE QUIC packet occupying the whole of
// packet (for a coalesced long header packet pass packet[:end] where end follows from the Length field).
// pnOffset is the index of the first packet number byte. largestPN is the largest packet number
// successfully processed so far in this space (-1 when none). It returns the unprotected header bytes
// (packet[:pnOffset+pnLen] with protection removed), the full packet number, the packet number length
// and the plaintext payload. packet is not modified.
func Unprotect(k *Keys, packet []byte, pnOffset int, largestPN int64) (hdr []byte, pn uint64, pnLen int, payload []byte, err error) {
	if pnOffset < 1 || len(packet) < pnOffset+4+SampleLen {
		return nil, 0, 0, nil, ErrShort
	}
	// RFC 9001 section 5.4.2: the sample starts 4 bytes after the start of the Packet Number field,
	// regardless of its actual length.
	sample := packet[pnOffset+4 : pnOffset+4+SampleLen]
	mask := k.HPMask(sample)
	first := packet[0]
	if isLong(first) {
		first ^= mask[0] & 0x0f
	} else {
		first ^= mask[0] & 0x1f
	}
	pnLen = int(first&0x03) + 1
	hdr = make([]byte, pnOffset+pnLen)
	copy(hdr, packet[:pnOffset+pnLen])
	hdr[0] = first
	var trunc uint64
	for i := 0; i < pnLen; i++ {
		hdr[pnOffset+i] ^= mask[1+i]
		trunc = trunc<<8 | uint64(hdr[pnOffset+i])
	}
	pn = DecodePacketNumber(largestPN, trunc, pnLen)
	payload, err = k.Open(pn, hdr, packet[pnOffset+pnLen:])
	if err != nil {
		return hdr, pn, pnLen, nil, err
	}
	return hdr, pn, pnLen, payload, nil
}

// Protect is the inverse of Unprotect. header is the complete unprotected header and must already contain
// the truncated packet number of length pnLen at pnOffset (so len(header) == pnOffset+pnLen) and the
// matching packet number length bits in its first byte. The caller must make sure that
// pnLen + len(payload) >= 4 so that a sample exists (RFC 9001 section 5.4.2); Protect panics otherwise.
// header is not modified.
func Protect(k *Keys, header []byte, pnOffset, pnLen int, pn uint64, payload []byte) []byte {
	if pnLen < 1 || pnLen > 4 || len(header) != pnOffset+pnLen {
		panic("refcrypto: Protect: header does not end with the packet number")
	}
	if int(header[0]&0x03)+1 != pnLen {
		panic("refcrypto: Protect: packet number length bits do not match pnLen")
	}
	ct := k.Seal(pn, header, payload)
	out := make([]byte, 0, len(header)+len(ct))
	out = append(out, header...)
	out = append(out, ct...)
	if len(out) < pnOffset+4+SampleLen {
		panic("refcrypto: Protect: packet too short for a header protection sample")
	}
	mask := k.HPMask(out[pnOffset+4 : pnOffset+4+SampleLen])
	if isLong(out[0]) {
		out[0] ^= mask[0] & 0x0f
	} else {
		out[0] ^= mask[0] & 0x1f
	}
	for i := 0; i < pnLen; i++ {
		out[pnOffset+i] ^= mask[1+i]
	}
	return out
}

// Retry integrity keys and nonces: RFC 9001 section 5.8 and RFC 9369 section 3.3.3.
var (
	retryKeyV1   = []byte{0xbe, 0x0c, 0x69, 0x0b, 0x9f, 0x66, 0x57, 0x5a, 0x1d, 0x76, 0x6b, 0x54, 0xe3, 0x68, 0xc8, 0x4e}
	retryNonceV1 = []byte{0x46, 0x15, 0x99, 0xd3, 0x5d, 0x63, 0x2b, 0xf2, 0x23, 0x98, 0x25, 0xbb}
	retryKeyV2   = []byte{0x8f, 0xb4, 0xb0, 0x1b, 0x56, 0xac, 0x48, 0xe2, 0x60, 0xfb, 0xcb, 0xce, 0xad, 0x7c, 0xcc, 0x92}
	retryNonceV2 = []byte{0xd8, 0x69, 0x69, 0xbc, 0x2d, 0x7c, 0x6d, 0x99, 0x90, 0xef, 0xb0, 0x4a}
	// retrySecretV1 is the secret the v1 key and nonce are derived from (RFC 9001 section 5.8); used by the
	// package's own test to cross-check the two constants above.
	retrySecretV1 = []byte{0xd9, 0xc9, 0x94, 0x3e, 0x61, 0x01, 0xfd, 0x20, 0x00, 0x21, 0x50, 0x6b, 0xcc, 0x02, 0x81, 0x4c,
		0x73, 0x03, 0x0f, 0x25, 0xc7, 0x9d, 0x71, 0xce, 0x87, 0x6e, 0xca, 0x87, 0x6e, 0x6f, 0xca, 0x8e}
)

// RetryIntegrityTag computes the Retry Integrity Tag (RFC 9001 section 5.8): the AEAD_AES_128_GCM tag over
// an empty plaintext with the Retry Pseudo-Packet {ODCID Length (8), ODCID, Retry packet without the tag}
// as associated data and the version's fixed key and nonce.
func RetryIntegrityTag(version uint32, odcid []byte, retryWithoutTag []byte) [16]byte {
	knownVersion(version)
	if len(odcid) > 255 {
		panic("refcrypto: ODCID too long")
	}
	key, nonce := retryKeyV1, retryNonceV1
	if version == V2 {
		key, nonce = retryKeyV2, retryNonceV2
	}
	pseudo := make([]byte, 0, 1+len(odcid)+len(retryWithoutTag))
	pseudo = append(pseudo, byte(len(odcid)))
	pseudo = append(pseudo, odcid...)
	pseudo = append(pseudo, retryWithoutTag...)
	b, err := aes.NewCipher(key)
	if err != nil {
		panic(err)
	}
	a, err := cipher.NewGCM(b)
	if err != nil {
		panic(err)
	}
	sealed := a.Seal(nil, nonce, nil, pseudo)
	var tag [16]byte
	copy(tag[:], sealed)
	return tag
}
