// Package vf is the shared bookkeeping layer of the verification harness: per-unit case
// counters, class labels, distinct non-trivial hashes, verbatim samples, failures with
// root-cause signatures, known-finding classification, replay dispatch, and the stats
// file each shard process writes for the driver (/verif/check).
package vf

import (
	"encoding/binary"
	"encoding/json"
	"flag"
	"fmt"
	"hash/fnv"
	"os"
	"runtime/debug"
	"sort"
	"strconv"
	"strings"
	"sync"
	"testing"
	"time"

	"pgregory.net/rapid"
)

var (
	flagStats  = flag.String("verif.stats", "", "stats output file (JSON)")
	flagTier   = flag.String("verif.tier", "quick", "quick|thorough")
	flagKnown  = flag.String("verif.known", "", "path to known_findings.json")
	flagReplay = flag.String("verif.replay", "", "replay file")
	flagShard  = flag.String("verif.shard", "0/1", "i/K for enumeration units")
	flagN      = flag.Int("verif.n", 0, "requested case count for non-rapid generated units")
	flagSeed   = flag.Uint64("verif.seed", 1, "seed for non-rapid units")
)

// Tier returns "quick" or "thorough".
func Tier() string { return *flagTier }

// Thorough reports whether the thorough tier was requested.
func Thorough() bool { return *flagTier == "thorough" }

// Shard returns (i, K).
func Shard() (int, int) {
	p := strings.SplitN(*flagShard, "/", 2)
	if len(p) != 2 {
		return 0, 1
	}
	i, _ := strconv.Atoi(p[0])
	k, _ := strconv.Atoi(p[1])
	if k <= 0 {
		return 0, 1
	}
	return i, k
}

// N returns the requested case count for non-rapid units (def when absent).
func N(def int) int {
	if *flagN > 0 {
		return *flagN
	}
	return def
}

// Seed returns the seed for non-rapid units.
func Seed() uint64 { return *flagSeed }

// Verdict describes a violation. Sig is the root-cause signature "<ID>/<area>/<cause>".
type Verdict struct {
	Sig    string `json:"sig"`
	Detail string `json:"detail"`
	Trace  any    `json:"trace,omitempty"`
}

// Bad builds a Verdict.
func Bad(sig, format string, args ...any) *Verdict {
	return &Verdict{Sig: sig, Detail: fmt.Sprintf(format, args...)}
}

type failure struct {
	Sig    string `json:"sig"`
	Detail string `json:"detail"`
	Case   any    `json:"case"`
	Trace  any    `json:"trace,omitempty"`
	size   int
}

// Unit accumulates statistics for one named check unit (one test function).
type Unit struct {
	mu          sync.Mutex
	name        string
	evaluations int64
	classes     map[string]int64
	hashes      map[uint64]struct{}
	samples     []any
	sampleNT    int
	failures    map[string]*failure
	knownHits   map[string]int64
	excluded    map[string]int64
	extra       map[string]any
	replay      func(raw json.RawMessage) *Verdict
}

var (
	regMu sync.Mutex
	reg   = map[string]*Unit{}
	known map[string]bool // open finding signatures
	start = time.Now()
)

// U returns the unit with the given name, creating it on first use.
func U(name string) *Unit {
	regMu.Lock()
	defer regMu.Unlock()
	if u, ok := reg[name]; ok {
		return u
	}
	u := &Unit{name: name, classes: map[string]int64{}, hashes: map[uint64]struct{}{},
		failures: map[string]*failure{}, knownHits: map[string]int64{}, excluded: map[string]int64{}, extra: map[string]any{}}
	reg[name] = u
	return u
}

// Scratch returns an unregistered unit (its counters are discarded).
func Scratch() *Unit {
	return &Unit{name: "scratch", classes: map[string]int64{}, hashes: map[uint64]struct{}{},
		failures: map[string]*failure{}, knownHits: map[string]int64{}, excluded: map[string]int64{}, extra: map[string]any{}}
}

// Case counts one executed case.
func (u *Unit) Case() { u.mu.Lock(); u.evaluations++; u.mu.Unlock() }

// Cases counts n executed cases.
func (u *Unit) Cases(n int) { u.mu.Lock(); u.evaluations += int64(n); u.mu.Unlock() }

// Class increments a class label counter.
func (u *Unit) Class(label string) { u.mu.Lock(); u.classes[label]++; u.mu.Unlock() }

// ClassN adds n to a class label counter.
func (u *Unit) ClassN(label string, n int) { u.mu.Lock(); u.classes[label] += int64(n); u.mu.Unlock() }

// Excluded counts a draw excluded from the generator because of an open finding.
func (u *Unit) Excluded(sig string) { u.mu.Lock(); u.excluded[sig]++; u.mu.Unlock() }

// Extra attaches a free-form key to the unit's evidence.
func (u *Unit) Extra(k string, v any) { u.mu.Lock(); u.extra[k] = v; u.mu.Unlock() }

// Hash hashes a case signature.
func Hash(parts ...any) uint64 {
	h := fnv.New64a()
	for _, p := range parts {
		switch x := p.(type) {
		case []byte:
			h.Write(x)
		case string:
			h.Write([]byte(x))
		default:
			fmt.Fprintf(h, "%v", x)
		}
		h.Write([]byte{0})
	}
	return h.Sum64()
}

const maxHashes = 4 << 20

// NonTrivial records one non-trivial case; distinctness is by the hash of parts.
func (u *Unit) NonTrivial(parts ...any) {
	hv := Hash(parts...)
	u.mu.Lock()
	if len(u.hashes) < maxHashes {
		u.hashes[hv] = struct{}{}
	}
	u.classes["nontrivial"]++
	u.mu.Unlock()
}

// Sample keeps up to 6 verbatim cases (non-trivial ones are preferred by the caller).
func (u *Unit) Sample(c any) {
	u.mu.Lock()
	defer u.mu.Unlock()
	if len(u.samples) < 6 {
		b, err := json.Marshal(c)
		if err != nil || len(b) > 6000 {
			if err == nil {
				u.samples = append(u.samples, string(b[:3000])+"...(truncated)")
			}
			return
		}
		u.samples = append(u.samples, json.RawMessage(b))
	}
}

// WantSample reports whether more samples are wanted (cheap pre-check).
func (u *Unit) WantSample() bool { u.mu.Lock(); defer u.mu.Unlock(); return len(u.samples) < 6 }

// IsKnown reports whether sig is an open known finding.
func IsKnown(sig string) bool { loadKnown(); return known[sig] }

var knownOnce sync.Once

func loadKnown() {
	knownOnce.Do(func() {
		known = map[string]bool{}
		if *flagKnown == "" {
			return
		}
		b, err := os.ReadFile(*flagKnown)
		if err != nil {
			return
		}
		var kf struct {
			Findings []struct {
				Property  string `json:"property"`
				Signature string `json:"signature"`
				Status    string `json:"status"`
			} `json:"findings"`
		}
		if json.Unmarshal(b, &kf) == nil {
			for _, f := range kf.Findings {
				if f.Status == "open" {
					known[f.Signature] = true
				}
			}
		}
	})
}

// Fataler is the subset of testing.TB / rapid.T used to abort a case.
type Fataler interface {
	Fatalf(format string, args ...any)
}

// Report records a violation. If the signature is an open known finding it is counted and
// false is returned (search continues); otherwise the failure is stored (smallest case per
// signature) and true is returned - the caller must then fail the case.
func (u *Unit) Report(v *Verdict, c any) bool {
	loadKnown()
	u.mu.Lock()
	defer u.mu.Unlock()
	if known[v.Sig] {
		u.knownHits[v.Sig]++
		return false
	}
	b, _ := json.Marshal(c)
	f := &failure{Sig: v.Sig, Detail: v.Detail, Case: json.RawMessage(b), Trace: v.Trace, size: len(b)}
	if old, ok := u.failures[v.Sig]; !ok || f.size <= old.size {
		u.failures[v.Sig] = f
	}
	return true
}

// KnownHit counts a hit of an open known finding without ending the case (for checks that go on to examine
// other aspects of the same case). It returns false if sig is not an open finding.
func (u *Unit) KnownHit(sig string) bool {
	loadKnown()
	if !known[sig] {
		return false
	}
	u.mu.Lock()
	u.knownHits[sig]++
	u.mu.Unlock()
	return true
}

// Fail is Report + Fatalf.
func (u *Unit) Fail(t Fataler, v *Verdict, c any) {
	if u.Report(v, c) {
		t.Fatalf("VIOLATION %s: %s", v.Sig, v.Detail)
	}
}

// Guard runs f and converts a panic into a Verdict with signature sigPrefix+"/panic".
func Guard(sigPrefix string, f func() *Verdict) (v *Verdict) {
	defer func() {
		if r := recover(); r != nil {
			st := string(debug.Stack())
			if len(st) > 3000 {
				st = st[:3000]
			}
			v = &Verdict{Sig: sigPrefix + "/panic", Detail: fmt.Sprintf("panic: %v\n%s", r, st)}
		}
	}()
	return f()
}

// Journal writes the case about to be executed next to the stats file so that a process
// death (panic in a library goroutine) can be attributed to it.
func (u *Unit) Journal(c any) {
	if *flagStats == "" {
		return
	}
	b, err := json.Marshal(map[string]any{"unit": u.name, "case": c})
	if err != nil {
		return
	}
	_ = os.WriteFile(*flagStats+".journal", b, 0o644)
}

// ReplayRepeat is how often a saved case is re-executed in replay mode (set > 1 by simulated checks).
var ReplayRepeat = 1

// ReplayMode reports whether the process was started to replay a file.
func ReplayMode() bool { return *flagReplay != "" }

type replayFile struct {
	Property string          `json:"property"`
	Unit     string          `json:"unit"`
	Sig      string          `json:"sig"`
	Detail   string          `json:"detail"`
	Case     json.RawMessage `json:"case"`
}

// RunRapid is the standard shape of a generated check: gen draws a JSON-serialisable case,
// check decides it. In replay mode the saved case of this unit is checked instead.
func RunRapid[C any](t *testing.T, unit string, gen func(*rapid.T) C, check func(C, *Unit) *Verdict) {
	u := U(unit)
	sigp := unit
	run := func(c C) *Verdict {
		return Guard(sigp, func() *Verdict { return check(c, u) })
	}
	if ReplayMode() {
		rf := readReplay(t)
		if rf.Unit != unit {
			t.Skip("replay file is for another unit")
		}
		var c C
		if err := json.Unmarshal(rf.Case, &c); err != nil {
			t.Fatalf("bad replay case: %v", err)
		}
		// simulated cases are not bit-reproducible (scheduler, crypto/rand): repeat
		if n, err := strconv.Atoi(os.Getenv("VERIF_REPLAY_REPEAT")); err == nil && n > 0 {
			ReplayRepeat = n // investigating a schedule-dependent failure: re-execute the saved case more often
		}
		for i := 0; i < ReplayRepeat; i++ {
			u.Case()
			if v := run(c); v != nil {
				v.Detail = fmt.Sprintf("[reproduced on replay run %d of at most %d] %s", i+1, ReplayRepeat, v.Detail)
				u.Fail(t, v, c)
			}
		}
		return
	}
	rapid.Check(t, func(rt *rapid.T) {
		c := gen(rt)
		u.Case()
		if v := run(c); v != nil {
			u.Fail(rt, v, c)
		}
	})
}

// Machine is a stateful check: Gen draws the next operation given the current state,
// Apply executes it against implementation and model and checks the invariants.
type Machine[O any] interface {
	Gen(t *rapid.T) O
	Apply(op O) *Verdict
	// Finish is called after the last op: final checks and non-triviality bookkeeping.
	Finish(u *Unit) *Verdict
}

// MachineCase is the serialised form of one machine history.
type MachineCase[P any, O any] struct {
	Params P   `json:"params"`
	Ops    []O `json:"ops"`
}

// RunMachine drives a Machine under rapid (or from a replay file). The recorded op list is
// exactly what was drawn, so replay re-executes it without the library.
func RunMachine[P any, O any](t *testing.T, unit string, maxOps int, genParams func(*rapid.T) P, mk func(P) Machine[O]) {
	u := U(unit)
	if ReplayMode() {
		rf := readReplay(t)
		if rf.Unit != unit {
			t.Skip("replay file is for another unit")
		}
		var c MachineCase[P, O]
		if err := json.Unmarshal(rf.Case, &c); err != nil {
			t.Fatalf("bad replay case: %v", err)
		}
		u.Case()
		v := Guard(unit, func() *Verdict {
			m := mk(c.Params)
			for _, op := range c.Ops {
				if v := m.Apply(op); v != nil {
					return v
				}
			}
			return m.Finish(u)
		})
		if v != nil {
			u.Fail(t, v, c)
		}
		return
	}
	rapid.Check(t, func(rt *rapid.T) {
		c := MachineCase[P, O]{Params: genParams(rt)}
		u.Case()
		n := rapid.IntRange(1, maxOps).Draw(rt, "nops")
		var m Machine[O]
		v := Guard(unit, func() *Verdict { m = mk(c.Params); return nil })
		for i := 0; i < n && v == nil; i++ {
			op := m.Gen(rt) // rapid's own control-flow panics must pass through unrecovered
			c.Ops = append(c.Ops, op)
			v = Guard(unit, func() *Verdict { return m.Apply(op) })
		}
		if v == nil {
			v = Guard(unit, func() *Verdict { return m.Finish(u) })
		}
		if v != nil {
			u.Fail(rt, v, c)
			return
		}
		if u.WantSample() {
			u.Sample(c)
		}
	})
}

func readReplay(t *testing.T) replayFile {
	b, err := os.ReadFile(*flagReplay)
	if err != nil {
		t.Fatalf("cannot read replay file: %v", err)
	}
	var rf replayFile
	if err := json.Unmarshal(b, &rf); err != nil {
		t.Fatalf("bad replay file: %v", err)
	}
	return rf
}

// ReplayCase returns the raw case of the replay file if it belongs to unit.
func ReplayCase(t *testing.T, unit string) (json.RawMessage, bool) {
	if !ReplayMode() {
		return nil, false
	}
	rf := readReplay(t)
	if rf.Unit != unit {
		return nil, false
	}
	return rf.Case, true
}

type unitOut struct {
	Evaluations int64            `json:"evaluations"`
	Classes     map[string]int64 `json:"classes"`
	Distinct    int              `json:"distinct_nontrivial"`
	HashFile    string           `json:"hash_file"`
	Samples     []any            `json:"samples"`
	Failures    []*failure       `json:"failures"`
	KnownHits   map[string]int64 `json:"known_hits"`
	Excluded    map[string]int64 `json:"excluded_by_finding"`
	Extra       map[string]any   `json:"extra,omitempty"`
}

func writeStats() {
	if *flagStats == "" {
		return
	}
	regMu.Lock()
	defer regMu.Unlock()
	out := struct {
		Units map[string]*unitOut `json:"units"`
		WallS float64             `json:"wall_s"`
	}{Units: map[string]*unitOut{}, WallS: time.Since(start).Seconds()}
	names := make([]string, 0, len(reg))
	for n := range reg {
		names = append(names, n)
	}
	sort.Strings(names)
	for _, n := range names {
		u := reg[n]
		u.mu.Lock()
		uo := &unitOut{Evaluations: u.evaluations, Classes: u.classes, Distinct: len(u.hashes), Samples: u.samples,
			KnownHits: u.knownHits, Excluded: u.excluded, Extra: u.extra}
		for _, f := range u.failures {
			uo.Failures = append(uo.Failures, f)
		}
		sort.Slice(uo.Failures, func(i, j int) bool { return uo.Failures[i].Sig < uo.Failures[j].Sig })
		if len(u.hashes) > 0 {
			hf := *flagStats + ".h." + n
			buf := make([]byte, 0, 8*len(u.hashes))
			for h := range u.hashes {
				buf = binary.LittleEndian.AppendUint64(buf, h)
			}
			if os.WriteFile(hf, buf, 0o644) == nil {
				uo.HashFile = hf
			}
		}
		u.mu.Unlock()
		out.Units[n] = uo
	}
	b, _ := json.Marshal(out)
	tmp := *flagStats + ".tmp"
	if os.WriteFile(tmp, b, 0o644) == nil {
		_ = os.Rename(tmp, *flagStats)
	}
}

// Main is the TestMain body of every property package.
func Main(m *testing.M) {
	flag.Parse()
	code := m.Run()
	writeStats()
	os.Exit(code)
}
