// Package c16 decides parts (a) and (b) of property C16 ("Connection IDs: limits honoured
// both ways, retirements reported, routing clean") at component level:
//
//	(a) mgr_test.go  - the manager of peer-issued connection IDs (conn_id_manager.go) against a
//	                   conformant / adversarial generated peer and a black-box accounting model;
//	(b) gen_test.go  - the generator of our own connection IDs (conn_id_generator.go) against a
//	                   routed-set model with a controlled clock.
//
// Part (c) (transport routing after simulated connections) lives with the simulation engine.
package c16

import (
	"errors"
	"testing"

	"github.com/refraction-networking/uquic/internal/qerr"
	"github.com/refraction-networking/uquic/verif/vf"
)

func TestMain(m *testing.M) { vf.Main(m) }

// transportCode returns the transport error code carried by err (ok=false when err is not a
// *qerr.TransportError).
func transportCode(err error) (qerr.TransportErrorCode, bool) {
	var te *qerr.TransportError
	if errors.As(err, &te) {
		return te.ErrorCode, true
	}
	return 0, false
}
