package c16

import (
	"bytes"
	"context"
	"fmt"
	"io"
	"net"
	"strings"
	"testing"
	"time"

	"pgregory.net/rapid"

	quic "github.com/refraction-networking/uquic"
	"github.com/refraction-networking/uquic/verif/refwire"
	"github.com/refraction-networking/uquic/verif/sim"
	"github.com/refraction-networking/uquic/verif/specgen"
	"github.com/refraction-networking/uquic/verif/vf"
)

// C16(c): routing on complete connections. (1) While a connection is idle, a datagram addressed to a foreign
// connection ID, or to an ID the peer retired long ago, never reaches the connection (its received-bytes counter
// does not move). (2) After the connection ended - whichever way - and the closing period has passed, neither
// transport routes any connection ID or stateless-reset token any more (Transport.VerifRouting()).

type RouteCase struct {
	Client string      `json:"client"` // plain | spec:<base>
	End    string      `json:"end"`    // client-close | server-close | idle | client-transport-close
	RTTms  int         `json:"rtt_ms"`
	Data   int         `json:"data"` // bytes moved before the end: > 100 packets make the client rotate connection IDs
	Faults []sim.Fault `json:"faults,omitempty"`
	Seed   uint64      `json:"seed"`
	Retry  bool        `json:"retry,omitempty"`   // the server validates addresses with a Retry first
	CIDLen int         `json:"cid_len,omitempty"` // server connection ID length (0 = default 4)
}

var routeT *testing.T

func genRouteCase(t *rapid.T) RouteCase {
	c := RouteCase{Client: rapid.SampledFrom([]string{"plain", "plain", "spec:chrome115", "spec:firefoxA"}).Draw(t, "client"),
		End:   rapid.SampledFrom([]string{"client-close", "server-close", "idle", "client-transport-close"}).Draw(t, "end"),
		RTTms: rapid.SampledFrom([]int{2, 20, 80}).Draw(t, "rtt"), Data: rapid.SampledFrom([]int{100, 20000, 400000}).Draw(t, "data"), Seed: rapid.Uint64().Draw(t, "seed")}
	c.Retry = rapid.IntRange(0, 2).Draw(t, "retry") == 0
	c.CIDLen = rapid.SampledFrom([]int{0, 0, 4, 8, 20}).Draw(t, "cidlen")
	n := rapid.IntRange(0, 3).Draw(t, "nfaults")
	for i := 0; i < n; i++ {
		f := sim.Fault{Dir: rapid.SampledFrom([]string{"c2s", "s2c"}).Draw(t, "dir"), Nth: rapid.IntRange(0, 40).Draw(t, "nth"), Kind: rapid.SampledFrom([]string{"drop", "dup", "delay"}).Draw(t, "kind")}
		if f.Kind == "dup" {
			f.Arg = 1
		}
		if f.Kind == "delay" {
			f.Arg = rapid.SampledFrom([]int{5, 100}).Draw(t, "delay")
		}
		c.Faults = append(c.Faults, f)
	}
	return c
}

func checkRouteCase(c RouteCase, u *vf.Unit) *vf.Verdict {
	u.Journal(c)
	var v *vf.Verdict
	sim.Bubble(routeT, 30*time.Second, func() { v = runRouteCase(c, u) }, func(rep sim.LeakReport) {
		if v == nil {
			v = vf.Bad("C16/leak/goroutines", "%d goroutines alive:\n%s", rep.Count, rep.Dump)
		}
	})
	return v
}

func runRouteCase(c RouteCase, u *vf.Unit) *vf.Verdict {
	w := sim.NewWorld(time.Duration(c.RTTms)*time.Millisecond, c.Faults, nil, nil)
	defer w.Close()
	w.Observe()
	key := quic.StatelessResetKey{1, 2, 3}
	st := &quic.Transport{Conn: w.ServerConn, StatelessResetKey: &key, ConnectionIDLength: c.CIDLen}
	if c.Retry {
		st.VerifySourceAddress = func(net.Addr) bool { return true }
		u.Class("server-sends-retry")
	}
	idle := 12 * time.Second
	conf := func() *quic.Config {
		return &quic.Config{DisablePathMTUDiscovery: true, MaxIdleTimeout: idle, HandshakeIdleTimeout: 4 * time.Second}
	}
	ln, err := st.Listen(sim.ServerTLS(false, w.ServerKeys), conf())
	if err != nil {
		st.Close()
		return vf.Bad("C16/harness/listen", "%v", err)
	}
	ct := &quic.Transport{Conn: w.ClientConn, StatelessResetKey: &quic.StatelessResetKey{9, 9}}
	cleanup := func() { ln.Close(); ct.Close(); st.Close() }
	ctx, cancel := context.WithTimeout(context.Background(), 60*time.Second)
	defer cancel()
	type acc struct {
		c   *quic.Conn
		err error
	}
	accCh := make(chan acc, 1)
	go func() {
		sc, err := ln.Accept(ctx)
		accCh <- acc{sc, err}
		if err != nil {
			return
		}
		str, err := sc.AcceptStream(ctx)
		if err != nil {
			return
		}
		b, _ := io.ReadAll(str)
		str.Write(b[:min(len(b), 100)])
		str.Close()
	}()
	var cconn *quic.Conn
	if strings.HasPrefix(c.Client, "spec:") {
		spec, e := specgen.Desc{Base: strings.TrimPrefix(c.Client, "spec:")}.Build()
		if e != nil {
			cleanup()
			return vf.Bad("C16/harness/spec", "%v", e)
		}
		cconn, err = (&quic.UTransport{Transport: ct, QUICSpec: spec}).Dial(ctx, sim.ServerAddr, sim.ClientTLS(w.ClientKeys), conf())
	} else {
		cconn, err = ct.Dial(ctx, sim.ServerAddr, sim.ClientTLS(w.ClientKeys), conf())
	}
	if err != nil {
		cleanup()
		u.Class("dial-failed")
		return nil // C02/C13 decide handshakes
	}
	a := <-accCh
	if a.err != nil {
		cconn.CloseWithError(0, "")
		cleanup()
		u.Class("accept-failed")
		return nil
	}
	sconn := a.c
	// move some data (rotation of the peer-issued ID happens after ~10000 packets per ID on average: rarely; retirements
	// mainly come from the handshake: the client retires the server's handshake ID once NEW_CONNECTION_IDs arrive)
	if str, err := cconn.OpenStreamSync(ctx); err == nil {
		go func() { str.Write(bytes.Repeat([]byte{7}, c.Data)); str.Close() }()
		io.ReadAll(str)
	}
	time.Sleep(6 * time.Second) // quiet period: all ACKs exchanged, retirement delays (3 PTO, PTO <= ~1 s here) passed

	// ---- (1) foreign and retired IDs never reach a connection
	var issuedByServer = map[uint64][]byte{}
	var retiredByClient []uint64
	for _, r := range w.Router.Log {
		pk, _ := r.Pkts.([]*sim.Packet)
		for _, p := range pk {
			if r.Dir == "s2c" && p.Kind == "handshake" {
				issuedByServer[0] = append([]byte(nil), p.SCID...) // sequence number 0: the ID used during the handshake
			}
			for _, f := range p.Frames {
				if r.Dir == "s2c" && f.Name == refwire.NameNewConnectionID {
					issuedByServer[f.SeqNum] = append([]byte(nil), f.ConnID...)
				}
				if r.Dir == "c2s" && f.Name == refwire.NameRetireConnectionID && len(r.Dlv) > 0 {
					retiredByClient = append(retiredByClient, f.SeqNum)
				}
			}
		}
	}
	probe := func(dcid []byte, what string) *vf.Verdict {
		if context.Cause(sconn.Context()) != nil {
			return nil
		}
		before := sconn.ConnectionStats().BytesReceived
		pkt := append([]byte{0x40 | 0x03}, dcid...)
		pkt = append(pkt, bytes.Repeat([]byte{0x5a}, 40)...)
		w.Router.Inject(sim.C2S, sim.ClientAddr, sim.ServerAddr, pkt, "probe:"+what)
		time.Sleep(time.Duration(c.RTTms)*time.Millisecond + 20*time.Millisecond)
		if after := sconn.ConnectionStats().BytesReceived; after != before {
			ids, _ := st.VerifRouting()
			_ = ids
			return vf.Bad("C16/routing/"+what+"-id-reaches-connection", "a datagram addressed to %s connection ID %x was handed to the server connection (its BytesReceived moved from %d to %d while the connection was idle); server routes %x now; t=%v", what, dcid, before, after, ids, w.Router.Now())
		}
		return nil
	}
	rnd := make([]byte, 4)
	for i := range rnd {
		rnd[i] = byte(c.Seed >> (8 * uint(i)))
	}
	if v := probe(rnd, "foreign"); v != nil {
		cleanup()
		return v
	}
	nRetiredProbed := 0
	for _, seq := range retiredByClient {
		if id, ok := issuedByServer[seq]; ok {
			if v := probe(id, "retired"); v != nil {
				v.Detail += fmt.Sprintf(" (sequence number %d, retired by the client >= 6 s earlier)", seq)
				cleanup()
				return v
			}
			nRetiredProbed++
		}
	}
	if nRetiredProbed > 0 {
		u.Class("retired-id-probed")
	}

	// ---- (2) end the connection, wait for the closing period, routing must be empty
	switch c.End {
	case "client-close":
		cconn.CloseWithError(7, "bye")
	case "server-close":
		sconn.CloseWithError(8, "bye")
	case "idle":
		time.Sleep(idle + time.Second)
	case "client-transport-close":
		ct.Close()
	}
	time.Sleep(idle + 6*time.Second) // peer's idle timeout (if the close was lost) + closing period + retirement delays
	if c.End != "client-transport-close" {
		if ids, toks := ct.VerifRouting(); len(ids) > 0 || len(toks) > 0 {
			cleanup()
			return vf.Bad("C16/routing/client-not-empty", "after %s and %v the client transport still routes %d connection IDs %x and %d reset tokens", c.End, idle+6*time.Second, len(ids), ids, len(toks))
		}
	}
	if ids, toks := st.VerifRouting(); len(ids) > 0 || len(toks) > 0 {
		cleanup()
		return vf.Bad("C16/routing/server-not-empty", "after %s and %v the server transport still routes %d connection IDs %x and %d reset tokens", c.End, idle+6*time.Second, len(ids), ids, len(toks))
	}
	cleanup()
	u.Class("end:" + c.End)
	if len(w.Router.AppliedFaults()) > 0 || nRetiredProbed > 0 {
		u.NonTrivial(c.Client, c.End, c.Data, strings.Join(w.Router.AppliedFaults(), ","))
		if u.WantSample() {
			u.Sample(c)
		}
	}
	return nil
}

func TestWireRouting(t *testing.T) {
	routeT = t
	vf.ReplayRepeat = 20
	vf.RunRapid(t, "wire-routing", genRouteCase, checkRouteCase)
}
