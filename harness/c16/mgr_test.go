package c16

// Part (a): connection IDs issued by the peer (conn_id_manager.go).
//
// The machine drives quic.VerifNewConnIDManager with recording callbacks. The reference side is
// a black-box accounting model: it knows every (sequence number -> connection ID, reset token)
// the generated peer ever put into a frame, observes what the manager reports (RETIRE frames,
// token registrations, the ID returned by Get / GetConnIDForPath) and checks after EVERY action
//
//   - held := accepted sequence numbers for which no RETIRE_CONNECTION_ID was queued;
//     everything else the manager ever saw has a RETIRE frame (exactly one, except the
//     RFC 9000 19.15 re-retirement of a frame that arrives again after its retirement);
//   - every accepted sequence number below the largest Retire Prior To is retired (MUST, 19.15);
//   - the ID in use (Get) and the path-probing IDs are held, distinct, and the registered reset
//     tokens (add minus remove callbacks) are exactly theirs; empty after Close;
//   - no error while the generated peer is conformant (RFC 9000 5.1.1, incl. the MAY about
//     exceeding temporarily together with Retire Prior To), CONNECTION_ID_LIMIT_ERROR when it
//     stores more than the advertised limit, PROTOCOL_VIOLATION for NEW_CONNECTION_ID while a
//     zero-length ID is in use.

import (
	"fmt"
	"slices"
	"sort"
	"testing"

	"pgregory.net/rapid"

	quic "github.com/refraction-networking/uquic"
	"github.com/refraction-networking/uquic/internal/protocol"
	"github.com/refraction-networking/uquic/internal/qerr"
	"github.com/refraction-networking/uquic/internal/wire"
	"github.com/refraction-networking/uquic/verif/vf"
)

const (
	sigLimitAboveBuiltin = "C16/peer-ids/limit-above-builtin-not-honoured"
	sigRepRetiresInUse   = "C16/peer-ids/repeated-frame-retires-id-in-use"
	sigRepReadmitsProbe  = "C16/peer-ids/repeated-frame-readmits-probing-id"
	sigRPTReorderIgnored = "C16/peer-ids/rpt-of-reordered-frame-ignored"
)

// MgrParams selects the sub-domain of one history.
type MgrParams struct {
	Persp   string `json:"persp"`             // "client" | "server"
	InitLen int    `json:"init_len"`          // length of the destination connection ID the connection starts with
	Spec    int    `json:"spec,omitempty"`    // 0: plain endpoint, advertised limit = protocol.MaxActiveConnectionIDs; 2..8: spec-driven client, limit applied through SetConnectionIDLimit
	Pref    bool   `json:"pref,omitempty"`    // client: the server's transport parameters carry a preferred address (sequence number 1)
	Probe   bool   `json:"probe,omitempty"`   // spec sub-domain: go up to the advertised limit even if that is an open finding (keeps it reproduced)
	NonMono bool   `json:"nonmono,omitempty"` // the peer may put a SMALLER Retire Prior To into a later frame (RFC 9000 19.15 allows it)
}

// MgrOp is one action. Sequence numbers of new frames are implied by the state (next unused).
type MgrOp struct {
	K    string `json:"k"`              // chg new deliver see sent get hs pget pret tokq conflict close
	RPT  uint64 `json:"rpt,omitempty"`  // new: Retire Prior To
	Len  int    `json:"len,omitempty"`  // new: connection ID length; chg: length of the new initial ID
	Hold bool   `json:"hold,omitempty"` // new: sent by the peer but not delivered now (loss / delay)
	Adv  bool   `json:"adv,omitempty"`  // new: adversarial - sent although it breaks the conformance rule
	Idx  int    `json:"i,omitempty"`    // deliver/conflict: index of a frame the peer sent; see: index into RETIRE frames in flight; tokq: index into known sequence numbers
	N    int    `json:"n,omitempty"`    // sent: number of SentPacket calls before Get
	Path int    `json:"path,omitempty"` // pget/pret: path ID
	Tok  bool   `json:"tok,omitempty"`  // hs (client): server transport parameters carry a stateless reset token
	What int    `json:"what,omitempty"` // conflict: 0 other connection ID, 1 other reset token
	Get  bool   `json:"get,omitempty"`  // close: a CONNECTION_CLOSE packet is packed (Get) before Close
}

type content struct {
	cid    protocol.ConnectionID
	tok    protocol.StatelessResetToken
	hasTok bool
}

type peerFrame struct {
	Seq, RPT  uint64
	Len       int
	delivered int
}

func cidFor(seq uint64, l int) protocol.ConnectionID {
	b := make([]byte, l)
	if l == 1 {
		b[0] = byte(seq)
	} else if l >= 2 {
		b[0], b[1] = byte(seq>>8), byte(seq)
		for i := 2; i < l; i++ {
			b[i] = byte(0xA0+i) ^ byte(seq*7)
		}
	}
	return protocol.ParseConnectionID(b)
}

// initCid is the connection ID of sequence number 0 (generation g: 0 initial, 1.. after ChangeInitialConnID).
func initCid(l, g int) protocol.ConnectionID {
	b := make([]byte, l)
	for i := range b {
		b[i] = byte(0x11 * i)
	}
	if l > 0 {
		b[0] = byte(0xFF - g)
	}
	return protocol.ParseConnectionID(b)
}

func tokFor(seq uint64, variant int) protocol.StatelessResetToken {
	var t protocol.StatelessResetToken
	for i := range t {
		t[i] = 0x5a
	}
	t[0], t[1], t[2] = byte(0x70+variant), byte(seq>>8), byte(seq)
	return t
}

type mgrMachine struct {
	p    MgrParams
	unit string
	m    *quic.VerifConnIDManager
	L    int

	// recordings
	frames  []wire.Frame
	tokAdds []protocol.StatelessResetToken
	tokRems []protocol.StatelessResetToken
	f0, a0, r0 int

	// model
	known       map[uint64]content
	cidSeq      map[protocol.ConnectionID]uint64
	tokSeq      map[protocol.StatelessResetToken]uint64
	altCid      map[protocol.ConnectionID]uint64        // conflicting contents the adversarial peer sent
	altTok      map[protocol.StatelessResetToken]uint64 // (must never come into use)
	retired     map[uint64]int
	active      uint64
	probing     map[int]uint64
	everProbing map[uint64]bool
	highProbing uint64
	anyProbing  bool
	maxRPT      uint64
	reg         map[protocol.StatelessResetToken]int
	initGen     int
	ignoredAt   uint64 // Retire Prior To value that arrived in a frame whose own sequence number was already behind the ID in use

	// peer
	sent       []peerFrame
	nextSeq    uint64
	pref       bool
	peerSeen   map[uint64]bool
	inFlight   []uint64 // RETIRE frames queued by us, not yet seen by the peer
	maxRPTSent uint64
	conformant bool

	livePaths []int // path IDs handed to GetConnIDForPath and not yet to RetireConnIDForPath
	deadPaths map[int]bool
	nextPath  int

	started, hsDone, closed bool
	noop                    bool // the last action was skipped by its precondition guard
	suspect                 map[uint64]bool
	phantoms                int

	// bookkeeping
	cl   map[string]bool
	opn  map[string]int
	trace []string
	sigv []byte
}

func newMgrMachine(unit string) func(MgrParams) vf.Machine[MgrOp] {
	return func(p MgrParams) vf.Machine[MgrOp] {
		m := &mgrMachine{p: p, unit: unit, L: protocol.MaxActiveConnectionIDs,
			known: map[uint64]content{}, cidSeq: map[protocol.ConnectionID]uint64{}, tokSeq: map[protocol.StatelessResetToken]uint64{},
			retired: map[uint64]int{}, probing: map[int]uint64{}, everProbing: map[uint64]bool{},
			reg: map[protocol.StatelessResetToken]int{}, peerSeen: map[uint64]bool{}, conformant: true, nextSeq: 1,
			altCid: map[protocol.ConnectionID]uint64{}, altTok: map[protocol.StatelessResetToken]uint64{},
			deadPaths: map[int]bool{}, suspect: map[uint64]bool{}, cl: map[string]bool{}, opn: map[string]int{}}
		init := initCid(p.InitLen, 0)
		m.known[0] = content{cid: init}
		m.cidSeq[init] = 0
		m.m = quic.VerifNewConnIDManager(init,
			func(t protocol.StatelessResetToken) { m.tokAdds = append(m.tokAdds, t) },
			func(t protocol.StatelessResetToken) { m.tokRems = append(m.tokRems, t) },
			func(f wire.Frame) { m.frames = append(m.frames, f) },
		)
		if p.Spec > 0 {
			// u_connection.go:134: the spec-driven client hands the limit it puts on the wire to the manager
			m.m.SetConnectionIDLimit(uint64(p.Spec))
			m.L = p.Spec
			m.cl[fmt.Sprintf("spec-limit-%d", p.Spec)] = true
		}
		if p.InitLen == 0 {
			m.cl["zero-len"] = true
		}
		if p.Pref && p.Persp == "client" {
			m.pref, m.nextSeq = true, 2 // RFC 9000 5.1.1: the preferred-address ID has sequence number 1
		}
		return m
	}
}

// ---------------------------------------------------------------- model helpers

func (m *mgrMachine) zeroLen() bool { return m.known[0].cid.Len() == 0 && m.active == 0 }

func (m *mgrMachine) held() []uint64 {
	var out []uint64
	for s := range m.known {
		if m.retired[s] == 0 {
			out = append(out, s)
		}
	}
	sort.Slice(out, func(i, j int) bool { return out[i] < out[j] })
	return out
}

func (m *mgrMachine) isProbing(s uint64) bool {
	for _, x := range m.probing {
		if x == s {
			return true
		}
	}
	return false
}

func (m *mgrMachine) spares() []uint64 {
	var out []uint64
	for _, s := range m.held() {
		if s != m.active && !m.isProbing(s) {
			out = append(out, s)
		}
	}
	return out
}

// peerCount is the number of connection IDs the peer must regard as active if it sends a frame
// (n, rpt) now: everything it issued from rpt upwards that it has not seen retired.
func (m *mgrMachine) peerCount(n, rpt uint64) int {
	c := 0
	cnt := func(s uint64) {
		if s >= rpt && !m.peerSeen[s] {
			c++
		}
	}
	cnt(0)
	if m.pref {
		cnt(1)
	}
	for _, f := range m.sent {
		cnt(f.Seq)
	}
	if n >= m.nextSeq {
		cnt(n)
	}
	return c
}

func (m *mgrMachine) minConformantRPT(n uint64) uint64 {
	for r := m.maxRPTSent; r < n; r++ {
		if m.peerCount(n, r) <= m.L {
			return r
		}
	}
	return n
}

// dupRisk names the open finding a repeated frame for seq would run into ("" if none).
func (m *mgrMachine) dupRisk(seq uint64) string {
	if _, ok := m.known[seq]; !ok {
		return ""
	}
	if m.retired[seq] == 0 && (seq == m.active || m.isProbing(seq)) {
		lim := m.active
		if m.anyProbing && m.highProbing > lim {
			lim = m.highProbing
		}
		if seq < lim {
			return sigRepRetiresInUse
		}
	}
	if m.everProbing[seq] {
		return sigRepReadmitsProbe
	}
	return ""
}

// susAny attributes a stored-too-many symptom to the open finding once a path-probing ID may have been stored twice.
func (m *mgrMachine) susAny(sig string) string {
	if m.phantoms > 0 {
		return sigRepReadmitsProbe
	}
	return sig
}

func (m *mgrMachine) mark() { m.f0, m.a0, m.r0 = len(m.frames), len(m.tokAdds), len(m.tokRems) }

func (m *mgrMachine) sus(seq uint64, sig string) string {
	if m.suspect[seq] {
		return sigRepReadmitsProbe
	}
	return sig
}

type opctx struct {
	kind     string // add get pget pret hs other
	seq      uint64 // add: sequence number of the frame
	hadErr   bool
	adds     int // number of token adds already accounted for by the caller (pget, hs)
}

// settle digests everything the manager reported during the current action and checks the
// invariants that hold after every action.
func (m *mgrMachine) settle(c opctx) *vf.Verdict {
	inOp := map[uint64]bool{}
	oldActive := m.active
	for _, fr := range m.frames[m.f0:] {
		rf, ok := fr.(*wire.RetireConnectionIDFrame)
		if !ok {
			return vf.Bad("C16/peer-ids/unexpected-frame", "the manager queued %T %+v", fr, fr)
		}
		s := rf.SequenceNumber
		if _, ok := m.known[s]; !ok {
			return vf.Bad("C16/peer-ids/retire-unknown-seq", "RETIRE_CONNECTION_ID for sequence number %d which the peer never issued (known %v)", s, m.held())
		}
		if inOp[s] {
			return vf.Bad(m.sus(s, "C16/peer-ids/retire-duplicate"), "two RETIRE_CONNECTION_ID frames for sequence number %d in one action (%s)", s, c.kind)
		}
		inOp[s] = true
		if m.retired[s] > 0 && !(c.kind == "add" && c.seq == s) {
			return vf.Bad(m.sus(s, "C16/peer-ids/retire-duplicate"), "sequence number %d retired again (action %s) although its RETIRE_CONNECTION_ID was queued before and no frame for it arrived", s, c.kind)
		}
		if c.kind != "add" && c.kind != "get" && c.kind != "pret" {
			return vf.Bad("C16/peer-ids/unexpected-frame", "action %s queued RETIRE_CONNECTION_ID %d", c.kind, s)
		}
		m.retired[s]++
		m.inFlight = append(m.inFlight, s)
	}
	adds := m.tokAdds[m.a0:]
	for _, t := range adds {
		s, ok := m.tokSeq[t]
		if as, alt := m.altTok[t]; !ok && alt {
			return vf.Bad(m.sus(as, "C16/peer-ids/conflicting-content-used"), "registered the reset token of the SECOND, conflicting frame for sequence number %d", as)
		}
		if !ok {
			return vf.Bad("C16/tokens/unknown-token", "registered a reset token %x the peer never sent", t)
		}
		m.reg[t]++
		if m.reg[t] > 1 {
			return vf.Bad(m.sus(s, "C16/tokens/double-add"), "reset token of sequence number %d registered twice", s)
		}
	}
	for _, t := range m.tokRems[m.r0:] {
		m.reg[t]--
		if m.reg[t] < 0 {
			return vf.Bad(m.sus(m.tokSeq[t], "C16/tokens/remove-unregistered"), "reset token %x (sequence number %d) removed although it is not registered", t, m.tokSeq[t])
		}
	}
	// which ID is in use now? A change of the ID in use registers the new ID's token.
	switch c.kind {
	case "add", "get":
		if len(adds) > 1 {
			return vf.Bad("C16/tokens/unexpected-add", "action %s registered %d tokens", c.kind, len(adds))
		}
		if len(adds) == 1 {
			na := m.tokSeq[adds[0]]
			if na != m.active {
				if m.retired[na] > 0 {
					return vf.Bad(m.sus(na, "C16/peer-ids/retired-id-activated"), "sequence number %d became the ID in use although RETIRE_CONNECTION_ID was queued for it", na)
				}
				if m.isProbing(na) {
					return vf.Bad(m.sus(na, "C16/peer-ids/probing-id-activated"), "sequence number %d became the ID in use while it is allocated to a probed path", na)
				}
				if !inOp[oldActive] {
					return vf.Bad("C16/peer-ids/rotation-not-reported", "ID in use changed %d -> %d (action %s) without RETIRE_CONNECTION_ID for %d", oldActive, na, c.kind, oldActive)
				}
				m.active = na
				if c.kind == "get" {
					m.cl["rotation"] = true
				} else {
					m.cl["rpt-retired-active"] = true
				}
			}
		}
	default:
		if len(adds) != c.adds {
			return vf.Bad("C16/tokens/unexpected-add", "action %s registered %d tokens, expected %d", c.kind, len(adds), c.adds)
		}
	}
	for p, s := range m.probing {
		if m.retired[s] > 0 {
			delete(m.probing, p)
			if c.kind == "add" {
				m.cl["rpt-retired-probing"] = true
			}
		}
	}
	if m.retired[m.active] > 0 {
		return vf.Bad(m.sus(m.active, "C16/peer-ids/active-retired-but-still-used"), "RETIRE_CONNECTION_ID queued for sequence number %d, which stays the ID in use (action %s)", m.active, c.kind)
	}
	if !c.hadErr {
		for s := range m.known {
			if s < m.maxRPT && m.retired[s] == 0 {
				if m.ignoredAt != 0 && m.ignoredAt == m.maxRPT {
					return vf.Bad(sigRPTReorderIgnored, "sequence number %d is below the largest received Retire Prior To %d but was not retired: the increase came in a reordered frame whose own sequence number was already behind the ID in use (RFC 9000 19.15: MUST retire)", s, m.maxRPT)
				}
				return vf.Bad("C16/peer-ids/rpt-not-honoured", "sequence number %d is below the largest received Retire Prior To %d but no RETIRE_CONNECTION_ID was queued (held %v)", s, m.maxRPT, m.held())
			}
		}
	}
	// registered tokens == tokens of {ID in use, probing IDs}
	exp := map[protocol.StatelessResetToken]uint64{}
	if k := m.known[m.active]; k.hasTok {
		exp[k.tok] = m.active
	}
	for _, s := range m.probing {
		exp[m.known[s].tok] = s
	}
	for t, s := range exp {
		if m.reg[t] != 1 {
			return vf.Bad(m.sus(s, "C16/tokens/registered-mismatch"), "reset token of sequence number %d (in use %d, probing %v) is not registered after action %s", s, m.active, m.probing, c.kind)
		}
	}
	for t, n := range m.reg {
		if _, ok := exp[t]; n != 0 && !ok {
			return vf.Bad(m.sus(m.tokSeq[t], "C16/tokens/registered-mismatch"), "reset token of sequence number %d stays registered after action %s although the ID is neither in use (%d) nor probing (%v)", m.tokSeq[t], c.kind, m.active, m.probing)
		}
	}
	if h := len(m.held()); h == m.L {
		m.cl["held-at-limit"] = true
	} else if h > m.L && m.conformant && !c.hadErr {
		return vf.Bad("C16/peer-ids/held-exceeds-limit", "peer is conformant but %d connection IDs are held without RETIRE (limit %d): %v", h, m.L, m.held())
	}
	return nil
}

// doClose is what Conn.handleCloseError does: optionally pack a CONNECTION_CLOSE (Get), then Close.
func (m *mgrMachine) doClose(get bool) *vf.Verdict {
	if get {
		if v := m.get(0); v != nil {
			return v
		}
	}
	m.mark()
	m.m.Close()
	m.closed = true
	if len(m.frames) != m.f0 || len(m.tokAdds) != m.a0 {
		return vf.Bad("C16/tokens/left-after-close", "Close queued frames or registered tokens")
	}
	for _, t := range m.tokRems[m.r0:] {
		m.reg[t]--
		if m.reg[t] < 0 {
			return vf.Bad(m.sus(m.tokSeq[t], "C16/tokens/remove-unregistered"), "Close removed reset token of sequence number %d which is not registered", m.tokSeq[t])
		}
	}
	for t, n := range m.reg {
		if n != 0 {
			return vf.Bad(m.sus(m.tokSeq[t], "C16/tokens/left-after-close"), "reset token of sequence number %d still registered after Close (in use %d, probing %v)", m.tokSeq[t], m.active, m.probing)
		}
	}
	return nil
}

func (m *mgrMachine) get(n int) *vf.Verdict {
	for i := 0; i < n; i++ {
		m.m.SentPacket()
	}
	m.mark()
	old := m.active
	cid := m.m.Get()
	if v := m.settle(opctx{kind: "get"}); v != nil {
		return v
	}
	nf := len(m.frames) - m.f0
	if (m.active == old && nf != 0) || (m.active != old && nf != 1) {
		return vf.Bad("C16/peer-ids/unexpected-frame", "Get queued %d frames (ID in use %d -> %d)", nf, old, m.active)
	}
	if want := m.known[m.active].cid; cid != want {
		if s, ok := m.cidSeq[cid]; ok && m.retired[s] > 0 {
			return vf.Bad(m.sus(s, "C16/peer-ids/retired-id-activated"), "Get returned the ID of sequence number %d for which RETIRE_CONNECTION_ID was queued", s)
		}
		if as, alt := m.altCid[cid]; alt {
			return vf.Bad(m.sus(as, "C16/peer-ids/conflicting-content-used"), "Get returned the connection ID of the SECOND, conflicting frame for sequence number %d", as)
		}
		return vf.Bad("C16/peer-ids/get-wrong-id", "Get returned %s, the ID in use is sequence number %d = %s", cid, m.active, want)
	}
	return nil
}

func (m *mgrMachine) deliver(f peerFrame, variant int, what int) *vf.Verdict {
	cid, tok := cidFor(f.Seq, f.Len), tokFor(f.Seq, 0)
	if variant != 0 {
		if what == 0 {
			cid = cidFor(f.Seq+0x4000, f.Len)
		} else {
			tok = tokFor(f.Seq, 1)
		}
		m.altCid[cid], m.altTok[tok] = f.Seq, f.Seq
		delete(m.altCid, cidFor(f.Seq, f.Len))
		delete(m.altTok, tokFor(f.Seq, 0))
	}
	wf := &wire.NewConnectionIDFrame{SequenceNumber: f.Seq, RetirePriorTo: f.RPT, ConnectionID: cid, StatelessResetToken: tok}
	zero := m.zeroLen()
	k, wasKnown := m.known[f.Seq]
	conflict := wasKnown && (k.cid != cid || k.tok != tok)
	inUse := wasKnown && m.retired[f.Seq] == 0 && (f.Seq == m.active || m.isProbing(f.Seq))
	if wasKnown && m.everProbing[f.Seq] {
		m.suspect[f.Seq] = true
	}
	m.mark()
	err := m.m.Add(wf)
	if wasKnown && m.everProbing[f.Seq] && len(m.frames) == m.f0 {
		m.phantoms++ // not answered by a RETIRE: the manager may have stored the ID a second time
	}
	if inUse {
		for _, fr := range m.frames[m.f0:] {
			if rf, ok := fr.(*wire.RetireConnectionIDFrame); ok && rf.SequenceNumber == f.Seq {
				return vf.Bad(sigRepRetiresInUse, "a repeated NEW_CONNECTION_ID frame for sequence number %d arrived while that ID is in use (ID in use %d, path-probing IDs %v): the manager queued RETIRE_CONNECTION_ID %d but keeps using the ID", f.Seq, m.active, m.probing, f.Seq)
			}
		}
	}
	if zero {
		m.cl["zero-len-newcid"] = true
		code, isTE := transportCode(err)
		if err == nil {
			return vf.Bad("C16/peer-ids/zero-length-newcid-accepted", "NEW_CONNECTION_ID accepted although a zero-length connection ID is in use (RFC 9000 19.15)")
		}
		if !isTE || code != qerr.ProtocolViolation {
			return vf.Bad("C16/peer-ids/wrong-error-code", "NEW_CONNECTION_ID with zero-length ID in use: want PROTOCOL_VIOLATION, got %v", err)
		}
		if v := m.settle(opctx{kind: "add", seq: f.Seq, hadErr: true}); v != nil {
			return v
		}
		return m.doClose(true)
	}
	if !wasKnown {
		m.known[f.Seq] = content{cid: cid, tok: tok, hasTok: true}
		m.cidSeq[cid] = f.Seq
		m.tokSeq[tok] = f.Seq
		if m.retired[f.Seq] == 0 && (f.Seq < m.active || f.Seq < m.maxRPT) {
			m.cl["late-frame"] = true
		}
	} else if !conflict {
		m.cl["dup"] = true
	}
	if conflict {
		m.cl["conflict"] = true
		if err == nil {
			m.cl["conflict-ignored"] = true
			if f.RPT > m.maxRPT {
				m.maxRPT = f.RPT
			}
			return m.settle(opctx{kind: "add", seq: f.Seq})
		}
		m.cl["conflict-rejected"] = true
		if code, isTE := transportCode(err); isTE && code != qerr.ProtocolViolation {
			return vf.Bad(m.susAny("C16/peer-ids/wrong-error-code"), "conflicting content for sequence number %d: got %v", f.Seq, err)
		}
		if v := m.settle(opctx{kind: "add", seq: f.Seq, hadErr: true}); v != nil {
			return v
		}
		return m.doClose(true)
	}
	if f.RPT > m.maxRPT {
		m.cl["rpt-jump"] = true
		if f.Seq < m.active || (m.anyProbing && f.Seq < m.highProbing) {
			m.ignoredAt = f.RPT
		}
		m.maxRPT = f.RPT
	}
	if v := m.settle(opctx{kind: "add", seq: f.Seq, hadErr: err != nil}); v != nil {
		return v
	}
	heldN, spareN := len(m.held()), len(m.spares())
	if err != nil {
		code, isTE := transportCode(err)
		if !isTE || code != qerr.ConnectionIDLimitError {
			if m.conformant {
				return vf.Bad(m.susAny("C16/peer-ids/error-for-conformant-peer"), "Add(seq %d, rpt %d) returned %v; peer is conformant", f.Seq, f.RPT, err)
			}
			return vf.Bad(m.susAny("C16/peer-ids/wrong-error-code"), "Add(seq %d, rpt %d) returned %v", f.Seq, f.RPT, err)
		}
		m.cl["limit-error"] = true
		if heldN <= m.L {
			if m.L > protocol.MaxActiveConnectionIDs {
				if m.phantoms > 0 {
					return vf.Bad(sigRepReadmitsProbe, "repeated frame for sequence number %d (a path-probing ID) was stored a second time and tripped the limit check", f.Seq)
				}
				return vf.Bad(sigLimitAboveBuiltin, "advertised active_connection_id_limit %d (SetConnectionIDLimit), peer stays within it (%d IDs held: %v), yet Add(seq %d) returned CONNECTION_ID_LIMIT_ERROR", m.L, heldN, m.held(), f.Seq)
			}
			return vf.Bad(m.susAny("C16/peer-ids/limit-error-within-limit"), "limit %d, %d IDs held (%v), yet Add(seq %d) returned CONNECTION_ID_LIMIT_ERROR", m.L, heldN, m.held(), f.Seq)
		}
		return m.doClose(true)
	}
	if 1+spareN > m.L && m.L < protocol.MaxActiveConnectionIDs {
		// RFC 9000 5.1.1 MUST; only reachable in the spec-driven sub-domain (SetConnectionIDLimit(2..3))
		return vf.Bad("C16/peer-ids/limit-below-builtin-not-enforced", "advertised active_connection_id_limit %d (SetConnectionIDLimit) but %d spare IDs + the one in use are stored and Add(seq %d) returned nil", m.L, spareN, f.Seq)
	}
	if 1+spareN > m.L {
		return vf.Bad("C16/peer-ids/limit-not-enforced", "limit %d but %d spare IDs + the one in use are stored and Add(seq %d) returned nil", m.L, spareN, f.Seq)
	}
	return nil
}

// ---------------------------------------------------------------- Apply

// Apply executes one action and appends a line to the labelled trace that accompanies a violation.
func (m *mgrMachine) Apply(op MgrOp) *vf.Verdict {
	f0 := len(m.frames)
	v := m.apply(op)
	var rs []uint64
	for _, fr := range m.frames[f0:] {
		if rf, ok := fr.(*wire.RetireConnectionIDFrame); ok {
			rs = append(rs, rf.SequenceNumber)
		}
	}
	m.trace = append(m.trace, fmt.Sprintf("%d %+v => retire%v in-use=%d probing=%v held=%v peer-next=%d maxRPT=%d closed=%v", len(m.trace), op, rs, m.active, m.probing, m.held(), m.nextSeq, m.maxRPT, m.closed))
	if v != nil {
		v.Trace = m.trace
	}
	return v
}

func (m *mgrMachine) apply(op MgrOp) *vf.Verdict {
	if m.closed {
		return nil
	}
	m.noop = true // cleared once the action passed its precondition guard
	m.opn[op.K]++
	m.sigv = append(m.sigv, op.K[0], byte(op.RPT), byte(op.Idx), byte(op.Path), byte(op.N>>8))
	canAdd := m.p.Persp == "server" || m.hsDone
	switch op.K {
	case "chg":
		// Retry / first packet of the handshake: only before anything else happened (connection.go:1545,1671,1681)
		if m.started || m.initGen >= 2 || op.Len < 0 || op.Len > 20 {
			return nil
		}
		m.noop = false
		m.initGen++
		nc := initCid(op.Len, m.initGen)
		delete(m.cidSeq, m.known[0].cid)
		m.known[0] = content{cid: nc}
		m.cidSeq[nc] = 0
		m.mark()
		m.m.ChangeInitialConnID(nc)
		m.cl["chg-initial"] = true
		if nc.Len() == 0 {
			m.cl["zero-len"] = true
		}
		return m.settle(opctx{kind: "other"})
	case "new":
		if op.Len < 1 || op.Len > 20 || op.RPT > m.nextSeq {
			return nil
		}
		n := m.nextSeq
		ok := m.peerCount(n, op.RPT) <= m.L
		if !m.p.NonMono && op.RPT < m.maxRPTSent {
			return nil
		}
		if !ok && !op.Adv {
			return nil
		}
		if !canAdd && !op.Hold {
			return nil
		}
		m.noop = false
		m.started = m.started || !op.Hold // a frame still in flight does not preclude the Retry / first-packet ID change
		if !ok {
			m.conformant = false
			m.cl["exceed"] = true
		} else if m.peerCount(n, 0) > m.L {
			m.cl["rpt-excess"] = true // RFC 9000 5.1.1: MAY exceed temporarily when Retire Prior To makes room
		}
		if op.RPT < m.maxRPTSent {
			m.cl["rpt-nonmonotone"] = true
		}
		f := peerFrame{Seq: n, RPT: op.RPT, Len: op.Len}
		m.nextSeq++
		m.maxRPTSent = max(m.maxRPTSent, op.RPT)
		m.sent = append(m.sent, f)
		if op.Hold {
			m.cl["held-back"] = true
			return nil
		}
		m.sent[len(m.sent)-1].delivered++
		return m.deliver(f, 0, 0)
	case "deliver":
		if !canAdd || op.Idx < 0 || op.Idx >= len(m.sent) {
			return nil
		}
		m.started, m.noop = true, false
		f := m.sent[op.Idx]
		if f.delivered == 0 && op.Idx != len(m.sent)-1 {
			m.cl["reorder"] = true
		}
		m.sent[op.Idx].delivered++
		return m.deliver(f, 0, 0)
	case "conflict":
		if !canAdd || op.Idx < 0 || op.Idx >= len(m.sent) || m.sent[op.Idx].delivered == 0 {
			return nil
		}
		m.started, m.noop = true, false
		m.conformant = false
		return m.deliver(m.sent[op.Idx], 1, op.What)
	case "see":
		if op.Idx < 0 || op.Idx >= len(m.inFlight) {
			return nil
		}
		m.noop = false
		m.peerSeen[m.inFlight[op.Idx]] = true
		m.inFlight = append(m.inFlight[:op.Idx], m.inFlight[op.Idx+1:]...)
		return nil
	case "sent":
		if op.N < 0 || op.N > 20000 {
			return nil
		}
		m.noop = false // packets are sent (Initial) before ChangeInitialConnID can happen: not "started"
		return m.get(op.N)
	case "get":
		m.noop = false
		return m.get(0)
	case "hs":
		if m.hsDone {
			return nil
		}
		m.started, m.hsDone, m.noop = true, true, false
		m.mark()
		m.m.SetHandshakeComplete()
		adds := 0
		if m.p.Persp == "client" {
			// connection.go:2428-2435 applyTransportParameters, client side, right after SetHandshakeComplete
			if op.Tok {
				k := m.known[0]
				k.tok, k.hasTok = tokFor(0, 0), true
				m.known[0] = k
				m.tokSeq[k.tok] = 0
				m.m.SetStatelessResetToken(k.tok)
				adds++
			}
			if m.p.Pref && !m.zeroLen() { // RFC 9000 18.2: no preferred address together with a zero-length connection ID
				c := content{cid: cidFor(1, 8), tok: tokFor(1, 0), hasTok: true}
				if err := m.m.AddFromPreferredAddress(c.cid, c.tok); err != nil {
					return vf.Bad("C16/peer-ids/error-for-conformant-peer", "AddFromPreferredAddress returned %v", err)
				}
				m.known[1] = c
				m.cidSeq[c.cid] = 1
				m.tokSeq[c.tok] = 1
				m.cl["pref-addr"] = true
			}
		}
		return m.settle(opctx{kind: "hs", adds: adds})
	case "pget":
		return m.pathGet(op.Path)
	case "pret":
		return m.pathRetire(op.Path)
	case "tokq":
		all := make([]uint64, 0, len(m.known))
		for s := range m.known {
			all = append(all, s)
		}
		sort.Slice(all, func(i, j int) bool { return all[i] < all[j] })
		if op.Idx < 0 || op.Idx >= len(all) {
			return nil
		}
		s := all[op.Idx]
		k := m.known[s]
		if !k.hasTok {
			return nil
		}
		m.noop = false
		want := (s == m.active || m.isProbing(s)) && m.retired[s] == 0
		if got := m.m.IsActiveStatelessResetToken(k.tok); got != want {
			return vf.Bad(m.sus(s, "C16/tokens/is-active-wrong"), "IsActiveStatelessResetToken(token of sequence number %d) = %v; in use %d, probing %v, retired %v", s, got, m.active, m.probing, m.retired[s] > 0)
		}
		return nil
	case "close":
		m.noop = false
		m.cl["close"] = true
		return m.doClose(op.Get)
	}
	return nil
}

func (m *mgrMachine) pathGet(path int) *vf.Verdict {
	if m.deadPaths[path] || path < 0 {
		return nil // precondition: the path managers never reuse a path ID
	}
	m.started, m.noop = true, false
	if !slices.Contains(m.livePaths, path) {
		m.livePaths = append(m.livePaths, path)
	}
	if path >= m.nextPath {
		m.nextPath = path + 1
	}
	m.mark()
	cid, ok := m.m.GetConnIDForPath(quic.VerifPathID(path))
	if m.zeroLen() {
		if !ok || cid.Len() != 0 {
			return vf.Bad("C16/path/zero-length", "GetConnIDForPath with zero-length IDs returned %s, %v", cid, ok)
		}
		return m.settle(opctx{kind: "pget"})
	}
	if s, has := m.probing[path]; has {
		if !ok || cid != m.known[s].cid {
			return vf.Bad(m.sus(s, "C16/path/same-path-different-id"), "path %d holds sequence number %d, GetConnIDForPath now returned %s, %v", path, s, cid, ok)
		}
		return m.settle(opctx{kind: "pget"})
	}
	sp := m.spares()
	if !ok {
		if len(sp) > 0 {
			return vf.Bad("C16/path/spare-not-used", "GetConnIDForPath(%d) found no ID although spare sequence numbers %v are held", path, sp)
		}
		m.cl["path-no-id"] = true
		return m.settle(opctx{kind: "pget"})
	}
	s, known := m.cidSeq[cid]
	if as, alt := m.altCid[cid]; !known && alt {
		return vf.Bad(m.sus(as, "C16/peer-ids/conflicting-content-used"), "GetConnIDForPath(%d) returned the connection ID of the SECOND, conflicting frame for sequence number %d", path, as)
	}
	if !known {
		return vf.Bad("C16/path/id-not-spare", "GetConnIDForPath(%d) returned %s which the peer never issued", path, cid)
	}
	if m.retired[s] > 0 || s == m.active || m.isProbing(s) {
		return vf.Bad(m.sus(s, "C16/path/id-not-spare"), "GetConnIDForPath(%d) returned sequence number %d: retired=%v, in use=%v, probing elsewhere=%v", path, s, m.retired[s] > 0, s == m.active, m.isProbing(s))
	}
	m.probing[path] = s
	m.everProbing[s] = true
	if !m.anyProbing || s > m.highProbing {
		m.highProbing = s
	}
	m.anyProbing = true
	m.cl["path-probe"] = true
	return m.settle(opctx{kind: "pget", adds: 1})
}

func (m *mgrMachine) pathRetire(path int) *vf.Verdict {
	m.started, m.noop = true, false
	m.deadPaths[path] = true
	if i := slices.Index(m.livePaths, path); i >= 0 {
		m.livePaths = slices.Delete(m.livePaths, i, i+1)
	}
	m.mark()
	s, has := m.probing[path]
	m.m.RetireConnIDForPath(quic.VerifPathID(path))
	nf := len(m.frames) - m.f0
	if !has || m.zeroLen() {
		if nf != 0 || len(m.tokRems) != m.r0 {
			return vf.Bad("C16/path/unexpected-callback", "RetireConnIDForPath(%d) on a path without ID queued %d frames / removed %d tokens", path, nf, len(m.tokRems)-m.r0)
		}
		return m.settle(opctx{kind: "pret"})
	}
	if nf != 1 {
		return vf.Bad(m.sus(s, "C16/path/retire-not-reported"), "RetireConnIDForPath(%d) (sequence number %d) queued %d frames", path, s, nf)
	}
	if rf, ok := m.frames[m.f0].(*wire.RetireConnectionIDFrame); !ok || rf.SequenceNumber != s {
		return vf.Bad(m.sus(s, "C16/path/retire-not-reported"), "RetireConnIDForPath(%d): want RETIRE_CONNECTION_ID %d, got %+v", path, s, m.frames[m.f0])
	}
	m.cl["path-retire"] = true
	return m.settle(opctx{kind: "pret"})
}

// ---------------------------------------------------------------- Gen

func (m *mgrMachine) Gen(t *rapid.T) MgrOp {
	u := vf.U(m.unit)
	if m.closed {
		return MgrOp{K: "get"} // ignored
	}
	if !m.started && m.initGen < 2 && rapid.IntRange(0, 3).Draw(t, "chg") == 0 {
		l := rapid.SampledFrom([]int{0, 0, 4, 8, 8, 16, 20}).Draw(t, "len")
		return MgrOp{K: "chg", Len: l}
	}
	canAdd := m.p.Persp == "server" || m.hsDone
	if !m.hsDone && rapid.IntRange(0, 4).Draw(t, "hs") == 0 {
		return MgrOp{K: "hs", Tok: rapid.Bool().Draw(t, "tok")}
	}
	for try := 0; try < 8; try++ {
		k := rapid.SampledFrom([]string{"new", "new", "new", "new", "new", "new", "deliver", "deliver", "deliver", "see", "see", "see",
			"sent", "sent", "get", "pget", "pget", "pret", "tokq", "adv", "close"}).Draw(t, "kind")
		switch k {
		case "new":
			n := m.nextSeq
			op := MgrOp{K: "new", Len: rapid.SampledFrom([]int{1, 4, 8, 8, 8, 16, 20}).Draw(t, "len")}
			op.Hold = !canAdd || rapid.IntRange(0, 3).Draw(t, "hold") == 0
			mode := rapid.IntRange(0, 9).Draw(t, "rptmode")
			if m.p.NonMono && m.maxRPTSent > 0 && rapid.IntRange(0, 2).Draw(t, "low") == 0 {
				mode = 9
			}
			switch mode {
			case 0, 1, 2, 3, 4:
				op.RPT = m.maxRPTSent
			case 5:
				op.RPT = n
			case 6, 7:
				op.RPT = rapid.Uint64Range(m.maxRPTSent, n).Draw(t, "rpt")
			case 8:
				op.RPT = m.minConformantRPT(n)
			default:
				if m.p.NonMono {
					op.RPT = rapid.Uint64Range(0, m.maxRPTSent).Draw(t, "rptlow")
				} else {
					op.RPT = m.maxRPTSent
				}
			}
			if m.zeroLen() {
				if rapid.IntRange(0, 5).Draw(t, "zl") != 0 {
					continue // a conformant peer never sends NEW_CONNECTION_ID to an endpoint it gave a zero-length ID
				}
				op.Adv, op.Hold = true, false
				if !canAdd {
					continue
				}
				return op
			}
			genL := m.L
			if m.L > protocol.MaxActiveConnectionIDs && vf.IsKnown(sigLimitAboveBuiltin) && !m.p.Probe {
				genL = protocol.MaxActiveConnectionIDs // open finding: keep the search going below the built-in limit
				if m.peerCount(n, op.RPT) > genL {
					u.Excluded(sigLimitAboveBuiltin)
				}
			}
			if m.peerCount(n, op.RPT) > genL {
				if len(m.inFlight) > 0 && rapid.Bool().Draw(t, "wait") {
					return MgrOp{K: "see", Idx: rapid.IntRange(0, len(m.inFlight)-1).Draw(t, "i")}
				}
				if rapid.IntRange(0, 2).Draw(t, "room") == 0 {
					continue
				}
				op.RPT = m.minConformantRPT(n)
				if m.peerCount(n, op.RPT) > genL {
					for r := op.RPT; r <= n; r++ {
						if m.peerCount(n, r) <= genL {
							op.RPT = r
							break
						}
					}
				}
			}
			return op
		case "deliver":
			if !canAdd || len(m.sent) == 0 {
				continue
			}
			i := rapid.IntRange(0, len(m.sent)-1).Draw(t, "i")
			if rapid.Bool().Draw(t, "undelivered-first") {
				for j, f := range m.sent {
					if f.delivered == 0 {
						i = j
						break
					}
				}
			}
			f := m.sent[i]
			// open findings: keep the search going past them (one draw in 16 still reproduces them)
			if r := m.dupRisk(f.Seq); r != "" && vf.IsKnown(r) && rapid.IntRange(0, 15).Draw(t, "keep") != 0 {
				u.Excluded(r)
				continue
			}
			return MgrOp{K: "deliver", Idx: i}
		case "see":
			if len(m.inFlight) == 0 {
				continue
			}
			return MgrOp{K: "see", Idx: rapid.IntRange(0, len(m.inFlight)-1).Draw(t, "i")}
		case "sent":
			return MgrOp{K: "sent", N: rapid.SampledFrom([]int{1, 10, 50, 15000, 15000}).Draw(t, "n")}
		case "get":
			return MgrOp{K: "get"}
		case "pget":
			// path IDs are never reused after RetireConnIDForPath (path_manager.go / path_manager_outgoing.go)
			if len(m.livePaths) > 0 && rapid.IntRange(0, 2).Draw(t, "again") == 0 {
				return MgrOp{K: "pget", Path: rapid.SampledFrom(m.livePaths).Draw(t, "path")}
			}
			if len(m.livePaths) >= 4 {
				continue
			}
			return MgrOp{K: "pget", Path: m.nextPath}
		case "pret":
			if len(m.livePaths) > 0 && rapid.IntRange(0, 3).Draw(t, "live") != 0 {
				return MgrOp{K: "pret", Path: rapid.SampledFrom(m.livePaths).Draw(t, "path")}
			}
			return MgrOp{K: "pret", Path: m.nextPath + rapid.IntRange(0, 2).Draw(t, "unknown")}
		case "tokq":
			if len(m.known) == 0 {
				continue
			}
			return MgrOp{K: "tokq", Idx: rapid.IntRange(0, len(m.known)-1).Draw(t, "i")}
		case "adv":
			if !canAdd || m.zeroLen() || rapid.IntRange(0, 2).Draw(t, "rare") != 0 {
				continue
			}
			if rapid.Bool().Draw(t, "conflict") {
				var idx []int
				for i, f := range m.sent {
					if f.delivered > 0 {
						idx = append(idx, i)
					}
				}
				if len(idx) == 0 {
					continue
				}
				ci := rapid.SampledFrom(idx).Draw(t, "i")
				if r := m.dupRisk(m.sent[ci].Seq); r != "" && vf.IsKnown(r) && rapid.IntRange(0, 15).Draw(t, "keep") != 0 {
					u.Excluded(r)
					continue
				}
				return MgrOp{K: "conflict", Idx: ci, What: rapid.IntRange(0, 1).Draw(t, "what")}
			}
			return MgrOp{K: "new", Adv: true, RPT: m.maxRPTSent, Len: 8}
		case "close":
			if rapid.IntRange(0, 5).Draw(t, "rare") != 0 {
				continue
			}
			return MgrOp{K: "close", Get: rapid.Bool().Draw(t, "get")}
		}
	}
	return MgrOp{K: "get"}
}

func (m *mgrMachine) Finish(u *vf.Unit) *vf.Verdict {
	if !m.closed {
		if v := m.get(0); v != nil {
			return v
		}
		if v := m.doClose(false); v != nil {
			return v
		}
	}
	// every sequence number we stopped holding was reported, every held one was not: by construction of
	// held := known - retired this is the accounting identity; what remains to check at the end is that
	// nothing is both retired and registered (done in doClose) and the class bookkeeping.
	for c := range m.cl {
		u.Class(c)
	}
	for k, n := range m.opn {
		u.ClassN("op:"+k, n)
	}
	if m.p.Spec == 0 {
		u.Class("plain-limit")
	}
	if m.cl["rpt-retired-active"] || m.cl["rotation"] {
		u.NonTrivial(m.sigv, m.p.Persp, m.p.InitLen, m.p.Spec)
	}
	return nil
}

func genMgrParams(spec bool) func(t *rapid.T) MgrParams {
	return func(t *rapid.T) MgrParams {
		p := MgrParams{Persp: rapid.SampledFrom([]string{"client", "server"}).Draw(t, "persp")}
		if p.Persp == "client" {
			p.InitLen = rapid.SampledFrom([]int{8, 8, 12, 20}).Draw(t, "initlen") // a client starts with a random ID of >= 8 bytes
		} else {
			p.InitLen = rapid.SampledFrom([]int{0, 4, 8, 8, 8, 16, 20}).Draw(t, "initlen")
		}
		if spec {
			p.Persp = "client"
			p.Spec = rapid.SampledFrom([]int{2, 3, 4, 5, 6, 7, 8, 8}).Draw(t, "spec")
		}
		p.Probe = spec && rapid.IntRange(0, 7).Draw(t, "probe") == 0
		p.NonMono = rapid.IntRange(0, 3).Draw(t, "nonmono") == 0
		p.Pref = p.Persp == "client" && rapid.IntRange(0, 3).Draw(t, "pref") == 0
		return p
	}
}

// TestMgrModel: base domain, advertised limit = protocol.MaxActiveConnectionIDs.
func TestMgrModel(t *testing.T) {
	vf.RunMachine(t, "mgr-model", 70, genMgrParams(false), newMgrMachine("mgr-model"))
}

// TestMgrSpecLimit: the spec-driven client's sub-domain: limit 2..8 applied through SetConnectionIDLimit.
func TestMgrSpecLimit(t *testing.T) {
	vf.RunMachine(t, "mgr-spec-limit", 70, genMgrParams(true), newMgrMachine("mgr-spec-limit"))
}

// TestMgrExhaustive enumerates EVERY action sequence up to a length bound over a small alphabet
// (server perspective, handshake completed first, limit protocol.MaxActiveConnectionIDs): new frames
// with three Retire Prior To choices (delivered or held back), re-delivery of the first four frames,
// the peer seeing the oldest RETIRE, Get, 15000 packets + Get, and two probed paths. Sequences that
// contain an action refused by its precondition guard equal a shorter sequence and are pruned.
func TestMgrExhaustive(t *testing.T) {
	u := vf.U("mgr-exhaustive")
	if vf.ReplayMode() {
		t.Skip("failures of this unit are saved in mgr-model format and replay through TestMgrModel")
	}
	alphabet := []MgrOp{
		{K: "new", Len: 8},               // Retire Prior To: unchanged
		{K: "new", Len: 8, Hold: true},   // sent, not delivered now
		{K: "new", Len: 8, RPT: 1 << 40}, // placeholder: retire everything before this ID (rpt = own number)
		{K: "new", Len: 8, RPT: 1 << 41}, // placeholder: previous largest + 1
		{K: "deliver", Idx: 0}, {K: "deliver", Idx: 1}, {K: "deliver", Idx: 2}, {K: "deliver", Idx: 3},
		{K: "see", Idx: 0},
		{K: "get"},
		{K: "sent", N: 15000},
		{K: "pget", Path: 0}, {K: "pget", Path: 1},
		{K: "pret", Path: 0}, {K: "pret", Path: 1},
	}
	L := 5
	if vf.Thorough() {
		L = 6
	}
	si, sk := vf.Shard()
	A := len(alphabet)
	seq := make([]int, 1, L)
	params := MgrParams{Persp: "server", InitLen: 8}
	var cases, pruned int
	for {
		// shard by the first two symbols; one-symbol sequences run everywhere (pruning) and count on shard 0
		count := si == 0
		cut := -1 // position of the first refused action
		if len(seq) >= 2 {
			count = (seq[0]*A+seq[1])%sk == si
			if !count {
				cut = 1 // another shard's subtree
			}
		}
		if cut < 0 {
			if count {
				cases++
				u.Case()
			}
			mk := newMgrMachine("mgr-exhaustive")(params).(*mgrMachine)
			cs := vf.MachineCase[MgrParams, MgrOp]{Params: params, Ops: []MgrOp{{K: "hs"}}}
			v := vf.Guard("C16/mgr-exhaustive", func() *vf.Verdict {
				if v := mk.Apply(cs.Ops[0]); v != nil {
					return v
				}
				for i, sym := range seq {
					op := alphabet[sym]
					if op.K == "new" {
						switch op.RPT {
						case 1 << 40:
							op.RPT = mk.nextSeq
						case 1 << 41:
							op.RPT = min(mk.maxRPTSent+1, mk.nextSeq)
						default:
							op.RPT = mk.maxRPTSent
						}
					}
					cs.Ops = append(cs.Ops, op)
					if v := mk.Apply(op); v != nil {
						return v
					}
					if mk.noop || mk.closed {
						cut = i
						return nil
					}
				}
				return mk.Finish(vf.Scratch())
			})
			if v != nil {
				cut = len(cs.Ops) - 2 // extensions of a failing prefix fail the same way
				if count && vf.U("mgr-model").Report(v, cs) {
					t.Fatalf("VIOLATION %s: %s (case %+v)", v.Sig, v.Detail, cs)
				}
			} else if count && cut < 0 && (mk.cl["rotation"] || mk.cl["rpt-retired-active"]) {
				u.NonTrivial(fmt.Sprint(seq))
				if u.WantSample() && cases%4999 == 0 {
					u.Sample(cs)
				}
			}
			if count && cut < 0 {
				for c := range mk.cl {
					u.Class(c)
				}
			}
		}
		// next sequence in length-lexicographic DFS order
		if cut >= 0 {
			pruned++
			seq = seq[:cut+1]
		} else if len(seq) < L {
			seq = append(seq, 0)
			continue
		}
		for len(seq) > 0 && seq[len(seq)-1] == A-1 {
			seq = seq[:len(seq)-1]
		}
		if len(seq) == 0 {
			break
		}
		seq[len(seq)-1]++
	}
	u.Extra("exhaustive", fmt.Sprintf("all sequences of length<=%d over %d actions (after handshake completion, server, limit %d); %d subtrees pruned at a refused action, a closed connection or a (known) violation", L, A, protocol.MaxActiveConnectionIDs, pruned))
}
