package c16

// Part (b): our own connection IDs (conn_id_generator.go).
//
// The machine drives quic.VerifNewConnIDGenerator with a deterministic counter-based
// ConnectionIDGenerator, recording runner callbacks (what the Transport would route) and a
// clock under our control. Reference model: the list of issued IDs by sequence number, the set
// the peer retired, the retired-not-yet-expired queue with the expiry the connection passed
// in, and (server) the client's original destination connection ID with its expiry.
//
// Checked after EVERY action:
//   - unretired issued IDs <= min(peer's active_connection_id_limit, protocol.MaxIssuedConnectionIDs);
//   - NEW_CONNECTION_ID frames: sequence numbers increase by one, Retire Prior To <= own number,
//     the ID is the one the generator produced, the token is HMAC-SHA256(key, id)[:16];
//   - routed IDs on the primary runner (Add minus Remove callbacks, as a multiset)
//     == unretired IDs + retired-not-yet-expired IDs (+ the original destination ID until expiry);
//   - RETIRE_CONNECTION_ID for a number never issued => PROTOCOL_VIOLATION (RFC 9000 19.16 MUST),
//     any RETIRE_CONNECTION_ID when we use zero-length IDs => PROTOCOL_VIOLATION (19.16 MUST),
//     duplicates are ignored, retiring the ID the packet arrived on is either refused with
//     PROTOCOL_VIOLATION or processed (19.16 MAY);
//   - ReplaceWithClosed hands exactly the routed set to the closed-connection handler,
//     RemoveAll leaves nothing routed; secondary runners (AddPath) hold at least every unretired ID.

import (
	"crypto/hmac"
	"crypto/sha256"
	"fmt"
	"sort"
	"testing"
	"time"

	"pgregory.net/rapid"

	quic "github.com/refraction-networking/uquic"
	"github.com/refraction-networking/uquic/internal/monotime"
	"github.com/refraction-networking/uquic/internal/protocol"
	"github.com/refraction-networking/uquic/internal/qerr"
	"github.com/refraction-networking/uquic/internal/wire"
	"github.com/refraction-networking/uquic/verif/vf"
)

type GenParams struct {
	Persp    string `json:"persp"`               // "client" | "server"
	ConnLen  int    `json:"conn_len"`            // 0 or 4..20
	Key      bool   `json:"key,omitempty"`       // Transport.StatelessResetKey configured
	ODCIDLen int    `json:"odcid_len,omitempty"` // server: length of the client's first destination connection ID
}

type GenOp struct {
	K      string `json:"k"`                // setmax retire tick hs addrunner close
	Limit  uint64 `json:"limit,omitempty"`  // setmax
	Seq    uint64 `json:"seq,omitempty"`    // retire
	Dest   int    `json:"dest,omitempty"`   // retire: index (into the sorted routed IDs) of the ID the packet arrived on
	Pto3Ms int    `json:"pto3,omitempty"`   // retire, hs, close: 3*PTO in milliseconds
	DtMs   int    `json:"dt,omitempty"`     // tick: clock advance before RemoveRetiredConnIDs
	Mode   int    `json:"mode,omitempty"`   // close: 0 ReplaceWithClosed(nil) (remote close), 1 ReplaceWithClosed(packet), 2 RemoveAll
	Runner int    `json:"runner,omitempty"` // addrunner: 1 | 2
}

// counterGen is a deterministic ConnectionIDGenerator: the n-th ID encodes n.
type counterGen struct {
	l   int
	n   uint32
	log []protocol.ConnectionID
}

func (g *counterGen) ConnectionIDLen() int { return g.l }

func (g *counterGen) GenerateConnectionID() (quic.ConnectionID, error) {
	b := make([]byte, g.l)
	for i := range b {
		b[i] = byte(0x30 + i)
	}
	if g.l >= 4 {
		b[0], b[1], b[2], b[3] = 0xC1, byte(g.n>>16), byte(g.n>>8), byte(g.n)
	}
	g.n++
	c := protocol.ParseConnectionID(b)
	g.log = append(g.log, c)
	return c, nil
}

type runnerRec struct {
	present  bool
	routed   map[protocol.ConnectionID]int
	adds     []protocol.ConnectionID
	rems     []protocol.ConnectionID
	replaced [][]protocol.ConnectionID
	repBytes [][]byte
	repExp   []time.Duration
	cb       *quic.VerifConnIDCallbacks
	a0, r0   int
}

type retiredID struct {
	cid    protocol.ConnectionID
	expiry int64
	seq    int64 // -1: original destination connection ID
}

type genMachine struct {
	p   GenParams
	g   *quic.VerifConnIDGenerator
	cg  *counterGen
	key *quic.StatelessResetKey

	frames []wire.Frame
	f0     int
	run    [3]*runnerRec

	issued     []protocol.ConnectionID
	retired    map[uint64]bool
	retireQ    []retiredID
	odcid      *protocol.ConnectionID
	odcidLive  bool // still routed as "original destination connection ID", not yet queued for removal
	limit      uint64
	now        int64
	tokens     map[protocol.StatelessResetToken]bool
	hsDone     bool
	closed     bool
	mustClose  bool
	lastExpiry int64

	cl    map[string]bool
	sigv  []byte
	trace []string
}

var genKey = quic.StatelessResetKey{1, 2, 3, 4, 5, 6, 7, 8, 9, 10, 11, 12, 13, 14, 15, 16, 17, 18, 19, 20, 21, 22, 23, 24, 25, 26, 27, 28, 29, 30, 31, 32}

func newRunnerRec() *runnerRec {
	r := &runnerRec{routed: map[protocol.ConnectionID]int{}}
	r.cb = &quic.VerifConnIDCallbacks{
		AddConnectionID:    func(c protocol.ConnectionID) { r.adds = append(r.adds, c) },
		RemoveConnectionID: func(c protocol.ConnectionID) { r.rems = append(r.rems, c) },
		ReplaceWithClosed: func(ids []protocol.ConnectionID, b []byte, d time.Duration) {
			r.replaced = append(r.replaced, append([]protocol.ConnectionID(nil), ids...))
			r.repBytes = append(r.repBytes, b)
			r.repExp = append(r.repExp, d)
		},
	}
	return r
}

func newGenMachine(p GenParams) vf.Machine[GenOp] {
	m := &genMachine{p: p, retired: map[uint64]bool{}, limit: protocol.DefaultActiveConnectionIDLimit, now: int64(monotime.Now()), // the model clock starts at the library clock: anything the library compares with its own Now() agrees with the model
		tokens: map[protocol.StatelessResetToken]bool{}, cl: map[string]bool{}}
	m.cg = &counterGen{l: p.ConnLen}
	for i := range m.run {
		m.run[i] = newRunnerRec()
	}
	// transport.go:278 / server.go:813: the first source connection ID comes from the same generator
	// and is put into the routing table by the Transport / server before the connection exists.
	initial, _ := m.cg.GenerateConnectionID()
	m.issued = []protocol.ConnectionID{initial}
	m.run[0].present = true
	m.run[0].routed[initial] = 1
	if p.Persp == "server" {
		b := make([]byte, p.ODCIDLen)
		for i := range b {
			b[i] = byte(0xD0 + i)
		}
		od := protocol.ParseConnectionID(b)
		m.odcid, m.odcidLive = &od, true
		m.run[0].routed[od] = 1 // packetHandlerMap.AddWithConnID (server.go:845)
	}
	if p.Key {
		m.key = &genKey
	}
	if p.ConnLen == 0 {
		m.cl["zero-len"] = true
	}
	m.g = quic.VerifNewConnIDGenerator(initial, m.odcid, m.key, m.run[0].cb, func(f wire.Frame) { m.frames = append(m.frames, f) }, m.cg)
	return m
}

func (m *genMachine) t() monotime.Time { return monotime.Time(m.now) }

func (m *genMachine) mark() {
	m.f0 = len(m.frames)
	for _, r := range m.run {
		r.a0, r.r0 = len(r.adds), len(r.rems)
	}
}

func (m *genMachine) unretired() []uint64 {
	var out []uint64
	for s := range m.issued {
		if !m.retired[uint64(s)] {
			out = append(out, uint64(s))
		}
	}
	return out
}

// expected routed set on the primary runner
func (m *genMachine) expected() map[protocol.ConnectionID]string {
	e := map[protocol.ConnectionID]string{}
	for _, s := range m.unretired() {
		e[m.issued[s]] = fmt.Sprintf("unretired seq %d", s)
	}
	for _, q := range m.retireQ {
		e[q.cid] = fmt.Sprintf("retired seq %d, expires in %v", q.seq, time.Duration(q.expiry-m.now))
	}
	if m.odcid != nil && m.odcidLive {
		e[*m.odcid] = "original destination connection ID"
	}
	return e
}

// arrivalIDs lists the routed IDs a RETIRE_CONNECTION_ID-carrying packet can have arrived on: the frame is
// only allowed in 1-RTT packets (frame_type.go isAllowedAtEncLevel), whose short header is parsed with
// our own connection ID length (connection.go handleShortHeaderPacket / wire.ParseConnectionID).
func (m *genMachine) arrivalIDs() []protocol.ConnectionID {
	e := m.expected()
	for c := range e {
		if c.Len() != m.p.ConnLen {
			delete(e, c)
		}
	}
	return sortedCids(e)
}

func sortedCids(e map[protocol.ConnectionID]string) []protocol.ConnectionID {
	out := make([]protocol.ConnectionID, 0, len(e))
	for c := range e {
		out = append(out, c)
	}
	sort.Slice(out, func(i, j int) bool { return string(out[i].Bytes()) < string(out[j].Bytes()) })
	return out
}

// settle digests callbacks and frames of the current action and checks the per-action invariants.
func (m *genMachine) settle(what string) *vf.Verdict {
	// frames
	for _, fr := range m.frames[m.f0:] {
		nf, ok := fr.(*wire.NewConnectionIDFrame)
		if !ok {
			return vf.Bad("C16/own-ids/unexpected-frame", "%s queued %T", what, fr)
		}
		seq := uint64(len(m.issued))
		if nf.SequenceNumber != seq {
			return vf.Bad("C16/own-ids/sequence-number", "%s: NEW_CONNECTION_ID carries sequence number %d, the previous highest is %d (must increase by one, RFC 9000 5.1.1)", what, nf.SequenceNumber, seq-1)
		}
		if nf.RetirePriorTo > nf.SequenceNumber {
			return vf.Bad("C16/own-ids/sequence-number", "%s: Retire Prior To %d > sequence number %d", what, nf.RetirePriorTo, nf.SequenceNumber)
		}
		if int(seq) >= len(m.cg.log) || nf.ConnectionID != m.cg.log[seq] {
			return vf.Bad("C16/own-ids/frame-id", "%s: NEW_CONNECTION_ID %d carries %s, the generator produced %v", what, seq, nf.ConnectionID, m.cg.log)
		}
		if m.key != nil {
			h := hmac.New(sha256.New, m.key[:])
			h.Write(nf.ConnectionID.Bytes())
			var want protocol.StatelessResetToken
			copy(want[:], h.Sum(nil))
			if nf.StatelessResetToken != want {
				return vf.Bad("C16/own-ids/frame-token", "%s: NEW_CONNECTION_ID %d (%s) carries token %x, derived token is %x", what, seq, nf.ConnectionID, nf.StatelessResetToken, want)
			}
		}
		if m.tokens[nf.StatelessResetToken] {
			return vf.Bad("C16/own-ids/frame-token", "%s: NEW_CONNECTION_ID %d reuses a reset token of an earlier ID", what, seq)
		}
		m.tokens[nf.StatelessResetToken] = true
		m.issued = append(m.issued, nf.ConnectionID)
		m.cl["issued"] = true
	}
	if len(m.cg.log) != len(m.issued) {
		return vf.Bad("C16/own-ids/frame-id", "%s: %d connection IDs generated but only %d announced", what, len(m.cg.log), len(m.issued))
	}
	// limit
	cap := min(m.limit, protocol.MaxIssuedConnectionIDs)
	if n := uint64(len(m.unretired())); n > cap && n > 1 {
		return vf.Bad("C16/own-ids/limit-exceeded", "%s: %d unretired connection IDs issued (%v); peer's active_connection_id_limit %d, implementation cap %d", what, n, m.unretired(), m.limit, protocol.MaxIssuedConnectionIDs)
	} else if n == cap {
		m.cl["at-limit"] = true
	}
	// routing
	for i, r := range m.run {
		for _, c := range r.adds[r.a0:] {
			if !r.present {
				return vf.Bad("C16/routing/unknown-runner", "%s: Add(%s) on a runner that was never registered", what, c)
			}
			r.routed[c]++
			if r.routed[c] > 1 {
				return vf.Bad("C16/routing/double-add", "%s: runner %d: %s added while already routed", what, i, c)
			}
		}
		for _, c := range r.rems[r.r0:] {
			if i == 0 {
				r.routed[c]--
				if r.routed[c] < 0 {
					return vf.Bad("C16/routing/remove-unrouted", "%s: primary runner: %s removed although it is not routed", what, c)
				}
			} else if r.routed[c] > 0 { // secondary runners never learn the IDs retired before they were added
				r.routed[c]--
			}
		}
	}
	exp := m.expected()
	r0 := m.run[0]
	for c, why := range exp {
		if r0.routed[c] != 1 {
			return vf.Bad("C16/routing/live-id-not-routed", "%s: %s (%s) is not routed to the connection", what, c, why)
		}
	}
	for c, n := range r0.routed {
		if _, ok := exp[c]; n != 0 && !ok {
			return vf.Bad("C16/routing/stale-id-routed", "%s: %s is still routed although it is neither unretired nor within its retirement period (now %v)", what, c, time.Duration(m.now))
		}
	}
	for i := 1; i < len(m.run); i++ {
		r := m.run[i]
		if !r.present {
			continue
		}
		for _, s := range m.unretired() {
			if r.routed[m.issued[s]] != 1 {
				return vf.Bad("C16/routing/live-id-not-routed", "%s: secondary runner %d does not route unretired sequence number %d", what, i, s)
			}
		}
		for c, n := range r.routed {
			if _, ok := exp[c]; n != 0 && !ok {
				return vf.Bad("C16/routing/stale-id-routed", "%s: secondary runner %d still routes %s", what, i, c)
			}
		}
	}
	for i, r := range m.run {
		if len(r.replaced) != 0 {
			return vf.Bad("C16/routing/unexpected-replace", "%s: ReplaceWithClosed called on runner %d", what, i)
		}
	}
	return nil
}

func (m *genMachine) Apply(op GenOp) *vf.Verdict {
	v := m.apply(op)
	m.trace = append(m.trace, fmt.Sprintf("%d %+v => now=%v issued=%d unretired=%v retireQ=%d routed0=%d", len(m.trace), op, time.Duration(m.now), len(m.issued), m.unretired(), len(m.retireQ), len(m.expected())))
	if v != nil {
		v.Trace = m.trace
	}
	return v
}

func (m *genMachine) apply(op GenOp) *vf.Verdict {
	if m.closed {
		return nil
	}
	if m.mustClose && op.K != "close" {
		return nil // a connection error was returned: the connection does nothing but close (connection.go run loop)
	}
	m.sigv = append(m.sigv, op.K[0], byte(op.Seq), byte(op.Limit), byte(op.Dest), byte(op.DtMs), byte(op.Pto3Ms), byte(op.Mode))
	if op.Pto3Ms < 0 || op.DtMs < 0 {
		return nil
	}
	switch op.K {
	case "setmax":
		// transport parameter parsing rejects active_connection_id_limit < 2; 0-RTT: the final value is never below the remembered one
		if op.Limit < 2 || op.Limit < m.limit || op.Limit >= 1<<62 {
			return nil
		}
		m.limit = op.Limit
		if op.Limit > protocol.MaxIssuedConnectionIDs {
			m.cl["limit>cap"] = true
		}
		m.mark()
		if err := m.g.SetMaxActiveConnIDs(op.Limit); err != nil {
			return vf.Bad("C16/own-ids/unexpected-error", "SetMaxActiveConnIDs(%d) returned %v", op.Limit, err)
		}
		return m.settle(fmt.Sprintf("SetMaxActiveConnIDs(%d)", op.Limit))
	case "retire":
		exp := m.arrivalIDs()
		if op.Dest < 0 || op.Dest >= len(exp) {
			return nil
		}
		dest := exp[op.Dest]
		expiry := m.now + int64(op.Pto3Ms)*1e6
		m.mark()
		err := m.g.Retire(op.Seq, dest, monotime.Time(expiry))
		what := fmt.Sprintf("Retire(%d, packet arrived on %s)", op.Seq, dest)
		code, isTE := transportCode(err)
		pv := isTE && code == qerr.ProtocolViolation
		if err != nil && !pv {
			return vf.Bad("C16/own-ids/wrong-error-code", "%s returned %v", what, err)
		}
		switch {
		case m.p.ConnLen == 0:
			m.cl["retire-zero-len"] = true
			if !pv {
				return vf.Bad("C16/own-ids/retire-with-zero-length-accepted", "%s returned nil although we use zero-length connection IDs (RFC 9000 19.16)", what)
			}
		case op.Seq >= uint64(len(m.issued)):
			m.cl["retire-unissued"] = true
			if !pv {
				return vf.Bad("C16/own-ids/retire-unissued-accepted", "%s returned nil; highest sequence number issued is %d (RFC 9000 19.16)", what, len(m.issued)-1)
			}
		case m.retired[op.Seq]:
			m.cl["retire-dup"] = true
			if err != nil {
				return vf.Bad("C16/own-ids/retire-duplicate-rejected", "%s returned %v for an already retired number", what, err)
			}
		case m.issued[op.Seq] == dest && pv:
			m.cl["retire-in-use-rejected"] = true
		default:
			if err != nil {
				return vf.Bad("C16/own-ids/retire-valid-rejected", "%s returned %v", what, err)
			}
			if m.issued[op.Seq] == dest {
				m.cl["retire-in-use-accepted"] = true
			}
			m.cl["retire-valid"] = true
			if op.Seq == 0 {
				m.cl["retire-initial"] = true
			}
			m.retired[op.Seq] = true
			if expiry < m.lastExpiry {
				m.cl["expiry-reordered"] = true
			}
			m.lastExpiry = expiry
			m.retireQ = append(m.retireQ, retiredID{cid: m.issued[op.Seq], expiry: expiry, seq: int64(op.Seq)})
		}
		if err != nil {
			m.mustClose = true
		}
		return m.settle(what)
	case "tick":
		m.now += int64(op.DtMs) * 1e6
		var keep []retiredID
		for _, q := range m.retireQ {
			if q.expiry <= m.now {
				m.cl["expired-removed"] = true
				if q.seq < 0 {
					m.cl["odcid-expired"] = true
				}
				continue
			}
			keep = append(keep, q)
		}
		m.retireQ = keep
		m.mark()
		m.g.RemoveRetiredConnIDs(m.t())
		return m.settle(fmt.Sprintf("RemoveRetiredConnIDs(+%dms)", op.DtMs))
	case "hs":
		if m.hsDone {
			return nil
		}
		m.hsDone = true
		expiry := m.now + int64(op.Pto3Ms)*1e6
		if m.odcid != nil {
			m.odcidLive = false
			if expiry < m.lastExpiry {
				m.cl["expiry-reordered"] = true
			}
			m.retireQ = append(m.retireQ, retiredID{cid: *m.odcid, expiry: expiry, seq: -1})
		}
		m.mark()
		m.g.SetHandshakeComplete(monotime.Time(expiry))
		return m.settle("SetHandshakeComplete")
	case "addrunner":
		// Conn.AddPath: client only (connection.go:3083)
		if m.p.Persp != "client" || op.Runner < 1 || op.Runner > 2 {
			return nil
		}
		r := m.run[op.Runner]
		again := r.present
		r.present = true
		m.mark()
		m.g.VerifAddConnRunner(r.cb)
		if again && len(r.adds) != r.a0 {
			return vf.Bad("C16/routing/double-add", "adding the same runner again produced %d Add callbacks", len(r.adds)-r.a0)
		}
		m.cl["runner2"] = true
		return m.settle(fmt.Sprintf("AddConnRunner(%d)", op.Runner))
	case "close":
		return m.close(op)
	}
	return nil
}

func (m *genMachine) close(op GenOp) *vf.Verdict {
	m.closed = true
	m.mark()
	exp := m.expected()
	if op.Mode == 2 {
		m.cl["close-removeall"] = true
		m.g.RemoveAll()
		m.odcidLive, m.retireQ = false, nil
		for s := range m.issued {
			m.retired[uint64(s)] = true
		}
		if len(m.frames) != m.f0 {
			return vf.Bad("C16/own-ids/unexpected-frame", "RemoveAll queued a frame")
		}
		if v := m.settle("RemoveAll"); v != nil {
			return v
		}
		for i, r := range m.run {
			for c, n := range r.routed {
				if n != 0 {
					return vf.Bad("C16/routing/left-after-close", "after RemoveAll runner %d still routes %s", i, c)
				}
			}
		}
		return nil
	}
	m.cl["close-replace"] = true
	var pkt []byte
	if op.Mode == 1 {
		pkt = []byte{0x40, 0xde, 0xad, 0xbe, 0xef, byte(op.Pto3Ms)}
	}
	d := time.Duration(op.Pto3Ms) * time.Millisecond
	m.g.ReplaceWithClosed(pkt, d)
	if len(m.frames) != m.f0 {
		return vf.Bad("C16/own-ids/unexpected-frame", "ReplaceWithClosed queued a frame")
	}
	for i, r := range m.run {
		if len(r.adds) != r.a0 || len(r.rems) != r.r0 {
			return vf.Bad("C16/routing/left-after-close", "ReplaceWithClosed called Add/Remove on runner %d", i)
		}
		if !r.present {
			if len(r.replaced) != 0 {
				return vf.Bad("C16/routing/unknown-runner", "ReplaceWithClosed reached a runner that was never registered")
			}
			continue
		}
		if len(r.replaced) != 1 {
			return vf.Bad("C16/routing/left-after-close", "ReplaceWithClosed: runner %d got %d calls, want 1", i, len(r.replaced))
		}
		if string(r.repBytes[0]) != string(pkt) || (r.repBytes[0] == nil) != (pkt == nil) || r.repExp[0] != d {
			return vf.Bad("C16/routing/closed-handler-args", "ReplaceWithClosed passed packet %x expiry %v, want %x %v", r.repBytes[0], r.repExp[0], pkt, d)
		}
		handed := map[protocol.ConnectionID]int{}
		for _, c := range r.replaced[0] {
			handed[c]++
			if handed[c] > 1 {
				return vf.Bad("C16/routing/closed-handler-ids", "ReplaceWithClosed hands %s over twice", c)
			}
			if _, ok := exp[c]; !ok {
				return vf.Bad("C16/routing/closed-handler-ids", "ReplaceWithClosed hands over %s which is not routed to this connection (a foreign or expired ID would be captured for the closing period)", c)
			}
		}
		for c, n := range r.routed {
			if n != 0 && handed[c] == 0 {
				return vf.Bad("C16/routing/left-after-close", "after ReplaceWithClosed runner %d still routes %s to the dead connection", i, c)
			}
		}
		if i == 0 {
			for c, why := range exp {
				if handed[c] == 0 {
					return vf.Bad("C16/routing/left-after-close", "ReplaceWithClosed does not hand over %s (%s)", c, why)
				}
			}
		}
	}
	return nil
}

func (m *genMachine) Gen(t *rapid.T) GenOp {
	if m.closed {
		return GenOp{K: "tick"}
	}
	pto3 := func() int { return rapid.SampledFrom([]int{1, 30, 30, 30, 90, 90, 300, 900, 3000}).Draw(t, "pto3") }
	if m.mustClose {
		return GenOp{K: "close", Mode: 1, Pto3Ms: pto3()}
	}
	if m.limit == protocol.DefaultActiveConnectionIDLimit && len(m.issued) == 1 && rapid.IntRange(0, 3).Draw(t, "tp-first") != 0 {
		// the peer's transport parameters are processed early in a connection's life
		return GenOp{K: "setmax", Limit: rapid.SampledFrom([]uint64{2, 2, 3, 4, 5, 6, 7, 8, 9, 100, 1<<62 - 1}).Draw(t, "limit")}
	}
	for try := 0; try < 8; try++ {
		k := rapid.SampledFrom([]string{"setmax", "retire", "retire", "retire", "retire", "retire", "tick", "tick", "tick", "hs", "addrunner", "close"}).Draw(t, "kind")
		switch k {
		case "setmax":
			var cands []uint64
			for _, l := range []uint64{2, 3, 4, 5, 6, 7, 8, 9, 100, 1<<62 - 1} {
				if l >= m.limit {
					cands = append(cands, l)
				}
			}
			if len(m.issued) > 1 && rapid.IntRange(0, 2).Draw(t, "again") != 0 {
				continue
			}
			return GenOp{K: "setmax", Limit: rapid.SampledFrom(cands).Draw(t, "limit")}
		case "retire":
			exp := m.arrivalIDs()
			if len(exp) == 0 {
				continue
			}
			op := GenOp{K: "retire", Pto3Ms: pto3(), Dest: rapid.IntRange(0, len(exp)-1).Draw(t, "dest")}
			un := m.unretired()
			destOther := func(seq uint64) bool { // make the packet arrive on an ID other than the one being retired
				var idx []int
				for i, c := range exp {
					if c != m.issued[seq] {
						idx = append(idx, i)
					}
				}
				if len(idx) == 0 {
					return false
				}
				op.Dest = rapid.SampledFrom(idx).Draw(t, "destother")
				return true
			}
			var seqModes = []string{"valid", "valid", "valid", "valid", "valid", "valid", "valid", "valid", "valid", "valid", "valid", "valid", "valid", "valid",
				"valid", "valid", "valid", "valid", "valid", "valid", "valid", "valid", "valid", "valid", "valid", "valid", "valid", "valid",
				"dup", "dup", "dup", "dup", "dup", "dup", "any", "any", "inuse", "inuse", "unissued", "huge"}
			switch mode := rapid.SampledFrom(seqModes).Draw(t, "seqmode"); {
			case mode == "unissued":
				op.Seq = uint64(len(m.issued)) + uint64(rapid.SampledFrom([]int{0, 0, 1, 5, 1000}).Draw(t, "beyond"))
			case mode == "huge":
				op.Seq = rapid.SampledFrom([]uint64{1<<62 - 1, 1 << 32, 1<<64 - 1}).Draw(t, "huge")
			case mode == "any":
				op.Seq = rapid.Uint64Range(0, uint64(len(m.issued))-1).Draw(t, "any")
			case mode == "inuse": // the ID the packet arrived on
				if len(un) == 0 {
					continue
				}
				op.Seq = rapid.SampledFrom(un).Draw(t, "seq")
				found := false
				for i, c := range exp {
					if c == m.issued[op.Seq] {
						op.Dest, found = i, true
					}
				}
				if !found {
					continue
				}
			case mode == "dup": // duplicate of an earlier RETIRE_CONNECTION_ID
				var done []uint64
				for s := range m.issued {
					if m.retired[uint64(s)] {
						done = append(done, uint64(s))
					}
				}
				if len(done) == 0 {
					continue
				}
				op.Seq = rapid.SampledFrom(done).Draw(t, "dupseq")
			default:
				if len(un) == 0 {
					continue
				}
				op.Seq = rapid.SampledFrom(un).Draw(t, "seq")
				if !destOther(op.Seq) {
					continue
				}
			}
			return op
		case "tick":
			return GenOp{K: "tick", DtMs: rapid.SampledFrom([]int{0, 1, 5, 29, 30, 31, 60, 89, 90, 100, 300, 1000, 3000}).Draw(t, "dt")}
		case "hs":
			if m.hsDone {
				continue
			}
			return GenOp{K: "hs", Pto3Ms: pto3()}
		case "addrunner":
			if m.p.Persp != "client" || rapid.IntRange(0, 2).Draw(t, "rare") != 0 {
				continue
			}
			return GenOp{K: "addrunner", Runner: rapid.IntRange(1, 2).Draw(t, "r")}
		case "close":
			if rapid.IntRange(0, 4).Draw(t, "rare") != 0 {
				continue
			}
			return GenOp{K: "close", Mode: rapid.IntRange(0, 2).Draw(t, "mode"), Pto3Ms: pto3()}
		}
	}
	return GenOp{K: "tick", DtMs: 1}
}

func (m *genMachine) Finish(u *vf.Unit) *vf.Verdict {
	if !m.closed {
		mode := int(m.sigvSum() % 3)
		if v := m.Apply(GenOp{K: "close", Mode: mode, Pto3Ms: 30}); v != nil {
			return v
		}
	}
	for c := range m.cl {
		u.Class(c)
	}
	u.Class(m.p.Persp)
	if m.cl["expired-removed"] && m.cl["retire-valid"] {
		u.NonTrivial(m.sigv, m.p.Persp, m.p.ConnLen, m.p.Key)
	}
	return nil
}

func (m *genMachine) sigvSum() (s uint32) {
	for _, b := range m.sigv {
		s = s*31 + uint32(b)
	}
	return s
}

func genGenParams(t *rapid.T) GenParams {
	p := GenParams{Persp: rapid.SampledFrom([]string{"client", "server"}).Draw(t, "persp"), Key: rapid.Bool().Draw(t, "key")}
	p.ConnLen = rapid.SampledFrom([]int{0, 4, 4, 5, 8, 8, 8, 12, 16, 20}).Draw(t, "connlen")
	if p.Persp == "server" {
		p.ODCIDLen = rapid.SampledFrom([]int{8, 8, 12, 20}).Draw(t, "odcid")
	}
	return p
}

// TestGenModel: own connection IDs against the routed-set model.
func TestGenModel(t *testing.T) {
	vf.RunMachine(t, "gen-model", 60, genGenParams, newGenMachine)
}
