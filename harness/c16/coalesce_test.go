package c16

import (
	"bytes"
	"encoding/binary"
	"encoding/hex"
	"fmt"
	"sort"
	"strings"
	"testing"
	"time"

	"pgregory.net/rapid"

	quic "github.com/refraction-networking/uquic"
	"github.com/refraction-networking/uquic/internal/handshake"
	"github.com/refraction-networking/uquic/internal/monotime"
	"github.com/refraction-networking/uquic/internal/protocol"
	"github.com/refraction-networking/uquic/internal/wire"
	"github.com/refraction-networking/uquic/qlog"
	"github.com/refraction-networking/uquic/qlogwriter"
	"github.com/refraction-networking/uquic/verif/vf"
)

// C16, unit conn-coalesced: "a retired or foreign ID never reaches the connection" INSIDE a datagram.
//
// The Transport routes a UDP datagram by the Destination Connection ID of its FIRST packet only
// (transport.go handlePacket: wire.ParseConnectionID + packetHandlerMap.Get). Every further packet coalesced
// into the datagram is seen by the connection alone. RFC 9000 12.2: "Senders MUST NOT coalesce QUIC packets
// with different connection IDs into a single UDP datagram. Receivers SHOULD ignore any subsequent packets
// with a different Destination Connection ID than the first packet in the datagram." The tree documents the
// same rule (connection.go processOnePacket, "coalesced packet has different destination connection ID";
// connection_test.go TestConnectionUnpackCoalescedPacket expects no unpacker call and a PacketDropped event
// with trigger unknown_connection_id for such a packet).
//
// The unit builds a REAL client or server Conn (hook /repo/verif_hooks_c16b.go: production constructors, the
// run loop is not started, the unpacker is a cleartext reader that records every call) and feeds it generated
// datagrams through Conn.handlePacket + Conn.handlePackets.

// ---- case ----

type CoalPkt struct {
	T   string `json:"t"`             // initial | handshake | 0rtt | 1rtt | zeros | junk | trunc
	CID string `json:"cid,omitempty"` // same | active | retired | odcid | near | foreign | shorter | longer | ext | zero
	I   int    `json:"i,omitempty"`   // index into the active / retired list, variation of foreign IDs
	Res string `json:"res,omitempty"` // what the scripted keys do: "" (decrypts) | fail | notyet
	Pad int    `json:"pad,omitempty"` // PADDING bytes after the PING
	Raw string `json:"raw,omitempty"` // junk: hex bytes
	N   int    `json:"n,omitempty"`   // zeros: count; trunc: bytes kept of a copy of the previous packet
}

type CoalDgram struct {
	Pkts []CoalPkt `json:"pkts"`
	ECN  int       `json:"ecn,omitempty"`
}

type CoalRetire struct {
	Seq int `json:"seq"` // index into the active sequence numbers
	Via int `json:"via"` // index into the other active IDs: Destination Connection ID of the carrying packet
}

type CoalCase struct {
	Client      bool         `json:"client"`
	CIDLen      int          `json:"cid_len"`   // own connection ID length: 0 | 4 | 8 | 20
	ODCIDLen    int          `json:"odcid_len"` // length of the client's first Destination Connection ID (8..20)
	Stage       int          `json:"stage"`     // 0 fresh, 1 first packet seen, 2 transport parameters, 3 handshake complete, 4 (client) confirmed
	Limit       int          `json:"limit"`     // peer's active_connection_id_limit (2..8)
	Tracer      bool         `json:"tracer"`
	InitDropped bool         `json:"init_dropped,omitempty"` // client, stage 2: already sent its first Handshake packet
	Retire      []CoalRetire `json:"retire,omitempty"`
	Expire      bool         `json:"expire,omitempty"` // the retirement timer fired: retired IDs left the routing table
	Dgrams      []CoalDgram  `json:"dgrams"`
}

// ---- deterministic connection IDs ----

// coalGen issues the connection's own IDs: 0xC1, counter (3 bytes), filler.
type coalGen struct {
	l int
	n uint32
}

func (g *coalGen) ConnectionIDLen() int { return g.l }
func (g *coalGen) GenerateConnectionID() (quic.ConnectionID, error) {
	b := make([]byte, g.l)
	for i := range b {
		b[i] = byte(0x30 + i)
	}
	if g.l >= 4 {
		b[0], b[1], b[2], b[3] = 0xC1, byte(g.n>>16), byte(g.n>>8), byte(g.n)
	}
	g.n++
	return protocol.ParseConnectionID(b), nil
}

func patternID(first byte, l int) []byte {
	b := make([]byte, l)
	for i := range b {
		b[i] = first + byte(i)
	}
	return b
}

// ---- recording collaborators ----

type coalRunner struct {
	routed map[protocol.ConnectionID]int
	adds   []protocol.ConnectionID
}

func (r *coalRunner) Add(id protocol.ConnectionID)    { r.routed[id]++; r.adds = append(r.adds, id) }
func (r *coalRunner) Remove(id protocol.ConnectionID) { delete(r.routed, id) }

type coalEvent struct {
	kind    string // received | dropped | buffered
	ptype   qlog.PacketType
	pn      protocol.PacketNumber
	dcid    protocol.ConnectionID
	trigger qlog.PacketDropReason
}

type coalRecorder struct{ evs []coalEvent }

func (r *coalRecorder) AddProducer() qlogwriter.Recorder { return r }
func (r *coalRecorder) SupportsSchemas(string) bool      { return true }
func (r *coalRecorder) Close() error                     { return nil }
func (r *coalRecorder) RecordEvent(ev qlogwriter.Event) {
	switch e := ev.(type) {
	case qlog.PacketReceived:
		r.evs = append(r.evs, coalEvent{kind: "received", ptype: e.Header.PacketType, pn: e.Header.PacketNumber, dcid: e.Header.DestConnectionID})
	case qlog.PacketDropped:
		r.evs = append(r.evs, coalEvent{kind: "dropped", ptype: e.Header.PacketType, pn: e.Header.PacketNumber, dcid: e.Header.DestConnectionID, trigger: e.Trigger})
	case qlog.PacketBuffered:
		r.evs = append(r.evs, coalEvent{kind: "buffered", ptype: e.Header.PacketType})
	}
}

// cleartext packet protection: packet number (4 bytes) | marker | magic | frames
var coalMagic = []byte{0xC0, 0xA1, 0x16}

const (
	markOK     = 'K'
	markFail   = 'F'
	markNotYet = 'N'
)

type coalCall struct {
	long   bool
	data   []byte // copy of the bytes handed to the unpacker
	result string // ok | fail | notyet | dropped
	pn     protocol.PacketNumber
}

type coalUnpacker struct {
	conn   *quic.VerifRecvConn
	client bool
	l      int
	calls  []coalCall
}

// keys decides what the production unpacker answers for a packet of this type in the connection's current
// state (packet_unpacker.go / crypto_setup.go: ErrKeysDropped once a level was discarded, ErrKeysNotYetAvailable
// before the keys exist); "" means the keys are there and the scripted marker decides.
func (u *coalUnpacker) keys(t protocol.PacketType, short bool) string {
	switch {
	case short:
		if !u.conn.HandshakeComplete() {
			return "notyet"
		}
	case t == protocol.PacketTypeInitial:
		if u.conn.InitialKeysDropped() {
			return "dropped"
		}
	case t == protocol.PacketTypeHandshake:
		if u.conn.HandshakeConfirmed() {
			return "dropped"
		}
	case t == protocol.PacketType0RTT:
		if u.conn.HandshakeComplete() {
			return "dropped"
		}
	}
	return ""
}

func (u *coalUnpacker) decide(k string, body []byte, hsLevel bool) (string, []byte) {
	if k != "" {
		return k, nil
	}
	if len(body) < 1+len(coalMagic) || !bytes.Equal(body[1:1+len(coalMagic)], coalMagic) {
		return "fail", nil // garbage does not authenticate
	}
	switch body[0] {
	case markOK:
		return "ok", body[1+len(coalMagic):]
	case markNotYet:
		// keys of a later level that do not exist yet; after handshake completion every level exists
		if hsLevel && !u.conn.HandshakeComplete() {
			return "notyet", nil
		}
		return "fail", nil
	default:
		return "fail", nil
	}
}

func resultErr(r string) error {
	switch r {
	case "dropped":
		return handshake.ErrKeysDropped
	case "notyet":
		return handshake.ErrKeysNotYetAvailable
	default:
		return handshake.ErrDecryptionFailed
	}
}

func (u *coalUnpacker) UnpackLongHeader(hdr *wire.Header, data []byte) (*quic.VerifUnpackedLongHeader, error) {
	call := coalCall{long: true, data: append([]byte(nil), data...), pn: protocol.InvalidPacketNumber}
	off := int(hdr.ParsedLen())
	var body []byte
	if len(data) >= off+4 {
		call.pn = protocol.PacketNumber(binary.BigEndian.Uint32(data[off:]))
		body = data[off+4:]
	}
	res, payload := u.decide(u.keys(hdr.Type, false), body, hdr.Type != protocol.PacketTypeInitial)
	call.result = res
	u.calls = append(u.calls, call)
	if res != "ok" {
		return nil, resultErr(res)
	}
	var lvl protocol.EncryptionLevel
	switch hdr.Type {
	case protocol.PacketTypeInitial:
		lvl = protocol.EncryptionInitial
	case protocol.PacketTypeHandshake:
		lvl = protocol.EncryptionHandshake
	default:
		lvl = protocol.Encryption0RTT
	}
	return &quic.VerifUnpackedLongHeader{
		Hdr:             &wire.ExtendedHeader{Header: *hdr, PacketNumber: call.pn, PacketNumberLen: protocol.PacketNumberLen4},
		EncryptionLevel: lvl,
		Data:            payload,
	}, nil
}

func (u *coalUnpacker) UnpackShortHeader(_ monotime.Time, data []byte) (protocol.PacketNumber, protocol.PacketNumberLen, protocol.KeyPhaseBit, []byte, error) {
	call := coalCall{data: append([]byte(nil), data...), pn: protocol.InvalidPacketNumber}
	off := 1 + u.l
	var body []byte
	if len(data) >= off+4 {
		call.pn = protocol.PacketNumber(binary.BigEndian.Uint32(data[off:]))
		body = data[off+4:]
	}
	res, payload := u.decide(u.keys(0, true), body, false)
	call.result = res
	u.calls = append(u.calls, call)
	if res != "ok" {
		return 0, 0, 0, nil, resultErr(res)
	}
	return call.pn, protocol.PacketNumberLen4, protocol.KeyPhaseZero, payload, nil
}

// ---- packet construction (hand-rolled, RFC 9000 17.2 / 17.3) ----

func appendVarint2(b []byte, v int) []byte { return append(b, 0x40|byte(v>>8), byte(v)) }

func buildLong(t string, dcid, scid []byte, pn uint32, mark byte, frames []byte) []byte {
	var tb byte
	switch t {
	case "initial":
		tb = 0
	case "0rtt":
		tb = 1
	case "handshake":
		tb = 2
	}
	b := []byte{0xC0 | tb<<4 | 0x03, 0, 0, 0, 1}
	b = append(b, byte(len(dcid)))
	b = append(b, dcid...)
	b = append(b, byte(len(scid)))
	b = append(b, scid...)
	if t == "initial" {
		b = append(b, 0) // token length
	}
	b = appendVarint2(b, 4+1+len(coalMagic)+len(frames))
	b = binary.BigEndian.AppendUint32(b, pn)
	b = append(b, mark)
	b = append(b, coalMagic...)
	return append(b, frames...)
}

func buildShort(dcid []byte, pn uint32, mark byte, frames []byte) []byte {
	b := []byte{0x40 | 0x03}
	b = append(b, dcid...)
	b = binary.BigEndian.AppendUint32(b, pn)
	b = append(b, mark)
	b = append(b, coalMagic...)
	return append(b, frames...)
}

// ---- execution ----

type coalExec struct {
	c      CoalCase
	u      *vf.Unit
	conn   *quic.VerifRecvConn
	unp    *coalUnpacker
	run    *coalRunner
	rec    *coalRecorder
	own0   protocol.ConnectionID
	odcid  protocol.ConnectionID
	peer   protocol.ConnectionID
	retSeq map[uint64]bool
	retIDs []protocol.ConnectionID
	nextPN map[string]uint32 // per packet number space
	// cumulative model of what was processed, per space
	processed map[string]map[protocol.PacketNumber]bool
	spaceDead map[string]bool
	sawDiff   bool
	sawCtl    bool
	trace     []string
}

func space(t string) string {
	switch t {
	case "initial", "handshake":
		return t
	}
	return "app"
}

func (e *coalExec) pn(t string) uint32 {
	s := space(t)
	e.nextPN[s]++
	return e.nextPN[s]
}

// issued returns the connection's own IDs by sequence number (0: the first ID; others from the queued
// NEW_CONNECTION_ID frames - nothing is ever sent, so every frame is still queued).
func (e *coalExec) issued() map[uint64]protocol.ConnectionID {
	m := map[uint64]protocol.ConnectionID{0: e.own0}
	for _, f := range e.conn.QueuedControlFrames() {
		if n, ok := f.(*wire.NewConnectionIDFrame); ok {
			m[n.SequenceNumber] = n.ConnectionID
		}
	}
	return m
}

func (e *coalExec) activeSeqs() []uint64 {
	var s []uint64
	for seq := range e.issued() {
		if !e.retSeq[seq] {
			s = append(s, seq)
		}
	}
	sort.Slice(s, func(i, j int) bool { return s[i] < s[j] })
	return s
}

func (e *coalExec) activeIDs() []protocol.ConnectionID {
	is := e.issued()
	var out []protocol.ConnectionID
	for _, s := range e.activeSeqs() {
		out = append(out, is[s])
	}
	return out
}

func (e *coalExec) isRouted(id protocol.ConnectionID) bool { return e.run.routed[id] > 0 }

// ownership classifies a connection ID as written by the sender.
func (e *coalExec) ownership(id []byte) string {
	cid := protocol.ParseConnectionID(id)
	for i, a := range e.activeIDs() {
		if a == cid {
			if i == 0 {
				return "current"
			}
			return "other-active"
		}
	}
	for _, r := range e.retIDs {
		if r == cid {
			if e.isRouted(cid) {
				return "retired-routed"
			}
			return "retired-expired"
		}
	}
	if !e.c.Client && cid == e.odcid {
		if e.isRouted(cid) {
			return "odcid"
		}
		return "odcid-expired"
	}
	if len(id) == 0 {
		return "zero-len"
	}
	if len(id) == e.c.CIDLen {
		return "foreign-same-len"
	}
	return "foreign-other-len"
}

// resolve turns a generated selector into the connection ID bytes the sender writes. first is the ID written
// into the first packet of the datagram (nil while resolving the first packet itself).
func (e *coalExec) resolve(p CoalPkt, first []byte, isFirst bool) []byte {
	L := e.c.CIDLen
	act := e.activeIDs()
	pick := func(list []protocol.ConnectionID, i int) []byte {
		if i < 0 {
			i = -i
		}
		return list[i%len(list)].Bytes()
	}
	kind := p.CID
	if isFirst {
		// transport.go handlePacket: the first packet's ID is in the routing table
		switch kind {
		case "active":
			return pick(act, p.I)
		case "retired":
			var r []protocol.ConnectionID
			for _, id := range e.retIDs {
				if e.isRouted(id) {
					r = append(r, id)
				}
			}
			if len(r) > 0 {
				return pick(r, p.I)
			}
		case "odcid":
			if !e.c.Client && e.isRouted(e.odcid) {
				return e.odcid.Bytes()
			}
		}
		return pick(act, 0)
	}
	switch kind {
	case "same", "":
		return first
	case "active":
		return pick(act, p.I)
	case "retired":
		if len(e.retIDs) > 0 {
			return pick(e.retIDs, p.I)
		}
		kind = "near"
	case "odcid":
		return e.odcid.Bytes()
	}
	switch kind {
	case "near": // the first packet's ID with one byte changed; never one of the connection's IDs (0xC1 prefix)
		if len(first) > 0 {
			b := append([]byte(nil), first...)
			b[0] ^= 0x10 << (uint(p.I) % 3)
			return b
		}
		return patternID(0xE0, 4)
	case "foreign":
		if L > 0 {
			return patternID(0xF0+byte(p.I%8), L)
		}
		return patternID(0xF0, 4)
	case "shorter":
		if L > 1 {
			return patternID(0xF0, 1+p.I%(L-1))
		}
		return patternID(0xF0, L+1+p.I%(20-L))
	case "longer":
		if L < 20 {
			return patternID(0xF0, L+1+p.I%(20-L))
		}
		return patternID(0xF0, 1+p.I%(L-1))
	case "ext": // the first packet's ID followed by more bytes
		if len(first) < 20 {
			return append(append([]byte(nil), first...), patternID(0xA0, 1+p.I%(20-len(first)))...)
		}
		return first[:19]
	case "zero":
		return nil
	}
	return first
}

type builtPkt struct {
	p       CoalPkt
	off     int
	bytes   []byte
	long    bool   // long-header form (first bit set)
	wire    bool   // a well-formed packet of ours (not junk / zeros / trunc)
	written []byte // connection ID the sender wrote
	view    []byte // Destination Connection ID as the receiver reads it; nil + !viewOK: unparseable
	viewOK  bool
	pnum    uint32
	own     string
}

func framesFor(p CoalPkt) []byte {
	f := []byte{0x01} // PING: every packet is ack-eliciting, so the ACK state shows it
	return append(f, make([]byte, p.Pad)...)
}

func markFor(p CoalPkt) byte {
	switch p.Res {
	case "fail":
		return markFail
	case "notyet":
		return markNotYet
	}
	return markOK
}

// receiverView is RFC 9000 17.2 / 17.3 read by the receiver: a long header names its Destination Connection ID
// length; a short header does not, the receiver takes its own connection ID length.
func receiverView(b []byte, L int) ([]byte, bool) {
	if len(b) == 0 {
		return nil, false
	}
	if b[0]&0x80 != 0 {
		if len(b) < 6 || int(b[5]) > 20 || len(b) < 6+int(b[5]) {
			return nil, false
		}
		return b[6 : 6+int(b[5])], true
	}
	if len(b) < 1+L {
		return nil, false
	}
	return b[1 : 1+L], true
}

func (e *coalExec) build(d CoalDgram) ([]byte, []builtPkt) {
	var dg []byte
	var out []builtPkt
	var first []byte
	scid := e.peer.Bytes()
	for i, p := range d.Pkts {
		bp := builtPkt{p: p, off: len(dg)}
		switch p.T {
		case "initial", "handshake", "0rtt":
			bp.written = e.resolve(p, first, i == 0)
			bp.pnum = e.pn(p.T)
			bp.bytes = buildLong(p.T, bp.written, scid, bp.pnum, markFor(p), framesFor(p))
			bp.long, bp.wire = true, true
		case "1rtt":
			bp.written = e.resolve(p, first, i == 0)
			if i == 0 && len(bp.written) != e.c.CIDLen {
				// transport.go handlePacket reads a short header with its own connection ID length: only an ID of
				// that length can have been routed here
				bp.written = e.activeIDs()[0].Bytes()
			}
			bp.pnum = e.pn(p.T)
			bp.bytes = buildShort(bp.written, bp.pnum, markFor(p), framesFor(p))
			bp.wire = true
		case "zeros":
			bp.bytes = make([]byte, 1+p.N%40)
		case "junk":
			raw, _ := hex.DecodeString(p.Raw)
			if len(raw) == 0 {
				raw = []byte{0x41}
			}
			raw[0] &^= 0x80 // short-header form
			bp.bytes = raw
		case "trunc":
			if len(out) == 0 || !out[len(out)-1].long {
				bp.bytes = []byte{0xC3}
			} else {
				prev := out[len(out)-1].bytes
				bp.bytes = append([]byte(nil), prev[:1+p.N%(len(prev)-1)]...)
			}
			bp.long = true
		}
		if i == 0 {
			first = bp.written
		}
		if bp.wire {
			bp.own = e.ownership(bp.written)
		}
		dg = append(dg, bp.bytes...)
		out = append(out, bp)
		if !bp.long {
			break // RFC 9000 12.2: a short header packet has no length, it is the last one
		}
	}
	for i := range out {
		end := len(dg)
		if i+1 < len(out) {
			end = out[i+1].off
		}
		out[i].view, out[i].viewOK = receiverView(dg[out[i].off:end], e.c.CIDLen)
	}
	return dg, out
}

func ownOr(s, def string) string {
	if s == "" {
		return def
	}
	return s
}

func hx(b []byte) string {
	if len(b) == 0 {
		return "(empty)"
	}
	return hex.EncodeToString(b)
}

func ptypeOf(t string) qlog.PacketType {
	switch t {
	case "initial":
		return qlog.PacketTypeInitial
	case "handshake":
		return qlog.PacketTypeHandshake
	case "0rtt":
		return qlog.PacketType0RTT
	}
	return qlog.PacketType1RTT
}

func ackSet(f *wire.AckFrame) map[protocol.PacketNumber]bool {
	m := map[protocol.PacketNumber]bool{}
	if f == nil {
		return m
	}
	for _, r := range f.AckRanges {
		for pn := r.Smallest; pn <= r.Largest; pn++ {
			m[pn] = true
		}
	}
	return m
}

func setStr(m map[protocol.PacketNumber]bool) string {
	var s []int
	for pn := range m {
		s = append(s, int(pn))
	}
	sort.Ints(s)
	return fmt.Sprint(s)
}

// deliver feeds one datagram and judges it. setup datagrams (single packets that move the connection
// through the handshake) are judged by the same rules.
func (e *coalExec) deliver(d CoalDgram, label string) *vf.Verdict {
	dg, pkts := e.build(d)
	if len(dg) == 0 || len(dg) > 1400 {
		return nil
	}
	desc := make([]string, len(pkts))
	for i, p := range pkts {
		desc[i] = fmt.Sprintf("%s[dcid=%s %s pn=%d res=%q len=%d]", p.p.T, hx(p.written), p.own, p.pnum, p.p.Res, len(p.bytes))
	}
	e.trace = append(e.trace, label+": "+strings.Join(desc, " + "))
	where := func() string { return strings.Join(e.trace, "\n  ") }

	if !pkts[0].viewOK || !e.isRouted(protocol.ParseConnectionID(pkts[0].view)) {
		return vf.Bad("C16/coalesced/harness-first-packet-not-routed", "generator error: the Transport would not hand this datagram to the connection\n  %s", where())
	}
	call0, ev0 := len(e.unp.calls), len(e.rec.evs)
	hsBefore := e.conn.HandshakeComplete()
	_, err := e.conn.Deliver(dg, protocol.ECN(d.ECN))
	if err != nil {
		return vf.Bad("C16/coalesced/error-closes-connection", "a datagram of PING packets / undecryptable bytes made the receive path return %v (the run loop closes the connection)\n  %s", err, where())
	}
	calls := e.unp.calls[call0:]
	evs := e.rec.evs[ev0:]

	// --- reference: which packets may / must be looked at ---
	const (
		mustNot  = iota // DCID differs from the first packet's: never unprotected, never processed
		eligible        // same DCID, nothing before it ended the datagram: handed to the unpacker
		noUnpack        // same DCID but dropped before unprotection for a documented reason
		free            // after the point where the receiver may stop: not judged
	)
	status := make([]int, len(pkts))
	stopped := false
	firstDiff := -1
	for i, p := range pkts {
		same := i == 0 || (p.viewOK && pkts[0].viewOK && bytes.Equal(p.view, pkts[0].view))
		switch {
		case i > 0 && !same:
			status[i] = mustNot
			if !stopped && firstDiff < 0 && p.viewOK {
				firstDiff = i
			}
			stopped = true
		case stopped:
			status[i] = free
		case !p.wire && p.long:
			status[i] = noUnpack // truncated long header: wire.ParsePacket fails
			stopped = true
		case p.wire && p.long && e.c.Client && p.p.T == "0rtt":
			status[i] = noUnpack // connection.go handleLongHeaderPacket: "drop 0-RTT packets, if we are a client"
		default:
			status[i] = eligible
		}
		if !p.long {
			stopped = true
		}
	}

	// --- unpacker log ---
	matched := make([]int, len(pkts)) // number of calls per packet
	result := make([]string, len(pkts))
	for _, c := range calls {
		idx := -1
		for i, p := range pkts {
			end := len(dg)
			if i+1 < len(pkts) {
				end = pkts[i+1].off
			}
			if bytes.Equal(c.data, dg[p.off:end]) {
				idx = i
				break
			}
		}
		if idx < 0 {
			return vf.Bad("C16/coalesced/unpacker-got-unknown-bytes", "the unpacker was called with %d bytes that are no packet of the datagram: %s\n  %s", len(c.data), hx(c.data), where())
		}
		matched[idx]++
		result[idx] = c.result
	}
	for i, p := range pkts {
		switch status[i] {
		case mustNot:
			if matched[i] > 0 {
				return vf.Bad("C16/coalesced/other-dcid-reaches-unpacker",
					"packet %d (%s, DCID %s as read by the receiver, %s) was handed to the unpacker although the first packet of the datagram carries DCID %s (%s); unpacker answered %q\n  %s",
					i, p.p.T, hx(p.view), ownOr(p.own, "trailing bytes"), hx(pkts[0].view), pkts[0].own, result[i], where())
			}
		case eligible:
			if matched[i] != 1 {
				return vf.Bad("C16/coalesced/same-dcid-not-unpacked",
					"packet %d (%s, DCID %s equal to the first packet's) was handed to the unpacker %d times, want 1\n  %s", i, p.p.T, hx(p.view), matched[i], where())
			}
		case noUnpack:
			if matched[i] != 0 {
				return vf.Bad("C16/coalesced/unexpected-unpack", "packet %d (%s) must be dropped before unprotection but the unpacker was called\n  %s", i, p.p.T, where())
			}
		}
	}

	// --- what was processed: ACK state per packet number space (independent of the unpacker log and of qlog) ---
	newProc := map[string][]protocol.PacketNumber{}
	var wantRecv []coalEvent
	for i, p := range pkts {
		if matched[i] == 1 && result[i] == "ok" {
			s := space(p.p.T)
			if !p.wire { // junk that the scripted keys accepted cannot exist (magic)
				continue
			}
			newProc[s] = append(newProc[s], protocol.PacketNumber(p.pnum))
			wantRecv = append(wantRecv, coalEvent{kind: "received", ptype: ptypeOf(p.p.T), pn: protocol.PacketNumber(p.pnum), dcid: protocol.ParseConnectionID(p.view)})
			if i > 0 && status[i] == eligible {
				e.sawCtl = true
			}
		}
	}
	for _, s := range []string{"initial", "handshake", "app"} {
		var lvl protocol.EncryptionLevel
		switch s {
		case "initial":
			lvl = protocol.EncryptionInitial
			if e.conn.InitialKeysDropped() {
				e.spaceDead[s] = true
			}
		case "handshake":
			lvl = protocol.EncryptionHandshake
			if e.conn.HandshakeConfirmed() {
				e.spaceDead[s] = true
			}
		default:
			lvl = protocol.Encryption1RTT
		}
		for _, pn := range newProc[s] {
			e.processed[s][pn] = true
		}
		if e.spaceDead[s] {
			continue // the packet number space was dropped together with its keys
		}
		f := e.conn.AckFrame(lvl)
		if f == nil {
			if len(newProc[s]) > 0 {
				return vf.Bad("C16/coalesced/same-dcid-not-processed", "%s space: packets %v were decrypted but the connection has nothing new to acknowledge\n  %s", s, newProc[s], where())
			}
			continue
		}
		got := ackSet(f)
		if setStr(got) != setStr(e.processed[s]) {
			sig := "C16/coalesced/same-dcid-not-processed"
			for pn := range got {
				if !e.processed[s][pn] {
					sig = "C16/coalesced/other-dcid-processed"
				}
			}
			return vf.Bad(sig, "%s space: the connection recorded packet numbers %s as received, the packets it may process are %s\n  %s", s, setStr(got), setStr(e.processed[s]), where())
		}
	}

	// --- qlog (code's own documentation of the rule: TestConnectionUnpackCoalescedPacket) ---
	if e.c.Tracer {
		var gotRecv []coalEvent
		var dropUnknown []coalEvent
		for _, ev := range evs {
			switch {
			case ev.kind == "received":
				gotRecv = append(gotRecv, coalEvent{kind: "received", ptype: ev.ptype, pn: ev.pn, dcid: ev.dcid})
			case ev.kind == "dropped" && ev.trigger == qlog.PacketDropUnknownConnectionID:
				dropUnknown = append(dropUnknown, ev)
			}
		}
		if fmt.Sprint(gotRecv) != fmt.Sprint(wantRecv) {
			sig := "C16/coalesced/same-dcid-not-processed"
			if len(gotRecv) > len(wantRecv) {
				sig = "C16/coalesced/other-dcid-processed"
			}
			return vf.Bad(sig, "qlog packet_received events %v, want %v\n  %s", gotRecv, wantRecv, where())
		}
		if firstDiff >= 0 {
			if len(dropUnknown) != 1 || !bytes.Equal(dropUnknown[0].dcid.Bytes(), pkts[firstDiff].view) {
				return vf.Bad("C16/coalesced/drop-not-logged", "packet %d (DCID %s) differs from the first packet's DCID %s: want one packet_dropped event with trigger unknown_connection_id naming it, got %v\n  %s",
					firstDiff, hx(pkts[firstDiff].view), hx(pkts[0].view), dropUnknown, where())
			}
		} else if len(dropUnknown) != 0 {
			return vf.Bad("C16/coalesced/same-dcid-dropped-as-unknown", "no packet of the datagram differs from the first packet's DCID %s, but %v was logged\n  %s", hx(pkts[0].view), dropUnknown, where())
		}
	}

	// --- classes ---
	u := e.u
	if label == "setup" {
		return nil
	}
	stage := "pre-handshake"
	if hsBefore {
		stage = "post-handshake"
	}
	u.Class("dgram:" + stage)
	u.Class(fmt.Sprintf("dgram:%d-packets", len(pkts)))
	u.Class("first:" + pkts[0].own)
	for i, p := range pkts {
		if i == 0 {
			continue
		}
		switch status[i] {
		case mustNot:
			e.sawDiff = true
			u.Class("diff")
			u.Class("diff:" + stage)
			if p.wire {
				u.Class("diff:" + p.own)
				u.Class("diff-type:" + p.p.T)
				if !p.long && len(p.written) != e.c.CIDLen {
					u.Class("diff:short-header-other-len")
				}
			} else {
				u.Class("diff:garbage-" + p.p.T)
			}
			if !p.viewOK {
				u.Class("diff:unparseable")
			}
		case eligible:
			if p.wire {
				u.Class("same")
				u.Class("same:" + result[i])
				u.Class("same-type:" + p.p.T)
				if e.c.CIDLen == 0 && !p.long {
					u.Class("same:zero-len-short-header")
				}
				if !bytes.Equal(p.written, pkts[0].written) {
					u.Class("same:by-prefix") // short header, a longer ID that starts with the first packet's
				}
			} else {
				u.Class("same:garbage-reaches-unpacker")
			}
		case noUnpack:
			u.Class("dropped-before-unpack:" + p.p.T)
		case free:
			u.Class("after-stop-not-judged")
			if matched[i] > 0 {
				u.Class("after-stop-unpacked")
			}
		}
	}
	return nil
}

func peerParams(limit int, client bool) *wire.TransportParameters {
	p := &wire.TransportParameters{
		InitialMaxStreamDataBidiLocal:  1 << 20,
		InitialMaxStreamDataBidiRemote: 1 << 20,
		InitialMaxStreamDataUni:        1 << 20,
		InitialMaxData:                 1 << 20,
		MaxBidiStreamNum:               100,
		MaxUniStreamNum:                100,
		MaxIdleTimeout:                 time.Minute,
		MaxUDPPayloadSize:              1452,
		AckDelayExponent:               3,
		MaxAckDelay:                    25 * time.Millisecond,
		ActiveConnectionIDLimit:        uint64(limit),
	}
	if client { // parameters of a server
		tok := protocol.StatelessResetToken{0x5e, 0x12, 0xfe, 0x2d}
		p.StatelessResetToken = &tok
	}
	return p
}

func checkCoalCase(c CoalCase, u *vf.Unit) (verdict *vf.Verdict) {
	e := &coalExec{c: c, u: u, run: &coalRunner{routed: map[protocol.ConnectionID]int{}}, rec: &coalRecorder{},
		retSeq: map[uint64]bool{}, nextPN: map[string]uint32{}, spaceDead: map[string]bool{},
		processed: map[string]map[protocol.PacketNumber]bool{"initial": {}, "handshake": {}, "app": {}}}
	gen := &coalGen{l: c.CIDLen}
	e.own0, _ = gen.GenerateConnectionID()
	e.odcid = protocol.ParseConnectionID(patternID(0xD0, c.ODCIDLen))
	e.peer = protocol.ParseConnectionID(patternID(0x5E, 8))
	e.unp = &coalUnpacker{client: c.Client, l: c.CIDLen}
	// transport.go / server.go: the Transport puts the first source connection ID (and, on a server, the
	// client's original destination connection ID) into the routing table before the connection exists
	e.run.routed[e.own0] = 1
	if !c.Client {
		e.run.routed[e.odcid] = 1
	}
	o := quic.VerifRecvConnOpts{Client: c.Client, SrcConnID: e.own0, Generator: gen, OrigDestConnID: e.odcid, PeerSrcConnID: e.peer,
		Config: &quic.Config{DisablePathMTUDiscovery: true}, Unpacker: e.unp, Runner: e.run}
	if c.Tracer {
		o.Trace = e.rec
	}
	e.conn = quic.VerifNewRecvConn(o)
	e.unp.conn = e.conn
	defer e.conn.Close()

	fail := func(step string, err error) *vf.Verdict {
		return vf.Bad("C16/coalesced/setup-failed", "%s: %v (case %+v)", step, err, c)
	}
	single := func(p CoalPkt) *vf.Verdict { return e.deliver(CoalDgram{Pkts: []CoalPkt{p}}, "setup") }

	// --- move the connection to the requested point of the handshake with production steps ---
	if c.Stage >= 1 {
		first := CoalPkt{T: "initial", CID: "active"}
		if !c.Client {
			first.CID = "odcid"
		}
		if v := single(first); v != nil {
			return v
		}
		if !e.conn.ReceivedFirstPacket() {
			return fail("first Initial", fmt.Errorf("not processed"))
		}
	}
	if c.Stage >= 2 {
		if err := e.conn.HandleTransportParameters(peerParams(c.Limit, c.Client)); err != nil {
			return fail("transport parameters", err)
		}
		if c.Client && (c.InitDropped || c.Stage >= 3) {
			if err := e.conn.DropInitialKeys(); err != nil {
				return fail("drop Initial keys", err)
			}
		}
	}
	if c.Stage >= 3 {
		if err := e.conn.CompleteHandshake(); err != nil {
			return fail("handshake completion", err)
		}
		if !c.Client {
			e.retIDs = append(e.retIDs, e.odcid) // conn_id_generator.go SetHandshakeComplete: queued for retirement
		}
	}
	if c.Stage >= 4 && c.Client {
		// HANDSHAKE_DONE in a 1-RTT packet: Conn.handleHandshakeDoneFrame -> handleHandshakeConfirmed
		dg := buildShort(e.own0.Bytes(), e.pn("1rtt"), markOK, []byte{0x1e, 0x01})
		e.processed["app"][protocol.PacketNumber(e.nextPN["app"])] = true
		if _, err := e.conn.Deliver(dg, protocol.ECNNon); err != nil {
			return fail("HANDSHAKE_DONE", err)
		}
		if !e.conn.HandshakeConfirmed() {
			return fail("HANDSHAKE_DONE", fmt.Errorf("not confirmed"))
		}
	}
	if c.Stage >= 3 && c.CIDLen > 0 {
		for _, r := range c.Retire {
			seqs := e.activeSeqs()
			if len(seqs) < 2 {
				break
			}
			is := e.issued()
			seq := seqs[r.Seq%len(seqs)]
			var others []protocol.ConnectionID
			for _, s := range seqs {
				if s != seq {
					others = append(others, is[s])
				}
			}
			via := others[r.Via%len(others)]
			// RETIRE_CONNECTION_ID (0x19) + PING, on another active ID (RFC 9000 19.16)
			dg := buildShort(via.Bytes(), e.pn("1rtt"), markOK, []byte{0x19, byte(seq), 0x01})
			e.processed["app"][protocol.PacketNumber(e.nextPN["app"])] = true
			if _, err := e.conn.Deliver(dg, protocol.ECNNon); err != nil {
				return fail("RETIRE_CONNECTION_ID", err)
			}
			e.retSeq[seq] = true
			e.retIDs = append(e.retIDs, is[seq])
			u.Class("setup:retired")
		}
		if c.Expire {
			e.conn.RemoveRetiredConnIDs(time.Hour)
			u.Class("setup:expired")
		}
	}
	// the ACK state read-out is incremental: absorb what the hand-built setup packets left
	for _, lvl := range []protocol.EncryptionLevel{protocol.EncryptionInitial, protocol.EncryptionHandshake, protocol.Encryption1RTT} {
		e.conn.AckFrame(lvl)
	}

	for i, d := range c.Dgrams {
		if v := e.deliver(d, fmt.Sprintf("datagram %d", i)); v != nil {
			return v
		}
	}

	persp := "server"
	if c.Client {
		persp = "client"
	}
	u.Class("persp:" + persp)
	u.Class(fmt.Sprintf("cidlen:%d", c.CIDLen))
	u.Class(fmt.Sprintf("stage:%d", c.Stage))
	if c.Tracer {
		u.Class("tracer:on")
	} else {
		u.Class("tracer:off")
	}
	if e.conn.UndecryptableQueued() > 0 {
		u.Class("queued-undecryptable")
	}
	if e.sawDiff && e.sawCtl {
		u.NonTrivial(fmt.Sprintf("%+v", c))
	}
	return nil
}

// ---- generator ----

func genCoalPkt(t *rapid.T, c *CoalCase, first bool, allowShort bool) CoalPkt {
	types := []string{"initial", "handshake", "handshake", "0rtt"}
	if allowShort {
		types = append(types, "1rtt", "1rtt", "1rtt")
	}
	p := CoalPkt{T: rapid.SampledFrom(types).Draw(t, "type")}
	if first {
		p.CID = rapid.SampledFrom([]string{"active", "active", "active", "retired", "odcid"}).Draw(t, "cid0")
	} else {
		p.CID = rapid.SampledFrom([]string{"same", "same", "same", "same", "same", "same", "active", "active", "active", "retired", "retired", "retired", "odcid", "near", "near", "foreign", "shorter", "longer", "ext", "zero"}).Draw(t, "cid")
	}
	p.I = rapid.IntRange(0, 7).Draw(t, "i")
	p.Res = rapid.SampledFrom([]string{"", "", "", "", "fail", "notyet"}).Draw(t, "res")
	if rapid.IntRange(0, 3).Draw(t, "padq") == 0 {
		p.Pad = rapid.IntRange(1, 30).Draw(t, "pad")
	}
	return p
}

func genCoalCase(t *rapid.T) CoalCase {
	c := CoalCase{
		Client:   rapid.Bool().Draw(t, "client"),
		CIDLen:   rapid.SampledFrom([]int{0, 4, 4, 8, 8, 20}).Draw(t, "cidlen"),
		ODCIDLen: rapid.SampledFrom([]int{8, 8, 12, 20}).Draw(t, "odcidlen"),
		Limit:    rapid.SampledFrom([]int{2, 3, 4, 4, 8, 8}).Draw(t, "limit"),
		Tracer:   rapid.IntRange(0, 3).Draw(t, "tracer") != 0,
	}
	maxStage := 3
	if c.Client {
		maxStage = 4
	}
	c.Stage = rapid.SampledFrom([]int{0, 1, 2, 3, 3, maxStage, maxStage}).Draw(t, "stage")
	if c.Client && c.Stage == 2 {
		c.InitDropped = rapid.Bool().Draw(t, "initdropped")
	}
	if c.Stage >= 3 && c.CIDLen > 0 {
		n := rapid.IntRange(0, 3).Draw(t, "nretire")
		for i := 0; i < n; i++ {
			c.Retire = append(c.Retire, CoalRetire{Seq: rapid.IntRange(0, 7).Draw(t, "rseq"), Via: rapid.IntRange(0, 7).Draw(t, "rvia")})
		}
		c.Expire = rapid.IntRange(0, 2).Draw(t, "expire") == 0
	}
	nd := rapid.IntRange(1, 3).Draw(t, "ndgrams")
	for i := 0; i < nd; i++ {
		var d CoalDgram
		d.ECN = rapid.IntRange(0, 3).Draw(t, "ecn")
		n := rapid.SampledFrom([]int{1, 2, 2, 2, 3, 3, 4}).Draw(t, "npkts")
		for j := 0; j < n; j++ {
			last := j == n-1
			p := genCoalPkt(t, &c, j == 0, last)
			d.Pkts = append(d.Pkts, p)
		}
		// trailing bytes behind the last long-header packet
		if d.Pkts[len(d.Pkts)-1].T != "1rtt" {
			switch rapid.IntRange(0, 5).Draw(t, "tail") {
			case 0:
				d.Pkts = append(d.Pkts, CoalPkt{T: "zeros", N: rapid.IntRange(0, 39).Draw(t, "nz")})
			case 1:
				raw := rapid.SliceOfN(rapid.Byte(), 1, 40).Draw(t, "junk")
				d.Pkts = append(d.Pkts, CoalPkt{T: "junk", Raw: hex.EncodeToString(raw)})
			case 2:
				d.Pkts = append(d.Pkts, CoalPkt{T: "trunc", N: rapid.IntRange(0, 60).Draw(t, "ntr")})
			}
		}
		c.Dgrams = append(c.Dgrams, d)
	}
	return c
}

func TestConnCoalesced(t *testing.T) {
	vf.RunRapid(t, "conn-coalesced", genCoalCase, checkCoalCase)
}
