package c09

// C09 unit "packer-rtx": the glue in /repo/u_packet_packer.go between the Initial crypto stream / the
// retransmission queue and the frame builders (PackCoalescedPacket, maybeGetCryptoPacket,
// appendInitialPacket -> MarshalInitialPacketPayload, planInitialFlight / packPlannedInitial,
// appendInitialPacketPayload, PackPTOProbePacket), driven as a state machine.
//
// The REAL spec-driven packer (quic.VerifNewInitialPacker: wired as newUClientConnection wires it) packs
// protected Initial packets with the real Initial sealer and the real uQUIC sent-packet handler as packet
// number source. The oracle removes the protection with refcrypto (independent RFC 9001 key derivation),
// reads header and frames with refwire, and compares every CRYPTO frame with the generated ClientHello.
// Losses, acknowledgements, PTO probes and a Retry are applied to the packer the way the sent-packet handler
// applies them: through the frames' own ack handlers, in ascending packet number order within one pass.

import (
	"bytes"
	"fmt"
	"math"
	"os"
	"sort"
	"strings"
	"testing"

	"pgregory.net/rapid"

	quic "github.com/refraction-networking/uquic"
	"github.com/refraction-networking/uquic/internal/ackhandler"
	"github.com/refraction-networking/uquic/internal/handshake"
	"github.com/refraction-networking/uquic/internal/monotime"
	"github.com/refraction-networking/uquic/internal/protocol"
	"github.com/refraction-networking/uquic/internal/utils"
	"github.com/refraction-networking/uquic/internal/wire"
	"github.com/refraction-networking/uquic/verif/refcrypto"
	"github.com/refraction-networking/uquic/verif/refwire"
	"github.com/refraction-networking/uquic/verif/specgen"
	"github.com/refraction-networking/uquic/verif/vf"
)

// ---------------------------------------------------------------------------------------
// case description
// ---------------------------------------------------------------------------------------

// PackParams is everything that is fixed before the first packet: the spec, the ClientHello-sized byte
// string and how it is written, and what the transport hands to the connection (connection IDs, token,
// version, Config.InitialPacketSize).
type PackParams struct {
	Spec     specgen.Desc `json:"spec"`
	CHLen    int          `json:"ch_len"`
	CHSeed   uint64       `json:"ch_seed"`
	CHMode   int          `json:"ch_mode,omitempty"` // content mode of fill()
	Cuts     []int        `json:"cuts,omitempty"`    // write boundaries (1..3 writes)
	MaxSize  int          `json:"max_size"`          // Config.InitialPacketSize = maxPacketSize() before MTU discovery
	V2       bool         `json:"v2,omitempty"`
	SrcCID   int          `json:"src_cid"`
	DestCID  int          `json:"dest_cid"`
	TokenLen int          `json:"token_len,omitempty"`
	Note     string       `json:"note,omitempty"` // generator label (class bookkeeping only)
}

// PackOp is one step of a history.
//
//	pack   one PackCoalescedPacket(false, ...) call (connection.go sendPackets, !handshakeConfirmed branch)
//	drain  pack until the packer has nothing more to send (the run loop keeps sending while SendMode is SendAny)
//	lose   one loss-detection pass: the packets PNs (ascending) are declared lost (detectLostPackets)
//	ack    the packets PNs are acknowledged (detectAndRemoveAckedPackets)
//	probe  one Initial PTO probe (connection.go sendProbePacket: QueueProbePacket + PackPTOProbePacket)
//	ackq   an ack-eliciting Initial packet of the server was received: an Initial ACK frame is queued
//	retry  a Retry is accepted (connection.go handleRetryPacket): N = length of the new destination connection ID,
//	       M = length of the Retry token
type PackOp struct {
	K   string  `json:"k"`
	PNs []int64 `json:"pns,omitempty"`
	N   int     `json:"n,omitempty"`
	M   int     `json:"m,omitempty"`
}

func genPackSpec(t *rapid.T, L int) (specgen.Desc, string) {
	note := ""
	d := specgen.Desc{Base: rapid.SampledFrom(specgen.BaseNames()).Draw(t, "base")}
	// packet numbers: as in specgen.Gen, a pinned encoding length is able to carry the number
	minLen := 1
	if rapid.IntRange(0, 2).Draw(t, "e-pn") == 0 {
		v := rapid.SampledFrom([]uint64{0, 1, 2, 40, 255, 256, 65535, 1 << 20}).Draw(t, "pn")
		d.InitPN = &v
		switch {
		case v > 16_000:
			minLen = 3
		case v > 60:
			minLen = 2
		}
	}
	switch rapid.IntRange(0, 3).Draw(t, "e-pnlen") {
	case 1:
		v := rapid.IntRange(minLen, 4).Draw(t, "pnlen")
		d.PNLen = &v
	case 2:
		n := rapid.IntRange(1, 3).Draw(t, "npnlens")
		for i := 0; i < n; i++ {
			d.PNLens = append(d.PNLens, rapid.IntRange(minLen, 4).Draw(t, "pnl"))
		}
	default:
		if minLen > 1 {
			v := 4
			d.PNLen = &v
		}
	}
	if rapid.IntRange(0, 2).Draw(t, "e-udpmin") == 0 {
		v := rapid.SampledFrom([]int{0, 1200, 1250, 1280, 1350}).Draw(t, "udpmin")
		d.UDPMin = &v
	}
	genPlans := func(first int) {
		if rapid.IntRange(0, 2).Draw(t, "e-plans") == 0 {
			return
		}
		n := rapid.IntRange(1, 3).Draw(t, "nplans")
		for i := 0; i < n; i++ {
			p := specgen.Plan{}
			if i == 0 && first > 0 {
				p.CryptoLength = first
			} else if rapid.IntRange(0, 3).Draw(t, "plan-crypto") != 0 {
				// split points that make a two-datagram flight out of a one-datagram ClientHello are common
				p.CryptoLength = rapid.OneOf(rapid.IntRange(20, 1000), rapid.IntRange(min(999, max(20, L/3)), min(1000, max(21, 2*L/3))), rapid.Just(999)).Draw(t, "plan-cl")
			}
			if p.CryptoLength > 0 && rapid.IntRange(0, 2).Draw(t, "plan-size") == 0 {
				// "must leave room" (InitialPacketPlan.PacketSize doc): same margin as specgen.Gen
				p.PacketSize = rapid.SampledFrom([]int{1200, 1232, 1250, 1280}).Draw(t, "plan-ps")
				p.CryptoLength = min(p.CryptoLength, p.PacketSize-420)
			}
			d.Plans = append(d.Plans, p)
		}
	}
	switch rapid.IntRange(0, 14).Draw(t, "e-builder") {
	case 11, 12, 13, 14:
		note = genWideFlight(t, L, &d)
	case 0: // the base's own builder and plans
	case 1:
		d.Builder = &specgen.Builder{Kind: "nil"}
		d.ClearPlans = true
		genPlans(0)
	case 2:
		d.Builder = &specgen.Builder{Kind: "frames"} // empty QUICFrames: pass-through
		d.ClearPlans = true
		genPlans(0)
	case 3:
		// a tiling layout (last piece open) for a first slice of S bytes; shorter slices (second datagram,
		// retransmissions) either fit it or take the single-frame fallback
		S := L
		if L > 1000 || rapid.Bool().Draw(t, "tile-split") {
			S = rapid.IntRange(max(20, L/4), min(1000, L-1)).Draw(t, "tile-s")
			if L <= 1200 && rapid.IntRange(0, 2).Draw(t, "tile-short-tail") == 0 {
				// the planned first datagram takes all but a tail of 1..200 bytes
				S = L - rapid.IntRange(max(1, L-1000), 200).Draw(t, "tile-tail")
			}
		}
		d.Builder = &specgen.Builder{Kind: "frames", Frames: specgen.GenTiling(t, S)}
		d.ClearPlans = true
		if S < L {
			d.Plans = []specgen.Plan{{CryptoLength: S}, {}}
		}
	case 4, 5:
		rf := specgen.GenRF(t, "rf-", false)
		d.Builder = &specgen.Builder{Kind: "random", Random: &rf}
		d.ClearPlans = true
		genPlans(0)
	case 6:
		rf := specgen.GenRF(t, "rf-", true)
		d.Builder = &specgen.Builder{Kind: "random", Random: &rf}
		d.ClearPlans = true
	case 7, 8:
		n := rapid.IntRange(1, 3).Draw(t, "nmulti")
		b := &specgen.Builder{Kind: "multi"}
		for i := 0; i < n; i++ {
			b.Multi = append(b.Multi, specgen.GenRF(t, fmt.Sprintf("m%d-", i), false))
		}
		d.Builder = b
		d.ClearPlans = true
		genPlans(0)
	case 9:
		d.Builder = &specgen.Builder{Kind: "randflight", RandFlight: specgen.GenRandFlight(t, L, L)}
		d.ClearPlans = true
	case 10:
		d.Builder = &specgen.Builder{Kind: "flight", Flight: specgen.GenFlight(t, L, L)}
		d.ClearPlans = true
	}
	return d, note
}

// genWideFlight draws a flight plan (QUICFlightFrames / QUICRandomFlightFrames) of 2..4 datagrams that covers the
// stream in order, with FEWER InitialPackets entries than datagrams being common (the last entry repeats: planFor,
// validateInitialFlight) and, when the ClientHello is long enough, one datagram - mostly the last, i.e. one of the
// extra ones - that is too large for its (repeated) budget: just above a 1200..1280-byte packet, above the
// 1452-byte packet buffer, or far beyond. Such a flight cannot be sent as described and has to be rejected by the
// first PackCoalescedPacket call, before anything is on the wire; a flight whose datagrams all fit is sent.
func genWideFlight(t *rapid.T, L int, d *specgen.Desc) string {
	D := rapid.IntRange(2, 4).Draw(t, "wf-d")
	big := -1
	if L >= 1250 && rapid.IntRange(0, 5).Draw(t, "wf-over") != 0 {
		big = D - 1
		if rapid.IntRange(0, 9).Draw(t, "wf-where") >= 6 {
			big = rapid.IntRange(0, D-1).Draw(t, "wf-k")
		}
	}
	split := func(total, parts int) []int { // positive sizes summing to total
		cuts := map[int]bool{}
		for i := 1; i < parts && total > 1; i++ {
			cuts[rapid.IntRange(1, total-1).Draw(t, "wf-cut")] = true
		}
		cs := []int{0}
		for c := range cuts {
			cs = append(cs, c)
		}
		sort.Ints(cs)
		cs = append(cs, total)
		var out []int
		for i := 1; i < len(cs); i++ {
			out = append(out, cs[i]-cs[i-1])
		}
		return out
	}
	var sizes []int
	if big >= 0 {
		X := rapid.OneOf(rapid.IntRange(1150, 1300), rapid.IntRange(1300, 1460), rapid.IntRange(1453, 2400)).Draw(t, "wf-x")
		X = max(1150, min(X, L-40*(D-1)))
		rest := split(L-X, D-1)
		big = min(big, len(rest))
		sizes = append(append(append(sizes, rest[:big]...), X), rest[big:]...)
	} else {
		sizes = split(L, D)
	}
	D = len(sizes)
	rand := rapid.Bool().Draw(t, "wf-rand")
	b := &specgen.Builder{Kind: "flight"}
	if rand {
		b.Kind = "randflight"
	}
	off := 0
	for i, n := range sizes {
		ln := n
		if i == D-1 && rapid.Bool().Draw(t, "wf-open") {
			ln = 0 // to the end of the stream
		}
		if rand {
			dg := specgen.FlightDG{Ranges: []specgen.Range{{Offset: off, Length: ln}}}
			if rapid.Bool().Draw(t, "wf-rf") {
				dg.Frames = specgen.RF{MinPING: 0, MaxPING: uint8(rapid.IntRange(0, 2).Draw(t, "wf-ping")), MinCRYPTO: 1, MaxCRYPTO: uint8(rapid.IntRange(1, 3).Draw(t, "wf-crypto"))}
			}
			b.RandFlight = append(b.RandFlight, dg)
		} else {
			fs := []specgen.FrameItem{{Kind: "crypto", Offset: off, Length: ln}}
			if rapid.IntRange(0, 3).Draw(t, "wf-fping") == 0 {
				fs = append(fs, specgen.FrameItem{Kind: "ping"})
			}
			b.Flight = append(b.Flight, fs)
		}
		off += n
	}
	d.Builder, d.ClearPlans, d.Plans = b, true, nil
	nplans := rapid.IntRange(0, D).Draw(t, "wf-nplans")
	for i := 0; i < nplans; i++ {
		d.Plans = append(d.Plans, specgen.Plan{PacketSize: rapid.SampledFrom([]int{0, 1200, 1200, 1232, 1250, 1280}).Draw(t, "wf-ps")})
	}
	switch {
	case big < 0:
		return "wide-flight:small-datagrams"
	case nplans > 0 && big >= nplans:
		return "wide-flight:big-datagram-beyond-plans"
	case nplans > 0:
		return "wide-flight:big-datagram-within-plans"
	default:
		return "wide-flight:big-datagram-no-plans"
	}
}

func genPackParams(t *rapid.T) PackParams {
	p := PackParams{}
	// 600..2500 bytes; lengths around one full datagram and two-datagram flights are common
	p.MaxSize = rapid.SampledFrom([]int{1200, 1200, 1232, 1252, 1280, 1280, 1350, 1452}).Draw(t, "maxsize")
	p.V2 = rapid.IntRange(0, 7).Draw(t, "v2") == 0
	p.SrcCID = rapid.SampledFrom([]int{0, 0, 3, 4, 8, 20}).Draw(t, "srccid")
	p.DestCID = rapid.SampledFrom([]int{8, 8, 9, 15, 16, 20}).Draw(t, "destcid")
	if rapid.IntRange(0, 3).Draw(t, "e-token") == 0 {
		p.TokenLen = rapid.SampledFrom([]int{1, 16, 70, 120}).Draw(t, "toklen")
	}
	if rapid.IntRange(0, 9).Draw(t, "chlen-tail") < 3 {
		// "k full datagrams + a tail of 1..200 bytes": the last datagram of the first flight carries a slice that
		// starts far from offset 0 and is shorter than whatever a pinned per-datagram layout fixes. The capacity of
		// an unplanned Initial datagram is InitialPacketSize minus long header (7 + connection IDs + token + length
		// + packet number), AEAD tag and one CRYPTO frame header; a few bytes of error only move the tail.
		capacity := p.MaxSize - (7 + p.DestCID + p.SrcCID + 1 + p.TokenLen + 2 + 2) - 16 - 4
		k := rapid.SampledFrom([]int{1, 1, 1, 2}).Draw(t, "chlen-k")
		p.CHLen = k*capacity + rapid.IntRange(1, 200).Draw(t, "chlen-tailbytes")
	} else {
		p.CHLen = rapid.OneOf(rapid.IntRange(600, 1100), rapid.IntRange(1100, 1500), rapid.IntRange(1500, 2500), rapid.IntRange(600, 2500)).Draw(t, "chlen")
	}
	p.CHSeed = rapid.Uint64Range(1, 1<<40).Draw(t, "chseed")
	switch rapid.IntRange(0, 19).Draw(t, "chmode") {
	case 0:
		p.CHMode = rapid.IntRange(1, 3).Draw(t, "chconst") // constant bytes that are themselves frame types
	case 1, 2, 3:
		p.CHMode = 4 // position stamp
	}
	for i, n := 0, rapid.IntRange(0, 2).Draw(t, "ncuts"); i < n; i++ {
		p.Cuts = append(p.Cuts, rapid.IntRange(1, p.CHLen-1).Draw(t, "cut"))
	}
	sort.Ints(p.Cuts)
	p.Spec, p.Note = genPackSpec(t, p.CHLen)
	return p
}

// ---------------------------------------------------------------------------------------
// the packer's collaborators
// ---------------------------------------------------------------------------------------

// packSealers is the cryptoSetup of a client that has Initial keys only.
type packSealers struct{ initial handshake.LongHeaderSealer }

func (s *packSealers) GetInitialSealer() (handshake.LongHeaderSealer, error) { return s.initial, nil }
func (s *packSealers) GetHandshakeSealer() (handshake.LongHeaderSealer, error) {
	return nil, handshake.ErrKeysNotYetAvailable
}
func (s *packSealers) Get0RTTSealer() (handshake.LongHeaderSealer, error) {
	return nil, handshake.ErrKeysNotYetAvailable
}
func (s *packSealers) Get1RTTSealer() (handshake.ShortHeaderSealer, error) {
	return nil, handshake.ErrKeysNotYetAvailable
}

// packAcks is the received-packet handler: it hands out one Initial ACK frame after an ack-eliciting Initial
// packet of the server was received, nothing otherwise.
type packAcks struct {
	queued  bool
	largest protocol.PacketNumber
	handed  bool // an ACK frame was handed to the packer during the current pack call
}

func (a *packAcks) GetAckFrame(l protocol.EncryptionLevel, _ monotime.Time, _ bool) *wire.AckFrame {
	if l != protocol.EncryptionInitial || !a.queued {
		return nil
	}
	a.queued, a.handed = false, true
	return &wire.AckFrame{AckRanges: []wire.AckRange{{Smallest: 0, Largest: a.largest}}}
}

// ---------------------------------------------------------------------------------------
// span arithmetic (normalised []span from c09_test.go)
// ---------------------------------------------------------------------------------------

func spanUnion(a []span, b ...span) []span {
	return normalise(append(append([]span(nil), a...), b...))
}

// spanMinus returns a \ b for normalised a, b.
func spanMinus(a, b []span) []span {
	var out []span
	for _, x := range a {
		s := x.s
		for _, y := range b {
			if y.e <= s || y.s >= x.e {
				continue
			}
			if y.s > s {
				out = append(out, span{s, y.s})
			}
			s = max(s, y.e)
		}
		if s < x.e {
			out = append(out, span{s, x.e})
		}
	}
	return normalise(out)
}

func spanIntersects(a []span, y span) bool {
	for _, x := range a {
		if x.s < y.e && y.s < x.e {
			return true
		}
	}
	return false
}

func spansString(v []span) string {
	var sb strings.Builder
	for i, x := range v {
		if i > 0 {
			sb.WriteByte(' ')
		}
		fmt.Fprintf(&sb, "[%d,%d)", x.s, x.e)
	}
	if len(v) == 0 {
		return "-"
	}
	return sb.String()
}

// ---------------------------------------------------------------------------------------
// the machine
// ---------------------------------------------------------------------------------------

type packPkt struct {
	pn     int64
	frames []ackhandler.Frame // what the sent-packet handler tracks for the packet
	spans  []span             // CRYPTO ranges on the wire (normalised)
	rtx    bool
}

type pendRange struct {
	sp  span
	src int64 // packet the range was lost from
}

type packMachine struct {
	p       PackParams
	spec    *quic.QUICSpec
	pk      *quic.VerifInitialPacker
	sph     ackhandler.SentPacketHandler
	seal    *packSealers
	acks    *packAcks
	ch      []byte
	version protocol.Version
	scid    protocol.ConnectionID
	dcid    protocol.ConnectionID
	token   []byte
	keys    *refcrypto.Keys
	cidGen  prng

	dead    bool // the packer reported an error: the connection is closed, nothing more happens
	exBuild bool // a per-datagram builder re-frames the packets (adds frame headers, PING, PADDING)
	// non-empty QUICFrames layout: bytes the layout pins (end of the furthest explicit CRYPTO entry / start of the
	// furthest open one, relative to the lowest CRYPTO offset); a shorter slice takes the single-frame fallback
	layoutFixed int
	kind        string
	maxDrain    int

	out        []*packPkt // outstanding ack-eliciting packets, ascending packet number
	lastPN     int64
	nDatagrams int
	sent       []span // every CRYPTO byte ever put on the wire
	owed       []span // lost, not acknowledged, not yet re-sent
	acked      []span
	pending    []pendRange
	anyLoss    bool
	received   bool // a packet of the server was processed (ACK, ack-eliciting Initial): a Retry is no longer accepted
	retried    bool
	retryMid   bool // the Retry arrived while planned flight datagrams were still unsent
	fromPlan   bool // the datagram being judged came out of the planned flight (packPlannedInitial)
	firstPNLen int  // packet number length of the first datagram (the header the flight budgets were computed with)
	flightDone bool // the packer once had nothing more to send: the first flight is out
	flightLen  int

	cls   map[string]bool
	trace []string
}

const packNow = monotime.Time(3_000_000_000)

func (m *packMachine) nextCID(n int) protocol.ConnectionID {
	b := make([]byte, n)
	for i := range b {
		b[i] = byte(m.cidGen.next() >> 32)
	}
	return protocol.ParseConnectionID(b)
}

func (m *packMachine) setKeys() {
	m.seal.initial, _ = handshake.NewInitialAEAD(m.dcid, protocol.PerspectiveClient, m.version)
	v := refwire.Version1
	if m.p.V2 {
		v = refwire.Version2
	}
	m.keys, _ = refcrypto.InitialKeys(v, m.dcid.Bytes())
}

func newPackMachine(p PackParams) vf.Machine[PackOp] {
	m := &packMachine{p: p, cls: map[string]bool{}, lastPN: -1, cidGen: prng{s: p.CHSeed*2 + 1}}
	spec, err := p.Spec.Build()
	if err != nil {
		panic("harness: spec build: " + err.Error())
	}
	m.spec = spec
	m.version = protocol.Version1
	if p.V2 {
		m.version = protocol.Version2
	}
	m.ch = fill(p.CHLen, p.CHSeed, p.CHMode)
	m.scid = m.nextCID(p.SrcCID)
	m.dcid = m.nextCID(p.DestCID)
	m.seal = &packSealers{}
	m.acks = &packAcks{}
	m.setKeys()
	ips := &spec.InitialPacketSpec
	// u_connection.go newUClientConnection: NewUAckHandler(initialPacketNumber, InitialPacketSize, ...) followed by
	// SetInitialPacketNumberLengths / SetInitialPacketNumberLength
	m.sph = ackhandler.NewUAckHandler(protocol.PacketNumber(ips.InitPacketNumber), protocol.ByteCount(p.MaxSize), utils.NewRTTStats(),
		&utils.ConnectionStats{}, false, false, nil, protocol.PerspectiveClient, nil, utils.DefaultLogger)
	if len(ips.InitPacketNumberLengths) > 0 {
		ackhandler.SetInitialPacketNumberLengths(m.sph, protocol.PacketNumber(ips.InitPacketNumber), ips.InitPacketNumberLengths)
	} else if ips.InitPacketNumberLength != 0 {
		ackhandler.SetInitialPacketNumberLength(m.sph, ips.InitPacketNumberLength)
	}
	m.pk = quic.VerifNewInitialPacker(spec, m.scid, func() protocol.ConnectionID { return m.dcid }, m.sph, m.seal, m.acks)
	if p.TokenLen > 0 {
		m.token = fill(p.TokenLen, p.CHSeed+7, 0)
		m.pk.SetToken(m.token) // u_connection.go: s.packer.SetToken(token.data)
	}
	// builder kind
	switch fb := ips.FrameBuilder.(type) {
	case nil:
		m.kind = "nil"
	case quic.QUICFrames:
		if len(fb) == 0 {
			m.kind = "frames-empty"
		} else {
			m.kind, m.exBuild = "frames", true
			lowest := math.MaxInt
			for _, f := range fb {
				if off, _, ok := f.CryptoFrameInfo(); ok && off < lowest {
					lowest = off
				}
			}
			for _, f := range fb {
				if off, l, ok := f.CryptoFrameInfo(); ok {
					m.layoutFixed = max(m.layoutFixed, off-lowest+max(l, 0))
				}
			}
		}
	case *quic.QUICRandomFrames:
		m.kind, m.exBuild = "random", true
		if fb.Length > 0 {
			m.kind = "random+length"
		}
	case *quic.QUICMultiDatagramFrames:
		m.kind, m.exBuild = "multi", true
	case *quic.QUICFlightFrames:
		m.kind = "flight"
	case *quic.QUICRandomFlightFrames:
		m.kind = "randflight"
	default:
		m.kind = fmt.Sprintf("%T", fb)
		m.exBuild = true
	}
	minCL := 1000
	for _, pl := range ips.InitialPackets {
		if pl.CryptoLength > 0 && pl.CryptoLength < minCL {
			minCL = pl.CryptoLength
		}
	}
	m.maxDrain = 4*(p.CHLen/minCL+4) + 24
	// connection.go handleHandshakeEvent: one initialStream.Write per EventWriteInitialData, all of them before the
	// first packet is packed
	prev := 0
	for _, c := range append(append([]int(nil), p.Cuts...), p.CHLen) {
		if c <= prev {
			continue
		}
		if _, err := m.pk.WriteInitialCrypto(m.ch[prev:c]); err != nil {
			panic("harness: initial stream write: " + err.Error())
		}
		prev = c
	}
	return m
}

func (m *packMachine) bad(sig, format string, args ...any) *vf.Verdict {
	v := vf.Bad(sig, format, args...)
	tr := m.trace
	if len(tr) > 80 {
		tr = tr[len(tr)-80:]
	}
	full := append([]string{fmt.Sprintf("builder %s, ClientHello %d bytes, max packet size %d", m.kind, m.p.CHLen, m.p.MaxSize)}, tr...)
	v.Trace = full
	if os.Getenv("C09_PACK_DEBUG") != "" {
		v.Detail += "\n" + strings.Join(full, "\n")
	}
	return v
}

// call runs one packer call; the property says the packer never panics.
func (m *packMachine) call(what string, f func() (*quic.VerifPackedDatagram, error)) (d *quic.VerifPackedDatagram, err error, v *vf.Verdict) {
	defer func() {
		if r := recover(); r != nil {
			v = m.bad("C09/packer/panic", "%s panicked: %v", what, r)
		}
	}()
	m.acks.handed = false
	d, err = f()
	return d, err, nil
}

func (m *packMachine) log(format string, args ...any) {
	if len(m.trace) < 400 {
		m.trace = append(m.trace, fmt.Sprintf(format, args...))
	}
}

func queuedString(q [][2]protocol.ByteCount) string {
	var sb strings.Builder
	for i, f := range q {
		if i > 0 {
			sb.WriteByte(' ')
		}
		fmt.Fprintf(&sb, "[%d,%d)", f[0], f[0]+f[1])
	}
	if len(q) == 0 {
		return "-"
	}
	return sb.String()
}

// packErr decides an error return of the packer.
func (m *packMachine) packErr(what string, err error) *vf.Verdict {
	m.dead = true
	m.log("%s: error %v", what, err)
	if m.nDatagrams == 0 {
		// "A configuration that cannot achieve this is rejected with an error before anything is sent."
		m.cls["rejected-before-send"] = true
		if os.Getenv("C09_PACK_DEBUG") == "2" {
			fmt.Printf("REJECT %s max=%d: %s\n", m.kind, m.p.MaxSize, err)
		}
		return nil
	}
	if m.exBuild && strings.Contains(err.Error(), "does not fit the packet buffer") {
		// Same root cause as the open finding C10/size/overshoot-initial-packet-size: the CRYPTO data is popped for
		// the whole maximum packet size and the frame headers / PING / PADDING a per-datagram builder adds are not
		// budgeted. With Config.InitialPacketSize close to the 1452-byte packet buffer the overshoot no longer fits
		// and the packer refuses the packet (the connection closes). Raised under its own signature only when
		// known_findings.json lists it, otherwise counted.
		const sig = "C09/packer/builder-overhead-overflows-buffer"
		if vf.IsKnown(sig) {
			return m.bad(sig, "%s failed after %d datagrams were sent: %v", what, m.nDatagrams, err)
		}
		m.cls["ood:builder-overhead-overflows-buffer(C10 overshoot family)"] = true
		return nil
	}
	if m.fromPlan && what == "PackCoalescedPacket" && m.p.MaxSize >= 1449 && pnLenGrows(m.spec) && strings.Contains(err.Error(), "does not fit the packet buffer") {
		// same root cause as ood:flight-budget-ignores-pn-length-growth, with Config.InitialPacketSize at the packet buffer size
		if strings.Contains(err.Error(), " 1 more than") || strings.Contains(err.Error(), " 2 more than") || strings.Contains(err.Error(), " 3 more than") {
			m.cls["ood:flight-budget-ignores-pn-length-growth"] = true
			return nil
		}
	}
	if m.retryMid && strings.Contains(err.Error(), "does not fit the packet buffer") {
		m.cls["ood:retry-mid-flight-grows-planned-datagram"] = true
		return nil
	}
	return m.bad("C09/packer/error-after-send", "%s failed after %d datagrams were sent (the connection closes with a partly sent / partly recovered ClientHello): %v", what, m.nDatagrams, err)
}

// idle checks the state in which the packer says it has nothing to send.
func (m *packMachine) idle() *vf.Verdict {
	q := m.pk.QueuedInitialCrypto()
	_, _, pend := m.pk.State()
	if m.pk.InitialCryptoHasData() || len(q) > 0 || pend > 0 {
		return m.bad("C09/packer/stall", "PackCoalescedPacket returned nothing although data is waiting: stream has data %v, retransmission queue %s, planned datagrams %d",
			m.pk.InitialCryptoHasData(), queuedString(q), pend)
	}
	if !m.flightDone {
		m.flightDone, m.flightLen = true, m.nDatagrams
	}
	if want := []span{{0, m.p.CHLen}}; !sameSpans(m.sent, want) {
		return m.bad("C09/packer/incomplete", "nothing more to send, but the CRYPTO frames sent so far cover %s of the %d-byte ClientHello: %s", spansString(m.sent), m.p.CHLen, firstDiff(m.sent, want))
	}
	if len(m.owed) > 0 {
		return m.bad("C09/packer/lost-range-not-resent", "nothing more to send, but %s was declared lost, is not acknowledged and was not sent again", spansString(m.owed))
	}
	return nil
}

// packOne is one PackCoalescedPacket(false, ...) call. It returns whether a datagram was produced.
func (m *packMachine) packOne() (bool, *vf.Verdict) {
	if m.dead {
		return false, nil
	}
	idx, planned, pend := m.pk.State()
	m.fromPlan = pend > 0
	queue := m.pk.QueuedInitialCrypto()
	d, err, v := m.call("PackCoalescedPacket", func() (*quic.VerifPackedDatagram, error) {
		return m.pk.PackCoalescedPacket(false, protocol.ByteCount(m.p.MaxSize), packNow, m.version)
	})
	if v != nil {
		return false, v
	}
	if err != nil {
		return false, m.packErr("PackCoalescedPacket", err)
	}
	if d == nil {
		return false, m.idle()
	}
	return true, m.observe("pack", d, idx, planned, queue)
}

func (m *packMachine) drain() *vf.Verdict {
	for i := 0; ; i++ {
		ok, v := m.packOne()
		if v != nil || !ok || m.dead {
			return v
		}
		if i > m.maxDrain {
			return m.bad("C09/packer/never-drains", "%d datagrams packed in a row and the packer still has more to send", i)
		}
	}
}

// observe decides one datagram.
func (m *packMachine) observe(what string, d *quic.VerifPackedDatagram, idx int, planned bool, queue [][2]protocol.ByteCount) *vf.Verdict {
	m.nDatagrams++
	if d.HasShortHdrPacket || len(d.LongHdrPackets) != 1 || d.LongHdrPackets[0].Type != protocol.PacketTypeInitial {
		return m.bad("C09/packer/not-initial-only", "%s: with Initial keys only the datagram must be exactly one Initial packet, got %d long header packets, short header %v", what, len(d.LongHdrPackets), d.HasShortHdrPacket)
	}
	lp := d.LongHdrPackets[0]
	data := d.Data
	h, err := refwire.ParseLongHeader(data)
	if err != nil {
		return m.bad("C09/packer/not-well-formed", "%s: long header: %v", what, err)
	}
	wantV := refwire.Version1
	if m.p.V2 {
		wantV = refwire.Version2
	}
	if err := h.Check(len(data)); err != nil {
		return m.bad("C09/packer/not-well-formed", "%s: long header: %v", what, err)
	}
	if h.Kind != refwire.LongInitial || h.Version != wantV || !bytes.Equal(h.DCID, m.dcid.Bytes()) || !bytes.Equal(h.SCID, m.scid.Bytes()) || !bytes.Equal(h.Token, m.token) {
		return m.bad("C09/packer/not-well-formed", "%s: header kind %d version %#x dcid %x scid %x token %d bytes; expected Initial, %#x, %x, %x, token %d bytes", what, h.Kind, h.Version, h.DCID, h.SCID, len(h.Token), wantV, m.dcid.Bytes(), m.scid.Bytes(), len(m.token))
	}
	end := h.PNOffset + int(h.Length)
	for i := end; i < len(data); i++ {
		if data[i] != 0 {
			return m.bad("C09/packer/not-well-formed", "%s: byte %d after the Initial packet (which ends at %d) is %#x: only zero datagram padding can follow", what, i, end, data[i])
		}
	}
	_, pn, pnLen, payload, err := refcrypto.Unprotect(m.keys, data[:end], h.PNOffset, int64(lp.PacketNumber)-1)
	if err != nil {
		return m.bad("C09/packer/undecryptable", "%s: the Initial packet (%d bytes, packer says pn %d) cannot be opened with the Initial keys of %x: %v", what, end, lp.PacketNumber, m.dcid.Bytes(), err)
	}
	if int64(pn) != int64(lp.PacketNumber) || pnLen != int(lp.PacketNumberLen) {
		return m.bad("C09/packer/not-well-formed", "%s: wire packet number %d (%d bytes), packer reports %d (%d bytes)", what, pn, pnLen, lp.PacketNumber, lp.PacketNumberLen)
	}
	if int64(pn) <= m.lastPN {
		return m.bad("C09/packer/pn-not-increasing", "%s: packet number %d after %d", what, pn, m.lastPN)
	}
	m.lastPN = int64(pn)
	frames, err := refwire.ParseFrames(payload)
	if err != nil {
		return m.bad("C09/packer/unparseable", "%s: pn %d: payload is not a frame sequence: %v", what, pn, err)
	}
	var wireSp []span
	nCrypto, nPing := 0, 0
	for _, f := range frames {
		switch f.Name {
		case refwire.NamePadding:
		case refwire.NamePing:
			nPing++
		case refwire.NameAck:
			if !m.acks.handed {
				return m.bad("C09/packer/frame-not-initial-level", "%s: pn %d carries an ACK frame although nothing was to be acknowledged", what, pn)
			}
		case refwire.NameCrypto:
			nCrypto++
			off, l := f.Offset, uint64(len(f.Data))
			if off+l > uint64(m.p.CHLen) || off+l < off {
				return m.bad("C09/packer/out-of-stream", "%s: pn %d (datagram index %d, tracked %s): CRYPTO frame [%d,%d) reaches past the end of the %d-byte ClientHello", what, pn, idx, trackedString(lp.Frames), off, off+l, m.p.CHLen)
			}
			if !bytes.Equal(f.Data, m.ch[off:off+l]) {
				return m.bad("C09/packer/wrong-bytes", "%s: pn %d (datagram index %d, tracked %s): CRYPTO frame [%d,%d) does not carry the ClientHello's bytes of that range", what, pn, idx, trackedString(lp.Frames), off, off+l)
			}
			wireSp = append(wireSp, span{int(off), int(off + l)})
		default:
			return m.bad("C09/packer/frame-not-initial-level", "%s: pn %d carries a %s frame", what, pn, f.Name)
		}
	}
	wireSp = normalise(wireSp)
	// what the sent-packet handler is told to track must be what went out: otherwise an acknowledgement of this
	// packet confirms bytes the peer never got, or a loss re-sends something else
	var tracked []span
	trackedNonAsc, hi := false, -1
	nTracked := 0
	for _, f := range lp.Frames {
		if cf, ok := f.Frame.(*wire.CryptoFrame); ok {
			nTracked++
			if int(cf.Offset) < hi {
				trackedNonAsc = true
			}
			hi = max(hi, int(cf.Offset))
			tracked = append(tracked, span{int(cf.Offset), int(cf.Offset) + len(cf.Data)})
		}
	}
	tracked = normalise(tracked)
	if !sameSpans(wireSp, tracked) {
		return m.bad("C09/packer/tracking-mismatch", "%s: pn %d (datagram index %d): CRYPTO ranges on the wire %s, ranges registered for acknowledgement / loss recovery %s: %s", what, pn, idx, spansString(wireSp), spansString(tracked), firstDiff(wireSp, tracked))
	}
	// size
	plan := quic.InitialPacketPlan{}
	if ip := m.spec.InitialPacketSpec.InitialPackets; len(ip) > 0 {
		plan = ip[min(idx, len(ip)-1)]
	}
	limit := m.p.MaxSize
	if plan.PacketSize > 0 {
		limit = max(limit, plan.PacketSize)
	} else if what == "probe" || len(lp.Frames) > 0 {
		// appendInitialPacket pads the datagram to UDPDatagramMinSize (PackCoalescedPacket takes that path for
		// packets with frames, PackPTOProbePacket always)
		udpMin := m.spec.UDPDatagramMinSize
		if udpMin == 0 {
			udpMin = quic.DefaultUDPDatagramMinSize
		}
		limit = max(limit, udpMin)
	}
	if m.firstPNLen == 0 {
		m.firstPNLen = pnLen
	}
	// flightBudgets sizes every planned datagram with the long header of the FIRST packet; a spec that pins growing
	// packet number lengths (Chrome 146: {1, 2}) makes the later headers 1..3 bytes longer, so a planned datagram that
	// fills its budget exceeds the maximum / its pinned PacketSize by that much. Found by this unit on HEAD; counted,
	// and raised as C09/packer/flight-budget-ignores-pn-length only when known_findings.json lists that signature.
	slack := 0
	if what == "pack" && m.fromPlan && pnLen > m.firstPNLen {
		slack = pnLen - m.firstPNLen
	}
	pnSlack := func(over int) *vf.Verdict {
		const sig = "C09/packer/flight-budget-ignores-pn-length"
		if vf.IsKnown(sig) {
			return m.bad(sig, "%s: pn %d (datagram index %d): planned flight datagram of %d bytes is %d over its size: the flight budget was computed with a %d-byte packet number, this packet has %d", what, pn, idx, len(data), over, m.firstPNLen, pnLen)
		}
		m.cls["ood:flight-budget-ignores-pn-length-growth"] = true
		return nil
	}
	if what == "pack" && !m.anyLoss && plan.PacketSize > 0 && len(lp.Frames) > 0 && len(data) > plan.PacketSize && len(data) <= plan.PacketSize+slack {
		if v := pnSlack(len(data) - plan.PacketSize); v != nil {
			return v
		}
	} else if what == "pack" && !m.anyLoss && plan.PacketSize > 0 && len(lp.Frames) > 0 && len(data) > plan.PacketSize && !(m.exBuild && !planned) {
		// first transmissions only: a retransmission is sized by Config.InitialPacketSize (PackCoalescedPacket has no
		// per-plan cap on the flight-builder path), which may be larger than the pinned size.
		// InitialPacketPlan.PacketSize "forces the exact serialized QUIC packet size"; a planned flight datagram was
		// validated against it (validateInitialFlight, last entry repeats), a pass-through datagram is capped by the
		// CryptoLength that comes with the PacketSize
		return m.bad("C09/packer/exceeds-pinned-packet-size", "%s: pn %d (datagram index %d): datagram of %d bytes, InitialPackets pins this datagram to %d bytes (plan %+v, tracked %s)", what, pn, idx, len(data), plan.PacketSize, plan, trackedString(lp.Frames))
	}
	if len(data) > limit && len(data) <= limit+slack {
		if v := pnSlack(len(data) - limit); v != nil {
			return v
		}
	} else if len(data) > limit {
		if what == "pack" && m.fromPlan && m.retryMid {
			// The flight was validated against the header of the first datagram; a Retry that arrives between two
			// datagrams of the flight (round trip shorter than one run-loop iteration) adds its token to the header of
			// the planned datagrams still to come, which can then exceed the maximum by up to the token length.
			// Rare interleaving, not a framing defect: counted.
			m.cls["ood:retry-mid-flight-grows-planned-datagram"] = true
		} else if m.exBuild && !planned {
			// known, open finding C10/size/overshoot-initial-packet-size: the frame headers, PING and PADDING frames a
			// per-datagram builder adds are not budgeted when the CRYPTO data is popped
			m.cls["size:builder-overshoot(known C10 finding)"] = true
		} else {
			return m.bad("C09/packer/size-exceeds-max", "%s: pn %d (datagram index %d): datagram of %d bytes, maximum packet size %d, plan %+v, UDPDatagramMinSize %d, tracked %s, payload %d bytes", what, pn, idx, len(data), m.p.MaxSize, plan, m.spec.UDPDatagramMinSize, trackedString(lp.Frames), len(payload))
		}
	}
	// bookkeeping
	rtx := len(m.pending) > 0 && len(wireSp) > 0
	srcs := map[int64]bool{}
	var keep []pendRange
	for _, pr := range m.pending {
		if !spanIntersects(wireSp, pr.sp) {
			keep = append(keep, pr)
			continue
		}
		srcs[pr.src] = true
		for _, rest := range spanMinus([]span{pr.sp}, wireSp) {
			keep = append(keep, pendRange{rest, pr.src})
		}
	}
	m.pending = keep
	rtx = rtx && len(srcs) > 0
	m.sent = spanUnion(m.sent, wireSp...)
	m.owed = spanMinus(m.owed, wireSp)
	if len(lp.Frames) > 0 { // ack-eliciting: tracked by the sent-packet handler
		m.out = append(m.out, &packPkt{pn: int64(pn), frames: lp.Frames, spans: wireSp, rtx: rtx})
	}
	queueNonAsc := false
	for i := 1; i < len(queue); i++ {
		if queue[i][0] < queue[i-1][0] {
			queueNonAsc = true
		}
	}
	if rtx {
		m.cls["retransmission"] = true
		if len(srcs) >= 2 {
			m.cls["rtx:from>=2-packets"] = true
		}
		if planned {
			m.cls["rtx:after-planned-flight"] = true
		}
	}
	if queueNonAsc {
		m.cls["queue:non-ascending"] = true
	}
	if trackedNonAsc {
		m.cls["packed:non-ascending-frames"] = true
		if len(tracked) == 1 {
			m.cls["packed:non-ascending-contiguous"] = true
			if m.exBuild && !planned {
				m.cls["packed:non-ascending-contiguous-rebuilt"] = true
			}
		}
	}
	if nTracked >= 2 && len(tracked) >= 2 {
		m.cls["packed:non-contiguous"] = true
	}
	// how the slice of this datagram meets a pinned per-datagram layout (measured; the oracle above is the same for
	// every datagram): a per-datagram builder is handed the contiguous slice [a,b) with base a
	if m.exBuild && !planned && len(tracked) == 1 {
		a, b := tracked[0].s, tracked[0].e
		if !m.anyLoss && !rtx && idx >= 1 && a > 0 && b == m.p.CHLen && b-a <= 200 {
			m.cls["tail-datagram-short"] = true
		}
		if m.layoutFixed > 0 && b-a < m.layoutFixed {
			m.cls["slice-shorter-than-layout"] = true
			if a > 0 && nCrypto == 1 {
				m.cls["fallback-single-frame-at-nonzero-offset"] = true
				if rtx {
					m.cls["fallback-single-frame-at-nonzero-offset:rtx"] = true
				} else {
					m.cls["fallback-single-frame-at-nonzero-offset:first-transmission"] = true
				}
			}
		}
	}
	if lp.Ack != nil {
		m.cls["with-initial-ack"] = true
	}
	if nCrypto == 0 && nPing > 0 {
		m.cls["ping-only"] = true
	}
	m.log("%s: dg#%d idx=%d pn=%d/%d size=%d queue=%s tracked=%s wire(%d frames)=%s ping=%d ack=%v", what, m.nDatagrams, idx, pn, pnLen, len(data), queuedString(queue), trackedString(lp.Frames), nCrypto, spansString(wireSp), nPing, lp.Ack != nil)
	return nil
}

func pnLenGrows(spec *quic.QUICSpec) bool {
	ls := spec.InitialPacketSpec.InitPacketNumberLengths
	for _, l := range ls {
		if l > ls[0] {
			return true
		}
	}
	return false
}

func trackedString(fs []ackhandler.Frame) string {
	var sb strings.Builder
	for _, f := range fs {
		switch x := f.Frame.(type) {
		case *wire.CryptoFrame:
			fmt.Fprintf(&sb, "[%d,%d)", x.Offset, int(x.Offset)+len(x.Data))
		case *wire.PingFrame:
			sb.WriteString("PING")
		default:
			fmt.Fprintf(&sb, "%T", x)
		}
		sb.WriteByte(' ')
	}
	if sb.Len() == 0 {
		return "-"
	}
	return strings.TrimSpace(sb.String())
}

// lose declares one outstanding packet lost: sentPacketHandler.queueFramesForRetransmission.
func (m *packMachine) lose(i int) {
	p := m.out[i]
	m.out = append(m.out[:i:i], m.out[i+1:]...)
	for _, f := range p.frames {
		if f.Handler != nil {
			f.Handler.OnLost(f.Frame)
		}
	}
	m.anyLoss = true
	need := spanMinus(p.spans, m.acked)
	m.owed = spanUnion(m.owed, need...)
	for _, s := range p.spans {
		m.pending = append(m.pending, pendRange{s, p.pn})
	}
	m.log("lost pn %d %s -> queue %s", p.pn, spansString(p.spans), queuedString(m.pk.QueuedInitialCrypto()))
}

func (m *packMachine) find(pn int64) int {
	for i, p := range m.out {
		if p.pn == pn {
			return i
		}
	}
	return -1
}

func (m *packMachine) firstFlightOut() bool {
	_, _, pend := m.pk.State()
	return m.nDatagrams > 0 && !m.pk.InitialCryptoHasData() && pend == 0
}

func (m *packMachine) Apply(op PackOp) *vf.Verdict {
	if m.dead {
		return nil
	}
	switch op.K {
	case "pack":
		_, v := m.packOne()
		return v
	case "drain":
		return m.drain()
	case "lose":
		pns := append([]int64(nil), op.PNs...)
		sort.Slice(pns, func(i, j int) bool { return pns[i] < pns[j] }) // detectLostPackets walks the history in packet number order
		for _, pn := range pns {
			if i := m.find(pn); i >= 0 {
				m.lose(i)
			}
		}
		m.received = true // loss detection runs when an ACK is processed
	case "ack":
		pns := append([]int64(nil), op.PNs...)
		sort.Slice(pns, func(i, j int) bool { return pns[i] < pns[j] })
		for _, pn := range pns {
			i := m.find(pn)
			if i < 0 {
				continue
			}
			p := m.out[i]
			m.out = append(m.out[:i:i], m.out[i+1:]...)
			for _, f := range p.frames {
				if f.Handler != nil {
					f.Handler.OnAcked(f.Frame)
				}
			}
			m.acked = spanUnion(m.acked, p.spans...)
			m.owed = spanMinus(m.owed, p.spans)
			m.log("acked pn %d %s", p.pn, spansString(p.spans))
		}
		m.received = true
		m.cls["ack"] = true
	case "ackq":
		m.acks.queued, m.acks.largest = true, protocol.PacketNumber(op.N)
		m.received = true
		m.log("server Initial received: ACK queued")
	case "probe":
		if !m.firstFlightOut() {
			return nil
		}
		// connection.go sendProbePacket
		var d *quic.VerifPackedDatagram
		idx, planned, _ := m.pk.State()
		m.fromPlan = false
		var queue [][2]protocol.ByteCount
		for d == nil {
			if len(m.out) == 0 { // QueueProbePacket: nothing outstanding
				break
			}
			m.lose(0) // QueueProbePacket: the first outstanding packet is declared lost
			queue = m.pk.QueuedInitialCrypto()
			var err error
			var v *vf.Verdict
			d, err, v = m.call("PackPTOProbePacket", func() (*quic.VerifPackedDatagram, error) {
				return m.pk.PackPTOProbePacket(protocol.EncryptionInitial, protocol.ByteCount(m.p.MaxSize), false, packNow, m.version)
			})
			if v != nil {
				return v
			}
			if err != nil {
				return m.packErr("PackPTOProbePacket", err)
			}
		}
		if d == nil {
			var err error
			var v *vf.Verdict
			queue = m.pk.QueuedInitialCrypto()
			d, err, v = m.call("PackPTOProbePacket", func() (*quic.VerifPackedDatagram, error) {
				return m.pk.PackPTOProbePacket(protocol.EncryptionInitial, protocol.ByteCount(m.p.MaxSize), true, packNow, m.version)
			})
			if v != nil {
				return v
			}
			if err != nil {
				return m.packErr("PackPTOProbePacket", err)
			}
		}
		if d == nil {
			return m.bad("C09/packer/probe-not-packed", "PackPTOProbePacket(Initial, addPingIfEmpty) returned no packet: the connection fails with 'couldn't pack Initial probe packet'")
		}
		m.cls["probe"] = true
		return m.observe("probe", d, idx, planned, queue)
	case "retry":
		if m.received || m.retried || m.nDatagrams == 0 {
			return nil
		}
		// connection.go handleRetryPacket: ResetForRetry (every outstanding ack-eliciting packet, in packet number order,
		// goes to the retransmission queue), new Initial keys, token, destination connection ID
		for len(m.out) > 0 {
			m.lose(0)
		}
		if _, _, pend := m.pk.State(); pend > 0 {
			m.retryMid = true
		}
		m.sph.ResetForRetry(packNow)
		m.dcid = m.nextCID(op.N)
		m.setKeys()
		m.token = fill(op.M, m.p.CHSeed+11, 0)
		m.pk.SetToken(m.token)
		m.retried = true
		m.cls["retry"] = true
		m.log("retry: dcid %x token %d bytes", m.dcid.Bytes(), op.M)
	}
	return nil
}

func (m *packMachine) Gen(t *rapid.T) PackOp {
	if m.dead {
		return PackOp{K: "pack"}
	}
	subset := func(label string) []int64 {
		var pns []int64
		for _, p := range m.out {
			if rapid.IntRange(0, 9).Draw(t, label) < 6 {
				pns = append(pns, p.pn)
			}
		}
		if len(pns) == 0 {
			pns = append(pns, m.out[rapid.IntRange(0, len(m.out)-1).Draw(t, label+"1")].pn)
		}
		return pns
	}
	retryOp := func() PackOp {
		return PackOp{K: "retry", N: rapid.SampledFrom([]int{4, 8, 8, 16, 20}).Draw(t, "retry-cid"), M: rapid.SampledFrom([]int{8, 30, 70, 120}).Draw(t, "retry-tok")}
	}
	if !m.firstFlightOut() {
		// the first flight goes out back to back; an ACK / a Retry in between needs a round trip shorter than one
		// run-loop iteration: possible, rare
		r := rapid.IntRange(0, 29).Draw(t, "op0")
		switch {
		case r == 0 && len(m.out) > 0:
			return PackOp{K: "lose", PNs: subset("l")}
		case r == 1 && len(m.out) > 0:
			return PackOp{K: "ack", PNs: subset("a")}
		case r == 2 && !m.received && !m.retried && m.nDatagrams > 0:
			return retryOp()
		case r < 16:
			return PackOp{K: "drain"}
		default:
			return PackOp{K: "pack"}
		}
	}
	for {
		r := rapid.IntRange(0, 21).Draw(t, "op")
		switch {
		case r < 3:
			return PackOp{K: "pack"}
		case r < 8:
			return PackOp{K: "drain"}
		case r < 15:
			if len(m.out) > 0 {
				return PackOp{K: "lose", PNs: subset("l")}
			}
		case r < 17:
			if len(m.out) > 0 {
				return PackOp{K: "ack", PNs: subset("a")}
			}
		case r < 19:
			return PackOp{K: "probe"}
		case r < 20:
			return PackOp{K: "ackq", N: rapid.IntRange(0, 3).Draw(t, "ack-largest")}
		default:
			if !m.received && !m.retried {
				return retryOp()
			}
		}
		if len(m.out) == 0 && rapid.Bool().Draw(t, "idle-drain") {
			return PackOp{K: "drain"}
		}
	}
}

func (m *packMachine) Finish(u *vf.Unit) *vf.Verdict {
	if !m.dead {
		// everything in flight is lost, everything is sent again - twice: the second round re-sends retransmissions
		for round := 0; round < 2 && !m.dead; round++ {
			if v := m.drain(); v != nil {
				return v
			}
			if m.dead {
				break
			}
			for len(m.out) > 0 {
				m.lose(0)
			}
			if v := m.drain(); v != nil {
				return v
			}
		}
	}
	u.Class("builder:" + m.kind)
	if m.p.Note != "" {
		u.Class(m.p.Note)
		switch {
		case m.cls["rejected-before-send"]:
			u.Class(m.p.Note + ":rejected-before-send")
		case !m.dead:
			u.Class(m.p.Note + ":sent")
			if np := len(m.spec.InitialPacketSpec.InitialPackets); np > 0 && m.flightLen > np {
				u.Class("wide-flight:sent-with-more-datagrams-than-plans")
			}
		}
	}
	if m.dead {
		for c := range m.cls {
			u.Class(c)
		}
		return nil
	}
	switch {
	case m.flightLen == 1:
		u.Class("flight:1-datagram")
	case m.flightLen == 2:
		u.Class("flight:2-datagrams")
	default:
		u.Class("flight:3+-datagrams")
	}
	if len(m.spec.InitialPacketSpec.InitialPackets) > 0 {
		u.Class("plans")
	}
	for c := range m.cls {
		u.Class(c)
		if c == "packed:non-ascending-contiguous-rebuilt" || c == "rtx:from>=2-packets" {
			u.Class(c + "|" + m.kind)
		}
	}
	if m.cls["rtx:from>=2-packets"] || m.cls["queue:non-ascending"] {
		u.NonTrivial(fmt.Sprintf("%+v", m.p), strings.Join(m.trace, "\n"))
	}
	return nil
}

func TestPackerRetransmit(t *testing.T) {
	vf.RunMachine(t, "packer-rtx", 24, genPackParams, newPackMachine)
}
