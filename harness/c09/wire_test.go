package c09

import (
	"fmt"
	"strings"
	"testing"
	"time"

	"pgregory.net/rapid"

	"github.com/refraction-networking/uquic/verif/sim"
	"github.com/refraction-networking/uquic/verif/specgen"
	"github.com/refraction-networking/uquic/verif/vf"
)

// C09(b): the packer on the wire. A generated spec is dialled (i) into a black hole for 2.5 s of virtual time, so
// that the first flight AND its PTO retransmissions are captured, and (ii) against the in-tree server with
// drop/dup/delay faults on the first datagrams. The independent observer (refcrypto keys, refwire frames) must
// find only PADDING / PING / CRYPTO (+ACK, and CONNECTION_CLOSE when the client gives up) at Initial level, CRYPTO
// ranges that agree wherever they overlap and together cover one structurally valid ClientHello whose length
// field matches; against the live server the handshake completes. A configuration that cannot be sent must fail
// Dial with ZERO datagrams on the wire.

type WireCase struct {
	Spec   specgen.Desc `json:"spec"`
	Live   bool         `json:"live"`
	Faults []sim.Fault  `json:"faults,omitempty"`
	Retry  bool         `json:"retry,omitempty"`
}

var (
	wireT  *testing.T
	chlenW func(specgen.Desc) (int, int)
)

func genWireCase(t *rapid.T) WireCase {
	c := WireCase{Spec: specgen.Gen(t, specgen.Options{Bases: specgen.BaseNames(), CHLen: chlenW}), Live: rapid.Bool().Draw(t, "live")}
	if c.Live {
		c.Retry = rapid.IntRange(0, 3).Draw(t, "retry") == 0
		n := rapid.IntRange(0, 3).Draw(t, "nfaults")
		for i := 0; i < n; i++ {
			f := sim.Fault{Dir: rapid.SampledFrom([]string{"c2s", "c2s", "s2c"}).Draw(t, "dir"), Nth: rapid.IntRange(0, 5).Draw(t, "nth"),
				Kind: rapid.SampledFrom([]string{"drop", "drop", "dup", "delay"}).Draw(t, "kind")}
			if f.Kind == "dup" {
				f.Arg = 1
			}
			if f.Kind == "delay" {
				f.Arg = rapid.SampledFrom([]int{5, 60, 300}).Draw(t, "delay")
			}
			c.Faults = append(c.Faults, f)
		}
	}
	return c
}

func checkWireCase(c WireCase, u *vf.Unit) *vf.Verdict {
	var fl specgen.Flight
	v := checkWireCase1(c, u, &fl)
	if v != nil && v.Trace == nil {
		var tr []string
		for i, d := range fl.Datagrams {
			line := fmt.Sprintf("#%d t=%v len=%d:", i, d.T, d.Len)
			for _, p := range d.Packets {
				line += fmt.Sprintf(" [%s pn=%d pnlen=%d dcid=%x scid=%x tok=%d %s %s]", p.Kind, p.PN, p.PNLen, p.DCID, p.SCID, len(p.Token), strings.Join(p.Names, ","), p.Err)
			}
			tr = append(tr, line)
			if i > 60 {
				break
			}
		}
		v.Trace = tr
	}
	return v
}

func checkWireCase1(c WireCase, u *vf.Unit, out *specgen.Flight) *vf.Verdict {
	u.Journal(c)
	spec, err := c.Spec.Build()
	if err != nil {
		return vf.Bad("C09/harness/spec-build", "%v", err)
	}
	var f specgen.Flight
	if c.Live {
		f = specgen.CaptureLive(wireT, spec, nil, c.Faults, c.Retry)
	} else {
		f = specgen.CaptureBlackhole(wireT, spec, nil, 2500*time.Millisecond, false)
	}
	*out = f
	if len(f.Datagrams) == 0 {
		if f.DialErr != nil && !strings.Contains(f.DialErr.Error(), "deadline") {
			u.Class("rejected-before-send")
			return nil
		}
		return vf.Bad("C09/wire/nothing-sent", "nothing on the wire and no configuration error (dial error %v)", f.DialErr)
	}
	// every Initial-level packet: allowed frames only
	ninit, retrans := 0, false
	for i, d := range f.Datagrams {
		for _, p := range d.Packets {
			if p.Kind == "undecryptable" || p.Kind == "garbage" {
				return vf.Bad("C09/wire/not-well-formed", "datagram %d (%d bytes): %s: %s", i, d.Len, p.Kind, p.Err)
			}
			if p.Kind != "initial" {
				continue
			}
			ninit++
			if p.Err != "" {
				return vf.Bad("C09/wire/not-well-formed", "Initial packet pn %d in datagram %d: %s", p.PN, i, p.Err)
			}
			for _, n := range p.Names {
				switch n {
				case "PADDING", "PING", "CRYPTO", "ACK", "CONNECTION_CLOSE":
				default:
					return vf.Bad("C09/wire/frame-not-initial-level", "Initial packet pn %d carries a %s frame", p.PN, n)
				}
			}
			if i >= f.FirstBurst && len(p.Names) > 0 && strings.Contains(strings.Join(p.Names, ","), "CRYPTO") {
				retrans = true
			}
		}
	}
	if f.Conflict {
		return vf.Bad("C09/wire/overlap-inconsistent", "two CRYPTO frames of the Initial flight carry different bytes for the same stream offset")
	}
	if !f.CHComplete {
		// a dial that failed with a configuration error after sending part of the flight is the "truncated ClientHello" case
		if !c.Live && f.FirstBurst >= 10 { // more datagrams than the initial congestion window: a black hole never sees the rest
			u.Class("flight-longer-than-initial-window")
			return nil
		}
		return vf.Bad("C09/wire/clienthello-incomplete", "the Initial CRYPTO frames (incl. retransmissions, %d Initial packets in %d datagrams) do not cover one complete, structurally valid ClientHello: contiguous prefix %d bytes; dial error %v", ninit, len(f.Datagrams), len(f.CHData), f.DialErr)
	}
	if c.Live && !f.Handshake {
		dead := time.Duration(0)
		_ = dead
		return vf.Bad("C09/wire/server-rejects", "the in-tree server did not complete the handshake (dial error %v) although the ClientHello on the wire is complete; faults %v", f.DialErr, c.Faults)
	}
	u.Class("base:" + c.Spec.Base)
	if c.Spec.Builder != nil {
		u.Class("builder:" + c.Spec.Builder.Kind)
	}
	if retrans {
		u.Class("retransmission-seen")
	}
	if f.FirstBurst >= 2 {
		u.Class("multi-datagram")
	}
	if f.FirstBurst >= 2 || retrans {
		u.NonTrivial(fmt.Sprintf("%+v", c.Spec), c.Live, fmt.Sprint(c.Faults))
		if u.WantSample() {
			u.Sample(c)
		}
	}
	return nil
}

func TestWireFlight(t *testing.T) {
	wireT = t
	chlenW = specgen.CHLen(t)
	vf.ReplayRepeat = 10
	vf.RunRapid(t, "wire-flight", genWireCase, checkWireCase)
}
