// C09: Initial CRYPTO framing always carries the complete ClientHello at true offsets.
//
// This package decides parts (a) and (c) of DESIGN.md "### C09":
//
//	(a) builders_test.go  - the public uQUIC frame builders and flight builders, called exactly
//	                        the way uPacketPacker calls them (Build / BuildForDatagram / BuildFlight),
//	                        many crypto/rand draws per generated configuration;
//	(c) streams_test.go   - the default CRYPTO splitter (cryptoStream, initialCryptoStream without
//	                        scrambling, PopAllCryptoData / DisableScrambling as uQUIC uses them) and the
//	                        anti-DPI ClientHello scrambler (initialCryptoStream(true)).
//
// The oracle is an independent, minimal frame reader written from RFC 9000 (sections 16, 12.4,
// 19.1, 19.2, 19.6) - it understands PADDING, PING and CRYPTO and nothing else, and imports
// nothing from internal/wire or clienthellod.
package c09

import (
	"errors"
	"fmt"
	"os"
	"sort"
	"testing"

	"github.com/refraction-networking/uquic/verif/vf"
)

func TestMain(m *testing.M) {
	// newInitialCryptoStream reads this variable; the scrambler units need it unset.
	os.Unsetenv("QUIC_GO_DISABLE_CLIENTHELLO_SCRAMBLING")
	vf.Main(m)
}

// ---------------------------------------------------------------------------------------
// deterministic content
// ---------------------------------------------------------------------------------------

type prng struct{ s uint64 }

func (p *prng) next() uint64 {
	// xorshift64*
	p.s ^= p.s >> 12
	p.s ^= p.s << 25
	p.s ^= p.s >> 27
	return p.s * 2685821657736338717
}

// fill produces the crypto data of a case from (length, seed, mode). Mode 0 is random
// content; the others are adversarial constants: bytes that are themselves frame types
// (0x00 PADDING, 0x01 PING, 0x06 CRYPTO) so that a mis-sized frame re-synchronises into
// something that still "parses", and a position stamp that makes any shift visible.
func fill(n int, seed uint64, mode int) []byte {
	b := make([]byte, n)
	p := prng{s: seed*2 + 1}
	switch mode {
	case 1:
		// all zero: looks like PADDING
	case 2:
		for i := range b {
			b[i] = 0x06
		}
	case 3:
		for i := range b {
			b[i] = 0x01
		}
	case 4:
		for i := range b {
			b[i] = byte(i*131 + i>>8*17 + 1)
		}
	default:
		for i := 0; i < n; i += 8 {
			v := p.next()
			for j := 0; j < 8 && i+j < n; j++ {
				b[i+j] = byte(v >> (8 * j))
			}
		}
	}
	return b
}

// ---------------------------------------------------------------------------------------
// independent frame reader (RFC 9000)
// ---------------------------------------------------------------------------------------

const maxVarint = 1<<62 - 1

// readVarint decodes a variable-length integer (RFC 9000 section 16).
func readVarint(b []byte) (v uint64, n int, err error) {
	if len(b) == 0 {
		return 0, 0, errors.New("varint: no bytes")
	}
	n = 1 << (b[0] >> 6)
	if len(b) < n {
		return 0, 0, fmt.Errorf("varint: need %d bytes, have %d", n, len(b))
	}
	v = uint64(b[0] & 0x3f)
	for i := 1; i < n; i++ {
		v = v<<8 | uint64(b[i])
	}
	return v, n, nil
}

func varintLen(v uint64) int {
	switch {
	case v < 1<<6:
		return 1
	case v < 1<<14:
		return 2
	case v < 1<<30:
		return 4
	default:
		return 8
	}
}

type rframe struct {
	typ  byte   // 0x00 (a run of PADDING), 0x01, 0x06
	n    int    // PADDING: number of bytes in the run
	off  uint64 // CRYPTO
	data []byte // CRYPTO (aliases the payload)
	owid int    // CRYPTO: encoded width of the offset
	lwid int    // CRYPTO: encoded width of the length
}

var errForeign = errors.New("frame type other than PADDING/PING/CRYPTO")

// readFrames parses a packet payload that may contain only PADDING, PING and CRYPTO.
func readFrames(b []byte) ([]rframe, error) {
	var out []rframe
	i := 0
	for i < len(b) {
		switch b[i] {
		case 0x00:
			j := i
			for j < len(b) && b[j] == 0 {
				j++
			}
			out = append(out, rframe{typ: 0, n: j - i})
			i = j
		case 0x01:
			out = append(out, rframe{typ: 1})
			i++
		case 0x06:
			p := i + 1
			off, n1, err := readVarint(b[p:])
			if err != nil {
				return out, fmt.Errorf("CRYPTO frame at byte %d: offset: %w", i, err)
			}
			p += n1
			l, n2, err := readVarint(b[p:])
			if err != nil {
				return out, fmt.Errorf("CRYPTO frame at byte %d: length: %w", i, err)
			}
			p += n2
			if l > uint64(len(b)-p) {
				return out, fmt.Errorf("CRYPTO frame at byte %d: length %d exceeds the %d bytes left", i, l, len(b)-p)
			}
			if off+l > maxVarint || off+l < off {
				return out, fmt.Errorf("CRYPTO frame at byte %d: offset %d + length %d exceeds 2^62-1", i, off, l)
			}
			out = append(out, rframe{typ: 6, off: off, data: b[p : p+int(l)], owid: n1, lwid: n2})
			i = p + int(l)
		default:
			return out, fmt.Errorf("byte %d is 0x%02x: %w", i, b[i], errForeign)
		}
	}
	return out, nil
}

// ---------------------------------------------------------------------------------------
// interval sets over stream positions
// ---------------------------------------------------------------------------------------

type span struct{ s, e int } // [s, e)

// normalise sorts, drops empty spans and merges touching/overlapping ones.
func normalise(in []span) []span {
	v := make([]span, 0, len(in))
	for _, x := range in {
		if x.e > x.s {
			v = append(v, x)
		}
	}
	sort.Slice(v, func(i, j int) bool { return v[i].s < v[j].s })
	out := v[:0]
	for _, x := range v {
		if n := len(out); n > 0 && x.s <= out[n-1].e {
			if x.e > out[n-1].e {
				out[n-1].e = x.e
			}
		} else {
			out = append(out, x)
		}
	}
	return out
}

func sameSpans(a, b []span) bool {
	if len(a) != len(b) {
		return false
	}
	for i := range a {
		if a[i] != b[i] {
			return false
		}
	}
	return true
}

// firstDiff names one position that is in exactly one of the two normalised sets.
func firstDiff(got, want []span) string {
	pos := func(v []span, p int) bool {
		for _, x := range v {
			if x.s <= p && p < x.e {
				return true
			}
		}
		return false
	}
	for _, x := range want {
		for _, p := range []int{x.s, x.e - 1} {
			if !pos(got, p) {
				return fmt.Sprintf("byte %d is never emitted", p)
			}
		}
	}
	for _, x := range got {
		for _, p := range []int{x.s, x.e - 1} {
			if !pos(want, p) {
				return fmt.Sprintf("byte %d is emitted but not expected", p)
			}
		}
	}
	// interior difference
	for _, x := range want {
		for p := x.s; p < x.e; p++ {
			if !pos(got, p) {
				return fmt.Sprintf("byte %d is never emitted", p)
			}
		}
	}
	return "sets differ"
}

func lenClass(n int) string {
	switch {
	case n == 0:
		return "L0"
	case n == 1:
		return "L1"
	case n < 8:
		return "L2-7"
	case n < 62:
		return "L8-61"
	case n <= 66:
		return "L62-66"
	case n < 250:
		return "L67-249"
	case n <= 350:
		return "L~300"
	case n < 1100:
		return "L351-1099"
	case n <= 1300:
		return "L~1200"
	case n < 1600:
		return "L1301-1599"
	case n <= 1800:
		return "L~1700"
	case n < 2200:
		return "L1801-2199"
	case n <= 2400:
		return "L~2300"
	case n < 4800:
		return "L2401-4799"
	case n <= 5200:
		return "L~5000"
	default:
		return "L5201+"
	}
}
