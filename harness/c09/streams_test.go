package c09

// Part (c): the default CRYPTO splitter and the anti-DPI ClientHello scrambler
// (crypto_stream.go, sni.go), driven the way packet_packer.go / u_packet_packer.go drive them:
//
//   - handleHandshakeEvents writes each EventWriteInitialData chunk with Write;
//   - maybeGetCryptoPacket pops "for hasCryptoData() { f := popCryptoFrame(budget); if f == nil
//     { break }; budget -= f.Length() }" - one such loop per packet, every packet starting with a
//     fresh budget;
//   - uQUIC calls DisableScrambling() right after construction (u_connection.go) and, with a
//     QUICFlightFrameBuilder, PopAllCryptoData() once while nothing has been popped and HasData()
//     is true (planInitialFlight).

import (
	"bytes"
	"fmt"
	"testing"

	"pgregory.net/rapid"

	quic "github.com/refraction-networking/uquic"
	"github.com/refraction-networking/uquic/internal/protocol"
	"github.com/refraction-networking/uquic/internal/wire"
	"github.com/refraction-networking/uquic/verif/vf"
)

// Ext is one ClientHello extension of a generated ClientHello.
type Ext struct {
	Kind   string `json:"k"`              // sni | ech | other
	Type   uint16 `json:"t,omitempty"`    // other: extension type (never 0 or 0xfe0d)
	Len    int    `json:"l,omitempty"`    // ech/other: body length; sni: host_name length (>= 1)
	Pre    []int  `json:"pre,omitempty"`  // sni: lengths of entries with a non-host_name type placed before the host_name
	Post   []int  `json:"post,omitempty"` // sni: lengths of entries after the host_name (any type)
	NoHost bool   `json:"nohost,omitempty"`
}

// CH describes a structurally valid ClientHello (RFC 8446 section 4.1.2, RFC 6066 section 3).
type CH struct {
	Sess int    `json:"sess"` // legacy_session_id length 0..32
	Ciph int    `json:"ciph"` // number of cipher suites >= 1
	Comp int    `json:"comp"` // number of compression methods >= 1
	Exts []Ext  `json:"exts"`
	Seed uint64 `json:"seed"`
}

const (
	extSNI = 0
	extECH = 0xfe0d
)

// encode serialises the ClientHello and reports where the host name and the ECH extension are.
func (c CH) encode() (out []byte, sniPos, sniLen, echPos int) {
	p := prng{s: c.Seed*2 + 1}
	rnd := func(n int) []byte {
		b := make([]byte, n)
		for i := range b {
			b[i] = byte(p.next() >> 32)
		}
		return b
	}
	sniPos, echPos = -1, -1
	body := []byte{0x03, 0x03}
	body = append(body, rnd(32)...)
	body = append(body, byte(c.Sess))
	body = append(body, rnd(c.Sess)...)
	body = append(body, byte(c.Ciph*2>>8), byte(c.Ciph*2))
	body = append(body, rnd(c.Ciph*2)...)
	body = append(body, byte(c.Comp))
	body = append(body, make([]byte, c.Comp)...)
	var exts []byte
	extsStart := 4 + len(body) + 2
	for _, e := range c.Exts {
		var typ uint16
		var data []byte
		switch e.Kind {
		case "sni":
			typ = extSNI
			var list []byte
			for _, l := range e.Pre {
				list = append(list, byte(1+p.next()%255), byte(l>>8), byte(l))
				list = append(list, rnd(l)...)
			}
			if !e.NoHost {
				list = append(list, 0, byte(e.Len>>8), byte(e.Len))
				sniPos = extsStart + len(exts) + 4 + 2 + len(list)
				sniLen = e.Len
				for i := 0; i < e.Len; i++ {
					list = append(list, 'a'+byte(p.next()%26))
				}
			}
			for _, l := range e.Post {
				list = append(list, byte(1+p.next()%255), byte(l>>8), byte(l)) // never a second host_name (RFC 6066)
				list = append(list, rnd(l)...)
			}
			data = append([]byte{byte(len(list) >> 8), byte(len(list))}, list...)
		case "ech":
			typ = extECH
			echPos = extsStart + len(exts)
			data = rnd(e.Len)
		default:
			typ = e.Type
			data = rnd(e.Len)
		}
		exts = append(exts, byte(typ>>8), byte(typ), byte(len(data)>>8), byte(len(data)))
		exts = append(exts, data...)
	}
	body = append(body, byte(len(exts)>>8), byte(len(exts)))
	body = append(body, exts...)
	out = append([]byte{1, byte(len(body) >> 16), byte(len(body) >> 8), byte(len(body))}, body...)
	return out, sniPos, sniLen, echPos
}

// SCase is one crypto stream case.
type SCase struct {
	Mode     string `json:"mode"` // scramble | uquic | uquic-flight | server | plain
	CH       *CH    `json:"ch,omitempty"`
	RawLen   int    `json:"rawlen,omitempty"`
	RawSeed  uint64 `json:"rawseed,omitempty"`
	RawFirst int    `json:"rawfirst,omitempty"` // raw bytes: value of byte 0 (-1 = leave random)
	Flips    []int  `json:"flips,omitempty"`    // ClientHello + these byte positions XORed with 0x55 (structure damaged; lengths kept) => treated as raw
	Trunc    int    `json:"trunc,omitempty"`    // ClientHello cut short by this many bytes => treated as raw
	Cuts     []int  `json:"cuts,omitempty"`     // write boundaries (0..2 => 1..3 pieces)
	PopBetw  bool   `json:"pop_between,omitempty"`
	PopAll   bool   `json:"pop_all,omitempty"` // scramble mode: also try PopAllCryptoData before the first pop
	Budgets  []int  `json:"budgets,omitempty"` // per-packet frame budgets, then a default cycle
	Extra    int    `json:"extra,omitempty"`   // bytes written after the stream drained (second ClientHello after a HelloRetryRequest)
	ExtraCut int    `json:"extracut,omitempty"`
}

func genCH(t *rapid.T) *CH {
	c := &CH{
		Sess: rapid.SampledFrom([]int{0, 0, 32, 32, 1, 16}).Draw(t, "sess"),
		Ciph: rapid.SampledFrom([]int{1, 3, 3, 16, 17, 40}).Draw(t, "ciph"),
		Comp: rapid.SampledFrom([]int{1, 1, 1, 2, 255}).Draw(t, "comp"),
		Seed: rapid.Uint64Range(1, 1<<40).Draw(t, "chseed"),
	}
	var exts []Ext
	if rapid.IntRange(0, 9).Draw(t, "has-sni") < 8 {
		e := Ext{Kind: "sni"}
		switch rapid.IntRange(0, 9).Draw(t, "hostcls") {
		case 0:
			e.Len = 1
		case 1:
			e.Len = rapid.IntRange(2, 3).Draw(t, "host")
		case 2, 3:
			e.Len = rapid.IntRange(4, 9).Draw(t, "host")
		case 4:
			e.Len = rapid.SampledFrom([]int{253, 255, 256, 1000}).Draw(t, "host")
		default:
			e.Len = rapid.IntRange(10, 64).Draw(t, "host")
		}
		if rapid.IntRange(0, 11).Draw(t, "odd-names") == 0 {
			e.Pre = rapid.SliceOfN(rapid.IntRange(0, 12), 0, 2).Draw(t, "pre")
			e.Post = rapid.SliceOfN(rapid.IntRange(0, 12), 0, 2).Draw(t, "post")
			e.NoHost = len(e.Pre) > 0 && rapid.IntRange(0, 2).Draw(t, "nohost") == 0
		}
		exts = append(exts, e)
	}
	if rapid.IntRange(0, 9).Draw(t, "has-ech") < 6 {
		e := Ext{Kind: "ech"}
		switch rapid.IntRange(0, 5).Draw(t, "echcls") {
		case 0:
			e.Len = 0
		case 1, 2:
			e.Len = rapid.IntRange(1, 16).Draw(t, "echlen")
		default:
			e.Len = rapid.IntRange(17, 320).Draw(t, "echlen")
		}
		exts = append(exts, e)
	}
	used := map[uint16]bool{extSNI: true, extECH: true}
	nOther := rapid.SampledFrom([]int{0, 0, 1, 2, 3, 5, 8, 14}).Draw(t, "nother")
	for i := 0; i < nOther; i++ {
		typ := rapid.SampledFrom([]uint16{5, 10, 11, 13, 16, 18, 21, 23, 27, 35, 43, 45, 51, 57, 0x0a0a, 0x1a1a, 0x4469, 0xff01, 0xfe0c, 0xfe0e, 1, 0x00ff, 0xffff}).Draw(t, "exttype")
		if used[typ] {
			continue
		}
		used[typ] = true
		l := rapid.SampledFrom([]int{0, 0, 1, 2, 3, 5, 8, 14, 32, 36, 100, 300, 700, 1184, 1216, 1500, 2500}).Draw(t, "extlen")
		if rapid.Bool().Draw(t, "jitter") {
			l += rapid.IntRange(0, 9).Draw(t, "extjit")
		}
		exts = append(exts, Ext{Kind: "other", Type: typ, Len: l})
	}
	// steer the total length into the classes of interest with one more extension (a key share /
	// padding sized body), so that one, two and several datagrams are all well populated
	c.Exts = exts
	if target := rapid.SampledFrom([]int{0, 0, 0, 300, 1200, 1200, 1700, 2300, 2300, 5000}).Draw(t, "target"); target > 0 {
		target += rapid.IntRange(-60, 60).Draw(t, "target-jitter")
		b, _, _, _ := c.encode()
		for _, typ := range []uint16{21, 51, 0xfe0e, 0x4444} {
			if !used[typ] && len(b)+4 < target {
				exts = append(exts, Ext{Kind: "other", Type: typ, Len: target - len(b) - 4})
				break
			}
		}
	}
	if len(exts) > 1 {
		exts = rapid.Permutation(exts).Draw(t, "extorder")
	}
	c.Exts = exts
	return c
}

func genBudget(t *rapid.T) int {
	switch rapid.IntRange(0, 9).Draw(t, "budgetcls") {
	case 0:
		return rapid.IntRange(0, 8).Draw(t, "budget")
	case 1:
		return rapid.IntRange(9, 70).Draw(t, "budget")
	case 2:
		return rapid.IntRange(71, 400).Draw(t, "budget")
	case 3:
		return rapid.SampledFrom([]int{5000, 16383, 16384, 70000}).Draw(t, "budget")
	default:
		return rapid.IntRange(1100, 1452).Draw(t, "budget")
	}
}

func genSCase(t *rapid.T) SCase {
	c := SCase{RawFirst: -1}
	c.Mode = rapid.SampledFrom([]string{"scramble", "scramble", "scramble", "scramble", "scramble", "scramble", "uquic", "uquic-flight", "server", "plain"}).Draw(t, "mode")
	total := 0
	switch rapid.IntRange(0, 9).Draw(t, "content") {
	case 0: // arbitrary bytes
		c.RawLen = rapid.SampledFrom([]int{0, 1, 3, 4, 5, 40, 300, 1200, 3000}).Draw(t, "rawlen")
		c.RawSeed = rapid.Uint64Range(1, 1<<40).Draw(t, "rawseed")
		c.RawFirst = rapid.SampledFrom([]int{-1, 1, 1, 2, 0}).Draw(t, "rawfirst")
		total = c.RawLen
	case 1: // damaged ClientHello
		c.CH = genCH(t)
		b, _, _, _ := c.CH.encode()
		if rapid.Bool().Draw(t, "truncate") {
			c.Trunc = rapid.IntRange(1, min(len(b), 40)).Draw(t, "trunc")
		} else {
			n := rapid.IntRange(1, 3).Draw(t, "nflips")
			for i := 0; i < n; i++ {
				c.Flips = append(c.Flips, rapid.IntRange(4, len(b)-1).Draw(t, "flip"))
			}
		}
		total = len(b) - c.Trunc
	default:
		c.CH = genCH(t)
		b, _, _, _ := c.CH.encode()
		total = len(b)
	}
	np := rapid.SampledFrom([]int{1, 1, 1, 2, 2, 3}).Draw(t, "npieces")
	for i := 1; i < np && total > 0; i++ {
		var cut int
		if rapid.IntRange(0, 2).Draw(t, "cut-early") == 0 {
			cut = rapid.IntRange(0, min(total, 6)).Draw(t, "cut")
		} else {
			cut = rapid.IntRange(0, total).Draw(t, "cut")
		}
		c.Cuts = append(c.Cuts, cut)
	}
	c.PopBetw = rapid.IntRange(0, 2).Draw(t, "pop-between") == 0
	c.PopAll = rapid.IntRange(0, 3).Draw(t, "pop-all") == 0
	nb := rapid.IntRange(0, 10).Draw(t, "nbudgets")
	for i := 0; i < nb; i++ {
		c.Budgets = append(c.Budgets, genBudget(t))
	}
	if rapid.IntRange(0, 2).Draw(t, "extra") == 0 {
		c.Extra = rapid.SampledFrom([]int{1, 5, 300, 1300, 2500}).Draw(t, "extralen")
		c.ExtraCut = rapid.IntRange(0, c.Extra).Draw(t, "extracut")
	}
	return c
}

// stream is the part of cryptoStream / initialCryptoStream the packers use.
type stream interface {
	Write([]byte) (int, error)
	HasData() bool
	PopCryptoFrame(protocol.ByteCount) *wire.CryptoFrame
}

type keptFrame struct {
	off  int
	data []byte // the slice the stream returned (may alias its buffer)
	copy []byte
}

type runner struct {
	c          SCase
	area       string
	s          stream
	ini        *quic.VerifInitialCryptoStream
	written    []byte
	got        []span
	kept       []keptFrame
	popped     bool
	popAllDone bool
	deferred   bool // a frame started below the highest offset already sent
	packets    int
	frames     int
	bi         int
	strict     bool // a valid ClientHello (or a mode without scrambling): every rule applies
}

var defaultBudgets = []int{1162, 1200, 1252, 1350, 1452}

func (r *runner) nextBudget() int {
	if r.bi < len(r.c.Budgets) {
		r.bi++
		return r.c.Budgets[r.bi-1]
	}
	r.bi++
	return defaultBudgets[r.bi%len(defaultBudgets)]
}

func (r *runner) checkFrame(f *wire.CryptoFrame) *vf.Verdict {
	off, n := int(f.Offset), len(f.Data)
	if f.Offset < 0 || off+n > len(r.written) {
		return vf.Bad("C09/"+r.area+"/out-of-stream", "popped CRYPTO frame [%d,%d) lies outside the %d bytes written", off, off+n, len(r.written))
	}
	if n == 0 {
		r.frames++ // an empty CRYPTO frame carries nothing and violates nothing; the drain loop bounds the number of pops
		return nil
	}
	if !bytes.Equal(f.Data, r.written[off:off+n]) {
		k := 0
		for f.Data[k] == r.written[off+k] {
			k++
		}
		return vf.Bad("C09/"+r.area+"/wrong-bytes", "popped CRYPTO frame offset %d length %d does not carry the written bytes (first difference at stream offset %d)", off, n, off+k)
	}
	hi := 0
	for _, g := range r.got {
		hi = max(hi, g.e)
	}
	if off < hi {
		r.deferred = true
	}
	r.got = append(r.got, span{off, off + n})
	r.kept = append(r.kept, keptFrame{off: off, data: f.Data, copy: append([]byte(nil), f.Data...)})
	r.frames++
	r.popped = true
	return nil
}

// packet runs one maybeGetCryptoPacket pop loop. It reports whether any frame was obtained.
func (r *runner) packet(budget int) (progress bool, v *vf.Verdict) {
	r.packets++
	for r.s.HasData() {
		if budget <= 0 {
			break
		}
		f := r.s.PopCryptoFrame(protocol.ByteCount(budget))
		if f == nil {
			break
		}
		if v := r.checkFrame(f); v != nil {
			return true, v
		}
		progress = true
		budget -= 1 + varintLen(uint64(f.Offset)) + varintLen(uint64(len(f.Data))) + len(f.Data)
	}
	return progress, nil
}

func (r *runner) covered() bool {
	r.got = normalise(r.got)
	return sameSpans(r.got, whole(len(r.written)))
}

// drain pops packets until HasData is false.
func (r *runner) drain() *vf.Verdict {
	for i := 0; ; i++ {
		if !r.s.HasData() {
			return nil
		}
		b := r.nextBudget()
		progress, v := r.packet(b)
		if v != nil {
			return v
		}
		if !progress && b >= 16 && r.s.HasData() {
			if r.covered() {
				return vf.Bad("C09/"+r.area+"/never-drains", "every written byte has been popped, but HasData stays true and PopCryptoFrame(%d) returns nil", b)
			}
			return vf.Bad("C09/"+r.area+"/stall", "HasData is true, PopCryptoFrame(%d) returns nil, and %v of %d bytes have been popped so far: the rest is never sent", b, r.got, len(r.written))
		}
		if i > 40000 {
			return vf.Bad("C09/"+r.area+"/stall", "stream did not drain after %d packets", i)
		}
	}
}

// sigECHWithoutSNI is the signature of the one behaviour of the unchanged tree that this unit
// observes and does not count as a violation by default (see NOTES.md, "suspected defects"): a
// ClientHello that carries an ECH extension but no SNI host_name is never sent by the scrambler
// (HasData stays false for ever). The in-tree TLS stack always puts the ECH public name into the
// outer SNI, so no caller can produce such a ClientHello today. If known_findings.json lists the
// signature as open, the behaviour is reported under it (KNOWN-FINDING); otherwise it is only
// counted in the class "scramble:ood-ech-without-sni:<signature observed>".
const sigECHWithoutSNI = "C09/scrambler/ech-without-sni"

// checkS decides one stream case. "It never panics" is part of the property, so a panic of the
// stream is a violation with its own signature.
func checkS(c SCase, u *vf.Unit) *vf.Verdict {
	area := "splitter"
	if c.Mode == "scramble" {
		area = "scrambler"
	}
	return vf.Guard("C09/"+area, func() *vf.Verdict { return checkS1(c, u) })
}

func checkS1(c SCase, u *vf.Unit) *vf.Verdict {
	if c.Mode == "scramble" && c.CH != nil && len(c.Flips) == 0 && c.Trunc == 0 {
		_, sniPos, _, echPos := c.CH.encode()
		if echPos >= 0 && sniPos < 0 {
			v := vf.Guard("C09/scrambler", func() *vf.Verdict { return checkSInner(c, vf.Scratch()) })
			if v == nil {
				u.Class("scramble:ood-ech-without-sni:ok")
				return nil
			}
			u.Class("scramble:ood-ech-without-sni:" + v.Sig)
			if vf.IsKnown(sigECHWithoutSNI) {
				return vf.Bad(sigECHWithoutSNI, "ClientHello with an ECH extension and no SNI host_name: %s [%s]", v.Detail, v.Sig)
			}
			return nil
		}
	}
	return checkSInner(c, u)
}

func checkSInner(c SCase, u *vf.Unit) *vf.Verdict {
	r := &runner{c: c, area: "splitter"}
	switch c.Mode {
	case "scramble":
		r.ini = quic.VerifNewInitialCryptoStream(true)
		r.s = r.ini
		r.area = "scrambler"
	case "uquic", "uquic-flight":
		r.ini = quic.VerifNewInitialCryptoStream(true)
		r.ini.DisableScrambling()
		r.s = r.ini
	case "server":
		r.ini = quic.VerifNewInitialCryptoStream(false)
		r.s = r.ini
	case "plain":
		r.s = quic.VerifNewCryptoStream()
	default:
		return nil
	}
	// content
	var content []byte
	sniPos, sniLen, echPos := -1, 0, -1
	validCH := false
	if c.CH != nil {
		if c.CH.Sess < 0 || c.CH.Sess > 255 || c.CH.Ciph < 0 || c.CH.Ciph > 30000 || c.CH.Comp < 0 || c.CH.Comp > 255 || len(c.CH.Exts) > 64 {
			return nil
		}
		content, sniPos, sniLen, echPos = c.CH.encode()
		validCH = true
		for _, p := range c.Flips {
			if p >= 0 && p < len(content) {
				content[p] ^= 0x55
				validCH = false
			}
		}
		if c.Trunc > 0 && c.Trunc <= len(content) {
			content = content[:len(content)-c.Trunc]
			validCH = false
		}
	} else {
		if c.RawLen < 0 || c.RawLen > 1<<20 {
			return nil
		}
		content = fill(c.RawLen, c.RawSeed, 0)
		if c.RawFirst >= 0 && len(content) > 0 {
			content[0] = byte(c.RawFirst)
		}
	}
	r.strict = validCH || c.Mode != "scramble"
	label := func(l string) { u.Class(c.Mode + ":" + l) }

	// PopAllCryptoData, as planInitialFlight calls it: nothing popped yet, HasData true. With uQUIC
	// (scrambling disabled) that can already be the case after a partial write.
	popAll := func() *vf.Verdict {
		if r.ini == nil || r.popped || r.popAllDone || !r.s.HasData() || !(c.Mode == "uquic-flight" || (c.Mode == "scramble" && c.PopAll)) {
			return nil
		}
		r.popAllDone = true
		all := r.ini.PopAllCryptoData()
		switch {
		case len(all) == 0 && c.Mode == "uquic-flight":
			return vf.Bad("C09/splitter/popall-empty", "scrambling disabled, %d bytes queued, HasData true, but PopAllCryptoData returned nothing", len(r.written))
		case len(all) == 0:
			label("popall-refused") // documented: nil while scrambling is on; nothing may be lost (checked by the drain below)
		default:
			if !bytes.Equal(all, r.written) {
				return vf.Bad("C09/"+r.area+"/popall-wrong-bytes", "PopAllCryptoData returned %d bytes that are not the %d bytes written", len(all), len(r.written))
			}
			r.got = append(r.got, span{0, len(all)})
			r.kept = append(r.kept, keptFrame{off: 0, data: all, copy: append([]byte(nil), all...)})
			r.popped = true
			label("popall")
			if len(r.written) < len(content) {
				label("popall-partial")
			}
			if r.s.HasData() {
				return vf.Bad("C09/"+r.area+"/popall-hasdata", "PopAllCryptoData returned the whole stream but HasData is still true")
			}
		}
		return nil
	}

	// writes
	cuts := append([]int(nil), c.Cuts...)
	for i := range cuts {
		cuts[i] = min(max(cuts[i], 0), len(content))
	}
	for i := 1; i < len(cuts); i++ {
		if cuts[i] < cuts[i-1] {
			cuts[i] = cuts[i-1]
		}
	}
	cuts = append(cuts, len(content))
	prev := 0
	for i, cut := range cuts {
		piece := append([]byte(nil), content[prev:cut]...)
		prev = cut
		r.written = append(r.written, piece...)
		n, err := r.s.Write(piece)
		if err != nil {
			if r.strict {
				return vf.Bad("C09/"+r.area+"/valid-input-rejected", "Write of piece %d (%d bytes, %d of %d written) failed: %v", i, len(piece), len(r.written), len(content), err)
			}
			// not a ClientHello: rejected with an error; the connection closes (connection.go handleHandshakeEvents)
			label("raw-rejected")
			return nil
		}
		if n != len(piece) {
			return vf.Bad("C09/"+r.area+"/short-write", "Write(%d bytes) returned %d", len(piece), n)
		}
		if c.PopBetw && i+1 < len(cuts) {
			if v := popAll(); v != nil {
				return v
			}
			if _, v := r.packet(r.nextBudget()); v != nil {
				return v
			}
		}
	}

	if len(r.written) > 0 && !r.covered() && !r.s.HasData() {
		if !r.strict {
			label("raw-waits") // an incomplete / malformed ClientHello keeps the scrambler waiting for the rest
			return nil
		}
		return vf.Bad("C09/"+r.area+"/hasdata-false-early", "all %d bytes are written, %v popped so far, but HasData is false: the rest is never sent", len(r.written), r.got)
	}

	if v := popAll(); v != nil {
		return v
	}

	finish := func(phase string) *vf.Verdict {
		v := r.drain()
		if v != nil {
			if !r.strict && (v.Sig == "C09/scrambler/stall" || v.Sig == "C09/scrambler/never-drains") {
				label("raw-stall")
				return nil
			}
			return v
		}
		if !r.covered() {
			if !r.strict && phase == "first" {
				label("raw-incomplete")
				return nil
			}
			return vf.Bad("C09/"+r.area+"/incomplete", "%s drain: HasData is false but the popped frames cover %v of the %d bytes written: %s", phase, r.got, len(r.written), firstDiff(r.got, whole(len(r.written))))
		}
		return nil
	}
	if v := finish("first"); v != nil {
		return v
	}
	if !r.covered() {
		return nil // raw input in scramble mode, recorded above
	}

	// second flight on the same stream (ClientHello after a HelloRetryRequest)
	// (in scramble mode only once the first flight has really gone out: before that, more bytes are
	// simply more of a not yet complete ClientHello)
	if c.Extra > 0 && c.Extra < 1<<20 && (c.Mode != "scramble" || r.popped) {
		extra := fill(c.Extra, c.RawSeed+77, 0)
		if len(extra) > 0 {
			extra[0] = 1
		}
		ec := min(max(c.ExtraCut, 0), len(extra))
		for _, piece := range [][]byte{extra[:ec], extra[ec:]} {
			if len(piece) == 0 {
				continue
			}
			r.written = append(r.written, piece...)
			if _, err := r.s.Write(append([]byte(nil), piece...)); err != nil {
				if !r.strict {
					label("raw-rejected")
					return nil
				}
				return vf.Bad("C09/"+r.area+"/valid-input-rejected", "Write of %d more bytes after the stream drained failed: %v", len(piece), err)
			}
			if !r.s.HasData() {
				return vf.Bad("C09/"+r.area+"/hasdata-false-early", "%d bytes written after the first flight drained, but HasData is false", len(piece))
			}
			if c.PopBetw {
				if _, v := r.packet(r.nextBudget()); v != nil {
					return v
				}
			}
		}
		r.strict = true // the scrambler is finished by now; the default splitter rules apply
		if v := finish("second"); v != nil {
			return v
		}
		label("second-flight")
	}

	// frames handed out earlier must still hold the same bytes (they alias the stream's buffer)
	for _, k := range r.kept {
		if !bytes.Equal(k.data, k.copy) {
			return vf.Bad("C09/"+r.area+"/frame-mutated", "the data of the frame popped at offset %d changed after later stream operations", k.off)
		}
	}

	// bookkeeping
	u.Class("mode:" + c.Mode)
	u.Class("cov|" + c.Mode + "|" + lenClass(len(content)) + "|" + fmt.Sprintf("w%d", len(cuts)))
	if validCH {
		label("valid-ch")
		switch {
		case sniPos >= 0 && echPos >= 0:
			label("sni+ech")
			if echPos < sniPos {
				label("ech-before-sni")
			}
			// labels only: where crypto_stream.go places its cuts
			s0, s1 := sniPos+sniLen/2, sniPos+sniLen
			e0, e1 := echPos+1, min(echPos+17, len(content))
			if s0 < e1 && e0 < s1 {
				label("cuts-overlap")
			}
			if s1 == e0 || e1 == s0 {
				label("cuts-adjacent")
			}
			if s1 == len(content) || e1 == len(content) {
				label("cut-at-end")
			}
		case sniPos >= 0:
			label("sni-only")
			if sniPos+sniLen == len(content) {
				label("cut-at-end")
			}
		case echPos >= 0:
			label("ech-only")
			if min(echPos+17, len(content)) == len(content) {
				label("cut-at-end")
			}
		default:
			label("no-sni-no-ech")
		}
		if sniLen == 1 {
			label("host-len-1")
		}
	} else {
		label("raw-accepted")
	}
	if len(cuts) > 1 {
		label("multi-write")
	}
	if r.deferred {
		label("deferred-frames")
	}
	if r.packets >= 2 {
		label("multi-packet")
	}
	if r.frames >= 2 && (r.deferred || r.packets >= 2) {
		u.NonTrivial(c.Mode, len(content), fmt.Sprint(r.got), fmt.Sprint(c.Budgets), fmt.Sprint(c.Cuts), sniPos, echPos)
		if u.WantSample() && len(content) < 500 {
			u.Sample(c)
		}
	}
	return nil
}

func TestStreams(t *testing.T) {
	vf.RunRapid(t, "streams", genSCase, checkS)
	vf.U("streams").Extra("coverage_table", "class labels 'cov|<mode>|<length class>|w<number of writes>'; '<mode>:<label>' counts ClientHello shapes (sni-only, ech-only, sni+ech, cuts-overlap, cut-at-end ...) and stream behaviours (deferred-frames, multi-packet, popall, second-flight)")
}

// FuzzStreams drives the stream generator and oracle from coverage-guided bytes (the scrambler's
// ClientHello parser included).
func FuzzStreams(f *testing.F) {
	u := vf.U("streams-fuzz")
	for _, s := range [][]byte{{}, {0}, {1, 2, 3, 4, 5, 6, 7, 8}, bytes.Repeat([]byte{0xff}, 64), bytes.Repeat([]byte{0x3f, 0x40, 0x7f, 0x80}, 32), bytes.Repeat([]byte{0, 0xff}, 128)} {
		f.Add(s)
	}
	f.Fuzz(rapid.MakeFuzz(func(rt *rapid.T) {
		c := genSCase(rt)
		u.Case()
		if v := vf.Guard("C09/streams-fuzz", func() *vf.Verdict { return checkS(c, u) }); v != nil {
			u.Fail(rt, v, c)
		}
	}))
}
