package c09

// Part (a): the public frame builders of u_quic_frames.go and u_flight_frames.go.
//
// A case is one builder configuration plus the crypto data and the way the packer would
// call it (u_packet_packer.go):
//
//   - MarshalInitialPacketPayload hands a QUICFrameBuilderEx the contiguous slice popped for
//     datagram i together with the absolute offset of its first byte:
//     BuildForDatagram(i, slice_i, base_i); a builder that is not Ex gets Build(slice) (base 0).
//   - with a nil builder / empty QUICFrames it builds a QUICFrames whose offsets are the
//     ABSOLUTE offsets of the popped CRYPTO frames (explicit lengths, CRYPTO only) and calls
//     Build(slice): kind "passthrough".
//   - planInitialFlight hands a QUICFlightFrameBuilder the complete stream:
//     BuildFlight(stream, budgets); Build(stream) is the documented fallback.
//
// Every configuration is built Reps times because the builders draw from crypto/rand.

import (
	"bytes"
	"fmt"
	"math"
	"sort"
	"strings"
	"testing"

	"pgregory.net/rapid"

	quic "github.com/refraction-networking/uquic"
	"github.com/refraction-networking/uquic/verif/vf"
)

// Item is one entry of a QUICFrames layout.
type Item struct {
	T   string `json:"t"`           // "c" CRYPTO, "p" PING, "z" PADDING
	Off int    `json:"o,omitempty"` // CRYPTO offset
	Len int    `json:"l,omitempty"` // CRYPTO length / PADDING length
	Ptr bool   `json:"p,omitempty"` // use the pointer form (&QUICFrameCrypto{...}) as u_quic_frames_test.go does
}

// RF mirrors quic.QUICRandomFrames.
type RF struct {
	MinPING    uint8  `json:"minping,omitempty"`
	MaxPING    uint8  `json:"maxping,omitempty"`
	MinCRYPTO  uint8  `json:"mincrypto,omitempty"`
	MaxCRYPTO  uint8  `json:"maxcrypto,omitempty"`
	MinPADDING uint8  `json:"minpad,omitempty"`
	MaxPADDING uint8  `json:"maxpad,omitempty"`
	Length     uint16 `json:"length,omitempty"`
}

func (r RF) q() quic.QUICRandomFrames {
	return quic.QUICRandomFrames{MinPING: r.MinPING, MaxPING: r.MaxPING, MinCRYPTO: r.MinCRYPTO, MaxCRYPTO: r.MaxCRYPTO,
		MinPADDING: r.MinPADDING, MaxPADDING: r.MaxPADDING, Length: r.Length}
}

// validRandomFrames is "in range" for QUICRandomFrames as Build/BuildForDatagram use it. The doc
// comments ask for Max >= Min+1; TestQUICRandomFramesMore*FramesThanBytes and the parrots'
// comments establish Min == Max as "exactly that many", so Min <= Max is the in-range rule.
func (r RF) validRandomFrames() bool {
	if r.MinPING > r.MaxPING || r.MinCRYPTO < 1 || r.MinCRYPTO > r.MaxCRYPTO {
		return false
	}
	if r.Length != 0 && (r.MinPADDING < 1 || r.MinPADDING > r.MaxPADDING) {
		return false
	}
	return true
}

// validFlightFrames is "in range" for QUICRandomFlightDatagram.Frames: "The zero value emits
// exactly one CRYPTO frame per range", so MinCRYPTO may be 0 there.
func (r RF) validFlightFrames() bool {
	if r.MinPING > r.MaxPING || r.MinCRYPTO > r.MaxCRYPTO {
		return false
	}
	if r.Length != 0 && (r.MinPADDING < 1 || r.MinPADDING > r.MaxPADDING) {
		return false
	}
	return true
}

// Range mirrors quic.QUICCryptoRange.
type Range struct {
	Off int `json:"o,omitempty"`
	Len int `json:"l,omitempty"`
}

// resolve is the reference reading of the QUICCryptoRange doc comment: a negative Offset counts
// back from the end; Length 0 runs to the end, a negative Length stops that many bytes before
// the end; anything that leaves [0, n] or ends before it starts is out of bounds.
func (r Range) resolve(n int) (s, e int, ok bool) {
	so, eo := int64(r.Off), int64(0)
	if so < 0 {
		so += int64(n)
	}
	if so < 0 || so > int64(n) {
		return 0, 0, false
	}
	if r.Len > 0 {
		if int64(r.Len) > int64(n) { // also avoids overflow
			return 0, 0, false
		}
		eo = so + int64(r.Len)
	} else {
		if int64(r.Len) < -int64(n) {
			return 0, 0, false
		}
		eo = int64(n) + int64(r.Len)
	}
	if eo > int64(n) || eo < so {
		return 0, 0, false
	}
	return int(so), int(eo), true
}

// RFD mirrors quic.QUICRandomFlightDatagram.
type RFD struct {
	Ranges []Range `json:"ranges"`
	Frames RF      `json:"frames"`
}

// BCase is one builder case.
type BCase struct {
	Kind    string   `json:"kind"` // frames | passthrough | random | multi | flight | randflight
	OOD     string   `json:"ood,omitempty"`
	L       int      `json:"len"`
	Seed    uint64   `json:"seed"`
	Fill    int      `json:"fill,omitempty"`
	Base    uint64   `json:"base,omitempty"`   // absolute stream offset of data[0] (frames/random/multi); lowest offset (passthrough)
	Slices  []int    `json:"slices,omitempty"` // lengths of the per-datagram slices, in stream order (sum = L)
	Shape   string   `json:"shape,omitempty"`  // generator label (class bookkeeping only): "tail" | "rtx", see genPackerShape
	UseB    bool     `json:"use_build,omitempty"`
	Nil     bool     `json:"nil_layout,omitempty"` // frames: use an empty QUICFrames
	Layout  []Item   `json:"layout,omitempty"`
	RFs     []RF     `json:"rfs,omitempty"`
	Idx0    int      `json:"idx0,omitempty"`
	Flight  [][]Item `json:"flight,omitempty"`
	RFlight []RFD    `json:"rflight,omitempty"`
	Budgets []int    `json:"budgets,omitempty"`
	Reps    int      `json:"reps"`
}

// ---------------------------------------------------------------------------------------
// generators
// ---------------------------------------------------------------------------------------

func genLen(t *rapid.T) int {
	switch rapid.IntRange(0, 19).Draw(t, "lencls") {
	case 0:
		return 0
	case 1:
		return 1
	case 2, 3:
		return rapid.IntRange(2, 7).Draw(t, "len")
	case 4:
		return rapid.IntRange(8, 61).Draw(t, "len")
	case 5, 6:
		return rapid.IntRange(62, 66).Draw(t, "len")
	case 7, 8:
		return rapid.IntRange(250, 350).Draw(t, "len")
	case 9, 10:
		return rapid.IntRange(1100, 1300).Draw(t, "len")
	case 11, 12:
		return rapid.IntRange(1600, 1800).Draw(t, "len")
	case 13, 14:
		return rapid.IntRange(2200, 2400).Draw(t, "len")
	case 15, 16:
		return rapid.IntRange(4800, 5200).Draw(t, "len")
	case 17:
		return rapid.IntRange(16370, 16400).Draw(t, "len") // CRYPTO length field goes from 2 to 4 bytes
	default:
		return rapid.IntRange(0, 6000).Draw(t, "len")
	}
}

// genBase draws the absolute offset of the first byte: mostly 0, otherwise placed so that a
// varint width boundary falls inside or next to [base, base+L].
func genBase(t *rapid.T, l int) uint64 {
	switch rapid.IntRange(0, 9).Draw(t, "basecls") {
	case 0, 1, 2:
		return 0
	case 3:
		return uint64(rapid.IntRange(1, 6000).Draw(t, "base"))
	case 4:
		return uint64(max(0, 64-rapid.IntRange(0, l+1).Draw(t, "below64")))
	case 5, 6:
		return uint64(max(0, 16384-rapid.IntRange(0, l+1).Draw(t, "below16k")))
	case 7:
		return uint64(1<<30 - rapid.IntRange(0, l+1).Draw(t, "below1g"))
	case 8:
		return uint64(maxVarint - l - rapid.IntRange(0, 3).Draw(t, "belowmax"))
	default:
		return rapid.Uint64Range(0, 1<<31).Draw(t, "base")
	}
}

func genSlices(t *rapid.T, l int) []int {
	nd := rapid.SampledFrom([]int{1, 1, 1, 1, 2, 2, 3, 4}).Draw(t, "ndatagrams")
	cuts := make([]int, 0, nd+1)
	for i := 0; i < nd-1; i++ {
		cuts = append(cuts, rapid.IntRange(0, l).Draw(t, "cut"))
	}
	sort.Ints(cuts)
	cuts = append(cuts, l)
	out := make([]int, 0, nd)
	prev := 0
	for _, c := range cuts {
		out = append(out, c-prev)
		prev = c
	}
	return out
}

// genPackerShape draws how the packer meets a PINNED per-datagram layout with a slice the layout was not
// written for (u_packet_packer.go MarshalInitialPacketPayload: BuildForDatagram(idx, slice, lowest offset)):
//
//	"tail": a first flight of k full datagrams plus a short tail - slices of 1100..1250 bytes followed by one of
//	        0..200 bytes, stream bases 0 (a real first flight) or placed so that the tail starts around / beyond
//	        16384 (the CRYPTO offset varint grows from 2 to 4 bytes) or far out;
//	"rtx":  a retransmission / PTO probe of only a part of the ClientHello: ONE slice of 0..300 bytes at a
//	        non-zero stream offset (small, around 64 / 16384, beyond 16383).
//
// Returned: the slices, the base of slices[0], and the slice length a pinned layout is written for.
func genPackerShape(t *rapid.T) (shape string, slices []int, base uint64, written int) {
	full := func(label string) int {
		return rapid.OneOf(rapid.IntRange(1100, 1250), rapid.SampledFrom([]int{1162, 1172, 1200, 1232})).Draw(t, label)
	}
	short := func(label string) int {
		switch rapid.IntRange(0, 7).Draw(t, label+"-cls") {
		case 0:
			return 0
		case 1:
			return rapid.IntRange(1, 7).Draw(t, label)
		case 2:
			return rapid.IntRange(62, 66).Draw(t, label)
		default:
			return rapid.IntRange(1, 200).Draw(t, label)
		}
	}
	if rapid.IntRange(0, 4).Draw(t, "shape") < 3 {
		k := rapid.SampledFrom([]int{1, 1, 1, 2, 2, 3}).Draw(t, "kfull")
		sum := 0
		for i := 0; i < k; i++ {
			slices = append(slices, full("full"))
			sum += slices[i]
		}
		tail := short("tail")
		slices = append(slices, tail)
		switch rapid.IntRange(0, 7).Draw(t, "tailbase") {
		case 0, 1, 2, 3: // the first flight
			base = 0
		case 4: // the tail straddles or starts right at the 2-byte / 4-byte offset boundary
			base = uint64(max(0, 16384-sum-rapid.IntRange(0, tail+1).Draw(t, "below16k")))
		case 5:
			base = uint64(rapid.IntRange(16384, 40000).Draw(t, "base>16k"))
		case 6:
			base = uint64(1<<30 - sum - rapid.IntRange(0, tail+1).Draw(t, "below1g"))
		default:
			base = uint64(rapid.IntRange(1, 6000).Draw(t, "base"))
		}
		return "tail", slices, base, slices[0]
	}
	n := short("rtxlen")
	if rapid.IntRange(0, 3).Draw(t, "rtx-longer") == 0 {
		n = rapid.IntRange(201, 300).Draw(t, "rtxlen2")
	}
	switch rapid.IntRange(0, 5).Draw(t, "rtxbase") {
	case 0, 1:
		base = uint64(rapid.IntRange(1, 2500).Draw(t, "base"))
	case 2:
		base = uint64(max(1, 64-rapid.IntRange(0, n+1).Draw(t, "below64")))
	case 3:
		base = uint64(16384 - rapid.IntRange(0, n+1).Draw(t, "below16k"))
	case 4:
		base = uint64(rapid.IntRange(16384, 70000).Draw(t, "base>16k"))
	default:
		base = uint64(1<<30 - rapid.IntRange(0, n+1).Draw(t, "below1g"))
	}
	return "rtx", []int{n}, base, full("written-for")
}

// pinCounts turns a valid QUICRandomFrames shape into one with FIXED frame counts (Min == Max = "exactly that
// many", see validRandomFrames) about half of the time: the pinned form of the randomised builders.
func pinCounts(t *rapid.T, r RF) RF {
	if !r.validRandomFrames() || !rapid.Bool().Draw(t, "pin-counts") {
		return r
	}
	r.MaxCRYPTO, r.MaxPING = r.MinCRYPTO, r.MinPING
	if r.Length != 0 {
		r.MaxPADDING = r.MinPADDING
	}
	return r
}

func genPadLen(t *rapid.T) int {
	switch rapid.IntRange(0, 5).Draw(t, "padcls") {
	case 0:
		return 0
	case 1:
		return 1
	case 2:
		return rapid.IntRange(62, 66).Draw(t, "pad")
	case 3:
		return rapid.IntRange(1000, 1300).Draw(t, "pad")
	default:
		return rapid.IntRange(0, 90).Draw(t, "pad")
	}
}

// sortedCuts draws up to n distinct cut points in [lo, hi], ascending.
func sortedCuts(t *rapid.T, n, lo, hi int, label string) []int {
	if hi < lo || n <= 0 {
		return nil
	}
	seen := map[int]bool{}
	var out []int
	for i := 0; i < n; i++ {
		var c int
		if rapid.IntRange(0, 3).Draw(t, label+"-edge") == 0 {
			c = rapid.SampledFrom([]int{lo, hi, min(hi, max(lo, 63)), min(hi, max(lo, 64)), min(hi, max(lo, hi-1))}).Draw(t, label)
		} else {
			c = rapid.IntRange(lo, hi).Draw(t, label)
		}
		if !seen[c] {
			seen[c] = true
			out = append(out, c)
		}
	}
	sort.Ints(out)
	return out
}

func addNoise(t *rapid.T, items []Item) []Item {
	for i, n := 0, rapid.IntRange(0, 3).Draw(t, "npings"); i < n; i++ {
		items = append(items, Item{T: "p", Ptr: rapid.Bool().Draw(t, "ptr")})
	}
	for i, n := 0, rapid.IntRange(0, 3).Draw(t, "npads"); i < n; i++ {
		items = append(items, Item{T: "z", Len: genPadLen(t), Ptr: rapid.Bool().Draw(t, "ptr")})
	}
	if len(items) > 1 {
		items = rapid.Permutation(items).Draw(t, "order")
	}
	return items
}

// genTilingLayout draws a QUICFrames layout (offsets relative to the slice) that tiles every
// slice in slices: explicit pieces cover [0, K) with K <= the shortest slice, and the last
// CRYPTO frame is open (Length 0 = to the end) - or explicit when there is exactly one slice.
func genTilingLayout(t *rapid.T, slices []int) []Item {
	minS := slices[0]
	for _, s := range slices {
		minS = min(minS, s)
	}
	single := len(slices) == 1
	maxPieces := rapid.SampledFrom([]int{1, 2, 3, 4, 8, 16, 40}).Draw(t, "maxpieces")
	cuts := sortedCuts(t, maxPieces-1, 1, minS, "piececut") // explicit pieces are >= 1 byte (Length 0 means "to the end")
	var items []Item
	prev := 0
	for _, c := range cuts {
		items = append(items, Item{T: "c", Off: prev, Len: c - prev, Ptr: rapid.Bool().Draw(t, "ptr")})
		prev = c
	}
	last := Item{T: "c", Off: prev, Len: 0, Ptr: rapid.Bool().Draw(t, "ptr")}
	if single && rapid.Bool().Draw(t, "last-explicit") {
		last.Len = slices[0] - prev // may be 0 when the explicit pieces already reach the end: same meaning
	}
	items = append(items, last)
	return addNoise(t, items)
}

func genRF(t *rapid.T, hint int, flight bool, arbitrary bool) RF {
	u8 := func(lo, hi int, label string) uint8 { return uint8(rapid.IntRange(lo, min(hi, 255)).Draw(t, label)) }
	var r RF
	minC := 1
	if flight {
		minC = 0
	}
	hi := 8
	if arbitrary {
		hi = 11
	}
	switch rapid.IntRange(0, hi).Draw(t, "rfmode") {
	case 0, 1, 2, 3: // the shape the parrots use
		r.MinPING = u8(0, 4, "minping")
		r.MaxPING = r.MinPING + u8(0, 8, "dping")
		r.MinCRYPTO = u8(minC, 8, "mincrypto")
		r.MaxCRYPTO = r.MinCRYPTO + u8(0, 10, "dcrypto")
		if rapid.Bool().Draw(t, "pad") {
			r.MinPADDING = u8(1, 6, "minpad")
			r.MaxPADDING = r.MinPADDING + u8(0, 4, "dpad")
			r.Length = uint16(rapid.SampledFrom([]int{1, 64, 512, 1195, 1215, 1250, 3000, 65535}).Draw(t, "length"))
		}
	case 4, 5, 6: // more CRYPTO frames than bytes, or just about as many
		lo := max(minC, min(255, hint-3))
		r.MinCRYPTO = u8(lo, min(255, lo+8), "mincrypto")
		r.MaxCRYPTO = r.MinCRYPTO + u8(0, min(3, 255-int(r.MinCRYPTO)), "dcrypto")
		r.MinPING = u8(0, 2, "minping")
		r.MaxPING = r.MinPING + u8(0, 2, "dping")
		if rapid.Bool().Draw(t, "pad") {
			r.MinPADDING = u8(1, 255, "minpad")
			r.MaxPADDING = u8(int(r.MinPADDING), 255, "maxpad")
			r.Length = uint16(min(65535, hint+rapid.IntRange(0, 40).Draw(t, "over")))
		}
	case 7, 8: // Length lands within a few bytes of CRYPTO+PING: more PADDING frames than PADDING bytes
		r.MinCRYPTO = u8(max(1, minC), 3, "mincrypto")
		r.MaxCRYPTO = r.MinCRYPTO + u8(0, 2, "dcrypto")
		r.MinPING = u8(0, 2, "minping")
		r.MaxPING = r.MinPING
		r.MinPADDING = u8(1, 255, "minpad")
		r.MaxPADDING = u8(int(r.MinPADDING), 255, "maxpad")
		r.Length = uint16(min(65535, max(0, hint+int(r.MinPING)+3*int(r.MinCRYPTO)+rapid.IntRange(-4, 12).Draw(t, "over"))))
	default: // every field value, so invalid bounds occur
		r.MinPING = rapid.Uint8().Draw(t, "minping")
		r.MaxPING = rapid.Uint8().Draw(t, "maxping")
		r.MinCRYPTO = rapid.Uint8().Draw(t, "mincrypto")
		r.MaxCRYPTO = rapid.Uint8().Draw(t, "maxcrypto")
		r.MinPADDING = rapid.Uint8().Draw(t, "minpad")
		r.MaxPADDING = rapid.Uint8().Draw(t, "maxpad")
		r.Length = rapid.Uint16().Draw(t, "length")
	}
	return r
}

// genRanges draws, for a stream of length l, a set of absolute ranges assigned to nd datagrams.
// It starts from a tiling of [0, l) written in the four spellings the QUICCryptoRange doc allows
// (offset from the start or the end, length explicit / to the end / short of the end), and then
// sometimes damages it: drops a range, shifts a bound, uses a huge value, duplicates a range.
func genRanges(t *rapid.T, l int) (perDatagram [][]Range) {
	nd := rapid.SampledFrom([]int{1, 1, 2, 2, 3, 3, 4}).Draw(t, "ndatagrams")
	perDatagram = make([][]Range, nd)
	cuts := sortedCuts(t, rapid.SampledFrom([]int{0, 1, 2, 3, 5, 8}).Draw(t, "nranges"), 0, l, "rangecut")
	bounds := append([]int{0}, cuts...)
	bounds = append(bounds, l)
	var all []Range
	for i := 0; i+1 < len(bounds); i++ {
		s, e := bounds[i], bounds[i+1]
		if s == e && i+2 < len(bounds) && rapid.IntRange(0, 3).Draw(t, "keep-empty") != 0 {
			continue // mostly skip empty pieces
		}
		var r Range
		if s < l && rapid.IntRange(0, 2).Draw(t, "off-from-end") == 0 {
			r.Off = s - l
		} else {
			r.Off = s
		}
		switch {
		case e == l && (e == s || rapid.IntRange(0, 2).Draw(t, "len-open") != 0):
			r.Len = 0
		case e < l && (e == s || rapid.IntRange(0, 2).Draw(t, "len-from-end") == 0):
			r.Len = e - l
		default:
			r.Len = e - s
		}
		all = append(all, r)
	}
	// damage
	if len(all) > 0 && rapid.IntRange(0, 2).Draw(t, "damage") == 0 {
		i := rapid.IntRange(0, len(all)-1).Draw(t, "victim")
		huge := []int{math.MaxInt, math.MinInt, math.MaxInt32, math.MinInt32, 1 << 40, -(1 << 40), l, -l, l + 1, -l - 1, 65535, 65536}
		switch rapid.IntRange(0, 6).Draw(t, "damagekind") {
		case 0:
			all = append(all[:i:i], all[i+1:]...)
		case 1:
			all[i].Off += rapid.IntRange(-3, 3).Draw(t, "doff")
		case 2:
			all[i].Len += rapid.IntRange(-3, 3).Draw(t, "dlen")
		case 3:
			all[i].Off = rapid.SampledFrom(huge).Draw(t, "hugeoff")
		case 4:
			all[i].Len = rapid.SampledFrom(huge).Draw(t, "hugelen")
		case 5:
			all = append(all, all[i])
		case 6:
			all[i].Off, all[i].Len = -all[i].Off, -all[i].Len
		}
	}
	if len(all) > 1 {
		all = rapid.Permutation(all).Draw(t, "rangeorder")
	}
	// normally every datagram gets at least one range (a datagram without ranges is an error case)
	if rapid.IntRange(0, 7).Draw(t, "allow-empty-datagram") != 0 {
		nd = min(nd, max(1, len(all)))
		perDatagram = perDatagram[:nd]
	}
	for i, r := range all {
		d := i
		if i >= nd || len(perDatagram) != nd {
			d = rapid.IntRange(0, len(perDatagram)-1).Draw(t, "datagram")
		}
		perDatagram[d] = append(perDatagram[d], r)
	}
	return perDatagram
}

func genBudgets(t *rapid.T, nd int) []int {
	switch rapid.IntRange(0, 3).Draw(t, "budgetcls") {
	case 0:
		return nil
	case 1:
		return rapid.SliceOfN(rapid.SampledFrom([]int{0, -1, 1, 100, 1162, 1200, 1452, 65535}), 0, 6).Draw(t, "budgets")
	default:
		b := make([]int, nd)
		for i := range b {
			b[i] = rapid.IntRange(1100, 1452).Draw(t, "budget")
		}
		return b
	}
}

func genReps(t *rapid.T, deterministic bool, l int) int {
	if deterministic {
		return rapid.IntRange(1, 2).Draw(t, "reps")
	}
	r := rapid.SampledFrom([]int{1, 4, 16, 16, 64, 64, 256, 256, 1024, 4096}).Draw(t, "reps")
	// keep the cost of one case bounded: long data gets fewer draws
	for r > 16 && r*max(l, 64) > 1_200_000 {
		r /= 4
	}
	return r
}

func genBCase(t *rapid.T) BCase {
	c := BCase{}
	c.Kind = rapid.SampledFrom([]string{"frames", "frames", "frames", "passthrough", "random", "random", "random", "random", "random",
		"multi", "multi", "flight", "flight", "flight", "randflight", "randflight", "randflight", "randflight"}).Draw(t, "kind")
	c.L = genLen(t)
	c.Seed = rapid.Uint64Range(1, 1<<40).Draw(t, "seed")
	c.Fill = rapid.SampledFrom([]int{0, 0, 0, 0, 0, 0, 1, 2, 3, 4}).Draw(t, "fill")
	ood := rapid.IntRange(0, 39).Draw(t, "ood") == 0
	// about 2 in 5 of the per-datagram builder cases meet their slices the way the packer hands them out when the
	// ClientHello is "k datagrams + a short tail" or when only a part of it is retransmitted (genPackerShape)
	packerShape := (c.Kind == "frames" || c.Kind == "random" || c.Kind == "multi") && rapid.IntRange(0, 4).Draw(t, "packer-shape") < 2
	switch c.Kind {
	case "frames":
		if packerShape {
			// a layout pinned for the first (full) slice, last piece open: later full slices either fit it or fall
			// back, the short tail / the retransmitted range is shorter than its fixed part most of the time
			var written int
			c.Shape, c.Slices, c.Base, written = genPackerShape(t)
			c.L = 0
			for _, sl := range c.Slices {
				c.L += sl
			}
			c.Layout = genTilingLayout(t, []int{written, written})
			c.Reps = genReps(t, true, c.L)
			break
		}
		c.Base = genBase(t, c.L)
		c.Slices = genSlices(t, c.L)
		if rapid.IntRange(0, 9).Draw(t, "nil-layout") == 0 {
			c.Nil = true
		} else {
			c.Layout = genTilingLayout(t, c.Slices)
		}
		if len(c.Slices) == 1 && c.Base == 0 {
			c.UseB = rapid.Bool().Draw(t, "use-build")
		}
		c.Reps = genReps(t, true, c.L)
		if ood && !c.Nil {
			c.OOD = "neg-padding"
			c.Layout = append(c.Layout, Item{T: "z", Len: -rapid.IntRange(1, 5).Draw(t, "negpad")})
		} else if !c.Nil && rapid.IntRange(0, 5).Draw(t, "mismatch") == 0 {
			// A layout that was written for another slice than the one it meets (a retransmission or a
			// PTO probe hands in only the unacknowledged part; the ClientHello changed length). Where it
			// does not fit the data the builder must still be truthful and complete (or refuse); where
			// it fits but leaves bytes out, the case is outside the property's domain (see checkB).
			switch rapid.IntRange(0, 2).Draw(t, "mismatchkind") {
			case 0: // one explicit length reaches past the data
				for i := range c.Layout {
					if c.Layout[i].T == "c" {
						c.Layout[i].Len += rapid.IntRange(1, 9).Draw(t, "overhang") + rapid.SampledFrom([]int{0, 0, c.L}).Draw(t, "overhang-l")
						break
					}
				}
			default: // the layout tiles slices of other lengths
				alt := make([]int, len(c.Slices))
				for i, sl := range c.Slices {
					switch rapid.IntRange(0, 3).Draw(t, "altkind") {
					case 0:
						alt[i] = max(0, sl-rapid.IntRange(1, 40).Draw(t, "shorter"))
					case 1:
						alt[i] = sl + rapid.IntRange(1, 40).Draw(t, "longer")
					case 2:
						alt[i] = sl * 2
					default:
						alt[i] = rapid.IntRange(0, 2400).Draw(t, "altlen")
					}
				}
				c.Layout = genTilingLayout(t, alt)
			}
		}
	case "passthrough":
		if c.L == 0 {
			c.L = rapid.IntRange(1, 1300).Draw(t, "len-nonzero")
		}
		c.Slices = []int{c.L}
		lo := rapid.SampledFrom([]int{0, 0, 1, 63, 64, 999, 1162, 2300, 16383, 16384, 20000}).Draw(t, "lo")
		if rapid.Bool().Draw(t, "lo-straddle") {
			lo = max(0, rapid.SampledFrom([]int{64, 16384}).Draw(t, "boundary")-rapid.IntRange(0, c.L).Draw(t, "below"))
		}
		if ood {
			// QUICFrames.build looks for the lowest offset below math.MaxUint16 only
			c.OOD = "passthrough-offset>=65535"
			lo = 65535 + rapid.IntRange(0, 70000).Draw(t, "hi-lo")
		}
		c.Base = uint64(lo)
		cuts := sortedCuts(t, rapid.SampledFrom([]int{0, 1, 2, 3, 7}).Draw(t, "npieces"), 1, c.L-1, "piececut")
		prev := 0
		for _, x := range append(cuts, c.L) {
			c.Layout = append(c.Layout, Item{T: "c", Off: lo + prev, Len: x - prev})
			prev = x
		}
		if len(c.Layout) > 1 && rapid.Bool().Draw(t, "shuffle") {
			c.Layout = rapid.Permutation(c.Layout).Draw(t, "order")
		}
		c.UseB = true
		c.Reps = 1
	case "random":
		if packerShape {
			c.Shape, c.Slices, c.Base, _ = genPackerShape(t)
			c.L = 0
			for _, sl := range c.Slices {
				c.L += sl
			}
			// counts drawn around the length of the SHORT slice (more frames than it has bytes), or the parrots' shape
			c.RFs = []RF{pinCounts(t, genRF(t, c.Slices[len(c.Slices)-1], false, false))}
			c.Reps = min(genReps(t, false, c.L), 256) // several full slices per draw: keep the case cheap
			break
		}
		c.Base = genBase(t, c.L)
		c.Slices = genSlices(t, c.L)
		c.RFs = []RF{genRF(t, c.Slices[0], false, true)}
		if len(c.Slices) == 1 && c.Base == 0 {
			c.UseB = rapid.Bool().Draw(t, "use-build")
		}
		c.Reps = genReps(t, false, c.L)
	case "multi":
		if packerShape {
			c.Shape, c.Slices, c.Base, _ = genPackerShape(t)
			c.L = 0
			for _, sl := range c.Slices {
				c.L += sl
			}
			// entries for 1..len(slices)+1 datagrams: the short slice meets its own entry, or the repeated last one
			n := rapid.IntRange(1, len(c.Slices)+1).Draw(t, "nper")
			for i := 0; i < n; i++ {
				hint := c.Slices[len(c.Slices)-1]
				if i < len(c.Slices)-1 && rapid.Bool().Draw(t, "hint-own") {
					hint = c.Slices[i]
				}
				c.RFs = append(c.RFs, pinCounts(t, genRF(t, hint, false, false)))
			}
			if c.Shape == "rtx" {
				c.Idx0 = rapid.IntRange(0, 3).Draw(t, "idx0") // the retransmission is datagram 1, 2, 3 ... of the connection
			}
			c.Reps = min(genReps(t, false, c.L), 256) // several full slices per draw: keep the case cheap
			break
		}
		c.Base = genBase(t, c.L)
		c.Slices = genSlices(t, c.L)
		n := rapid.SampledFrom([]int{0, 1, 1, 2, 2, 3, 4}).Draw(t, "nper")
		for i := 0; i < n; i++ {
			c.RFs = append(c.RFs, genRF(t, c.Slices[min(i, len(c.Slices)-1)], false, i == 0 || rapid.IntRange(0, 3).Draw(t, "arb") == 0))
		}
		c.Idx0 = rapid.SampledFrom([]int{0, 0, 0, 0, 1, 3, 1 << 30, math.MaxInt - 8}).Draw(t, "idx0")
		if len(c.Slices) == 1 && c.Base == 0 && c.Idx0 == 0 {
			c.UseB = rapid.Bool().Draw(t, "use-build")
		}
		c.Reps = genReps(t, false, c.L)
		if ood && n > 0 {
			c.OOD = "neg-idx"
			c.Idx0 = -rapid.IntRange(1, 3).Draw(t, "negidx")
			c.UseB = false
		}
	case "flight":
		per := genRanges(t, c.L)
		if rapid.IntRange(0, 19).Draw(t, "no-datagrams") == 0 {
			per = nil
		}
		for _, rs := range per {
			var items []Item
			for _, r := range rs {
				items = append(items, Item{T: "c", Off: r.Off, Len: r.Len, Ptr: rapid.Bool().Draw(t, "ptr")})
			}
			// frame order inside a datagram is part of the layout: keep the drawn order, add PING/PADDING anywhere
			items = addNoise(t, items)
			c.Flight = append(c.Flight, items)
		}
		c.Budgets = genBudgets(t, len(per))
		c.Reps = genReps(t, true, c.L)
	case "randflight":
		per := genRanges(t, c.L)
		if rapid.IntRange(0, 19).Draw(t, "no-datagrams") == 0 {
			per = nil
		}
		arb := -1
		if len(per) > 0 && rapid.IntRange(0, 2).Draw(t, "arb") == 0 {
			arb = rapid.IntRange(0, len(per)-1).Draw(t, "arb-datagram") // every field value on at most one datagram
		}
		for i, rs := range per {
			hint := c.L
			if len(rs) > 0 {
				if s, e, ok := rs[0].resolve(c.L); ok {
					hint = e - s
				}
			}
			c.RFlight = append(c.RFlight, RFD{Ranges: rs, Frames: genRF(t, hint, true, i == arb)})
		}
		c.Budgets = genBudgets(t, len(per))
		c.Reps = genReps(t, false, c.L)
	}
	return c
}

// ---------------------------------------------------------------------------------------
// construction of the real builders
// ---------------------------------------------------------------------------------------

func mkFrames(items []Item) quic.QUICFrames {
	qf := make(quic.QUICFrames, 0, len(items))
	for _, it := range items {
		switch it.T {
		case "c":
			f := quic.QUICFrameCrypto{Offset: it.Off, Length: it.Len}
			if it.Ptr {
				qf = append(qf, &f)
			} else {
				qf = append(qf, f)
			}
		case "p":
			if it.Ptr {
				qf = append(qf, &quic.QUICFramePing{})
			} else {
				qf = append(qf, quic.QUICFramePing{})
			}
		case "z":
			if it.Ptr {
				qf = append(qf, &quic.QUICFramePadding{Length: it.Len})
			} else {
				qf = append(qf, quic.QUICFramePadding{Length: it.Len})
			}
		}
	}
	return qf
}

// compile-time: the builders implement the interfaces the packer type-asserts on.
var (
	_ quic.QUICFrameBuilderEx     = quic.QUICFrames{}
	_ quic.QUICFrameBuilderEx     = (*quic.QUICRandomFrames)(nil)
	_ quic.QUICFrameBuilderEx     = (*quic.QUICMultiDatagramFrames)(nil)
	_ quic.QUICFlightFrameBuilder = (*quic.QUICFlightFrames)(nil)
	_ quic.QUICFlightFrameBuilder = (*quic.QUICRandomFlightFrames)(nil)
)

// ---------------------------------------------------------------------------------------
// oracle
// ---------------------------------------------------------------------------------------

type obs struct {
	owid, lwid  [9]bool // encoded varint widths seen for CRYPTO offsets / lengths
	ncrypto     int
	npad, nping int
}

func (o *obs) crossesVarint() bool {
	n, m := 0, 0
	for i := range o.owid {
		if o.owid[i] {
			n++
		}
		if o.lwid[i] {
			m++
		}
	}
	return n > 1 || m > 1
}

// checkPayload applies the C09 oracle to one frame payload.
//
//	data  the bytes the builder was handed; data[0] sits at absolute stream offset base
//	want  (normalised, relative to data) the set of positions the CRYPTO frames must cover
//	      exactly; nil = only the per-frame truth condition is judged
func checkPayload(area string, payload, data []byte, base uint64, want []span, o *obs) *vf.Verdict {
	frames, err := readFrames(payload)
	if err != nil {
		return vf.Bad("C09/"+area+"/unparseable", "payload of %d bytes is not a PADDING/PING/CRYPTO sequence: %v (after %d frames)", len(payload), err, len(frames))
	}
	got := make([]span, 0, len(frames))
	for i, f := range frames {
		switch f.typ {
		case 0:
			o.npad++
			continue
		case 1:
			o.nping++
			continue
		}
		o.ncrypto++
		o.owid[f.owid] = true
		o.lwid[f.lwid] = true
		if f.off < base || f.off-base > uint64(len(data)) || f.off-base+uint64(len(f.data)) > uint64(len(data)) {
			return vf.Bad("C09/"+area+"/out-of-stream", "frame %d: CRYPTO [%d,%d) lies outside the data it was built from, [%d,%d) (zero extension / wrong base)",
				i, f.off, f.off+uint64(len(f.data)), base, base+uint64(len(data)))
		}
		rel := int(f.off - base)
		if !bytes.Equal(f.data, data[rel:rel+len(f.data)]) {
			k := 0
			for k < len(f.data) && f.data[k] == data[rel+k] {
				k++
			}
			return vf.Bad("C09/"+area+"/wrong-bytes", "frame %d: CRYPTO offset %d length %d does not carry the stream's bytes at that offset (first difference at stream offset %d: got %#02x want %#02x)",
				i, f.off, len(f.data), f.off+uint64(k), f.data[k], data[rel+k])
		}
		got = append(got, span{rel, rel + len(f.data)})
	}
	if want != nil {
		got = normalise(got)
		if !sameSpans(got, want) {
			return vf.Bad("C09/"+area+"/coverage", "CRYPTO frames cover %v of the data (relative to absolute offset %d), expected exactly %v: %s", got, base, want, firstDiff(got, want))
		}
	}
	return nil
}

func whole(n int) []span { return normalise([]span{{0, n}}) }

type outcome struct {
	payload  []byte
	payloads [][]byte
	err      error
	pan      any
}

func guard(f func() ([]byte, error)) (o outcome) {
	defer func() {
		if r := recover(); r != nil {
			o.pan = r
		}
	}()
	o.payload, o.err = f()
	return o
}

func guardFlight(f func() ([][]byte, error)) (o outcome) {
	defer func() {
		if r := recover(); r != nil {
			o.pan = r
		}
	}()
	o.payloads, o.err = f()
	return o
}

var kindArea = map[string]string{"frames": "frames", "passthrough": "frames", "random": "random", "multi": "multi", "flight": "flight", "randflight": "randflight"}

// layoutExpect reads a QUICFrames layout against a slice of n bytes the way the QUICFrameCrypto
// doc comment describes it (Offset relative to the lowest CRYPTO offset of the layout, Length 0 =
// to the end of the data). fits is false when some CRYPTO entry does not lie inside the data.
func layoutExpect(items []Item, n int) (fits bool, cover []span) {
	lowest := math.MaxInt
	for _, it := range items {
		if it.T == "c" && it.Off < lowest {
			lowest = it.Off
		}
	}
	var sp []span
	for _, it := range items {
		if it.T != "c" {
			continue
		}
		rel := it.Off - lowest
		l := it.Len
		if rel < 0 || rel > n || l < 0 {
			return false, nil
		}
		if l == 0 {
			l = n - rel
		}
		if l > n-rel {
			return false, nil
		}
		sp = append(sp, span{rel, rel + l})
	}
	return true, normalise(sp)
}

// layoutFixedPart is the number of bytes a QUICFrames layout pins: the end of its furthest explicit-length CRYPTO
// entry, or the start of its furthest open one, relative to the lowest CRYPTO offset. A slice shorter than that
// cannot be cut as the layout says.
func layoutFixedPart(items []Item) int {
	lowest := math.MaxInt
	for _, it := range items {
		if it.T == "c" && it.Off < lowest {
			lowest = it.Off
		}
	}
	fixed := 0
	for _, it := range items {
		if it.T == "c" {
			fixed = max(fixed, it.Off-lowest+max(it.Len, 0))
		}
	}
	return fixed
}

// checkB decides one builder case.
func checkB(c BCase, u *vf.Unit) *vf.Verdict {
	if c.L < 0 || c.L > 1<<20 || c.Reps < 1 {
		return nil
	}
	area := kindArea[c.Kind]
	if area == "" {
		return nil
	}
	reps := c.Reps
	if vf.ReplayMode() && c.Kind != "frames" && c.Kind != "passthrough" && c.Kind != "flight" {
		reps = min(max(reps*50, 5000), 200000) // a replay re-draws the builder's own randomness
	}
	data := fill(c.L, c.Seed, c.Fill)
	var o obs
	nErr, nOK, builds := 0, 0, 0
	shapeCls := map[string]bool{} // per-case flags of the "slice does not match the pinned layout" dimension
	flagF := false                // a CRYPTO frame count above the bytes available was requested

	if c.OOD != "" {
		return checkOOD(c, data, u)
	}

	switch c.Kind {
	case "frames", "passthrough", "random", "multi":
		sum := 0
		for _, s := range c.Slices {
			if s < 0 {
				return nil
			}
			sum += s
		}
		if sum != c.L || len(c.Slices) == 0 {
			return nil
		}
		var bex quic.QUICFrameBuilderEx
		mustSucceed := make([]bool, len(c.Slices))
		wants := make([][]span, len(c.Slices))
		underCover := make([]bool, len(c.Slices))
		misfit := make([]bool, len(c.Slices))  // frames: the layout does not fit the slice (documented fallback: one CRYPTO frame at the true offset)
		shorter := make([]bool, len(c.Slices)) // the slice is shorter than the pinned part of its layout (fixed pieces / minimum frame count)
		pinned := false                        // the builder has a pinned part at all
		for i, sl := range c.Slices {
			wants[i] = whole(sl)
		}
		switch c.Kind {
		case "frames", "passthrough":
			if c.Nil {
				bex = quic.QUICFrames{}
			} else {
				bex = mkFrames(c.Layout)
			}
			for i, sl := range c.Slices {
				wants[i] = whole(sl)
				if c.Nil {
					mustSucceed[i] = true
					continue
				}
				fits, cover := layoutExpect(c.Layout, sl)
				if c.Kind == "frames" {
					fixed := layoutFixedPart(c.Layout)
					pinned = pinned || fixed > 0
					misfit[i] = !fits
					shorter[i] = !fits && sl < fixed
				}
				switch {
				case !fits:
					// error, or truthful and complete: never a panic, a zero extension or a truncation
				case sameSpans(cover, whole(sl)):
					mustSucceed[i] = true // a layout that tiles its slice
				default:
					// fits but leaves bytes of the slice out: not a tiling layout, outside the property's
					// domain (DESIGN.md section 7 item 10); only the per-frame truth is judged, the outcome is labelled
					wants[i] = nil
					underCover[i] = true
				}
			}
		case "random":
			if len(c.RFs) != 1 {
				return nil
			}
			q := c.RFs[0].q()
			bex = &q
			for i, s := range c.Slices {
				mustSucceed[i] = c.RFs[0].validRandomFrames()
				flagF = flagF || int(c.RFs[0].MaxCRYPTO) > s+1 || int(c.RFs[0].MinCRYPTO) > s
				pinned = pinned || mustSucceed[i]
				shorter[i] = mustSucceed[i] && int(c.RFs[0].MinCRYPTO) > s
			}
		case "multi":
			m := &quic.QUICMultiDatagramFrames{}
			for _, r := range c.RFs {
				m.PerDatagram = append(m.PerDatagram, r.q())
			}
			bex = m
			for i, s := range c.Slices {
				if len(c.RFs) == 0 {
					continue
				}
				// "If datagramIdx >= len(PerDatagram), the last entry is used"
				idx := c.Idx0
				if idx <= math.MaxInt-i {
					idx += i
				}
				r := c.RFs[min(idx, len(c.RFs)-1)]
				mustSucceed[i] = r.validRandomFrames()
				flagF = flagF || int(r.MaxCRYPTO) > s+1 || int(r.MinCRYPTO) > s
				pinned = pinned || mustSucceed[i]
				shorter[i] = mustSucceed[i] && int(r.MinCRYPTO) > s
			}
		}
		for rep := 0; rep < reps; rep++ {
			pos := 0
			for i, sl := range c.Slices {
				slice := data[pos : pos+sl]
				base := c.Base + uint64(pos)
				if c.Kind == "passthrough" {
					base = c.Base // the layout's offsets are absolute; Build adds nothing
				}
				pos += sl
				idx := c.Idx0
				if idx <= math.MaxInt-i {
					idx += i
				}
				var out outcome
				if c.UseB {
					out = guard(func() ([]byte, error) { return bex.Build(slice) })
				} else {
					out = guard(func() ([]byte, error) { return bex.BuildForDatagram(idx, slice, base) })
				}
				builds++
				if out.pan != nil {
					return vf.Bad("C09/"+area+"/panic", "datagram %d (slice of %d bytes at absolute offset %d): builder panicked: %v", i, sl, base, out.pan)
				}
				if out.err != nil {
					nErr++
					if mustSucceed[i] {
						return vf.Bad("C09/"+area+"/valid-config-rejected", "datagram %d (slice of %d bytes at absolute offset %d): in-range configuration rejected: %v", i, sl, base, out.err)
					}
					if misfit[i] && rep == 0 {
						shapeCls["fallback:error"] = true
					}
					if underCover[i] && rep == 0 {
						u.Class("ood:under-covering-layout:error")
					}
					continue
				}
				nOK++
				// Nothing validates a per-datagram payload after the builder, and nobody else sends the
				// slice's bytes (QUICFrameBuilderEx doc): every successful result must cover the slice.
				before := o.ncrypto
				if v := checkPayload(area, out.payload, slice, base, wants[i], &o); v != nil {
					v.Detail = fmt.Sprintf("datagram %d (slice of %d bytes at absolute offset %d), draw %d: %s", i, sl, base, rep, v.Detail)
					return v
				}
				if rep == 0 && c.Kind != "passthrough" {
					// measured: how the slices the packer really hands out meet a pinned layout
					if misfit[i] {
						switch {
						case o.ncrypto-before != 1:
							shapeCls["fallback:not-a-single-frame(complete)"] = true
						case base != 0:
							shapeCls["fallback-single-frame-at-nonzero-offset"] = true
							if base > 16383 {
								shapeCls["fallback-single-frame-at-offset>16383"] = true
							}
						default:
							shapeCls["fallback-single-frame-at-offset-0"] = true
						}
					}
					if shorter[i] {
						shapeCls["slice-shorter-than-layout"] = true
						if base != 0 {
							shapeCls["slice-shorter-than-layout:base!=0"] = true
						}
						if base > 16383 {
							shapeCls["slice-shorter-than-layout:base>16383"] = true
						}
					}
					if sl == 0 && pinned {
						shapeCls["empty-slice"] = true
						if base != 0 {
							shapeCls["empty-slice:base!=0"] = true
						}
					}
					if pinned && i > 0 && i == len(c.Slices)-1 && sl >= 1 && sl <= 200 && c.Slices[i-1] >= 1000 {
						shapeCls["tail-datagram-short"] = true
						if shorter[i] {
							shapeCls["tail-datagram-short:shorter-than-layout"] = true
						}
					}
				}
				if underCover[i] && rep == 0 {
					var scratch obs
					if checkPayload(area, out.payload, slice, base, whole(sl), &scratch) != nil {
						u.Class("ood:under-covering-layout:truncated")
					} else {
						u.Class("ood:under-covering-layout:complete")
					}
				}
			}
		}

	case "flight", "randflight":
		var fb quic.QUICFlightFrameBuilder
		nd := 0
		var want [][]span   // per datagram: declared coverage (nil entry = some range out of bounds)
		var dgValid []bool  // per datagram: all parameters in range, so it must build
		mustSucceed := true // BuildFlight
		if c.Kind == "flight" {
			f := &quic.QUICFlightFrames{}
			for _, items := range c.Flight {
				f.Datagrams = append(f.Datagrams, mkFrames(items))
				var w []span
				ok := true
				for _, it := range items {
					if it.T != "c" {
						if it.T == "z" && it.Len < 0 {
							return nil
						}
						continue
					}
					s, e, inb := Range{it.Off, it.Len}.resolve(c.L)
					if !inb {
						ok = false
						break
					}
					w = append(w, span{s, e})
				}
				if ok {
					want = append(want, normalise(w))
				} else {
					want = append(want, nil)
				}
				dgValid = append(dgValid, ok)
			}
			fb = f
			nd = len(c.Flight)
		} else {
			f := &quic.QUICRandomFlightFrames{}
			for _, d := range c.RFlight {
				qd := quic.QUICRandomFlightDatagram{Frames: d.Frames.q()}
				var w []span
				ok := true
				for _, r := range d.Ranges {
					qd.CryptoRanges = append(qd.CryptoRanges, quic.QUICCryptoRange{Offset: r.Off, Length: r.Len})
					s, e, inb := r.resolve(c.L)
					if !inb {
						ok = false
						continue
					}
					w = append(w, span{s, e})
					if e > s {
						flagF = flagF || int(d.Frames.MaxCRYPTO) > e-s+1 || int(d.Frames.MinCRYPTO) > e-s
					}
				}
				f.PerDatagram = append(f.PerDatagram, qd)
				if ok {
					want = append(want, normalise(w))
				} else {
					want = append(want, nil)
				}
				// A datagram whose ranges are all empty "carries nothing"; whether that is an error is
				// the builder's choice (it says so), so such a datagram is not required to build.
				dgValid = append(dgValid, ok && len(d.Ranges) > 0 && len(normalise(w)) > 0 && d.Frames.validFlightFrames())
			}
			fb = f
			nd = len(c.RFlight)
		}
		for _, v := range dgValid {
			mustSucceed = mustSucceed && v
		}
		if nd == 0 {
			mustSucceed = false // "Must not be empty"
		}
		var budgets []quic.InitialDatagramBudget
		if c.Budgets != nil {
			budgets = make([]quic.InitialDatagramBudget, 0, len(c.Budgets))
			for _, b := range c.Budgets {
				budgets = append(budgets, quic.InitialDatagramBudget{MaxFrameBytes: b})
			}
		}
		checkDG := func(what string, d int, payload []byte, rep int) *vf.Verdict {
			var w []span // nil when a range of this datagram is out of bounds: clamped-but-truthful is all that is required
			if d < len(want) {
				w = want[d]
			}
			if v := checkPayload(area, payload, data, 0, w, &o); v != nil {
				v.Detail = fmt.Sprintf("%s, datagram %d, draw %d: %s", what, d, rep, v.Detail)
				return v
			}
			return nil
		}
		for rep := 0; rep < reps; rep++ {
			out := guardFlight(func() ([][]byte, error) { return fb.BuildFlight(data, budgets) })
			builds++
			if out.pan != nil {
				return vf.Bad("C09/"+area+"/panic", "BuildFlight over a %d byte stream panicked: %v", c.L, out.pan)
			}
			if out.err != nil {
				nErr++
				if mustSucceed {
					return vf.Bad("C09/"+area+"/valid-config-rejected", "BuildFlight over a %d byte stream: every range is in bounds and every parameter in range, but the plan was rejected: %v", c.L, out.err)
				}
			} else {
				nOK++
				if len(out.payloads) != nd {
					return vf.Bad("C09/"+area+"/coverage", "BuildFlight returned %d payloads for %d configured datagrams", len(out.payloads), nd)
				}
				for d, p := range out.payloads {
					if v := checkDG("BuildFlight", d, p, rep); v != nil {
						return v
					}
				}
			}
			// Build: "building the first datagram's frames" against cryptoData as the whole stream
			if rep%2 == 0 || rep < 2 {
				out := guard(func() ([]byte, error) { return fb.Build(data) })
				builds++
				if out.pan != nil {
					return vf.Bad("C09/"+area+"/panic", "Build over a %d byte stream panicked: %v", c.L, out.pan)
				}
				if out.err != nil {
					nErr++
					if nd > 0 && dgValid[0] {
						return vf.Bad("C09/"+area+"/valid-config-rejected", "Build over a %d byte stream: the first datagram's parameters are in range but it was rejected: %v", c.L, out.err)
					}
				} else {
					nOK++
					if v := checkDG("Build", 0, out.payload, rep); v != nil {
						return v
					}
				}
			}
		}
	}

	// bookkeeping: coverage table builder x length class x boundary flags
	flags := ""
	multiDG := len(c.Slices) >= 2 || len(c.Flight) >= 2 || len(c.RFlight) >= 2
	if multiDG {
		flags += "D"
	}
	if flagF {
		flags += "F"
	}
	if o.crossesVarint() {
		flags += "X"
	}
	if flags == "" {
		flags = "-"
	}
	u.Class("cov|" + c.Kind + "|" + lenClass(c.L) + "|" + flags)
	u.Class("kind:" + c.Kind)
	u.ClassN("builds", builds)
	u.ClassN("builds-ok", nOK)
	u.ClassN("builds-err", nErr)
	if nOK > 0 {
		u.Class(c.Kind + ":ok")
	}
	if nErr > 0 {
		u.Class(c.Kind + ":err")
	}
	if multiDG {
		u.Class("multi-datagram")
	}
	if flagF {
		u.Class("frames>bytes")
	}
	if o.crossesVarint() {
		u.Class("varint-crossing")
	}
	if c.Base != 0 {
		u.Class("base!=0")
	}
	for cl := range shapeCls {
		u.Class(cl)
		u.Class(c.Kind + ":" + cl)
	}
	if c.Shape != "" {
		u.Class("shape:" + c.Shape)
	}
	if c.Kind == "frames" && !c.Nil {
		misfit := false
		for _, sl := range c.Slices {
			if fits, _ := layoutExpect(c.Layout, sl); !fits {
				misfit = true
			}
		}
		if misfit {
			u.Class("frames:layout-does-not-fit")
		}
	}
	if c.Reps >= 1024 {
		u.Class("reps>=1024")
	}
	if nOK > 0 && (multiDG || flagF || o.crossesVarint()) {
		u.NonTrivial(sigOf(c))
		if u.WantSample() && c.L < 400 {
			u.Sample(c)
		}
	}
	return nil
}

func sigOf(c BCase) string {
	var b strings.Builder
	fmt.Fprintf(&b, "%s|%d|%d|%v|%v|%v|%v|%v|%d", c.Kind, c.L, c.Base, c.Slices, c.Layout, c.RFs, c.Flight, c.RFlight, c.Idx0)
	return b.String()
}

// checkOOD runs the deliberately out-of-domain classes. They are reported as class counters and
// are never a violation (DESIGN.md section 7 item 10 and the notes in NOTES.md).
func checkOOD(c BCase, data []byte, u *vf.Unit) *vf.Verdict {
	var out outcome
	var v *vf.Verdict
	var o obs
	switch c.OOD {
	case "neg-padding":
		if len(c.Slices) == 0 || c.Slices[0] > len(data) || c.Slices[0] < 0 {
			return nil
		}
		slice := data[:c.Slices[0]]
		qf := mkFrames(c.Layout)
		out = guard(func() ([]byte, error) { return qf.BuildForDatagram(0, slice, c.Base) })
		if out.pan == nil && out.err == nil {
			v = checkPayload("frames", out.payload, slice, c.Base, whole(len(slice)), &o)
		}
	case "passthrough-offset>=65535":
		qf := mkFrames(c.Layout)
		out = guard(func() ([]byte, error) { return qf.Build(data) })
		if out.pan == nil && out.err == nil {
			v = checkPayload("frames", out.payload, data, c.Base, whole(len(data)), &o)
		}
	case "neg-idx":
		m := &quic.QUICMultiDatagramFrames{}
		for _, r := range c.RFs {
			m.PerDatagram = append(m.PerDatagram, r.q())
		}
		out = guard(func() ([]byte, error) { return m.BuildForDatagram(c.Idx0, data, c.Base) })
		if out.pan == nil && out.err == nil {
			v = checkPayload("multi", out.payload, data, c.Base, whole(len(data)), &o)
		}
	default:
		return nil
	}
	res := "ok-truthful"
	switch {
	case out.pan != nil:
		res = "panic"
	case out.err != nil:
		res = "error"
	case v != nil:
		res = strings.TrimPrefix(v.Sig, "C09/")
	}
	u.Class("ood:" + c.OOD + ":" + res)
	return nil
}

func TestBuilders(t *testing.T) {
	vf.RunRapid(t, "builders", genBCase, checkB)
	vf.U("builders").Extra("coverage_table", "class labels 'cov|<builder>|<length class>|<flags>' (D = two or more datagrams, F = more CRYPTO frames requested than bytes, X = CRYPTO offset or length encodings of different varint widths within the case); 'builds' counts individual Build/BuildForDatagram/BuildFlight calls")
}

// FuzzBuilders drives the same generator and oracle from coverage-guided bytes.
func FuzzBuilders(f *testing.F) {
	u := vf.U("builders-fuzz")
	for _, s := range [][]byte{{}, {0}, {1, 2, 3, 4, 5, 6, 7, 8}, bytes.Repeat([]byte{0xff}, 64), bytes.Repeat([]byte{0x3f, 0x40, 0x7f, 0x80}, 32), bytes.Repeat([]byte{0, 0xff}, 128)} {
		f.Add(s)
	}
	f.Fuzz(rapid.MakeFuzz(func(rt *rapid.T) {
		c := genBCase(rt)
		if c.Reps > 16 {
			c.Reps = 16
		}
		u.Case()
		if v := vf.Guard("C09/builders-fuzz", func() *vf.Verdict { return checkB(c, u) }); v != nil {
			u.Fail(rt, v, c)
		}
	}))
}
