// C01: stream data arrives intact, in order, exactly once under any network faults.
// The scenario generator, runner and oracle live in package xfer (shared with the wire-level units of
// C04, C05 and C07).
package c01

import (
	"fmt"
	"testing"

	"github.com/refraction-networking/uquic/verif/sim"
	"github.com/refraction-networking/uquic/verif/vf"
	"github.com/refraction-networking/uquic/verif/xfer"
)

func TestMain(m *testing.M) { vf.Main(m) }

type Case = xfer.Case
type StreamSpec = xfer.StreamSpec

func TestSimRandom(t *testing.T) {
	vf.ReplayRepeat = 60
	vf.RunRapid(t, "sim-random", xfer.GenCase, func(c Case, u *vf.Unit) *vf.Verdict { return xfer.CheckCase(t, c, u, xfer.Options{}) })
}

// scripted scenarios for the exhaustive fault tiers
func scripted() []Case {
	return []Case{
		{Client: "plain", RTTms: 20, IdleMs: 10000, Seed: 11, Streams: []StreamSpec{
			{Init: "c", Size: 6000, Chunks: []int{1500}, ReadBuf: 4096, RevSize: 6000}}},
		{Client: "spec:chrome115", RTTms: 20, IdleMs: 10000, Seed: 12, Streams: []StreamSpec{
			{Init: "c", Uni: true, Size: 9000, Chunks: []int{700, 3000}, ReadBuf: 1000},
			{Init: "s", Uni: true, Size: 9000, Chunks: []int{9000}, ReadBuf: 333}}},
		{Client: "unil", V2: true, RTTms: 20, IdleMs: 10000, Seed: 13, Datagrams: 3, Streams: []StreamSpec{
			{Init: "c", Size: 2400, Chunks: []int{1200}, ReadBuf: 64, RevSize: 1},
			{Init: "s", Size: 1, Chunks: []int{1}, ReadBuf: 1, RevSize: 2400}}},
	}
}

func singleFaults(n int) []sim.Fault {
	var out []sim.Fault
	for _, dir := range []string{"c2s", "s2c"} {
		for nth := 0; nth < n; nth++ {
			for _, k := range []sim.Fault{{Kind: "drop"}, {Kind: "dup", Arg: 1}, {Kind: "delay", Arg: 30}, {Kind: "flip", Arg: 40, Arg2: 4}, {Kind: "trunc", Arg: 25}} {
				k.Dir, k.Nth = dir, nth
				out = append(out, k)
			}
		}
	}
	return out
}

// TestSimExhaustive runs every schedule of one fault (quick) and of two faults (thorough) among the first N
// datagrams per direction x {drop, dup, delay 1.5 RTT, flip, truncate} for each scripted scenario.
func TestSimExhaustive(t *testing.T) {
	u := vf.U("sim-exhaustive")
	if vf.ReplayMode() {
		t.Skip("exhaustive failures are recorded under unit sim-random and replay there")
	}
	si, sk := vf.Shard()
	n := 12
	fs := singleFaults(n)
	idx := 0
	run := func(c Case) {
		idx++
		if idx%sk != si {
			return
		}
		u.Case()
		v := vf.Guard("C01/sim-exhaustive", func() *vf.Verdict { return xfer.CheckCase(t, c, u, xfer.Options{}) })
		if v != nil {
			if vf.U("sim-random").Report(v, c) {
				t.Fatalf("VIOLATION %s: %s", v.Sig, v.Detail)
			}
		}
	}
	for _, base := range scripted() {
		for _, f := range fs {
			c := base
			c.Faults = []sim.Fault{f}
			run(c)
		}
		if vf.Thorough() {
			for i := 0; i < len(fs); i++ {
				for j := i + 1; j < len(fs); j++ {
					c := base
					c.Faults = []sim.Fault{fs[i], fs[j]}
					run(c)
				}
			}
		}
	}
	u.Extra("exhaustive", fmt.Sprintf("3 scripted scenarios x every 1-fault schedule (thorough: and every 2-fault schedule) among the first %d datagrams per direction x {drop,dup,delay,flip,trunc}", n))
}
