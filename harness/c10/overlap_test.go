package c10

// Unit "token-overlap": one QUICSpec value serves two connections that are alive at the same time (the second dial
// starts while the first still retransmits its Initial into a black hole). Each connection's synthesised token is
// its own: every Initial of a connection, retransmissions included, carries the token of that connection's first
// Initial (prefix and length as the spec says), the two connections' random parts differ, and the caller's memory
// behind ClientTokenPrefix (a prefix is often a sub-slice of a captured token) is left alone.

import (
	"bytes"
	"fmt"
	"testing"
	"time"

	"github.com/refraction-networking/uquic/verif/specgen"
	"github.com/refraction-networking/uquic/verif/vf"
	"pgregory.net/rapid"
)

type OverlapCase struct {
	Spec  specgen.Desc `json:"spec"`
	GapMs int          `json:"gap_ms"`
}

func genOverlapCase(t *rapid.T) OverlapCase {
	d := specgen.Desc{Base: rapid.SampledFrom(specgen.BaseNames()).Draw(t, "base"), TokenMode: "prefix"}
	d.TokenPrefix = rapid.SliceOfN(rapid.Byte(), 0, 8).Draw(t, "prefix")
	d.TokenLen = len(d.TokenPrefix) + rapid.SampledFrom([]int{8, 16, 62, 112}).Draw(t, "random-part")
	d.TokenSpare = rapid.SampledFrom([]int{0, 0, 4, 200}).Draw(t, "spare")
	return OverlapCase{Spec: d, GapMs: rapid.SampledFrom([]int{1, 20, 60, 150, 250}).Draw(t, "gap")}
}

func checkOverlapCase(c OverlapCase, u *vf.Unit) *vf.Verdict {
	spec, err := c.Spec.Build()
	if err != nil {
		return vf.Bad("C10/harness/spec-build", "%v", err)
	}
	pre := spec.InitialPacketSpec.ClientTokenPrefix
	obs := specgen.CaptureOverlap(curT, spec, time.Duration(c.GapMs)*time.Millisecond, 900*time.Millisecond)
	first := map[string][]byte{}
	var order []string
	retrans := 0
	for _, o := range obs {
		k := fmt.Sprintf("%x", o.DCID)
		if len(o.Token) != c.Spec.TokenLen || !bytes.HasPrefix(o.Token, c.Spec.TokenPrefix) {
			return vf.Bad("C10/token/prefix", "connection %s, Initial at %v: token %x, spec says prefix %x and length %d", k, o.T, o.Token, c.Spec.TokenPrefix, c.Spec.TokenLen)
		}
		f, ok := first[k]
		if !ok {
			first[k] = o.Token
			order = append(order, k)
			continue
		}
		retrans++
		if !bytes.Equal(f, o.Token) {
			return vf.Bad("C10/token/changes-within-connection", "connection %s: the Initial sent at %v carries token %x, its first Initial carried %x (a second connection was dialled with the same spec value %d ms after the first)", k, o.T, o.Token, f, c.GapMs)
		}
	}
	if len(order) < 2 {
		return vf.Bad("C10/harness/overlap", "expected Initials of two connections, saw %d (%d packets)", len(order), len(obs))
	}
	if bytes.Equal(first[order[0]], first[order[1]]) {
		return vf.Bad("C10/token/not-fresh", "two connections dialled with one spec value carry the same synthesised token %x", first[order[0]])
	}
	if c.Spec.TokenSpare > 0 {
		back := pre[:cap(pre)]
		for i := len(pre); i < len(back); i++ {
			if back[i] != 0xA5 {
				return vf.Bad("C10/token/writes-behind-prefix", "the caller's memory behind ClientTokenPrefix (byte %d of its backing array) was overwritten: %x", i, back[:min(len(back), 40)])
			}
		}
		u.Class("prefix-with-spare-capacity")
	}
	if retrans > 0 {
		u.Class("retransmission-after-second-dial")
	}
	u.Class("base:" + c.Spec.Base)
	u.NonTrivial("overlap", c.Spec.Base, c.Spec.TokenLen, len(c.Spec.TokenPrefix), c.Spec.TokenSpare, c.GapMs)
	return nil
}

func TestTokenOverlap(t *testing.T) {
	curT = t
	vf.ReplayRepeat = 5
	vf.RunRapid(t, "token-overlap", genOverlapCase, checkOverlapCase)
}
