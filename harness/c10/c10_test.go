// C10: the Initial flight's headers, numbering, token and sizes are as the spec says.
//
// Engine: the client dials a generated spec into a black hole (several dials per configuration) and against
// the in-tree server; an observer that removes Initial protection with independently derived keys (refcrypto)
// and reads frames with an independent reader (refwire) compares every Initial packet of the first flight
// with the values of the spec.
package c10

import (
	"bytes"
	"fmt"
	"github.com/refraction-networking/uquic/verif/refwire"
	"sort"
	"strings"
	"testing"
	"time"

	"pgregory.net/rapid"

	quic "github.com/refraction-networking/uquic"
	"github.com/refraction-networking/uquic/verif/refcrypto"
	"github.com/refraction-networking/uquic/verif/sim"
	"github.com/refraction-networking/uquic/verif/specgen"
	"github.com/refraction-networking/uquic/verif/vf"
)

func TestMain(m *testing.M) { vf.Main(m) }

type Case struct {
	Spec     specgen.Desc `json:"spec"`
	Dials    int          `json:"dials"`
	Live     bool         `json:"live"` // additionally dial the in-tree server
	InitSize int          `json:"initial_packet_size,omitempty"`
	// LiveMode (live dial only): "" | "retry" (the server validates the address with a Retry first) | "vn" (the
	// server only speaks QUIC v2: Version Negotiation, the dial continues on a re-created connection)
	LiveMode string `json:"live_mode,omitempty"`
}

var (
	curT  *testing.T
	chlen func(specgen.Desc) (int, int)
)

func genCase(t *rapid.T) Case {
	c := Case{Dials: 3, Live: rapid.IntRange(0, 3).Draw(t, "live") == 0}
	c.Spec = specgen.Gen(t, specgen.Options{Bases: specgen.BaseNames(), CHLen: chlen, SuppressAny: true, BigPN: true, ShortDestCID: true, OwnGenerator: true})
	c.InitSize = rapid.SampledFrom([]int{0, 0, 1200, 1252, 1280}).Draw(t, "initsize")
	if c.Live {
		c.LiveMode = rapid.SampledFrom([]string{"", "", "retry", "vn", "vn"}).Draw(t, "livemode")
	}
	return c
}

func initials(f specgen.Flight, burstOnly bool) (ps []*sim.Packet, sizes []int, dg []specgen.Datagram) {
	for i, d := range f.Datagrams {
		if burstOnly && i >= f.FirstBurst {
			break
		}
		for _, p := range d.Packets {
			if p.Kind == "initial" {
				ps = append(ps, p)
				sizes = append(sizes, d.Len)
				dg = append(dg, d)
			}
		}
	}
	return
}

func rfFor(b *specgen.Builder, idx int) *specgen.RF {
	switch b.Kind {
	case "random":
		return b.Random
	case "multi":
		if len(b.Multi) == 0 {
			return nil
		}
		if idx >= len(b.Multi) {
			idx = len(b.Multi) - 1
		}
		return &b.Multi[idx]
	}
	return nil
}

func checkCase(c Case, u *vf.Unit) *vf.Verdict {
	u.Journal(c)
	spec, err := c.Spec.Build()
	if err != nil {
		return vf.Bad("C10/harness/spec-build", "%v", err)
	}
	conf := func() *quic.Config {
		return &quic.Config{DisablePathMTUDiscovery: true, HandshakeIdleTimeout: 10 * time.Second, MaxIdleTimeout: 20 * time.Second, InitialPacketSize: uint16(c.InitSize)}
	}
	ips := spec.InitialPacketSpec
	specgen.OwnGenLen = c.Spec.OwnGen
	defer func() { specgen.OwnGenLen = 0 }()
	if c.Spec.OwnGen > 0 {
		u.Class("transport-with-own-connection-id-generator")
	}
	shortDCID := ips.DestConnIDLength >= 1 && ips.DestConnIDLength <= 7
	if shortDCID {
		u.Class("dest-cid-length-1..7")
	}
	var tokens [][]byte
	knobs := 0
	multi := false
	for dial := 0; dial < c.Dials; dial++ {
		f := specgen.CaptureBlackhole(curT, spec, conf(), 150*time.Millisecond, true)
		if v := checkFlight(c, spec, f, dial, &tokens, u, false); v != nil {
			return v
		}
		if f.FirstBurst > 1 {
			multi = true
		}
	}
	// token freshness across dials
	if (c.Spec.TokenMode == "len" && c.Spec.TokenLen >= 8) || (c.Spec.TokenMode == "prefix" && c.Spec.TokenLen-len(c.Spec.TokenPrefix) >= 8) {
		for i := 1; i < len(tokens); i++ {
			if bytes.Equal(tokens[i], tokens[0]) {
				return vf.Bad("C10/token/not-fresh", "synthesised token identical on dial 1 and dial %d: %x", i+1, tokens[0])
			}
		}
	}
	decodable := true
	{
		pnl := 2
		if n := len(ips.InitPacketNumberLengths); n > 0 {
			pnl = int(ips.InitPacketNumberLengths[0])
		} else if ips.InitPacketNumberLength != 0 {
			pnl = int(ips.InitPacketNumberLength)
		}
		decodable = specgen.Decodable(ips.InitPacketNumber, pnl)
	}
	if !decodable {
		u.Class("first-pn-undecodable-by-design")
	}
	if c.Live && decodable && !shortDCID { // (a server drops a first Initial whose destination connection ID is shorter than 8 bytes)
		var f specgen.Flight
		if c.LiveMode == "vn" {
			f = specgen.CaptureLiveVN(curT, spec, conf(), nil)
		} else {
			f = specgen.CaptureLive(curT, spec, conf(), nil, c.LiveMode == "retry")
		}
		if f.DialErr != nil || !f.Handshake {
			return vf.Bad("C10/live/server-rejects", "the in-tree server did not complete the handshake with this flight: dial error %v, accepted %v", f.DialErr, f.Handshake)
		}
		if v := checkFlight(c, spec, f, 99, &tokens, u, true); v != nil {
			return v
		}
		if v := checkNumbering(c, spec, f, u); v != nil {
			return v
		}
		u.Class("live")
		if c.LiveMode != "" {
			u.Class("live:" + c.LiveMode)
		}
	}
	d := c.Spec
	for _, b := range []bool{d.SrcCID != nil, d.DestCID != nil, d.InitPN != nil, d.PNLen != nil || len(d.PNLens) > 0, d.TokenMode != "", d.Builder != nil, len(d.Plans) > 0, d.UDPMin != nil, d.ExtraCH > 0} {
		if b {
			knobs++
		}
	}
	u.Class("base:" + d.Base)
	if d.Builder != nil {
		u.Class("builder:" + d.Builder.Kind)
	}
	if knobs >= 3 || multi {
		u.NonTrivial(fmt.Sprintf("%+v", d), c.InitSize)
		if u.WantSample() {
			u.Sample(c)
		}
	}
	_ = ips
	return nil
}

func checkFlight(c Case, spec *quic.QUICSpec, f specgen.Flight, dial int, tokens *[][]byte, u *vf.Unit, live bool) *vf.Verdict {
	ips := spec.InitialPacketSpec
	d := c.Spec
	ps, sizes, dgs := initials(f, true)
	where := fmt.Sprintf("dial %d", dial+1)
	if live {
		where = "live dial"
	}
	if len(ps) == 0 {
		if f.DialErr != nil && len(f.Datagrams) == 0 && !strings.Contains(f.DialErr.Error(), "deadline") {
			u.Class("rejected-before-send")
			return nil // configuration rejected with an error before anything was sent: allowed
		}
		return vf.Bad("C10/flight/empty", "%s: no Initial packet was sent (dial error: %v, %d datagrams)", where, f.DialErr, len(f.Datagrams))
	}
	// every datagram of the flight must open with the standard Initial keys and parse
	for i, dg := range f.Datagrams {
		if !live && i >= f.FirstBurst {
			break
		}
		for _, p := range dg.Packets {
			if p.Kind == "undecryptable" || p.Kind == "garbage" || (p.Err != "" && p.Kind != "dgram-padding") {
				return vf.Bad("C10/wire/not-well-formed", "%s: datagram %d (%d bytes): %s packet: %s", where, i, dg.Len, p.Kind, p.Err)
			}
		}
	}
	if !f.CHComplete && !live && f.FirstBurst < 10 { // (10 datagrams = the initial congestion window: the burst may stop there)
		return vf.Bad("C10/flight/clienthello-incomplete", "%s: the first flight's CRYPTO frames do not reassemble into one complete ClientHello (contiguous %d bytes, conflict %v)", where, len(f.CHData), f.Conflict)
	}
	initSize := c.InitSize
	if initSize == 0 {
		initSize = 1280
	}
	firstPN := ips.InitPacketNumber
	if firstPN > 1<<62-1 {
		firstPN = 0
	}
	udpMin := spec.UDPDatagramMinSize
	if udpMin == 0 {
		udpMin = quic.DefaultUDPDatagramMinSize
	}
	var cryptoSoFar uint64
	for i, p := range ps {
		// connection IDs
		if len(p.SCID) != ips.SrcConnIDLength {
			return vf.Bad("C10/header/scid-length", "%s packet %d: source connection ID length %d, spec says %d", where, i, len(p.SCID), ips.SrcConnIDLength)
		}
		if ips.DestConnIDLength > 0 && len(p.DCID) != ips.DestConnIDLength {
			return vf.Bad("C10/header/dcid-length", "%s packet %d: destination connection ID length %d, spec says %d", where, i, len(p.DCID), ips.DestConnIDLength)
		}
		if ips.DestConnIDLength == 0 && (len(p.DCID) < 8 || len(p.DCID) > 20) {
			return vf.Bad("C10/header/dcid-length", "%s packet %d: destination connection ID length %d outside 8..20", where, i, len(p.DCID))
		}
		// packet numbers
		if p.PN != firstPN+uint64(i) {
			return vf.Bad("C10/header/packet-number", "%s packet %d: packet number %d, spec says first %d + %d", where, i, p.PN, firstPN, i)
		}
		wantLen := 0
		if n := len(ips.InitPacketNumberLengths); n > 0 {
			wantLen = int(ips.InitPacketNumberLengths[min(i, n-1)])
		} else if ips.InitPacketNumberLength != 0 {
			wantLen = int(ips.InitPacketNumberLength)
		}
		if wantLen != 0 && p.PNLen != wantLen {
			return vf.Bad("C10/header/packet-number-length", "%s packet %d (pn %d): encoded in %d bytes, spec says %d", where, i, p.PN, p.PNLen, wantLen)
		}
		if wantLen == 0 && p.PNLen < refcrypto.EncodePacketNumberLen(p.PN, -1) && p.PN < 1<<30 {
			return vf.Bad("C10/header/packet-number-length", "%s packet %d (pn %d): default encoding uses %d bytes, too short to be decoded", where, i, p.PN, p.PNLen)
		}
		// token
		switch d.TokenMode {
		case "none":
			if len(p.Token) != 0 {
				return vf.Bad("C10/token/unexpected", "%s packet %d: token of %d bytes although the spec asks for none", where, i, len(p.Token))
			}
		case "len":
			if len(p.Token) != d.TokenLen {
				return vf.Bad("C10/token/length", "%s packet %d: token length %d, spec says %d", where, i, len(p.Token), d.TokenLen)
			}
		case "prefix":
			want := max(d.TokenLen, len(d.TokenPrefix))
			if len(p.Token) != want || !bytes.HasPrefix(p.Token, d.TokenPrefix) {
				return vf.Bad("C10/token/prefix", "%s packet %d: token %x, spec says prefix %x and length %d", where, i, p.Token, d.TokenPrefix, want)
			}
		case "store":
			if !bytes.Equal(p.Token, d.TokenPrefix) {
				return vf.Bad("C10/token/explicit", "%s packet %d: token %x, the spec's TokenStore returns %x", where, i, p.Token, d.TokenPrefix)
			}
		}
		if i == 0 && !live {
			*tokens = append(*tokens, append([]byte(nil), p.Token...))
		}
		if i > 0 && !bytes.Equal(p.Token, ps[0].Token) {
			return vf.Bad("C10/token/changes-within-flight", "%s: packet %d carries a different token than packet 0", where, i)
		}
		// frames: only PADDING / PING / CRYPTO (+ACK) at Initial level
		st := specgen.Stats(p)
		if st.Other > 0 {
			return vf.Bad("C10/frames/not-initial-level", "%s packet %d: frames %v", where, i, p.Names)
		}
		// builder bounds
		plan := quic.InitialPacketPlan{}
		if n := len(ips.InitialPackets); n > 0 {
			plan = ips.InitialPackets[min(i, n-1)]
		}
		if d.Builder != nil {
			if rf := rfFor(d.Builder, i); rf != nil {
				if v := checkRandomFrames(where, i, *rf, st, plan.PacketSize > 0); v != nil {
					return v
				}
			}
			if d.Builder.Kind == "frames" && len(d.Builder.Frames) > 0 && i == 0 && len(ps) == 1 {
				if v := checkTiling(where, d.Builder.Frames, p); v != nil {
					return v
				}
			}
		}
		// per-datagram plan
		if plan.CryptoLength > 0 && st.Crypto > 0 {
			remaining := uint64(len(f.CHData)) - cryptoSoFar
			want := uint64(plan.CryptoLength)
			if remaining < want {
				want = remaining
			}
			if uint64(st.CryptoBytes) != want || st.LowestOff != cryptoSoFar {
				return vf.Bad("C10/plan/crypto-split", "%s packet %d: carries CRYPTO [%d,%d) (%d bytes), the plan says %d bytes starting at %d", where, i, st.LowestOff, st.HighestEnd, st.CryptoBytes, want, cryptoSoFar)
			}
		}
		cryptoSoFar += uint64(st.CryptoBytes)
		if plan.PacketSize > 0 {
			if p.Len != plan.PacketSize {
				return vf.Bad("C10/plan/packet-size", "%s packet %d: Initial packet is %d bytes, the plan says exactly %d", where, i, p.Len, plan.PacketSize)
			}
		} else if sizes[i] < udpMin {
			return vf.Bad("C10/size/below-udp-minimum", "%s packet %d: datagram of %d bytes, UDPDatagramMinSize is %d", where, i, sizes[i], udpMin)
		}
		// upper bound: the connection's maximum packet size, unless the spec itself asks for more
		limit := initSize
		if plan.PacketSize > limit {
			limit = plan.PacketSize
		}
		if plan.PacketSize == 0 && udpMin > limit {
			limit = udpMin
		}
		if sizes[i] > limit && !u.KnownHit("C10/size/overshoot-initial-packet-size") {
			return vf.Bad("C10/size/overshoot-initial-packet-size", "%s packet %d: datagram of %d bytes exceeds the connection's maximum packet size %d (spec asks for PacketSize %d, UDPDatagramMinSize %d)", where, i, sizes[i], initSize, plan.PacketSize, udpMin)
		}
		_ = dgs
	}
	return nil
}

// checkNumbering judges every Initial packet the client sent during a live dial, retransmissions and the packets
// after a Retry or a Version Negotiation included. The encoding length of packet number InitPacketNumber+k is entry
// min(k, last) of InitPacketNumberLengths ("Entry [0] applies to PN=InitPacketNumber, [1] to the next Initial packet,
// etc. If the packet index exceeds the slice length, the last entry repeats", u_initial_packet_spec.go), or the single
// InitPacketNumberLength; the connection re-created after Version Negotiation continues the numbering, so the index
// is the distance from the spec's first number there too. Within one version the numbers go up by one; the first
// packet of the dial carries the spec's first number. (On Version Negotiation the old connection also sends an Initial
// packet with CONNECTION_CLOSE in the old version, whose number the new connection's first packet repeats, and the
// closed-connection handler repeats that packet verbatim: CONNECTION_CLOSE packets are left out and the numbers of the
// two versions are judged separately.)
func checkNumbering(c Case, spec *quic.QUICSpec, f specgen.Flight, u *vf.Unit) *vf.Verdict {
	ips := spec.InitialPacketSpec
	firstPN := ips.InitPacketNumber
	if firstPN > 1<<62-1 {
		firstPN = 0
	}
	all, _, _ := initials(f, false)
	var ps []*sim.Packet
	for _, p := range all {
		closing := false
		for _, n := range p.Names {
			if n == refwire.NameConnectionClose {
				closing = true
			}
		}
		// the CONNECTION_CLOSE packet of the connection given up on Version Negotiation (and its verbatim
		// retransmissions by the closed-connection handler) is not part of the flight the spec describes
		if !closing {
			ps = append(ps, p)
		}
	}
	last := map[uint32]uint64{}
	retried := false
	for i, p := range ps {
		v := uint32(p.Version)
		if i == 0 && p.PN != firstPN {
			return vf.Bad("C10/header/packet-number", "live dial (%s): the first Initial packet of the dial has packet number %d, spec says %d", c.LiveMode, p.PN, firstPN)
		}
		if prev, ok := last[v]; ok && p.PN != prev+1 {
			return vf.Bad("C10/header/packet-number", "live dial (%s): Initial packet %d of the dial (version %#x) has packet number %d, the previous one of this version had %d", c.LiveMode, i, p.Version, p.PN, prev)
		}
		if _, ok := last[v]; !ok && i > 0 && p.PN < firstPN+1 {
			return vf.Bad("C10/header/packet-number", "live dial (%s): the first Initial packet in version %#x has packet number %d: the numbering did not continue from %d", c.LiveMode, p.Version, p.PN, firstPN)
		}
		last[v] = p.PN
		if i > 0 && !bytes.Equal(p.Token, ps[0].Token) {
			retried = true
		}
		wantLen := 0
		if n := len(ips.InitPacketNumberLengths); n > 0 && p.PN >= firstPN {
			wantLen = int(ips.InitPacketNumberLengths[min(p.PN-firstPN, uint64(n-1))])
		} else if n == 0 && ips.InitPacketNumberLength != 0 {
			wantLen = int(ips.InitPacketNumberLength)
		}
		if wantLen != 0 && p.PNLen != wantLen {
			return vf.Bad("C10/header/packet-number-length", "live dial (%s): Initial packet %d of the dial (pn %d, version %#x): packet number encoded in %d bytes, spec says %d (lengths %v from packet number %d)", c.LiveMode, i, p.PN, p.Version, p.PNLen, wantLen, ips.InitPacketNumberLengths, firstPN)
		}
	}
	if len(last) > 1 {
		u.Class("initials-in-two-versions")
	}
	if retried {
		u.Class("initials-after-retry")
	}
	if len(ps) > f.FirstBurst {
		u.Class("initials-beyond-first-burst")
	}
	return nil
}

// checkRandomFrames: counts within the builder's [Min, Max) bounds after the documented clamping
// (at least one CRYPTO frame, never more frames than bytes; Min==Max pins the count).
func checkRandomFrames(where string, i int, rf specgen.RF, st specgen.FrameStats, exactSize bool) *vf.Verdict {
	hi := func(mn, mx uint8) int {
		if mx <= mn {
			return int(mn)
		}
		return int(mx) - 1
	}
	if st.Ping < int(rf.MinPING) || st.Ping > hi(rf.MinPING, rf.MaxPING) {
		return vf.Bad("C10/builder/ping-count", "%s packet %d: %d PING frames, builder bounds [%d,%d)", where, i, st.Ping, rf.MinPING, rf.MaxPING)
	}
	lo := max(int(rf.MinCRYPTO), 1)
	h := max(hi(rf.MinCRYPTO, rf.MaxCRYPTO), 1)
	lo, h = min(lo, st.CryptoBytes), min(h, st.CryptoBytes)
	if st.Crypto < lo || st.Crypto > h {
		return vf.Bad("C10/builder/crypto-count", "%s packet %d: %d CRYPTO frames over %d bytes, builder bounds [%d,%d)", where, i, st.Crypto, st.CryptoBytes, rf.MinCRYPTO, rf.MaxCRYPTO)
	}
	if rf.Length > 0 && !exactSize {
		// total frame bytes = Length whenever CRYPTO+PING fit below it
		nonPad := st.FrameBytes
		// padding bytes are part of FrameBytes; recompute without them is not needed: compare totals
		if st.PaddingRuns > 0 && st.FrameBytes != int(rf.Length) {
			return vf.Bad("C10/builder/total-length", "%s packet %d: frames total %d bytes with PADDING present, builder Length is %d", where, i, st.FrameBytes, rf.Length)
		}
		if st.PaddingRuns == 0 && nonPad < int(rf.Length) {
			return vf.Bad("C10/builder/total-length", "%s packet %d: frames total %d bytes, below builder Length %d, but no PADDING was added", where, i, st.FrameBytes, rf.Length)
		}
		if st.PaddingRuns > max(hi(rf.MinPADDING, rf.MaxPADDING), 1) {
			return vf.Bad("C10/builder/padding-count", "%s packet %d: %d separate PADDING runs, builder allows at most %d PADDING frames", where, i, st.PaddingRuns, hi(rf.MinPADDING, rf.MaxPADDING))
		}
	}
	return nil
}

// checkTiling: a QUICFrames layout is reproduced frame by frame.
func checkTiling(where string, layout []specgen.FrameItem, p *sim.Packet) *vf.Verdict {
	var got []string
	for _, f := range p.Frames {
		switch f.Name {
		case "CRYPTO":
			got = append(got, fmt.Sprintf("C%d", f.Offset))
		case "PING":
			got = append(got, "P")
		case "PADDING":
			got = append(got, "Z")
		}
	}
	var want []string
	for _, it := range layout {
		switch it.Kind {
		case "crypto":
			want = append(want, fmt.Sprintf("C%d", it.Offset))
		case "ping":
			want = append(want, "P")
		case "padding":
			if n := len(want); n == 0 || want[n-1] != "Z" {
				want = append(want, "Z")
			}
		}
	}
	// trailing padding may be added by the packet (UDP minimum is outside the packet, so none expected here)
	g, w := strings.Join(got, " "), strings.Join(want, " ")
	if g != w && strings.TrimSuffix(g, " Z") != w {
		return vf.Bad("C10/builder/layout", "%s: frame sequence on the wire [%s] differs from the QUICFrames layout [%s]", where, g, w)
	}
	// CRYPTO lengths
	var offs []int
	for _, it := range layout {
		if it.Kind == "crypto" {
			offs = append(offs, it.Offset)
		}
	}
	sort.Ints(offs)
	for _, f := range p.Frames {
		if f.Name != "CRYPTO" {
			continue
		}
		for _, it := range layout {
			if it.Kind == "crypto" && uint64(it.Offset) == f.Offset && it.Length > 0 && len(f.Data) != it.Length {
				return vf.Bad("C10/builder/layout", "%s: CRYPTO frame at offset %d has %d bytes, layout says %d", where, f.Offset, len(f.Data), it.Length)
			}
		}
	}
	return nil
}

func TestFlightHeaders(t *testing.T) {
	curT = t
	chlen = specgen.CHLen(t)
	vf.ReplayRepeat = 5
	vf.RunRapid(t, "flight-headers", genCase, checkCase)
}

// TestBuiltins checks every built-in fingerprint unmodified, many dials each.
func TestBuiltins(t *testing.T) {
	curT = t
	u := vf.U("builtins")
	if vf.ReplayMode() {
		t.Skip()
	}
	n := 20
	if vf.Thorough() {
		n = 300
	}
	for _, b := range specgen.BaseNames() {
		c := Case{Spec: specgen.Desc{Base: b}, Dials: n, Live: true}
		u.Cases(n)
		if v := vf.Guard("C10/builtins", func() *vf.Verdict { return checkCase(c, u) }); v != nil {
			if vf.U("flight-headers").Report(v, c) {
				t.Fatalf("VIOLATION %s: %s", v.Sig, v.Detail)
			}
		}
		u.NonTrivial(b)
	}
}
