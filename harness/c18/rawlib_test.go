package c18

// A scripted raw HTTP/3 peer built directly on the public quic API and the qpack module. It shares no code with
// /repo/http3: frames are serialised and parsed here (RFC 9114 section 7), field sections with qpack (static
// table / literals only, as RFC 9204 permits without dynamic table).

import (
	"bytes"
	"context"
	"errors"
	"fmt"
	"io"
	"net"
	"strings"
	"sync"
	"sync/atomic"
	"time"

	"github.com/quic-go/qpack"
	"pgregory.net/rapid"

	quic "github.com/refraction-networking/uquic"
	"github.com/refraction-networking/uquic/verif/sim"
	"github.com/refraction-networking/uquic/verif/vf"
)

// RFC 9114 error codes (section 8.1), written out here so that the oracle does not import them from the code under test.
const (
	h3NoError             = 0x100
	h3GeneralProtocol     = 0x101
	h3InternalError       = 0x102
	h3StreamCreationError = 0x103
	h3ClosedCritical      = 0x104
	h3FrameUnexpected     = 0x105
	h3FrameError          = 0x106
	h3ExcessiveLoad       = 0x107
	h3IDError             = 0x108
	h3SettingsError       = 0x109
	h3MissingSettings     = 0x10a
	h3RequestRejected     = 0x10b
	h3RequestCancelled    = 0x10c
	h3RequestIncomplete   = 0x10d
	h3MessageError        = 0x10e
)

var h3Names = map[uint64]string{
	h3NoError: "H3_NO_ERROR", h3GeneralProtocol: "H3_GENERAL_PROTOCOL_ERROR", h3InternalError: "H3_INTERNAL_ERROR",
	h3StreamCreationError: "H3_STREAM_CREATION_ERROR", h3ClosedCritical: "H3_CLOSED_CRITICAL_STREAM", h3FrameUnexpected: "H3_FRAME_UNEXPECTED",
	h3FrameError: "H3_FRAME_ERROR", h3ExcessiveLoad: "H3_EXCESSIVE_LOAD", h3IDError: "H3_ID_ERROR", h3SettingsError: "H3_SETTINGS_ERROR",
	h3MissingSettings: "H3_MISSING_SETTINGS", h3RequestRejected: "H3_REQUEST_REJECTED", h3RequestCancelled: "H3_REQUEST_CANCELLED",
	h3RequestIncomplete: "H3_REQUEST_INCOMPLETE", h3MessageError: "H3_MESSAGE_ERROR",
}

func h3Name(c uint64) string {
	if n, ok := h3Names[c]; ok {
		return n
	}
	return fmt.Sprintf("%#x", c)
}

// frame types (RFC 9114 section 7.2 and 11.2.1)
const (
	ftData        = 0x0
	ftHeaders     = 0x1
	ftCancelPush  = 0x3
	ftSettings    = 0x4
	ftPushPromise = 0x5
	ftGoaway      = 0x7
	ftMaxPushID   = 0xd
)

// unidirectional stream types (RFC 9114 section 6.2, RFC 9204 section 4.2)
const (
	stControl = 0x0
	stPush    = 0x1
	stQEnc    = 0x2
	stQDec    = 0x3
)

// varintMinLen is the length of the shortest encoding of v (RFC 9000 section 16).
func varintMinLen(v uint64) int {
	switch {
	case v < 1<<6:
		return 1
	case v < 1<<14:
		return 2
	case v < 1<<30:
		return 4
	}
	return 8
}

// Generated varint encodings. RFC 9000 section 16: "Values do not need to be encoded on the minimum number of bytes
// necessary, with the sole exception of the Frame Type field" (of QUIC frames, section 12.4). RFC 9114 adds no such
// rule for any of its own varints (frame type, frame length, stream type, setting identifiers and values, stream /
// push IDs in GOAWAY, CANCEL_PUSH, MAX_PUSH_ID, PUSH_PROMISE), so a conforming peer may use a longer form anywhere.
//
// The raw peer therefore draws the width of EVERY varint it writes: the case carries (VSeed, VDens); the width of a
// varint is a pure function of (VSeed, value, position in the buffer being built), so it does not depend on the
// order in which goroutines serialise their frames and a replay re-creates the same bytes. VDens 0 (old replay
// files, shrunk cases) = every varint minimal; 1 = about a quarter longer than necessary; 2 = half; 3 = all.
var varintEnc atomic.Uint64 // VSeed<<2 | VDens of the running case (cases of one process run one after the other)

func setVarintEnc(seed uint64, dens int) {
	if dens < 0 || dens > 3 {
		dens = 0
	}
	varintEnc.Store(seed<<2 | uint64(dens))
}

// varintWidth returns the generated width (1, 2, 4, 8) for value v written at offset pos.
func varintWidth(v uint64, pos int) int {
	m := varintMinLen(v)
	e := varintEnc.Load()
	dens := int(e & 3)
	if dens == 0 || m == 8 {
		return m
	}
	h := (e>>2)*0x9e3779b97f4a7c15 ^ (v+1)*0xbf58476d1ce4e5b9 ^ uint64(pos+1)*0x94d049bb133111eb
	h ^= h >> 29
	h *= 0xd6e8feb86659fd93
	h ^= h >> 32
	if dens < 3 && int(h&3) >= []int{0, 1, 2}[dens] {
		return m
	}
	// any longer legal form, the largest one as likely as the next larger one
	var longer []int
	for w := 2 * m; w <= 8; w *= 2 {
		longer = append(longer, w)
	}
	return longer[int((h>>8)%uint64(len(longer)))]
}

func appendVarint(b []byte, v uint64) []byte {
	return appendVarintN(b, v, varintWidth(v, len(b)))
}

// appendVarintMin always uses the shortest encoding.
func appendVarintMin(b []byte, v uint64) []byte {
	return appendVarintN(b, v, varintMinLen(v))
}

// appendVarintN encodes v in exactly n bytes (n in 1,2,4,8; non-minimal encodings are legal in QUIC).
func appendVarintN(b []byte, v uint64, n int) []byte {
	switch n {
	case 1:
		return append(b, byte(v))
	case 2:
		return append(b, byte(v>>8)|0x40, byte(v))
	case 4:
		return append(b, byte(v>>24)|0x80, byte(v>>16), byte(v>>8), byte(v))
	}
	return append(b, byte(v>>56)|0xc0, byte(v>>48), byte(v>>40), byte(v>>32), byte(v>>24), byte(v>>16), byte(v>>8), byte(v))
}

func readVarint(r io.ByteReader) (uint64, error) {
	b0, err := r.ReadByte()
	if err != nil {
		return 0, err
	}
	n := 1 << (b0 >> 6)
	v := uint64(b0 & 0x3f)
	for i := 1; i < n; i++ {
		b, err := r.ReadByte()
		if err != nil {
			if err == io.EOF {
				err = io.ErrUnexpectedEOF
			}
			return 0, err
		}
		v = v<<8 | uint64(b)
	}
	return v, nil
}

func appendFrame(b []byte, typ uint64, payload []byte) []byte {
	b = appendVarint(b, typ)
	b = appendVarint(b, uint64(len(payload)))
	return append(b, payload...)
}

func encodeFields(fs [][2]string) []byte {
	var buf bytes.Buffer
	enc := qpack.NewEncoder(&buf)
	for _, f := range fs {
		enc.WriteField(qpack.HeaderField{Name: f[0], Value: f[1]})
	}
	enc.Close()
	return buf.Bytes()
}

func decodeFields(b []byte) ([][2]string, error) {
	next := qpack.NewDecoder().Decode(b)
	var out [][2]string
	for {
		hf, err := next()
		if err == io.EOF {
			return out, nil
		}
		if err != nil {
			return out, err
		}
		out = append(out, [2]string{hf.Name, hf.Value})
	}
}

func settingsPayload(kv ...uint64) []byte {
	var b []byte
	for _, v := range kv {
		b = appendVarint(b, v)
	}
	return b
}

// rawSettingsFrame is the SETTINGS frame a conforming raw peer opens its control stream with. When the case asks for
// generated varint encodings it also carries settings (a subset derived from the case's encoding seed), so that
// identifiers and values in longer-than-minimal forms reach the SETTINGS parser: SETTINGS_MAX_FIELD_SECTION_SIZE
// (0x6, at least 1 MiB: never a limit for the messages of this check), the QPACK settings 0x1 / 0x7 with their
// default 0 (RFC 9204 5), SETTINGS_ENABLE_CONNECT_PROTOCOL (0x8) = 1 (RFC 9220), SETTINGS_H3_DATAGRAM (0x33) = 0
// (RFC 9297), and a reserved identifier 0x1f*N+0x21 with an arbitrary value (RFC 9114 7.2.4.1: MUST be ignored).
// None of them changes what either side may send in any scenario. Density 0: the empty frame, as before.
func rawSettingsFrame() []byte {
	e := varintEnc.Load()
	if e&3 == 0 {
		return appendFrame(nil, ftSettings, nil)
	}
	h := (e>>2)*0x9e3779b97f4a7c15 + 0x632be59bd9b4e019
	h ^= h >> 31
	h *= 0xd6e8feb86659fd93
	h ^= h >> 29
	var kv []uint64
	if h&1 != 0 {
		kv = append(kv, 0x6, 1<<20+(h>>8)%(1<<32))
	}
	if h&2 != 0 {
		kv = append(kv, 0x1, 0)
	}
	if h&4 != 0 {
		kv = append(kv, 0x7, 0)
	}
	if h&8 != 0 {
		kv = append(kv, 0x8, 1)
	}
	if h&16 != 0 {
		kv = append(kv, 0x33, 0)
	}
	if h&32 != 0 {
		kv = append(kv, 0x21+0x1f*((h>>16)%(1<<40)), (h>>20)&(1<<62-1))
	}
	return appendFrame(nil, ftSettings, settingsPayload(kv...))
}

// rawFrame is one frame read from a stream.
type rawFrame struct {
	Type    uint64
	Len     uint64
	Payload []byte      // nil for DATA frames of which only the length and a checksum are kept
	Fields  [][2]string // decoded field section of a HEADERS frame
}

// byteReader adapts a stream for readVarint.
type byteReader struct {
	r   io.Reader
	one [1]byte
}

func (b *byteReader) ReadByte() (byte, error) {
	_, err := io.ReadFull(b.r, b.one[:])
	return b.one[0], err
}

// message is what a raw peer read from a request or response stream.
type message struct {
	Frames    []rawFrame
	Headers   [][][2]string // every HEADERS frame in order (informational responses, final header, trailers)
	Body      []byte
	Err       error // nil: the stream ended cleanly at a frame boundary
	Truncated bool  // the stream ended cleanly inside a frame
}

func (m *message) field(section int, name string) (string, bool) {
	if section >= len(m.Headers) {
		return "", false
	}
	for _, f := range m.Headers[section] {
		if f[0] == name {
			return f[1], true
		}
	}
	return "", false
}

// readMessage parses frames until the stream ends. limit bounds the body bytes kept.
func readMessage(r io.Reader, onBody func(total int) bool) *message {
	return readMessageF(r, onBody, nil)
}

// readMessageF additionally reports every complete frame as soon as it was read (control streams never end).
func readMessageF(r io.Reader, onBody func(total int) bool, onFrame func(rawFrame)) *message {
	m := &message{}
	br := &byteReader{r: r}
	for {
		t, err := readVarint(br)
		if err != nil {
			if err == io.EOF {
				return m
			}
			if err == io.ErrUnexpectedEOF {
				m.Truncated = true
				return m
			}
			m.Err = err
			return m
		}
		l, err := readVarint(br)
		if err != nil {
			if err == io.EOF || err == io.ErrUnexpectedEOF {
				m.Truncated = true
				return m
			}
			m.Err = err
			return m
		}
		if l > 64<<20 {
			m.Err = fmt.Errorf("raw peer: frame type %#x with absurd length %d", t, l)
			return m
		}
		f := rawFrame{Type: t, Len: l}
		// read the payload in pieces so that a scripted abort can happen inside a DATA frame
		payload := make([]byte, 0, min(int(l), 64<<10))
		buf := make([]byte, 8192)
		for uint64(len(payload)) < l {
			n, err := r.Read(buf[:min(uint64(len(buf)), l-uint64(len(payload)))])
			payload = append(payload, buf[:n]...)
			if t == ftData && n > 0 && onBody != nil {
				if !onBody(len(m.Body) + len(payload)) {
					m.Body = append(m.Body, payload...)
					m.Err = errStopReading
					return m
				}
			}
			if err != nil && uint64(len(payload)) < l {
				if t == ftData {
					m.Body = append(m.Body, payload...)
				}
				if err == io.EOF {
					m.Truncated = true
				} else {
					m.Err = err
				}
				return m
			}
		}
		switch t {
		case ftData:
			m.Body = append(m.Body, payload...)
		case ftHeaders:
			f.Payload = payload
			fs, err := decodeFields(payload)
			if err != nil {
				m.Err = fmt.Errorf("raw peer: cannot decode the field section: %w", err)
				return m
			}
			f.Fields = fs
			m.Headers = append(m.Headers, fs)
		default:
			f.Payload = payload
		}
		m.Frames = append(m.Frames, f)
		if onFrame != nil {
			onFrame(f)
		}
	}
}

var errStopReading = errors.New("raw peer stopped reading on purpose")

// boundGap returns the pause between write segments, or 0 when pausing would stretch the transfer beyond about
// two seconds of virtual time (tiny segments of a long stream).
func boundGap(total int, cuts []int, gapMs int) time.Duration {
	if gapMs <= 0 || len(cuts) == 0 {
		return 0
	}
	sum := 0
	for _, c := range cuts {
		sum += max(c, 1)
	}
	segments := total * len(cuts) / sum
	if segments*gapMs > 2000 {
		return 0
	}
	return time.Duration(gapMs) * time.Millisecond
}

// writeCut writes data in segments of the given sizes (cycled); a gap > 0 lets virtual time pass between segments
// so that they travel in different packets.
func writeCut(w io.Writer, data []byte, cuts []int, gap time.Duration) error {
	off, i := 0, 0
	for off < len(data) {
		n := len(data) - off
		if len(cuts) > 0 {
			if c := cuts[i%len(cuts)]; c > 0 && c < n {
				n = c
			}
			i++
		}
		if _, err := w.Write(data[off : off+n]); err != nil {
			return err
		}
		off += n
		if gap > 0 && off < len(data) {
			time.Sleep(gap)
		}
	}
	return nil
}

// streamCode extracts the application error code of a stream reset / stop seen by the raw peer.
func streamCode(err error) (uint64, bool) {
	var se *quic.StreamError
	if errors.As(err, &se) && se.Remote {
		return uint64(se.ErrorCode), true
	}
	return 0, false
}

// connCode extracts the application error code with which the peer closed the connection.
func connCode(err error) (uint64, bool) {
	var ae *quic.ApplicationError
	if errors.As(err, &ae) && ae.Remote {
		return uint64(ae.ErrorCode), true
	}
	return 0, false
}

// ---- extra unidirectional streams of a CONFORMING raw peer ----
//
// RFC 9204 4.2: each endpoint MAY open one QPACK encoder stream (type 0x02) and one QPACK decoder stream (0x03); every
// stack with a dynamic table (all browsers) opens both, in any order relative to the control stream and to its first
// request. RFC 9114 6.2.3: streams of unknown / reserved (0x1f*N+0x21) types may be opened at any time and MUST NOT be
// treated as an error. None of this may change the outcome of any exchange, so the dimension is orthogonal to every
// scenario: the case carries the plan, the raw client / raw server below execute it. Duplicates of the control, encoder
// or decoder stream are NOT generated here (they are the negative scenarios control2 / qenc2 / qdec2 of h3-raw-peer).
type UniOpen struct {
	T    uint64 `json:"t"`             // 0x2 QPACK encoder | 0x3 QPACK decoder | unknown / grease type
	When string `json:"when"`          // pre: before the control stream | post: right after SETTINGS | late: after the first request
	N    int    `json:"n,omitempty"`   // unknown types: payload bytes; encoder stream: number of "Set Dynamic Table Capacity 0" instructions (0x20)
	End  string `json:"end,omitempty"` // unknown types: fin | reset | open. QPACK streams are critical and stay open (RFC 9204 4.2).
	Ms   int    `json:"ms,omitempty"`  // late, raw client: virtual milliseconds after the handshake (the raw server opens them when the first request arrives)
}

var extraUni atomic.Pointer[[]UniOpen]

func setExtraUni(p []UniOpen) {
	if len(p) == 0 {
		extraUni.Store(nil)
		return
	}
	extraUni.Store(&p)
}

func extraUniPlan() []UniOpen {
	if p := extraUni.Load(); p != nil {
		return *p
	}
	return nil
}

// extraUniClass names the combination for the class counters.
func extraUniClass(p []UniOpen) string {
	var enc, dec, unk bool
	for _, o := range p {
		switch o.T {
		case stQEnc:
			enc = true
		case stQDec:
			dec = true
		default:
			unk = true
		}
	}
	s := "none"
	switch {
	case enc && dec:
		s = "qpack-both"
	case enc:
		s = "qpack-encoder"
	case dec:
		s = "qpack-decoder"
	}
	if unk {
		if s == "none" {
			return "unknown-only"
		}
		s += "+unknown"
	}
	return s
}

func describeExtraUni(p []UniOpen) string {
	if len(p) == 0 {
		return "no extra unidirectional streams"
	}
	var sb strings.Builder
	sb.WriteString("extra unidirectional streams of the raw peer:")
	for _, o := range p {
		fmt.Fprintf(&sb, " %#x@%s", o.T, o.When)
	}
	return sb.String()
}

// noteExtraUni adds the plan to the text of a verdict (the signature is unchanged).
func noteExtraUni(v *vf.Verdict, p []UniOpen) {
	if v != nil && len(p) > 0 {
		v.Detail += " [" + describeExtraUni(p) + " — valid per RFC 9204 4.2 / RFC 9114 6.2.3]"
	}
}

// genExtraUni draws the plan: in about half of the cases none; otherwise a QPACK encoder stream, a decoder stream, both
// (the browser behaviour), unknown / grease types or a mix, in a generated order, each at a generated moment.
func genExtraUni(t *rapid.T) []UniOpen {
	kind := rapid.SampledFrom([]string{"none", "none", "none", "none", "qenc", "qdec", "both", "both", "both", "both+unknown", "unknown"}).Draw(t, "xuni")
	var types []uint64
	grease := func() uint64 {
		return rapid.SampledFrom([]uint64{0x21, 0x21 + 0x1f, 0x21 + 0x1f*1000, 0x21 + 0x1f*148764065110560899, 0x4, 0x1f, 0x40, 0x3fff, 0x4000, 1<<62 - 1}).Draw(t, "xutype")
	}
	switch kind {
	case "none":
		return nil
	case "qenc":
		types = []uint64{stQEnc}
	case "qdec":
		types = []uint64{stQDec}
	case "both":
		types = []uint64{stQEnc, stQDec}
	case "both+unknown":
		types = []uint64{stQEnc, stQDec, grease()}
	case "unknown":
		types = []uint64{grease()}
		if rapid.Bool().Draw(t, "xutwo") {
			types = append(types, grease())
		}
	}
	if len(types) > 1 {
		types = rapid.Permutation(types).Draw(t, "xuorder")
	}
	var plan []UniOpen
	for _, ty := range types {
		o := UniOpen{T: ty, When: rapid.SampledFrom([]string{"pre", "post", "late"}).Draw(t, "xuwhen")}
		switch ty {
		case stQEnc:
			o.N = rapid.SampledFrom([]int{0, 0, 1, 3}).Draw(t, "xun")
		case stQDec:
		default:
			o.N = rapid.OneOf(rapid.Just(0), rapid.IntRange(1, 100)).Draw(t, "xun")
			o.End = rapid.SampledFrom([]string{"fin", "reset", "open"}).Draw(t, "xuend")
		}
		if o.When == "late" {
			o.Ms = rapid.SampledFrom([]int{1, 3, 10, 50, 150}).Draw(t, "xums")
		}
		plan = append(plan, o)
	}
	return plan
}

// openExtraUni opens the streams of the plan that belong to the given moment, in plan order.
func openExtraUni(open func() (*quic.SendStream, error), when string, only func(UniOpen) bool) {
	for _, o := range extraUniPlan() {
		if o.When != when || (only != nil && !only(o)) {
			continue
		}
		str, err := open()
		if err != nil {
			return // connection gone (scenario closed it): nothing to add
		}
		b := appendVarint(nil, o.T)
		switch o.T {
		case stQEnc:
			for i := 0; i < o.N; i++ {
				b = append(b, 0x20) // RFC 9204 4.3.1 Set Dynamic Table Capacity, capacity 0 (<= the advertised maximum 0)
			}
		case stQDec:
		default:
			b = append(b, pattern(uint64(o.T), 7, o.N)...)
		}
		if _, err := str.Write(b); err != nil {
			continue // an unknown stream may be refused with STOP_SENDING at any time
		}
		switch o.End {
		case "fin":
			str.Close()
		case "reset":
			str.CancelWrite(quic.StreamErrorCode(h3NoError))
		}
	}
}

// ---- raw client ----

type rawClient struct {
	tr   *quic.Transport
	conn *quic.Conn
	ctrl *quic.SendStream

	mu        sync.Mutex
	peerUni   []uint64   // types of the unidirectional streams the server opened
	peerCtrl  []rawFrame // frames on the server's control stream
	uniClosed sync.WaitGroup
}

func rawConf(idle time.Duration, window int) *quic.Config {
	c := quicConf(idle, window)
	c.MaxIncomingUniStreams = 100
	c.MaxIncomingStreams = 100
	return c
}

// dialRawClient connects to the in-tree server. withControl: open the control stream and send SETTINGS as a
// conforming client does.
func dialRawClient(ctx context.Context, w *sim.World, pc net.PacketConn, idle time.Duration, window int, withControl bool) (*rawClient, error) {
	c := &rawClient{tr: &quic.Transport{Conn: pc}}
	conn, err := c.tr.Dial(ctx, sim.ServerAddr, sim.ClientTLS(w.ClientKeys), rawConf(idle, window))
	if err != nil {
		c.tr.Close()
		return nil, err
	}
	c.conn = conn
	c.uniClosed.Add(1)
	go c.acceptUni()
	openExtraUni(conn.OpenUniStream, "pre", nil)
	if withControl {
		if err := c.openControl(rawSettingsFrame()); err != nil {
			return c, err
		}
	}
	openExtraUni(conn.OpenUniStream, "post", nil)
	// "late": the callers send their first request right after the dial; these streams appear Ms later
	for _, o := range extraUniPlan() {
		if o.When != "late" {
			continue
		}
		c.uniClosed.Add(1)
		go func() {
			defer c.uniClosed.Done()
			time.Sleep(time.Duration(o.Ms) * time.Millisecond)
			openExtraUni(conn.OpenUniStream, "late", func(x UniOpen) bool { return x == o })
		}()
	}
	return c, nil
}

func (c *rawClient) openControl(first []byte) error {
	str, err := c.conn.OpenUniStream()
	if err != nil {
		return err
	}
	c.ctrl = str
	_, err = str.Write(append(appendVarint(nil, stControl), first...))
	return err
}

func (c *rawClient) acceptUni() {
	defer c.uniClosed.Done()
	for {
		str, err := c.conn.AcceptUniStream(context.Background())
		if err != nil {
			return
		}
		c.uniClosed.Add(1)
		go func() {
			defer c.uniClosed.Done()
			t, err := readVarint(&byteReader{r: str})
			if err != nil {
				return
			}
			c.mu.Lock()
			c.peerUni = append(c.peerUni, t)
			c.mu.Unlock()
			if t == stControl {
				readMessageF(str, nil, func(f rawFrame) {
					c.mu.Lock()
					c.peerCtrl = append(c.peerCtrl, f)
					c.mu.Unlock()
				})
				return
			}
			io.Copy(io.Discard, str)
		}()
	}
}

// closeErr returns the error the connection ended with (nil while it is alive).
func (c *rawClient) closeErr() error { return context.Cause(c.conn.Context()) }

func (c *rawClient) close() {
	if c.conn != nil {
		c.conn.CloseWithError(h3NoError, "")
	}
	c.tr.Close()
	c.uniClosed.Wait()
}

// simpleRequest sends a well-formed request and reads the whole response.
func (c *rawClient) simpleRequest(ctx context.Context, method, path string, body []byte) (*message, error) {
	str, err := c.conn.OpenStreamSync(ctx)
	if err != nil {
		return nil, err
	}
	b := appendFrame(nil, ftHeaders, encodeFields([][2]string{{":method", method}, {":scheme", "https"}, {":authority", sim.ServerName}, {":path", path}}))
	if len(body) > 0 {
		b = appendFrame(b, ftData, body)
	}
	go func() {
		str.Write(b)
		str.Close()
	}()
	m := readMessage(str, nil)
	if m.Err != nil {
		str.CancelWrite(h3RequestCancelled)
	}
	return m, m.Err
}

// ---- raw server ----

type rawServer struct {
	tr   *quic.Transport
	ln   *quic.Listener
	wg   sync.WaitGroup
	ctx  context.Context
	stop context.CancelFunc

	mu    sync.Mutex
	conns []*rawServerConn
	// onConn is called for every accepted connection before anything is sent on it (nil: conforming behaviour:
	// control stream with SETTINGS).
	onConn func(sc *rawServerConn)
	// onStream handles a request stream; connIdx / strIdx count from 0.
	onStream func(sc *rawServerConn, str *quic.Stream, strIdx int)
}

type rawServerConn struct {
	idx      int
	conn     *quic.Conn
	ctrl     *quic.SendStream
	mu       sync.Mutex
	peerUni  []uint64
	peerCtrl []rawFrame
}

func newRawServer(w *sim.World, idle time.Duration, window int) (*rawServer, error) {
	s := &rawServer{tr: &quic.Transport{Conn: w.ServerConn}}
	s.ctx, s.stop = context.WithCancel(context.Background())
	ln, err := s.tr.Listen(sim.ServerTLS(false, w.ServerKeys), rawConf(idle, window))
	if err != nil {
		s.tr.Close()
		return nil, err
	}
	s.ln = ln
	return s, nil
}

func (s *rawServer) serve() {
	s.wg.Add(1)
	go func() {
		defer s.wg.Done()
		for {
			conn, err := s.ln.Accept(s.ctx)
			if err != nil {
				return
			}
			s.mu.Lock()
			sc := &rawServerConn{idx: len(s.conns), conn: conn}
			s.conns = append(s.conns, sc)
			s.mu.Unlock()
			s.wg.Add(1)
			go func() { defer s.wg.Done(); s.serveConn(sc) }()
		}
	}()
}

func (sc *rawServerConn) openControl(first []byte) error {
	str, err := sc.conn.OpenUniStream()
	if err != nil {
		return err
	}
	sc.ctrl = str
	_, err = str.Write(append(appendVarint(nil, stControl), first...))
	return err
}

func (s *rawServer) serveConn(sc *rawServerConn) {
	openExtraUni(sc.conn.OpenUniStream, "pre", nil)
	if s.onConn != nil {
		s.onConn(sc)
	} else {
		sc.openControl(rawSettingsFrame())
	}
	openExtraUni(sc.conn.OpenUniStream, "post", nil)
	s.wg.Add(1)
	go func() {
		defer s.wg.Done()
		for {
			str, err := sc.conn.AcceptUniStream(context.Background())
			if err != nil {
				return
			}
			s.wg.Add(1)
			go func() {
				defer s.wg.Done()
				t, err := readVarint(&byteReader{r: str})
				if err != nil {
					return
				}
				sc.mu.Lock()
				sc.peerUni = append(sc.peerUni, t)
				sc.mu.Unlock()
				if t == stControl {
					readMessageF(str, nil, func(f rawFrame) {
						sc.mu.Lock()
						sc.peerCtrl = append(sc.peerCtrl, f)
						sc.mu.Unlock()
					})
					return
				}
				io.Copy(io.Discard, str)
			}()
		}
	}()
	for i := 0; ; i++ {
		str, err := sc.conn.AcceptStream(context.Background())
		if err != nil {
			return
		}
		if i == 0 {
			openExtraUni(sc.conn.OpenUniStream, "late", nil)
		}
		s.wg.Add(1)
		go func() {
			defer s.wg.Done()
			if s.onStream != nil {
				s.onStream(sc, str, i)
			}
		}()
	}
}

func (sc *rawServerConn) closeErr() error { return context.Cause(sc.conn.Context()) }

func (s *rawServer) close() {
	s.stop()
	s.mu.Lock()
	conns := append([]*rawServerConn(nil), s.conns...)
	s.mu.Unlock()
	for _, sc := range conns {
		sc.conn.CloseWithError(h3NoError, "")
	}
	s.ln.Close()
	s.tr.Close()
	s.wg.Wait()
}

// respondSimple reads the request to its end and answers 200 with the given body.
func respondSimple(str *quic.Stream, body []byte) *message {
	m := readMessage(str, nil)
	b := appendFrame(nil, ftHeaders, encodeFields([][2]string{{":status", "200"}, {"x-raw", "ok"}}))
	if len(body) > 0 {
		b = appendFrame(b, ftData, body)
	}
	str.Write(b)
	str.Close()
	return m
}
