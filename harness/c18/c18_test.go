// C18: HTTP/3 carries requests and responses end to end without loss or alteration.
//
// Shared infrastructure of the three units (h3-roundtrip, h3-content-length, h3-raw-peer): a real
// http3.Server and a real http3.Transport (plain or spec-driven QUIC client) over sim's fault-injecting
// network inside a synctest bubble, byte patterns, failure justification, and the child-process runner
// that gives a panic in a library goroutine (which kills the process) a root-cause signature.
package c18

import (
	"bytes"
	"compress/gzip"
	"context"
	"encoding/json"
	"errors"
	"fmt"
	"io"
	"log/slog"
	"net"
	"net/http"
	"os"
	"os/exec"
	"regexp"
	"runtime/debug"
	"sort"
	"strings"
	"sync"
	"testing"
	"time"

	tls "github.com/refraction-networking/utls"

	quic "github.com/refraction-networking/uquic"
	"github.com/refraction-networking/uquic/http3"
	"github.com/refraction-networking/uquic/verif/sim"
	"github.com/refraction-networking/uquic/verif/specgen"
	"github.com/refraction-networking/uquic/verif/vf"
)

func TestMain(m *testing.M) { vf.Main(m) }

// curT is the *testing.T of the running unit (sim.Bubble needs one; verdicts never go through it).
var curT *testing.T

// ---- recorder: class / non-trivial bookkeeping that also works inside a child process ----

type recorder interface {
	Class(label string)
	NonTrivial(parts ...any)
}

// memRec collects the bookkeeping of a case executed in a child process; the parent replays it into the unit.
type memRec struct {
	mu      sync.Mutex
	Classes []string `json:"classes,omitempty"`
	NT      []string `json:"nt,omitempty"`
}

func (m *memRec) Class(l string) { m.mu.Lock(); m.Classes = append(m.Classes, l); m.mu.Unlock() }
func (m *memRec) NonTrivial(parts ...any) {
	m.mu.Lock()
	m.NT = append(m.NT, fmt.Sprint(parts...))
	m.mu.Unlock()
}

// ---- byte patterns ----

func pattern(seed uint64, idx, n int) []byte {
	b := make([]byte, n)
	s := seed*0x9e3779b97f4a7c15 + uint64(idx)*0xbf58476d1ce4e5b9 + 1
	for i := 0; i < n; i += 8 {
		s ^= s << 13
		s ^= s >> 7
		s ^= s << 17
		for j := 0; j < 8 && i+j < n; j++ {
			b[i+j] = byte(s >> (8 * j))
		}
	}
	return b
}

// compressible returns n bytes with long repeats (so that gzip output is much shorter and differently chunked).
func compressible(seed uint64, idx, n int) []byte {
	p := pattern(seed, idx, 64)
	b := make([]byte, n)
	for i := range b {
		b[i] = 'a' + p[(i/37)%64]%16
	}
	return b
}

func gz(b []byte) []byte {
	var buf bytes.Buffer
	zw := gzip.NewWriter(&buf)
	zw.Write(b)
	zw.Close()
	return buf.Bytes()
}

// readResult is the outcome of draining a body while comparing it with the expected bytes.
type readResult struct {
	N     int    `json:"n"`
	EOF   bool   `json:"eof"`
	Err   string `json:"err,omitempty"`
	BadAt int    `json:"bad_at"` // offset of the first byte that differs from the expectation (-1: none)
	Extra bool   `json:"extra"`  // more bytes than expected were delivered
	err   error
}

func (r readResult) String() string {
	return fmt.Sprintf("{n=%d eof=%v err=%q bad_at=%d extra=%v}", r.N, r.EOF, r.Err, r.BadAt, r.Extra)
}

// drain reads rd to the end with the given buffer size and compares with want (prefix oracle).
func drain(rd io.Reader, want []byte, bufSize int) readResult {
	if bufSize <= 0 {
		bufSize = 4096
	}
	res := readResult{BadAt: -1}
	buf := make([]byte, bufSize)
	zeroReads := 0
	for {
		n, err := rd.Read(buf)
		for i := 0; i < n; i++ {
			off := res.N + i
			if off >= len(want) {
				res.Extra = true
			} else if res.BadAt < 0 && buf[i] != want[off] {
				res.BadAt = off
			}
		}
		res.N += n
		if err != nil {
			if err == io.EOF {
				res.EOF = true
			} else {
				res.Err, res.err = err.Error(), err
			}
			return res
		}
		if n == 0 {
			zeroReads++
			if zeroReads > 1000 {
				res.Err = "reader returns (0, nil) for ever"
				res.err = errors.New(res.Err)
				return res
			}
		} else {
			zeroReads = 0
		}
	}
}

// chunkAt returns the size of the i-th write / read of a body: the generated sizes (cycled) for the first 64 pieces,
// 32 KiB pieces afterwards. Every piece is a stream write of its own (one packet at least): millions of 2-byte
// writes are a throughput pathology (minutes of virtual time), not an integrity question.
func chunkAt(chunks []int, i int) int {
	if i >= 64 {
		return 32 << 10
	}
	n := chunks[i%len(chunks)]
	if n == 0 && i > 2*len(chunks) {
		return 1500
	}
	return n
}

// ---- environment: real server + real client over the simulated network ----

type envOpts struct {
	Client      string // "plain" | "spec:<base>"
	RTT         time.Duration
	Faults      []sim.Fault
	Loss        *sim.Loss
	Idle        time.Duration
	SrvLogger   bool
	CliLogger   bool
	NoCompress  bool
	Handler     http.Handler
	MaxHdrBytes int
	SrvWindow   int // >0: small stream receive window on the server (request bodies block early)
	CliWindow   int
}

type env struct {
	o    envOpts
	w    *sim.World
	st   *quic.Transport
	ln   *quic.EarlyListener
	srv  *http3.Server
	ct   *clientCloser
	tr   *http3.Transport
	logs *logSink
	done chan struct{} // ServeListener returned
}

// logSink is the slog handler given to the "logger set" configurations: it formats every record (so that the
// logging paths really run) and keeps a few lines for diagnostics.
type logSink struct {
	mu    sync.Mutex
	lines []string
}

func (l *logSink) Write(p []byte) (int, error) {
	l.mu.Lock()
	if len(l.lines) < 40 {
		l.lines = append(l.lines, strings.TrimSpace(string(p)))
	}
	l.mu.Unlock()
	return len(p), nil
}

func newLogger(s *logSink) *slog.Logger {
	return slog.New(slog.NewTextHandler(s, &slog.HandlerOptions{Level: slog.LevelDebug}))
}

const hsIdle = 5 * time.Second

func quicConf(idle time.Duration, window int) *quic.Config {
	c := &quic.Config{DisablePathMTUDiscovery: true, MaxIdleTimeout: idle, HandshakeIdleTimeout: hsIdle}
	if window > 0 {
		c.InitialStreamReceiveWindow, c.MaxStreamReceiveWindow = uint64(window), uint64(window)
		c.InitialConnectionReceiveWindow, c.MaxConnectionReceiveWindow = uint64(4*window), uint64(4*window)
	}
	return c
}

// newServer starts the in-tree HTTP/3 server on the world's server endpoint.
func newServer(w *sim.World, o envOpts, logs *logSink) (*quic.Transport, *quic.EarlyListener, *http3.Server, chan struct{}, error) {
	st := &quic.Transport{Conn: w.ServerConn}
	sc := quicConf(o.Idle, o.SrvWindow)
	sc.Allow0RTT = false
	ln, err := st.ListenEarly(http3.ConfigureTLSConfig(sim.ServerTLS(false, w.ServerKeys)), sc)
	if err != nil {
		st.Close()
		return nil, nil, nil, nil, err
	}
	srv := &http3.Server{Handler: o.Handler, MaxHeaderBytes: o.MaxHdrBytes}
	if o.SrvLogger {
		srv.Logger = newLogger(logs)
	}
	done := make(chan struct{})
	go func() { defer close(done); srv.ServeListener(ln) }()
	return st, ln, srv, done, nil
}

// clientCloser closes the QUIC transports (and extra endpoints) under an http3.Transport.
type clientCloser struct {
	mu  sync.Mutex
	trs []*quic.Transport
	pcs []net.PacketConn
}

func (c *clientCloser) Close() {
	c.mu.Lock()
	defer c.mu.Unlock()
	for _, t := range c.trs {
		t.Close()
	}
	for _, p := range c.pcs {
		p.Close()
	}
}

// newClient builds the in-tree HTTP/3 client on the world's client endpoint. A spec-driven client gets a fresh
// spec value AND a fresh quic.Transport on a new endpoint for every re-dial: the Chrome specs use zero-length
// source connection IDs, and two connections with the same (empty) ID cannot share one transport while the closed
// one is still being retained (known engine limit, see GUIDE; the redial property itself is C02's).
func newClient(w *sim.World, o envOpts, logs *logSink) (*clientCloser, *http3.Transport, error) {
	cc := &clientCloser{}
	ct := &quic.Transport{Conn: w.ClientConn}
	cc.trs = append(cc.trs, ct)
	tr := &http3.Transport{TLSClientConfig: sim.ClientTLS(w.ClientKeys), QUICConfig: quicConf(o.Idle, o.CliWindow), DisableCompression: o.NoCompress}
	if o.CliLogger {
		tr.Logger = newLogger(logs)
	}
	if base, ok := strings.CutPrefix(o.Client, "spec:"); ok {
		if _, err := (specgen.Desc{Base: base}).Build(); err != nil {
			cc.Close()
			return nil, nil, err
		}
		dials := 0
		tr.Dial = func(ctx context.Context, _ string, tc *tls.Config, qc *quic.Config) (*quic.Conn, error) {
			spec, err := (specgen.Desc{Base: base}).Build()
			if err != nil {
				return nil, err
			}
			cc.mu.Lock()
			dials++
			t := ct
			if dials > 1 {
				pc := w.NewEndpoint(&net.UDPAddr{IP: net.ParseIP("1.0.0.1"), Port: 9500 + dials})
				t = &quic.Transport{Conn: pc}
				cc.trs, cc.pcs = append(cc.trs, t), append(cc.pcs, pc)
			}
			cc.mu.Unlock()
			return (&quic.UTransport{Transport: t, QUICSpec: spec}).Dial(ctx, sim.ServerAddr, tc, qc)
		}
	} else {
		tr.Dial = func(ctx context.Context, _ string, tc *tls.Config, qc *quic.Config) (*quic.Conn, error) {
			return ct.Dial(ctx, sim.ServerAddr, tc, qc)
		}
	}
	return cc, tr, nil
}

func newEnv(o envOpts) (*env, error) {
	if o.Idle == 0 {
		o.Idle = 10 * time.Second
	}
	e := &env{o: o, logs: &logSink{}}
	e.w = sim.NewWorld(o.RTT, o.Faults, o.Loss, nil)
	var err error
	if e.st, e.ln, e.srv, e.done, err = newServer(e.w, o, e.logs); err != nil {
		e.w.Close()
		return nil, err
	}
	if e.ct, e.tr, err = newClient(e.w, o, e.logs); err != nil {
		e.srv.Close()
		e.ln.Close()
		e.st.Close()
		e.w.Close()
		return nil, err
	}
	return e, nil
}

// close shuts everything down in an order that lets every goroutine end.
func (e *env) close() {
	e.tr.Close()
	e.srv.Close()
	e.ln.Close()
	<-e.done
	e.st.Close()
	e.ct.Close()
	e.w.Close()
}

// ---- failure justification (same rule as xfer.judgeFailure) ----

func isTimeout(err error) bool {
	var ie *quic.IdleTimeoutError
	var he *quic.HandshakeTimeoutError
	return errors.As(err, &ie) || errors.As(err, &he) || errors.Is(err, context.DeadlineExceeded)
}

// justified reports whether a failed exchange is explained by the network: the error is a timeout and the path
// was effectively dead (nothing intact delivered in a direction while datagrams were being lost) for at least
// a third of the relevant timeout. Loss, duplication and delay alone never justify any other error.
func justified(w *sim.World, err error, idle time.Duration) bool {
	if err == nil || !isTimeout(err) {
		return false
	}
	limit := idle
	if hsIdle < limit {
		limit = hsIdle
	}
	return w.Router.DeadStretch(w.Router.Now()) >= limit/3
}

// ---- header field helpers ----

// Field is one header map entry: the key exactly as it is stored in the http.Header map (possibly not canonical)
// and its values in order.
type Field struct {
	K string   `json:"k"`
	V []string `json:"v"`
}

// groups returns, per canonical name, the value lists of the fields with that name in the given order.
func groups(fs []Field) map[string][][]string {
	g := map[string][][]string{}
	for _, f := range fs {
		ck := http.CanonicalHeaderKey(f.K)
		g[ck] = append(g[ck], f.V)
	}
	return g
}

// matchGroups reports whether got is the concatenation of the groups in some order (the sender iterates over a
// map, so the relative order of two map keys that differ only in case is unspecified; the order inside one key
// is fixed).
func matchGroups(got []string, gs [][]string) bool {
	total := 0
	for _, g := range gs {
		total += len(g)
	}
	if total != len(got) {
		return false
	}
	if len(gs) == 0 {
		return true
	}
	var rec func(pos int, used []bool) bool
	rec = func(pos int, used []bool) bool {
		if pos == len(got) {
			return true
		}
		for i, g := range gs {
			if used[i] {
				continue
			}
			ok := true
			for j, v := range g {
				if got[pos+j] != v {
					ok = false
					break
				}
			}
			if ok {
				used[i] = true
				if rec(pos+len(g), used) {
					return true
				}
				used[i] = false
			}
		}
		return false
	}
	return rec(0, make([]bool, len(gs)))
}

// checkFields compares the generated fields with what the receiver saw; only generated names are examined.
func checkFields(want []Field, got http.Header) string {
	for ck, gs := range groups(want) {
		if !matchGroups(got[ck], gs) {
			return fmt.Sprintf("field %q: sent value lists %q, receiver has %q", ck, gs, got[ck])
		}
	}
	return ""
}

// checkTrailers: every trailer with values must be present exactly; trailers without values must be absent or empty;
// no other trailer may carry a value.
func checkTrailers(want []Field, got http.Header) string {
	wg := groups(want)
	for ck, gs := range wg {
		n := 0
		for _, g := range gs {
			n += len(g)
		}
		if n == 0 {
			if len(got[ck]) != 0 {
				return fmt.Sprintf("trailer %q was never given a value but the receiver has %q", ck, got[ck])
			}
			continue
		}
		if !matchGroups(got[ck], gs) {
			return fmt.Sprintf("trailer %q: sent %q, receiver has %q", ck, gs, got[ck])
		}
	}
	for k, v := range got {
		if _, ok := wg[k]; !ok && len(v) > 0 {
			return fmt.Sprintf("receiver has trailer %q=%q that was never sent", k, v)
		}
	}
	return ""
}

func cloneHeader(h http.Header) http.Header {
	if h == nil {
		return nil
	}
	return h.Clone()
}

func sortedKeys(h http.Header) []string {
	var ks []string
	for k := range h {
		ks = append(ks, k)
	}
	sort.Strings(ks)
	return ks
}

// ---- panics ----

var nilLoggerRe = regexp.MustCompile(`(?s)log/slog\.\(\*Logger\).*http3\.\(\*responseWriter\)\.(flushTrailers|declareTrailer)`)

// panicSig maps a panic (value + stack of the panicking goroutine) to a root-cause signature.
func panicSig(text string) string {
	first := text
	if i := strings.Index(text, "\n\ngoroutine "); i >= 0 {
		// only the first goroutine block (the panicking one) decides
		if j := strings.Index(text[i+2:], "\n\n"); j >= 0 {
			first = text[:i+2+j]
		}
	}
	switch {
	case nilLoggerRe.MatchString(first):
		return "C18/panic/nil-logger-trailers"
	case strings.Contains(first, "http3.(*RawServerConn)") || strings.Contains(first, "http3.(*Server)") || strings.Contains(first, "http3.(*responseWriter)"):
		return "C18/panic/server-goroutine"
	case strings.Contains(first, "http3.(*ClientConn)") || strings.Contains(first, "http3.(*Transport)") || strings.Contains(first, "http3.(*RequestStream)"):
		return "C18/panic/client-goroutine"
	case strings.Contains(first, "uquic/http3."):
		return "C18/panic/http3"
	}
	return "C18/panic/other"
}

// recovered builds the verdict for a panic caught on a goroutine of ours (handler or client caller).
func recovered(where string, p any) *vf.Verdict {
	st := string(debug.Stack())
	if len(st) > 5000 {
		st = st[:5000]
	}
	text := fmt.Sprintf("panic: %v\n\ngoroutine 0 [running]:\n%s", p, st)
	return vf.Bad(panicSig(text), "panic in %s: %v\n%s", where, p, st)
}

// ---- child-process isolation ----

// A panic on a goroutine started by the library cannot be recovered: it kills the test process. Cases of a class
// that is suspected to do so are executed in a child process (the same test binary, TestChild); the parent turns
// the child's crash into a verdict with a root-cause signature and goes on searching. If the first isoProbe
// isolated cases of a process all survive, the class is considered healthy and later ones run in-process (a crash
// is then still attributed by the driver through the journal).
const isoProbe = 16

var iso struct {
	mu      sync.Mutex
	clean   int
	crashed bool
}

func wantIsolation() bool {
	if os.Getenv("VERIF_C18_CHILD") != "" {
		return false
	}
	if vf.ReplayMode() {
		return true
	}
	iso.mu.Lock()
	defer iso.mu.Unlock()
	return iso.crashed || iso.clean < isoProbe
}

type childOut struct {
	Verdict *vf.Verdict `json:"verdict"`
	Rec     *memRec     `json:"rec"`
}

var childRunners = map[string]func(raw json.RawMessage, rec recorder) *vf.Verdict{}

// isolate runs the case in a child process and returns its verdict; bookkeeping is replayed into rec.
func isolate(unit string, c any, rec recorder) *vf.Verdict {
	dir, err := os.MkdirTemp("", "c18-child-")
	if err != nil {
		return vf.Bad("C18/harness/child", "mkdtemp: %v", err)
	}
	defer os.RemoveAll(dir)
	b, _ := json.Marshal(c)
	cf := dir + "/case.json"
	if err := os.WriteFile(cf, b, 0o644); err != nil {
		return vf.Bad("C18/harness/child", "write case: %v", err)
	}
	ctx, cancel := context.WithTimeout(context.Background(), 10*time.Minute)
	defer cancel()
	cmd := exec.CommandContext(ctx, os.Args[0], "-test.run", "^TestChild$", "-test.count=1", "-test.timeout=0", "-verif.tier="+vf.Tier())
	cmd.Env = append(os.Environ(), "VERIF_C18_CHILD="+unit, "VERIF_C18_CASE="+cf)
	out, runErr := cmd.CombinedOutput()
	if ob, err := os.ReadFile(cf + ".out"); err == nil {
		co := childOut{Rec: &memRec{}}
		if json.Unmarshal(ob, &co) == nil && co.Rec != nil {
			for _, l := range co.Rec.Classes {
				rec.Class(l)
			}
			for _, n := range co.Rec.NT {
				rec.NonTrivial(n)
			}
			iso.mu.Lock()
			if co.Verdict != nil && strings.HasPrefix(co.Verdict.Sig, "C18/panic/") {
				iso.crashed = true // recovered inside the handler this time; the next one may hit a library goroutine
			} else if co.Verdict == nil {
				iso.clean++
			}
			iso.mu.Unlock()
			return co.Verdict
		}
	}
	text := string(out)
	if ctx.Err() != nil {
		return vf.Bad("C18/harness/child-timeout", "child process did not finish within 10 min real time\n%s", tail(text, 3000))
	}
	iso.mu.Lock()
	iso.crashed = true
	iso.mu.Unlock()
	i := strings.Index(text, "panic: ")
	if j := strings.Index(text, "fatal error: "); j >= 0 && (i < 0 || j < i) {
		i = j
	}
	if i < 0 {
		return vf.Bad("C18/harness/child", "child process ended without a result (%v):\n%s", runErr, tail(text, 3000))
	}
	crash := text[i:]
	if len(crash) > 6000 {
		crash = crash[:6000]
	}
	rec.Class("child-crash")
	return vf.Bad(panicSig(crash), "process killed by a panic on a library goroutine:\n%s", crash)
}

func tail(s string, n int) string {
	if len(s) > n {
		return s[len(s)-n:]
	}
	return s
}

// TestChild is the entry point of the child process (it is a no-op in normal runs).
func TestChild(t *testing.T) {
	unit, cf := os.Getenv("VERIF_C18_CHILD"), os.Getenv("VERIF_C18_CASE")
	if unit == "" || cf == "" {
		t.Skip("not a child process")
	}
	curT = t
	raw, err := os.ReadFile(cf)
	if err != nil {
		t.Fatalf("read case: %v", err)
	}
	run := childRunners[unit]
	if run == nil {
		t.Fatalf("unknown unit %q", unit)
	}
	co := childOut{Rec: &memRec{}}
	co.Verdict = run(raw, co.Rec)
	b, _ := json.Marshal(&co)
	if err := os.WriteFile(cf+".out", b, 0o644); err != nil {
		t.Fatalf("write result: %v", err)
	}
}
