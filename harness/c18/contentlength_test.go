package c18

import (
	"context"
	"errors"
	"fmt"
	"io"
	"net/http"
	"strconv"
	"sync"
	"testing"
	"time"

	"pgregory.net/rapid"

	quic "github.com/refraction-networking/uquic"
	"github.com/refraction-networking/uquic/verif/sim"
	"github.com/refraction-networking/uquic/verif/vf"
)

// CLCase: a message whose body disagrees (or, as a control, agrees) with its declared Content-Length.
type CLCase struct {
	Dir       string `json:"dir"`      // "req": request body, the handler is the receiver | "rsp": response body, the caller of RoundTrip is the receiver
	Via       string `json:"via"`      // "api": in-tree sender (body reader / handler misbehaves) | "raw": scripted raw peer sends the frames
	Declared  int    `json:"declared"` // Content-Length
	Actual    int    `json:"actual"`   // bytes really produced
	Chunks    []int  `json:"chunks"`   // api: Write / Read sizes; raw: DATA frame payload sizes (cycled)
	Cuts      []int  `json:"cuts,omitempty"`
	GapMs     int    `json:"gap_ms,omitempty"`
	Flush     bool   `json:"flush,omitempty"`
	NoBody    string `json:"no_body,omitempty"` // control class: "HEAD" | "304": Content-Length without content is legitimate
	Trailers  bool   `json:"trailers,omitempty"`
	ReadBuf   int    `json:"readbuf"`
	Client    string `json:"client"`
	RTTms     int    `json:"rtt_ms"`
	SrvLogger bool   `json:"srv_logger"`
	CliLogger bool   `json:"cli_logger"`
	Seed      uint64 `json:"seed"`
	// widths of the varints the raw peer writes (Via "raw"; see varintWidth in rawlib_test.go)
	VSeed uint64 `json:"vseed,omitempty"`
	VDens int    `json:"vdens,omitempty"`
	// further unidirectional streams of the raw peer (Via "raw"; see UniOpen in rawlib_test.go)
	XUni []UniOpen `json:"xuni,omitempty"`
}

func genCLCase(t *rapid.T) CLCase {
	c := CLCase{Seed: rapid.Uint64().Draw(t, "seed")}
	c.Dir = rapid.SampledFrom([]string{"req", "rsp"}).Draw(t, "dir")
	c.Via = rapid.SampledFrom([]string{"api", "raw"}).Draw(t, "via")
	// Declared 0 is an explicit declaration on the wire ("content-length: 0") and, for a handler, in the response header:
	// any DATA byte then makes the message malformed exactly like one byte beyond a positive length (RFC 9114 4.1.2).
	// Only the in-tree CLIENT API cannot express it: Request.ContentLength 0 with a non-nil body means "unknown"
	// (request_writer.go actualContentLength), so req/api keeps declaring >= 1.
	c.Declared = rapid.OneOf(rapid.SampledFrom([]int{0, 0, 1}), rapid.IntRange(1, 40), rapid.IntRange(1, 5000), rapid.IntRange(4000, 20000), rapid.IntRange(20000, 150000)).Draw(t, "declared")
	if c.Declared == 0 && c.Dir == "req" && c.Via == "api" {
		c.Declared = 1
	}
	rel := rapid.IntRange(0, 8).Draw(t, "rel")
	if c.Declared == 0 {
		// nothing can be shorter than 0: control (no content), one byte, many bytes
		switch rel {
		case 0, 1, 2:
			rel = 0
		case 3, 4:
			rel = 4
		default:
			rel = 5
		}
	}
	switch rel {
	case 0:
		c.Actual = c.Declared // control
	case 1:
		c.Actual = 0
	case 2:
		c.Actual = c.Declared - 1
	case 3:
		c.Actual = rapid.IntRange(0, c.Declared-1).Draw(t, "short")
	case 4:
		c.Actual = c.Declared + 1
	case 5, 6:
		c.Actual = c.Declared + rapid.OneOf(rapid.IntRange(1, 10), rapid.IntRange(1, 20000)).Draw(t, "long")
	default:
		c.Actual = rapid.IntRange(0, c.Declared-1).Draw(t, "short2")
	}
	n := rapid.IntRange(1, 4).Draw(t, "nchunks")
	for i := 0; i < n; i++ {
		c.Chunks = append(c.Chunks, rapid.OneOf(rapid.IntRange(0, 8), rapid.IntRange(1, 2000), rapid.IntRange(1000, 40000)).Draw(t, "chunk"))
	}
	if c.Via == "raw" {
		nc := rapid.IntRange(0, 3).Draw(t, "ncuts")
		for i := 0; i < nc; i++ {
			c.Cuts = append(c.Cuts, rapid.OneOf(rapid.IntRange(1, 5), rapid.IntRange(1, 1500), rapid.IntRange(1000, 30000)).Draw(t, "cut"))
		}
		c.GapMs = rapid.SampledFrom([]int{0, 0, 1, 7}).Draw(t, "gap")
	}
	c.Flush = rapid.Bool().Draw(t, "flush")
	if c.Dir == "rsp" && rapid.IntRange(0, 7).Draw(t, "nobody") == 0 {
		c.NoBody = rapid.SampledFrom([]string{"HEAD", "304"}).Draw(t, "nobodykind")
		c.Actual = 0
	}
	c.Trailers = rapid.IntRange(0, 3).Draw(t, "trailers") == 0
	c.ReadBuf = rapid.SampledFrom([]int{1, 7, 512, 4096, 32768}).Draw(t, "readbuf")
	c.Client = rapid.SampledFrom([]string{"plain", "plain", "spec:chrome115", "spec:firefoxA"}).Draw(t, "client")
	c.RTTms = rapid.SampledFrom([]int{2, 20, 60}).Draw(t, "rtt")
	c.SrvLogger = rapid.Bool().Draw(t, "srvlogger")
	c.CliLogger = rapid.Bool().Draw(t, "clilogger")
	if c.Via == "raw" {
		c.VSeed, c.VDens = genVarintEnc(t)
		c.XUni = genExtraUni(t)
	}
	return c
}

// genReader yields exactly n pattern bytes in reads of the given sizes, then io.EOF.
type genReader struct {
	data   []byte
	off    int
	chunks []int
	i      int
}

func (g *genReader) Read(p []byte) (int, error) {
	if g.off >= len(g.data) {
		return 0, io.EOF
	}
	n := chunkAt(g.chunks, g.i)
	g.i++
	if n <= 0 {
		n = 1
	}
	n = min(n, len(p), len(g.data)-g.off)
	copy(p, g.data[g.off:g.off+n])
	g.off += n
	return n, nil
}
func (g *genReader) Close() error { return nil }

// dataFrames serialises body as DATA frames of the given payload sizes (zero-length frames included).
func dataFrames(b []byte, body []byte, sizes []int) []byte {
	off, i := 0, 0
	for off < len(body) {
		n := sizes[i%len(sizes)]
		if n == 0 && i > 2*len(sizes) {
			n = 1000
		}
		i++
		n = min(n, len(body)-off)
		b = appendFrame(b, ftData, body[off:off+n])
		off += n
	}
	return b
}

type clOutcome struct {
	invoked   bool
	recv      readResult // what the receiver's body reader returned
	rtErr     error      // RoundTrip error (rsp direction: counts as "an error was reported")
	status    int
	cl        int64
	writeN    int   // api/rsp: bytes the handler's Write calls accepted
	writeErr  error // api/rsp: first error a Write returned
	overflow  bool  // api/rsp: a Write went beyond the declared length
	peerCode  uint64
	peerSaw   bool
	peerClean bool // raw peer read a complete, cleanly ended response
	trailerOK bool
}

func checkCL(c CLCase, u *vf.Unit) *vf.Verdict {
	u.Journal(c)
	var v *vf.Verdict
	setVarintEnc(c.VSeed, c.VDens)
	defer setVarintEnc(0, 0)
	setExtraUni(c.XUni)
	defer setExtraUni(nil)
	if c.Via == "raw" {
		u.Class("extra-uni:" + extraUniClass(c.XUni))
		u.Class(fmt.Sprintf("varint-density:%d", c.VDens))
	}
	sim.Bubble(curT, 40*time.Second, func() { v = runCL(c, u) }, func(rep sim.LeakReport) {
		if v == nil {
			v = vf.Bad("C18/leak/goroutines", "%d goroutines still alive 40 s (virtual) after shutdown:\n%s", rep.Count, rep.Dump)
		}
	})
	noteExtraUni(v, c.XUni)
	return v
}

func runCL(c CLCase, u *vf.Unit) *vf.Verdict {
	o := &clOutcome{recv: readResult{BadAt: -1}}
	var mu sync.Mutex
	var hv *vf.Verdict
	body := pattern(c.Seed, 7, c.Actual)
	rtt := time.Duration(c.RTTms) * time.Millisecond
	idle := 10 * time.Second
	w := sim.NewWorld(rtt, nil, nil, nil)
	ctx, cancel := context.WithTimeout(context.Background(), 60*time.Second)
	defer cancel()

	handler := http.HandlerFunc(func(rw http.ResponseWriter, r *http.Request) {
		defer func() {
			if p := recover(); p != nil && p != http.ErrAbortHandler {
				mu.Lock()
				hv = recovered("the handler", p)
				mu.Unlock()
				panic(http.ErrAbortHandler)
			}
		}()
		if r.URL.Path != "/cl" {
			rw.WriteHeader(200) // follow-up request
			return
		}
		mu.Lock()
		o.invoked = true
		mu.Unlock()
		if c.Dir == "req" {
			res := drain(r.Body, body, c.ReadBuf)
			mu.Lock()
			o.recv, o.cl = res, r.ContentLength
			o.trailerOK = !c.Trailers || r.Trailer.Get("X-Cl-T") == "tv"
			mu.Unlock()
			rw.WriteHeader(200)
			return
		}
		// rsp / api: declare, then write something else
		if c.Trailers {
			rw.Header().Set("Trailer", "X-Cl-T")
		}
		rw.Header().Set("Content-Length", strconv.Itoa(c.Declared))
		if c.NoBody == "304" {
			rw.WriteHeader(304)
		}
		off, i := 0, 0
		for off < len(body) {
			n := chunkAt(c.Chunks, i)
			i++
			n = min(n, len(body)-off)
			m, err := rw.Write(body[off : off+n])
			mu.Lock()
			if off+n > c.Declared {
				o.overflow = true
			}
			if err != nil {
				if o.writeErr == nil {
					o.writeErr = err
				}
				mu.Unlock()
				break
			}
			o.writeN += m
			mu.Unlock()
			off += n
			if c.Flush {
				rw.(http.Flusher).Flush()
			}
		}
		if c.Trailers {
			rw.Header().Set("X-Cl-T", "tv")
		}
	})

	var followErr error

	closeFns := []func(){}
	defer func() {
		for i := len(closeFns) - 1; i >= 0; i-- {
			closeFns[i]()
		}
		w.Close()
	}()
	eo := envOpts{Client: c.Client, RTT: rtt, Idle: idle, SrvLogger: c.SrvLogger, CliLogger: c.CliLogger, Handler: handler}
	logs := &logSink{}

	// --- receiver / sender wiring
	useRealServer := c.Via == "api" || c.Dir == "req"
	useRealClient := c.Via == "api" || c.Dir == "rsp"
	var rs *rawServer
	if useRealServer {
		st, ln, srv, done, err := newServer(w, eo, logs)
		if err != nil {
			return vf.Bad("C18/harness/env", "%v", err)
		}
		closeFns = append(closeFns, func() { srv.Close(); ln.Close(); <-done; st.Close() })
	} else {
		var err error
		rs, err = newRawServer(w, idle, 0)
		if err != nil {
			return vf.Bad("C18/harness/env", "%v", err)
		}
		rs.onStream = func(sc *rawServerConn, str *quic.Stream, idx int) {
			m := readMessage(str, nil)
			if p, _ := m.field(0, ":path"); p != "/cl" {
				str.Write(appendFrame(nil, ftHeaders, encodeFields([][2]string{{":status", "200"}})))
				str.Close()
				return
			}
			status := "200"
			if c.NoBody == "304" {
				status = "304"
			}
			b := appendFrame(nil, ftHeaders, encodeFields([][2]string{{":status", status}, {"content-length", strconv.Itoa(c.Declared)}}))
			b = dataFrames(b, body, c.Chunks)
			if c.Trailers {
				b = appendFrame(b, ftHeaders, encodeFields([][2]string{{"x-cl-t", "tv"}}))
			}
			err := writeCut(str, b, c.Cuts, boundGap(len(b), c.Cuts, c.GapMs))
			if err == nil {
				str.Close()
				time.Sleep(4*rtt + 50*time.Millisecond)
				err = context.Cause(str.Context())
			}
			if code, ok := streamCode(err); ok {
				mu.Lock()
				o.peerSaw, o.peerCode = true, code
				mu.Unlock()
			}
		}
		rs.serve()
		closeFns = append(closeFns, rs.close)
	}

	if useRealClient {
		ct, tr, err := newClient(w, eo, logs)
		if err != nil {
			return vf.Bad("C18/harness/env", "%v", err)
		}
		closeFns = append(closeFns, func() { tr.Close(); ct.Close() })
		method := "POST"
		if c.Dir == "rsp" {
			method = "GET"
			if c.NoBody == "HEAD" {
				method = "HEAD"
			}
		}
		var rb io.ReadCloser
		if c.Dir == "req" {
			rb = &genReader{data: body, chunks: c.Chunks}
		}
		req, _ := http.NewRequestWithContext(ctx, method, "https://"+sim.ServerName+"/cl", rb)
		if c.Dir == "req" {
			req.ContentLength = int64(c.Declared)
			if c.Trailers {
				req.Trailer = http.Header{"X-Cl-T": {"tv"}}
			}
		}
		rsp, err := tr.RoundTrip(req)
		if err != nil {
			o.rtErr = err
		} else {
			o.status, o.cl = rsp.StatusCode, rsp.ContentLength
			if c.Dir == "rsp" {
				o.recv = drain(rsp.Body, body, c.ReadBuf)
				o.trailerOK = !c.Trailers || rsp.Trailer.Get("X-Cl-T") == "tv"
			} else {
				io.Copy(io.Discard, rsp.Body)
			}
			rsp.Body.Close()
		}
		// the connection (or a new one) must still serve a well-formed request
		req2, _ := http.NewRequestWithContext(ctx, "GET", "https://"+sim.ServerName+"/after", nil)
		if rsp2, err := tr.RoundTrip(req2); err != nil {
			followErr = err
		} else {
			if rsp2.StatusCode != 200 {
				followErr = fmt.Errorf("status %d", rsp2.StatusCode)
			}
			io.Copy(io.Discard, rsp2.Body)
			rsp2.Body.Close()
		}
	} else {
		rc, err := dialRawClient(ctx, w, w.ClientConn, idle, 0, true)
		if err != nil {
			if rc != nil {
				rc.close()
			}
			return vf.Bad("C18/harness/env", "raw client dial: %v", err)
		}
		closeFns = append(closeFns, rc.close)
		str, err := rc.conn.OpenStreamSync(ctx)
		if err != nil {
			return vf.Bad("C18/harness/env", "raw client open stream: %v", err)
		}
		fs := [][2]string{{":method", "POST"}, {":scheme", "https"}, {":authority", sim.ServerName}, {":path", "/cl"}, {"content-length", strconv.Itoa(c.Declared)}}
		if c.Trailers {
			fs = append(fs, [2]string{"trailer", "X-Cl-T"})
		}
		b := appendFrame(nil, ftHeaders, encodeFields(fs))
		b = dataFrames(b, body, c.Chunks)
		if c.Trailers {
			b = appendFrame(b, ftHeaders, encodeFields([][2]string{{"x-cl-t", "tv"}}))
		}
		wdone := make(chan struct{})
		go func() {
			defer close(wdone)
			if writeCut(str, b, c.Cuts, boundGap(len(b), c.Cuts, c.GapMs)) == nil {
				str.Close()
			}
		}()
		m := readMessage(str, nil)
		if code, ok := streamCode(m.Err); ok {
			o.peerSaw, o.peerCode = true, code
		}
		if m.Err == nil && !m.Truncated && len(m.Headers) > 0 {
			o.peerClean = true
			if s, _ := m.field(0, ":status"); s != "" {
				o.status, _ = strconv.Atoi(s)
			}
		}
		if m.Err != nil {
			str.CancelWrite(h3RequestCancelled)
		}
		<-wdone
		if cerr := rc.closeErr(); cerr != nil {
			followErr = fmt.Errorf("connection closed: %w", cerr)
		} else if m2, err := rc.simpleRequest(ctx, "GET", "/after", nil); err != nil {
			followErr = err
		} else if s, _ := m2.field(0, ":status"); s != "200" {
			followErr = fmt.Errorf("status %q", s)
		}
	}

	mu.Lock()
	defer mu.Unlock()
	if hv != nil {
		return hv
	}
	return judgeCL(c, o, followErr, u)
}

func judgeCL(c CLCase, o *clOutcome, followErr error, u *vf.Unit) *vf.Verdict {
	desc := fmt.Sprintf("%s body via %s: Content-Length %d, %d bytes sent in pieces %v (wire cuts %v, trailers %v, no-body class %q, client %s)", c.Dir, c.Via, c.Declared, c.Actual, c.Chunks, c.Cuts, c.Trailers, c.NoBody, c.Client)
	rel := "equal"
	switch {
	case c.NoBody != "":
		rel = "nobody-" + c.NoBody
	case c.Actual < c.Declared:
		rel = "short"
	case c.Actual > c.Declared:
		rel = "long"
	}
	r := o.recv
	errored := r.err != nil || (c.Dir == "rsp" && o.rtErr != nil)
	if r.BadAt >= 0 {
		return vf.Bad("C18/content-length/corrupt", "%s: the receiver's bytes differ from the sender's at offset %d: %v", desc, r.BadAt, r)
	}
	if r.N > c.Declared && c.NoBody == "" {
		return vf.Bad("C18/content-length/extended", "%s: the receiver read %d bytes, more than the declared length: %v", desc, r.N, r)
	}
	dirName := map[string]string{"req": "request", "rsp": "response"}[c.Dir]
	var zeroWrite *vf.Verdict
	switch rel {
	case "equal":
		if c.Dir == "req" && !o.invoked {
			return vf.Bad("C18/content-length/exact-rejected", "%s: the handler was never called (RoundTrip error %v)", desc, o.rtErr)
		}
		if errored || !r.EOF || r.N != c.Declared {
			return vf.Bad("C18/content-length/exact-rejected", "%s: body and declaration agree, but the receiver read %v (RoundTrip error %v)", desc, r, o.rtErr)
		}
		if !o.trailerOK {
			return vf.Bad("C18/content-length/exact-rejected", "%s: trailer X-Cl-T missing after EOF", desc)
		}
	case "nobody-HEAD", "nobody-304":
		// RFC 9110 8.6: Content-Length in a HEAD / 304 response describes the selected representation; there is no content
		if errored || !r.EOF || r.N != 0 {
			return vf.Bad("C18/content-length/no-content-rejected", "%s: a %s response legitimately carries Content-Length without content; the caller read %v (RoundTrip error %v)", desc, c.NoBody, r, o.rtErr)
		}
		if o.cl != int64(c.Declared) {
			return vf.Bad("C18/content-length/no-content-rejected", "%s: Response.ContentLength = %d, want the declared %d", desc, o.cl, c.Declared)
		}
	case "short":
		if c.Dir == "req" && !o.invoked {
			break // the request was refused before the handler ran: nothing was accepted silently
		}
		if !errored {
			return vf.Bad("C18/content-length/short-"+dirName+"-body", "%s: the receiver's body reader returned a clean EOF after %d of %d declared bytes: %v", desc, r.N, c.Declared, r)
		}
	case "long":
		if c.Via == "api" && c.Dir == "rsp" {
			// the handler must be told (net/http: Write returns http.ErrContentLength), and the caller sees at most what was accepted
			if o.overflow && !errors.Is(o.writeErr, http.ErrContentLength) {
				if c.Declared != 0 {
					return vf.Bad("C18/content-length/long-response-write-accepted", "%s: a Write beyond the declared Content-Length returned %v, want http.ErrContentLength", desc, o.writeErr)
				}
				// declared 0: own root cause (response_writer.go uses contentLen 0 as "not declared"), judged last so that
				// it does not hide what the caller observes
				zeroWrite = vf.Bad("C18/content-length/zero-length-response-write-accepted", "%s: the handler declared Content-Length: 0 and then wrote %d bytes; Write returned %v, want http.ErrContentLength (net/http refuses every byte beyond the declared length, 0 included); the bytes went out in DATA frames after \"content-length: 0\" = a malformed response (RFC 9114 4.1.2); the caller of RoundTrip got: status %d, body %v, RoundTrip error %v", desc, o.writeN, o.writeErr, o.status, r, o.rtErr)
			}
			if o.writeN > c.Declared && !errored {
				return vf.Bad("C18/content-length/long-response-body", "%s: %d bytes were accepted from the handler and sent although only %d were declared, and the caller's body reader ended with a clean EOF: %v", desc, o.writeN, c.Declared, r)
			}
			if o.writeN < c.Declared && !errored {
				return vf.Bad("C18/content-length/short-response-body", "%s: the handler's accepted writes total %d of %d declared bytes (the overflowing Write was refused), yet the caller read a clean EOF: %v", desc, o.writeN, c.Declared, r)
			}
			if o.writeN == c.Declared && (errored || !r.EOF || r.N != c.Declared) {
				return vf.Bad("C18/content-length/exact-rejected", "%s: exactly the declared %d bytes were accepted before the refused Write; the caller read %v (RoundTrip error %v)", desc, c.Declared, r, o.rtErr)
			}
			break
		}
		if c.Dir == "req" && !o.invoked {
			break
		}
		if !errored {
			return vf.Bad("C18/content-length/long-"+dirName+"-body", "%s: the receiver's body reader ended with a clean EOF although the peer sent %d bytes more than declared: %v", desc, c.Actual-c.Declared, r)
		}
		if c.Via == "raw" {
			// RFC 9114 4.1.2: a message whose DATA frames do not add up to Content-Length is malformed => stream error H3_MESSAGE_ERROR
			if o.peerSaw && o.peerCode != h3MessageError {
				return vf.Bad("C18/content-length/wrong-error-code", "%s: the raw peer saw its stream aborted with %s, RFC 9114 4.1.2 requires H3_MESSAGE_ERROR", desc, h3Name(o.peerCode))
			}
			if c.Dir == "req" && o.peerClean {
				return vf.Bad("C18/content-length/long-request-body", "%s: the raw client received a complete response (status %d) for a malformed request", desc, o.status)
			}
			if o.peerSaw {
				u.Class("peer-saw-H3_MESSAGE_ERROR")
			}
		}
	}
	if followErr != nil {
		return vf.Bad("C18/content-length/follow-up-failed", "%s: a well-formed request after the mismatching one failed: %v", desc, followErr)
	}
	if zeroWrite != nil {
		return zeroWrite
	}
	u.Class(rel)
	u.Class(c.Dir + "/" + c.Via + "/" + rel)
	if c.Declared <= 1 {
		u.Class(fmt.Sprintf("declared-%d:%s/%s/%s", c.Declared, c.Dir, c.Via, rel))
	}
	if c.Trailers {
		u.Class("with-trailers")
	}
	if rel == "short" || rel == "long" {
		u.NonTrivial(c.Dir, c.Via, c.Declared, c.Actual, fmt.Sprint(c.Chunks), fmt.Sprint(c.Cuts), c.Trailers, c.ReadBuf)
		if u.WantSample() {
			u.Sample(c)
		}
	}
	return nil
}

func TestH3ContentLength(t *testing.T) {
	curT = t
	vf.ReplayRepeat = 20
	vf.RunRapid(t, "h3-content-length", genCLCase, checkCL)
}
