package c18

import (
	"bytes"
	"context"
	"fmt"
	"io"
	"net/http"
	"os"
	"testing"
	"time"

	tls "github.com/refraction-networking/utls"

	quic "github.com/refraction-networking/uquic"
	"github.com/refraction-networking/uquic/http3"
	"github.com/refraction-networking/uquic/verif/sim"
)

type shortReader struct{ n int }

func (s *shortReader) Read(p []byte) (int, error) {
	if s.n == 0 {
		return 0, io.EOF
	}
	k := min(len(p), s.n)
	for i := 0; i < k; i++ {
		p[i] = 'a'
	}
	s.n -= k
	return k, nil
}

func probeRun(t *testing.T, h http.HandlerFunc, do func(tr *http3.Transport) string) string {
	var out string
	sim.Bubble(t, 30*time.Second, func() {
		w := sim.NewWorld(20*time.Millisecond, nil, nil, nil)
		st := &quic.Transport{Conn: w.ServerConn}
		qc := &quic.Config{DisablePathMTUDiscovery: true, MaxIdleTimeout: 10 * time.Second}
		ln, _ := st.ListenEarly(http3.ConfigureTLSConfig(sim.ServerTLS(false, w.ServerKeys)), qc)
		srv := &http3.Server{Handler: h}
		go srv.ServeListener(ln)
		ct := &quic.Transport{Conn: w.ClientConn}
		tr := &http3.Transport{TLSClientConfig: sim.ClientTLS(w.ClientKeys), QUICConfig: qc.Clone(),
			Dial: func(ctx context.Context, addr string, tc *tls.Config, c *quic.Config) (*quic.Conn, error) {
				return ct.Dial(ctx, sim.ServerAddr, tc, c)
			}}
		out = do(tr)
		tr.Close()
		srv.Close()
		ln.Close()
		st.Close()
		ct.Close()
		w.Close()
	}, func(rep sim.LeakReport) { out += fmt.Sprintf("\nLEAK %d\n%s", rep.Count, rep.Dump) })
	return out
}

func TestProbeShort(t *testing.T) {
	// short response
	out := probeRun(t, func(rw http.ResponseWriter, r *http.Request) {
		rw.Header().Set("Content-Length", "10")
		rw.Write([]byte("12345"))
	}, func(tr *http3.Transport) string {
		req, _ := http.NewRequest("GET", "https://sim.example/x", nil)
		rsp, err := tr.RoundTrip(req)
		if err != nil {
			return "rt: " + err.Error()
		}
		b, err := io.ReadAll(rsp.Body)
		return fmt.Sprintf("short response: CL=%d body=%q err=%v", rsp.ContentLength, b, err)
	})
	t.Log(out)
	// short request
	var srvSaw string
	out = probeRun(t, func(rw http.ResponseWriter, r *http.Request) {
		b, err := io.ReadAll(r.Body)
		srvSaw = fmt.Sprintf("server: CL=%d body=%q err=%v", r.ContentLength, b, err)
	}, func(tr *http3.Transport) string {
		req, _ := http.NewRequest("POST", "https://sim.example/x", io.NopCloser(&shortReader{5}))
		req.ContentLength = 10
		rsp, err := tr.RoundTrip(req)
		if err != nil {
			return "rt: " + err.Error()
		}
		b, err := io.ReadAll(rsp.Body)
		return fmt.Sprintf("client: status=%d body=%q err=%v", rsp.StatusCode, b, err)
	})
	t.Log(out, " | ", srvSaw)
	// long request
	out = probeRun(t, func(rw http.ResponseWriter, r *http.Request) {
		b, err := io.ReadAll(r.Body)
		srvSaw = fmt.Sprintf("server: CL=%d body=%q err=%v", r.ContentLength, b, err)
	}, func(tr *http3.Transport) string {
		req, _ := http.NewRequest("POST", "https://sim.example/x", io.NopCloser(&shortReader{15}))
		req.ContentLength = 10
		rsp, err := tr.RoundTrip(req)
		if err != nil {
			return "rt: " + err.Error()
		}
		b, err := io.ReadAll(rsp.Body)
		return fmt.Sprintf("client: status=%d body=%q err=%v", rsp.StatusCode, b, err)
	})
	t.Log(out, " | ", srvSaw)
	// long response
	out = probeRun(t, func(rw http.ResponseWriter, r *http.Request) {
		rw.Header().Set("Content-Length", "10")
		n, err := rw.Write([]byte("12345"))
		n2, err2 := rw.Write([]byte("1234567"))
		srvSaw = fmt.Sprintf("server: %d %v %d %v", n, err, n2, err2)
	}, func(tr *http3.Transport) string {
		req, _ := http.NewRequest("GET", "https://sim.example/x", nil)
		rsp, err := tr.RoundTrip(req)
		if err != nil {
			return "rt: " + err.Error()
		}
		b, err := io.ReadAll(rsp.Body)
		return fmt.Sprintf("long response: CL=%d body=%q err=%v", rsp.ContentLength, b, err)
	})
	t.Log(out, " | ", srvSaw)
}

func TestProbeNilLogger(t *testing.T) {
	mode := os.Getenv("PROBE_MODE")
	out := probeRun(t, func(rw http.ResponseWriter, r *http.Request) {
		switch mode {
		case "invalid":
			rw.Header().Set("Trailer", "Content-Length")
		case "reset":
			rw.Header().Set("Trailer", "X-T")
			rw.Write(bytes.Repeat([]byte("x"), 5000))
			rw.(http.Flusher).Flush()
			<-r.Context().Done()
			rw.Header().Set("X-T", "v")
		}
	}, func(tr *http3.Transport) string {
		ctx, cancel := context.WithCancel(context.Background())
		req, _ := http.NewRequestWithContext(ctx, "GET", "https://sim.example/x", nil)
		rsp, err := tr.RoundTrip(req)
		if err != nil {
			return "rt: " + err.Error()
		}
		if mode == "reset" {
			buf := make([]byte, 100)
			rsp.Body.Read(buf)
			cancel()
			time.Sleep(time.Second)
			return "cancelled"
		}
		b, err := io.ReadAll(rsp.Body)
		cancel()
		return fmt.Sprintf("status=%d body=%d err=%v trailer=%v", rsp.StatusCode, len(b), err, rsp.Trailer)
	})
	t.Log(out)
}
