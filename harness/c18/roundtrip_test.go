package c18

import (
	"context"
	"encoding/json"
	"errors"
	"fmt"
	"io"
	"net/http"
	"net/http/httptrace"
	"net/textproto"
	"strconv"
	"strings"
	"sync"
	"testing"
	"time"

	"pgregory.net/rapid"

	"github.com/refraction-networking/uquic/verif/sim"
	"github.com/refraction-networking/uquic/verif/vf"
)

// Exch is one generated request/response exchange.
type Exch struct {
	// request
	Method   string   `json:"method"`
	Path     string   `json:"path"`            // escaped path below the "/<idx>" prefix, starts with "/" or is empty
	Query    string   `json:"query,omitempty"` // raw query, "" = none, "?" = bare question mark
	Host     string   `json:"host,omitempty"`  // Request.Host override
	ReqH     []Field  `json:"req_h,omitempty"`
	Cookies  []string `json:"cookies,omitempty"`
	Body     int      `json:"body"` // -1: no body (nil); >= 0: body of this length written through an io.Pipe
	BChunks  []int    `json:"b_chunks,omitempty"`
	DeclCL   bool     `json:"decl_cl,omitempty"` // Request.ContentLength = Body
	ReqT     []Field  `json:"req_t,omitempty"`   // request trailers (values set when the body ends)
	UserAE   string   `json:"user_ae,omitempty"` // Accept-Encoding set by the caller
	CReadBuf int      `json:"c_readbuf"`
	// handler
	Mode      int      `json:"mode"` // 0 read the body, then respond; 1 send the response header, read the body, write the body; 2 never read the body
	SReadBuf  int      `json:"s_readbuf"`
	Early     []Field  `json:"early,omitempty"` // fields set before the informational responses
	Pre       []int    `json:"pre,omitempty"`   // informational status codes sent before the final one
	Status    int      `json:"status"`
	Implicit  bool     `json:"implicit,omitempty"` // no WriteHeader call (status 200 implied by the first Write / return)
	RspH      []Field  `json:"rsp_h,omitempty"`
	SetCookie []string `json:"set_cookie,omitempty"`
	RBody     int      `json:"rbody"`
	RChunks   []int    `json:"r_chunks,omitempty"`
	Flush     []bool   `json:"flush,omitempty"` // flush after chunk i (cycled)
	RspCL     bool     `json:"rsp_cl,omitempty"` // handler declares the (correct) Content-Length itself
	DeclT     []Field  `json:"decl_t,omitempty"` // trailers declared in the Trailer field, values set after the body
	PrefT     []Field  `json:"pref_t,omitempty"` // trailers set with http.TrailerPrefix after the body
	BadT      string   `json:"bad_t,omitempty"`  // a name that is not allowed in trailers, declared in the Trailer field as well
	Gzip      bool     `json:"gzip,omitempty"`   // handler compresses when the request carries Accept-Encoding: gzip
}

// RTCase is one case of h3-roundtrip: 1..8 concurrent exchanges on one connection.
type RTCase struct {
	Client     string      `json:"client"`
	RTTms      int         `json:"rtt_ms"`
	IdleMs     int         `json:"idle_ms"`
	Reqs       []Exch      `json:"reqs"`
	Faults     []sim.Fault `json:"faults,omitempty"`
	Loss       *sim.Loss   `json:"loss,omitempty"`
	SrvLogger  bool        `json:"srv_logger"`
	CliLogger  bool        `json:"cli_logger"`
	NoCompress bool        `json:"no_compress,omitempty"`
	Seed       uint64      `json:"seed"`
}

// ---- generator ----

const nameChars = "abcdefghijklmnopqrstuvwxyzABCDEFGHIJKLMNOPQRSTUVWXYZ0123456789-"

func genName(t *rapid.T, prefix string) string {
	n := rapid.IntRange(1, 10).Draw(t, "namelen")
	b := []byte(prefix)
	for i := 0; i < n; i++ {
		b = append(b, nameChars[rapid.IntRange(0, len(nameChars)-1).Draw(t, "c")])
	}
	return string(b)
}

func genValue(t *rapid.T) string {
	switch rapid.IntRange(0, 9).Draw(t, "vkind") {
	case 0:
		return ""
	case 1:
		return "with several  words, commas; and = signs"
	case 2:
		return "café 世界"
	case 3:
		n := rapid.IntRange(200, 6000).Draw(t, "vlen")
		return strings.Repeat("v", n-1) + "!"
	case 4:
		return "\"quoted\\\" (comment) <a@b>"
	default:
		n := rapid.IntRange(1, 24).Draw(t, "vlen")
		b := make([]byte, n)
		for i := range b {
			b[i] = byte(rapid.IntRange(0x21, 0x7e).Draw(t, "vc"))
		}
		return string(b)
	}
}

// genFields draws a header multiset: names with the given prefix, sometimes stored under a non-canonical map key,
// sometimes two map keys that differ only in case, 1..4 values each.
func genFields(t *rapid.T, prefix string, max int) []Field {
	n := rapid.IntRange(0, max).Draw(t, "nfields")
	var fs []Field
	seen := map[string]bool{}
	for i := 0; i < n; i++ {
		name := genName(t, prefix)
		switch rapid.IntRange(0, 3).Draw(t, "case") {
		case 0:
			name = http.CanonicalHeaderKey(name)
		case 1:
			name = strings.ToLower(name)
		}
		if seen[name] {
			continue
		}
		seen[name] = true
		f := Field{K: name}
		nv := rapid.SampledFrom([]int{1, 1, 1, 2, 3, 4}).Draw(t, "nvals")
		for j := 0; j < nv; j++ {
			f.V = append(f.V, genValue(t))
		}
		fs = append(fs, f)
		if rapid.IntRange(0, 7).Draw(t, "twin") == 0 {
			twin := strings.ToUpper(name)
			if twin == name {
				twin = strings.ToLower(name)
			}
			if !seen[twin] {
				seen[twin] = true
				fs = append(fs, Field{K: twin, V: []string{genValue(t)}})
			}
		}
	}
	return fs
}

func genTrailerFields(t *rapid.T, prefix string, max int) []Field {
	n := rapid.IntRange(0, max).Draw(t, "ntrailers")
	var fs []Field
	seen := map[string]bool{}
	for i := 0; i < n; i++ {
		name := http.CanonicalHeaderKey(genName(t, prefix))
		if seen[name] {
			continue
		}
		seen[name] = true
		f := Field{K: name}
		nv := rapid.SampledFrom([]int{0, 1, 1, 1, 2, 3}).Draw(t, "nvals")
		for j := 0; j < nv; j++ {
			f.V = append(f.V, genValue(t))
		}
		fs = append(fs, f)
	}
	return fs
}

var pathSegs = []string{"a", "index.html", "A-b_c.d~e", "%20", "with%2Fslash", "caf%C3%A9", "x+y", "k=v;p", "@me", "0", "..", "%7Euser", "q,r", "UPPER"}

func genPath(t *rapid.T) string {
	n := rapid.IntRange(0, 4).Draw(t, "nseg")
	var sb strings.Builder
	for i := 0; i < n; i++ {
		sb.WriteByte('/')
		sb.WriteString(rapid.SampledFrom(pathSegs).Draw(t, "seg"))
	}
	if n > 0 && rapid.IntRange(0, 4).Draw(t, "trailing") == 0 {
		sb.WriteByte('/')
	}
	return sb.String()
}

func genQuery(t *rapid.T) string {
	return rapid.SampledFrom([]string{"", "", "a=1", "a=1&b=2&a=3", "q=%20x%26y&e=", "flag", "?", "x=caf%C3%A9&y=+z", "a=b=c&&d"}).Draw(t, "query")
}

func genSize(t *rapid.T, label string, big int) int {
	return rapid.OneOf(rapid.IntRange(0, 64), rapid.IntRange(0, 3000), rapid.IntRange(0, 3000), rapid.IntRange(3000, 20000), rapid.IntRange(4000, 70000), rapid.IntRange(70000, big)).Draw(t, label)
}

func genChunks(t *rapid.T, label string) []int {
	n := rapid.IntRange(1, 4).Draw(t, label+"n")
	var cs []int
	for i := 0; i < n; i++ {
		cs = append(cs, rapid.OneOf(rapid.IntRange(0, 16), rapid.IntRange(1, 3000), rapid.IntRange(1000, 70000)).Draw(t, label))
	}
	return cs
}

var badTrailerNames = []string{"Authorization", "If-Match", "Max-Forwards", "Pragma", "Www-Authenticate", "Cache-Control"}

func genExch(t *rapid.T, big int) Exch {
	e := Exch{}
	e.Method = rapid.SampledFrom([]string{"GET", "GET", "HEAD", "POST", "POST", "PUT", "DELETE", "OPTIONS", "PATCH", "PROPFIND", "M-SEARCH"}).Draw(t, "method")
	e.Path = genPath(t)
	e.Query = genQuery(t)
	e.Host = rapid.SampledFrom([]string{"", "", "", "alt.example", "sim.example:8443", "[2001:db8::1]:443"}).Draw(t, "host")
	e.ReqH = genFields(t, "X-", 5)
	if nc := rapid.SampledFrom([]int{0, 0, 1, 2, 3, 5}).Draw(t, "ncookies"); nc > 0 {
		for i := 0; i < nc; i++ {
			e.Cookies = append(e.Cookies, fmt.Sprintf("c%d=%s", i, rapid.SampledFrom([]string{"1", "abc", "a b", "x=y", ""}).Draw(t, "cookie")))
		}
	}
	e.Body = -1
	hasBody := e.Method == "POST" || e.Method == "PUT" || e.Method == "PATCH" || rapid.IntRange(0, 3).Draw(t, "bodyany") == 0
	if hasBody {
		e.Body = genSize(t, "body", big)
		e.BChunks = genChunks(t, "bchunk")
		e.DeclCL = rapid.Bool().Draw(t, "declcl")
		e.ReqT = genTrailerFields(t, "X-Rt-", 3)
	}
	e.UserAE = rapid.SampledFrom([]string{"", "", "", "gzip", "identity", "br, gzip"}).Draw(t, "userae")
	e.CReadBuf = rapid.SampledFrom([]int{1, 7, 512, 4096, 32768}).Draw(t, "creadbuf")
	e.SReadBuf = rapid.SampledFrom([]int{1, 13, 512, 4096, 32768}).Draw(t, "sreadbuf")
	e.Mode = rapid.SampledFrom([]int{0, 0, 0, 1, 1, 2}).Draw(t, "mode")
	if rapid.IntRange(0, 3).Draw(t, "has1xx") == 0 {
		e.Early = genFields(t, "X-Early-", 2)
		n := rapid.IntRange(1, 4).Draw(t, "n1xx")
		for i := 0; i < n; i++ {
			e.Pre = append(e.Pre, rapid.SampledFrom([]int{103, 103, 102, 100, 199}).Draw(t, "code1xx"))
		}
	}
	e.Status = rapid.SampledFrom([]int{200, 200, 200, 200, 201, 204, 304, 206, 301, 404, 418, 500, 503, 599}).Draw(t, "status")
	e.Implicit = e.Status == 200 && rapid.Bool().Draw(t, "implicit")
	e.RspH = genFields(t, "X-", 5)
	if ns := rapid.SampledFrom([]int{0, 0, 1, 3}).Draw(t, "nsetcookie"); ns > 0 {
		for i := 0; i < ns; i++ {
			e.SetCookie = append(e.SetCookie, fmt.Sprintf("s%d=v%d; Path=/", i, i))
		}
	}
	e.RBody = genSize(t, "rbody", big)
	e.RChunks = genChunks(t, "rchunk")
	nf := rapid.IntRange(1, 3).Draw(t, "nflush")
	for i := 0; i < nf; i++ {
		e.Flush = append(e.Flush, rapid.Bool().Draw(t, "flush"))
	}
	e.RspCL = rapid.IntRange(0, 3).Draw(t, "rspcl") == 0 && e.Status != 204 // a 204 response must not carry Content-Length (RFC 9110 8.6)
	switch rapid.IntRange(0, 4).Draw(t, "trailers") {
	case 0:
		e.DeclT = genTrailerFields(t, "X-T-", 3)
	case 1:
		e.PrefT = genTrailerFields(t, "X-P-", 3)
	case 2:
		e.DeclT = genTrailerFields(t, "X-T-", 2)
		e.PrefT = genTrailerFields(t, "X-P-", 2)
	}
	if rapid.IntRange(0, 9).Draw(t, "badt") == 0 {
		e.BadT = rapid.SampledFrom(badTrailerNames).Draw(t, "badname")
	}
	e.Gzip = rapid.IntRange(0, 2).Draw(t, "gzip") == 0
	return e
}

func genFaults(t *rapid.T, max int) []sim.Fault {
	n := rapid.SampledFrom([]int{0, 0, 1, 2, 3, max}).Draw(t, "nfaults")
	var fs []sim.Fault
	for i := 0; i < n; i++ {
		f := sim.Fault{
			Dir:  rapid.SampledFrom([]string{"c2s", "s2c"}).Draw(t, "dir"),
			Cls:  rapid.SampledFrom([]string{"", "", "1rtt", "1rtt", "initial", "handshake"}).Draw(t, "cls"),
			Kind: rapid.SampledFrom([]string{"drop", "drop", "drop", "dup", "delay"}).Draw(t, "kind"),
		}
		f.Nth = rapid.OneOf(rapid.IntRange(0, 12), rapid.IntRange(0, 60)).Draw(t, "nth")
		if f.Cls == "initial" || f.Cls == "handshake" {
			f.Nth = rapid.IntRange(0, 2).Draw(t, "nth-hs")
		}
		switch f.Kind {
		case "dup":
			f.Arg = rapid.IntRange(1, 3).Draw(t, "copies")
		case "delay":
			f.Arg = rapid.SampledFrom([]int{1, 5, 20, 60, 150, 400}).Draw(t, "delay")
		}
		fs = append(fs, f)
	}
	return fs
}

func genRTCase(t *rapid.T) RTCase {
	c := RTCase{Seed: rapid.Uint64().Draw(t, "seed")}
	c.Client = rapid.SampledFrom([]string{"plain", "plain", "plain", "spec:chrome115", "spec:chrome146", "spec:firefoxA"}).Draw(t, "client")
	c.RTTms = rapid.SampledFrom([]int{2, 10, 30, 80}).Draw(t, "rtt")
	c.IdleMs = rapid.SampledFrom([]int{10000, 30000}).Draw(t, "idle")
	big := 200 << 10
	if rapid.IntRange(0, 19).Draw(t, "huge") == 0 {
		big = 1 << 20
		if vf.Thorough() {
			big = 8 << 20
		}
	}
	n := rapid.SampledFrom([]int{1, 1, 2, 2, 3, 4, 6, 8}).Draw(t, "nreqs")
	for i := 0; i < n; i++ {
		c.Reqs = append(c.Reqs, genExch(t, big))
	}
	c.Faults = genFaults(t, 6)
	if rapid.IntRange(0, 5).Draw(t, "lossy") == 0 {
		from := rapid.IntRange(0, 400).Draw(t, "loss_from")
		c.Loss = &sim.Loss{Permille: rapid.IntRange(10, 250).Draw(t, "p"), FromMs: from, ToMs: from + rapid.IntRange(50, 1500).Draw(t, "loss_len"), Seed: rapid.Uint64().Draw(t, "loss_seed")}
	}
	c.SrvLogger = rapid.Bool().Draw(t, "srvlogger")
	c.CliLogger = rapid.Bool().Draw(t, "clilogger")
	c.NoCompress = rapid.IntRange(0, 3).Draw(t, "nocompress") == 0
	return c
}

// ---- reference model helpers ----

func (e *Exch) reqBody(seed uint64, idx int) []byte {
	if e.Body < 0 {
		return nil
	}
	return pattern(seed, 2*idx, e.Body)
}

// rspPlain is the response content the handler means to send (before content coding).
func (e *Exch) rspPlain(seed uint64, idx int) []byte {
	if e.Gzip {
		return compressible(seed, 2*idx+1, e.RBody)
	}
	return pattern(seed, 2*idx+1, e.RBody)
}

func bodyAllowed(status int) bool { return status != 204 && status != 304 }

// transparentGzip: the Transport asks for gzip itself (and then undoes it) iff compression is not disabled, the
// caller set neither Accept-Encoding nor Range, and the method is not HEAD (net/http Transport semantics).
func (c *RTCase) transparentGzip(e *Exch) bool {
	return !c.NoCompress && e.UserAE == "" && e.Method != "HEAD"
}

func (c *RTCase) serverSeesGzip(e *Exch) bool {
	return c.transparentGzip(e) || strings.Contains(e.UserAE, "gzip")
}

func (e *Exch) url(idx int) string {
	q := e.Query
	if q != "" && q != "?" {
		q = "?" + q
	}
	return fmt.Sprintf("https://%s/%d%s%s", sim.ServerName, idx, e.Path, q)
}

// ---- what each side observed ----

type srvSeen struct {
	Calls      int
	Method     string
	RequestURI string
	Path       string
	RawPath    string
	RawQuery   string
	Host       string
	Proto      string
	Header     http.Header
	CL         int64
	PreTrailer http.Header
	Body       readResult
	BodyRead   bool
	Trailer    http.Header
	WriteErr   error
	WriteBad   string // a Write result that contradicts net/http semantics
	Done       bool
}

type cliSeen struct {
	Err       error
	Status    int
	Proto     string
	Header    http.Header
	CL        int64
	Uncomp    bool
	PreT      http.Header
	Body      readResult
	Trailer   http.Header
	Codes1xx  []int
	Bad1xx    string
	Responded bool
	At        time.Duration
}

type rtRun struct {
	c    RTCase
	mu   sync.Mutex
	srv  []srvSeen
	cli  []cliSeen
	bad  *vf.Verdict
	rec  recorder
	idle time.Duration
}

func (r *rtRun) fail(v *vf.Verdict) {
	r.mu.Lock()
	if r.bad == nil {
		r.bad = v
	}
	r.mu.Unlock()
}

// ServeHTTP is the generated handler.
func (r *rtRun) ServeHTTP(w http.ResponseWriter, req *http.Request) {
	idx := -1
	if p := strings.SplitN(strings.TrimPrefix(req.URL.Path, "/"), "/", 2); len(p) > 0 {
		if n, err := strconv.Atoi(p[0]); err == nil && n >= 0 && n < len(r.c.Reqs) {
			idx = n
		}
	}
	if idx < 0 {
		r.fail(vf.Bad("C18/request/url", "handler called with a path that no exchange of the case has: %q (RequestURI %q)", req.URL.Path, req.RequestURI))
		return
	}
	e := &r.c.Reqs[idx]
	s := &r.srv[idx]
	defer func() {
		if p := recover(); p != nil {
			if p == http.ErrAbortHandler {
				panic(p)
			}
			r.fail(recovered(fmt.Sprintf("the handler of exchange %d (server Logger set: %v)", idx, r.c.SrvLogger), p))
			panic(http.ErrAbortHandler)
		}
	}()
	r.mu.Lock()
	s.Calls++
	s.Method, s.RequestURI, s.Path, s.RawPath, s.RawQuery, s.Host, s.Proto = req.Method, req.RequestURI, req.URL.Path, req.URL.EscapedPath(), req.URL.RawQuery, req.Host, req.Proto
	s.Header, s.CL, s.PreTrailer = cloneHeader(req.Header), req.ContentLength, cloneHeader(req.Trailer)
	r.mu.Unlock()
	readBody := func() {
		res := drain(req.Body, e.reqBody(r.c.Seed, idx), bufFor(e.Body, e.SReadBuf))
		r.mu.Lock()
		s.Body, s.BodyRead, s.Trailer = res, true, cloneHeader(req.Trailer)
		r.mu.Unlock()
	}
	if e.Mode == 0 {
		readBody()
	}
	h := w.Header()
	for _, f := range e.Early {
		h[f.K] = f.V
	}
	for _, code := range e.Pre {
		w.WriteHeader(code)
	}
	for _, f := range e.RspH {
		h[f.K] = f.V
	}
	if len(e.SetCookie) > 0 {
		h["Set-Cookie"] = e.SetCookie
	}
	var decl []string
	for _, f := range e.DeclT {
		decl = append(decl, f.K)
	}
	if e.BadT != "" {
		decl = append(decl, e.BadT)
		h.Set(e.BadT, "plain-header-value")
	}
	if len(decl) > 2 {
		h["Trailer"] = []string{strings.Join(decl[:2], ", "), strings.Join(decl[2:], ",")}
	} else if len(decl) > 0 {
		h.Set("Trailer", strings.Join(decl, ", "))
	}
	body := e.rspPlain(r.c.Seed, idx)
	if e.Gzip && strings.Contains(req.Header.Get("Accept-Encoding"), "gzip") {
		h.Set("Content-Encoding", "gzip")
		body = gz(body)
	}
	if e.RspCL {
		h.Set("Content-Length", strconv.Itoa(len(body)))
	}
	if !e.Implicit {
		w.WriteHeader(e.Status)
	}
	if e.Mode == 1 {
		w.(http.Flusher).Flush()
		readBody()
	}
	off, ci := 0, 0
	var scratch []byte
	for off < len(body) {
		n := chunkAt(e.RChunks, ci)
		if off+n > len(body) {
			n = len(body) - off
		}
		// handlers commonly write from one re-used buffer (io.CopyBuffer, bufio, encoders): io.Writer forbids Write to
		// retain the slice, so the bytes are copied into a scratch buffer that is overwritten as soon as Write returns
		if cap(scratch) < n {
			scratch = make([]byte, n)
		}
		scratch = scratch[:n]
		copy(scratch, body[off:off+n])
		m, err := w.Write(scratch)
		for i := range scratch {
			scratch[i] = 0xEE
		}
		switch {
		case !bodyAllowed(e.Status):
			if m != 0 || !errors.Is(err, http.ErrBodyNotAllowed) {
				s.WriteBad = fmt.Sprintf("Write of %d bytes on a %d response returned (%d, %v), want (0, http.ErrBodyNotAllowed)", n, e.Status, m, err)
			}
		case err != nil:
			r.mu.Lock()
			s.WriteErr = err
			r.mu.Unlock()
			off = len(body)
		case m != n:
			s.WriteBad = fmt.Sprintf("Write of %d bytes returned (%d, nil)", n, m)
		}
		off += n
		if e.Flush[ci%len(e.Flush)] {
			w.(http.Flusher).Flush()
		}
		ci++
	}
	for _, f := range e.DeclT {
		if len(f.V) > 0 {
			h[f.K] = f.V
		}
	}
	for _, f := range e.PrefT {
		if len(f.V) > 0 {
			h[http.TrailerPrefix+f.K] = f.V
		}
	}
	r.mu.Lock()
	s.Done = true
	r.mu.Unlock()
}

// client runs exchange idx through the Transport.
func (r *rtRun) client(env *env, idx int, wg *sync.WaitGroup) {
	defer wg.Done()
	e := &r.c.Reqs[idx]
	cs := &r.cli[idx]
	defer func() {
		if p := recover(); p != nil {
			r.fail(recovered(fmt.Sprintf("the client call of exchange %d", idx), p))
		}
	}()
	ctx, cancel := context.WithTimeout(context.Background(), 150*time.Second)
	defer cancel()
	ctx = httptrace.WithClientTrace(ctx, &httptrace.ClientTrace{Got1xxResponse: func(code int, h textproto.MIMEHeader) error {
		r.mu.Lock()
		cs.Codes1xx = append(cs.Codes1xx, code)
		if msg := checkFields(e.Early, http.Header(h)); msg != "" && cs.Bad1xx == "" {
			cs.Bad1xx = fmt.Sprintf("informational response %d: %s", code, msg)
		}
		r.mu.Unlock()
		return nil
	}})
	var rd io.Reader
	var pw *io.PipeWriter
	var pr *io.PipeReader
	if e.Body >= 0 {
		pr, pw = io.Pipe()
		rd = pr
	}
	req, err := http.NewRequestWithContext(ctx, e.Method, e.url(idx), rd)
	if err != nil {
		r.fail(vf.Bad("C18/harness/request", "http.NewRequest(%q, %q): %v", e.Method, e.url(idx), err))
		return
	}
	if e.Host != "" {
		req.Host = e.Host
	}
	for _, f := range e.ReqH {
		req.Header[f.K] = append([]string(nil), f.V...)
	}
	if len(e.Cookies) > 0 {
		req.Header["Cookie"] = append([]string(nil), e.Cookies...)
	}
	if e.UserAE != "" {
		req.Header.Set("Accept-Encoding", e.UserAE)
	}
	var wwg sync.WaitGroup
	if e.Body >= 0 {
		if e.DeclCL {
			req.ContentLength = int64(e.Body)
		}
		if len(e.ReqT) > 0 {
			req.Trailer = http.Header{}
			for _, f := range e.ReqT {
				req.Trailer[f.K] = nil
			}
		}
		data := e.reqBody(r.c.Seed, idx)
		wwg.Add(1)
		go func() {
			defer wwg.Done()
			off, ci := 0, 0
			for off < len(data) {
				n := chunkAt(e.BChunks, ci)
				ci++
				if off+n > len(data) {
					n = len(data) - off
				}
				// the same for the request body: written from a buffer that is re-used afterwards
				rb := append([]byte(nil), data[off:off+n]...)
				_, err := pw.Write(rb)
				for i := range rb {
					rb[i] = 0xEE
				}
				if err != nil {
					return
				}
				off += n
			}
			for _, f := range e.ReqT {
				if len(f.V) > 0 {
					req.Trailer[f.K] = append([]string(nil), f.V...)
				}
			}
			pw.Close()
		}()
	}
	rsp, err := env.tr.RoundTrip(req)
	if err != nil {
		r.mu.Lock()
		cs.Err, cs.At = err, env.w.Router.Now()
		r.mu.Unlock()
	} else {
		r.mu.Lock()
		cs.Responded = true
		cs.Status, cs.Proto, cs.Header, cs.CL, cs.Uncomp, cs.PreT = rsp.StatusCode, rsp.Proto, cloneHeader(rsp.Header), rsp.ContentLength, rsp.Uncompressed, cloneHeader(rsp.Trailer)
		r.mu.Unlock()
		res := drain(rsp.Body, r.wantClientBody(idx), bufFor(e.RBody, e.CReadBuf))
		r.mu.Lock()
		cs.Body, cs.Trailer, cs.At = res, cloneHeader(rsp.Trailer), env.w.Router.Now()
		r.mu.Unlock()
		rsp.Body.Close()
	}
	if pr != nil {
		pr.CloseWithError(errors.New("exchange finished"))
	}
	wwg.Wait()
}

// wantClientBody is the byte string the caller of RoundTrip must read from Response.Body.
func (r *rtRun) wantClientBody(idx int) []byte {
	e := &r.c.Reqs[idx]
	if e.Method == "HEAD" || !bodyAllowed(e.Status) {
		return nil
	}
	plain := e.rspPlain(r.c.Seed, idx)
	if e.Gzip && r.c.serverSeesGzip(e) && !r.c.transparentGzip(e) {
		return gz(plain) // the caller asked for gzip itself: it gets the coded bytes
	}
	return plain
}

// ---- the check ----

func needsIsolationRT(c RTCase) bool {
	if c.SrvLogger {
		return false
	}
	for _, e := range c.Reqs {
		if e.BadT != "" {
			return true
		}
	}
	return false
}

func checkRT(c RTCase, u *vf.Unit) *vf.Verdict {
	u.Journal(c)
	if needsIsolationRT(c) && wantIsolation() {
		u.Class("isolated")
		return isolate("h3-roundtrip", c, u)
	}
	v := runRT(c, u)
	if v == nil && len(c.Reqs) == 2 && len(c.Faults) > 0 && u.WantSample() {
		u.Sample(c)
	}
	return v
}

func init() {
	childRunners["h3-roundtrip"] = func(raw json.RawMessage, rec recorder) *vf.Verdict {
		var c RTCase
		if err := json.Unmarshal(raw, &c); err != nil {
			return vf.Bad("C18/harness/child", "bad case: %v", err)
		}
		return runRT(c, rec)
	}
}

func runRT(c RTCase, rec recorder) *vf.Verdict {
	var v *vf.Verdict
	var trace any
	sim.Bubble(curT, 60*time.Second, func() { v = runRTBubble(c, rec, &trace) }, func(rep sim.LeakReport) {
		if v == nil {
			v = vf.Bad("C18/leak/goroutines", "%d goroutines still alive 60 s (virtual) after Transport, Server and both QUIC transports were closed:\n%s", rep.Count, rep.Dump)
		}
	})
	if v != nil && v.Trace == nil {
		v.Trace = trace
	}
	return v
}

func runRTBubble(c RTCase, rec recorder, trace *any) *vf.Verdict {
	r := &rtRun{c: c, srv: make([]srvSeen, len(c.Reqs)), cli: make([]cliSeen, len(c.Reqs)), rec: rec, idle: time.Duration(c.IdleMs) * time.Millisecond}
	env, err := newEnv(envOpts{Client: c.Client, RTT: time.Duration(c.RTTms) * time.Millisecond, Faults: c.Faults, Loss: c.Loss, Idle: r.idle,
		SrvLogger: c.SrvLogger, CliLogger: c.CliLogger, NoCompress: c.NoCompress, Handler: r})
	if err != nil {
		return vf.Bad("C18/harness/env", "%v", err)
	}
	var wg sync.WaitGroup
	for i := range c.Reqs {
		wg.Add(1)
		go r.client(env, i, &wg)
	}
	done := make(chan struct{})
	go func() { wg.Wait(); close(done) }()
	stalled := !sim.WaitCtx(done, 200*time.Second)
	applied := env.w.Router.AppliedFaults()
	*trace = env.w.Router.Trace(300)
	if stalled {
		// the request contexts (150 s) should have ended every call by now
		env.close()
		<-done
		return vf.Bad("C18/liveness/stall", "RoundTrip / body reads did not return within 200 s virtual time (request contexts expire after 150 s); faults applied %v", applied)
	}
	v := r.judge(env, applied)
	env.close()
	return v
}

func (r *rtRun) judge(env *env, applied []string) *vf.Verdict {
	c := &r.c
	r.mu.Lock()
	defer r.mu.Unlock()
	if r.bad != nil {
		return r.bad
	}
	// 1. failures: only a dead network excuses them
	for i := range c.Reqs {
		e, s, cs := &c.Reqs[i], &r.srv[i], &r.cli[i]
		var ferr error
		var what string
		switch {
		case cs.Err != nil:
			ferr, what = cs.Err, "RoundTrip returned an error"
		case cs.Body.err != nil:
			ferr, what = cs.Body.err, fmt.Sprintf("reading the response body failed after %d bytes", cs.Body.N)
		case s.BodyRead && s.Body.err != nil:
			ferr, what = s.Body.err, fmt.Sprintf("the handler's request body read failed after %d bytes", s.Body.N)
		case s.WriteErr != nil:
			ferr, what = s.WriteErr, "the handler's Write failed"
		}
		if ferr != nil {
			if justified(env.w, ferr, r.idle) {
				r.rec.Class("justified-timeout")
				return nil
			}
			return vf.Bad("C18/exchange/unjustified-error", "exchange %d (%s %s): %s: %v — the network only dropped / duplicated / delayed datagrams (applied: %v, longest dead stretch %v, idle timeout %v)",
				i, e.Method, e.url(i), what, ferr, applied, env.w.Router.DeadStretch(env.w.Router.Now()), r.idle)
		}
	}
	// 2. content
	for i := range c.Reqs {
		if v := r.compare(i); v != nil {
			return v
		}
	}
	// 3. bookkeeping
	r.rec.Class("completed")
	r.rec.Class("client:" + strings.SplitN(c.Client, ":", 2)[0])
	r.rec.Class(fmt.Sprintf("concurrent:%d", len(c.Reqs)))
	if c.SrvLogger {
		r.rec.Class("srv-logger-set")
	} else {
		r.rec.Class("srv-logger-nil")
	}
	if len(applied) > 0 {
		r.rec.Class("fault-applied")
	}
	bigBody, anyTrailers := false, false
	for i := range c.Reqs {
		e := &c.Reqs[i]
		r.rec.Class("method:" + e.Method)
		r.rec.Class(fmt.Sprintf("status:%d", e.Status))
		r.rec.Class(fmt.Sprintf("mode:%d", e.Mode))
		if e.Body >= 0 {
			r.rec.Class("req-body")
			if e.DeclCL && e.Body > 0 {
				r.rec.Class("req-content-length")
			}
		}
		if hasValues(e.ReqT) {
			r.rec.Class("req-trailers")
			anyTrailers = true
		}
		if hasValues(e.DeclT) {
			r.rec.Class("rsp-trailers-declared")
			anyTrailers = true
		}
		if hasValues(e.PrefT) {
			r.rec.Class("rsp-trailers-prefix")
			anyTrailers = true
		}
		if e.BadT != "" {
			r.rec.Class("rsp-invalid-trailer-name")
		}
		if len(e.Pre) > 0 {
			r.rec.Class("1xx")
		}
		if len(e.Cookies) > 1 {
			r.rec.Class("cookie-multi")
		}
		if e.Method == "HEAD" {
			r.rec.Class("head")
		}
		if e.Gzip && c.serverSeesGzip(e) && e.Method != "HEAD" && bodyAllowed(e.Status) {
			if c.transparentGzip(e) {
				r.rec.Class("gzip-transparent")
			} else {
				r.rec.Class("gzip-raw")
			}
		}
		if e.Body > 1200 || e.RBody > 1200 {
			bigBody = true
		}
		if e.Body >= 256<<10 || e.RBody >= 256<<10 {
			r.rec.Class("body>=256KiB")
		}
		for _, f := range append(append([]Field(nil), e.ReqH...), e.RspH...) {
			if f.K != http.CanonicalHeaderKey(f.K) {
				r.rec.Class("mixed-case-name")
				break
			}
		}
	}
	if bigBody && (anyTrailers || len(c.Reqs) >= 2 || len(applied) > 0) {
		b, _ := json.Marshal(c.Reqs)
		r.rec.NonTrivial(c.Client, string(b), strings.Join(applied, ","))
	}
	return nil
}

// bufFor keeps tiny read buffers for small bodies only (a 1-byte buffer on a megabyte body costs seconds).
func bufFor(size, buf int) int {
	if size > 32<<10 && buf < 512 {
		return 512
	}
	return buf
}

func hasValues(fs []Field) bool {
	for _, f := range fs {
		if len(f.V) > 0 {
			return true
		}
	}
	return false
}

// compare checks one completed exchange against the reference model of net/http semantics.
func (r *rtRun) compare(i int) *vf.Verdict {
	c, e, s, cs := &r.c, &r.c.Reqs[i], &r.srv[i], &r.cli[i]
	id := fmt.Sprintf("exchange %d (%s %s, client %s)", i, e.Method, e.url(i), c.Client)
	if s.Calls != 1 {
		return vf.Bad("C18/request/handler-calls", "%s: the handler was called %d times for one RoundTrip", id, s.Calls)
	}
	if !s.Done {
		return vf.Bad("C18/request/handler-calls", "%s: RoundTrip and the body read completed but the handler has not returned", id)
	}
	// --- what the handler saw
	if s.Method != e.Method {
		return vf.Bad("C18/request/method", "%s: handler saw method %q", id, s.Method)
	}
	wantURI := fmt.Sprintf("/%d%s", i, e.Path)
	wantQuery := e.Query
	if e.Query == "?" {
		wantURI, wantQuery = wantURI+"?", ""
	} else if e.Query != "" {
		wantURI += "?" + e.Query
	}
	if s.RequestURI != wantURI || s.RawPath != fmt.Sprintf("/%d%s", i, e.Path) || s.RawQuery != wantQuery {
		return vf.Bad("C18/request/url", "%s: handler saw RequestURI %q, escaped path %q, raw query %q; want %q, %q, %q", id, s.RequestURI, s.RawPath, s.RawQuery, wantURI, fmt.Sprintf("/%d%s", i, e.Path), wantQuery)
	}
	wantHost := e.Host
	if wantHost == "" {
		wantHost = sim.ServerName
	}
	if s.Host != wantHost {
		return vf.Bad("C18/request/url", "%s: handler saw Host %q, want %q", id, s.Host, wantHost)
	}
	if s.Proto != "HTTP/3.0" {
		return vf.Bad("C18/request/url", "%s: handler saw Proto %q", id, s.Proto)
	}
	if msg := checkFields(e.ReqH, s.Header); msg != "" {
		return vf.Bad("C18/request/header", "%s: %s", id, msg)
	}
	if len(e.Cookies) > 0 {
		if got, want := s.Header["Cookie"], strings.Join(e.Cookies, "; "); len(got) != 1 || got[0] != want {
			return vf.Bad("C18/request/cookie", "%s: %d Cookie fields %q sent, handler has %q, want one field %q", id, len(e.Cookies), e.Cookies, got, want)
		}
	} else if len(s.Header["Cookie"]) != 0 {
		return vf.Bad("C18/request/cookie", "%s: no Cookie sent, handler has %q", id, s.Header["Cookie"])
	}
	wantAE := e.UserAE
	if c.transparentGzip(e) {
		wantAE = "gzip"
	}
	if got := strings.Join(s.Header["Accept-Encoding"], "|"); got != wantAE {
		return vf.Bad("C18/request/header", "%s: handler saw Accept-Encoding %q, want %q (DisableCompression %v, caller's value %q)", id, got, wantAE, c.NoCompress, e.UserAE)
	}
	switch {
	case e.Body > 0 && e.DeclCL:
		if s.CL != int64(e.Body) {
			return vf.Bad("C18/request/content-length", "%s: Request.ContentLength %d declared, handler saw %d", id, e.Body, s.CL)
		}
	case e.Body < 0:
		if s.CL != 0 && s.CL != -1 {
			return vf.Bad("C18/request/content-length", "%s: no body, handler saw ContentLength %d", id, s.CL)
		}
	default:
		if s.CL != -1 && s.CL != int64(e.Body) {
			return vf.Bad("C18/request/content-length", "%s: undeclared body of %d bytes, handler saw ContentLength %d", id, e.Body, s.CL)
		}
	}
	if s.BodyRead {
		want := max(e.Body, 0)
		if s.Body.BadAt >= 0 || s.Body.Extra || !s.Body.EOF || s.Body.N != want {
			return vf.Bad("C18/request/body", "%s: request body of %d bytes (chunks %v, Content-Length declared %v): handler read %v", id, want, e.BChunks, e.DeclCL, s.Body)
		}
		if e.Body >= 0 {
			if msg := checkTrailers(e.ReqT, s.Trailer); msg != "" {
				return vf.Bad("C18/request/trailer", "%s: after EOF of the request body: %s (Request.Trailer %v)", id, msg, s.Trailer)
			}
		}
	}
	if s.WriteBad != "" {
		return vf.Bad("C18/response/write-result", "%s: %s", id, s.WriteBad)
	}
	// --- what the client saw
	if cs.Status != e.Status {
		return vf.Bad("C18/response/status", "%s: handler wrote status %d, client got %d", id, e.Status, cs.Status)
	}
	if cs.Proto != "HTTP/3.0" {
		return vf.Bad("C18/response/status", "%s: Response.Proto %q", id, cs.Proto)
	}
	if fmt.Sprint(cs.Codes1xx) != fmt.Sprint(e.Pre) && !(len(cs.Codes1xx) == 0 && len(e.Pre) == 0) {
		return vf.Bad("C18/response/informational", "%s: handler sent informational responses %v before the final one, client trace saw %v", id, e.Pre, cs.Codes1xx)
	}
	if cs.Bad1xx != "" {
		return vf.Bad("C18/response/informational", "%s: %s", id, cs.Bad1xx)
	}
	wantH := append(append([]Field(nil), e.Early...), e.RspH...)
	if msg := checkFields(wantH, cs.Header); msg != "" {
		return vf.Bad("C18/response/header", "%s: %s", id, msg)
	}
	if len(e.SetCookie) > 0 && !matchGroups(cs.Header["Set-Cookie"], [][]string{e.SetCookie}) {
		return vf.Bad("C18/response/header", "%s: Set-Cookie %q written, client has %q", id, e.SetCookie, cs.Header["Set-Cookie"])
	}
	if e.BadT != "" {
		if got := cs.Header[e.BadT]; len(got) != 1 || got[0] != "plain-header-value" {
			return vf.Bad("C18/response/header", "%s: field %q (named in Trailer although not allowed there, value set before the header was written) must stay an ordinary header field; client has %q", id, e.BadT, got)
		}
	}
	wantBody := r.wantClientBody(i)
	if cs.Body.BadAt >= 0 || cs.Body.Extra || !cs.Body.EOF || cs.Body.N != len(wantBody) {
		sig := "C18/response/body"
		if len(wantBody) == 0 {
			sig = "C18/response/body-not-allowed"
		}
		return vf.Bad(sig, "%s: status %d, handler wrote %d bytes (chunks %v, flush %v, gzip coded %v, transparent %v): client must read %d bytes, read %v", id, e.Status, e.RBody, e.RChunks, e.Flush,
			e.Gzip && c.serverSeesGzip(e), c.transparentGzip(e), len(wantBody), cs.Body)
	}
	coded := e.Gzip && c.serverSeesGzip(e)
	undone := coded && c.transparentGzip(e) // HEAD never asks for gzip
	if cs.Uncomp != (undone && e.Method != "HEAD") {
		return vf.Bad("C18/response/header", "%s: Response.Uncompressed = %v, want %v", id, cs.Uncomp, undone)
	}
	if ce := cs.Header.Get("Content-Encoding"); (ce == "gzip") != (coded && !undone) {
		return vf.Bad("C18/response/header", "%s: client sees Content-Encoding %q (handler coded %v, transport undid it %v)", id, ce, coded, undone)
	}
	// Response.ContentLength: unknown, or the length of the representation on the wire
	wire := e.RBody
	if coded {
		wire = len(gz(e.rspPlain(c.Seed, i)))
	}
	okCL := cs.CL == -1
	switch {
	case undone:
		okCL = cs.CL == -1
	case e.Method == "HEAD":
		okCL = cs.CL == -1 || cs.CL == int64(wire) || (!bodyAllowed(e.Status) && cs.CL == 0)
	case !bodyAllowed(e.Status):
		okCL = cs.CL == -1 || cs.CL == 0 || (e.RspCL && cs.CL == int64(wire))
	default:
		okCL = cs.CL == -1 || cs.CL == int64(wire)
	}
	if !okCL {
		return vf.Bad("C18/response/content-length", "%s: Response.ContentLength = %d; the representation on the wire has %d bytes (status %d, handler declared it: %v)", id, cs.CL, wire, e.Status, e.RspCL)
	}
	wantT := append(append([]Field(nil), e.DeclT...), e.PrefT...)
	if msg := checkTrailers(wantT, cs.Trailer); msg != "" {
		return vf.Bad("C18/response/trailer", "%s: after EOF of the response body: %s (Response.Trailer %v; declared %v, prefixed %v)", id, msg, cs.Trailer, e.DeclT, e.PrefT)
	}
	return nil
}

func TestH3RoundTrip(t *testing.T) {
	curT = t
	vf.ReplayRepeat = 30
	vf.RunRapid(t, "h3-roundtrip", genRTCase, checkRT)
}
