package c18

// h3-goaway: graceful shutdown (RFC 9114 section 5.2, GOAWAY frame 7.2.6) while requests are in flight.
//
// Added after seed C18-e (GOAWAY parser compared the MINIMAL encoding length of the decoded stream ID with the frame's
// length field: a well-formed GOAWAY with a longer-than-minimal varint made the client close with H3_FRAME_ERROR and
// every request in flight lost its response). No unit sent GOAWAY with requests in flight, and no unit wrote a
// payload varint in a non-minimal form.
//
// Three modes:
//   script   : scripted raw SERVER, in-tree http3.Transport. 1..3 requests are in flight (the raw server has read
//              them completely) when the server writes a generated sequence of GOAWAY frames on its control stream,
//              every varint of which (type, length, stream ID) has a generated width; then it rejects the requests
//              at or above the final identifier (H3_REQUEST_REJECTED) and answers the others, while 0..2 further
//              RoundTrips are started on the same Transport.
//   shutdown : in-tree http3.Server.Shutdown with 1..3 handlers running, against a raw client (which reads the GOAWAY
//              frame, tries a request beyond it, and finally closes with H3_NO_ERROR) or against the in-tree Transport
//              (a second http3.Server takes over the listener: rolling restart).
//   close    : in-tree http3.Server.Close with handlers running: abrupt, every request in flight must end in an error,
//              never in a clean but shortened response.

import (
	"context"
	"encoding/json"
	"fmt"
	"io"
	"net/http"
	"strings"
	"sync"
	"testing"
	"time"

	"pgregory.net/rapid"

	quic "github.com/refraction-networking/uquic"
	"github.com/refraction-networking/uquic/http3"
	"github.com/refraction-networking/uquic/verif/sim"
	"github.com/refraction-networking/uquic/verif/vf"
)

const maxGoawayID = 1<<62 - 4 // the largest client-initiated bidirectional stream ID (RFC 9114 5.2: "initial" GOAWAY)

// GAStep is one GOAWAY frame of the script.
type GAStep struct {
	ID    uint64 `json:"id"`
	TW    int    `json:"tw,omitempty"` // width of the type varint (0: case-level generated encoding; 1, 2, 4, 8)
	LW    int    `json:"lw,omitempty"` // width of the length varint
	IW    int    `json:"iw,omitempty"` // width of the stream ID varint (raised to the minimum the value needs)
	Split int    `json:"split,omitempty"`
	GapMs int    `json:"gap_ms,omitempty"`
}

// GACase is one case of h3-goaway.
type GACase struct {
	Mode      string    `json:"mode"`   // script | shutdown | close
	Client    string    `json:"client"` // script: plain | spec:<base>; shutdown / close: raw | plain | spec:<base>
	NReq      int       `json:"nreq"`   // requests in flight: stream IDs 0, 4, .. 4(NReq-1)
	Kind      string    `json:"kind,omitempty"`
	Steps     []GAStep  `json:"steps,omitempty"`
	Bodies    []int     `json:"bodies"`            // response body sizes of the requests in flight
	Partial   bool      `json:"partial,omitempty"` // script: header + first half of the body of the requests that will be served are sent BEFORE the GOAWAY
	Lifo      bool      `json:"lifo,omitempty"`    // answer in reverse order
	Late      int       `json:"late"`              // RoundTrips started after the (last) GOAWAY was delivered
	LatePost  bool      `json:"late_post,omitempty"`
	Cuts      []int     `json:"cuts,omitempty"`
	GapMs     int       `json:"gap_ms,omitempty"`
	RTTms     int       `json:"rtt_ms"`
	SrvLogger bool      `json:"srv_logger"`
	CliLogger bool      `json:"cli_logger"`
	Seed      uint64    `json:"seed"`
	VSeed     uint64    `json:"vseed,omitempty"`
	VDens     int       `json:"vdens,omitempty"`
	XUni      []UniOpen `json:"xuni,omitempty"` // further unidirectional streams of the raw peer (see UniOpen in rawlib_test.go)
}

// (rapid prefers the front of a list)
var gaScriptKinds = []string{"cancel", "max-cancel", "increase", "bad-id", "three-steps", "far", "max-only", "decreasing", "same-twice", "max-next", "bad-id-after-max", "next", "next", "cancel"}

func genGAStepEnc(t *rapid.T, st *GAStep) {
	st.TW = rapid.SampledFrom([]int{0, 0, 1, 2, 4, 8}).Draw(t, "tw")
	st.LW = rapid.SampledFrom([]int{0, 0, 1, 2, 4, 8}).Draw(t, "lw")
	st.IW = rapid.SampledFrom([]int{0, 1, 2, 4, 8, 8}).Draw(t, "iw")
	st.Split = rapid.SampledFrom([]int{0, 0, 1, 2, 3, 5}).Draw(t, "split")
	st.GapMs = rapid.SampledFrom([]int{0, 1, 10, 100}).Draw(t, "stepgap")
}

func genGACase(t *rapid.T) GACase {
	c := GACase{Seed: rapid.Uint64().Draw(t, "seed")}
	c.Mode = rapid.SampledFrom([]string{"script", "script", "script", "script", "shutdown", "shutdown", "close"}).Draw(t, "mode")
	c.NReq = rapid.IntRange(1, 3).Draw(t, "nreq")
	c.RTTms = rapid.SampledFrom([]int{2, 20, 60}).Draw(t, "rtt")
	c.SrvLogger = rapid.Bool().Draw(t, "srvlogger")
	c.CliLogger = rapid.Bool().Draw(t, "clilogger")
	for i := 0; i < c.NReq; i++ {
		c.Bodies = append(c.Bodies, rapid.OneOf(rapid.Just(0), rapid.IntRange(1, 100), rapid.IntRange(100, 5000), rapid.IntRange(5000, 40000)).Draw(t, "body"))
	}
	c.Lifo = rapid.Bool().Draw(t, "lifo")
	c.Late = rapid.SampledFrom([]int{0, 1, 1, 2}).Draw(t, "late")
	c.LatePost = rapid.Bool().Draw(t, "latepost")
	switch c.Mode {
	case "script":
		c.Client = rapid.SampledFrom([]string{"plain", "plain", "plain", "spec:chrome115", "spec:firefoxA"}).Draw(t, "client")
		c.Kind = rapid.SampledFrom(gaScriptKinds).Draw(t, "kind")
		n4 := uint64(4 * c.NReq)
		cancel := func() uint64 { return 4 * uint64(rapid.IntRange(0, c.NReq-1).Draw(t, "cancel")) }
		var ids []uint64
		switch c.Kind {
		case "next":
			ids = []uint64{n4}
		case "cancel":
			ids = []uint64{cancel()}
		case "max-only":
			ids = []uint64{maxGoawayID}
		case "max-next":
			ids = []uint64{maxGoawayID, n4}
		case "max-cancel":
			ids = []uint64{maxGoawayID, cancel()}
		case "same-twice":
			x := rapid.SampledFrom([]uint64{n4, n4, maxGoawayID}).Draw(t, "same")
			if rapid.Bool().Draw(t, "samecancel") {
				x = cancel()
			}
			ids = []uint64{x, x}
		case "decreasing":
			ids = []uint64{n4, cancel()}
		case "three-steps":
			ids = []uint64{maxGoawayID, n4 + 4*uint64(rapid.IntRange(0, 5).Draw(t, "slack")), cancel()}
		case "far":
			ids = []uint64{n4 + 4*rapid.OneOf(rapid.Uint64Range(1, 15), rapid.Uint64Range(16, 1<<12), rapid.Uint64Range(1<<12, 1<<28), rapid.Uint64Range(1<<28, 1<<59)).Draw(t, "far")}
		case "increase":
			a := 4 * uint64(rapid.IntRange(1, c.NReq).Draw(t, "inca")) // keeps at least one request in flight, so the connection is still open for the second frame
			b := a + 4*rapid.OneOf(rapid.Uint64Range(1, 4), rapid.Uint64Range(1, 1<<20), rapid.Just(uint64(maxGoawayID-a)/4)).Draw(t, "incb")
			ids = []uint64{a, b}
		case "bad-id", "bad-id-after-max":
			base := rapid.SampledFrom([]uint64{0, 0, n4, 4 << 10, 4 << 28, maxGoawayID}).Draw(t, "badbase")
			bad := base + uint64(rapid.IntRange(1, 3).Draw(t, "badmod"))
			if c.Kind == "bad-id" {
				ids = []uint64{bad}
			} else if bad > maxGoawayID {
				ids = []uint64{maxGoawayID, maxGoawayID - 4 + uint64(rapid.IntRange(1, 3).Draw(t, "badmod2"))}
			} else {
				ids = []uint64{maxGoawayID, bad}
			}
		}
		for _, id := range ids {
			st := GAStep{ID: id}
			genGAStepEnc(t, &st)
			c.Steps = append(c.Steps, st)
		}
		c.Partial = rapid.Bool().Draw(t, "partial")
		nc := rapid.IntRange(0, 2).Draw(t, "ncuts")
		for i := 0; i < nc; i++ {
			c.Cuts = append(c.Cuts, rapid.OneOf(rapid.IntRange(1, 4), rapid.IntRange(1, 1500), rapid.IntRange(1000, 30000)).Draw(t, "cut"))
		}
		c.GapMs = rapid.SampledFrom([]int{0, 0, 1, 5}).Draw(t, "gap")
	default:
		c.Client = rapid.SampledFrom([]string{"raw", "raw", "plain", "plain", "spec:chrome115", "spec:firefoxA"}).Draw(t, "client")
	}
	c.VSeed, c.VDens = genVarintEnc(t)
	if c.Mode == "script" || c.Client == "raw" {
		c.XUni = genExtraUni(t)
	}
	return c
}

// appendVarintW: w == 0: the case-level generated width; otherwise exactly w bytes (raised to what the value needs).
func appendVarintW(b []byte, v uint64, w int) []byte {
	if w == 0 {
		return appendVarint(b, v)
	}
	return appendVarintN(b, v, max(w, varintMinLen(v)))
}

// goawayFrame serialises one GOAWAY frame; nonMin: the stream ID does not use its shortest encoding.
func goawayFrame(st GAStep) (b []byte, nonMin bool) {
	id := appendVarintW(nil, st.ID, st.IW)
	b = appendVarintW(nil, ftGoaway, st.TW)
	b = appendVarintW(b, uint64(len(id)), st.LW)
	return append(b, id...), len(id) > varintMinLen(st.ID)
}

// gaExpect is the RFC 9114 outcome of a GOAWAY script.
type gaExpect struct {
	Code  uint64 // != 0: the client must close the connection with this code when it reads frame number At
	At    int
	Why   string
	Limit uint64 // valid script: requests with a stream ID >= Limit are not processed
}

func modelGoaway(steps []GAStep) gaExpect {
	ex := gaExpect{Limit: 1 << 62}
	for i, st := range steps {
		if st.ID%4 != 0 {
			return gaExpect{Code: h3IDError, At: i, Why: fmt.Sprintf("RFC 9114 7.2.6: GOAWAY from a server carries a client-initiated bidirectional stream ID; %d is of another type: a client MUST treat it as a connection error H3_ID_ERROR", st.ID)}
		}
		if st.ID > ex.Limit {
			return gaExpect{Code: h3IDError, At: i, Why: fmt.Sprintf("RFC 9114 5.2: the identifier in a GOAWAY MUST NOT be greater than in any previous one (%d after %d): receiving a larger identifier MUST be treated as a connection error H3_ID_ERROR", st.ID, ex.Limit)}
		}
		ex.Limit = st.ID
	}
	return ex
}

func gaBody(c *GACase, path string) []byte {
	var i int
	if _, err := fmt.Sscanf(path, "/inflight/%d", &i); err == nil && i >= 0 && i < len(c.Bodies) {
		return pattern(c.Seed, 10+i, c.Bodies[i])
	}
	if _, err := fmt.Sscanf(path, "/late/%d", &i); err == nil {
		return pattern(c.Seed, 50+i, 300+i)
	}
	return []byte("after")
}

// gaResponse serialises a complete response; cut: number of stream bytes that make up the header and the first half of the body.
func gaResponse(body []byte) (rsp []byte, half int) {
	rsp = appendFrame(nil, ftHeaders, encodeFields([][2]string{{":status", "200"}, {"x-raw", "response"}}))
	h := len(body) / 2
	if h > 0 {
		rsp = appendFrame(rsp, ftData, body[:h])
	}
	half = len(rsp)
	if len(body)-h > 0 {
		rsp = appendFrame(rsp, ftData, body[h:])
	}
	rsp = appendFrame(rsp, ftHeaders, encodeFields([][2]string{{rawTrailerName, rawTrailerValue}}))
	return
}

func checkGA(c GACase, u *vf.Unit) *vf.Verdict {
	u.Journal(c)
	v := runGA(c, u)
	if v == nil && u.WantSample() {
		u.Sample(c)
	}
	return v
}

func init() {
	childRunners["h3-goaway"] = func(raw json.RawMessage, rec recorder) *vf.Verdict {
		var c GACase
		if err := json.Unmarshal(raw, &c); err != nil {
			return vf.Bad("C18/harness/child", "bad case: %v", err)
		}
		return runGA(c, rec)
	}
}

func runGA(c GACase, rec recorder) *vf.Verdict {
	var v *vf.Verdict
	setVarintEnc(c.VSeed, c.VDens)
	defer setVarintEnc(0, 0)
	setExtraUni(c.XUni)
	defer setExtraUni(nil)
	rec.Class("extra-uni:" + extraUniClass(c.XUni))
	sim.Bubble(curT, 40*time.Second, func() {
		switch {
		case c.Mode == "script":
			v = gaScript(c, rec)
		case c.Client == "raw":
			v = gaServerVsRaw(c, rec)
		default:
			v = gaServerVsTransport(c, rec)
		}
	}, func(rep sim.LeakReport) {
		if v == nil {
			v = vf.Bad("C18/leak/goroutines", "%d goroutines still alive 40 s (virtual) after shutdown:\n%s", rep.Count, rep.Dump)
		}
	})
	noteExtraUni(v, c.XUni)
	return v
}

func (c *GACase) rtt() time.Duration { return time.Duration(c.RTTms) * time.Millisecond }

// delivered: after this pause everything written before it has reached the peer and was processed (no faults, in-order delivery).
func (c *GACase) delivered() time.Duration { return 2*c.rtt() + 10*time.Millisecond }

// lateRequest runs one further RoundTrip on the Transport (GET, or POST with a body that cannot be re-created).
func lateRequest(ctx context.Context, c *GACase, tr *http3.Transport, j int) (cliResult, *vf.Verdict) {
	path := fmt.Sprintf("/late/%d", j)
	if c.LatePost {
		return doRequest(ctx, tr, "POST", path, struct{ io.Reader }{strings.NewReader("late request body")}, gaBody(c, path))
	}
	return doRequest(ctx, tr, "GET", path, nil, gaBody(c, path))
}

// ---- script: raw server sends GOAWAY frames, in-tree Transport ----

type gaStream struct {
	conn  int
	id    int64
	path  string
	hdr   bool // a HEADERS frame was read from it
	after bool // accepted after the last GOAWAY had been delivered
}

func gaScript(c GACase, rec recorder) *vf.Verdict {
	ex := modelGoaway(c.Steps)
	f, err := newCliFixture(&RawCase{RTTms: c.RTTms, Client: c.Client, CliLogger: c.CliLogger}, 0)
	if err != nil {
		return vf.Bad("C18/harness/env", "%v", err)
	}
	defer f.close()
	type inflight struct {
		str    *quic.Stream
		decide chan struct{}
	}
	var mu sync.Mutex
	var conn0 *rawServerConn
	var goawayDone bool
	var seen []gaStream
	streams := make([]*inflight, c.NReq)
	arrived := make([]chan struct{}, c.NReq)
	for i := range arrived {
		arrived[i] = make(chan struct{})
	}
	serve := make(map[int]bool)  // requests in flight that will be answered (decided before decide is closed)
	partial := make(map[int]int) // stream bytes of the response already written before the GOAWAY
	f.rs.onStream = func(sc *rawServerConn, str *quic.Stream, idx int) {
		mu.Lock()
		after := goawayDone
		mu.Unlock()
		m := readMessage(str, nil)
		path, _ := m.field(0, ":path")
		mu.Lock()
		seen = append(seen, gaStream{conn: sc.idx, id: int64(str.StreamID()), path: path, hdr: len(m.Headers) > 0, after: after})
		mu.Unlock()
		if len(m.Headers) == 0 {
			// opened and abandoned (the client's second GOAWAY check cancels such a stream): nothing to answer
			str.CancelWrite(quic.StreamErrorCode(h3RequestCancelled))
			return
		}
		var i int
		if _, err := fmt.Sscanf(path, "/inflight/%d", &i); err == nil && sc.idx == 0 && i >= 0 && i < c.NReq && int64(str.StreamID()) == int64(4*i) {
			fl := &inflight{str: str, decide: make(chan struct{})}
			mu.Lock()
			conn0 = sc
			streams[i] = fl
			mu.Unlock()
			close(arrived[i])
			<-fl.decide
			mu.Lock()
			ok, done := serve[i], partial[i]
			mu.Unlock()
			if !ok {
				// RFC 9114 5.2 / 4.1.1: requests at or above the identifier are cancelled with H3_REQUEST_REJECTED
				str.CancelRead(quic.StreamErrorCode(h3RequestRejected))
				str.CancelWrite(quic.StreamErrorCode(h3RequestRejected))
				return
			}
			rsp, _ := gaResponse(gaBody(&c, path))
			if writeCut(str, rsp[done:], c.Cuts, boundGap(len(rsp), c.Cuts, c.GapMs)) == nil {
				str.Close()
			}
			return
		}
		// a retried or later request (any connection): answered at once
		rsp, _ := gaResponse(gaBody(&c, path))
		if _, err := str.Write(rsp); err == nil {
			str.Close()
		}
	}
	f.rs.serve()
	ctx, cancel := context.WithTimeout(context.Background(), 30*time.Second)
	defer cancel()

	results := make([]cliResult, c.NReq)
	pvs := make([]*vf.Verdict, c.NReq+c.Late)
	var wg sync.WaitGroup
	release := func() {
		mu.Lock()
		fls := append([]*inflight(nil), streams...)
		mu.Unlock()
		order := make([]int, 0, len(fls))
		for i := range fls {
			order = append(order, i)
		}
		if c.Lifo {
			for l, r := 0, len(order)-1; l < r; l, r = l+1, r-1 {
				order[l], order[r] = order[r], order[l]
			}
		}
		for _, i := range order {
			if fls[i] != nil {
				close(fls[i].decide)
				if c.GapMs > 0 {
					time.Sleep(time.Duration(c.GapMs) * time.Millisecond)
				}
			}
		}
	}
	desc := fmt.Sprintf("raw server, client %s: %d requests in flight (streams 0..%d, response bodies %v), then GOAWAY script %q %s", c.Client, c.NReq, 4*(c.NReq-1), c.Bodies, c.Kind, describeSteps(c.Steps))
	// the requests are started one after the other so that request i travels on stream 4i
	for i := 0; i < c.NReq; i++ {
		wg.Add(1)
		go func() {
			defer wg.Done()
			path := fmt.Sprintf("/inflight/%d", i)
			results[i], pvs[i] = doRequest(ctx, f.tr, "GET", path, nil, gaBody(&c, path))
		}()
		if !sim.WaitCtx(arrived[i], 20*time.Second) {
			release()
			cancel()
			wg.Wait()
			mu.Lock()
			all := append([]gaStream(nil), seen...)
			mu.Unlock()
			return vf.Bad("C18/raw/request-not-received", "%s: request %d never reached the raw server on stream %d of the first connection (streams seen: %v); caller: %v", desc, i, 4*i, all, results[i])
		}
	}
	mu.Lock()
	sc := conn0
	mu.Unlock()
	// which requests will be served is known from the script
	for i := 0; i < c.NReq; i++ {
		serve[i] = ex.Code == 0 && uint64(4*i) < ex.Limit
	}
	if c.Partial {
		for i := 0; i < c.NReq; i++ {
			if serve[i] {
				rsp, half := gaResponse(gaBody(&c, fmt.Sprintf("/inflight/%d", i)))
				if _, err := streams[i].str.Write(rsp[:half]); err == nil {
					mu.Lock()
					partial[i] = half
					mu.Unlock()
				}
			}
		}
	}
	// the script
	nonMin := false
	for _, st := range c.Steps {
		b, nm := goawayFrame(st)
		nonMin = nonMin || nm
		var werr error
		if k := st.Split % len(b); st.Split > 0 && k > 0 {
			if _, werr = sc.ctrl.Write(b[:k]); werr == nil {
				time.Sleep(time.Millisecond)
				_, werr = sc.ctrl.Write(b[k:])
			}
		} else {
			_, werr = sc.ctrl.Write(b)
		}
		if werr != nil {
			break // the client has closed the connection (judged below)
		}
		if st.GapMs > 0 {
			time.Sleep(time.Duration(st.GapMs) * time.Millisecond)
		}
	}
	time.Sleep(c.delivered())
	if nonMin {
		rec.Class("goaway-id-nonminimal")
	} else {
		rec.Class("goaway-id-minimal")
	}

	if ex.Code != 0 {
		end := waitClosed(sc.conn.Context(), 2*time.Second)
		release()
		wg.Wait()
		for _, pv := range pvs {
			if pv != nil {
				return pv
			}
		}
		if code, ok := connCode(end); !ok || code != ex.Code {
			return vf.Bad("C18/goaway/invalid-id-accepted", "%s: frame %d: %s; the raw server saw: %s; callers: %v", desc, ex.At+1, ex.Why, describeEnd(end), results)
		}
		if err := followUpClient(ctx, f); err != nil {
			return vf.Bad("C18/raw/client-unusable", "%s: a request through the same Transport afterwards failed: %v", desc, err)
		}
		rec.Class("script/" + c.Kind)
		rec.Class("invalid-goaway-rejected")
		rec.NonTrivial("ga/script", c.Kind, describeSteps(c.Steps), c.NReq, c.Client)
		return nil
	}

	// a well-formed GOAWAY never ends the connection while requests below its identifier are in flight (none was
	// answered or cancelled yet). When every request in flight is at or above the identifier the client knows that
	// none will be processed: abandoning them and closing with H3_NO_ERROR at once is conforming.
	anyServed := false
	for i := 0; i < c.NReq; i++ {
		anyServed = anyServed || serve[i]
	}
	if end := sc.closeErr(); end != nil {
		code, ok := connCode(end)
		if !ok || code != h3NoError {
			release()
			wg.Wait()
			return vf.Bad("C18/goaway/wellformed-goaway-rejected", "%s: every frame is well-formed and all %d requests are still unanswered (final identifier %d), but the raw server saw its connection: %s; callers: %v",
				desc, c.NReq, ex.Limit, describeEnd(end), results)
		}
		if anyServed {
			release()
			wg.Wait()
			return vf.Bad("C18/goaway/closed-with-requests-in-flight", "%s: requests below the final identifier %d are still unanswered, but the client has closed the connection (%s); callers: %v",
				desc, ex.Limit, describeEnd(end), results)
		}
	}
	mu.Lock()
	goawayDone = true
	mu.Unlock()
	lates := make([]cliResult, c.Late)
	for j := 0; j < c.Late; j++ {
		wg.Add(1)
		go func() {
			defer wg.Done()
			lates[j], pvs[c.NReq+j] = lateRequest(ctx, &c, f.tr, j)
		}()
	}
	if c.Late > 0 {
		time.Sleep(c.rtt() + 5*time.Millisecond)
	}
	release()
	wg.Wait()
	for _, pv := range pvs {
		if pv != nil {
			return pv
		}
	}
	// the connection is closed by the client once it is idle
	end := waitClosed(sc.conn.Context(), time.Second+4*c.rtt())
	mu.Lock()
	all := append([]gaStream(nil), seen...)
	mu.Unlock()

	for i := 0; i < c.NReq; i++ {
		r := results[i]
		if serve[i] {
			if r.errored() || r.status != 200 || !r.body.EOF || r.body.N != c.Bodies[i] || r.body.BadAt >= 0 || r.body.Extra || r.trailer != rawTrailerValue {
				return vf.Bad("C18/goaway/inflight-response-lost", "%s: RFC 9114 5.2: request %d on stream %d is below the identifier %d, the server answered it completely (%d body bytes + trailers; part of it before the GOAWAY: %v), but the caller got: %v; the raw server saw its connection: %s",
					desc, i, 4*i, ex.Limit, c.Bodies[i], c.Partial, r, describeEnd(end))
			}
			continue
		}
		// rejected with H3_REQUEST_REJECTED: retried on a new connection (no body) or reported as an error
		if !r.errored() {
			if r.status != 200 || !r.body.EOF || r.body.N != c.Bodies[i] || r.body.BadAt >= 0 {
				return vf.Bad("C18/goaway/rejected-request-garbled", "%s: request %d on stream %d was rejected (H3_REQUEST_REJECTED) and retried, the caller got: %v", desc, i, 4*i, r)
			}
			rec.Class("rejected-retried")
		} else {
			rec.Class("rejected-error")
		}
	}
	for _, s := range all {
		if s.conn == 0 && s.hdr && s.after && uint64(s.id) >= ex.Limit {
			return vf.Bad("C18/goaway/request-beyond-goaway", "%s: RFC 9114 5.2: after the GOAWAY had been delivered the client sent request %q on stream %d of the same connection, at or above the identifier %d", desc, s.path, s.id, ex.Limit)
		}
	}
	for j, r := range lates {
		if r.errored() || r.status != 200 || !r.body.EOF || r.body.BadAt >= 0 || r.body.N != len(gaBody(&c, fmt.Sprintf("/late/%d", j))) {
			return vf.Bad("C18/goaway/late-request-failed", "%s: a RoundTrip started after the GOAWAY (POST with body: %v) must be carried on a new connection (RFC 9114 5.2; transport.go retries a request that could not be opened); the caller got: %v; streams seen by the raw server (conn, id, path): %v",
				desc, c.LatePost, r, all)
		}
		rec.Class("late-request-served")
	}
	if end == nil {
		return vf.Bad("C18/goaway/not-closed-when-idle", "%s: all requests are finished for %v but the client has not closed the connection (client.go onStreamsEmpty: a connection in graceful shutdown is closed with H3_NO_ERROR once it has no active requests)", desc, time.Second+4*c.rtt())
	}
	if code, ok := connCode(end); !ok || code != h3NoError {
		return vf.Bad("C18/goaway/wellformed-goaway-rejected", "%s: every frame is well-formed; after the requests were finished the raw server saw its connection: %s (expected H3_NO_ERROR)", desc, describeEnd(end))
	}
	if err := followUpClient(ctx, f); err != nil {
		return vf.Bad("C18/raw/client-unusable", "%s: a request through the same Transport afterwards failed: %v", desc, err)
	}
	rec.Class("script/" + c.Kind)
	rec.Class(fmt.Sprintf("inflight:%d", c.NReq))
	if anyServed {
		rec.Class("inflight-served-after-goaway")
	}
	if c.Partial && anyServed {
		rec.Class("goaway-inside-response")
	}
	rec.Class("closed-no-error-when-idle")
	rec.NonTrivial("ga/script", c.Kind, describeSteps(c.Steps), c.NReq, c.Client, c.Partial, c.Late)
	// Judged last, after everything else about the case held: this signature is an open finding of the unchanged
	// tree (known_findings.json), and nothing else may hide behind it.
	for _, s := range all {
		if s.conn == 0 && s.hdr && s.after {
			rec.Class("late-on-old-connection")
			return vf.Bad("C18/goaway/request-after-goaway", "%s: RFC 9114 5.2: \"Endpoints MUST NOT initiate new requests ... on the connection after receipt of a GOAWAY frame from the peer\": %v after the last GOAWAY was written the client sent the new request %q on stream %d of the same connection (below the identifier %d; it was answered there)",
				desc, c.delivered(), s.path, s.id, ex.Limit)
		}
	}
	if c.Late > 0 {
		rec.Class("late-on-new-connection")
	}
	return nil
}

func describeSteps(steps []GAStep) string {
	var sb strings.Builder
	sb.WriteByte('[')
	for i, st := range steps {
		if i > 0 {
			sb.WriteByte(' ')
		}
		b, _ := goawayFrame(st)
		fmt.Fprintf(&sb, "GOAWAY(%d)=%x", st.ID, b)
		if st.Split > 0 && st.Split%len(b) > 0 {
			fmt.Fprintf(&sb, "/split@%d", st.Split%len(b))
		}
	}
	sb.WriteByte(']')
	return sb.String()
}

// ---- shutdown / close: in-tree server ----

// gaServer is an in-tree server whose /inflight/ handlers wait for a gate.
type gaServer struct {
	c     *GACase
	w     *sim.World
	st    *quic.Transport
	ln    *quic.EarlyListener
	srv   *http3.Server
	done  chan struct{}
	srv2  *http3.Server
	done2 chan struct{}
	gate  chan struct{}
	once  sync.Once

	mu      sync.Mutex
	arrived []chan struct{}
	hv      *vf.Verdict
	served  []string // "<server 1|2> <path>" of every handler invocation
}

func (g *gaServer) handler() http.Handler {
	return http.HandlerFunc(func(w http.ResponseWriter, r *http.Request) {
		defer func() {
			if p := recover(); p != nil {
				if p == http.ErrAbortHandler {
					panic(p)
				}
				g.mu.Lock()
				if g.hv == nil {
					g.hv = recovered("the handler", p)
				}
				g.mu.Unlock()
				panic(http.ErrAbortHandler)
			}
		}()
		which := "1"
		if s, _ := r.Context().Value(http3.ServerContextKey).(*http3.Server); s != nil && s != g.srv {
			which = "2"
		}
		g.mu.Lock()
		g.served = append(g.served, which+" "+r.URL.Path)
		g.mu.Unlock()
		io.Copy(io.Discard, r.Body)
		var i int
		if _, err := fmt.Sscanf(r.URL.Path, "/inflight/%d", &i); err == nil && which == "1" && i >= 0 && i < g.c.NReq {
			select {
			case <-g.arrived[i]:
			default:
				close(g.arrived[i])
			}
			select {
			case <-g.gate:
			case <-r.Context().Done():
				panic(http.ErrAbortHandler) // nothing may look like a complete response
			}
		}
		body := gaBody(g.c, r.URL.Path)
		w.Header().Set("X-Raw", "response")
		for off := 0; off < len(body); off += 8192 {
			if _, err := w.Write(body[off:min(len(body), off+8192)]); err != nil {
				return
			}
		}
	})
}

func newGAServer(c *GACase) (*gaServer, error) {
	g := &gaServer{c: c, gate: make(chan struct{})}
	for i := 0; i < c.NReq; i++ {
		g.arrived = append(g.arrived, make(chan struct{}))
	}
	g.w = sim.NewWorld(c.rtt(), nil, nil, nil)
	var err error
	g.st, g.ln, g.srv, g.done, err = newServer(g.w, envOpts{Idle: rawIdle, SrvLogger: c.SrvLogger, Handler: g.handler()}, &logSink{})
	if err != nil {
		g.w.Close()
		return nil, err
	}
	return g, nil
}

// takeOver starts a second server on the same listener (rolling restart) once the first one has stopped accepting.
func (g *gaServer) takeOver() bool {
	if !sim.WaitCtx(g.done, 2*time.Second) {
		return false
	}
	g.srv2 = &http3.Server{Handler: g.handler()}
	if g.c.SrvLogger {
		g.srv2.Logger = newLogger(&logSink{})
	}
	g.done2 = make(chan struct{})
	go func() { defer close(g.done2); g.srv2.ServeListener(g.ln) }()
	return true
}

// release lets the waiting handlers write their responses.
func (g *gaServer) release() { g.once.Do(func() { close(g.gate) }) }

func (g *gaServer) close() {
	g.release()
	if g.srv2 != nil {
		g.srv2.Close()
	}
	g.srv.Close()
	g.ln.Close()
	<-g.done
	if g.done2 != nil {
		<-g.done2
	}
	g.st.Close()
	g.w.Close()
}

func (g *gaServer) servedList() []string {
	g.mu.Lock()
	defer g.mu.Unlock()
	return append([]string(nil), g.served...)
}

// stopServer calls Shutdown or Close on its own goroutine; the result arrives on the channel.
func (g *gaServer) stopServer(ctx context.Context) chan error {
	ch := make(chan error, 1)
	go func() {
		if g.c.Mode == "close" {
			ch <- g.srv.Close()
		} else {
			ch <- g.srv.Shutdown(ctx)
		}
	}()
	return ch
}

func gaServerVsRaw(c GACase, rec recorder) *vf.Verdict {
	g, err := newGAServer(&c)
	if err != nil {
		return vf.Bad("C18/harness/env", "%v", err)
	}
	defer g.close()
	ctx, cancel := context.WithTimeout(context.Background(), 30*time.Second)
	defer cancel()
	rc, err := dialRawClient(ctx, g.w, g.w.ClientConn, rawIdle, 0, true)
	if err != nil {
		if rc != nil {
			rc.close()
		}
		return vf.Bad("C18/harness/env", "raw client dial: %v", err)
	}
	defer rc.close()
	desc := fmt.Sprintf("raw client, http3.Server.%s with %d handlers running (streams 0..%d, response bodies %v), server Logger set: %v", map[string]string{"shutdown": "Shutdown", "close": "Close"}[c.Mode], c.NReq, 4*(c.NReq-1), c.Bodies, c.SrvLogger)
	msgs := make([]*message, c.NReq)
	var wg sync.WaitGroup
	for i := 0; i < c.NReq; i++ {
		str, err := rc.conn.OpenStreamSync(ctx)
		if err != nil {
			return vf.Bad("C18/harness/env", "open stream: %v", err)
		}
		req := appendFrame(nil, ftHeaders, encodeFields([][2]string{{":method", "GET"}, {":scheme", "https"}, {":authority", sim.ServerName}, {":path", fmt.Sprintf("/inflight/%d", i)}}))
		if _, err := str.Write(req); err != nil {
			return vf.Bad("C18/harness/env", "raw client write: %v", err)
		}
		str.Close()
		wg.Add(1)
		go func() { defer wg.Done(); msgs[i] = readMessage(str, nil) }()
		if !sim.WaitCtx(g.arrived[i], 5*time.Second) {
			rc.conn.CloseWithError(h3NoError, "")
			wg.Wait()
			return vf.Bad("C18/raw/request-not-received", "%s: the handler of request %d was never invoked", desc, i)
		}
	}
	sctx, scancel := context.WithTimeout(context.Background(), 20*time.Second)
	defer scancel()
	stopped := g.stopServer(sctx)

	if c.Mode == "close" {
		// abrupt: CONNECTION_CLOSE, every request in flight ends in an error
		end := waitClosed(rc.conn.Context(), time.Second+4*c.rtt())
		if end == nil {
			g.release()
			rc.conn.CloseWithError(h3NoError, "")
			wg.Wait()
			return vf.Bad("C18/goaway/close-stuck", "%s: server.go Close: \"Close the server immediately, aborting requests and sending CONNECTION_CLOSE frames to connected clients\": %v later the raw client's connection is still open", desc, time.Second+4*c.rtt())
		}
		wg.Wait()
		var serr error
		select {
		case serr = <-stopped:
		case <-time.After(2 * time.Second):
			return vf.Bad("C18/goaway/close-stuck", "%s: Close has not returned 2 s (virtual) after the connection ended (%s)", desc, describeEnd(end))
		}
		if g.hv != nil {
			return g.hv
		}
		_ = serr
		for i, m := range msgs {
			if m.Err == nil && !m.Truncated && len(m.Headers) > 0 {
				return vf.Bad("C18/abort/client-clean-eof", "%s: the handler of request %d never wrote its response, yet the raw client read a cleanly finished one: %s", desc, i, describeMsg(m))
			}
		}
		rec.Class("close/raw")
		rec.NonTrivial("ga/close/raw", c.NReq, c.RTTms)
		return nil
	}

	// the GOAWAY frame
	var goaways []rawFrame
	for waited := time.Duration(0); waited < 2*time.Second && len(goaways) == 0; waited += 5 * time.Millisecond {
		time.Sleep(5 * time.Millisecond)
		rc.mu.Lock()
		for _, fr := range rc.peerCtrl {
			if fr.Type == ftGoaway {
				goaways = append(goaways, fr)
			}
		}
		rc.mu.Unlock()
		if rc.closeErr() != nil {
			break
		}
	}
	fail := func(v *vf.Verdict) *vf.Verdict {
		g.release()
		rc.conn.CloseWithError(h3NoError, "")
		wg.Wait()
		<-stopped
		return v
	}
	// (the control stream reader only publishes frames when the stream ends: read them from the connection instead)
	if len(goaways) == 0 {
		return fail(vf.Bad("C18/goaway/no-goaway-sent", "%s: server.go Shutdown: \"The server sends a GOAWAY frame first\": none arrived on the control stream within 2 s (virtual); connection: %s", desc, describeEnd(rc.closeErr())))
	}
	id, perr := readVarint(&byteReader{r: strings.NewReader(string(goaways[0].Payload))})
	if perr != nil || varintLenAt(goaways[0].Payload) != len(goaways[0].Payload) {
		return fail(vf.Bad("C18/goaway/malformed-goaway-sent", "%s: GOAWAY payload %x is not exactly one varint", desc, goaways[0].Payload))
	}
	if id%4 != 0 || id < uint64(4*c.NReq) {
		return fail(vf.Bad("C18/goaway/id-below-processed-request", "%s: RFC 9114 5.2: the identifier tells which requests were or might be processed; the handlers of streams 0..%d are running, the GOAWAY carries %d", desc, 4*(c.NReq-1), id))
	}
	// a request at or above the identifier must not be processed
	var beyond []*message
	for j := 0; j < c.Late; j++ {
		str, err := rc.conn.OpenStreamSync(ctx)
		if err != nil {
			break
		}
		req := appendFrame(nil, ftHeaders, encodeFields([][2]string{{":method", "GET"}, {":scheme", "https"}, {":authority", sim.ServerName}, {":path", fmt.Sprintf("/late/%d", j)}}))
		str.Write(req)
		str.Close()
		m := readMessage(str, nil)
		if m.Err != nil {
			str.CancelWrite(h3RequestCancelled)
		}
		beyond = append(beyond, m)
	}
	g.release()
	wg.Wait()
	if g.hv != nil {
		return fail(g.hv)
	}
	for _, s := range g.servedList() {
		if strings.Contains(s, "/late/") {
			return fail(vf.Bad("C18/goaway/request-processed-after-goaway", "%s: RFC 9114 5.2: requests at or above the identifier (%d) of the GOAWAY the server sent are not processed; handler invocations: %v", desc, id, g.servedList()))
		}
	}
	for j, m := range beyond {
		if code, ok := streamCode(m.Err); ok && code == h3RequestRejected {
			rec.Class("beyond-goaway-rejected")
		} else if m.Err == nil {
			return fail(vf.Bad("C18/goaway/request-processed-after-goaway", "%s: request %d sent after the GOAWAY(%d) on a stream at or above it ended without a stream error: %s", desc, j, id, describeMsg(m)))
		}
	}
	for i, m := range msgs {
		st, _ := m.field(0, ":status")
		want := gaBody(&c, fmt.Sprintf("/inflight/%d", i))
		if m.Err != nil || m.Truncated || st != "200" || string(m.Body) != string(want) {
			return fail(vf.Bad("C18/goaway/inflight-response-lost", "%s: Shutdown must not interrupt the request on stream %d (below the GOAWAY identifier %d): the raw client read %s, expected 200 and %d body bytes", desc, 4*i, id, describeMsg(m), len(want)))
		}
	}
	if end := rc.closeErr(); end != nil {
		return fail(vf.Bad("C18/goaway/shutdown-closed-connection", "%s: the server ended the connection itself although the Shutdown context is not done: %s", desc, describeEnd(end)))
	}
	// the client completes the graceful shutdown
	rc.conn.CloseWithError(h3NoError, "")
	select {
	case serr := <-stopped:
		if serr != nil {
			return vf.Bad("C18/goaway/shutdown-error", "%s: all requests finished and the client closed the connection with H3_NO_ERROR, Shutdown returned %v", desc, serr)
		}
	case <-time.After(time.Second + 4*c.rtt()):
		return vf.Bad("C18/goaway/shutdown-stuck", "%s: all requests finished and the client closed the connection with H3_NO_ERROR %v ago, Shutdown has not returned", desc, time.Second+4*c.rtt())
	}
	rec.Class("shutdown/raw")
	rec.Class(fmt.Sprintf("inflight:%d", c.NReq))
	rec.Class("inflight-served-after-goaway")
	rec.NonTrivial("ga/shutdown/raw", c.NReq, fmt.Sprint(c.Bodies), c.Late, c.RTTms)
	return nil
}

// varintLenAt returns the encoded length of the varint at the start of b (0 if b is empty).
func varintLenAt(b []byte) int {
	if len(b) == 0 {
		return 0
	}
	return 1 << (b[0] >> 6)
}

func gaServerVsTransport(c GACase, rec recorder) *vf.Verdict {
	g, err := newGAServer(&c)
	if err != nil {
		return vf.Bad("C18/harness/env", "%v", err)
	}
	defer g.close()
	ct, tr, err := newClient(g.w, envOpts{Client: c.Client, Idle: rawIdle, CliLogger: c.CliLogger}, &logSink{})
	if err != nil {
		return vf.Bad("C18/harness/env", "%v", err)
	}
	defer func() { tr.Close(); ct.Close() }()
	ctx, cancel := context.WithTimeout(context.Background(), 30*time.Second)
	defer cancel()
	desc := fmt.Sprintf("client %s, http3.Server.%s with %d handlers running (response bodies %v), server Logger set: %v", c.Client, map[string]string{"shutdown": "Shutdown", "close": "Close"}[c.Mode], c.NReq, c.Bodies, c.SrvLogger)
	results := make([]cliResult, c.NReq)
	pvs := make([]*vf.Verdict, c.NReq+c.Late)
	var wg sync.WaitGroup
	for i := 0; i < c.NReq; i++ {
		wg.Add(1)
		go func() {
			defer wg.Done()
			path := fmt.Sprintf("/inflight/%d", i)
			results[i], pvs[i] = doRequest(ctx, tr, "GET", path, nil, gaBody(&c, path))
		}()
		if !sim.WaitCtx(g.arrived[i], 20*time.Second) {
			g.release()
			cancel()
			wg.Wait()
			return vf.Bad("C18/raw/request-not-received", "%s: the handler of request %d was never invoked; caller: %v", desc, i, results[i])
		}
	}
	sctx, scancel := context.WithTimeout(context.Background(), 20*time.Second)
	defer scancel()
	stopped := g.stopServer(sctx)

	if c.Mode == "close" {
		ended := make(chan struct{})
		go func() { wg.Wait(); close(ended) }()
		if !sim.WaitCtx(ended, 2*time.Second+4*c.rtt()) {
			g.release()
			cancel()
			<-ended
			return vf.Bad("C18/goaway/close-stuck", "%s: server.go Close: \"Close the server immediately, aborting requests and sending CONNECTION_CLOSE frames to connected clients\": %v later the requests in flight have not ended", desc, 2*time.Second+4*c.rtt())
		}
		select {
		case <-stopped:
		case <-time.After(2 * time.Second):
			return vf.Bad("C18/goaway/close-stuck", "%s: Close has not returned 2 s (virtual) after every request in flight ended: %v", desc, results)
		}
		for _, pv := range pvs {
			if pv != nil {
				return pv
			}
		}
		if g.hv != nil {
			return g.hv
		}
		for i, r := range results {
			if !r.errored() {
				return vf.Bad("C18/abort/client-clean-eof", "%s: the handler of request %d never wrote its response (%d bytes), yet the caller got no error: %v", desc, i, c.Bodies[i], r)
			}
		}
		rec.Class("close/transport")
		rec.NonTrivial("ga/close/transport", c.NReq, c.Client, c.RTTms)
		return nil
	}

	if !g.takeOver() {
		g.release()
		wg.Wait()
		return vf.Bad("C18/goaway/shutdown-serve-not-returned", "%s: server.go ServeListener: \"After Shutdown or Close, the returned error is http.ErrServerClosed\": ServeListener has not returned 2 s (virtual) after Shutdown was called", desc)
	}
	time.Sleep(c.delivered())
	lates := make([]cliResult, c.Late)
	for j := 0; j < c.Late; j++ {
		wg.Add(1)
		go func() {
			defer wg.Done()
			lates[j], pvs[c.NReq+j] = lateRequest(ctx, &c, tr, j)
		}()
	}
	if c.Late > 0 {
		time.Sleep(c.rtt() + 5*time.Millisecond)
	}
	g.release()
	wg.Wait()
	for _, pv := range pvs {
		if pv != nil {
			return pv
		}
	}
	if g.hv != nil {
		return g.hv
	}
	for i, r := range results {
		if r.errored() || r.status != 200 || !r.body.EOF || r.body.N != c.Bodies[i] || r.body.BadAt >= 0 || r.body.Extra {
			return vf.Bad("C18/goaway/inflight-response-lost", "%s: server.go Shutdown: \"gracefully shuts down the server without interrupting any active connections\": the handler of request %d was running when Shutdown was called and then wrote %d bytes; the caller got: %v", desc, i, c.Bodies[i], r)
		}
	}
	served := g.servedList()
	for _, s := range served {
		if strings.HasPrefix(s, "1 /late/") {
			return vf.Bad("C18/goaway/request-processed-after-goaway", "%s: a RoundTrip started %v after Shutdown was called was still processed by the server that is shutting down; handler invocations (server, path): %v", desc, c.delivered(), served)
		}
	}
	for j, r := range lates {
		if r.errored() || r.status != 200 || !r.body.EOF || r.body.BadAt >= 0 || r.body.N != len(gaBody(&c, fmt.Sprintf("/late/%d", j))) {
			return vf.Bad("C18/goaway/late-request-failed", "%s: a RoundTrip started after the server's GOAWAY (POST with body: %v) must be carried on a new connection (a second server is accepting on the same listener); the caller got: %v; handler invocations: %v", desc, c.LatePost, r, served)
		}
		rec.Class("late-on-new-connection")
	}
	// the in-tree client closes the connection once idle, which lets Shutdown return
	select {
	case serr := <-stopped:
		if serr != nil {
			return vf.Bad("C18/goaway/shutdown-error", "%s: all requests finished, Shutdown returned %v", desc, serr)
		}
	case <-time.After(time.Second + 4*c.rtt()):
		return vf.Bad("C18/goaway/not-closed-when-idle", "%s: all requests in flight finished %v ago but Shutdown has not returned: the client did not close the connection it received GOAWAY on (client.go onStreamsEmpty; server.go Shutdown: \"clients are expected to close the connection once all requests were successfully handled\")", desc, time.Second+4*c.rtt())
	}
	rec.Class("shutdown/transport")
	rec.Class(fmt.Sprintf("inflight:%d", c.NReq))
	rec.Class("inflight-served-after-goaway")
	rec.Class("closed-no-error-when-idle")
	rec.NonTrivial("ga/shutdown/transport", c.NReq, fmt.Sprint(c.Bodies), c.Late, c.LatePost, c.Client, c.RTTms)
	return nil
}

func TestH3GoAway(t *testing.T) {
	curT = t
	vf.ReplayRepeat = 20
	vf.RunRapid(t, "h3-goaway", genGACase, checkGA)
}
