package c18

import (
	"context"
	"fmt"
	"io"
	"net/http"
	"testing"
	"time"

	tls "github.com/refraction-networking/utls"

	quic "github.com/refraction-networking/uquic"
	"github.com/refraction-networking/uquic/http3"
	"github.com/refraction-networking/uquic/verif/sim"
	"github.com/refraction-networking/uquic/verif/vf"
)

func TestMain(m *testing.M) { vf.Main(m) }

func TestProbe(t *testing.T) {
	for i := 0; i < 3; i++ {
		t0 := time.Now()
		var out string
		sim.Bubble(t, 30*time.Second, func() {
			w := sim.NewWorld(20*time.Millisecond, nil, nil, nil)
			st := &quic.Transport{Conn: w.ServerConn}
			qc := &quic.Config{DisablePathMTUDiscovery: true, MaxIdleTimeout: 10 * time.Second}
			ln, err := st.ListenEarly(http3.ConfigureTLSConfig(sim.ServerTLS(false, w.ServerKeys)), qc)
			if err != nil {
				out = err.Error()
				return
			}
			srv := &http3.Server{Handler: http.HandlerFunc(func(rw http.ResponseWriter, r *http.Request) {
				b, _ := io.ReadAll(r.Body)
				rw.Header().Set("X-A", "b")
				rw.WriteHeader(200)
				rw.Write(b)
			})}
			go srv.ServeListener(ln)
			ct := &quic.Transport{Conn: w.ClientConn}
			tr := &http3.Transport{TLSClientConfig: sim.ClientTLS(w.ClientKeys), QUICConfig: qc.Clone(),
				Dial: func(ctx context.Context, addr string, tc *tls.Config, c *quic.Config) (*quic.Conn, error) {
					return ct.Dial(ctx, sim.ServerAddr, tc, c)
				}}
			req, _ := http.NewRequest("GET", "https://sim.example/x?y=1", nil)
			rsp, err := tr.RoundTrip(req)
			if err != nil {
				out = "rt: " + err.Error()
			} else {
				b, err := io.ReadAll(rsp.Body)
				out = fmt.Sprintf("%d %v %q %v at %v", rsp.StatusCode, rsp.Header, b, err, w.Router.Now())
				rsp.Body.Close()
			}
			tr.Close()
			srv.Close()
			ln.Close()
			st.Close()
			ct.Close()
			w.Close()
		}, func(rep sim.LeakReport) { out += fmt.Sprintf("\nLEAK %d\n%s", rep.Count, rep.Dump) })
		t.Logf("%s (wall %v)", out, time.Since(t0))
	}
}
