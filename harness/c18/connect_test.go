package c18

// h3-connect: tunnels. CONNECT (RFC 9114 4.4: only :method and :authority) and Extended CONNECT (RFC 9220 / 8441:
// :protocol plus :scheme / :path) carry an open-ended byte stream in both directions after a 2xx answer that has no
// Content-Length; the same interactive exchange with POST is the control. 204, non-2xx answers with a body (with and
// without Content-Length) and informational responses in front exercise the Content-Length normalisation paths of
// RequestStream.ReadResponse.

import (
	"context"
	"errors"
	"fmt"
	"io"
	"net/http"
	"net/http/httptrace"
	"net/textproto"
	"strconv"
	"strings"
	"sync"
	"testing"
	"time"

	"pgregory.net/rapid"

	"github.com/refraction-networking/uquic/verif/sim"
	"github.com/refraction-networking/uquic/verif/vf"
)

// Tunnel is one generated tunnel exchange.
type Tunnel struct {
	Kind        string  `json:"kind"`            // connect | extended | post (control)
	Proto       string  `json:"proto,omitempty"` // extended: the :protocol value
	Authority   string  `json:"authority"`       // connect: target authority (Request.Host); others: "" = URL host
	Path        string  `json:"path,omitempty"`  // extended / post: escaped path below "/<idx>"
	Query       string  `json:"query,omitempty"`
	ReqH        []Field `json:"req_h,omitempty"`
	Pre         []int   `json:"pre,omitempty"` // informational responses before the final one
	Status      int     `json:"status"`        // 200 201 (tunnel) | 204 (no content) | 403 502 (refused, with a body)
	RspH        []Field `json:"rsp_h,omitempty"`
	RspCL       bool    `json:"rsp_cl,omitempty"` // refused: the handler declares the Content-Length of the error body
	Greeting    int     `json:"greeting"`         // bytes the handler sends first (tunnel) / error body (refused)
	GChunks     []int   `json:"g_chunks"`
	GFlush      bool    `json:"g_flush"`
	Up          int     `json:"up"` // bytes the client sends into the tunnel
	UChunks     []int   `json:"u_chunks"`
	Interactive bool    `json:"interactive,omitempty"` // the client waits for the echo of a piece before it sends the next one
	DeclCL      bool    `json:"decl_cl,omitempty"`     // post control only: Request.ContentLength declared
	EchoBuf     int     `json:"echo_buf"`
	ReadBuf     int     `json:"readbuf"`
}

// ConnCase: 1..3 tunnels on one connection.
type ConnCase struct {
	Client    string      `json:"client"`
	RTTms     int         `json:"rtt_ms"`
	IdleMs    int         `json:"idle_ms"`
	Tunnels   []Tunnel    `json:"tunnels"`
	Faults    []sim.Fault `json:"faults,omitempty"`
	Loss      *sim.Loss   `json:"loss,omitempty"`
	SrvLogger bool        `json:"srv_logger"`
	CliLogger bool        `json:"cli_logger"`
	Seed      uint64      `json:"seed"`
}

func genTunnel(t *rapid.T) Tunnel {
	tn := Tunnel{}
	tn.Kind = rapid.SampledFrom([]string{"connect", "connect", "extended", "extended", "post"}).Draw(t, "kind")
	switch tn.Kind {
	case "connect":
		tn.Authority = rapid.SampledFrom([]string{"target.example:443", "10.0.0.1:22", "[2001:db8::1]:8443", "sim.example:443", "xn--caf-dma.example:80"}).Draw(t, "authority")
	case "extended":
		tn.Proto = rapid.SampledFrom([]string{"websocket", "connect-udp", "connect-ip", "webtransport"}).Draw(t, "proto")
		tn.Authority = rapid.SampledFrom([]string{"", "", "alt.example:8443"}).Draw(t, "xauthority")
		tn.Path = genPath(t)
		tn.Query = rapid.SampledFrom([]string{"", "", "a=1&b=%20x", "flag"}).Draw(t, "query")
	default:
		tn.Path = genPath(t)
		tn.DeclCL = rapid.IntRange(0, 3).Draw(t, "declcl") == 0
	}
	tn.ReqH = genFields(t, "X-", 3)
	if rapid.IntRange(0, 4).Draw(t, "has1xx") == 0 {
		n := rapid.IntRange(1, 3).Draw(t, "n1xx")
		for i := 0; i < n; i++ {
			tn.Pre = append(tn.Pre, rapid.SampledFrom([]int{103, 102, 100}).Draw(t, "code1xx"))
		}
	}
	tn.Status = rapid.SampledFrom([]int{200, 200, 200, 200, 201, 201, 204, 403, 502}).Draw(t, "status")
	tn.RspH = genFields(t, "X-", 3)
	tn.RspCL = tn.Status >= 300 && rapid.Bool().Draw(t, "rspcl")
	tn.Greeting = rapid.OneOf(rapid.Just(0), rapid.IntRange(1, 60), rapid.IntRange(1, 3000), rapid.IntRange(3000, 30000)).Draw(t, "greeting")
	tn.GChunks = genChunks(t, "gchunk")
	tn.GFlush = rapid.Bool().Draw(t, "gflush")
	tn.Up = rapid.OneOf(rapid.Just(0), rapid.IntRange(1, 200), rapid.IntRange(1, 5000), rapid.IntRange(5000, 80000)).Draw(t, "up")
	tn.UChunks = genChunks(t, "uchunk")
	tn.Interactive = rapid.Bool().Draw(t, "interactive") && !tn.DeclCL
	tn.EchoBuf = rapid.SampledFrom([]int{1, 17, 1024, 4096, 32768}).Draw(t, "echobuf")
	tn.ReadBuf = rapid.SampledFrom([]int{1, 7, 512, 4096, 32768}).Draw(t, "readbuf")
	return tn
}

func genConnCase(t *rapid.T) ConnCase {
	c := ConnCase{Seed: rapid.Uint64().Draw(t, "seed")}
	c.Client = rapid.SampledFrom([]string{"plain", "plain", "plain", "spec:chrome115", "spec:chrome146", "spec:firefoxA"}).Draw(t, "client")
	c.RTTms = rapid.SampledFrom([]int{2, 10, 30, 80}).Draw(t, "rtt")
	c.IdleMs = rapid.SampledFrom([]int{10000, 30000}).Draw(t, "idle")
	n := rapid.SampledFrom([]int{1, 1, 1, 2, 3}).Draw(t, "ntunnels")
	for i := 0; i < n; i++ {
		c.Tunnels = append(c.Tunnels, genTunnel(t))
	}
	if rapid.Bool().Draw(t, "faulty") {
		c.Faults = genFaults(t, 5)
		if rapid.IntRange(0, 5).Draw(t, "lossy") == 0 {
			from := rapid.IntRange(0, 400).Draw(t, "loss_from")
			c.Loss = &sim.Loss{Permille: rapid.IntRange(10, 250).Draw(t, "p"), FromMs: from, ToMs: from + rapid.IntRange(50, 1500).Draw(t, "loss_len"), Seed: rapid.Uint64().Draw(t, "loss_seed")}
		}
	}
	c.SrvLogger = rapid.Bool().Draw(t, "srvlogger")
	c.CliLogger = rapid.Bool().Draw(t, "clilogger")
	return c
}

func (tn *Tunnel) tunnelOpen() bool { return tn.Status == 200 || tn.Status == 201 }

func (tn *Tunnel) url(idx int) string {
	if tn.Kind == "connect" {
		return "https://" + sim.ServerName // no path, no scheme on the wire: RFC 9114 4.4
	}
	q := tn.Query
	if q != "" {
		q = "?" + q
	}
	return fmt.Sprintf("https://%s/%d%s%s", sim.ServerName, idx, tn.Path, q)
}

type tunSrv struct {
	Calls      int
	Method     string
	Host       string
	RequestURI string
	Proto      string
	URLHost    string
	URLPath    string
	RawQuery   string
	Header     http.Header
	CL         int64
	Up         readResult // what the handler read from the request body (tunnel / 204)
	UpRead     bool
	WriteErr   error
	WriteBad   string
	Done       bool
}

type tunCli struct {
	Err      error
	Status   int
	Header   http.Header
	CL       int64
	Codes1xx []int
	Body     readResult
	Stuck    string
}

type connRun struct {
	c    ConnCase
	mu   sync.Mutex
	srv  []tunSrv
	cli  []tunCli
	bad  *vf.Verdict
	idle time.Duration
}

func (r *connRun) fail(v *vf.Verdict) {
	r.mu.Lock()
	if r.bad == nil {
		r.bad = v
	}
	r.mu.Unlock()
}

// writeReused writes p from a scratch buffer that is overwritten as soon as Write returns (io.Writer contract).
func writeReused(w io.Writer, scratch *[]byte, p []byte) (int, error) {
	if cap(*scratch) < len(p) {
		*scratch = make([]byte, len(p))
	}
	b := (*scratch)[:len(p)]
	copy(b, p)
	n, err := w.Write(b)
	for i := range b {
		b[i] = 0xEE
	}
	return n, err
}

func (r *connRun) ServeHTTP(w http.ResponseWriter, req *http.Request) {
	idx, err := strconv.Atoi(req.Header.Get("X-Tunnel"))
	if err != nil || idx < 0 || idx >= len(r.c.Tunnels) {
		r.fail(vf.Bad("C18/connect/request", "handler called without a usable X-Tunnel field: %q (method %s, host %s)", req.Header.Get("X-Tunnel"), req.Method, req.Host))
		return
	}
	tn, s := &r.c.Tunnels[idx], &r.srv[idx]
	defer func() {
		if p := recover(); p != nil {
			if p == http.ErrAbortHandler {
				panic(p)
			}
			r.fail(recovered(fmt.Sprintf("the handler of tunnel %d", idx), p))
			panic(http.ErrAbortHandler)
		}
	}()
	r.mu.Lock()
	s.Calls++
	s.Method, s.Host, s.RequestURI, s.Proto = req.Method, req.Host, req.RequestURI, req.Proto
	s.URLHost, s.URLPath, s.RawQuery, s.Header, s.CL = req.URL.Host, req.URL.EscapedPath(), req.URL.RawQuery, cloneHeader(req.Header), req.ContentLength
	r.mu.Unlock()
	h := w.Header()
	for _, code := range tn.Pre {
		w.WriteHeader(code)
	}
	for _, f := range tn.RspH {
		h[f.K] = f.V
	}
	greeting := pattern(r.c.Seed, 2*idx+1, tn.Greeting)
	if tn.RspCL {
		h.Set("Content-Length", strconv.Itoa(len(greeting)))
	}
	w.WriteHeader(tn.Status)
	w.(http.Flusher).Flush()
	var scratch []byte
	noteWrite := func(n, m int, err error) bool {
		r.mu.Lock()
		defer r.mu.Unlock()
		switch {
		case tn.Status == 204:
			if m != 0 || !errors.Is(err, http.ErrBodyNotAllowed) {
				s.WriteBad = fmt.Sprintf("Write of %d bytes on a 204 response returned (%d, %v), want (0, http.ErrBodyNotAllowed)", n, m, err)
			}
			return false
		case err != nil:
			s.WriteErr = err
			return false
		case m != n:
			s.WriteBad = fmt.Sprintf("Write of %d bytes returned (%d, nil)", n, m)
			return false
		}
		return true
	}
	for off, ci := 0, 0; off < len(greeting); ci++ {
		n := min(max(chunkAt(tn.GChunks, ci), 0), len(greeting)-off)
		m, err := writeReused(w, &scratch, greeting[off:off+n])
		if !noteWrite(n, m, err) {
			break
		}
		off += n
		if tn.GFlush {
			w.(http.Flusher).Flush()
		}
	}
	if tn.Status >= 300 {
		r.mu.Lock()
		s.Done = true
		r.mu.Unlock()
		return // refused: the request body is not wanted
	}
	// tunnel: echo until the client ends its direction (204: swallow)
	want := pattern(r.c.Seed, 2*idx, tn.Up)
	res := readResult{BadAt: -1}
	buf := make([]byte, tn.EchoBuf)
	ok := true
	for {
		n, err := req.Body.Read(buf)
		for i := 0; i < n; i++ {
			if off := res.N + i; off >= len(want) {
				res.Extra = true
			} else if res.BadAt < 0 && buf[i] != want[off] {
				res.BadAt = off
			}
		}
		res.N += n
		if n > 0 && ok && tn.Status != 204 {
			m, werr := writeReused(w, &scratch, buf[:n])
			ok = noteWrite(n, m, werr)
			w.(http.Flusher).Flush()
		}
		if err != nil {
			if err == io.EOF {
				res.EOF = true
			} else {
				res.Err, res.err = err.Error(), err
			}
			break
		}
	}
	r.mu.Lock()
	s.Up, s.UpRead, s.Done = res, true, true
	r.mu.Unlock()
}

// client drives tunnel idx.
func (r *connRun) client(env *env, idx int, wg *sync.WaitGroup) {
	defer wg.Done()
	tn, cs := &r.c.Tunnels[idx], &r.cli[idx]
	cs.Body.BadAt = -1
	defer func() {
		if p := recover(); p != nil {
			r.fail(recovered(fmt.Sprintf("the client of tunnel %d", idx), p))
		}
	}()
	ctx, cancel := context.WithTimeout(context.Background(), 150*time.Second)
	defer cancel()
	ctx = httptrace.WithClientTrace(ctx, &httptrace.ClientTrace{Got1xxResponse: func(code int, _ textproto.MIMEHeader) error {
		r.mu.Lock()
		cs.Codes1xx = append(cs.Codes1xx, code)
		r.mu.Unlock()
		return nil
	}})
	pr, pw := io.Pipe()
	method := http.MethodConnect
	if tn.Kind == "post" {
		method = http.MethodPost
	}
	req, err := http.NewRequestWithContext(ctx, method, tn.url(idx), pr)
	if err != nil {
		r.fail(vf.Bad("C18/harness/request", "http.NewRequest(%s %s): %v", method, tn.url(idx), err))
		return
	}
	if tn.Authority != "" {
		req.Host = tn.Authority
	}
	if tn.Kind == "extended" {
		req.Proto = tn.Proto
	}
	if tn.DeclCL && tn.Up > 0 {
		req.ContentLength = int64(tn.Up)
	}
	for _, f := range tn.ReqH {
		req.Header[f.K] = append([]string(nil), f.V...)
	}
	req.Header.Set("X-Tunnel", strconv.Itoa(idx))
	rsp, err := env.tr.RoundTrip(req)
	if err != nil {
		r.mu.Lock()
		cs.Err = err
		r.mu.Unlock()
		pr.CloseWithError(errors.New("exchange finished"))
		return
	}
	r.mu.Lock()
	cs.Status, cs.Header, cs.CL = rsp.StatusCode, cloneHeader(rsp.Header), rsp.ContentLength
	r.mu.Unlock()
	up := pattern(r.c.Seed, 2*idx, tn.Up)
	want := pattern(r.c.Seed, 2*idx+1, tn.Greeting)
	if tn.tunnelOpen() {
		want = append(want, up...)
	} else if tn.Status == 204 {
		want = nil
	}
	// reader: compares on the fly and publishes its progress for the interactive writer
	var pmu sync.Mutex
	cond := sync.NewCond(&pmu)
	progress, readerDone := 0, false
	var rwg sync.WaitGroup
	rwg.Add(1)
	go func() {
		defer rwg.Done()
		res := readResult{BadAt: -1}
		buf := make([]byte, tn.ReadBuf)
		for {
			n, err := rsp.Body.Read(buf)
			for i := 0; i < n; i++ {
				if off := res.N + i; off >= len(want) {
					res.Extra = true
				} else if res.BadAt < 0 && buf[i] != want[off] {
					res.BadAt = off
				}
			}
			res.N += n
			pmu.Lock()
			progress = res.N
			cond.Broadcast()
			pmu.Unlock()
			if err != nil {
				if err == io.EOF {
					res.EOF = true
				} else {
					res.Err, res.err = err.Error(), err
				}
				break
			}
		}
		r.mu.Lock()
		cs.Body = res
		r.mu.Unlock()
		pmu.Lock()
		readerDone = true
		cond.Broadcast()
		pmu.Unlock()
	}()
	// writer
	sent := 0
	for ci := 0; sent < len(up); ci++ {
		n := min(max(chunkAt(tn.UChunks, ci), 0), len(up)-sent)
		rb := append([]byte(nil), up[sent:sent+n]...)
		_, err := pw.Write(rb)
		for i := range rb {
			rb[i] = 0xEE
		}
		if err != nil {
			break // the Transport closed the body (refused tunnel, or the exchange failed)
		}
		sent += n
		if tn.Interactive && tn.tunnelOpen() {
			pmu.Lock()
			for progress < tn.Greeting+sent && !readerDone {
				cond.Wait()
			}
			pmu.Unlock()
		}
	}
	pw.Close()
	rwg.Wait()
	rsp.Body.Close()
	pr.CloseWithError(errors.New("exchange finished"))
}

func checkConn(c ConnCase, u *vf.Unit) *vf.Verdict {
	u.Journal(c)
	var v *vf.Verdict
	var trace any
	sim.Bubble(curT, 60*time.Second, func() { v = runConn(c, u, &trace) }, func(rep sim.LeakReport) {
		if v == nil {
			v = vf.Bad("C18/leak/goroutines", "%d goroutines still alive 60 s (virtual) after Transport, Server and both QUIC transports were closed:\n%s", rep.Count, rep.Dump)
		}
	})
	if v != nil && v.Trace == nil {
		v.Trace = trace
	}
	if v == nil && len(c.Faults) > 0 && u.WantSample() {
		u.Sample(c)
	}
	return v
}

func runConn(c ConnCase, u *vf.Unit, trace *any) *vf.Verdict {
	r := &connRun{c: c, srv: make([]tunSrv, len(c.Tunnels)), cli: make([]tunCli, len(c.Tunnels)), idle: time.Duration(c.IdleMs) * time.Millisecond}
	env, err := newEnv(envOpts{Client: c.Client, RTT: time.Duration(c.RTTms) * time.Millisecond, Faults: c.Faults, Loss: c.Loss, Idle: r.idle,
		SrvLogger: c.SrvLogger, CliLogger: c.CliLogger, Handler: r})
	if err != nil {
		return vf.Bad("C18/harness/env", "%v", err)
	}
	var wg sync.WaitGroup
	for i := range c.Tunnels {
		wg.Add(1)
		go r.client(env, i, &wg)
	}
	done := make(chan struct{})
	go func() { wg.Wait(); close(done) }()
	stalled := !sim.WaitCtx(done, 200*time.Second)
	applied := env.w.Router.AppliedFaults()
	*trace = env.w.Router.Trace(300)
	if stalled {
		env.close()
		<-done
		return vf.Bad("C18/liveness/stall", "tunnel calls did not return within 200 s virtual time (request contexts expire after 150 s); faults applied %v", applied)
	}
	v := r.judge(env, applied, u)
	env.close()
	return v
}

func (r *connRun) judge(env *env, applied []string, u *vf.Unit) *vf.Verdict {
	c := &r.c
	r.mu.Lock()
	defer r.mu.Unlock()
	if r.bad != nil {
		return r.bad
	}
	for i := range c.Tunnels {
		tn, s, cs := &c.Tunnels[i], &r.srv[i], &r.cli[i]
		id := fmt.Sprintf("tunnel %d (%s %s, authority %q, :protocol %q, status %d, greeting %d in %v, upstream %d in %v, interactive %v, client %s)", i, tn.Kind, tn.url(i), tn.Authority, tn.Proto, tn.Status,
			tn.Greeting, tn.GChunks, tn.Up, tn.UChunks, tn.Interactive, c.Client)
		var ferr error
		var what string
		switch {
		case cs.Err != nil:
			ferr, what = cs.Err, "RoundTrip returned an error"
		case cs.Body.err != nil:
			ferr, what = cs.Body.err, fmt.Sprintf("reading the response body failed after %d bytes (of %d + %d)", cs.Body.N, tn.Greeting, tn.Up)
		case s.UpRead && s.Up.err != nil:
			ferr, what = s.Up.err, fmt.Sprintf("the handler's request body read failed after %d bytes", s.Up.N)
		case s.WriteErr != nil:
			ferr, what = s.WriteErr, "the handler's Write failed"
		}
		if ferr != nil {
			if justified(env.w, ferr, r.idle) {
				u.Class("justified-timeout")
				return nil
			}
			return vf.Bad("C18/exchange/unjustified-error", "%s: %s: %v — the network only dropped / duplicated / delayed datagrams (applied: %v, longest dead stretch %v, idle timeout %v)",
				id, what, ferr, applied, env.w.Router.DeadStretch(env.w.Router.Now()), r.idle)
		}
		// what the handler saw
		if s.Calls != 1 || !s.Done {
			return vf.Bad("C18/request/handler-calls", "%s: handler calls %d, returned %v", id, s.Calls, s.Done)
		}
		wantMethod, wantHost := http.MethodConnect, tn.Authority
		if tn.Kind == "post" {
			wantMethod = http.MethodPost
		}
		if wantHost == "" {
			wantHost = sim.ServerName
		}
		if s.Method != wantMethod || s.Host != wantHost {
			return vf.Bad("C18/connect/request", "%s: handler saw method %q host %q, want %q %q", id, s.Method, s.Host, wantMethod, wantHost)
		}
		switch tn.Kind {
		case "connect":
			// RFC 9114 4.4: :scheme and :path are omitted; net/http convention: RequestURI and URL.Host are the authority
			if s.RequestURI != wantHost || s.URLHost != wantHost || s.URLPath != "" || s.RawQuery != "" || s.Proto != "HTTP/3.0" {
				return vf.Bad("C18/connect/request", "%s: handler saw RequestURI %q URL.Host %q path %q query %q Proto %q; want the authority %q, no path, HTTP/3.0", id, s.RequestURI, s.URLHost, s.URLPath, s.RawQuery, s.Proto, wantHost)
			}
		case "extended":
			if s.Proto != tn.Proto || s.URLPath != fmt.Sprintf("/%d%s", i, tn.Path) || s.RawQuery != tn.Query || s.URLHost != wantHost {
				return vf.Bad("C18/connect/request", "%s: handler saw Proto %q path %q query %q URL.Host %q; want %q %q %q %q", id, s.Proto, s.URLPath, s.RawQuery, s.URLHost, tn.Proto, fmt.Sprintf("/%d%s", i, tn.Path), tn.Query, wantHost)
			}
		default:
			wantURI := fmt.Sprintf("/%d%s", i, tn.Path)
			if s.RequestURI != wantURI || s.Proto != "HTTP/3.0" {
				return vf.Bad("C18/request/url", "%s: handler saw RequestURI %q Proto %q", id, s.RequestURI, s.Proto)
			}
		}
		if msg := checkFields(tn.ReqH, s.Header); msg != "" {
			return vf.Bad("C18/request/header", "%s: %s", id, msg)
		}
		if s.WriteBad != "" {
			return vf.Bad("C18/response/write-result", "%s: %s", id, s.WriteBad)
		}
		if s.UpRead && (s.Up.BadAt >= 0 || s.Up.Extra || !s.Up.EOF || s.Up.N != tn.Up) {
			return vf.Bad("C18/connect/upstream", "%s: the handler must read exactly the %d bytes the client sent into the tunnel, it read %v", id, tn.Up, s.Up)
		}
		// what the client saw
		if cs.Status != tn.Status {
			return vf.Bad("C18/response/status", "%s: client got status %d", id, cs.Status)
		}
		if fmt.Sprint(cs.Codes1xx) != fmt.Sprint(tn.Pre) && len(cs.Codes1xx)+len(tn.Pre) > 0 {
			return vf.Bad("C18/response/informational", "%s: informational responses %v sent, client saw %v", id, tn.Pre, cs.Codes1xx)
		}
		if msg := checkFields(tn.RspH, cs.Header); msg != "" {
			return vf.Bad("C18/response/header", "%s: %s", id, msg)
		}
		wantN := tn.Greeting
		switch {
		case tn.tunnelOpen():
			wantN += tn.Up
		case tn.Status == 204:
			wantN = 0
		}
		if cs.Body.BadAt >= 0 || cs.Body.Extra || !cs.Body.EOF || cs.Body.N != wantN {
			return vf.Bad("C18/connect/downstream", "%s: the client must read exactly %d bytes (greeting, then the echo of what it sent), it read %v", id, wantN, cs.Body)
		}
		okCL := cs.CL == -1 || cs.CL == 0 && (tn.Status == 204 || tn.tunnelOpen() && tn.Kind != "post") || cs.CL == int64(wantN)
		if !okCL {
			return vf.Bad("C18/response/content-length", "%s: Response.ContentLength = %d with %d body bytes on the wire (declared by the handler: %v)", id, cs.CL, wantN, tn.RspCL)
		}
	}
	u.Class("completed")
	u.Class("client:" + strings.SplitN(c.Client, ":", 2)[0])
	if len(applied) > 0 {
		u.Class("fault-applied")
	}
	nt := false
	for i := range c.Tunnels {
		tn := &c.Tunnels[i]
		outcome := "refused"
		switch {
		case tn.tunnelOpen():
			outcome = "open"
		case tn.Status == 204:
			outcome = "204"
		}
		u.Class(tn.Kind + "/" + outcome)
		if tn.tunnelOpen() && tn.Kind != "post" && tn.Greeting+tn.Up > 0 {
			u.Class("tunnel-carried-bytes")
			nt = true
		}
		if tn.Interactive && tn.tunnelOpen() {
			u.Class("interactive")
		}
		if len(tn.Pre) > 0 {
			u.Class("1xx")
		}
		if tn.RspCL {
			u.Class("refused-with-content-length")
		}
	}
	if len(c.Tunnels) > 1 {
		u.Class("concurrent-tunnels")
	}
	if nt {
		u.NonTrivial(c.Client, fmt.Sprintf("%+v", c.Tunnels), strings.Join(applied, ","))
	}
	return nil
}

func TestH3Connect(t *testing.T) {
	curT = t
	vf.ReplayRepeat = 30
	vf.RunRapid(t, "h3-connect", genConnCase, checkConn)
}
