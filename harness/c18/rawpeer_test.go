package c18

import (
	"context"
	"encoding/json"
	"errors"
	"fmt"
	"io"
	"net"
	"net/http"
	"net/http/httptrace"
	"net/textproto"
	"strconv"
	"strings"
	"sync"
	"sync/atomic"
	"testing"
	"time"

	"pgregory.net/rapid"

	quic "github.com/refraction-networking/uquic"
	"github.com/refraction-networking/uquic/http3"
	"github.com/refraction-networking/uquic/verif/sim"
	"github.com/refraction-networking/uquic/verif/vf"
)

// Item is one frame of a scripted request / response stream.
type Item struct {
	K   string `json:"k"`             // headers | info | data | trailers | unknown | reserved | settings | goaway | cancel_push | max_push_id | push_promise
	N   int    `json:"n,omitempty"`   // payload length (data, unknown)
	T   uint64 `json:"t,omitempty"`   // frame type (unknown, reserved)
	Enc int    `json:"enc,omitempty"` // width of the type and length varints (0: minimal; 2, 4, 8: padded encodings, legal in QUIC)
}

// RawCase is one case of h3-raw-peer.
type RawCase struct {
	Side string `json:"side"` // "client": raw client against http3.Server | "server": raw server against http3.Transport
	Scn  string `json:"scn"`  // frames | uni | abort
	// frames
	Items []Item `json:"items,omitempty"`
	Cuts  []int  `json:"cuts,omitempty"`
	GapMs int    `json:"gap_ms,omitempty"`
	// uni
	Uni     string `json:"uni,omitempty"`
	UniType uint64 `json:"uni_type,omitempty"`
	UniLen  int    `json:"uni_len,omitempty"`
	UniEnd  string `json:"uni_end,omitempty"` // fin | reset | open
	// abort
	Phase   string `json:"phase,omitempty"`  // req | rsp
	At      int    `json:"at,omitempty"`     // permille of the bytes of that phase
	Action  string `json:"action,omitempty"` // reset | stop | both | close | blackhole | fin | overlong
	Code    uint64 `json:"code,omitempty"`
	ReqBody int    `json:"req_body,omitempty"`
	RspBody int    `json:"rsp_body,omitempty"`
	DeclT   string `json:"decl_t,omitempty"` // handler declares trailers: "" | valid | invalid | prefix
	// common
	SrvLogger bool   `json:"srv_logger"`
	CliLogger bool   `json:"cli_logger"`
	Client    string `json:"client,omitempty"` // QUIC client under the http3.Transport (Side "server")
	RTTms     int    `json:"rtt_ms"`
	Seed      uint64 `json:"seed"`
	// widths of the varints the raw peer writes (see varintWidth in rawlib_test.go); 0 / absent: all minimal
	VSeed uint64 `json:"vseed,omitempty"`
	VDens int    `json:"vdens,omitempty"`
	// further unidirectional streams the (otherwise conforming) raw peer opens: QPACK encoder / decoder, unknown types
	// (see UniOpen in rawlib_test.go); absent: only the control stream, as before
	XUni []UniOpen `json:"xuni,omitempty"`
}

// genVarintEnc draws the varint-encoding dimension: density 0 (all minimal, also the shrink target) .. 3 (every
// varint longer than necessary).
func genVarintEnc(t *rapid.T) (uint64, int) {
	dens := rapid.SampledFrom([]int{0, 1, 2, 2, 3, 3}).Draw(t, "vdens")
	if dens == 0 {
		return 0, 0
	}
	return rapid.Uint64Range(0, 1<<40).Draw(t, "vseed"), dens
}

// ---- generator ----

var unknownTypes = []uint64{0x21, 0x21 + 0x1f, 0x21 + 0x1f*2, 0x21 + 0x1f*1000, 0x21 + 0x1f*148764065110560899, // grease: 0x1f*N+0x21 (the last one is the largest)
	0xa, 0xb, 0xc, 0xe, 0xf, 0x10, 0x40, 0x3fff, 0x4000, 0x3fffffff, 0x40000000, 1<<62 - 1}

var reservedTypes = []uint64{0x2, 0x6, 0x8, 0x9}

func genUnknown(t *rapid.T) Item {
	it := Item{K: "unknown", T: rapid.SampledFrom(unknownTypes).Draw(t, "utype")}
	it.N = rapid.OneOf(rapid.Just(0), rapid.IntRange(1, 40), rapid.IntRange(1, 3000), rapid.IntRange(3000, 20000)).Draw(t, "ulen")
	it.Enc = rapid.SampledFrom([]int{0, 0, 0, 8}).Draw(t, "uenc")
	return it
}

func genData(t *rapid.T) Item {
	return Item{K: "data", N: rapid.OneOf(rapid.Just(0), rapid.IntRange(1, 40), rapid.IntRange(1, 3000), rapid.IntRange(3000, 30000)).Draw(t, "dlen"),
		Enc: rapid.SampledFrom([]int{0, 0, 0, 2, 4, 8}).Draw(t, "denc")}
}

// genItems draws a well-formed message with unknown frames interleaved at every position and, in about half of the
// cases, exactly one forbidden frame at a drawn position.
func genItems(t *rapid.T, side string) []Item {
	var its []Item
	maybeUnknown := func() {
		for rapid.IntRange(0, 2).Draw(t, "unk") == 0 && len(its) < 24 {
			its = append(its, genUnknown(t))
		}
	}
	maybeUnknown()
	if side == "server" {
		n := rapid.SampledFrom([]int{0, 0, 1, 2}).Draw(t, "ninfo")
		for i := 0; i < n; i++ {
			its = append(its, Item{K: "info"})
			maybeUnknown()
		}
	}
	its = append(its, Item{K: "headers", Enc: rapid.SampledFrom([]int{0, 0, 2, 8}).Draw(t, "henc")})
	maybeUnknown()
	nd := rapid.IntRange(0, 4).Draw(t, "ndata")
	for i := 0; i < nd; i++ {
		its = append(its, genData(t))
		maybeUnknown()
	}
	if rapid.Bool().Draw(t, "trailers") {
		its = append(its, Item{K: "trailers"})
		maybeUnknown()
	}
	if rapid.Bool().Draw(t, "violate") {
		kinds := []string{"data", "trailers", "reserved", "settings", "goaway", "cancel_push", "max_push_id", "push_promise"}
		v := Item{K: rapid.SampledFrom(kinds).Draw(t, "vkind")}
		pos := rapid.IntRange(0, len(its)).Draw(t, "vpos")
		switch v.K {
		case "data":
			// only forbidden before the header and after the trailers
			first, last := 0, len(its)
			for i, it := range its {
				if it.K == "headers" {
					first = i
				}
			}
			hasTrailers := false
			for _, it := range its {
				hasTrailers = hasTrailers || it.K == "trailers"
			}
			if hasTrailers && rapid.Bool().Draw(t, "after") {
				pos = last
			} else {
				pos = rapid.IntRange(0, first).Draw(t, "before")
				// an informational response is a HEADERS frame too: stay in front of everything
				for i, it := range its {
					if it.K == "info" && i < pos {
						pos = i
					}
				}
			}
			v.N = rapid.IntRange(0, 2000).Draw(t, "vn")
		case "trailers":
			// a further HEADERS frame is forbidden only after the trailers
			hasTrailers := false
			for _, it := range its {
				hasTrailers = hasTrailers || it.K == "trailers"
			}
			if !hasTrailers {
				its = append(its, Item{K: "trailers"})
			}
			pos = len(its)
		case "reserved":
			v.T = rapid.SampledFrom(reservedTypes).Draw(t, "rtype")
			v.N = rapid.IntRange(0, 100).Draw(t, "rn")
		}
		its = append(its[:pos:pos], append([]Item{v}, its[pos:]...)...)
	}
	return its
}

var uniScenarios = map[string][]string{
	"client": {"unknown", "unknown", "control2", "qenc2", "qdec2", "push", "ctrl-first-data", "ctrl-first-headers", "ctrl-first-goaway", "ctrl-close-before",
		"ctrl-close-after", "ctrl-settings2", "ctrl-data", "ctrl-headers", "ctrl-unknown", "ctrl-reserved", "ctrl-cancel-push"},
	"server": {"unknown", "unknown", "control2", "qenc2", "qdec2", "push", "ctrl-first-data", "ctrl-first-headers", "ctrl-first-goaway", "ctrl-close-before",
		"ctrl-close-after", "ctrl-settings2", "ctrl-data", "ctrl-headers", "ctrl-unknown", "ctrl-reserved", "ctrl-cancel-push", "ctrl-max-push-id", "goaway-bad-id", "goaway-len"},
}

func genRawCase(t *rapid.T) RawCase {
	c := RawCase{Seed: rapid.Uint64().Draw(t, "seed")}
	c.Side = rapid.SampledFrom([]string{"client", "server"}).Draw(t, "side")
	c.Scn = rapid.SampledFrom([]string{"frames", "frames", "uni", "abort", "abort", "abort"}).Draw(t, "scn")
	c.RTTms = rapid.SampledFrom([]int{2, 20, 60}).Draw(t, "rtt")
	c.SrvLogger = rapid.Bool().Draw(t, "srvlogger")
	c.CliLogger = rapid.Bool().Draw(t, "clilogger")
	if c.Side == "server" {
		c.Client = rapid.SampledFrom([]string{"plain", "plain", "plain", "spec:chrome115", "spec:firefoxA"}).Draw(t, "client")
	}
	switch c.Scn {
	case "frames":
		c.Items = genItems(t, c.Side)
		nc := rapid.IntRange(0, 3).Draw(t, "ncuts")
		for i := 0; i < nc; i++ {
			c.Cuts = append(c.Cuts, rapid.OneOf(rapid.IntRange(1, 4), rapid.IntRange(1, 1500), rapid.IntRange(1000, 30000)).Draw(t, "cut"))
		}
		c.GapMs = rapid.SampledFrom([]int{0, 0, 1, 5}).Draw(t, "gap")
	case "uni":
		c.Uni = rapid.SampledFrom(uniScenarios[c.Side]).Draw(t, "uni")
		c.UniType = rapid.SampledFrom(append([]uint64{0x4, 0x5, 0x1f, 0xff}, unknownTypes...)).Draw(t, "unitype")
		c.UniLen = rapid.OneOf(rapid.Just(0), rapid.IntRange(1, 100), rapid.IntRange(100, 20000)).Draw(t, "unilen")
		c.UniEnd = rapid.SampledFrom([]string{"fin", "reset", "open"}).Draw(t, "uniend")
	case "abort":
		c.Phase = rapid.SampledFrom([]string{"req", "rsp"}).Draw(t, "phase")
		c.At = rapid.OneOf(rapid.SampledFrom([]int{0, 1, 500, 999, 1000}), rapid.IntRange(0, 1000)).Draw(t, "at")
		acts := []string{"reset", "stop", "both", "close", "blackhole", "fin"}
		if c.Side == "client" && c.Phase == "req" {
			acts = append(acts, "overlong")
		}
		c.Action = rapid.SampledFrom(acts).Draw(t, "action")
		c.Code = rapid.SampledFrom([]uint64{h3NoError, h3RequestCancelled, h3InternalError, 0, 1<<62 - 1}).Draw(t, "code")
		c.ReqBody = rapid.OneOf(rapid.IntRange(0, 2000), rapid.IntRange(2000, 60000), rapid.Just(200<<10)).Draw(t, "reqbody")
		c.RspBody = rapid.OneOf(rapid.IntRange(0, 2000), rapid.IntRange(8192, 60000), rapid.Just(200<<10), rapid.Just(200<<10)).Draw(t, "rspbody")
		c.DeclT = rapid.SampledFrom([]string{"", "valid", "valid", "invalid", "prefix"}).Draw(t, "declt")
	}
	c.VSeed, c.VDens = genVarintEnc(t)
	c.XUni = genExtraUni(t)
	return c
}

// ---- serialisation of items ----

func encHeader(b []byte, typ uint64, l int, enc int) []byte {
	if enc == 0 {
		b = appendVarint(b, typ)
		return appendVarint(b, uint64(l))
	}
	tw := enc
	if typ >= 1<<30 {
		tw = 8
	} else if typ >= 1<<14 && tw < 4 {
		tw = 4
	} else if typ >= 1<<6 && tw < 2 {
		tw = 2
	}
	lw := enc
	if l >= 1<<14 && lw < 4 {
		lw = 4
	}
	b = appendVarintN(b, typ, tw)
	return appendVarintN(b, uint64(l), lw)
}

const rawTrailerName, rawTrailerValue = "x-raw-trailer", "tv"

// serialise returns the stream bytes of the items, the body a conforming receiver assembles, and the frame boundaries.
func serialise(c *RawCase) (stream []byte, body []byte, bounds []int) {
	k := 0
	for _, it := range c.Items {
		var payload []byte
		var typ uint64
		switch it.K {
		case "headers":
			typ = ftHeaders
			if c.Side == "client" {
				payload = encodeFields([][2]string{{":method", "POST"}, {":scheme", "https"}, {":authority", sim.ServerName}, {":path", "/frames"}, {"x-raw", "request"}, {"trailer", "X-Raw-Trailer"}})
			} else {
				payload = encodeFields([][2]string{{":status", "200"}, {"x-raw", "response"}})
			}
		case "info":
			typ, payload = ftHeaders, encodeFields([][2]string{{":status", "103"}, {"link", "</style.css>; rel=preload"}})
		case "trailers":
			typ, payload = ftHeaders, encodeFields([][2]string{{rawTrailerName, rawTrailerValue}})
		case "data":
			typ, payload = ftData, pattern(c.Seed, 100+k, it.N)
			k++
		case "unknown", "reserved":
			typ, payload = it.T, pattern(c.Seed, 200+k, it.N)
			k++
		case "settings":
			typ, payload = ftSettings, settingsPayload(0x6, 4096)
		case "goaway":
			typ, payload = ftGoaway, appendVarint(nil, 0)
		case "cancel_push":
			typ, payload = ftCancelPush, appendVarint(nil, 0)
		case "max_push_id":
			typ, payload = ftMaxPushID, appendVarint(nil, 7)
		case "push_promise":
			typ = ftPushPromise
			payload = append(appendVarint(nil, 0), encodeFields([][2]string{{":method", "GET"}, {":scheme", "https"}, {":authority", sim.ServerName}, {":path", "/pushed"}})...)
		}
		stream = encHeader(stream, typ, len(payload), it.Enc)
		stream = append(stream, payload...)
		bounds = append(bounds, len(stream))
	}
	return
}

// expectation derived from RFC 9114 for a sequence of frames on a request (toServer) or response stream.
type frameExpect struct {
	Code     uint64 // 0: the message is well-formed and must be delivered
	Why      string
	Group    string // signature suffix when the in-tree side does not react as required
	Body     []byte
	Trailers bool
	Infos    int
}

func modelFrames(c *RawCase) frameExpect {
	toServer := c.Side == "client"
	ex := frameExpect{}
	phase, k := 0, 0
	bad := func(code uint64, group, why string) frameExpect {
		ex.Code, ex.Group, ex.Why = code, group, why
		return ex
	}
	for _, it := range c.Items {
		switch it.K {
		case "unknown":
			k++ // RFC 9114 7.2.8 / 9: unknown frame types are ignored on any stream, at any position
		case "info":
			ex.Infos++
		case "headers", "trailers":
			switch phase {
			case 0:
				phase = 1
			case 1:
				phase, ex.Trailers = 2, true
			default:
				return bad(h3FrameUnexpected, "frame-after-trailers", "RFC 9114 4.1: a HEADERS frame after the trailing HEADERS frame is an invalid sequence, connection error H3_FRAME_UNEXPECTED")
			}
		case "data":
			switch phase {
			case 0:
				return bad(h3FrameUnexpected, "forbidden-frame", "RFC 9114 4.1: a DATA frame before any HEADERS frame, connection error H3_FRAME_UNEXPECTED")
			case 1:
				ex.Body = append(ex.Body, pattern(c.Seed, 100+k, it.N)...)
			default:
				return bad(h3FrameUnexpected, "frame-after-trailers", "RFC 9114 4.1: a DATA frame after the trailing HEADERS frame, connection error H3_FRAME_UNEXPECTED")
			}
			k++
		case "reserved":
			return bad(h3FrameUnexpected, "forbidden-frame", fmt.Sprintf("RFC 9114 7.2.8: reserved (HTTP/2) frame type %#x, connection error H3_FRAME_UNEXPECTED", it.T))
		case "settings":
			return bad(h3FrameUnexpected, "forbidden-frame", "RFC 9114 7.2.4: SETTINGS on a request stream, connection error H3_FRAME_UNEXPECTED")
		case "goaway":
			return bad(h3FrameUnexpected, "forbidden-frame", "RFC 9114 7.2.6: GOAWAY on a stream other than the control stream, connection error H3_FRAME_UNEXPECTED")
		case "cancel_push":
			return bad(h3FrameUnexpected, "push-frame-ignored", "RFC 9114 7.2.3: CANCEL_PUSH on a stream other than the control stream, connection error H3_FRAME_UNEXPECTED")
		case "max_push_id":
			return bad(h3FrameUnexpected, "push-frame-ignored", "RFC 9114 7.2.7: MAX_PUSH_ID on a stream other than the control stream (and never from a server), connection error H3_FRAME_UNEXPECTED")
		case "push_promise":
			if toServer {
				return bad(h3FrameUnexpected, "push-frame-ignored", "RFC 9114 7.2.5: a server MUST treat the receipt of a PUSH_PROMISE frame as a connection error H3_FRAME_UNEXPECTED")
			}
			return bad(h3IDError, "push-frame-ignored", "RFC 9114 7.2.5: PUSH_PROMISE with a push ID larger than the client advertised (it sent no MAX_PUSH_ID), connection error H3_ID_ERROR")
		}
	}
	return ex
}

// ---- case execution ----

func needsIsolationRaw(c RawCase) bool {
	return c.Scn == "abort" && c.Side == "client" && !c.SrvLogger && c.DeclT != ""
}

func checkRaw(c RawCase, u *vf.Unit) *vf.Verdict {
	u.Journal(c)
	if needsIsolationRaw(c) && wantIsolation() {
		u.Class("isolated")
		return isolate("h3-raw-peer", c, u)
	}
	v := runRaw(c, u)
	if v == nil && u.WantSample() {
		u.Sample(c)
	}
	return v
}

func init() {
	childRunners["h3-raw-peer"] = func(raw json.RawMessage, rec recorder) *vf.Verdict {
		var c RawCase
		if err := json.Unmarshal(raw, &c); err != nil {
			return vf.Bad("C18/harness/child", "bad case: %v", err)
		}
		return runRaw(c, rec)
	}
}

func runRaw(c RawCase, rec recorder) *vf.Verdict {
	var v *vf.Verdict
	setVarintEnc(c.VSeed, c.VDens)
	defer setVarintEnc(0, 0)
	setExtraUni(c.XUni)
	defer setExtraUni(nil)
	rec.Class(fmt.Sprintf("varint-density:%d", c.VDens))
	rec.Class("extra-uni:" + extraUniClass(c.XUni))
	sim.Bubble(curT, 40*time.Second, func() {
		switch c.Scn + "/" + c.Side {
		case "frames/client":
			v = framesVsServer(c, rec)
		case "frames/server":
			v = framesVsClient(c, rec)
		case "uni/client":
			v = uniVsServer(c, rec)
		case "uni/server":
			v = uniVsClient(c, rec)
		case "abort/client":
			v = abortVsServer(c, rec)
		case "abort/server":
			v = abortVsClient(c, rec)
		default:
			v = vf.Bad("C18/harness/case", "unknown scenario %s/%s", c.Scn, c.Side)
		}
	}, func(rep sim.LeakReport) {
		if v == nil {
			v = vf.Bad("C18/leak/goroutines", "%d goroutines still alive 40 s (virtual) after shutdown:\n%s", rep.Count, rep.Dump)
		}
	})
	noteExtraUni(v, c.XUni)
	return v
}

const rawIdle = 3 * time.Second

// waitClosed waits (virtual time) for the connection to end and returns the cause.
func waitClosed(ctx context.Context, d time.Duration) error {
	if sim.WaitCtx(ctx.Done(), d) {
		return context.Cause(ctx)
	}
	return nil
}

// describeEnd renders how the raw peer saw its connection end.
func describeEnd(err error) string {
	if err == nil {
		return "connection still open"
	}
	if code, ok := connCode(err); ok {
		return "closed by the peer with " + h3Name(code)
	}
	return "ended with " + err.Error()
}

// rawSrvFixture: in-tree server + handler state shared by the Side "client" scenarios.
type srvFixture struct {
	w      *sim.World
	mu     sync.Mutex
	hv     *vf.Verdict
	closes []func()
}

func (f *srvFixture) close() {
	for i := len(f.closes) - 1; i >= 0; i-- {
		f.closes[i]()
	}
	f.w.Close()
}

func (f *srvFixture) guard(where string) {
	if p := recover(); p != nil {
		if p == http.ErrAbortHandler {
			panic(p)
		}
		f.mu.Lock()
		if f.hv == nil {
			f.hv = recovered(where, p)
		}
		f.mu.Unlock()
		panic(http.ErrAbortHandler)
	}
}

func newSrvFixture(c *RawCase, h func(f *srvFixture) http.Handler) (*srvFixture, error) {
	f := &srvFixture{}
	f.w = sim.NewWorld(time.Duration(c.RTTms)*time.Millisecond, nil, nil, nil)
	st, ln, srv, done, err := newServer(f.w, envOpts{Idle: rawIdle, SrvLogger: c.SrvLogger, Handler: h(f)}, &logSink{})
	if err != nil {
		f.w.Close()
		return nil, err
	}
	f.closes = append(f.closes, func() { srv.Close(); ln.Close(); <-done; st.Close() })
	return f, nil
}

// followUpServer shows that the server still serves a well-formed request: on the raw client's connection if it is
// alive, otherwise on a new connection from another address.
func followUpServer(ctx context.Context, f *srvFixture, rc *rawClient, port int) error {
	if rc != nil && rc.closeErr() == nil {
		m, err := rc.simpleRequest(ctx, "GET", "/after", nil)
		if err != nil {
			return fmt.Errorf("on the same connection: %w", err)
		}
		if s, _ := m.field(0, ":status"); s != "200" {
			return fmt.Errorf("on the same connection: status %q", s)
		}
		return nil
	}
	pc := f.w.NewEndpoint(&net.UDPAddr{IP: net.ParseIP("1.0.0.1"), Port: port})
	rc2, err := dialRawClient(ctx, f.w, pc, rawIdle, 0, true)
	if err != nil {
		if rc2 != nil {
			rc2.close()
		}
		pc.Close()
		return fmt.Errorf("new connection: %w", err)
	}
	defer pc.Close()
	defer rc2.close()
	m, err := rc2.simpleRequest(ctx, "GET", "/after", nil)
	if err != nil {
		return fmt.Errorf("on a new connection: %w", err)
	}
	if s, _ := m.field(0, ":status"); s != "200" {
		return fmt.Errorf("on a new connection: status %q", s)
	}
	return nil
}

// ---- frames: raw client against the in-tree server ----

func framesVsServer(c RawCase, rec recorder) *vf.Verdict {
	ex := modelFrames(&c)
	stream, _, _ := serialise(&c)
	type seenT struct {
		invoked bool
		body    readResult
		trailer string
		xraw    string
		done    bool
	}
	seen := seenT{body: readResult{BadAt: -1}}
	f, err := newSrvFixture(&c, func(f *srvFixture) http.Handler {
		return http.HandlerFunc(func(w http.ResponseWriter, r *http.Request) {
			defer f.guard("the handler")
			if r.URL.Path != "/frames" {
				w.WriteHeader(200)
				return
			}
			f.mu.Lock()
			seen.invoked, seen.xraw = true, r.Header.Get("X-Raw")
			f.mu.Unlock()
			res := drain(r.Body, ex.Body, 4096)
			f.mu.Lock()
			seen.body, seen.trailer, seen.done = res, r.Trailer.Get("X-Raw-Trailer"), true
			f.mu.Unlock()
			w.Header().Set("X-N", strconv.Itoa(res.N))
			w.Write([]byte("ok"))
		})
	})
	if err != nil {
		return vf.Bad("C18/harness/env", "%v", err)
	}
	defer f.close()
	ctx, cancel := context.WithTimeout(context.Background(), 30*time.Second)
	defer cancel()
	rc, err := dialRawClient(ctx, f.w, f.w.ClientConn, rawIdle, 0, true)
	if err != nil {
		if rc != nil {
			rc.close()
		}
		return vf.Bad("C18/harness/env", "raw client dial: %v", err)
	}
	defer rc.close()
	str, err := rc.conn.OpenStreamSync(ctx)
	if err != nil {
		return vf.Bad("C18/harness/env", "open stream: %v", err)
	}
	wdone := make(chan struct{})
	go func() {
		defer close(wdone)
		if writeCut(str, stream, c.Cuts, boundGap(len(stream), c.Cuts, c.GapMs)) == nil {
			str.Close()
		}
	}()
	m := readMessage(str, nil)
	if m.Err != nil {
		str.CancelWrite(h3RequestCancelled)
	}
	<-wdone
	desc := fmt.Sprintf("request stream %s (written in segments %v, gap %d ms), server Logger set: %v", describeItems(c.Items), c.Cuts, c.GapMs, c.SrvLogger)
	var end error
	if ex.Code != 0 {
		end = waitClosed(rc.conn.Context(), 2*time.Second)
	} else {
		time.Sleep(4*time.Duration(c.RTTms)*time.Millisecond + 20*time.Millisecond)
		end = rc.closeErr()
	}
	f.mu.Lock()
	hv, s := f.hv, seen
	f.mu.Unlock()
	if hv != nil {
		return hv
	}
	if ex.Code != 0 {
		code, ok := connCode(end)
		if !ok || code != ex.Code {
			return vf.Bad("C18/raw/"+ex.Group, "%s: %s; expected the connection to be closed with %s, but the raw client saw: %s; response stream: %s; handler read %v",
				desc, ex.Why, h3Name(ex.Code), describeEnd(end), describeMsg(m), s.body)
		}
		rec.Class("forbidden:" + ex.Group)
	} else {
		if end != nil {
			return vf.Bad("C18/raw/wellformed-rejected", "%s: only unknown frame types were added to a well-formed request (RFC 9114 9: they MUST be ignored), but the raw client saw: %s", desc, describeEnd(end))
		}
		status, _ := m.field(0, ":status")
		if m.Err != nil || m.Truncated || status != "200" || string(m.Body) != "ok" {
			return vf.Bad("C18/raw/wellformed-rejected", "%s: well-formed request with unknown frames: the response is %s", desc, describeMsg(m))
		}
		if !s.done || s.body.BadAt >= 0 || s.body.Extra || !s.body.EOF || s.body.N != len(ex.Body) || s.xraw != "request" {
			return vf.Bad("C18/raw/unknown-frame-altered-message", "%s: the handler must read the %d bytes of the DATA frames and nothing else; it read %v (X-Raw %q)", desc, len(ex.Body), s.body, s.xraw)
		}
		if ex.Trailers != (s.trailer == rawTrailerValue) {
			return vf.Bad("C18/raw/unknown-frame-altered-message", "%s: trailers sent %v, handler has X-Raw-Trailer %q", desc, ex.Trailers, s.trailer)
		}
		rec.Class("wellformed")
	}
	if err := followUpServer(ctx, f, rc, 9100); err != nil {
		return vf.Bad("C18/raw/server-unusable", "%s: a well-formed request afterwards failed %v", desc, err)
	}
	rec.Class("frames/client")
	nu := 0
	for _, it := range c.Items {
		if it.K == "unknown" {
			nu++
		}
	}
	if nu > 0 {
		rec.Class("unknown-frames")
	}
	if nu > 0 || ex.Code != 0 {
		rec.NonTrivial("frames/client", describeItems(c.Items), fmt.Sprint(c.Cuts), c.GapMs)
	}
	return nil
}

func describeItems(its []Item) string {
	var sb strings.Builder
	sb.WriteByte('[')
	for i, it := range its {
		if i > 0 {
			sb.WriteByte(' ')
		}
		switch it.K {
		case "data":
			fmt.Fprintf(&sb, "DATA(%d)", it.N)
		case "unknown":
			fmt.Fprintf(&sb, "unknown%#x(%d)", it.T, it.N)
		case "reserved":
			fmt.Fprintf(&sb, "RESERVED%#x(%d)", it.T, it.N)
		case "headers":
			sb.WriteString("HEADERS")
		case "info":
			sb.WriteString("HEADERS(103)")
		case "trailers":
			sb.WriteString("HEADERS(trailers)")
		default:
			sb.WriteString(strings.ToUpper(it.K))
		}
	}
	sb.WriteByte(']')
	return sb.String()
}

func describeMsg(m *message) string {
	if m == nil {
		return "<none>"
	}
	var hs []string
	for _, h := range m.Headers {
		hs = append(hs, fmt.Sprint(h))
	}
	end := "clean FIN"
	if m.Truncated {
		end = "FIN inside a frame"
	}
	if m.Err != nil {
		end = "error " + m.Err.Error()
		if code, ok := streamCode(m.Err); ok {
			end += " (" + h3Name(code) + ")"
		}
	}
	return fmt.Sprintf("{field sections %v, %d body bytes, %s}", hs, len(m.Body), end)
}

// ---- frames: raw server against the in-tree client ----

// cliFixture: raw server + in-tree Transport.
type cliFixture struct {
	w      *sim.World
	rs     *rawServer
	tr     *http3.Transport
	closes []func()
}

func (f *cliFixture) close() {
	for i := len(f.closes) - 1; i >= 0; i-- {
		f.closes[i]()
	}
	f.w.Close()
}

func newCliFixture(c *RawCase, window int) (*cliFixture, error) {
	f := &cliFixture{}
	f.w = sim.NewWorld(time.Duration(c.RTTms)*time.Millisecond, nil, nil, nil)
	rs, err := newRawServer(f.w, rawIdle, window)
	if err != nil {
		f.w.Close()
		return nil, err
	}
	f.rs = rs
	f.closes = append(f.closes, rs.close)
	ct, tr, err := newClient(f.w, envOpts{Client: c.Client, Idle: rawIdle, CliLogger: c.CliLogger}, &logSink{})
	if err != nil {
		f.close()
		return nil, err
	}
	f.tr = tr
	f.closes = append(f.closes, func() { tr.Close(); ct.Close() })
	return f, nil
}

type cliResult struct {
	rtErr   error
	status  int
	xraw    string
	body    readResult
	trailer string
	infos   []int
	rsp     bool
}

func (r cliResult) String() string {
	if r.rtErr != nil {
		return fmt.Sprintf("RoundTrip error %q", r.rtErr)
	}
	return fmt.Sprintf("status %d, informational %v, body read %v, trailer %q", r.status, r.infos, r.body, r.trailer)
}

func (r cliResult) errored() bool { return r.rtErr != nil || r.body.err != nil }

// doRequest runs one request through the Transport and drains the response.
func doRequest(ctx context.Context, tr *http3.Transport, method, path string, body io.Reader, want []byte) (res cliResult, pv *vf.Verdict) {
	defer func() {
		if p := recover(); p != nil {
			pv = recovered("the caller of RoundTrip", p)
		}
	}()
	var mu sync.Mutex
	res.body.BadAt = -1
	ctx = httptrace.WithClientTrace(ctx, &httptrace.ClientTrace{Got1xxResponse: func(code int, _ textproto.MIMEHeader) error {
		mu.Lock()
		res.infos = append(res.infos, code)
		mu.Unlock()
		return nil
	}})
	req, err := http.NewRequestWithContext(ctx, method, "https://"+sim.ServerName+path, body)
	if err != nil {
		res.rtErr = err
		return
	}
	rsp, err := tr.RoundTrip(req)
	if err != nil {
		res.rtErr = err
		return
	}
	res.rsp, res.status, res.xraw = true, rsp.StatusCode, rsp.Header.Get("X-Raw")
	res.body = drain(rsp.Body, want, 4096)
	res.trailer = rsp.Trailer.Get("X-Raw-Trailer")
	rsp.Body.Close()
	return
}

func followUpClient(ctx context.Context, f *cliFixture) error {
	res, pv := doRequest(ctx, f.tr, "GET", "/after", nil, []byte("after"))
	if pv != nil {
		return errors.New(pv.Detail)
	}
	if res.errored() || res.status != 200 || res.body.N != 5 || res.body.BadAt >= 0 {
		return fmt.Errorf("%v", res)
	}
	return nil
}

func framesVsClient(c RawCase, rec recorder) *vf.Verdict {
	ex := modelFrames(&c)
	stream, _, _ := serialise(&c)
	f, err := newCliFixture(&c, 0)
	if err != nil {
		return vf.Bad("C18/harness/env", "%v", err)
	}
	defer f.close()
	var mu sync.Mutex
	var first *rawServerConn
	f.rs.onStream = func(sc *rawServerConn, str *quic.Stream, idx int) {
		m := readMessage(str, nil)
		if p, _ := m.field(0, ":path"); p != "/frames" {
			respondSimple2(str, []byte("after"))
			return
		}
		mu.Lock()
		first = sc
		mu.Unlock()
		if writeCut(str, stream, c.Cuts, boundGap(len(stream), c.Cuts, c.GapMs)) == nil {
			str.Close()
		}
	}
	f.rs.serve()
	ctx, cancel := context.WithTimeout(context.Background(), 30*time.Second)
	defer cancel()
	res, pv := doRequest(ctx, f.tr, "GET", "/frames", nil, ex.Body)
	if pv != nil {
		return pv
	}
	desc := fmt.Sprintf("response stream %s (written in segments %v, gap %d ms), client %s, Transport Logger set: %v", describeItems(c.Items), c.Cuts, c.GapMs, c.Client, c.CliLogger)
	mu.Lock()
	sc := first
	mu.Unlock()
	if sc == nil {
		return vf.Bad("C18/raw/request-not-received", "%s: the raw server never saw the request; client: %v", desc, res)
	}
	var end error
	if ex.Code != 0 {
		end = waitClosed(sc.conn.Context(), 2*time.Second)
		code, ok := connCode(end)
		if !ok || code != ex.Code {
			return vf.Bad("C18/raw/"+ex.Group, "%s: %s; expected the connection to be closed with %s, but the raw server saw: %s; the caller of RoundTrip got: %v",
				desc, ex.Why, h3Name(ex.Code), describeEnd(end), res)
		}
		if !res.errored() {
			return vf.Bad("C18/raw/forbidden-frame-no-error", "%s: %s; the connection was closed with %s but the caller got no error: %v", desc, ex.Why, h3Name(ex.Code), res)
		}
		rec.Class("forbidden:" + ex.Group)
	} else {
		time.Sleep(4*time.Duration(c.RTTms)*time.Millisecond + 20*time.Millisecond)
		if end = sc.closeErr(); end != nil {
			if code, ok := connCode(end); !ok || code != h3NoError {
				return vf.Bad("C18/raw/wellformed-rejected", "%s: only unknown frame types were added to a well-formed response, but the raw server saw: %s; caller: %v", desc, describeEnd(end), res)
			}
		}
		if res.errored() || res.status != 200 || res.xraw != "response" {
			return vf.Bad("C18/raw/wellformed-rejected", "%s: well-formed response with unknown frames: caller got %v", desc, res)
		}
		if res.body.BadAt >= 0 || res.body.Extra || !res.body.EOF || res.body.N != len(ex.Body) {
			return vf.Bad("C18/raw/unknown-frame-altered-message", "%s: the caller must read the %d bytes of the DATA frames and nothing else; it read %v", desc, len(ex.Body), res.body)
		}
		if ex.Trailers != (res.trailer == rawTrailerValue) || len(res.infos) != ex.Infos {
			return vf.Bad("C18/raw/unknown-frame-altered-message", "%s: trailers sent %v, caller has %q; informational responses sent %d, seen %v", desc, ex.Trailers, res.trailer, ex.Infos, res.infos)
		}
		rec.Class("wellformed")
	}
	if err := followUpClient(ctx, f); err != nil {
		return vf.Bad("C18/raw/client-unusable", "%s: a request through the same Transport afterwards failed: %v", desc, err)
	}
	rec.Class("frames/server")
	nu := 0
	for _, it := range c.Items {
		if it.K == "unknown" {
			nu++
		}
	}
	if nu > 0 {
		rec.Class("unknown-frames")
	}
	if nu > 0 || ex.Code != 0 {
		rec.NonTrivial("frames/server", describeItems(c.Items), fmt.Sprint(c.Cuts), c.GapMs, c.Client)
	}
	return nil
}

// respondSimple2 answers an already read request with 200 and the given body.
func respondSimple2(str *quic.Stream, body []byte) {
	b := appendFrame(nil, ftHeaders, encodeFields([][2]string{{":status", "200"}, {"x-raw", "ok"}}))
	if len(body) > 0 {
		b = appendFrame(b, ftData, body)
	}
	str.Write(b)
	str.Close()
}

// ---- uni: unidirectional streams and the control stream ----

type uniExpect struct {
	Code  uint64 // 0: the connection must stay usable
	Why   string
	Group string
}

// modelUni gives the RFC 9114 outcome of a unidirectional-stream scenario. toServer: the in-tree side is the server.
func modelUni(c *RawCase) uniExpect {
	toServer := c.Side == "client"
	ctl := "forbidden-stream"
	if toServer {
		// everything that arrives on the client's control stream after SETTINGS
		ctl = "server-control-stream-unread"
	}
	switch c.Uni {
	case "unknown", "ctrl-unknown":
		return uniExpect{}
	case "control2":
		return uniExpect{h3StreamCreationError, "RFC 9114 6.2.1: only one control stream per peer is permitted; a second one MUST be treated as a connection error H3_STREAM_CREATION_ERROR", "forbidden-stream"}
	case "qenc2", "qdec2":
		return uniExpect{h3StreamCreationError, "RFC 9204 4.2: a second QPACK encoder / decoder stream MUST be treated as a connection error H3_STREAM_CREATION_ERROR", "forbidden-stream"}
	case "push":
		if toServer {
			return uniExpect{h3StreamCreationError, "RFC 9114 6.2.2: a client-initiated push stream MUST be treated as a connection error H3_STREAM_CREATION_ERROR", "forbidden-stream"}
		}
		return uniExpect{h3IDError, "RFC 9114 6.2.2 / 4.6: a push stream although the client never sent MAX_PUSH_ID, connection error H3_ID_ERROR", "forbidden-stream"}
	case "ctrl-first-data", "ctrl-first-headers", "ctrl-first-goaway":
		return uniExpect{h3MissingSettings, "RFC 9114 6.2.1: the first frame of the control stream is not SETTINGS, connection error H3_MISSING_SETTINGS", "forbidden-stream"}
	case "ctrl-close-before":
		return uniExpect{h3ClosedCritical, "RFC 9114 6.2.1: the control stream was closed (before SETTINGS), connection error H3_CLOSED_CRITICAL_STREAM", "forbidden-stream"}
	case "ctrl-close-after":
		return uniExpect{h3ClosedCritical, "RFC 9114 6.2.1: closure of the control stream at any point MUST be treated as a connection error H3_CLOSED_CRITICAL_STREAM", ctl}
	case "ctrl-settings2":
		return uniExpect{h3FrameUnexpected, "RFC 9114 7.2.4: a second SETTINGS frame MUST be treated as a connection error H3_FRAME_UNEXPECTED", ctl}
	case "ctrl-data":
		return uniExpect{h3FrameUnexpected, "RFC 9114 7.2.1: a DATA frame on the control stream MUST be treated as a connection error H3_FRAME_UNEXPECTED", ctl}
	case "ctrl-headers":
		return uniExpect{h3FrameUnexpected, "RFC 9114 7.2.2: a HEADERS frame on the control stream MUST be treated as a connection error H3_FRAME_UNEXPECTED", ctl}
	case "ctrl-reserved":
		return uniExpect{h3FrameUnexpected, "RFC 9114 7.2.8: a reserved (HTTP/2) frame type MUST be treated as a connection error H3_FRAME_UNEXPECTED", ctl}
	case "ctrl-cancel-push":
		return uniExpect{h3IDError, "RFC 9114 7.2.3: CANCEL_PUSH for a push ID greater than currently allowed (no push was ever permitted / promised) MUST be treated as a connection error H3_ID_ERROR", "push-frame-ignored"}
	case "ctrl-max-push-id":
		return uniExpect{h3FrameUnexpected, "RFC 9114 7.2.7: a client MUST treat the receipt of a MAX_PUSH_ID frame as a connection error H3_FRAME_UNEXPECTED", "push-frame-ignored"}
	case "goaway-bad-id":
		return uniExpect{h3IDError, "RFC 9114 7.2.6 / 5.2: a GOAWAY from the server whose identifier is not a client-initiated bidirectional stream ID, connection error H3_ID_ERROR", "forbidden-stream"}
	case "goaway-len":
		return uniExpect{h3FrameError, "RFC 9114 7.1: a frame payload with additional bytes after the identified fields MUST be treated as a connection error H3_FRAME_ERROR", "forbidden-stream"}
	}
	panic("unknown uni scenario " + c.Uni)
}

// uniActor performs the scenario on a connection: open opens a unidirectional stream; hadControl tells whether the
// conforming control stream (type + SETTINGS) is already open (then ctrl is that stream).
func uniActor(c *RawCase, open func() (*quic.SendStream, error), ctrl *quic.SendStream) error {
	settings := rawSettingsFrame()
	finish := func(str *quic.SendStream) {
		switch c.UniEnd {
		case "fin":
			str.Close()
		case "reset":
			str.CancelWrite(quic.StreamErrorCode(h3NoError))
		}
	}
	ctrlWrite := func(b []byte) error {
		_, err := ctrl.Write(b)
		return err
	}
	switch c.Uni {
	case "unknown":
		t := c.UniType
		if t <= 3 {
			t = 0x21
		}
		str, err := open()
		if err != nil {
			return err
		}
		// the peer may stop reading at any time: write errors are expected
		if _, err := str.Write(append(appendVarint(nil, t), pattern(c.Seed, 5, c.UniLen)...)); err == nil {
			finish(str)
		}
		return nil
	case "control2":
		str, err := open()
		if err != nil {
			return err
		}
		_, err = str.Write(append(appendVarint(nil, stControl), settings...))
		return err
	case "qenc2", "qdec2":
		t := uint64(stQEnc)
		if c.Uni == "qdec2" {
			t = stQDec
		}
		for i := 0; i < 2; i++ {
			str, err := open()
			if err != nil {
				return err
			}
			if _, err := str.Write(appendVarint(nil, t)); err != nil {
				return err
			}
		}
		return nil
	case "push":
		str, err := open()
		if err != nil {
			return err
		}
		_, err = str.Write(append(appendVarint(nil, stPush), appendVarint(nil, 0)...))
		return err
	case "ctrl-first-data", "ctrl-first-headers", "ctrl-first-goaway", "ctrl-close-before":
		str, err := open()
		if err != nil {
			return err
		}
		b := appendVarint(nil, stControl)
		switch c.Uni {
		case "ctrl-first-data":
			b = appendFrame(b, ftData, []byte("x"))
		case "ctrl-first-headers":
			b = appendFrame(b, ftHeaders, encodeFields([][2]string{{":status", "200"}}))
		case "ctrl-first-goaway":
			b = appendFrame(b, ftGoaway, appendVarint(nil, 0))
		}
		if _, err := str.Write(b); err != nil {
			return err
		}
		if c.Uni == "ctrl-close-before" {
			str.Close() // a reset could overtake the stream type; FIN cannot
		}
		return nil
	case "ctrl-close-after":
		if c.UniEnd == "reset" {
			// let the SETTINGS frame arrive first: a reset may discard undelivered data
			time.Sleep(2*time.Duration(c.RTTms)*time.Millisecond + 10*time.Millisecond)
			ctrl.CancelWrite(quic.StreamErrorCode(h3NoError))
		} else {
			ctrl.Close()
		}
		return nil
	case "ctrl-settings2":
		return ctrlWrite(settings)
	case "ctrl-data":
		return ctrlWrite(appendFrame(nil, ftData, pattern(c.Seed, 6, c.UniLen%2000)))
	case "ctrl-headers":
		return ctrlWrite(appendFrame(nil, ftHeaders, encodeFields([][2]string{{"x-a", "b"}})))
	case "ctrl-unknown":
		t := c.UniType
		if t <= 0xd {
			t = 0x21
		}
		return ctrlWrite(appendFrame(nil, t, pattern(c.Seed, 6, c.UniLen)))
	case "ctrl-reserved":
		return ctrlWrite(appendFrame(nil, reservedTypes[int(c.Seed%4)], nil))
	case "ctrl-cancel-push":
		return ctrlWrite(appendFrame(nil, ftCancelPush, appendVarint(nil, 3)))
	case "ctrl-max-push-id":
		return ctrlWrite(appendFrame(nil, ftMaxPushID, appendVarint(nil, 10)))
	case "goaway-bad-id":
		return ctrlWrite(appendFrame(nil, ftGoaway, appendVarint(nil, 1+c.Seed%3)))
	case "goaway-len":
		return ctrlWrite(appendFrame(nil, ftGoaway, append(appendVarint(nil, 0), 0, 0)))
	}
	return fmt.Errorf("unknown scenario %q", c.Uni)
}

// uniNeedsOwnControl: scenarios in which the raw peer's first control stream itself is the malformed one.
func uniNeedsOwnControl(c *RawCase) bool {
	return strings.HasPrefix(c.Uni, "ctrl-first-") || c.Uni == "ctrl-close-before"
}

func uniVsServer(c RawCase, rec recorder) *vf.Verdict {
	ex := modelUni(&c)
	f, err := newSrvFixture(&c, func(f *srvFixture) http.Handler {
		return http.HandlerFunc(func(w http.ResponseWriter, r *http.Request) {
			defer f.guard("the handler")
			io.Copy(io.Discard, r.Body)
			w.Write([]byte("ok"))
		})
	})
	if err != nil {
		return vf.Bad("C18/harness/env", "%v", err)
	}
	defer f.close()
	ctx, cancel := context.WithTimeout(context.Background(), 30*time.Second)
	defer cancel()
	rc, err := dialRawClient(ctx, f.w, f.w.ClientConn, rawIdle, 0, !uniNeedsOwnControl(&c))
	if err != nil {
		if rc != nil {
			rc.close()
		}
		return vf.Bad("C18/harness/env", "raw client dial: %v", err)
	}
	defer rc.close()
	desc := fmt.Sprintf("raw client scenario %q (stream type %#x, %d bytes, end %s), server Logger set: %v", c.Uni, c.UniType, c.UniLen, c.UniEnd, c.SrvLogger)
	// a request is in flight while the scenario plays
	type rres struct {
		m   *message
		err error
	}
	reqCh := make(chan rres, 1)
	go func() {
		m, err := rc.simpleRequest(ctx, "POST", "/during", pattern(c.Seed, 1, 3000))
		reqCh <- rres{m, err}
	}()
	if err := uniActor(&c, rc.conn.OpenUniStream, rc.ctrl); err != nil && rc.closeErr() == nil {
		<-reqCh
		return vf.Bad("C18/harness/env", "%s: raw actor: %v", desc, err)
	}
	rr := <-reqCh
	var end error
	if ex.Code != 0 {
		end = waitClosed(rc.conn.Context(), 2*time.Second)
	} else {
		time.Sleep(4*time.Duration(c.RTTms)*time.Millisecond + 20*time.Millisecond)
		end = rc.closeErr()
	}
	f.mu.Lock()
	hv := f.hv
	f.mu.Unlock()
	if hv != nil {
		return hv
	}
	if ex.Code != 0 {
		if code, ok := connCode(end); !ok || code != ex.Code {
			return vf.Bad("C18/raw/"+ex.Group, "%s: %s; the raw client saw: %s", desc, ex.Why, describeEnd(end))
		}
		rec.Class("forbidden:" + ex.Group)
	} else {
		if end != nil {
			return vf.Bad("C18/raw/unknown-stream-not-ignored", "%s: RFC 9114 6.2.3 / 9: unknown stream and frame types MUST NOT be treated as a connection error; the raw client saw: %s", desc, describeEnd(end))
		}
		if rr.err != nil || string(rr.m.Body) != "ok" {
			return vf.Bad("C18/raw/unknown-stream-not-ignored", "%s: the request in flight failed: %v %s", desc, rr.err, describeMsg(rr.m))
		}
		rec.Class("ignored")
	}
	if err := followUpServer(ctx, f, rc, 9101); err != nil {
		return vf.Bad("C18/raw/server-unusable", "%s: a well-formed request afterwards failed %v", desc, err)
	}
	rec.Class("uni/client/" + c.Uni)
	rec.NonTrivial("uni/client", c.Uni, c.UniType, c.UniLen, c.UniEnd)
	return nil
}

func uniVsClient(c RawCase, rec recorder) *vf.Verdict {
	ex := modelUni(&c)
	f, err := newCliFixture(&c, 0)
	if err != nil {
		return vf.Bad("C18/harness/env", "%v", err)
	}
	defer f.close()
	var mu sync.Mutex
	var first *rawServerConn
	var actErr error
	acted := make(chan struct{})
	f.rs.onConn = func(sc *rawServerConn) {
		if sc.idx != 0 {
			sc.openControl(rawSettingsFrame())
			return
		}
		mu.Lock()
		first = sc
		mu.Unlock()
		if !uniNeedsOwnControl(&c) {
			sc.openControl(rawSettingsFrame())
		}
	}
	f.rs.onStream = func(sc *rawServerConn, str *quic.Stream, idx int) {
		m := readMessage(str, nil)
		if sc.idx == 0 && idx == 0 {
			// the scenario plays while the first request is waiting for its response
			err := uniActor(&c, sc.conn.OpenUniStream, sc.ctrl)
			mu.Lock()
			actErr = err
			mu.Unlock()
			close(acted)
			time.Sleep(3*time.Duration(c.RTTms)*time.Millisecond + 10*time.Millisecond)
		}
		_ = m
		respondSimple2(str, []byte("after"))
	}
	f.rs.serve()
	ctx, cancel := context.WithTimeout(context.Background(), 30*time.Second)
	defer cancel()
	res, pv := doRequest(ctx, f.tr, "GET", "/during", nil, []byte("after"))
	if pv != nil {
		return pv
	}
	desc := fmt.Sprintf("raw server scenario %q (stream type %#x, %d bytes, end %s), client %s, Transport Logger set: %v", c.Uni, c.UniType, c.UniLen, c.UniEnd, c.Client, c.CliLogger)
	mu.Lock()
	sc, aerr := first, actErr
	mu.Unlock()
	if sc == nil {
		return vf.Bad("C18/raw/request-not-received", "%s: no connection reached the raw server; caller: %v", desc, res)
	}
	select {
	case <-acted:
	default:
		return vf.Bad("C18/raw/request-not-received", "%s: the first request never reached the raw server; caller: %v", desc, res)
	}
	if aerr != nil && sc.closeErr() == nil {
		return vf.Bad("C18/harness/env", "%s: raw actor: %v", desc, aerr)
	}
	var end error
	if ex.Code != 0 {
		end = waitClosed(sc.conn.Context(), 2*time.Second)
		if code, ok := connCode(end); !ok || code != ex.Code {
			return vf.Bad("C18/raw/"+ex.Group, "%s: %s; the raw server saw: %s; caller of RoundTrip: %v", desc, ex.Why, describeEnd(end), res)
		}
		rec.Class("forbidden:" + ex.Group)
	} else {
		time.Sleep(4*time.Duration(c.RTTms)*time.Millisecond + 20*time.Millisecond)
		if end = sc.closeErr(); end != nil {
			return vf.Bad("C18/raw/unknown-stream-not-ignored", "%s: RFC 9114 6.2.3 / 9: unknown stream and frame types MUST NOT be treated as a connection error; the raw server saw: %s", desc, describeEnd(end))
		}
		if res.errored() || res.status != 200 || res.body.N != 5 {
			return vf.Bad("C18/raw/unknown-stream-not-ignored", "%s: the request in flight failed: %v", desc, res)
		}
		rec.Class("ignored")
	}
	if err := followUpClient(ctx, f); err != nil {
		return vf.Bad("C18/raw/client-unusable", "%s: a request through the same Transport afterwards failed: %v", desc, err)
	}
	rec.Class("uni/server/" + c.Uni)
	rec.NonTrivial("uni/server", c.Uni, c.UniType, c.UniLen, c.UniEnd, c.Client)
	return nil
}

// ---- abort: resets and connection loss at every stage of an exchange ----

func abortVsServer(c RawCase, rec recorder) *vf.Verdict {
	rtt := time.Duration(c.RTTms) * time.Millisecond
	reqBody := pattern(c.Seed, 1, c.ReqBody)
	rspBody := pattern(c.Seed, 2, c.RspBody)
	type seenT struct {
		invoked  bool
		body     readResult
		bodyDone bool
		writeErr error
		wrote    int
		returned bool
		ctx      context.Context
	}
	seen := seenT{body: readResult{BadAt: -1}}
	f, err := newSrvFixture(&c, func(f *srvFixture) http.Handler {
		return http.HandlerFunc(func(w http.ResponseWriter, r *http.Request) {
			defer f.guard(fmt.Sprintf("the handler (server Logger set: %v, trailers declared: %q)", c.SrvLogger, c.DeclT))
			if r.URL.Path != "/abort" {
				w.WriteHeader(200)
				return
			}
			f.mu.Lock()
			seen.invoked, seen.ctx = true, r.Context()
			f.mu.Unlock()
			defer func() { f.mu.Lock(); seen.returned = true; f.mu.Unlock() }()
			switch c.DeclT {
			case "valid":
				w.Header().Set("Trailer", "X-T")
			case "invalid":
				w.Header().Set("Trailer", "X-T, Max-Forwards")
			}
			res := drain(r.Body, reqBody, 4096)
			f.mu.Lock()
			seen.body, seen.bodyDone = res, true
			f.mu.Unlock()
			for off := 0; off < len(rspBody); {
				n := min(8192, len(rspBody)-off)
				m, err := w.Write(rspBody[off : off+n])
				f.mu.Lock()
				seen.wrote += m
				if err != nil {
					seen.writeErr = err
				}
				f.mu.Unlock()
				if err != nil {
					break
				}
				if off == 0 {
					if err := w.(interface{ FlushError() error }).FlushError(); err != nil {
						f.mu.Lock()
						seen.writeErr = err
						f.mu.Unlock()
						break
					}
				}
				off += n
			}
			switch c.DeclT {
			case "valid", "invalid":
				w.Header().Set("X-T", "tv")
			case "prefix":
				w.Header().Set(http.TrailerPrefix+"X-T", "tv")
			}
		})
	})
	if err != nil {
		return vf.Bad("C18/harness/env", "%v", err)
	}
	defer f.close()
	ctx, cancel := context.WithTimeout(context.Background(), 30*time.Second)
	defer cancel()
	rc, err := dialRawClient(ctx, f.w, f.w.ClientConn, rawIdle, 16<<10, true)
	if err != nil {
		if rc != nil {
			rc.close()
		}
		return vf.Bad("C18/harness/env", "raw client dial: %v", err)
	}
	defer rc.close()
	str, err := rc.conn.OpenStreamSync(ctx)
	if err != nil {
		return vf.Bad("C18/harness/env", "open stream: %v", err)
	}
	fs := [][2]string{{":method", "POST"}, {":scheme", "https"}, {":authority", sim.ServerName}, {":path", "/abort"}}
	if c.Action == "overlong" {
		fs = append(fs, [2]string{"content-length", strconv.Itoa(c.ReqBody / 2)})
	}
	hdr := appendFrame(nil, ftHeaders, encodeFields(fs))
	reqBytes := append([]byte(nil), hdr...)
	half := len(reqBody) / 2
	reqBytes = appendFrame(reqBytes, ftData, reqBody[:half])
	reqBytes = appendFrame(reqBytes, ftData, reqBody[half:])
	bounds := map[int]bool{len(hdr): true, len(reqBytes): true}
	bounds[len(appendFrame(append([]byte(nil), hdr...), ftData, reqBody[:half]))] = true

	act := func() {
		switch c.Action {
		case "reset":
			str.CancelWrite(quic.StreamErrorCode(c.Code))
		case "stop":
			str.CancelRead(quic.StreamErrorCode(c.Code))
		case "both":
			str.CancelRead(quic.StreamErrorCode(c.Code))
			str.CancelWrite(quic.StreamErrorCode(c.Code))
		case "close":
			rc.conn.CloseWithError(quic.ApplicationErrorCode(c.Code), "raw peer leaves")
		case "blackhole":
			f.w.Router.Close()
		case "fin":
			str.Close()
		}
	}
	// the response is drained in the background unless the scenario stops reading
	readDone := make(chan *message, 1)
	stopAt := -1
	if c.Phase == "rsp" {
		stopAt = c.RspBody * c.At / 1000
	}
	var actedInReader atomic.Bool
	go func() {
		readDone <- readMessage(str, func(total int) bool {
			if stopAt >= 0 && total >= stopAt && !actedInReader.Load() {
				actedInReader.Store(true)
				act()
				return c.Action == "reset" || c.Action == "fin" // keep reading when only the (finished) request direction was touched
			}
			return true
		})
	}()
	cut := -1 // request bytes written before the action (req phase)
	insideFrame := false
	switch {
	case c.Action == "overlong":
		if writeCut(str, reqBytes, []int{3000}, 0) == nil {
			str.Close()
		}
	case c.Phase == "req":
		cut = len(reqBytes) * c.At / 1000
		insideFrame = !bounds[cut] || cut == 0
		if c.Action == "fin" && !insideFrame && cut < len(reqBytes) {
			cut++ // a clean end at a frame boundary after the header is a complete (shorter) request, not an abort
			insideFrame = true
		}
		if cut > 0 {
			if err := writeCut(str, reqBytes[:cut], []int{3000}, 0); err != nil {
				return vf.Bad("C18/harness/env", "raw client write: %v", err)
			}
		}
		time.Sleep(2*rtt + 5*time.Millisecond)
		act()
		if c.Action == "stop" {
			// the request itself is completed: only the response direction was refused
			if writeCut(str, reqBytes[cut:], []int{3000}, 0) == nil {
				str.Close()
			}
		}
	default:
		if writeCut(str, reqBytes, []int{3000}, 0) == nil {
			str.Close()
		}
	}
	// let the in-tree side react
	settle := time.Second + 40*rtt
	if c.Action == "blackhole" {
		// RFC 9000 10.1: the idle timer also restarts when an ack-eliciting packet is sent for the first time since
		// the last receipt, so the in-tree side may legitimately take up to twice the idle timeout to give up
		settle = 2*rawIdle + 2*time.Second
	}
	var m *message
	select {
	case m = <-readDone:
	case <-time.After(settle):
	}
	if c.Phase == "rsp" && !actedInReader.Load() && m != nil && c.Action != "overlong" {
		// the response ended before the chosen point (error or short response): act now
		act()
	}
	for waited := time.Duration(0); waited < settle; waited += 20 * time.Millisecond {
		f.mu.Lock()
		fin := seen.returned || (!seen.invoked && waited >= 500*time.Millisecond)
		f.mu.Unlock()
		if fin {
			break
		}
		time.Sleep(20 * time.Millisecond)
	}
	if m == nil {
		str.CancelRead(quic.StreamErrorCode(h3RequestCancelled))
		m = <-readDone
	}
	f.mu.Lock()
	hv, s := f.hv, seen
	f.mu.Unlock()
	if hv != nil {
		return hv
	}
	desc := fmt.Sprintf("raw client: request of %d body bytes, response of %d bytes, action %q (code %s) in phase %s at %d‰ (request bytes written before it: %d of %d, inside a frame: %v), handler declares trailers: %q, server Logger set: %v",
		c.ReqBody, c.RspBody, c.Action, h3Name(c.Code), c.Phase, c.At, cut, len(reqBytes), insideFrame, c.DeclT, c.SrvLogger)
	if s.invoked && !s.returned {
		return vf.Bad("C18/abort/handler-stuck", "%s: the handler has not returned %v (virtual) after the abort; body read done: %v %v, wrote %d, write error %v", desc, settle, s.bodyDone, s.body, s.wrote, s.writeErr)
	}
	connLevel := c.Action == "close" || c.Action == "blackhole"
	reqIncomplete := c.Phase == "req" && c.Action != "stop" && c.Action != "overlong" && (c.Action != "fin" || insideFrame)
	if s.invoked {
		if s.body.BadAt >= 0 || s.body.Extra {
			return vf.Bad("C18/abort/server-body-corrupt", "%s: the handler read bytes the raw client never sent: %v", desc, s.body)
		}
		if reqIncomplete && s.body.err == nil {
			sig := "C18/abort/server-clean-eof"
			if c.Action == "fin" {
				sig = "C18/raw/truncated-frame-clean-eof"
			}
			return vf.Bad(sig, "%s: the request never completed, yet the handler's body reader returned a clean EOF: %v", desc, s.body)
		}
		if c.Action == "overlong" && c.ReqBody >= 1 && s.body.err == nil {
			return vf.Bad("C18/content-length/long-request-body", "%s: Content-Length %d, %d bytes sent: the handler's body reader returned %v", desc, c.ReqBody/2, c.ReqBody, s.body)
		}
		// writes into a stream / connection the peer has given up must fail once they reach the stream
		mustFail := c.RspBody >= 8192 && (c.Action == "overlong" && c.ReqBody >= 1 ||
			c.Phase == "req" && (c.Action == "stop" || c.Action == "both" || connLevel) ||
			c.Phase == "rsp" && (c.Action == "stop" || c.Action == "both" || connLevel) && c.RspBody >= 128<<10 && c.At <= 500)
		if mustFail && s.writeErr == nil {
			return vf.Bad("C18/abort/server-write-no-error", "%s: the handler wrote all %d bytes without an error although the peer had refused the response", desc, s.wrote)
		}
		if connLevel && !sim.WaitCtx(s.ctx.Done(), 2*time.Second) { // the cancellation runs on its own goroutine (context.AfterFunc)
			return vf.Bad("C18/abort/server-context-alive", "%s: the connection is gone but the request context is not cancelled", desc)
		}
	}
	if c.Action != "blackhole" {
		if err := followUpServer(ctx, f, rc, 9102); err != nil {
			return vf.Bad("C18/raw/server-unusable", "%s: a well-formed request afterwards failed %v", desc, err)
		}
	}
	rec.Class("abort/client/" + c.Action + "/" + c.Phase)
	if s.invoked {
		rec.Class("abort-handler-invoked")
	}
	if c.DeclT != "" && !c.SrvLogger {
		rec.Class("nil-logger-x-trailers-x-abort")
	}
	if c.DeclT != "" {
		rec.Class("trailers:" + c.DeclT)
	}
	rec.NonTrivial("abort/client", c.Action, c.Phase, c.At, c.ReqBody, c.RspBody, c.DeclT, c.SrvLogger)
	return nil
}

func abortVsClient(c RawCase, rec recorder) *vf.Verdict {
	rtt := time.Duration(c.RTTms) * time.Millisecond
	reqBody := pattern(c.Seed, 1, c.ReqBody)
	rspBody := pattern(c.Seed, 2, c.RspBody)
	f, err := newCliFixture(&c, 16<<10)
	if err != nil {
		return vf.Bad("C18/harness/env", "%v", err)
	}
	defer f.close()
	rsp := appendFrame(nil, ftHeaders, encodeFields([][2]string{{":status", "200"}, {"x-raw", "response"}}))
	hdrLen := len(rsp)
	half := len(rspBody) / 2
	rsp = appendFrame(rsp, ftData, rspBody[:half])
	mid := len(rsp)
	rsp = appendFrame(rsp, ftData, rspBody[half:])
	dataEnd := len(rsp)
	rsp = appendFrame(rsp, ftHeaders, encodeFields([][2]string{{rawTrailerName, rawTrailerValue}}))
	bounds := map[int]bool{hdrLen: true, mid: true, dataEnd: true, len(rsp): true}
	var mu sync.Mutex
	var sawReq bool
	var cut int
	var insideFrame, complete bool
	f.rs.onStream = func(sc *rawServerConn, str *quic.Stream, idx int) {
		if sc.idx != 0 || idx != 0 {
			readMessage(str, nil)
			respondSimple2(str, []byte("after"))
			return
		}
		mu.Lock()
		sawReq = true
		mu.Unlock()
		act := func() {
			switch c.Action {
			case "reset":
				str.CancelWrite(quic.StreamErrorCode(c.Code))
			case "stop":
				str.CancelRead(quic.StreamErrorCode(c.Code))
			case "both":
				str.CancelRead(quic.StreamErrorCode(c.Code))
				str.CancelWrite(quic.StreamErrorCode(c.Code))
			case "close":
				sc.conn.CloseWithError(quic.ApplicationErrorCode(c.Code), "raw peer leaves")
			case "blackhole":
				f.w.Router.Close()
			case "fin":
				str.Close()
			}
		}
		if c.Phase == "req" {
			stopAt := c.ReqBody * c.At / 1000
			if c.At > 0 {
				readMessage(str, func(total int) bool { return total < stopAt })
			}
			act()
			if c.Action == "stop" {
				// early response: the server answers without wanting the rest of the request (RFC 9114 4.1)
				if writeCut(str, rsp, []int{3000}, 0) == nil {
					str.Close()
					mu.Lock()
					complete = true
					mu.Unlock()
				}
			}
			return
		}
		readMessage(str, nil)
		k := len(rsp) * c.At / 1000
		in := !bounds[k] || k == 0
		if c.Action == "fin" && !in && k < len(rsp) {
			k++
			in = true
		}
		mu.Lock()
		cut, insideFrame = k, in
		mu.Unlock()
		if k > 0 {
			if writeCut(str, rsp[:k], []int{3000}, 0) != nil {
				return
			}
		}
		time.Sleep(2*rtt + 5*time.Millisecond)
		act()
		if c.Action == "stop" {
			if writeCut(str, rsp[k:], []int{3000}, 0) == nil {
				str.Close()
				mu.Lock()
				complete = true
				mu.Unlock()
			}
		} else if c.Action == "fin" && k == len(rsp) {
			mu.Lock()
			complete = true
			mu.Unlock()
		}
	}
	f.rs.serve()
	ctx, cancel := context.WithTimeout(context.Background(), 20*time.Second)
	defer cancel()
	pr, pw := io.Pipe()
	var wg sync.WaitGroup
	wg.Add(1)
	var upErr error
	go func() {
		defer wg.Done()
		for off := 0; off < len(reqBody); {
			n := min(8192, len(reqBody)-off)
			if _, err := pw.Write(reqBody[off : off+n]); err != nil {
				upErr = err
				return
			}
			off += n
		}
		pw.Close()
	}()
	res, pv := doRequest(ctx, f.tr, "POST", "/abort", pr, rspBody)
	released := make(chan struct{})
	go func() { wg.Wait(); close(released) }()
	bodyReleased := sim.WaitCtx(released, 10*time.Second)
	pr.CloseWithError(errors.New("case over"))
	wg.Wait()
	if pv != nil {
		return pv
	}
	mu.Lock()
	k, in, comp, saw := cut, insideFrame, complete, sawReq
	mu.Unlock()
	desc := fmt.Sprintf("raw server: request of %d body bytes, response of %d bytes (+ trailers), action %q (code %s) in phase %s at %d‰ (response bytes written before it: %d of %d, inside a frame: %v), client %s, Transport Logger set: %v",
		c.ReqBody, c.RspBody, c.Action, h3Name(c.Code), c.Phase, c.At, k, len(rsp), in, c.Client, c.CliLogger)
	_ = upErr
	if !saw {
		return vf.Bad("C18/raw/request-not-received", "%s: the raw server never saw the request; caller: %v", desc, res)
	}
	if res.body.BadAt >= 0 || res.body.Extra {
		return vf.Bad("C18/abort/client-body-corrupt", "%s: the caller read bytes the raw server never sent: %v", desc, res)
	}
	if comp {
		// a complete response was delivered (early response after STOP_SENDING, RFC 9114 4.1)
		if res.errored() || res.status != 200 || !res.body.EOF || res.body.N != len(rspBody) || res.trailer != rawTrailerValue {
			return vf.Bad("C18/abort/client-early-response-lost", "%s: the raw server sent a complete response (it only refused the rest of the request body with STOP_SENDING); the caller got: %v", desc, res)
		}
		rec.Class("early-response-delivered")
	} else {
		aborted := c.Action == "reset" || c.Action == "both" || c.Action == "close" || c.Action == "blackhole" || (c.Action == "fin" && (c.Phase == "req" || in))
		if aborted && !res.errored() {
			sig := "C18/abort/client-clean-eof"
			if c.Action == "fin" {
				sig = "C18/raw/truncated-frame-clean-eof"
			}
			return vf.Bad(sig, "%s: the response never completed, yet the caller got no error: %v", desc, res)
		}
	}
	if !bodyReleased {
		return vf.Bad("C18/abort/request-body-not-released", "%s: 10 s (virtual) after RoundTrip and the body read returned (%v) the Transport has neither consumed nor closed Request.Body", desc, res)
	}
	if c.Action != "blackhole" {
		if err := followUpClient(ctx, f); err != nil {
			return vf.Bad("C18/raw/client-unusable", "%s: a request through the same Transport afterwards failed: %v", desc, err)
		}
	}
	rec.Class("abort/server/" + c.Action + "/" + c.Phase)
	rec.NonTrivial("abort/server", c.Action, c.Phase, c.At, c.ReqBody, c.RspBody, c.Client, c.CliLogger)
	return nil
}

func TestH3RawPeer(t *testing.T) {
	curT = t
	vf.ReplayRepeat = 20
	vf.RunRapid(t, "h3-raw-peer", genRawCase, checkRaw)
}
