package c03

import (
	"fmt"
	"testing"
	"unsafe"

	"pgregory.net/rapid"

	quic "github.com/refraction-networking/uquic"
	"github.com/refraction-networking/uquic/internal/protocol"
	"github.com/refraction-networking/uquic/verif/vf"
)

// ---------------------------------------------------------------------------------------------
// frameSorter machine
// ---------------------------------------------------------------------------------------------

// SoParams fixes the byte string and the lattice.
type SoParams struct {
	Sizes []int  `json:"sizes"`          // lattice cell sizes; cut points are the prefix sums
	Tail  int    `json:"tail,omitempty"` // extra bytes after the lattice (room for gap bursts)
	Seed  uint32 `json:"seed"`
	// Strict: every pushed buffer is treated as recyclable (poisoned when doneCb fires). Otherwise
	// only buffers of at least MinStreamFrameBufferSize bytes are, which is exactly what
	// wire.ParseStreamFrame + receive_stream.go do (smaller frames are not pooled, PutBack is a no-op).
	Strict bool `json:"strict,omitempty"`
}

// SoOp is one operation on the sorter.
type SoOp struct {
	K   string `json:"k"` // push | pop | popall | peek | more | release | burst
	A   int    `json:"a,omitempty"`
	B   int    `json:"b,omitempty"`
	DA  int    `json:"da,omitempty"` // jitter added to the start cut point
	DB  int    `json:"db,omitempty"` // jitter added to the end cut point
	Off int    `json:"off,omitempty"`
	N   int    `json:"n,omitempty"`
	Cnt int    `json:"cnt,omitempty"`
}

type bufRec struct {
	id       int
	buf      []byte // full capacity
	off, n   int
	done     int
	poisoned bool
}

type held struct {
	off  int
	data []byte
	cb   func()
}

type sorterMachine struct {
	p     SoParams
	fs    *quic.VerifFrameSorter
	d     []byte
	cuts  []int
	set   *byteSet
	rpos  int
	maxE  int
	bufs  []*bufRec
	cur   *held
	dead  bool // the gap limit error was returned: the connection would be closed
	viol  *vf.Verdict
	sigv  []byte
	stats struct {
		overlap, dup, ooo, cutSmall, cutBig, replaced, gapErr, peekOK, peekShort, empty bool
		pushes, pops, popsBetween                                                       int
		lastWasPush                                                                     bool
	}
}

func newSorterMachine(p SoParams) *sorterMachine {
	cuts := prefixSums(p.Sizes)
	n := cuts[len(cuts)-1] + p.Tail
	return &sorterMachine{p: p, fs: quic.VerifNewFrameSorter(), d: genData(n, p.Seed), cuts: cuts, set: newByteSet(n)}
}

func mkSorter(p SoParams) vf.Machine[SoOp] { return newSorterMachine(p) }

func (m *sorterMachine) Gen(t *rapid.T) SoOp {
	nc := len(m.cuts) - 1
	switch rapid.SampledFrom([]string{"push", "push", "push", "push", "push", "pushx", "pop", "pop", "popall", "peek", "peek", "more", "release", "empty", "burst"}).Draw(t, "k") {
	case "push":
		a := rapid.IntRange(0, nc-1).Draw(t, "a")
		var b int
		if rapid.Bool().Draw(t, "short") {
			b = rapid.IntRange(a+1, min(a+3, nc)).Draw(t, "b")
		} else {
			b = rapid.IntRange(a+1, nc).Draw(t, "b")
		}
		return SoOp{K: "push", A: a, B: b}
	case "pushx":
		a := rapid.IntRange(0, nc-1).Draw(t, "a")
		b := rapid.IntRange(a+1, nc).Draw(t, "b")
		return SoOp{K: "push", A: a, B: b, DA: rapid.IntRange(-1, 1).Draw(t, "da"), DB: rapid.IntRange(-1, 1).Draw(t, "db")}
	case "empty":
		return SoOp{K: "push", A: rapid.IntRange(0, nc).Draw(t, "a"), B: -1}
	case "pop":
		return SoOp{K: "pop"}
	case "popall":
		return SoOp{K: "popall"}
	case "peek":
		off := m.rpos
		if rapid.IntRange(0, 4).Draw(t, "elsewhere") == 0 {
			off = m.cuts[rapid.IntRange(0, nc).Draw(t, "c")]
		}
		avail := m.set.run(off)
		n := rapid.SampledFrom([]int{0, 1, avail - 1, avail, avail, avail + 1, avail / 2, 2 * avail}).Draw(t, "n")
		return SoOp{K: "peek", Off: off, N: max(n, 0)}
	case "more":
		return SoOp{K: "more"}
	case "release":
		return SoOp{K: "release"}
	default: // burst: many isolated one-byte frames, towards the gap limit
		if m.p.Tail < 2 || rapid.IntRange(0, 3).Draw(t, "really") != 0 {
			return SoOp{K: "more"}
		}
		return SoOp{K: "burst", Cnt: rapid.SampledFrom([]int{10, 400, 995, 1000, 1005}).Draw(t, "cnt")}
	}
}

func (m *sorterMachine) bad(sig, format string, args ...any) *vf.Verdict {
	return vf.Bad(sig, format, args...)
}

// guarded runs f and converts a panic inside the sorter into a violation: the property demands an
// error, never a panic, for hostile inputs.
func guarded(what string, f func()) (v *vf.Verdict) {
	defer func() {
		if r := recover(); r != nil {
			v = vf.Bad("C03/sorter/panic", "%s panicked: %v", what, r)
		}
	}()
	f()
	return nil
}

func (m *sorterMachine) owner(data []byte) *bufRec {
	if len(data) == 0 {
		return nil
	}
	p := uintptr(unsafe.Pointer(&data[0]))
	for _, r := range m.bufs {
		if cap(r.buf) == 0 {
			continue
		}
		base := uintptr(unsafe.Pointer(&r.buf[:1][0]))
		if p >= base && p < base+uintptr(cap(r.buf)) {
			return r
		}
	}
	return nil
}

func (m *sorterMachine) checkData(where string, off int, data []byte) *vf.Verdict {
	if off < 0 || off+len(data) > len(m.d) {
		return m.bad("C03/sorter/data-mismatch", "%s: delivered range [%d,%d) outside the byte string", where, off, off+len(data))
	}
	if i := firstDiff(data, m.d[off:off+len(data)]); i >= 0 {
		if data[i] == poison {
			return m.bad("C03/sorter/recycled-buffer-delivered", "%s: byte %d of the segment at offset %d is the poison value: the buffer was released (doneCb) while its bytes were still undelivered", where, i, off)
		}
		return m.bad("C03/sorter/data-mismatch", "%s: offset %d: got %#x want %#x (segment [%d,%d))", where, off+i, data[i], m.d[off+i], off, off+len(data))
	}
	return nil
}

func (m *sorterMachine) release() *vf.Verdict {
	if m.cur == nil {
		return nil
	}
	c := m.cur
	m.cur = nil
	// the consumer reads the segment until it releases it: it must still be intact now
	if v := m.checkData("segment at release time", c.off, c.data); v != nil {
		return v
	}
	if c.cb != nil {
		c.cb()
	}
	return m.viol
}

func (m *sorterMachine) push(start, end int) *vf.Verdict {
	n := end - start
	rec := &bufRec{id: len(m.bufs), off: start, n: n}
	recyclable := m.p.Strict || n >= minBuf
	if n > 0 {
		c := n
		if n >= minBuf && n <= int(protocol.MaxPacketBufferSize) {
			c = int(protocol.MaxPacketBufferSize) // pooled frames are slices of a full-size packet buffer
		}
		rec.buf = make([]byte, n, c)
		copy(rec.buf, m.d[start:end])
	}
	m.bufs = append(m.bufs, rec)
	cb := func() {
		rec.done++
		if rec.done > 1 && recyclable && m.viol == nil {
			m.viol = m.bad("C03/sorter/donecb-twice", "doneCb of the buffer pushed for [%d,%d) fired %d times", rec.off, rec.off+rec.n, rec.done)
		}
		if recyclable {
			fill(rec.buf[:cap(rec.buf)], poison)
			rec.poisoned = true
		}
	}
	// classification (before the model is updated)
	if n > 0 {
		got := m.set.count(start, end)
		below := 0
		if start < m.rpos {
			below = min(end, m.rpos) - start
		}
		switch {
		case got == n:
			m.stats.dup = true
		case got > 0 || below > 0:
			m.stats.overlap = true
		}
		if start > m.rpos+m.set.run(m.rpos) {
			m.stats.ooo = true
		}
	} else {
		m.stats.empty = true
	}
	var err error
	if v := guarded(fmt.Sprintf("Push([%d,%d))", start, end), func() { err = m.fs.Push(rec.buf, protocol.ByteCount(start), cb) }); v != nil {
		return v
	}
	if m.viol != nil {
		return m.viol
	}
	wasDup := n == 0 || m.set.all(start, end)
	m.set.add(start, end)
	if end > m.maxE {
		m.maxE = end
	}
	if g := m.set.gaps(m.rpos, m.maxE); g > protocol.MaxStreamFrameSorterGaps && !wasDup {
		m.stats.gapErr = true
		m.dead = true
		if err == nil {
			return m.bad("C03/sorter/gap-limit", "Push([%d,%d)) left %d gaps (limit %d) but returned no error", start, end, g, protocol.MaxStreamFrameSorterGaps)
		}
		return nil
	}
	if err != nil {
		return m.bad("C03/sorter/push-error", "Push([%d,%d)) returned %v with %d gaps in the model", start, end, err, m.set.gaps(m.rpos, m.maxE))
	}
	m.stats.pushes++
	m.stats.lastWasPush = true
	return nil
}

func (m *sorterMachine) pop() (int, *vf.Verdict) {
	// like ReceiveStream.dequeueNextFrame: the previous segment is released before the next Pop
	if v := m.release(); v != nil {
		return 0, v
	}
	var off protocol.ByteCount
	var data []byte
	var cb func()
	if v := guarded("Pop", func() { off, data, cb = m.fs.Pop() }); v != nil {
		return 0, v
	}
	if int(off) != m.rpos {
		return 0, m.bad("C03/sorter/not-contiguous", "Pop returned offset %d, expected the read position %d", off, m.rpos)
	}
	avail := m.set.run(m.rpos)
	if len(data) == 0 {
		if cb != nil {
			cb() // harmless by contract; counts towards at-most-once
		}
		if avail > 0 {
			return 0, m.bad("C03/sorter/pop-missing", "Pop returned nothing at %d although bytes [%d,%d) were pushed", m.rpos, m.rpos, m.rpos+avail)
		}
		return 0, m.viol
	}
	if len(data) > avail {
		return 0, m.bad("C03/sorter/pop-unreceived", "Pop returned %d bytes at %d but only %d contiguous bytes were pushed", len(data), m.rpos, avail)
	}
	if v := m.checkData("Pop", m.rpos, data); v != nil {
		return 0, v
	}
	if r := m.owner(data); r != nil {
		if r.done > 0 && (m.p.Strict || r.n >= minBuf) {
			return 0, m.bad("C03/sorter/recycled-buffer-delivered", "Pop at %d returned a slice of the buffer pushed for [%d,%d) whose doneCb already fired", m.rpos, r.off, r.off+r.n)
		}
		if len(data) < r.n {
			if len(data) < minBuf {
				m.stats.cutSmall = true
			} else {
				m.stats.cutBig = true
			}
		}
	} else {
		m.stats.cutSmall = true // delivered from a private copy
	}
	m.cur = &held{off: m.rpos, data: data, cb: cb}
	m.rpos += len(data)
	m.stats.pops++
	if m.stats.lastWasPush && m.stats.pushes > 0 {
		m.stats.popsBetween++
	}
	m.stats.lastWasPush = false
	return len(data), m.viol
}

func (m *sorterMachine) peek(off, n int) *vf.Verdict {
	p := make([]byte, n)
	fill(p, 0xEE)
	var err error
	if v := guarded("Peek", func() { err = m.fs.Peek(protocol.ByteCount(off), p) }); v != nil {
		return v
	}
	modelOK := off >= m.rpos && m.set.all(off, off+n)
	if err == nil {
		if n == 0 {
			return nil
		}
		if !modelOK {
			return m.bad("C03/sorter/peek-unreceived", "Peek(%d, %d bytes) succeeded although not all of these bytes are queued (read position %d)", off, n, m.rpos)
		}
		m.stats.peekOK = true
		return m.checkData("Peek", off, p)
	}
	m.stats.peekShort = true
	// Peek is specified only for offsets where a segment starts; the read position is one whenever data is queued there.
	if off == m.rpos && modelOK {
		return m.bad("C03/sorter/peek-missing", "Peek(%d, %d bytes) at the read position failed (%v) although the bytes are queued contiguously", off, n, err)
	}
	return nil
}

func (m *sorterMachine) Apply(op SoOp) *vf.Verdict {
	if m.dead {
		return nil
	}
	m.sigv = append(m.sigv, op.K[0], byte(op.A), byte(op.B), byte(op.DA+1), byte(op.DB+1), byte(op.N))
	switch op.K {
	case "push":
		if op.B < 0 { // empty data, as a FIN-only frame pushes it
			off := m.cuts[clamp(op.A, 0, len(m.cuts)-1)]
			return m.push(off, off)
		}
		a := clamp(op.A, 0, len(m.cuts)-2)
		b := clamp(op.B, a+1, len(m.cuts)-1)
		start := clamp(m.cuts[a]+op.DA, 0, len(m.d))
		end := clamp(m.cuts[b]+op.DB, start, len(m.d))
		return m.push(start, end)
	case "pop":
		_, v := m.pop()
		return v
	case "popall":
		for {
			n, v := m.pop()
			if v != nil || n == 0 {
				return v
			}
		}
	case "peek":
		return m.peek(clamp(op.Off, 0, len(m.d)), clamp(op.N, 0, 4*len(m.d)))
	case "more":
		var got bool
		if v := guarded("HasMoreData", func() { got = m.fs.HasMoreData() }); v != nil {
			return v
		}
		if want := m.set.anyFrom(m.rpos); got != want {
			return m.bad("C03/sorter/has-more-data", "HasMoreData=%v but the model has queued bytes beyond the read position %d: %v", got, m.rpos, want)
		}
	case "release":
		return m.release()
	case "burst":
		base := m.cuts[len(m.cuts)-1]
		for i := 0; i < op.Cnt && !m.dead; i++ {
			off := base + 1 + 2*i
			if off+1 > len(m.d) {
				break
			}
			if v := m.push(off, off+1); v != nil {
				return v
			}
		}
	}
	return nil
}

func (m *sorterMachine) finish() *vf.Verdict {
	if !m.dead {
		// everything contiguous must come out, exactly once, then nothing
		for {
			n, v := m.pop()
			if v != nil {
				return v
			}
			if n == 0 {
				break
			}
		}
		if v := m.release(); v != nil {
			return v
		}
		if v := m.Apply(SoOp{K: "more"}); v != nil {
			return v
		}
	}
	return m.viol
}

func (m *sorterMachine) Finish(u *vf.Unit) *vf.Verdict {
	if v := m.finish(); v != nil {
		return v
	}
	s := &m.stats
	for _, c := range []struct {
		n string
		b bool
	}{{"overlap", s.overlap}, {"dup", s.dup}, {"out-of-order", s.ooo}, {"cut-copied", s.cutSmall}, {"cut-kept", s.cutBig},
		{"gap-limit", s.gapErr}, {"peek-ok", s.peekOK}, {"peek-short", s.peekShort}, {"empty-push", s.empty},
		{"read-between-pushes", s.popsBetween > 0}, {"strict", m.p.Strict}} {
		if c.b {
			u.Class(c.n)
		}
	}
	if (s.overlap || s.dup || s.ooo) && s.popsBetween > 0 {
		u.NonTrivial(m.p.Sizes, m.p.Strict, m.sigv)
	}
	return nil
}

func genSoParams(t *rapid.T) SoParams {
	maxCells := 10
	sizes := cellSizes
	if vf.Thorough() {
		maxCells = 24
		sizes = append(append([]int{}, cellSizes...), 700, 1452, 1453, 4000)
	}
	p := SoParams{Seed: rapid.Uint32().Draw(t, "seed"), Strict: rapid.Bool().Draw(t, "strict")}
	if rapid.IntRange(0, 2).Draw(t, "uniform") == 0 {
		c := rapid.SampledFrom(sizes).Draw(t, "cell")
		n := rapid.IntRange(2, maxCells).Draw(t, "cells")
		for i := 0; i < n; i++ {
			p.Sizes = append(p.Sizes, c)
		}
	} else {
		p.Sizes = rapid.SliceOfN(rapid.SampledFrom(sizes), 2, maxCells).Draw(t, "sizes")
	}
	if rapid.IntRange(0, 7).Draw(t, "tail") == 0 {
		p.Tail = 2100
	}
	return p
}

func TestSorterModel(t *testing.T) {
	vf.RunMachine(t, "sorter-model", 60, genSoParams, mkSorter)
}

// ---------------------------------------------------------------------------------------------
// exhaustive lattice tier
// ---------------------------------------------------------------------------------------------

// TestSorterExhaustive enumerates every sequence of up to K pushes over a 6-cell lattice (21
// intervals), each push followed by one of {nothing, one Pop, Pop until empty}, and a Peek of the
// whole contiguous run (and one byte more) after every step, for cell sizes below and above the
// copy threshold. 43 is the interesting one: intervals of 1-2 cells are smaller than
// MinStreamFrameBufferSize, intervals of >= 3 cells are larger, so cuts of pooled buffers fall on
// both sides of the threshold.
func TestSorterExhaustive(t *testing.T) {
	u := vf.U("sorter-exhaustive")
	if vf.ReplayMode() {
		t.Skip("failures of the exhaustive tier are recorded in the sorter-model format and replay there")
	}
	type iv struct{ a, b int }
	acts := []string{"", "pop", "popall"}
	si, sk := vf.Shard()
	idx := 0
	type config struct {
		cells, cell int
		strict      bool
		kmin, kmax  int
	}
	var configs []config
	K := 3
	if vf.Thorough() {
		K = 4
	}
	for _, cell := range []int{1, 43, 128} {
		for _, strict := range []bool{false, true} {
			if cell == 1 && !strict {
				continue // nothing is recyclable: covered by strict
			}
			configs = append(configs, config{6, cell, strict, 1, K})
		}
	}
	if !vf.Thorough() {
		// quick tier: length 4 as well, on a 5-cell lattice (15 intervals) with the threshold-straddling cell size
		configs = append(configs, config{5, 43, false, 4, 4})
	}
	for _, cf := range configs {
		cells, cell, strict := cf.cells, cf.cell, cf.strict
		var ivs []iv
		for a := 0; a < cells; a++ {
			for b := a + 1; b <= cells; b++ {
				ivs = append(ivs, iv{a, b})
			}
		}
		alphabet := len(ivs) * len(acts)
		sizes := make([]int, cells)
		for i := range sizes {
			sizes[i] = cell
		}
		{
			p := SoParams{Sizes: sizes, Seed: uint32(cell), Strict: strict}
			for k := cf.kmin; k <= cf.kmax; k++ {
				n := 1
				for i := 0; i < k; i++ {
					n *= alphabet
				}
				for code := 0; code < n; code++ {
					idx++
					if idx%sk != si {
						continue
					}
					ops := make([]SoOp, 0, 3*k)
					c := code
					for i := 0; i < k; i++ {
						sym := c % alphabet
						c /= alphabet
						v := ivs[sym%len(ivs)]
						ops = append(ops, SoOp{K: "push", A: v.a, B: v.b})
						if a := acts[sym/len(ivs)]; a != "" {
							ops = append(ops, SoOp{K: a})
						}
					}
					u.Case()
					var m *sorterMachine
					var executed []SoOp // including the probes, so that a failure replays exactly
					v := vf.Guard("C03/sorter-exhaustive", func() *vf.Verdict {
						m = newSorterMachine(p)
						do := func(op SoOp) *vf.Verdict {
							executed = append(executed, op)
							return m.Apply(op)
						}
						for _, op := range ops {
							if v := do(op); v != nil {
								return v
							}
							// after every step: the whole contiguous run is peekable and correct, one more byte is not
							run := m.set.run(m.rpos)
							if v := do(SoOp{K: "peek", Off: m.rpos, N: run}); v != nil {
								return v
							}
							if v := do(SoOp{K: "peek", Off: m.rpos, N: run + 1}); v != nil {
								return v
							}
							if v := do(SoOp{K: "more"}); v != nil {
								return v
							}
						}
						return m.finish()
					})
					if v != nil {
						cs := vf.MachineCase[SoParams, SoOp]{Params: p, Ops: executed}
						if vf.U("sorter-model").Report(v, cs) {
							t.Fatalf("VIOLATION %s: %s (case %+v)", v.Sig, v.Detail, cs)
						}
						continue
					}
					s := &m.stats
					if (s.overlap || s.dup || s.ooo) && s.popsBetween > 0 {
						u.NonTrivial(cells, cell, strict, k, code)
						if u.WantSample() && code%9973 == 0 {
							u.Sample(vf.MachineCase[SoParams, SoOp]{Params: p, Ops: ops})
						}
					}
					if s.cutSmall {
						u.Class("cut-copied")
					}
					if s.cutBig {
						u.Class("cut-kept")
					}
				}
			}
		}
	}
	extra := fmt.Sprintf("all sequences of <=%d pushes over the 21 intervals of a 6-cell lattice x {no read, one Pop, Pop until empty} after each push, cell sizes {1,43,128} x {pooled-only, strict} recycling, Peek of the contiguous run after every step", K)
	if !vf.Thorough() {
		extra += "; plus all sequences of exactly 4 pushes over the 15 intervals of a 5-cell lattice, cell size 43"
	}
	u.Extra("exhaustive", extra)
}
