package c03

import (
	"errors"
	"sort"
	"testing"

	"pgregory.net/rapid"

	quic "github.com/refraction-networking/uquic"
	"github.com/refraction-networking/uquic/internal/protocol"
	"github.com/refraction-networking/uquic/internal/qerr"
	"github.com/refraction-networking/uquic/internal/wire"
	"github.com/refraction-networking/uquic/verif/vf"
)

// ---------------------------------------------------------------------------------------------
// crypto stream machine (receive side of cryptoStream and initialCryptoStream)
// ---------------------------------------------------------------------------------------------

const maxCrypto = int(protocol.MaxCryptoStreamOffset) // 16384

// CrParams fixes the stream flavour and the lattice: a fine lattice at the start of the stream and
// one around MaxCryptoStreamOffset, so that frames end just below, at and above the limit.
type CrParams struct {
	Kind  string `json:"kind"`  // crypto | initial-client | initial-server
	Sizes []int  `json:"sizes"` // cells from offset 0
	Seed  uint32 `json:"seed"`
}

// CrOp is one operation on the crypto stream.
type CrOp struct {
	K     string `json:"k"` // frame | get | finish
	A     int    `json:"a,omitempty"`
	B     int    `json:"b,omitempty"`
	Drain bool   `json:"drain,omitempty"` // frame: read until empty afterwards, as Conn.handleCryptoFrame does
}

type cryptoRx interface {
	HandleCryptoFrame(*wire.CryptoFrame) error
	GetCryptoData() []byte
	Finish() error
}

type cryptoMachine struct {
	p        CrParams
	s        cryptoRx
	d        []byte
	cuts     []int
	set      *byteSet
	rpos     int
	highest  int
	finished bool
	dead     bool
	sigv     []byte
	stats    struct {
		exceeded, atLimit, finishQueued, finishOK, afterFinishHigher, afterFinishLower, overlap, dup, ooo, readBetween bool
		lastWasFrame                                                                                                   bool
		frames                                                                                                         int
	}
}

func mkCrypto(p CrParams) vf.Machine[CrOp] {
	m := &cryptoMachine{p: p}
	switch p.Kind {
	case "initial-client":
		m.s = quic.VerifNewInitialCryptoStream(true)
	case "initial-server":
		m.s = quic.VerifNewInitialCryptoStream(false)
	default:
		m.s = quic.VerifNewCryptoStream()
	}
	n := maxCrypto + 700
	m.d = genData(n, p.Seed)
	m.set = newByteSet(n)
	cs := map[int]bool{}
	for _, c := range prefixSums(p.Sizes) {
		if c < n {
			cs[c] = true
		}
	}
	for _, d := range []int{-1452, -300, -129, -128, -127, -2, -1, 0, 1, 2, 127, 128, 129, 300, 700} {
		cs[maxCrypto+d] = true
	}
	for c := range cs {
		m.cuts = append(m.cuts, c)
	}
	sort.Ints(m.cuts)
	return m
}

func (m *cryptoMachine) Gen(t *rapid.T) CrOp {
	nc := len(m.cuts) - 1
	switch rapid.SampledFrom([]string{"frame", "frame", "frame", "frame", "next", "next", "get", "finish"}).Draw(t, "k") {
	case "frame":
		lim := sort.SearchInts(m.cuts, maxCrypto) // index of the cut point at the limit
		if m.finished && m.highest > 0 && rapid.Bool().Draw(t, "retransmit") {
			// a retransmission of data below the highest offset seen before Finish
			hb := sort.SearchInts(m.cuts, m.highest+1) - 1
			if hb >= 1 {
				b := rapid.IntRange(1, hb).Draw(t, "b")
				a := rapid.IntRange(0, b-1).Draw(t, "a")
				return CrOp{K: "frame", A: a, B: b}
			}
		}
		if rapid.IntRange(0, 11).Draw(t, "hostile") == 0 {
			// ends beyond MaxCryptoStreamOffset
			b := rapid.IntRange(lim+1, nc).Draw(t, "b")
			a := rapid.IntRange(0, b-1).Draw(t, "a")
			if rapid.Bool().Draw(t, "short") {
				a = rapid.IntRange(max(0, b-3), b-1).Draw(t, "a2")
			}
			return CrOp{K: "frame", A: a, B: b}
		}
		a := rapid.IntRange(0, lim-1).Draw(t, "a")
		var b int
		if rapid.IntRange(0, 3).Draw(t, "long") == 0 {
			b = rapid.IntRange(a+1, lim).Draw(t, "b")
		} else {
			b = rapid.IntRange(a+1, min(a+3, lim)).Draw(t, "b")
		}
		return CrOp{K: "frame", A: a, B: b, Drain: rapid.Bool().Draw(t, "drain")}
	case "next": // the in-order continuation, so that streams also make progress
		a := sort.SearchInts(m.cuts, m.rpos+m.set.run(m.rpos))
		a = clamp(a, 0, nc-1)
		if m.cuts[a] > m.rpos+m.set.run(m.rpos) && a > 0 {
			a--
		}
		lim := sort.SearchInts(m.cuts, maxCrypto)
		if a >= lim {
			a = lim - 1
		}
		b := rapid.IntRange(a+1, min(a+4, lim)).Draw(t, "b")
		return CrOp{K: "frame", A: a, B: b, Drain: rapid.Bool().Draw(t, "drain")}
	case "get":
		return CrOp{K: "get"}
	default:
		return CrOp{K: "finish"}
	}
}

func transportCode(err error) (qerr.TransportErrorCode, bool) {
	var te *qerr.TransportError
	if errors.As(err, &te) {
		return te.ErrorCode, true
	}
	return 0, false
}

func (m *cryptoMachine) get() (int, *vf.Verdict) {
	data := m.s.GetCryptoData()
	avail := m.set.run(m.rpos)
	if m.finished {
		avail = 0 // Finish succeeded, so nothing was queued, and later frames are never queued
	}
	if len(data) == 0 {
		if avail > 0 {
			return 0, vf.Bad("C03/crypto/data-missing", "GetCryptoData returned nothing at offset %d although [%d,%d) was received", m.rpos, m.rpos, m.rpos+avail)
		}
		return 0, nil
	}
	if len(data) > avail {
		return 0, vf.Bad("C03/crypto/data-unreceived", "GetCryptoData returned %d bytes at offset %d, only %d contiguous bytes were received (finished=%v)", len(data), m.rpos, avail, m.finished)
	}
	if i := firstDiff(data, m.d[m.rpos:m.rpos+len(data)]); i >= 0 {
		return 0, vf.Bad("C03/crypto/data-mismatch", "GetCryptoData: offset %d: got %#x want %#x", m.rpos+i, data[i], m.d[m.rpos+i])
	}
	m.rpos += len(data)
	if m.stats.lastWasFrame && m.stats.frames > 1 {
		m.stats.readBetween = true
	}
	return len(data), nil
}

func (m *cryptoMachine) Apply(op CrOp) *vf.Verdict {
	if m.dead {
		return nil
	}
	m.sigv = append(m.sigv, op.K[0], byte(op.A), byte(op.B))
	switch op.K {
	case "frame":
		a := clamp(op.A, 0, len(m.cuts)-2)
		b := clamp(op.B, a+1, len(m.cuts)-1)
		start, end := m.cuts[a], m.cuts[b]
		data := make([]byte, end-start)
		copy(data, m.d[start:end])
		err := m.s.HandleCryptoFrame(&wire.CryptoFrame{Offset: protocol.ByteCount(start), Data: data})
		code, isTE := transportCode(err)
		switch {
		case end > maxCrypto:
			m.stats.exceeded = true
			m.dead = true
			if !isTE || code != qerr.CryptoBufferExceeded {
				return vf.Bad("C03/crypto/limit-not-enforced", "CRYPTO frame [%d,%d) exceeds MaxCryptoStreamOffset=%d but HandleCryptoFrame returned %v (want CRYPTO_BUFFER_EXCEEDED)", start, end, maxCrypto, err)
			}
			return nil
		case m.finished && end > m.highest:
			m.stats.afterFinishHigher = true
			m.dead = true
			if !isTE || code != qerr.ProtocolViolation {
				return vf.Bad("C03/crypto/after-finish", "CRYPTO frame [%d,%d) beyond the highest offset %d after Finish: got %v, want PROTOCOL_VIOLATION", start, end, m.highest, err)
			}
			return nil
		case m.finished:
			m.stats.afterFinishLower = true
			if err != nil {
				return vf.Bad("C03/crypto/after-finish", "retransmitted CRYPTO frame [%d,%d) (highest %d) after Finish must be ignored, got %v", start, end, m.highest, err)
			}
		default:
			if end == maxCrypto {
				m.stats.atLimit = true
			}
			got := m.set.count(start, end)
			switch {
			case got == end-start:
				m.stats.dup = true
			case got > 0 || start < m.rpos:
				m.stats.overlap = true
			}
			if start > m.rpos+m.set.run(m.rpos) {
				m.stats.ooo = true
			}
			m.set.add(start, end)
			m.highest = max(m.highest, end)
			if err != nil {
				if g := m.set.gaps(m.rpos, m.highest); g > protocol.MaxStreamFrameSorterGaps {
					m.dead = true
					return nil
				}
				return vf.Bad("C03/crypto/frame-rejected", "CRYPTO frame [%d,%d) within the limit was rejected: %v", start, end, err)
			}
		}
		m.stats.frames++
		m.stats.lastWasFrame = true
		if op.Drain {
			for {
				n, v := m.get()
				if v != nil || n == 0 {
					m.stats.lastWasFrame = false
					return v
				}
			}
		}
	case "get":
		_, v := m.get()
		m.stats.lastWasFrame = false
		return v
	case "finish":
		err := m.s.Finish()
		queued := !m.finished && m.set.anyFrom(m.rpos)
		code, isTE := transportCode(err)
		if queued {
			m.stats.finishQueued = true
			m.dead = true
			if !isTE || code != qerr.ProtocolViolation {
				return vf.Bad("C03/crypto/finish-with-data", "Finish with unread data (read position %d) returned %v, want PROTOCOL_VIOLATION", m.rpos, err)
			}
			return nil
		}
		if err != nil {
			return vf.Bad("C03/crypto/finish-error", "Finish with nothing queued (read position %d, highest %d) returned %v", m.rpos, m.highest, err)
		}
		m.stats.finishOK = true
		m.finished = true
	}
	return nil
}

func (m *cryptoMachine) Finish(u *vf.Unit) *vf.Verdict {
	if !m.dead {
		for {
			n, v := m.get()
			if v != nil {
				return v
			}
			if n == 0 {
				break
			}
		}
	}
	s := &m.stats
	for _, c := range []struct {
		n string
		b bool
	}{{"buffer-exceeded", s.exceeded}, {"ends-at-limit", s.atLimit}, {"finish-with-data", s.finishQueued}, {"finish-ok", s.finishOK},
		{"after-finish-higher", s.afterFinishHigher}, {"after-finish-lower", s.afterFinishLower}, {"overlap", s.overlap},
		{"dup", s.dup}, {"out-of-order", s.ooo}, {"read-between-frames", s.readBetween}, {m.p.Kind, true}} {
		if c.b {
			u.Class(c.n)
		}
	}
	if (s.overlap || s.dup || s.ooo) && s.readBetween {
		u.NonTrivial(m.p.Kind, m.p.Sizes, m.sigv)
	}
	return nil
}

func genCrParams(t *rapid.T) CrParams {
	return CrParams{
		Kind:  rapid.SampledFrom([]string{"crypto", "initial-client", "initial-server"}).Draw(t, "kind"),
		Sizes: rapid.SliceOfN(rapid.SampledFrom(cellSizes), 2, 8).Draw(t, "sizes"),
		Seed:  rapid.Uint32().Draw(t, "seed"),
	}
}

func TestCryptoModel(t *testing.T) {
	vf.RunMachine(t, "crypto-model", 40, genCrParams, mkCrypto)
}
