package c03

import (
	"errors"
	"fmt"
	"io"
	"os"
	"runtime/debug"
	"sort"
	"strings"
	"testing"
	"time"
	"unsafe"

	"pgregory.net/rapid"

	quic "github.com/refraction-networking/uquic"
	"github.com/refraction-networking/uquic/internal/flowcontrol"
	"github.com/refraction-networking/uquic/internal/monotime"
	"github.com/refraction-networking/uquic/internal/protocol"
	"github.com/refraction-networking/uquic/internal/synctest"
	"github.com/refraction-networking/uquic/internal/utils"
	"github.com/refraction-networking/uquic/internal/wire"
	"github.com/refraction-networking/uquic/verif/refwire"
	"github.com/refraction-networking/uquic/verif/vf"
)

// ---------------------------------------------------------------------------------------------
// recv-buffer-reuse: reassembly fed the way a connection feeds it, out of a RE-USED receive buffer
//
// The other C03 units hand wire.CryptoFrame / wire.StreamFrame values built by hand to the code
// under test, so the frame data is always a private slice. A connection does something else
// (connection.go): Conn.handlePacketImpl decrypts a packet in place in the packet buffer of the
// datagram, Conn.handleFrames parses the frames out of that buffer (FrameParser.ParseType, then
// ParseStreamFrame / ParseAckFrame / ParseDatagramFrame / ParseLessCommonFrame) and hands each
// frame to its handler (handleCryptoFrame: cryptoStreamManager.HandleCryptoFrame, then
// GetCryptoData until nil, each chunk going to the TLS stack which copies it;
// streamsMap.HandleStreamFrame -> ReceiveStream.handleStreamFrame). When the packet has been
// processed, handlePacketImpl calls p.buffer.MaybeRelease(): the buffer goes back to the packet
// buffer pool and the transport reads the next datagram into it. Whatever the reassembly code
// still needs must therefore have been copied by then.
//
// One case = one byte string D (1..6000 bytes, never 0xDD) and a generated delivery history of
// "packets". Every packet is serialised with the independent encoder (harness/refwire) into ONE
// scratch buffer of MaxPacketBufferSize bytes that is used for every packet of the case, parsed
// with the production wire.FrameParser exactly as handleFrames does, every frame is handled
// exactly as handleCryptoFrame / handleStreamFrame do, and then the scratch buffer is overwritten
// with 0xDD before the next packet is written into it.
// ---------------------------------------------------------------------------------------------

const (
	brUnit    = "recv-buffer-reuse"
	brScratch = int(protocol.MaxPacketBufferSize)
	brMaxLen  = 6000
)

// BrFrame is one CRYPTO or STREAM frame of a generated packet (absolute offsets into D).
type BrFrame struct {
	Off    int  `json:"off"`
	Len    int  `json:"len"`
	Fin    bool `json:"fin,omitempty"`    // STREAM: set the FIN bit (only honoured if the frame ends at len(D))
	NoLen  bool `json:"nolen,omitempty"`  // STREAM: no length field (only honoured for the last frame of the packet)
	HasOff bool `json:"hasoff,omitempty"` // STREAM: explicit offset field although the offset is 0
	Pad    int  `json:"pad,omitempty"`    // PADDING bytes in front of the frame
	Ping   bool `json:"ping,omitempty"`   // a PING frame in front of the frame
}

// BrPacket is one packet payload plus what the application does after the packet was processed.
type BrPacket struct {
	Frames  []BrFrame `json:"frames"`
	TailPad int       `json:"tailpad,omitempty"` // PADDING after the last frame (<0: fill the packet buffer)
	Reads   []int     `json:"reads,omitempty"`   // stream leg: Read(n) calls after the packet; n<0: Peek(-n)
	Cl      string    `json:"cl,omitempty"`      // generator's label (evidence only)
}

// BrCase is the whole history.
type BrCase struct {
	Leg       string     `json:"leg"` // crypto-initial-client | crypto-initial-server | crypto-handshake | crypto-1rtt | stream-1rtt | stream-0rtt
	N         int        `json:"n"`
	Seed      uint32     `json:"seed"`
	StreamID  int64      `json:"id,omitempty"`
	Win       int        `json:"win,omitempty"` // stream leg: receive windows are N+Win
	RTTms     int        `json:"rtt,omitempty"`
	FinalRead int        `json:"finalread,omitempty"`
	Packets   []BrPacket `json:"packets"`
}

var brLegs = []string{"crypto-initial-client", "crypto-initial-server", "crypto-handshake", "crypto-1rtt",
	"stream-1rtt", "stream-1rtt", "stream-1rtt", "stream-0rtt"}

func brIsStream(leg string) bool { return strings.HasPrefix(leg, "stream") }

// ---- wire size bookkeeping (generator and executor agree on what fits into the packet buffer) ----

func brFrameSize(stream bool, sid int64, f BrFrame) int {
	n := max(f.Pad, 0)
	if f.Ping {
		n++
	}
	n++ // type
	if stream {
		n += refwire.VarintLen(uint64(sid))
		if f.Off != 0 || f.HasOff {
			n += refwire.VarintLen(uint64(f.Off))
		}
		n += refwire.VarintLen(uint64(f.Len)) // as if the length were present
	} else {
		n += refwire.VarintLen(uint64(f.Off)) + refwire.VarintLen(uint64(f.Len))
	}
	return n + f.Len
}

// ---- generator ----

var (
	brThreshold = []int{100, 120, 126, 127, 128, 129, 130, 140, 200, 256}
	brMixed     = []int{1, 2, 17, 43, 64, 100, 127, 128, 129, 200, 300, 500, 700, 1000, 1200, 1350, 1400}
	brJitter    = []int{0, 0, 0, 1, 5, 127, 128, 200}
	brReadSizes = []int{1, 7, 100, 127, 128, 129, 700, 1452, 5000, 8000}
)

type brGen struct {
	t      *rapid.T
	stream bool
	sid    int64
	n      int
	finAll bool // data frames that end at n carry the FIN bit
}

func (g *brGen) size(prof int) int {
	switch prof {
	case 0:
		return rapid.IntRange(900, 1400).Draw(g.t, "sz")
	case 1:
		return rapid.SampledFrom(brThreshold).Draw(g.t, "sz")
	case 2:
		return rapid.IntRange(1, 100).Draw(g.t, "sz")
	default:
		return rapid.SampledFrom(brMixed).Draw(g.t, "sz")
	}
}

func (g *brGen) profile(span int) int {
	p := rapid.IntRange(0, 3).Draw(g.t, "profile")
	if p == 2 && span > 1500 {
		p = 3
	}
	return p
}

// cut cuts [a,b) of D into frames.
func (g *brGen) cut(a, b int) []BrFrame {
	prof := g.profile(b - a)
	var out []BrFrame
	for off := a; off < b; {
		n := min(g.size(prof), b-off)
		f := BrFrame{Off: off, Len: n}
		if g.stream && off+n == g.n {
			f.Fin = g.finAll
		}
		switch rapid.IntRange(0, 15).Draw(g.t, "deco") {
		case 3:
			f.Pad = 1
		case 4:
			f.Pad = 3
		case 5:
			f.Ping = true
		case 6:
			f.Pad, f.Ping = 2, true
		case 7:
			f.HasOff = true
		}
		out = append(out, f)
		off += n
	}
	return out
}

// pack distributes consecutive frames over packets that fit the packet buffer.
func (g *brGen) pack(frames []BrFrame, label string) []BrPacket {
	var out []BrPacket
	for i := 0; i < len(frames); {
		maxPer := rapid.SampledFrom([]int{1, 1, 1, 2, 3, 5}).Draw(g.t, "perpkt")
		p := BrPacket{Cl: label}
		size := 0
		for i < len(frames) && len(p.Frames) < maxPer {
			s := brFrameSize(g.stream, g.sid, frames[i])
			if size+s > brScratch {
				break
			}
			size += s
			p.Frames = append(p.Frames, frames[i])
			i++
		}
		switch rapid.IntRange(0, 11).Draw(g.t, "order") {
		case 0: // frames inside one packet need not be in order (e.g. ClientHello scrambling)
			for l, r := 0, len(p.Frames)-1; l < r; l, r = l+1, r-1 {
				p.Frames[l], p.Frames[r] = p.Frames[r], p.Frames[l]
			}
		case 1: // an empty frame in front
			if size+12 <= brScratch {
				p.Frames = append([]BrFrame{{Off: rapid.IntRange(0, g.n).Draw(g.t, "emptyoff"), Len: 0}}, p.Frames...)
			}
		}
		if g.stream && rapid.IntRange(0, 2).Draw(g.t, "nolen") == 0 {
			p.Frames[len(p.Frames)-1].NoLen = true
		} else {
			p.TailPad = rapid.SampledFrom([]int{0, 0, 0, 0, 1, 7, -1}).Draw(g.t, "tailpad")
		}
		out = append(out, p)
	}
	return out
}

type brSched struct {
	key int
	p   BrPacket
}

func genBrCase(t *rapid.T) BrCase {
	c := BrCase{
		Leg:       rapid.SampledFrom(brLegs).Draw(t, "leg"),
		Seed:      rapid.Uint32().Draw(t, "seed"),
		FinalRead: rapid.SampledFrom(brReadSizes).Draw(t, "finalread"),
	}
	switch rapid.IntRange(0, 9).Draw(t, "lenclass") {
	case 0, 1:
		c.N = rapid.IntRange(1, 300).Draw(t, "n")
	case 2, 3, 4, 5:
		c.N = rapid.IntRange(301, 3000).Draw(t, "n")
	default:
		c.N = rapid.IntRange(3001, brMaxLen).Draw(t, "n")
	}
	g := &brGen{t: t, stream: brIsStream(c.Leg), n: c.N, finAll: true}
	finOnly := false
	if g.stream {
		c.StreamID = rapid.SampledFrom([]int64{0, 1, 2, 3, 4, 7, 400, 70000, 1 << 31}).Draw(t, "id")
		c.Win = rapid.SampledFrom([]int{0, 1, 1000, 1 << 20}).Draw(t, "win")
		c.RTTms = rapid.SampledFrom([]int{0, 0, 1, 50}).Draw(t, "rtt")
		g.sid = c.StreamID
		if rapid.IntRange(0, 4).Draw(t, "finonly") == 0 {
			g.finAll, finOnly = false, true // the end of the stream is signalled by a FIN-only frame
		}
	}

	// the first transmission: D cut into frames, frames grouped into packets
	orig := g.pack(g.cut(0, c.N), "orig")
	var sch []brSched
	lost := map[int]bool{}
	delayed := map[int]int{}
	scenario := rapid.SampledFrom([]string{"inorder", "overtake", "gap", "gap", "gap", "gap", "random", "random", "random"}).Draw(t, "scenario")
	switch scenario {
	case "overtake":
		delayed[rapid.IntRange(0, len(orig)-1).Draw(t, "late")] = 15
	case "gap":
		for k := rapid.IntRange(1, 2).Draw(t, "holes"); k > 0; k-- {
			i := rapid.IntRange(0, len(orig)-1).Draw(t, "hole")
			if d := rapid.SampledFrom([]int{25, 35, 45, 75, -1, -1}).Draw(t, "delay"); d < 0 {
				lost[i] = true
			} else {
				delayed[i] = d
			}
		}
	case "random":
		for i := range orig {
			switch rapid.IntRange(0, 9).Draw(t, "fate") {
			case 3:
				delayed[i] = rapid.SampledFrom([]int{15, 25, 35, 55}).Draw(t, "delay")
			case 4:
				lost[i] = true
			}
		}
	}
	span := func(p BrPacket) (int, int) {
		a, b := c.N, 0
		for _, f := range p.Frames {
			if f.Len > 0 {
				a, b = min(a, f.Off), max(b, f.Off+f.Len)
			}
		}
		return a, b
	}
	for i, p := range orig {
		key := i * 10
		if !lost[i] {
			sch = append(sch, brSched{key + delayed[i], p})
			if scenario != "inorder" && rapid.IntRange(0, 7).Draw(t, "dup") == 0 {
				d := p
				d.Cl = "dup"
				sch = append(sch, brSched{key + delayed[i] + rapid.SampledFrom([]int{5, 15, 35, 95}).Draw(t, "dupdelay"), d})
			}
		}
		_, isDelayed := delayed[i]
		if lost[i] || (isDelayed && rapid.IntRange(0, 2).Draw(t, "spurious") == 0) {
			// a retransmission with other frame boundaries, possibly reaching into the neighbours
			a, b := span(p)
			if a >= b {
				continue
			}
			a = max(0, a-rapid.SampledFrom(brJitter).Draw(t, "ja"))
			b = min(c.N, b+rapid.SampledFrom(brJitter).Draw(t, "jb"))
			rt := g.pack(g.cut(a, b), "recut")
			base := key + rapid.SampledFrom([]int{25, 35, 45, 65}).Draw(t, "rtdelay")
			rev := rapid.IntRange(0, 3).Draw(t, "rtrev") == 0
			for j, rp := range rt {
				k := base + j
				if rev {
					k = base + len(rt) - j
				}
				sch = append(sch, brSched{k, rp})
			}
		}
	}
	if finOnly {
		k := rapid.IntRange(0, len(orig)*10+20).Draw(t, "finkey")
		sch = append(sch, brSched{k, BrPacket{Frames: []BrFrame{{Off: c.N, Fin: true}}, Cl: "fin-only"}})
	}
	sort.SliceStable(sch, func(i, j int) bool { return sch[i].key < sch[j].key })
	have := newByteSet(c.N)
	for _, s := range sch {
		c.Packets = append(c.Packets, s.p)
		for _, f := range s.p.Frames {
			have.add(f.Off, f.Off+f.Len)
		}
	}
	// whatever is still missing is retransmitted (again with fresh boundaries)
	var fillPkts []BrPacket
	for a := 0; a < c.N; {
		if have.have[a] {
			a++
			continue
		}
		b := a
		for b < c.N && !have.have[b] {
			b++
		}
		fillPkts = append(fillPkts, g.pack(g.cut(a, b), "fill")...)
		a = b
	}
	if len(fillPkts) > 1 && rapid.IntRange(0, 2).Draw(t, "fillrev") == 0 {
		for l, r := 0, len(fillPkts)-1; l < r; l, r = l+1, r-1 {
			fillPkts[l], fillPkts[r] = fillPkts[r], fillPkts[l]
		}
	}
	c.Packets = append(c.Packets, fillPkts...)
	if finOnly {
		c.Packets = append(c.Packets, BrPacket{Frames: []BrFrame{{Off: c.N, Fin: true}}, Cl: "fin-only"})
	}
	if g.stream {
		for i := range c.Packets {
			if rapid.Bool().Draw(t, "reads") {
				k := rapid.IntRange(1, 3).Draw(t, "nreads")
				for ; k > 0; k-- {
					n := rapid.SampledFrom(brReadSizes).Draw(t, "readsize")
					if rapid.IntRange(0, 4).Draw(t, "peek") == 0 {
						n = -n
					}
					c.Packets[i].Reads = append(c.Packets[i].Reads, n)
				}
			}
		}
	}
	return c
}

// ---- executor ----

type brSent struct {
	off, n int
	fin    bool
	isNew  bool // added bytes that had not been received before
}

type brRun struct {
	c      BrCase
	d      []byte
	stream bool
	lvl    protocol.EncryptionLevel

	parser  *wire.FrameParser
	scratch []byte // THE receive buffer: every packet of the case lives here

	cs  cryptoRx
	str *quic.ReceiveStream

	// model
	set      *byteSet
	arrival  []uint16 // 1-based index of the packet that brought a byte first
	waited   []bool   // the byte arrived behind a gap
	rpos     int
	finKnown bool
	eofRead  bool
	got      []byte // what the reader obtained, in the order it obtained it
	pktIdx   int
	behind   int
	cuts     map[[2]int]bool

	frames map[*wire.StreamFrame]*frameRec
	viol   *vf.Verdict

	st struct {
		ooo, dup, overlap, dupOtherCut, overlapOtherCut, startsAtGappedEnd, overtake, several, behind3 bool
		pooled, small, recycled, noLen, finNoLen, finOnly, padding, ping, empty, inPktDisorder         bool
		readBetween, peek, peekEOF, eof, skipped, safetyNet, hasOffZero, queuedFilled                  bool
		frames, leaked                                                                                 int
	}
	sigv []byte
}

var errBrShutdown = errors.New("c03: recv-buffer-reuse: reader released")

func newBrRun(c BrCase) *brRun {
	c.N = clamp(c.N, 1, brMaxLen)
	r := &brRun{c: c, d: genData(c.N, c.Seed), stream: brIsStream(c.Leg), set: newByteSet(c.N), arrival: make([]uint16, c.N), waited: make([]bool, c.N),
		cuts: map[[2]int]bool{}, frames: map[*wire.StreamFrame]*frameRec{}}
	// a connection's parser: datagrams, RESET_STREAM_AT and ACK_FREQUENCY negotiated or not makes no difference here
	r.parser = wire.NewFrameParser(true, true, false)
	r.scratch = make([]byte, brScratch)
	fill(r.scratch, poison)
	switch c.Leg {
	case "crypto-initial-client":
		r.lvl, r.cs = protocol.EncryptionInitial, quic.VerifNewInitialCryptoStream(true)
	case "crypto-initial-server":
		r.lvl, r.cs = protocol.EncryptionInitial, quic.VerifNewInitialCryptoStream(false)
	case "crypto-handshake":
		r.lvl, r.cs = protocol.EncryptionHandshake, quic.VerifNewCryptoStream()
	case "crypto-1rtt":
		r.lvl, r.cs = protocol.Encryption1RTT, quic.VerifNewCryptoStream()
	case "stream-0rtt":
		r.lvl = protocol.Encryption0RTT
	default:
		r.lvl = protocol.Encryption1RTT
	}
	if r.stream {
		rtt := &utils.RTTStats{}
		if c.RTTms > 0 {
			rtt.UpdateRTT(time.Duration(c.RTTms)*time.Millisecond, 0)
		}
		win := protocol.ByteCount(c.N + max(c.Win, 0))
		cfc := flowcontrol.NewConnectionFlowController(win, 2*win, func(protocol.ByteCount) bool { return true }, rtt, utils.DefaultLogger)
		sfc := flowcontrol.NewStreamFlowController(protocol.StreamID(c.StreamID), cfc, win, 2*win, 0, rtt, utils.DefaultLogger)
		r.str = quic.VerifNewReceiveStream(protocol.StreamID(c.StreamID), &quic.VerifStreamSender{}, sfc)
	}
	return r
}

func (r *brRun) frontier() int { return r.rpos + r.set.run(r.rpos) }

func (r *brRun) checkBytes(what string, data []byte) *vf.Verdict {
	if r.rpos+len(data) > len(r.d) {
		return vf.Bad("C03/bufreuse/data-unreceived", "%s: %d bytes at read position %d, the byte string has only %d bytes", what, len(data), r.rpos, len(r.d))
	}
	if i := firstDiff(data, r.d[r.rpos:r.rpos+len(data)]); i >= 0 {
		at := r.rpos + i
		if data[i] == poison {
			return vf.Bad("C03/bufreuse/recycled-buffer-delivered", "%s (%s): offset %d is the poison value 0xDD: the bytes were still in a receive buffer that had been released and re-used (byte arrived in packet %d, now processing packet %d)",
				what, r.c.Leg, at, r.arrival[at], r.pktIdx)
		}
		return vf.Bad("C03/bufreuse/data-mismatch", "%s (%s): offset %d: got %#x, sent %#x (byte arrived in packet %d, now processing packet %d; the receive buffer was re-used %d times in between)",
			what, r.c.Leg, at, data[i], r.d[at], r.arrival[at], r.pktIdx, r.pktIdx-int(r.arrival[at]))
	}
	return nil
}

// classify looks at a frame before the model takes it in.
func (r *brRun) classify(off, n int) (isNew bool) {
	if n == 0 {
		r.st.empty = true
		return false
	}
	end := off + n
	got := r.set.count(off, end)
	otherCut := !r.cuts[[2]int{off, end}]
	switch {
	case got == n:
		r.st.dup = true
		if otherCut {
			r.st.dupOtherCut = true
		}
	case got > 0:
		r.st.overlap = true
		if otherCut {
			r.st.overlapOtherCut = true
		}
	}
	fr := r.frontier()
	if off > fr {
		r.st.ooo = true
		if r.set.have[off-1] && !r.set.have[off] && int(r.arrival[off-1]) != r.pktIdx {
			// starts exactly where earlier data ends that is itself still waiting behind a gap
			r.st.startsAtGappedEnd = true
		}
	}
	r.cuts[[2]int{off, end}] = true
	for i := off; i < end; i++ {
		if !r.set.have[i] {
			r.set.have[i] = true
			r.arrival[i] = uint16(r.pktIdx)
			isNew = true
		}
	}
	if isNew {
		// bytes that cannot be handed to the reader yet: they have to outlive the receive buffer
		for i := max(off, r.frontier()); i < end; i++ {
			if r.arrival[i] == uint16(r.pktIdx) {
				r.waited[i] = true
			}
		}
	}
	return isNew
}

// survived reports whether data handed to the reader at the read position contains bytes that were
// queued behind a gap while the receive buffer they arrived in was released and re-used.
func (r *brRun) survived(n int) bool {
	for i := r.rpos; i < r.rpos+n; i++ {
		if r.waited[i] && int(r.arrival[i]) < r.pktIdx {
			return true
		}
	}
	return false
}

// ---- crypto leg: Conn.handleCryptoFrame ----

func (r *brRun) handleCrypto(cf *wire.CryptoFrame, want BrFrame) *vf.Verdict {
	if int(cf.Offset) != want.Off || len(cf.Data) != want.Len || firstDiff(cf.Data, r.d[want.Off:want.Off+want.Len]) >= 0 {
		return vf.Bad("C03/bufreuse/parsed-frame-differs", "sent CRYPTO [%d,%d), parsed CRYPTO offset %d with %d bytes (or other content)", want.Off, want.Off+want.Len, cf.Offset, len(cf.Data))
	}
	r.classify(want.Off, want.Len)
	r.sigv = append(r.sigv, byte(want.Off), byte(want.Off>>8), byte(want.Len), byte(want.Len>>8))
	if err := r.cs.HandleCryptoFrame(cf); err != nil {
		return vf.Bad("C03/bufreuse/frame-rejected", "CRYPTO frame [%d,%d) of a %d byte message was rejected: %v", want.Off, want.Off+want.Len, r.c.N, err)
	}
	r.st.frames++
	// "for { data := GetCryptoData(encLevel); if data == nil { break }; HandleMessage(data, encLevel) }"
	avail := r.set.run(r.rpos)
	total := 0
	for {
		data := r.cs.GetCryptoData()
		if len(data) == 0 {
			break
		}
		if total+len(data) > avail {
			return vf.Bad("C03/bufreuse/data-unreceived", "GetCryptoData handed out %d bytes at offset %d, only %d contiguous bytes were received", total+len(data), r.rpos-total, avail)
		}
		// crypto/tls copies what it is given (handshake.cryptoSetup.HandleMessage -> tls.QUICConn.HandleData)
		if v := r.checkBytes("GetCryptoData", data); v != nil {
			return v
		}
		if r.survived(len(data)) {
			r.st.queuedFilled = true
		}
		r.got = append(r.got, data...)
		r.rpos += len(data)
		total += len(data)
	}
	if total < avail {
		return vf.Bad("C03/bufreuse/data-missing", "after CRYPTO frame [%d,%d): [%d,%d) is contiguous and received, but GetCryptoData stopped after %d bytes (the TLS stack would wait for ever)",
			want.Off, want.Off+want.Len, r.rpos-total, r.rpos-total+avail, total)
	}
	return nil
}

// ---- stream leg: streamsMap.HandleStreamFrame -> ReceiveStream.handleStreamFrame ----

// drainPool observes StreamFrame.PutBack through the real pool (GOMAXPROCS is 1, see TestMain): a frame of
// this case that comes out of the pool was released; its buffer is overwritten with the poison value, as
// parsing the next STREAM frame into it would overwrite it, and it is kept out of the pool.
func (r *brRun) drainPool() {
	for i := 0; i < 64; i++ {
		f := wire.GetStreamFrame()
		if rec, ok := r.frames[f]; ok {
			rec.recycled++
			r.st.recycled = true
			if rec.recycled > 1 && r.viol == nil {
				r.viol = vf.Bad("C03/bufreuse/buffer-recycled-twice", "the pooled STREAM frame parsed for [%d,%d) was put back into the pool %d times", rec.off, rec.off+rec.n, rec.recycled)
			}
			fill(f.Data[:cap(f.Data)], poison)
			continue
		}
		if len(f.Data) == 0 {
			return // fresh from pool.New: the pool is empty
		}
		// a leftover of an earlier case or unit
	}
}

func (r *brRun) handleStream(sf *wire.StreamFrame, want BrFrame, wantNoLen bool) *vf.Verdict {
	if int(sf.Offset) != want.Off || len(sf.Data) != want.Len || sf.Fin != want.Fin || int64(sf.StreamID) != r.c.StreamID ||
		sf.DataLenPresent == wantNoLen || firstDiff(sf.Data, r.d[want.Off:want.Off+want.Len]) >= 0 {
		return vf.Bad("C03/bufreuse/parsed-frame-differs", "sent STREAM id=%d [%d,%d) fin=%v nolen=%v, parsed id=%d offset %d with %d bytes fin=%v lenpresent=%v (or other content)",
			r.c.StreamID, want.Off, want.Off+want.Len, want.Fin, wantNoLen, sf.StreamID, sf.Offset, len(sf.Data), sf.Fin, sf.DataLenPresent)
	}
	if cap(sf.Data) == brScratch && len(sf.Data) >= minBuf {
		r.st.pooled = true
		if _, ok := r.frames[sf]; ok {
			return vf.Bad("C03/bufreuse/buffer-recycled-twice", "the parser obtained a pooled STREAM frame that this case still holds (for [%d,%d))", want.Off, want.Off+want.Len)
		}
		r.frames[sf] = &frameRec{off: want.Off, n: want.Len}
	} else if want.Len > 0 {
		r.st.small = true
	}
	r.classify(want.Off, want.Len)
	r.sigv = append(r.sigv, byte(want.Off), byte(want.Off>>8), byte(want.Len), byte(want.Len>>8))
	err := r.str.VerifHandleStreamFrame(sf, monotime.Time(int64(time.Second)+int64(r.pktIdx)*int64(time.Millisecond)))
	r.drainPool()
	if err != nil {
		return vf.Bad("C03/bufreuse/frame-rejected", "STREAM frame [%d,%d) fin=%v of a %d byte stream (windows %d) was rejected: %v", want.Off, want.Off+want.Len, want.Fin, r.c.N, r.c.N+r.c.Win, err)
	}
	if want.Fin {
		r.finKnown = true
		if want.Len == 0 {
			r.st.finOnly = true
		}
	}
	r.st.frames++
	return r.viol
}

// call runs Read or Peek on a second goroutine of the bubble, so that a call that blocks although the
// model says it cannot is observed (synctest.Wait) instead of hanging the process.
func (r *brRun) call(peek bool, buf []byte) (k int, err error, blocked bool) {
	done := make(chan struct{})
	go func() {
		defer func() {
			if p := recover(); p != nil && r.viol == nil {
				st := string(debug.Stack())
				r.viol = vf.Bad(brUnit+"/panic", "panic in Read/Peek: %v\n%s", p, st[:min(len(st), 3000)])
			}
			close(done)
		}()
		if peek {
			k, err = r.str.Peek(buf)
		} else {
			k, err = r.str.Read(buf)
		}
	}()
	synctest.Wait()
	select {
	case <-done:
		return k, err, false
	default:
	}
	r.str.VerifCloseForShutdown(errBrShutdown)
	<-done
	return 0, nil, true
}

func (r *brRun) read(n int) *vf.Verdict {
	peek := n < 0
	if peek {
		n = -n
	}
	n = clamp(n, 1, 2*brMaxLen)
	avail := r.set.run(r.rpos)
	atEnd := r.finKnown && r.rpos+avail == r.c.N
	if r.eofRead {
		return nil
	}
	if avail == 0 && !atEnd {
		return nil // the call would block: the application waits for more packets
	}
	if peek {
		if avail == 0 {
			return nil
		}
		if n > avail && !atEnd {
			n = avail // Peek blocks until n bytes are there
		}
	}
	buf := make([]byte, n)
	fill(buf, 0xEE)
	k, err, blocked := r.call(peek, buf)
	if r.viol != nil {
		return r.viol
	}
	r.drainPool()
	what := fmt.Sprintf("Read(%d)", n)
	if peek {
		what = fmt.Sprintf("Peek(%d)", n)
	}
	if blocked {
		return vf.Bad("C03/bufreuse/data-missing", "%s at read position %d blocks although [%d,%d) was received (fin known: %v, stream length %d)", what, r.rpos, r.rpos, r.rpos+avail, r.finKnown, r.c.N)
	}
	if k < 0 || k > n {
		return vf.Bad("C03/bufreuse/read-result", "%s returned n=%d", what, k)
	}
	if k > avail {
		return vf.Bad("C03/bufreuse/data-unreceived", "%s returned %d bytes at read position %d, only %d contiguous bytes were received", what, k, r.rpos, avail)
	}
	if v := r.checkBytes(what, buf[:k]); v != nil {
		return v
	}
	end := r.rpos + k
	switch {
	case err == nil:
		if k == 0 || (peek && k < n) {
			return vf.Bad("C03/bufreuse/read-result", "%s returned (%d, nil) at read position %d with %d bytes available", what, k, r.rpos, avail)
		}
	case err == io.EOF:
		if !r.finKnown || end != r.c.N {
			return vf.Bad("C03/bufreuse/eof-misplaced", "%s returned io.EOF after offset %d; stream length %d, FIN received: %v", what, end, r.c.N, r.finKnown)
		}
		if peek {
			r.st.peekEOF = true
		} else {
			r.eofRead, r.st.eof = true, true
		}
	default:
		return vf.Bad("C03/bufreuse/read-result", "%s at read position %d returned the unexpected error %v", what, r.rpos, err)
	}
	if peek {
		r.st.peek = true
		return r.viol
	}
	if r.survived(k) {
		r.st.queuedFilled = true
	}
	r.got = append(r.got, buf[:k]...)
	r.rpos = end
	return r.viol
}

// ---- one packet: Conn.handlePacketImpl / handleFrames ----

func (r *brRun) packet(p BrPacket) *vf.Verdict {
	if r.pktIdx >= 60000 {
		return nil // (the arrival index is 16 bits wide; generated histories have a few hundred packets at most)
	}
	r.pktIdx++
	// 1. the "datagram" is written into the receive buffer
	b := r.scratch[:0]
	var sent []BrFrame
	var noLen []bool
	lastHasLen := true
	for i, f := range p.Frames {
		f.Off = clamp(f.Off, 0, r.c.N)
		f.Len = clamp(f.Len, 0, min(r.c.N-f.Off, maxFrameData))
		f.Pad = clamp(f.Pad, 0, 16)
		f.Fin = r.stream && f.Fin && f.Off+f.Len == r.c.N
		if len(b)+brFrameSize(r.stream, r.c.StreamID, f) > brScratch {
			r.st.skipped = true
			continue
		}
		if f.Pad > 0 {
			b = refwire.Frame{Name: refwire.NamePadding, PaddingLen: f.Pad}.Append(b)
			r.st.padding = true
		}
		if f.Ping {
			b = refwire.Frame{Name: refwire.NamePing}.Append(b)
			r.st.ping = true
		}
		if r.stream {
			nl := f.NoLen && i == len(p.Frames)-1
			b = refwire.Frame{Name: refwire.NameStream, StreamID: uint64(r.c.StreamID), Offset: uint64(f.Off), HasOff: f.HasOff,
				Fin: f.Fin, HasLen: !nl, Data: r.d[f.Off : f.Off+f.Len]}.Append(b)
			noLen = append(noLen, nl)
			lastHasLen = !nl
			if nl {
				r.st.noLen = true
				if f.Fin {
					r.st.finNoLen = true
				}
			}
			if f.HasOff && f.Off == 0 {
				r.st.hasOffZero = true
			}
		} else {
			b = refwire.Frame{Name: refwire.NameCrypto, Offset: uint64(f.Off), Data: r.d[f.Off : f.Off+f.Len]}.Append(b)
			noLen = append(noLen, false)
		}
		if len(sent) > 0 && f.Len > 0 && f.Off < sent[len(sent)-1].Off {
			r.st.inPktDisorder = true
		}
		sent = append(sent, f)
	}
	if len(sent) == 0 {
		return nil
	}
	if lastHasLen {
		pad := p.TailPad
		if pad < 0 || pad > brScratch-len(b) {
			pad = brScratch - len(b)
		}
		if pad > 0 {
			b = refwire.Frame{Name: refwire.NamePadding, PaddingLen: pad}.Append(b)
			r.st.padding = true
		}
	}
	if len(b) > brScratch || unsafe.SliceData(b) != unsafe.SliceData(r.scratch) {
		panic("recv-buffer-reuse: harness bug: the packet left the receive buffer")
	}

	// 2. Conn.handleFrames
	data := b
	k := 0
	for len(data) > 0 {
		ft, l, err := r.parser.ParseType(data, r.lvl)
		if err != nil {
			if err == io.EOF {
				break
			}
			return vf.Bad("C03/bufreuse/frame-rejected", "ParseType rejected a generated packet at byte %d: %v", len(b)-len(data), err)
		}
		data = data[l:]
		switch {
		case ft.IsStreamFrameType():
			sf, l, err := r.parser.ParseStreamFrame(ft, data, protocol.Version1)
			if err != nil {
				return vf.Bad("C03/bufreuse/frame-rejected", "ParseStreamFrame rejected a generated STREAM frame: %v", err)
			}
			data = data[l:]
			if !r.stream || k >= len(sent) {
				return vf.Bad("C03/bufreuse/parsed-frame-differs", "the parser found STREAM frame number %d in a packet with %d frames", k+1, len(sent))
			}
			if v := r.handleStream(sf, sent[k], noLen[k]); v != nil {
				return v
			}
			k++
		case ft.IsAckFrameType(), ft.IsDatagramFrameType():
			return vf.Bad("C03/bufreuse/parsed-frame-differs", "the parser found frame type %#x, which was not sent", uint64(ft))
		default:
			fr, l, err := r.parser.ParseLessCommonFrame(ft, data, protocol.Version1)
			if err != nil {
				return vf.Bad("C03/bufreuse/frame-rejected", "ParseLessCommonFrame rejected a generated frame of type %#x: %v", uint64(ft), err)
			}
			data = data[l:]
			switch fr := fr.(type) {
			case *wire.PingFrame:
			case *wire.CryptoFrame:
				if r.stream || k >= len(sent) {
					return vf.Bad("C03/bufreuse/parsed-frame-differs", "the parser found CRYPTO frame number %d in a packet with %d frames", k+1, len(sent))
				}
				if v := r.handleCrypto(fr, sent[k]); v != nil {
					return v
				}
				k++
			default:
				return vf.Bad("C03/bufreuse/parsed-frame-differs", "the parser found a %T, which was not sent", fr)
			}
		}
	}
	if k != len(sent) {
		return vf.Bad("C03/bufreuse/parsed-frame-differs", "%d frames were sent in the packet, %d were parsed", len(sent), k)
	}

	// 3. Conn.handlePacketImpl: p.buffer.MaybeRelease(); the pool hands the buffer to the next reader
	fill(r.scratch, poison)

	// bookkeeping: how many packets are waiting behind a gap
	fr := r.frontier()
	if !r.set.anyFrom(fr) {
		if r.behind == 1 {
			r.st.overtake = true
		}
		r.behind = 0
	} else {
		contributed := false
		for _, f := range sent {
			if f.Len > 0 && f.Off+f.Len > fr && int(r.arrival[f.Off+f.Len-1]) == r.pktIdx {
				contributed = true
			}
		}
		if contributed {
			r.behind++
		}
		if r.behind >= 2 {
			r.st.several = true
		}
		if r.behind >= 3 {
			r.st.behind3 = true
		}
	}

	// 4. the application reads
	if r.stream {
		for _, n := range p.Reads {
			if n == 0 {
				continue
			}
			before := r.rpos
			if v := r.read(n); v != nil {
				return v
			}
			if r.rpos > before && r.pktIdx < len(r.c.Packets) {
				r.st.readBetween = true
			}
		}
	} else if r.pktIdx < len(r.c.Packets) && r.rpos > 0 {
		r.st.readBetween = true
	}
	return nil
}

func (r *brRun) run() *vf.Verdict {
	for _, p := range r.c.Packets {
		if v := r.packet(p); v != nil {
			return v
		}
	}
	// safety net for hand-written / shrunk cases: retransmit whatever the history left out
	for a := 0; a < r.c.N; {
		if r.set.have[a] {
			a++
			continue
		}
		b := a
		for b < r.c.N && !r.set.have[b] && b-a < 1200 {
			b++
		}
		r.st.safetyNet = true
		if v := r.packet(BrPacket{Frames: []BrFrame{{Off: a, Len: b - a, Fin: true}}, Cl: "safety-net"}); v != nil {
			return v
		}
		a = b
	}
	if r.stream {
		if !r.finKnown {
			r.st.safetyNet = true
			if v := r.packet(BrPacket{Frames: []BrFrame{{Off: r.c.N, Fin: true}}, Cl: "safety-net"}); v != nil {
				return v
			}
		}
		n := clamp(r.c.FinalRead, 1, 2*brMaxLen)
		for i := 0; !r.eofRead; i++ {
			if i > r.c.N+8 {
				return vf.Bad("C03/bufreuse/data-missing", "the final reads made no progress: read position %d of %d", r.rpos, r.c.N)
			}
			if v := r.read(n); v != nil {
				return v
			}
		}
		r.drainPool()
		for _, rec := range r.frames {
			if rec.recycled == 0 {
				r.st.leaked++
			}
		}
		if r.st.leaked > 0 && os.Getenv("VERIF_C03_LEAK") == "1" {
			return vf.Bad("C03/bufreuse/buffer-never-released", "%d of %d pooled STREAM frames were never put back although the stream was read to io.EOF", r.st.leaked, len(r.frames))
		}
	}
	if r.viol != nil {
		return r.viol
	}
	if i := firstDiff(r.got, r.d); i >= 0 || len(r.got) != len(r.d) {
		return vf.Bad("C03/bufreuse/data-missing", "%s: the reader obtained %d bytes, %d were sent (first difference at %d)", r.c.Leg, len(r.got), len(r.d), i)
	}
	return nil
}

func (r *brRun) bookkeeping(u *vf.Unit) {
	s := &r.st
	leg := "crypto-leg"
	if r.stream {
		leg = "stream-leg"
	}
	for _, c := range []struct {
		n string
		b bool
	}{{leg, true}, {"leg:" + r.c.Leg, true},
		{"out-of-order", s.ooo}, {"dup", s.dup}, {"overlap", s.overlap},
		{"duplicate-with-different-cut", s.dupOtherCut}, {"overlap-with-different-cut", s.overlapOtherCut},
		{"frame-starts-where-gapped-data-ends", s.startsAtGappedEnd},
		{"one-packet-overtaking", s.overtake}, {"several-packets-behind-a-gap", s.several}, {"three-or-more-packets-behind-a-gap", s.behind3},
		{"queued-data-delivered-after-reuse", s.queuedFilled},
		{"frames-out-of-order-in-packet", s.inPktDisorder}, {"read-between-packets", s.readBetween},
		{"pooled-frame", s.pooled}, {"small-frame", s.small}, {"buffer-recycled", s.recycled},
		{"no-length-field", s.noLen}, {"fin-no-length-field", s.finNoLen}, {"fin-only", s.finOnly}, {"explicit-offset-zero", s.hasOffZero},
		{"padding", s.padding}, {"ping", s.ping}, {"empty-frame", s.empty}, {"peek", s.peek}, {"peek-eof", s.peekEOF}, {"eof", s.eof},
		{"skipped-frame", s.skipped}, {"safety-net-fill", s.safetyNet}, {"obs:pooled-frame-never-released", s.leaked > 0},
		{"in-order", !s.ooo && !s.dup && !s.overlap},
	} {
		if c.b {
			u.Class(c.n)
		}
	}
	switch {
	case r.c.N <= 300:
		u.Class("len<=300")
	case r.c.N <= 3000:
		u.Class("len<=3000")
	default:
		u.Class("len<=6000")
	}
	if (s.ooo || s.dup || s.overlap) && s.queuedFilled {
		u.NonTrivial(r.c.Leg, r.c.N, r.sigv)
	}
}

func checkBr(t *testing.T, c BrCase, u *vf.Unit) *vf.Verdict {
	var r *brRun
	var v *vf.Verdict
	if !brIsStream(c.Leg) {
		r = newBrRun(c)
		if v = r.run(); v != nil {
			return v
		}
		r.bookkeeping(u)
		return nil
	}
	// Read / Peek may block if the code under test is wrong: the stream leg lives in a bubble
	synctest.Test(t, func(*testing.T) {
		v = vf.Guard(brUnit, func() *vf.Verdict {
			r = newBrRun(c)
			return r.run()
		})
	})
	if v != nil {
		return v
	}
	r.bookkeeping(u)
	if len(c.Packets) <= 10 && (r.st.several || r.st.dupOtherCut) && u.WantSample() {
		u.Sample(c)
	}
	return nil
}

func TestRecvBufferReuse(t *testing.T) {
	vf.RunRapid(t, brUnit, genBrCase, func(c BrCase, u *vf.Unit) *vf.Verdict { return checkBr(t, c, u) })
}
