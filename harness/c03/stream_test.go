package c03

import (
	"encoding/json"
	"errors"
	"fmt"
	"io"
	"os"
	"sort"
	"sync/atomic"
	"testing"

	"time"

	"pgregory.net/rapid"

	quic "github.com/refraction-networking/uquic"
	"github.com/refraction-networking/uquic/internal/flowcontrol"
	"github.com/refraction-networking/uquic/internal/monotime"
	"github.com/refraction-networking/uquic/internal/protocol"
	"github.com/refraction-networking/uquic/internal/qerr"
	"github.com/refraction-networking/uquic/internal/synctest"
	"github.com/refraction-networking/uquic/internal/utils"
	"github.com/refraction-networking/uquic/internal/wire"
	"github.com/refraction-networking/uquic/verif/vf"
)

// ---------------------------------------------------------------------------------------------
// ReceiveStream machine
//
// Every case runs inside one synctest bubble. Read and Peek are issued from a second goroutine;
// synctest.Wait then tells deterministically whether the call returned or is durably blocked, so
// "would block" is observed rather than predicted and no action can hang the process. A blocked
// call stays pending while further frames / resets / CancelRead / closeForShutdown / deadline
// changes are applied, which also exercises the wake-ups.
//
// STREAM frames of at least MinStreamFrameBufferSize bytes are taken from the real wire pool
// (wire.GetStreamFrame), exactly like wire.ParseStreamFrame does, smaller ones are plain
// allocations. After every operation the pool is drained: a frame of ours that shows up there was
// released by StreamFrame.PutBack; its buffer is then overwritten with the poison value, as the next
// parsed packet would overwrite it.
// ---------------------------------------------------------------------------------------------

const maxFrameData = int(protocol.MaxPacketBufferSize) // a pooled frame buffer cannot hold more

var errShutdown = errors.New("c03: connection closed")

// StParams fixes the byte string, the lattice, the stream's true final size and the flow control windows.
type StParams struct {
	Sizes        []int  `json:"sizes"`
	Final        int    `json:"final"` // index of the cut point that is the true final size
	Seed         uint32 `json:"seed"`
	StreamWin    int    `json:"swin"`
	ConnWin      int    `json:"cwin"`
	MaxStreamWin int    `json:"smax"`
	MaxConnWin   int    `json:"cmax"`
	RTTms        int    `json:"rtt,omitempty"` // 0: no RTT sample, window auto-tuning stays off
	AllowInc     bool   `json:"inc,omitempty"`
	StreamID     int64  `json:"id"`
	Tail         int    `json:"tail,omitempty"` // extra bytes beyond the lattice: room for gap bursts
}

// StOp is one operation. Frames carry absolute offsets so that Apply needs no generator state.
type StOp struct {
	K     string `json:"k"` // frame | reset | read | peek | cancel | shutdown | timeout | cleardl | flush
	Off   int    `json:"off,omitempty"`
	Len   int    `json:"len,omitempty"`
	Fin   bool   `json:"fin,omitempty"`
	Final int    `json:"final,omitempty"`
	Rel   int    `json:"rel,omitempty"`
	Code  uint64 `json:"code,omitempty"`
	N     int    `json:"n,omitempty"`
	// Pre: if the model says the call would block, an already expired deadline is set before the call
	// and removed afterwards (the call then returns the deadline error at once)
	Pre bool   `json:"pre,omitempty"`
	Dt  int64  `json:"dt,omitempty"` // microseconds added to the receive-time clock
	Cl  string `json:"cl,omitempty"` // generator's label of the op (evidence only; Apply ignores it)
}

type frameRec struct {
	off, n   int
	recycled int
}

type pendingCall struct {
	peek bool
	n    int
	buf  []byte
	done chan struct{}
	k    int
	err  error
}

type sentFrame struct {
	off, n int
	fin    bool
}

type streamMachine struct {
	p    StParams
	d    []byte
	cuts []int
	str  *quic.ReceiveStream
	cfc  flowcontrol.ConnectionFlowController
	now  int64 // ns

	// model
	set            *byteSet
	rpos           int
	highest        int
	finKnown       bool // a STREAM frame with FIN was accepted
	finalKnown     bool // final size established by FIN or RESET_STREAM(_AT)
	final          int
	reset          bool
	resetsAccepted int
	rel            int
	resetCode      uint64
	cancelled      bool // CancelRead took effect: reads fail from now on
	cancelLocal    bool // ... with the local error carrying cancelCode
	cancelCode     uint64
	shutdown       bool
	dlExpired      bool
	streamLimit    int
	connLimit      int
	gapN           int // cached number of gaps in the received data (valid if gapValid)
	gapValid       bool
	dead           bool // a frame was rejected or the connection was shut down: no more frames
	sent           []sentFrame

	completed atomic.Int32
	ctrl      atomic.Int32

	frames  map[*wire.StreamFrame]*frameRec
	spare   *wire.StreamFrame
	pending *pendingCall
	viol    *vf.Verdict
	sigv    []byte
	lastOp  StOp
	ops     map[string]bool // generator labels seen (evidence only)

	st struct {
		overlap, dup, ooo, readBetween, lastWasFrame                                                      bool
		finalSizeErr, flowErr, eof, resetSeen, resetAt, resetReduced, resetErrRead                        bool
		cancel, shutdown, deadline, blocked, woken, peekOK, peekEOF, peekReset, pooled                    bool
		recycled, windowUpdate, afterComplete, relData, finEmpty, reduceNoWake, cancelNoWake, preDeadline bool
		bursted, gapErr                                                                                   bool
		frames                                                                                            int
	}
}

func newStreamMachine(p StParams) *streamMachine {
	cuts := prefixSums(p.Sizes)
	n := cuts[len(cuts)-1]
	m := &streamMachine{p: p, cuts: cuts, d: genData(n+64+p.Tail, p.Seed), set: newByteSet(n + 64 + p.Tail), now: int64(time.Second),
		streamLimit: p.StreamWin, connLimit: p.ConnWin, frames: map[*wire.StreamFrame]*frameRec{}}
	rtt := &utils.RTTStats{}
	if p.RTTms > 0 {
		rtt.UpdateRTT(time.Duration(p.RTTms)*time.Millisecond, 0)
	}
	m.cfc = flowcontrol.NewConnectionFlowController(protocol.ByteCount(p.ConnWin), protocol.ByteCount(p.MaxConnWin),
		func(protocol.ByteCount) bool { return p.AllowInc }, rtt, utils.DefaultLogger)
	sfc := flowcontrol.NewStreamFlowController(protocol.StreamID(p.StreamID), m.cfc, protocol.ByteCount(p.StreamWin),
		protocol.ByteCount(p.MaxStreamWin), 0, rtt, utils.DefaultLogger)
	sender := &quic.VerifStreamSender{
		OnHasStreamControlFrame: func(protocol.StreamID, quic.VerifControlFrameGetter) { m.ctrl.Add(1) },
		OnHasConnectionData:     func() { m.ctrl.Add(1) },
		OnStreamCompleted:       func(protocol.StreamID) { m.completed.Add(1) },
	}
	m.str = quic.VerifNewReceiveStream(protocol.StreamID(p.StreamID), sender, sfc)
	return m
}

func (m *streamMachine) trueFinal() int { return m.cuts[clamp(m.p.Final, 0, len(m.cuts)-1)] }

func (m *streamMachine) t() monotime.Time { return monotime.Time(m.now) }

// avail is the number of received contiguous bytes at the read position.
func (m *streamMachine) avail() int { return m.set.run(m.rpos) }

func (m *streamMachine) mayBlockRead() bool {
	return m.avail() == 0 && !(m.finKnown && m.rpos == m.final) && !(m.reset && m.rpos >= m.rel) &&
		!m.cancelled && !m.shutdown && !m.dlExpired
}

func (m *streamMachine) mayBlockPeek(n int) bool {
	a := m.avail()
	return a < n && !(m.finKnown && m.rpos+a == m.final) && !(m.reset && m.rpos+a >= m.rel) &&
		!m.cancelled && !m.shutdown && !m.dlExpired
}

// ---- frames and the wire pool ----

func (m *streamMachine) noteRecycled(f *wire.StreamFrame, rec *frameRec) {
	rec.recycled++
	m.st.recycled = true
	if rec.recycled > 1 && m.viol == nil {
		m.viol = vf.Bad("C03/stream/buffer-recycled-twice", "the pooled frame that carried [%d,%d) was put back into the pool %d times", rec.off, rec.off+rec.n, rec.recycled)
	}
	b := f.Data[:cap(f.Data)]
	fill(b, poison) // what the next packet parsed into this buffer would do
}

func (m *streamMachine) drainPool() {
	for i := 0; i < 64; i++ {
		f := wire.GetStreamFrame()
		if rec, ok := m.frames[f]; ok {
			m.noteRecycled(f, rec)
			continue
		}
		if len(f.Data) == 0 { // fresh from pool.New: the pool is empty
			if m.spare == nil {
				m.spare = f
			}
			return
		}
		// a leftover of an earlier case: not ours, drop it
	}
}

func (m *streamMachine) makeFrame(off, n int, fin bool) *wire.StreamFrame {
	var f *wire.StreamFrame
	if n >= minBuf {
		m.st.pooled = true
		for f == nil {
			if m.spare != nil {
				f, m.spare = m.spare, nil
			} else {
				f = wire.GetStreamFrame()
			}
			if rec, ok := m.frames[f]; ok {
				m.noteRecycled(f, rec)
				f = nil
			} else if len(f.Data) != 0 {
				f = nil
			}
		}
		f.Data = f.Data[:n]
		m.frames[f] = &frameRec{off: off, n: n}
	} else {
		f = &wire.StreamFrame{}
		if n > 0 {
			f.Data = make([]byte, n)
		}
	}
	copy(f.Data, m.d[off:off+n])
	f.StreamID = protocol.StreamID(m.p.StreamID)
	f.Offset = protocol.ByteCount(off)
	f.Fin = fin
	f.DataLenPresent = true
	return f
}

func wantCode(err error, codes ...qerr.TransportErrorCode) bool {
	c, ok := transportCode(err)
	if !ok {
		return false
	}
	for _, w := range codes {
		if c == w {
			return true
		}
	}
	return false
}

// checkRejection compares the error of a STREAM / RESET_STREAM frame with what RFC 9000 4.1 / 4.5 demand.
func (m *streamMachine) checkRejection(what string, err error, finalSizeErr, flowErr bool) (rejected bool, v *vf.Verdict) {
	switch {
	case finalSizeErr && flowErr:
		m.st.finalSizeErr, m.st.flowErr = true, true
		if !wantCode(err, qerr.FinalSizeError, qerr.FlowControlError) {
			return true, vf.Bad("C03/stream/final-size-not-enforced", "%s contradicts the final size and exceeds the window, got %v", what, err)
		}
		return true, nil
	case finalSizeErr:
		m.st.finalSizeErr = true
		if !wantCode(err, qerr.FinalSizeError) {
			return true, vf.Bad("C03/stream/final-size-not-enforced", "%s contradicts the established final size (known=%v final=%d highest=%d): got %v, want FINAL_SIZE_ERROR", what, m.finalKnown, m.final, m.highest, err)
		}
		return true, nil
	case flowErr:
		m.st.flowErr = true
		if !wantCode(err, qerr.FlowControlError) {
			return true, vf.Bad("C03/stream/flow-control-not-enforced", "%s exceeds the advertised limits (stream %d, connection %d): got %v, want FLOW_CONTROL_ERROR", what, m.streamLimit, m.connLimit, err)
		}
		return true, nil
	}
	if err != nil {
		return true, vf.Bad("C03/stream/frame-rejected", "%s is consistent (final known=%v %d, highest %d, limits %d/%d) but was rejected: %v", what, m.finalKnown, m.final, m.highest, m.streamLimit, m.connLimit, err)
	}
	return false, nil
}

// gapsAfter returns the number of gaps the received data would have with [off,end) added.
func (m *streamMachine) gapsAfter(off, end int) int {
	if end-off == 1 && m.gapValid {
		if m.set.have[off] {
			return m.gapN
		}
		left := off == 0 || m.set.have[off-1]
		right := off+1 < len(m.set.have) && m.set.have[off+1]
		switch {
		case left && right:
			return m.gapN - 1
		case left || right:
			return m.gapN
		}
		return m.gapN + 1
	}
	saved := append([]bool(nil), m.set.have[off:end]...)
	m.set.add(off, end)
	g := m.set.gaps(0, min(max(m.highest, end), len(m.d)))
	copy(m.set.have[off:end], saved)
	return g
}

func (m *streamMachine) frame(op StOp) *vf.Verdict {
	off := clamp(op.Off, 0, len(m.d))
	n := clamp(op.Len, 0, min(maxFrameData, len(m.d)-off))
	end := off + n
	f := m.makeFrame(off, n, op.Fin)
	what := fmt.Sprintf("STREAM frame [%d,%d) fin=%v", off, end, op.Fin)
	err := m.str.VerifHandleStreamFrame(f, m.t())
	finalSizeErr := (m.finalKnown && (end > m.final || (op.Fin && end != m.final))) || (!m.finalKnown && op.Fin && end < m.highest)
	flowErr := end > m.highest && (end > m.streamLimit || end > m.connLimit)
	gapN, gapOK := 0, false
	if !finalSizeErr && !flowErr && (err != nil || m.st.bursted) && !m.cancelled && !m.shutdown {
		// the frame sorter's gap limit: the frame is consistent, but queueing it would leave too many gaps
		wasDup := n == 0 || m.set.all(off, end)
		if !wasDup {
			g := m.gapsAfter(off, end)
			if g > protocol.MaxStreamFrameSorterGaps {
				m.st.gapErr = true
				m.dead = true
				if err == nil {
					return vf.Bad("C03/stream/gap-limit-not-enforced", "%s leaves %d gaps in the received data (limit %d) but was accepted", what, g, protocol.MaxStreamFrameSorterGaps)
				}
				return nil
			}
			gapN, gapOK = g, true
		} else {
			gapN, gapOK = m.gapN, m.gapValid
		}
	}
	rejected, v := m.checkRejection(what, err, finalSizeErr, flowErr)
	if v != nil {
		return v
	}
	if rejected {
		m.dead = true
		return nil
	}
	// classification
	if n > 0 {
		got := m.set.count(off, end)
		switch {
		case got == n:
			m.st.dup = true
		case got > 0:
			m.st.overlap = true
		}
		if off > m.rpos+m.avail() {
			m.st.ooo = true
		}
	} else if op.Fin {
		m.st.finEmpty = true
	}
	if m.completed.Load() > 0 {
		m.st.afterComplete = true
	}
	m.set.add(off, end)
	m.gapN, m.gapValid = gapN, gapOK
	m.highest = max(m.highest, end)
	if op.Fin {
		m.finKnown, m.finalKnown, m.final = true, true, end
	}
	m.sent = append(m.sent, sentFrame{off, n, op.Fin})
	m.st.frames++
	m.st.lastWasFrame = true
	return nil
}

func (m *streamMachine) resetFrame(op StOp) *vf.Verdict {
	fs := max(op.Final, 0)
	rs := clamp(op.Rel, 0, fs) // the frame parser rejects reliable size > final size
	what := fmt.Sprintf("RESET_STREAM(_AT) final=%d reliable=%d", fs, rs)
	err := m.str.VerifHandleResetStreamFrame(&wire.ResetStreamFrame{StreamID: protocol.StreamID(m.p.StreamID),
		ErrorCode: qerr.StreamErrorCode(op.Code), FinalSize: protocol.ByteCount(fs), ReliableSize: protocol.ByteCount(rs)}, m.t())
	finalSizeErr := (m.finalKnown && fs != m.final) || (!m.finalKnown && fs < m.highest)
	flowErr := fs > m.highest && (fs > m.streamLimit || fs > m.connLimit)
	rejected, v := m.checkRejection(what, err, finalSizeErr, flowErr)
	if v != nil {
		return v
	}
	if rejected {
		m.dead = true
		return nil
	}
	m.finalKnown, m.final = true, fs
	m.highest = max(m.highest, fs)
	if m.cancelled {
		return nil // a reset after CancelRead only settles the final size
	}
	m.st.resetSeen = true
	m.resetsAccepted++
	if rs > 0 {
		m.st.resetAt = true
	}
	if !m.reset {
		m.reset, m.rel, m.resetCode = true, rs, op.Code
	} else if rs < m.rel {
		m.rel = rs // the sender may only reduce the reliable size
		m.st.resetReduced = true
	}
	return nil
}

// ---- Read / Peek ----

func (m *streamMachine) start(peek bool, n int) {
	pc := &pendingCall{peek: peek, n: n, buf: make([]byte, n), done: make(chan struct{})}
	fill(pc.buf, 0xEE)
	m.pending = pc
	go func() {
		if peek {
			pc.k, pc.err = m.str.Peek(pc.buf)
		} else {
			pc.k, pc.err = m.str.Read(pc.buf)
		}
		close(pc.done)
	}()
}

func isDone(pc *pendingCall) bool {
	select {
	case <-pc.done:
		return true
	default:
		return false
	}
}

func (m *streamMachine) checkBytes(what string, data []byte) *vf.Verdict {
	if i := firstDiff(data, m.d[m.rpos:m.rpos+len(data)]); i >= 0 {
		if data[i] == poison {
			return vf.Bad("C03/stream/recycled-buffer-delivered", "%s at read position %d: byte %d is the poison value: its frame buffer was put back into the pool while these bytes were still undelivered", what, m.rpos, i)
		}
		return vf.Bad("C03/stream/data-mismatch", "%s: stream offset %d: got %#x want %#x", what, m.rpos+i, data[i], m.d[m.rpos+i])
	}
	return nil
}

// judge decides whether the outcome (k, err) of a returned Read / Peek is allowed in the current model state.
func (m *streamMachine) judge(pc *pendingCall) *vf.Verdict {
	what := fmt.Sprintf("Read(%d)", pc.n)
	if pc.peek {
		what = fmt.Sprintf("Peek(%d)", pc.n)
	}
	k, err := pc.k, pc.err
	a := m.avail()
	if k < 0 || k > pc.n {
		return vf.Bad("C03/stream/bad-count", "%s returned n=%d", what, k)
	}
	if k > a {
		return vf.Bad("C03/stream/unreceived-data", "%s returned %d bytes at read position %d but only %d contiguous bytes were received", what, k, m.rpos, a)
	}
	if v := m.checkBytes(what, pc.buf[:k]); v != nil {
		return v
	}
	end := m.rpos + k
	var se *quic.StreamError
	switch {
	case err == nil:
		if pc.peek && k != pc.n {
			return vf.Bad("C03/stream/peek-short", "%s returned %d bytes without an error", what, k)
		}
		if !pc.peek && k == 0 && pc.n > 0 && !m.mayBlockRead() {
			return vf.Bad("C03/stream/no-progress", "%s returned (0, nil) although it cannot block (avail %d)", what, a)
		}
		if pc.peek {
			m.st.peekOK = true
		}
	case err == io.EOF:
		if !m.finKnown || end != m.final {
			return vf.Bad("C03/stream/eof-misplaced", "%s returned io.EOF after %d bytes at stream offset %d; FIN received=%v, final size %d (known=%v)", what, k, end, m.finKnown, m.final, m.finalKnown)
		}
		if pc.peek {
			m.st.peekEOF = true
		} else {
			m.st.eof = true
		}
	case errors.As(err, &se):
		if se.StreamID != quic.StreamID(m.p.StreamID) {
			return vf.Bad("C03/stream/unexpected-error", "%s: StreamError for stream %d", what, se.StreamID)
		}
		if se.Remote {
			if !m.reset {
				return vf.Bad("C03/stream/unexpected-error", "%s returned %v but no RESET_STREAM was accepted", what, err)
			}
			if end < m.rel && !m.cancelled {
				return vf.Bad("C03/stream/reset-before-reliable-size", "%s returned the reset error at stream offset %d, before the reliable size %d was delivered", what, end, m.rel)
			}
			if uint64(se.ErrorCode) != m.resetCode {
				return vf.Bad("C03/stream/unexpected-error", "%s: reset error code %d, the first RESET_STREAM carried %d", what, se.ErrorCode, m.resetCode)
			}
			if pc.peek {
				m.st.peekReset = true
			} else {
				m.st.resetErrRead = true
			}
		} else {
			if !m.cancelLocal || uint64(se.ErrorCode) != m.cancelCode {
				return vf.Bad("C03/stream/unexpected-error", "%s returned %v; CancelRead called=%v code=%d", what, err, m.cancelled, m.cancelCode)
			}
		}
	case err == errShutdown:
		if !m.shutdown {
			return vf.Bad("C03/stream/unexpected-error", "%s returned the shutdown error before closeForShutdown", what)
		}
	case errors.Is(err, os.ErrDeadlineExceeded):
		if !m.dlExpired {
			return vf.Bad("C03/stream/unexpected-error", "%s returned a deadline error but no deadline is set", what)
		}
		m.st.deadline = true
	default:
		return vf.Bad("C03/stream/unexpected-error", "%s returned %v", what, err)
	}
	if !pc.peek {
		if k > 0 {
			if m.reset && m.rpos < m.rel {
				m.st.relData = true
			}
			if m.st.lastWasFrame && m.st.frames > 1 {
				m.st.readBetween = true
			}
			m.st.lastWasFrame = false
		}
		m.rpos = end
	}
	return nil
}

// settle lets the bubble run until every goroutine is blocked, then resolves or re-validates the pending call.
func (m *streamMachine) settle() *vf.Verdict {
	synctest.Wait()
	if pc := m.pending; pc != nil {
		if isDone(pc) {
			m.pending = nil
			m.st.woken = true
			if v := m.judge(pc); v != nil {
				return v
			}
		} else {
			may := m.mayBlockRead()
			if pc.peek {
				may = m.mayBlockPeek(pc.n)
			}
			if !may {
				if v := m.stuck(pc); v != nil {
					return v
				}
			}
		}
	}
	m.drainPool()
	if m.viol != nil {
		return m.viol
	}
	if c := m.completed.Load(); c > 1 {
		return vf.Bad("C03/stream/completed-twice", "onStreamCompleted was called %d times", c)
	}
	return nil
}

// Wake-up gaps outside the property's statement (liveness, see NOTES.md). Both sit on early-return paths
// that RESET_STREAM_AT support added without a signalRead. They are counted, the reader is nudged and
// the search continues; VERIF_C03_LIVENESS=1 (or listing the signature as a known finding) raises them.
const (
	// a RESET_STREAM_AT that only lowers the reliable size of an already reset stream does not wake a blocked reader
	sigReduceNoWake = "C03/stream/reliable-size-reduced-no-wakeup"
	// CancelRead after a RESET_STREAM_AT whose reliable data is still missing does not wake a blocked reader
	sigCancelNoWake = "C03/stream/cancelread-after-reset-at-no-wakeup"
)

// stuck: the pending call is still blocked although the model says it has to return.
func (m *streamMachine) stuck(pc *pendingCall) *vf.Verdict {
	what := "Read"
	if pc.peek {
		what = "Peek"
	}
	a := m.avail()
	noData := !m.shutdown && !m.dlExpired && !(m.finKnown && m.rpos+a == m.final) && (a == 0 || (pc.peek && a < pc.n))
	gap := ""
	switch {
	case noData && m.lastOp.K == "reset" && m.reset && !m.cancelled && m.resetsAccepted > 1:
		gap = sigReduceNoWake
		m.st.reduceNoWake = true
	case noData && m.lastOp.K == "cancel" && m.reset && m.cancelled && !m.cancelLocal:
		gap = sigCancelNoWake
		m.st.cancelNoWake = true
	}
	if gap != "" {
		if strictLiveness(gap) {
			return vf.Bad(gap, "%s(%d) blocked at read position %d (reliable size %d, %d contiguous bytes received) is not woken by %+v", what, pc.n, m.rpos, m.rel, a, m.lastOp)
		}
		_ = m.str.SetReadDeadline(time.Time{}) // signals the reader without changing the (absent) deadline
		synctest.Wait()
		if isDone(pc) {
			m.pending = nil
			return m.judge(pc)
		}
	}
	return vf.Bad("C03/stream/blocked-with-data", "%s(%d) is blocked at read position %d although it has to return: %d contiguous bytes received, FIN=%v final=%d, reset=%v reliable=%d, cancelled=%v shutdown=%v deadline-expired=%v (last op %+v)",
		what, pc.n, m.rpos, a, m.finKnown, m.final, m.reset, m.rel, m.cancelled, m.shutdown, m.dlExpired, m.lastOp)
}

func strictLiveness(sig string) bool {
	return os.Getenv("VERIF_C03_LIVENESS") == "1" || vf.IsKnown(sig)
}

var expired = time.Unix(1, 0)

func (m *streamMachine) call(op StOp) *vf.Verdict {
	peek := op.K == "peek"
	n := clamp(op.N, 0, 1<<16)
	if peek && n == 0 {
		k, err := m.str.Peek(nil)
		if k != 0 || err != nil {
			return vf.Bad("C03/stream/unexpected-error", "Peek of zero bytes returned (%d, %v)", k, err)
		}
		return nil
	}
	if n == 0 {
		n = 1
	}
	pre := false
	if op.Pre && !m.dlExpired {
		may := m.mayBlockRead()
		if peek {
			may = m.mayBlockPeek(n)
		}
		if may {
			pre = true
			m.st.preDeadline = true
			_ = m.str.SetReadDeadline(expired)
			m.dlExpired = true
		}
	}
	m.start(peek, n)
	synctest.Wait()
	pc := m.pending
	if isDone(pc) {
		m.pending = nil
		if v := m.judge(pc); v != nil {
			return v
		}
	} else {
		m.st.blocked = true
		may := m.mayBlockRead()
		if peek {
			may = m.mayBlockPeek(n)
		}
		if !may {
			return vf.Bad("C03/stream/blocked-with-data", "%s(%d) blocks at read position %d although it has to return: %d contiguous bytes received, FIN=%v final=%d, reset=%v reliable=%d, cancelled=%v shutdown=%v deadline-expired=%v",
				op.K, n, m.rpos, m.avail(), m.finKnown, m.final, m.reset, m.rel, m.cancelled, m.shutdown, m.dlExpired)
		}
	}
	if pre {
		_ = m.str.SetReadDeadline(time.Time{})
		m.dlExpired = false
	}
	return nil
}

func (m *streamMachine) flush() {
	m.ctrl.Store(0)
	for i := 0; i < 4; i++ {
		f, ok, _ := m.str.VerifGetControlFrame(m.t())
		if !ok {
			break
		}
		if msd, isMSD := f.Frame.(*wire.MaxStreamDataFrame); isMSD && int(msd.MaximumStreamData) > m.streamLimit {
			m.streamLimit = int(msd.MaximumStreamData)
			m.st.windowUpdate = true
		}
	}
	if off := m.cfc.GetWindowUpdate(m.t()); int(off) > m.connLimit {
		m.connLimit = int(off)
		m.st.windowUpdate = true
	}
}

func (m *streamMachine) Apply(op StOp) *vf.Verdict {
	m.now += op.Dt * 1000
	m.sigv = append(m.sigv, op.K[0], byte(op.Off), byte(op.Off>>8), byte(op.Len), byte(op.Len>>8), byte(op.N), byte(op.Rel), byte(op.Final))
	m.lastOp = op
	if op.Cl != "" && !m.dead {
		if m.ops == nil {
			m.ops = map[string]bool{}
		}
		m.ops[op.Cl] = true
	}
	switch op.K {
	case "frame":
		if m.dead {
			return nil
		}
		if v := m.frame(op); v != nil {
			return v
		}
	case "reset":
		if m.dead {
			return nil
		}
		if v := m.resetFrame(op); v != nil {
			return v
		}
	case "read", "peek":
		if m.pending != nil {
			return nil // Read and Peek must not be used concurrently
		}
		if v := m.call(op); v != nil {
			return v
		}
	case "cancel":
		m.str.CancelRead(quic.StreamErrorCode(op.Code))
		// No-op after closeForShutdown or a previous CancelRead. Otherwise "future Read calls will fail":
		// with the local error, unless the stream had already ended (io.EOF or reset error read) or a
		// RESET_STREAM had been received - then the error stays what it was.
		if !m.cancelled && !m.shutdown {
			m.cancelled = true
			m.st.cancel = true
			if !(m.st.eof || m.st.resetErrRead || m.reset) {
				m.cancelLocal, m.cancelCode = true, op.Code
			}
		}
	case "shutdown":
		m.str.VerifCloseForShutdown(errShutdown)
		m.shutdown, m.dead = true, true
		m.st.shutdown = true
	case "timeout":
		_ = m.str.SetReadDeadline(expired)
		m.dlExpired = true
	case "cleardl":
		_ = m.str.SetReadDeadline(time.Time{})
		m.dlExpired = false
	case "flush":
		m.flush()
	case "burst":
		base := m.highest
		for i := 0; i < clamp(op.N, 0, 1100) && !m.dead; i++ {
			off := base + 1 + 2*i
			if off+1 > len(m.d) {
				break
			}
			m.st.bursted = true
			if v := m.frame(StOp{K: "frame", Off: off, Len: 1}); v != nil {
				return v
			}
		}
	}
	return m.settle()
}

// finish resolves a pending call and then reads whatever is readable.
func (m *streamMachine) finish() *vf.Verdict {
	if m.pending != nil {
		if v := m.Apply(StOp{K: "timeout"}); v != nil {
			return v
		}
		if m.pending != nil {
			return vf.Bad("C03/stream/blocked-with-data", "a blocked call did not return after the read deadline expired")
		}
	}
	if v := m.Apply(StOp{K: "cleardl"}); v != nil {
		return v
	}
	for i := 0; i < 1000; i++ {
		before := m.rpos
		if v := m.Apply(StOp{K: "read", N: 1500}); v != nil {
			return v
		}
		if m.pending != nil {
			if v := m.Apply(StOp{K: "timeout"}); v != nil {
				return v
			}
			break
		}
		if m.rpos == before {
			break
		}
	}
	return nil
}

// cleanup makes sure no goroutine stays behind in the bubble.
func (m *streamMachine) cleanup(u *vf.Unit, c any) {
	if m == nil || m.pending == nil {
		return
	}
	_ = m.str.SetReadDeadline(expired)
	synctest.Wait()
	if !isDone(m.pending) {
		m.str.VerifCloseForShutdown(errShutdown)
		synctest.Wait()
	}
	if !isDone(m.pending) {
		u.Journal(c) // the bubble cannot end: synctest will report a deadlock and the process dies
	}
}

// ---- generator ----

func (m *streamMachine) cutAtOrBelow(x int) int {
	i := sort.SearchInts(m.cuts, x+1) - 1
	return clamp(i, 0, len(m.cuts)-1)
}

func (m *streamMachine) Gen(t *rapid.T) StOp {
	nc := len(m.cuts) - 1
	dt := rapid.SampledFrom([]int64{0, 0, 1, 200, 5000, 40000}).Draw(t, "dt")
	limit := min(m.streamLimit, m.connLimit)
	frontier := m.rpos + m.avail()
	tf := m.trueFinal()
	room := min(limit, tf) // consistent data ends at or below this

	weights := []struct {
		k string
		w int
	}{{"next", 8}, {"lattice", 7}, {"dup", 3}, {"straddle", 4}, {"fin", 3}, {"ahead", 4}, {"hostile", 1}, {"reset", 2}, {"burst", 1},
		{"read", 10}, {"peek", 5}, {"cancel", 1}, {"shutdown", 1}, {"timeout", 1}, {"flush", 4}}
	if m.dead {
		weights = weights[:0]
		for _, k := range []string{"read", "read", "peek", "cancel", "shutdown", "timeout", "cleardl"} {
			weights = append(weights, struct {
				k string
				w int
			}{k, 1})
		}
	}
	var kinds []string
	for _, w := range weights {
		if w.k == "burst" && m.p.Tail > 0 {
			w.w = 6
		}
		if m.pending != nil && (w.k == "read" || w.k == "peek" || w.k == "cleardl") {
			continue
		}
		for i := 0; i < w.w; i++ {
			kinds = append(kinds, w.k)
		}
	}
	if m.dlExpired && m.pending == nil && rapid.Bool().Draw(t, "clear") {
		return StOp{K: "cleardl", Dt: dt}
	}
	k := rapid.SampledFrom(kinds).Draw(t, "kind")
	consistent := func(off, end int, cl string) StOp {
		if cl != "next" && rapid.IntRange(0, 3).Draw(t, "jitter") == 0 { // boundaries next to the lattice points
			off = max(0, off+rapid.IntRange(-1, 1).Draw(t, "j1"))
			end = max(off, end+rapid.IntRange(-1, 1).Draw(t, "j2"))
		}
		end = min(end, room, off+maxFrameData)
		if end < off || off > room {
			return StOp{K: "flush", Dt: dt, Cl: "noroom"}
		}
		fin := end == tf && rapid.IntRange(0, 2).Draw(t, "fin") != 0
		return StOp{K: "frame", Off: off, Len: end - off, Fin: fin, Dt: dt, Cl: cl}
	}
	switch k {
	case "next": // the in-order continuation, not necessarily on the lattice at its start
		a := m.cutAtOrBelow(frontier)
		b := rapid.IntRange(min(a+1, nc), min(a+3, nc)).Draw(t, "b")
		return consistent(frontier, m.cuts[b], "next")
	case "lattice":
		a := rapid.IntRange(0, nc-1).Draw(t, "a")
		b := rapid.IntRange(a+1, min(a+4, nc)).Draw(t, "b")
		return consistent(m.cuts[a], m.cuts[b], "lattice")
	case "ahead": // starts beyond everything contiguous: leaves a gap
		a := min(m.cutAtOrBelow(frontier)+rapid.IntRange(1, 3).Draw(t, "skip"), nc)
		b := min(a+rapid.IntRange(1, 3).Draw(t, "b"), nc)
		return consistent(m.cuts[a], m.cuts[b], "ahead")
	case "dup":
		if len(m.sent) == 0 {
			return StOp{K: "flush", Dt: dt}
		}
		s := m.sent[rapid.IntRange(0, len(m.sent)-1).Draw(t, "which")]
		return StOp{K: "frame", Off: s.off, Len: s.n, Fin: s.fin, Dt: dt, Cl: "dup"}
	case "straddle": // starts in delivered or received data, ends in missing data
		a := m.cutAtOrBelow(rapid.IntRange(0, frontier).Draw(t, "from"))
		b := m.cutAtOrBelow(frontier) + rapid.IntRange(1, 3).Draw(t, "over")
		return consistent(m.cuts[a], m.cuts[min(b, nc)], "straddle")
	case "fin":
		off := m.cuts[m.cutAtOrBelow(rapid.IntRange(max(0, tf-1500), tf).Draw(t, "from"))]
		if tf > limit {
			return StOp{K: "flush", Dt: dt, Cl: "noroom"}
		}
		off = max(off, tf-maxFrameData)
		if rapid.IntRange(0, 3).Draw(t, "empty") == 0 {
			off = tf
		}
		return StOp{K: "frame", Off: off, Len: tf - off, Fin: true, Dt: dt, Cl: "fin"}
	case "hostile":
		switch rapid.SampledFrom([]string{"window", "window1", "final", "finmoved", "finlow"}).Draw(t, "how") {
		case "window": // beyond the advertised limit
			end := min(limit+rapid.SampledFrom([]int{1, 2, 64, 500}).Draw(t, "by"), len(m.d))
			off := max(0, end-rapid.SampledFrom([]int{1, 100, 200, 1452}).Draw(t, "len"))
			return StOp{K: "frame", Off: off, Len: end - off, Dt: dt, Cl: "beyond-window"}
		case "window1": // exactly at the limit: must be accepted (unless it contradicts the final size)
			end := min(limit, len(m.d))
			off := max(0, end-rapid.SampledFrom([]int{1, 100, 200}).Draw(t, "len"))
			return StOp{K: "frame", Off: off, Len: end - off, Fin: end == tf, Dt: dt, Cl: "at-window"}
		case "final": // data beyond an established final size
			if !m.finalKnown {
				return StOp{K: "flush", Dt: dt}
			}
			end := min(m.final+rapid.SampledFrom([]int{1, 2, 130}).Draw(t, "by"), len(m.d))
			off := max(0, end-rapid.SampledFrom([]int{1, 50, 300}).Draw(t, "len"))
			return StOp{K: "frame", Off: off, Len: end - off, Fin: rapid.Bool().Draw(t, "fin"), Dt: dt, Cl: "beyond-final"}
		case "finmoved": // a second, different final size
			if !m.finalKnown || m.final == 0 {
				return StOp{K: "flush", Dt: dt}
			}
			end := clamp(m.final+rapid.SampledFrom([]int{-130, -1, 1}).Draw(t, "by"), 0, len(m.d))
			off := max(0, end-rapid.SampledFrom([]int{0, 1, 50}).Draw(t, "len"))
			return StOp{K: "frame", Off: off, Len: end - off, Fin: true, Dt: dt, Cl: "fin-moved"}
		default: // a FIN below data already received
			if m.highest == 0 {
				return StOp{K: "flush", Dt: dt}
			}
			end := rapid.IntRange(0, m.highest-1).Draw(t, "end")
			off := max(0, end-rapid.SampledFrom([]int{0, 1, 50}).Draw(t, "len"))
			return StOp{K: "frame", Off: off, Len: end - off, Fin: true, Dt: dt, Cl: "fin-low"}
		}
	case "reset":
		op := StOp{K: "reset", Dt: dt, Code: rapid.Uint64Range(0, 3).Draw(t, "code"), Cl: "reset"}
		// final size: what a sender that stops here would report
		switch {
		case m.finalKnown:
			op.Final = m.final
		default:
			lo := m.highest
			hi := max(lo, min(limit, len(m.d)))
			op.Final = rapid.IntRange(lo, hi).Draw(t, "final")
			if rapid.Bool().Draw(t, "atcut") {
				op.Final = max(lo, m.cuts[m.cutAtOrBelow(op.Final)])
			}
		}
		switch rapid.SampledFrom([]string{"ok", "ok", "ok", "ok", "ok", "ok", "ok", "ok", "ok", "wrong", "low", "window"}).Draw(t, "how") {
		case "wrong":
			op.Final = max(0, op.Final+rapid.SampledFrom([]int{-1, 1}).Draw(t, "by"))
			op.Cl = "reset-final-moved"
		case "low":
			op.Final = max(0, m.highest-rapid.IntRange(1, 3).Draw(t, "by"))
			op.Cl = "reset-final-low"
		case "window":
			if !m.finalKnown {
				op.Final = limit + rapid.IntRange(1, 3).Draw(t, "by")
				op.Cl = "reset-beyond-window"
			}
		}
		// reliable size: 0 (plain RESET_STREAM), or around the read position / received data / anywhere
		switch rapid.SampledFrom([]string{"zero", "zero", "rpos", "frontier", "any", "any", "final", "reduce"}).Draw(t, "rel") {
		case "rpos":
			op.Rel = m.rpos + rapid.IntRange(-1, 2).Draw(t, "d")
		case "frontier":
			op.Rel = frontier + rapid.IntRange(-1, 2).Draw(t, "d")
		case "any":
			op.Rel = rapid.IntRange(0, max(op.Final, 0)).Draw(t, "r")
		case "final":
			op.Rel = op.Final
		case "reduce":
			if m.reset && m.rel > 0 {
				op.Rel = rapid.IntRange(0, m.rel-1).Draw(t, "r")
			}
		}
		op.Rel = clamp(op.Rel, 0, max(op.Final, 0))
		return op
	case "read", "peek":
		a := m.avail()
		n := rapid.SampledFrom([]int{1, 1, 2, 63, 127, 128, 129, 300, a - 1, a, a, a + 1, 2 * a, a / 2, 1500, 5000}).Draw(t, "n")
		return StOp{K: k, N: max(n, 1), Pre: rapid.IntRange(0, 2).Draw(t, "pre") == 0, Dt: dt}
	case "cancel":
		if !m.dead && rapid.IntRange(0, 1).Draw(t, "really") != 0 {
			return StOp{K: "flush", Dt: dt}
		}
		return StOp{K: "cancel", Code: rapid.Uint64Range(0, 3).Draw(t, "code"), Dt: dt}
	case "shutdown":
		if !m.dead && rapid.IntRange(0, 2).Draw(t, "really") != 0 {
			return StOp{K: "flush", Dt: dt}
		}
		return StOp{K: "shutdown", Dt: dt}
	case "burst": // isolated one-byte frames beyond everything received so far, towards the sorter's gap limit
		if m.p.Tail == 0 || m.finalKnown || m.st.bursted || rapid.IntRange(0, 1).Draw(t, "really") != 0 {
			return StOp{K: "flush", Dt: dt}
		}
		return StOp{K: "burst", N: rapid.SampledFrom([]int{5, 300, 990, 1000, 1010}).Draw(t, "cnt"), Dt: dt, Cl: "burst"}
	case "timeout":
		return StOp{K: "timeout", Dt: dt}
	case "cleardl":
		return StOp{K: "cleardl", Dt: dt}
	}
	return StOp{K: "flush", Dt: dt}
}

func genStParams(t *rapid.T) StParams {
	maxCells := 12
	sizes := cellSizes
	if vf.Thorough() {
		maxCells = 40
		sizes = append(append([]int{}, cellSizes...), 700, 1452, 1453, 3000)
	}
	p := StParams{Seed: rapid.Uint32().Draw(t, "seed"), StreamID: rapid.SampledFrom([]int64{3, 2, 1, 42}).Draw(t, "id")}
	if rapid.IntRange(0, 2).Draw(t, "uniform") == 0 {
		c := rapid.SampledFrom(sizes).Draw(t, "cell")
		n := rapid.IntRange(2, maxCells).Draw(t, "cells")
		for i := 0; i < n; i++ {
			p.Sizes = append(p.Sizes, c)
		}
	} else {
		p.Sizes = rapid.SliceOfN(rapid.SampledFrom(sizes), 2, maxCells).Draw(t, "sizes")
	}
	total := 0
	for _, s := range p.Sizes {
		total += s
	}
	p.Final = len(p.Sizes)
	if rapid.IntRange(0, 3).Draw(t, "earlyfinal") == 0 {
		p.Final = rapid.IntRange(0, len(p.Sizes)).Draw(t, "final")
	}
	// windows: smaller than the stream (updates needed), about its size, or ample
	win := func(label string) int {
		switch rapid.IntRange(0, 3).Draw(t, label) {
		case 0:
			return max(1, total/4)
		case 1:
			return max(1, total/2+rapid.IntRange(-2, 2).Draw(t, label+"d"))
		case 2:
			return total + rapid.IntRange(-1, 1).Draw(t, label+"d")
		default:
			return total + 4096
		}
	}
	p.StreamWin = max(1, win("swin"))
	p.ConnWin = max(1, win("cwin"))
	p.MaxStreamWin = p.StreamWin * rapid.SampledFrom([]int{1, 2, 8}).Draw(t, "smax")
	p.MaxConnWin = p.ConnWin * rapid.SampledFrom([]int{1, 2, 8}).Draw(t, "cmax")
	if rapid.IntRange(0, 9).Draw(t, "tail") == 0 {
		p.Tail = 2100
		p.StreamWin = total + p.Tail + 4096
		p.ConnWin = total + p.Tail + 4096
		p.MaxStreamWin, p.MaxConnWin = 2*p.StreamWin, 2*p.ConnWin
	}
	p.RTTms = rapid.SampledFrom([]int{0, 0, 1, 50}).Draw(t, "rtt")
	p.AllowInc = rapid.Bool().Draw(t, "inc")
	return p
}

// ---- runner ----

type streamCase = vf.MachineCase[StParams, StOp]

// runStream executes one history inside a fresh bubble. next supplies the operations (it may draw from
// rapid, whose control-flow panics are carried out of the bubble and re-raised on the caller's goroutine).
func runStream(t *testing.T, u *vf.Unit, p StParams, next func(m *streamMachine, i int) (StOp, bool)) (v *vf.Verdict, c streamCase, m *streamMachine) {
	c.Params = p
	var carried any
	synctest.Test(t, func(*testing.T) {
		defer func() {
			if r := recover(); r != nil {
				carried = r
			}
			m.cleanup(u, c)
		}()
		v = vf.Guard("stream-model", func() *vf.Verdict { m = newStreamMachine(p); return nil })
		for i := 0; v == nil; i++ {
			op, ok := next(m, i)
			if !ok {
				break
			}
			c.Ops = append(c.Ops, op)
			v = vf.Guard("stream-model", func() *vf.Verdict { return m.Apply(op) })
		}
		if v == nil {
			v = vf.Guard("stream-model", m.finish)
		}
	})
	if carried != nil {
		panic(carried)
	}
	return v, c, m
}

func (m *streamMachine) bookkeeping(u *vf.Unit) {
	s := &m.st
	for _, c := range []struct {
		n string
		b bool
	}{{"overlap", s.overlap}, {"dup", s.dup}, {"out-of-order", s.ooo}, {"read-between-frames", s.readBetween},
		{"final-size-error", s.finalSizeErr}, {"flow-control-error", s.flowErr}, {"eof", s.eof}, {"reset", s.resetSeen},
		{"reset-at", s.resetAt}, {"reset-reliable-reduced", s.resetReduced}, {"reset-error-read", s.resetErrRead},
		{"reset-after-reliable-data", s.relData}, {"cancel-read", s.cancel}, {"shutdown", s.shutdown}, {"deadline", s.deadline},
		{"pre-expired-deadline", s.preDeadline}, {"blocked", s.blocked}, {"woken", s.woken}, {"peek-ok", s.peekOK}, {"peek-eof", s.peekEOF},
		{"peek-reset", s.peekReset}, {"pooled-frame", s.pooled}, {"buffer-recycled", s.recycled}, {"window-update", s.windowUpdate},
		{"frame-after-completion", s.afterComplete}, {"gap-limit", s.gapErr}, {"fin-empty", s.finEmpty}, {"completed", m.completed.Load() == 1},
		{"finding:reliable-size-reduced-no-wakeup", s.reduceNoWake}, {"finding:cancelread-after-reset-at-no-wakeup", s.cancelNoWake}} {
		if c.b {
			u.Class(c.n)
		}
	}
	for cl := range m.ops {
		u.Class("op:" + cl)
	}
	if s.reduceNoWake {
		u.Excluded(sigReduceNoWake)
	}
	if s.cancelNoWake {
		u.Excluded(sigCancelNoWake)
	}
	if (s.overlap || s.dup || s.ooo) && s.readBetween {
		u.NonTrivial(m.p.Sizes, m.p.StreamWin, m.p.ConnWin, m.sigv)
	}
}

func TestStreamModel(t *testing.T) {
	const unit = "stream-model"
	u := vf.U(unit)
	if vf.ReplayMode() {
		raw, ok := vf.ReplayCase(t, unit)
		if !ok {
			t.Skip("replay file is for another unit")
		}
		var c streamCase
		if err := json.Unmarshal(raw, &c); err != nil {
			t.Fatalf("bad replay case: %v", err)
		}
		u.Case()
		v, _, _ := runStream(t, u, c.Params, func(_ *streamMachine, i int) (StOp, bool) {
			if i >= len(c.Ops) {
				return StOp{}, false
			}
			return c.Ops[i], true
		})
		if v != nil {
			u.Fail(t, v, c)
		}
		return
	}
	rapid.Check(t, func(rt *rapid.T) {
		p := genStParams(rt)
		n := rapid.IntRange(1, 60).Draw(rt, "nops")
		u.Case()
		v, c, m := runStream(t, u, p, func(m *streamMachine, i int) (StOp, bool) {
			if i >= n {
				return StOp{}, false
			}
			return m.Gen(rt), true
		})
		if v != nil {
			u.Fail(rt, v, c)
			return
		}
		m.bookkeeping(u)
		if u.WantSample() {
			u.Sample(c)
		}
	})
}
