package c06

import (
	"sort"
	"testing"

	"pgregory.net/rapid"

	"github.com/refraction-networking/uquic/internal/ackhandler"
	"github.com/refraction-networking/uquic/verif/vf"
)

// ---------------------------------------------------------------------------------------------
// generator

// pct is true with probability of roughly p percent. rapid favours small values, so the draw is
// scattered over the range before it is compared.
func pct(t *rapid.T, p int, label string) bool {
	return (rapid.IntRange(0, 99).Draw(t, label)*37+11)%100 < p
}

var sizes = []int{30, 60, 150, 400, 1000, 1200, 1252, 1400}

func (m *machine) genPk(t *rapid.T, l int) Pk {
	pk := Pk{L: l, Sz: rapid.SampledFrom(sizes).Draw(t, "size")}
	if l != lv0 && pct(t, 18, "ackonly") {
		pk.A = int64(rapid.IntRange(1, 30).Draw(t, "la"))
		pk.Sz = min(pk.Sz, 60)
		return pk
	}
	pk.C = rapid.IntRange(0, 3).Draw(t, "ctrl")
	if spaceOf(l) == spA {
		pk.S = rapid.IntRange(0, 2).Draw(t, "stream")
		if pct(t, 12, "nilh") {
			pk.N = rapid.IntRange(1, 2).Draw(t, "nilframes")
			if pct(t, 50, "nilonly") {
				pk.C, pk.S = 0, 0
			}
		}
	}
	if pk.C+pk.S+pk.N == 0 {
		pk.C = 1
	}
	if l != lv0 && pct(t, 50, "withack") {
		pk.A = int64(rapid.IntRange(1, 30).Draw(t, "la"))
	}
	return pk
}

func rangesOf(set map[int64]bool) [][2]int64 {
	keys := make([]int64, 0, len(set))
	for k := range set {
		keys = append(keys, k)
	}
	sort.Slice(keys, func(i, j int) bool { return keys[i] > keys[j] })
	var out [][2]int64
	for _, k := range keys {
		if n := len(out); n > 0 && out[n-1][1]-1 == k {
			out[n-1][1] = k
		} else {
			out = append(out, [2]int64{k, k})
		}
	}
	return out
}

// genAck draws the ranges of an ACK frame for space s: subsets of the packets actually sent (cumulative,
// with gaps, stale, duplicates of earlier frames) and, rarely, the adversarial classes.
func (m *machine) genAck(t *rapid.T, s int) [][2]int64 {
	sp := m.sp[s]
	n := len(sp.order)
	if n == 0 {
		if !pct(t, 1, "ack-nothing-sent") {
			return nil
		}
		// nothing was sent in this space: any ACK acknowledges an unsent packet
		l := sp.lastPop + 1 + int64(rapid.IntRange(0, 3).Draw(t, "beyond"))
		return [][2]int64{{l, max(0, l-int64(rapid.IntRange(0, 2).Draw(t, "len")))}}
	}
	mode := rapid.IntRange(0, 119).Draw(t, "ackmode")
	if mode == 0 && len(sp.prevAcks) > 0 {
		return sp.prevAcks[rapid.IntRange(0, len(sp.prevAcks)-1).Draw(t, "dup")]
	}
	hi := n - 1
	switch {
	case mode <= 20:
		hi = rapid.IntRange(0, n-1).Draw(t, "hi")
	case mode <= 40:
		hi = max(0, n-1-rapid.IntRange(0, 3).Draw(t, "back"))
	}
	w := rapid.IntRange(1, 12).Draw(t, "window")
	lo := max(0, hi-w+1)
	p := rapid.SampledFrom([]int{100, 100, 100, 85, 60, 35}).Draw(t, "density")
	set := map[int64]bool{sp.order[hi]: true}
	for i := lo; i < hi; i++ {
		if p == 100 || pct(t, p, "incl") {
			set[sp.order[i]] = true
		}
	}
	if pct(t, 35, "tail") {
		for i := 0; i < lo; i++ {
			set[sp.order[i]] = true
		}
	}
	switch {
	case mode == 83:
		// adversarial: acknowledge packet numbers beyond the largest one sent
		k := int64(rapid.IntRange(1, 3).Draw(t, "beyond"))
		for x := sp.largestSent + 1; x <= sp.largestSent+k; x++ {
			set[x] = true
		}
		if pct(t, 50, "contiguous") {
			set[sp.largestSent] = true
		}
	case mode >= 71 && mode <= 74 && len(sp.skipped) > 0:
		// adversarial: cover a deliberately skipped packet number (recent or long ago)
		i := len(sp.skipped) - 1 - rapid.IntRange(0, min(len(sp.skipped)-1, 6)).Draw(t, "whichskip")
		x := sp.skipped[i]
		if x <= sp.largestSent {
			set[x] = true
			if pct(t, 70, "bridge") {
				set[x-1], set[x+1] = sp.pk[x-1] != nil, sp.pk[x+1] != nil
				for k, v := range set {
					if !v {
						delete(set, k)
					}
				}
			}
		}
	}
	return rangesOf(set)
}

var dts = []int64{0, 0, 0, 0, 0, 50, 300, 1000, 1000, 3000, 3000, 10000, 30000, 100000, 400000, 1100000, 5000000}

func (m *machine) Gen(t *rapid.T) Op {
	if m.closed {
		return Op{K: "tick"}
	}
	if m.p.MTU && m.confirmed {
		if op, ok := m.genMTU(t); ok {
			return op
		}
	}
	op := Op{Dt: rapid.SampledFrom(dts).Draw(t, "dt"), TM: rapid.SampledFrom([]int{0, 0, 0, 0, 0, 0, 0, 0, 0, 1, 1, 2, 3}).Draw(t, "tm")}
	kinds := []string{"send", "send", "send", "send", "recv", "recv", "recv", "recv", "recv", "tick", "tick"}
	if m.confirmed {
		kinds = append(kinds, "send")
		if !m.p.Server {
			kinds = append(kinds, "mig")
		}
	} else if !m.p.Server && !m.rcvdAny && !m.retried {
		kinds = append(kinds, "retry", "retry")
	}
	pto := m.lastMode == ackhandler.SendPTOInitial || m.lastMode == ackhandler.SendPTOHandshake || m.lastMode == ackhandler.SendPTOAppData
	if pto {
		kinds = append(kinds, "send", "send", "send")
	}
	op.K = rapid.SampledFrom(kinds).Draw(t, "kind")
	switch op.K {
	case "send":
		op.Q = rapid.IntRange(1, 3).Draw(t, "q")
		if m.confirmed {
			switch rapid.IntRange(0, 19).Draw(t, "special") {
			case 0:
				op.X = 1
			case 1:
				op.X = 2
			}
			nb := rapid.SampledFrom([]int{1, 1, 40, 2, 3, 1, 5, 8, 16}).Draw(t, "burst")
			if nb >= 16 {
				// a window-filling burst of full-size packets (drives the handler into SendAck)
				pk := m.genPk(t, lv1)
				if pk.C+pk.S+pk.N == 0 {
					pk.S = 1
				}
				pk.Sz = 1252
				for i := 0; i < nb; i++ {
					op.Pk = append(op.Pk, pk)
				}
				return op
			}
			for i := 0; i < nb; i++ {
				op.Pk = append(op.Pk, m.genPk(t, lv1))
			}
			return op
		}
		app := lv1
		if !m.canSend(lv1) {
			app = lv0
		}
		for _, l := range []int{lvI, lvH, app} {
			if m.canSend(l) && pct(t, 65, "level") {
				op.Pk = append(op.Pk, m.genPk(t, l))
			}
		}
		if len(op.Pk) == 0 {
			for _, l := range []int{app, lvH, lvI} {
				if m.canSend(l) {
					op.Pk = append(op.Pk, m.genPk(t, l))
					break
				}
			}
		}
	case "recv":
		var lv []int
		for _, l := range []int{lvI, lvH, lvH, lv0, lv1, lv1, lv1} {
			if m.canRecv(l) {
				lv = append(lv, l)
			}
		}
		if len(lv) == 0 {
			op.K = "tick"
			return op
		}
		op.L = rapid.SampledFrom(lv).Draw(t, "level")
		op.Sz = rapid.SampledFrom([]int{0, 40, 100, 300, 1200, 1200}).Draw(t, "dgram")
		op.Lag = rapid.SampledFrom([]int64{0, 0, 0, 0, 0, 100, 2000, 20000}).Draw(t, "lag")
		if op.L != lv0 && pct(t, 75, "hasack") {
			op.Ack = m.genAck(t, spaceOf(op.L))
			op.AD = rapid.SampledFrom([]int64{0, 0, 100, 1000, 8000, 25000, 100000}).Draw(t, "ackdelay")
		}
		op.EF = rapid.Bool().Draw(t, "evfirst")
		switch {
		case op.L == lvI:
			if !m.hsKeys && pct(t, 55, "hskeys") {
				op.Ev |= evHSKeys
			}
			if m.zeroRTT && pct(t, 15, "hrr") {
				op.Ev |= evReject
			}
		case op.L == lvH:
			if !m.complete && pct(t, 45, "complete") {
				op.Ev |= evComplete
			}
			if m.zeroRTT && pct(t, 40, "reject") {
				op.Ev |= evReject
			}
		case op.L == lv1 && !m.p.Server:
			if !m.confirmed && pct(t, 45, "done") {
				op.Ev |= evDone
			}
		case op.L == lv1 && m.p.Server:
			switch rapid.IntRange(0, 11).Draw(t, "path") {
			case 0, 1:
				op.PP = 1
			case 2:
				op.PP = 2
			case 3:
				op.Mig = true
			case 4:
				op.PP, op.Mig = 1, true
			}
		}
	}
	return op
}

// genMTU is the generator bias of Params.MTU: a path-MTU probe that the network drops (it is never
// acknowledged) while the connection exchanges one packet at a time - each regular packet is acknowledged
// before the next one is sent, so that no regular packet is outstanding when an ACK is processed - with
// clock steps around the probe's time threshold. ok=false: draw an ordinary operation.
func (m *machine) genMTU(t *rapid.T) (Op, bool) {
	p := m.mtuInFlight
	if p == nil {
		if m.mtuSize >= 1452 || m.lastMode != ackhandler.SendAny || !pct(t, 55, "mtu-start") {
			return Op{}, false
		}
		return Op{K: "send", X: 1, Q: 1, Dt: rapid.SampledFrom([]int64{0, 50, 1000, 30000}).Draw(t, "dt")}, true
	}
	if !pct(t, 80, "mtu-pingpong") {
		return Op{}, false
	}
	sp := m.sp[spA]
	set := map[int64]bool{}
	for _, pn := range sp.order {
		if q := sp.pk[pn]; q != nil && pn > p.pn && q.outstandingData() {
			set[pn] = true
		}
	}
	if len(set) == 0 {
		if m.lastMode != ackhandler.SendAny {
			return Op{}, false
		}
		// one regular ack-eliciting packet
		pk := Pk{L: lv1, Sz: rapid.SampledFrom([]int{60, 400, 1200}).Draw(t, "size")}
		if rapid.Bool().Draw(t, "stream") {
			pk.S = 1
		} else {
			pk.C = 1
		}
		return Op{K: "send", Q: 1, Pk: []Pk{pk}, Dt: rapid.SampledFrom([]int64{0, 0, 50, 1000, 3000, 10000}).Draw(t, "dt")}, true
	}
	// the peer acknowledges what was sent after the probe (not the probe)
	op := Op{K: "recv", L: lv1, Sz: rapid.SampledFrom([]int{40, 100, 1200}).Draw(t, "dgram"), EF: rapid.Bool().Draw(t, "evfirst")}
	if len(set) > 1 && pct(t, 20, "only-largest") {
		hi := int64(-1)
		for pn := range set {
			hi = max(hi, pn)
		}
		set = map[int64]bool{hi: true}
	}
	op.Ack = rangesOf(set)
	op.AD = rapid.SampledFrom([]int64{0, 0, 100, 1000, 25000}).Draw(t, "ackdelay")
	switch rapid.IntRange(0, 9).Draw(t, "mtu-clock") {
	case 0, 1, 2: // a quick round trip (several of them reach the packet threshold before the time threshold)
		op.Dt = rapid.SampledFrom([]int64{50, 300, 1000, 3000}).Draw(t, "dt")
	case 3, 4: // about one RTT
		op.Dt = rapid.SampledFrom([]int64{10000, 18000, 20000, 22000, 30000}).Draw(t, "dt")
	case 5, 6: // just before the probe's time threshold
		op.TM, op.Dt = 4, rapid.SampledFrom([]int64{1, 1, 50, 1000, 5000}).Draw(t, "dt")
	case 7, 8: // at / just past it
		op.TM, op.Dt = 5, rapid.SampledFrom([]int64{0, 0, 1, 50, 1000}).Draw(t, "dt")
	default: // long after
		op.Dt = rapid.SampledFrom([]int64{100000, 400000, 1100000}).Draw(t, "dt")
	}
	return op, true
}

// ---------------------------------------------------------------------------------------------
// end of history

func (m *machine) Finish(u *vf.Unit) *vf.Verdict {
	// bookkeeping first: the drain below is not part of the drawn history
	for c := range m.cls {
		u.Class(c)
	}
	spaces := 0
	for _, b := range m.sentIn {
		if b {
			spaces++
		}
	}
	if spaces >= 2 {
		u.Class("spaces>=2")
	}
	if m.closed {
		u.Class("closed-by-violation")
	}
	if m.loneNoTimer > 0 {
		u.KnownHit(sigLoneProbeTimer) // counted when the finding is registered as open in known_findings.json
	}
	if m.nLoss >= 1 && m.nGapAck >= 1 && spaces >= 2 {
		u.NonTrivial(m.sig)
	}
	if m.closed {
		return m.census(nil)
	}
	// Drain: the peer acknowledges everything that was sent in every space it can still acknowledge.
	// A frame the handler lost track of (removed without callback) shows up as "accepted ACK covers the
	// packet, no OnAcked".
	if m.p.Drain == 1 {
		// the peer falls silent: every deadline is waited for, and whatever the send mode then asks for is done
		for round := 0; round < 14 && !m.closed; round++ {
			if m.h.GetLossDetectionTimeout().IsZero() {
				break
			}
			if v := m.Apply(Op{K: "send", TM: 1, Q: 1 + round%3}); v != nil {
				return v
			}
		}
	}
	m.now += 1_000_000
	drained := map[int]bool{}
	for s, lvl := range []int{lvI, lvH, lv1} {
		sp := m.sp[s]
		if !m.canRecv(lvl) || len(sp.order) == 0 {
			continue
		}
		set := map[int64]bool{}
		for _, pn := range sp.order {
			set[pn] = true
		}
		if v := m.recvAck(lvl, rangesOf(set), 0, m.now); v != nil {
			return v
		}
		if m.closed {
			return vf.Bad("C06/ack/rejected-valid", "final cumulative ACK for %s was rejected", spName[s])
		}
		drained[s] = true
	}
	return m.census(drained)
}

func (m *machine) census(drained map[int]bool) *vf.Verdict {
	for _, f := range m.frames {
		n := f.acked + f.lost
		if n > 1 {
			return vf.Bad("C06/callback/twice", "frame %d of %v reported %d times", f.id, f.pkt, n)
		}
		p := f.pkt
		if n == 0 && f.h != nil && drained[p.sp] && !p.path && p.st != stDropped && m.sp[p.sp].pk[p.pn] == p {
			return vf.Bad("C06/frame/unresolved", "frame %d of %v was never reported although everything sent in its space was acknowledged", f.id, p)
		}
		if n == 1 && p.st == stOut {
			return vf.Bad("C06/frame/unresolved", "model inconsistency: frame %d reported but %v still outstanding", f.id, p)
		}
	}
	if drained != nil && len(drained) > 0 {
		all := true
		for s := range m.sp {
			if !drained[s] && !m.sp[s].dropped && len(m.sp[s].order) > 0 {
				all = false
			}
		}
		if all && m.hook() != 0 {
			return vf.Bad("C06/ledger/bytes-in-flight", "everything sent was acknowledged or discarded, but the handler still counts %d bytes in flight", m.hook())
		}
	}
	return nil
}

// ---------------------------------------------------------------------------------------------
// units

func genParams(server bool) func(t *rapid.T) Params {
	return func(t *rapid.T) Params {
		p := Params{Server: server}
		p.Qlog = rapid.IntRange(0, 4).Draw(t, "qlog") != 0
		p.Fast = rapid.IntRange(0, 2).Draw(t, "fast") == 0
		p.Drain = rapid.SampledFrom([]int{0, 0, 1}).Draw(t, "drain")
		if rapid.IntRange(0, 4).Draw(t, "mtu-scenario") == 2 {
			p.MTU, p.Fast = true, true
		}
		p.MaxAckMs = rapid.SampledFrom([]int{0, 0, 5, 25, 100}).Draw(t, "mad")
		ng := rapid.IntRange(1, 4).Draw(t, "ngaps")
		for i := 0; i < ng; i++ {
			p.Gaps = append(p.Gaps, rapid.SampledFrom([]int{0, 0, 1, 2, 4, 9, 30, 400}).Draw(t, "gap"))
		}
		if server {
			p.Validated = rapid.IntRange(0, 3).Draw(t, "validated") == 0
			p.InitRTTms = rapid.SampledFrom([]int{0, 0, 10, 80}).Draw(t, "irtt")
			p.FirstSize = rapid.SampledFrom([]int{1200, 1200, 1252, 1400}).Draw(t, "first")
			return p
		}
		p.InitPN = rapid.SampledFrom([]int64{0, 0, 1, 7, 1 << 14, 1 << 30}).Draw(t, "ipn")
		p.ZeroRTT = rapid.IntRange(0, 2).Draw(t, "0rtt") == 0
		p.U = rapid.Bool().Draw(t, "u")
		if p.U {
			switch rapid.IntRange(0, 2).Draw(t, "pnl") {
			case 1:
				p.PNLens = []int{rapid.IntRange(1, 4).Draw(t, "len")}
			case 2:
				p.PNLens = []int{rapid.IntRange(1, 4).Draw(t, "len"), rapid.IntRange(1, 4).Draw(t, "len")}
			}
		}
		return p
	}
}

const maxOps = 70

func TestSPHClient(t *testing.T) {
	vf.RunMachine(t, "sph-client", maxOps, genParams(false), newMachine)
}

func TestSPHServer(t *testing.T) {
	vf.RunMachine(t, "sph-server", maxOps, genParams(true), newMachine)
}
