// C06: loss recovery resolves every sent frame exactly once and keeps accounts balanced.
//
// Engine: model-based state machine over ackhandler.NewSentPacketHandler (client and server
// perspective, plus the uQUIC client variant built by ackhandler.NewUAckHandler) with a virtual
// monotime clock. The machine plays the part of connection.go / packet_packer.go: every call it
// makes is one the real connection makes in the corresponding state (see NOTES.md for the list of
// preconditions and where they come from). A reference model keeps
//
//   - a status ledger per frame (outstanding -> acked | lost | space discarded), fed by recording
//     FrameHandlers, one handler object per frame;
//   - a bytes-in-flight ledger (sum of the sizes of ack-eliciting, non-path-probe packets that are
//     neither acknowledged, declared lost nor discarded), compared with the read-only hook after
//     every single call into the handler;
//   - the set of sent / skipped packet numbers per space (for the adversarial ACK oracle);
//   - the handshake phase (keys available, address validated, confirmed) for the deadline oracle.
package c06

import (
	"errors"
	"fmt"
	"sort"
	"testing"
	"time"

	"github.com/refraction-networking/uquic/internal/ackhandler"
	"github.com/refraction-networking/uquic/internal/monotime"
	"github.com/refraction-networking/uquic/internal/protocol"
	"github.com/refraction-networking/uquic/internal/qerr"
	"github.com/refraction-networking/uquic/internal/utils"
	"github.com/refraction-networking/uquic/internal/wire"
	"github.com/refraction-networking/uquic/qlog"
	"github.com/refraction-networking/uquic/qlogwriter"
	"github.com/refraction-networking/uquic/verif/vf"
)

func TestMain(m *testing.M) { vf.Main(m) }

// packet number spaces and encryption levels
const (
	spI, spH, spA = 0, 1, 2

	lvI, lvH, lv0, lv1 = 0, 1, 2, 3
)

var encLevels = []protocol.EncryptionLevel{protocol.EncryptionInitial, protocol.EncryptionHandshake, protocol.Encryption0RTT, protocol.Encryption1RTT}
var lvlName = []string{"Initial", "Handshake", "0-RTT", "1-RTT"}
var spName = []string{"Initial", "Handshake", "AppData"}

func spaceOf(l int) int {
	if l >= lv0 {
		return spA
	}
	return l
}

// packet status in the model
const (
	stOut     = iota // in the handler's history: neither acknowledged, declared lost nor discarded
	stAcked          // acknowledged
	stLost           // declared lost
	stDropped        // its packet number space (or the 0-RTT part of it) was discarded / reset
	stLimbo          // path probe that was outstanding when the path was migrated (see NOTES.md)
)

// event bits carried by a received packet (what its CRYPTO / HANDSHAKE_DONE frames cause)
const (
	evHSKeys   = 1 // Handshake (server: and 1-RTT write) keys become available
	evReject   = 2 // client: server rejected 0-RTT
	evComplete = 4 // handshake completes (client: 1-RTT keys; server: confirmed)
	evDone     = 8 // client: HANDSHAKE_DONE
)

// ---------------------------------------------------------------------------------------------
// case format

type Params struct {
	Server    bool  `json:"server,omitempty"`
	U         bool  `json:"u,omitempty"`     // client: build through ackhandler.NewUAckHandler
	PNLens    []int `json:"pnl,omitempty"`   // U: SetInitialPacketNumberLength(s) (1 entry: single value)
	InitPN    int64 `json:"ipn,omitempty"`   // client: first Initial packet number
	Validated bool  `json:"val,omitempty"`   // server: address validated by a token
	ZeroRTT   bool  `json:"z,omitempty"`     // client: 0-RTT keys available from the start
	Qlog      bool  `json:"qlog,omitempty"`  // attach a qlog recorder (observation of loss declarations)
	InitRTTms int   `json:"irtt,omitempty"`  // server: RTT restored from the token
	MaxAckMs  int   `json:"mad,omitempty"`   // peer's max_ack_delay (applied with the transport parameters)
	Gaps      []int `json:"gaps,omitempty"`  // distances to the next deliberately skipped 1-RTT packet number
	Fast      bool  `json:"fast,omitempty"`  // scripted handshake first, random operations afterwards
	FirstSize int   `json:"first,omitempty"` // server: size of the datagram that created the connection
	Drain     int   `json:"drain,omitempty"` // end of history: 0 peer acknowledges everything, 1 peer falls silent for a while first
	MTU       bool  `json:"mtu,omitempty"`   // generator bias only: after confirmation prefer path-MTU probes followed by one-packet-at-a-time traffic
}

// Pk describes one packet the connection wants to send.
type Pk struct {
	L  int   `json:"l"`           // level: 0 Initial, 1 Handshake, 2 0-RTT, 3 1-RTT
	C  int   `json:"c,omitempty"` // control frames with a handler
	S  int   `json:"s,omitempty"` // STREAM frames with a handler (application data only)
	N  int   `json:"n,omitempty"` // frames without handler (DATAGRAM / PING)
	A  int64 `json:"a,omitempty"` // >0: packet carries an ACK frame whose largest acked is A-1
	Sz int   `json:"sz,omitempty"`
}

type Op struct {
	K  string `json:"k"`            // send | recv | tick | retry | mig
	Dt int64  `json:"dt,omitempty"` // microseconds
	TM int    `json:"tm,omitempty"` // clock advance relative to the loss detection timeout: 0 +Dt, 1 to the deadline, 2 Dt before it, 3 Dt past it; relative to the time-threshold expiry of the path-MTU probe in flight (plain +Dt without one): 4 Dt before it, 5 Dt past it

	// send
	Pk []Pk `json:"pk,omitempty"`
	Q  int  `json:"q,omitempty"` // PTO mode: upper bound on QueueProbePacket calls
	X  int  `json:"x,omitempty"` // 1: path MTU probe, 2: path probe (client)

	// recv
	L   int        `json:"l,omitempty"`
	Sz  int        `json:"sz,omitempty"`  // datagram size; 0 = another packet coalesced into the previous datagram
	Lag int64      `json:"lag,omitempty"` // microseconds between reading the datagram from the socket and processing it
	Ack [][2]int64 `json:"ack,omitempty"` // ranges [largest, smallest], descending
	AD  int64      `json:"ad,omitempty"`  // ack delay, microseconds
	Ev  int        `json:"ev,omitempty"`
	EF  bool       `json:"ef,omitempty"`  // the frames causing Ev precede the ACK frame
	PP  int        `json:"pp,omitempty"`  // server, 1-RTT: packet arrived on a new path, probe it with PP frames
	Mig bool       `json:"mig,omitempty"` // server, 1-RTT: switch to the path the packet arrived on
}

// ---------------------------------------------------------------------------------------------
// model

type mframe struct {
	id    int
	pkt   *mpkt
	wf    wire.Frame
	h     *fh // nil: frame without handler
	acked int
	lost  int
}

type mpkt struct {
	pn      int64
	sp      int
	lvl     int
	size    int64
	sendT   int64
	frames  []*mframe
	ae      bool // ack-eliciting (has frames)
	mtu     bool
	path    bool
	st      int
	inflt   bool  // counted in the bytes-in-flight ledger
	ackLA   int64 // largest acked of the ACK frame it carried, -1 if none
	hasHdlr bool
}

func (p *mpkt) String() string {
	return fmt.Sprintf("%s pn %d (%s, %d bytes, %d frames, mtu=%v path=%v, status %d)", spName[p.sp], p.pn, lvlName[p.lvl], p.size, len(p.frames), p.mtu, p.path, p.st)
}

// outstanding in the sense of packet.Outstanding(): data whose loss must be detected by a timer
func (p *mpkt) outstandingData() bool { return p.st == stOut && p.ae && !p.mtu && !p.path }

type mspace struct {
	dropped      bool
	pk           map[int64]*mpkt
	order        []int64 // sent packet numbers of the current history, ascending
	largestSent  int64
	largestAcked int64
	// bounds on the handler's own largest-acked of this space: it only moves when an ACK frame newly
	// acknowledges something that is still in its history (ReceivedAck returns early otherwise), which the
	// model knows for certain for ack-eliciting packets only (ACK-only packets and path-probe placeholders
	// are swept silently by detectLostPackets). laLo <= handler's value <= laHi, -1 = none.
	laLo, laHi int64
	skipped    []int64 // recorded skipped numbers of the current history, ascending
	lastPop    int64
	prevAcks   [][][2]int64
}

type fh struct {
	m *machine
	f *mframe
}

func (h *fh) OnAcked(w wire.Frame) { h.m.cb(h.f, w, true) }
func (h *fh) OnLost(w wire.Frame)  { h.m.cb(h.f, w, false) }

type lostEv struct {
	sp int
	pn int64
}

type recorder struct{ m *machine }

func (r *recorder) Close() error { return nil }
func (r *recorder) RecordEvent(e qlogwriter.Event) {
	switch ev := e.(type) {
	case qlog.PacketLost:
		s := spA
		switch ev.Header.PacketType {
		case qlog.PacketTypeInitial:
			s = spI
		case qlog.PacketTypeHandshake:
			s = spH
		}
		r.m.qlLost = append(r.m.qlLost, lostEv{sp: s, pn: int64(ev.Header.PacketNumber)})
	case qlog.MetricsUpdated:
		if ev.PacketsInFlight != 0 {
			r.m.qlPIF = ev.PacketsInFlight
		}
	}
}

type machine struct {
	p                    Params
	h                    ackhandler.SentPacketHandler
	rtt                  *utils.RTTStats
	stats                utils.ConnectionStats
	now                  int64 // ns
	lastRcv              int64
	sp                   [3]*mspace
	ledger               int64
	bytesSent, bytesRcvd int64
	validated            bool

	hsKeys, complete, confirmed         bool
	zeroRTT, rejected, retried, rcvdAny bool
	closed                              bool

	mtuInFlight *mpkt
	// RFC 9002 6.1 applied to the path-MTU probe in flight (see mtuJudge)
	mtuPend     int   // pendNo / pendMaybe / pendYes: the last loss detection run left the probe below largest-acked, not yet lost
	mtuD        int64 // pendYes: send time + time threshold as of that run; the loss timer must not be later
	loneNoTimer int   // hits of the (tolerated / known) finding C06/mtu-probe/loss-timer-not-armed
	mtuSize     int64 // what the congestion controller was told
	mtuAcked    int64 // largest acknowledged probe size
	nonAE       int   // consecutive ACK-only application-data packets (packet_packer.go numNonAckElicitingAcks)
	armed       int64
	gapIdx      int

	// per call
	inCall   string
	evA, evL []*mframe
	cbViol   *vf.Verdict
	qlLost   []lostEv
	qlPIF    int
	ignBelow []int64

	nframes  int
	frames   []*mframe
	lastMode ackhandler.SendMode

	cls            map[string]bool
	sig            []byte
	nLoss, nGapAck int
	sentIn         [3]bool
}

func (m *machine) t() monotime.Time { return monotime.Time(m.now) }
func (m *machine) class(s string)   { m.cls[s] = true }

const startTime = int64(3600 * time.Second) // monotime.Now() starts one hour after its epoch

func newMachine(p Params) vf.Machine[Op] {
	m := &machine{p: p, now: startTime + 12345678, cls: map[string]bool{}, mtuSize: 1252}
	m.lastRcv = m.now
	m.rtt = utils.NewRTTStats()
	var ql qlogwriter.Recorder
	if p.Qlog {
		ql = &recorder{m: m}
	}
	pers := protocol.PerspectiveClient
	ipn := protocol.PacketNumber(p.InitPN)
	if p.Server {
		pers = protocol.PerspectiveServer
		ipn = 0
		if p.InitRTTms > 0 {
			m.rtt.SetInitialRTT(time.Duration(p.InitRTTms) * time.Millisecond)
		}
	}
	ign := func(pn protocol.PacketNumber) { m.ignBelow = append(m.ignBelow, int64(pn)) }
	if p.U && !p.Server {
		m.h = ackhandler.NewUAckHandler(ipn, 1252, m.rtt, &m.stats, false, false, ign, pers, ql, utils.DefaultLogger)
		if len(p.PNLens) == 1 {
			ackhandler.SetInitialPacketNumberLength(m.h, protocol.PacketNumberLen(p.PNLens[0]))
		} else if len(p.PNLens) > 1 {
			l := make([]protocol.PacketNumberLen, len(p.PNLens))
			for i, x := range p.PNLens {
				l[i] = protocol.PacketNumberLen(x)
			}
			ackhandler.SetInitialPacketNumberLengths(m.h, ipn, l)
		}
	} else {
		m.h = ackhandler.NewSentPacketHandler(ipn, 1252, m.rtt, &m.stats, p.Validated, false, ign, pers, ql, utils.DefaultLogger)
	}
	for i := range m.sp {
		m.sp[i] = &mspace{pk: map[int64]*mpkt{}, largestSent: -1, largestAcked: -1, laLo: -1, laHi: -1, lastPop: -1}
	}
	m.sp[spI].lastPop = int64(ipn) - 1
	m.validated = !p.Server || p.Validated
	m.zeroRTT = !p.Server && p.ZeroRTT
	m.armed = -1
	m.rearm()
	if p.Server {
		// the connection is created for the first Initial packet: handleOnePacket -> ReceivedBytes, ..., ReceivedPacket
		sz := int64(p.FirstSize)
		if sz <= 0 {
			sz = 1200
		}
		m.begin("ReceivedBytes")
		m.h.ReceivedBytes(protocol.ByteCount(sz), m.t())
		m.bytesRcvd += sz
		m.h.ReceivedPacket(protocol.EncryptionInitial, m.t())
		m.rcvdAny = true
		if v := m.settle(&expect{what: "first packet"}); v != nil {
			panic(v.Detail)
		}
	}
	if p.Fast {
		for _, op := range m.script() {
			if v := m.Apply(op); v != nil {
				panic("scripted handshake: " + v.Sig + ": " + v.Detail)
			}
		}
		m.sig = m.sig[:0]
	}
	m.lastMode = m.h.SendMode(m.t())
	return m
}

// gap returns the next distance (>= 0) between the generator's position + 3 and the packet number to skip.
func (m *machine) gap() int64 {
	if len(m.p.Gaps) == 0 {
		return 400
	}
	g := m.p.Gaps[m.gapIdx%len(m.p.Gaps)]
	m.gapIdx++
	if g < 0 {
		g = 0
	}
	if g > 511 {
		g = 511
	}
	return int64(g)
}

// rearm replaces a freshly (randomly) drawn skip position by the next scripted one.
func (m *machine) rearm() {
	next, ts := ackhandler.VerifNextSkip(m.h)
	if int64(ts) == m.armed {
		return
	}
	want := int64(next) + 3 + m.gap()
	if !ackhandler.VerifSetNextSkip(m.h, protocol.PacketNumber(want)) {
		panic("harness: VerifSetNextSkip refused")
	}
	m.armed = want
}

// script is a loss-free handshake, expressed in ordinary operations.
func (m *machine) script() []Op {
	ms := int64(1000)
	if m.p.Server {
		return []Op{
			{K: "recv", L: lvI, Sz: 1200, Ev: evHSKeys, Dt: 1 * ms},
			{K: "send", Dt: 100, Pk: []Pk{{L: lvI, C: 1, A: 1, Sz: 200}, {L: lvH, C: 2, Sz: 900}, {L: lv1, S: 1, Sz: 100}}},
			{K: "recv", L: lvH, Sz: 120, Ack: [][2]int64{{0, 0}}, Ev: evComplete, Dt: 20 * ms},
		}
	}
	ipn := m.p.InitPN
	return []Op{
		{K: "send", Pk: []Pk{{L: lvI, C: 1, Sz: 1200}}},
		{K: "recv", L: lvI, Sz: 1200, Ack: [][2]int64{{ipn, ipn}}, Ev: evHSKeys, Dt: 20 * ms},
		{K: "recv", L: lvH, Sz: 0, Ev: evComplete | evReject},
		{K: "send", Dt: 100, Pk: []Pk{{L: lvH, C: 1, A: 1, Sz: 80}, {L: lv1, S: 1, Sz: 100}}},
		{K: "recv", L: lv1, Sz: 100, Ack: [][2]int64{{0, 0}}, Ev: evDone, Dt: 20 * ms},
	}
}

// ---------------------------------------------------------------------------------------------
// callbacks and per-call settlement

func (m *machine) cb(f *mframe, w wire.Frame, acked bool) {
	kind := "OnLost"
	if acked {
		kind = "OnAcked"
	}
	bad := func(sig, format string, a ...any) {
		if m.cbViol == nil {
			m.cbViol = vf.Bad(sig, format, a...)
		}
	}
	if m.inCall == "" {
		bad("C06/callback/outside-call", "%s for frame %d outside any handler call", kind, f.id)
	}
	if w != f.wf {
		bad("C06/callback/wrong-frame", "%s for frame %d of %v was invoked with a different frame object %#v", kind, f.id, f.pkt, w)
	}
	if f.acked+f.lost > 0 {
		bad("C06/callback/twice", "during %s: %s for frame %d of %v, which was already reported (acked %d, lost %d)", m.inCall, kind, f.id, f.pkt, f.acked, f.lost)
	}
	if f.pkt.st == stDropped {
		bad("C06/callback/after-drop", "during %s: %s for frame %d of %v although its packet number space was discarded", m.inCall, kind, f.id, f.pkt)
	}
	if acked {
		f.acked++
		m.evA = append(m.evA, f)
	} else {
		f.lost++
		m.evL = append(m.evL, f)
	}
}

func (m *machine) begin(name string) {
	m.inCall = name
	m.evA, m.evL, m.qlLost, m.ignBelow = m.evA[:0], m.evL[:0], m.qlLost[:0], m.ignBelow[:0]
	m.qlPIF = 0
}

const (
	lossNone = iota
	lossInSpace
	lossAny
)

type expect struct {
	what   string
	ack    map[*mpkt]bool // packets that must be reported acknowledged (all their handler frames)
	optAck map[*mpkt]bool // packets that may be reported acknowledged (path probes)
	// loss rules
	loss       int            // lossNone (default), lossInSpace, lossAny: where threshold losses may be declared
	lossSpace  int            // for lossInSpace
	pathLossOK bool           // path probes may be declared lost (timeout)
	lost       map[*mpkt]bool // exactly these packets are declared lost (QueueProbePacket, migration, Retry)
	explicit   bool
	checkPIF   bool
}

func (m *machine) handlerFrames(p *mpkt) int {
	n := 0
	for _, f := range p.frames {
		if f.h != nil {
			n++
		}
	}
	return n
}

func (m *machine) hook() int64 { return int64(ackhandler.VerifBytesInFlight(m.h)) }

func (m *machine) settle(e *expect) *vf.Verdict {
	call := m.inCall
	m.inCall = ""
	if m.cbViol != nil {
		return m.cbViol
	}
	// --- acknowledged
	ackedBy := map[*mpkt]int{}
	for _, f := range m.evA {
		ackedBy[f.pkt]++
	}
	for p, n := range ackedBy {
		if !e.ack[p] && !e.optAck[p] {
			return vf.Bad("C06/ack/uncovered-acked", "%s (%s): frames of %v were reported acknowledged, but no accepted ACK covers that packet", call, e.what, p)
		}
		if n != m.handlerFrames(p) {
			return vf.Bad("C06/ack/partial", "%s (%s): %d of %d frames of %v reported acknowledged", call, e.what, n, m.handlerFrames(p), p)
		}
	}
	for p := range e.ack {
		if m.handlerFrames(p) > 0 && ackedBy[p] == 0 {
			lost := 0
			for _, f := range p.frames {
				lost += f.lost
			}
			return vf.Bad("C06/ack/no-callback", "%s (%s): the ACK was accepted and covers %v, whose frames are unresolved, but no OnAcked was delivered (OnLost in this call: %d)", call, e.what, p, lost)
		}
	}
	// --- lost
	lostBy := map[*mpkt]int{}
	for _, f := range m.evL {
		lostBy[f.pkt]++
	}
	lostPk := map[*mpkt]bool{}
	for p, n := range lostBy {
		if ackedBy[p] > 0 {
			return vf.Bad("C06/callback/twice", "%s (%s): frames of %v reported both acknowledged and lost", call, e.what, p)
		}
		if n != m.handlerFrames(p) {
			return vf.Bad("C06/loss/partial", "%s (%s): %d of %d frames of %v reported lost", call, e.what, n, m.handlerFrames(p), p)
		}
		lostPk[p] = true
	}
	for _, le := range m.qlLost {
		p := m.sp[le.sp].pk[le.pn]
		if p == nil || !p.ae || p.path {
			return vf.Bad("C06/loss/unknown-packet", "%s (%s): packet_lost event for %s pn %d, which is not an ack-eliciting packet the connection sent", call, e.what, spName[le.sp], le.pn)
		}
		if m.handlerFrames(p) > 0 && lostBy[p] == 0 {
			return vf.Bad("C06/loss/no-callback", "%s (%s): %v was declared lost (packet_lost event) but its frames got no OnLost", call, e.what, p)
		}
		if p.st != stOut {
			return vf.Bad("C06/loss/twice", "%s (%s): %v declared lost although it was already resolved", call, e.what, p)
		}
		lostPk[p] = true
	}
	for p := range lostPk {
		if p.st != stOut && p.st != stLimbo {
			return vf.Bad("C06/loss/twice", "%s (%s): %v declared lost although it was already resolved", call, e.what, p)
		}
		if e.explicit {
			if !e.lost[p] {
				return vf.Bad("C06/loss/unexpected", "%s (%s): %v was declared lost; this call must only affect %d other packet(s)", call, e.what, p, len(e.lost))
			}
			continue
		}
		if p.path {
			if !e.pathLossOK {
				return vf.Bad("C06/loss/unexpected", "%s (%s): path probe %v declared lost by a call that does not run path probe loss detection", call, e.what, p)
			}
			continue
		}
		if e.loss == lossNone || (e.loss == lossInSpace && p.sp != e.lossSpace) {
			return vf.Bad("C06/loss/unexpected", "%s (%s): %v declared lost by a call that cannot declare losses in that space", call, e.what, p)
		}
		if p.pn >= m.sp[p.sp].largestAcked {
			return vf.Bad("C06/loss/not-below-largest-acked", "%s (%s): %v declared lost, but no packet sent after it was ever acknowledged (largest acked in that space: %d)", call, e.what, p, m.sp[p.sp].largestAcked)
		}
		m.class("loss-threshold")
		if e.what == "timeout" {
			m.class("loss-timer")
		}
		m.nLoss++
	}
	if e.explicit {
		for p := range e.lost {
			if m.handlerFrames(p) > 0 && !lostPk[p] {
				return vf.Bad("C06/loss/no-callback", "%s (%s): %v must be handed back for retransmission, but its frames got no OnLost", call, e.what, p)
			}
			lostPk[p] = true
		}
	}
	// --- model update
	for p := range ackedBy {
		m.resolve(p, stAcked)
	}
	for p := range e.ack {
		m.resolve(p, stAcked)
	}
	for p := range lostPk {
		m.resolve(p, stLost)
	}
	// --- accounts
	if got := m.hook(); got != m.ledger {
		return vf.Bad("C06/ledger/bytes-in-flight", "after %s (%s): handler counts %d bytes in flight, the ack-eliciting packets still outstanding add up to %d (%s)", call, e.what, got, m.ledger, m.inflightList())
	}
	if e.checkPIF && m.qlPIF != 0 {
		if want := m.numOutstanding(); want != m.qlPIF {
			return vf.Bad("C06/ledger/packets-in-flight", "after %s (%s): handler reports %d packets in flight, model has %d outstanding", call, e.what, m.qlPIF, want)
		}
	}
	return nil
}

func (m *machine) resolve(p *mpkt, st int) {
	if p.st != stOut && p.st != stLimbo {
		return
	}
	p.st = st
	if p.inflt {
		p.inflt = false
		m.ledger -= p.size
	}
	if p == m.mtuInFlight {
		m.mtuInFlight = nil
		m.mtuPend = pendNo
		if st == stAcked {
			m.mtuAcked = max(m.mtuAcked, p.size)
		}
	}
}

func (m *machine) numOutstanding() int {
	n := 0
	for _, s := range m.sp {
		if s.dropped {
			continue
		}
		for _, p := range s.pk {
			if p.outstandingData() {
				n++
			}
		}
	}
	return n
}

func (m *machine) hasOut(s int) bool {
	if m.sp[s].dropped {
		return false
	}
	for _, p := range m.sp[s].pk {
		if p.outstandingData() {
			return true
		}
	}
	return false
}

func (m *machine) inflightList() string {
	var l []string
	for _, s := range m.sp {
		for _, pn := range s.order {
			if p := s.pk[pn]; p != nil && p.inflt {
				l = append(l, fmt.Sprintf("%s:%d(%d)", spName[p.sp][:1], p.pn, p.size))
			}
		}
	}
	if len(l) > 24 {
		l = append(l[:24], "...")
	}
	return fmt.Sprint(l)
}

// ---------------------------------------------------------------------------------------------
// key availability (what connection.go / the crypto setup allow in the current phase)

func (m *machine) canSend(l int) bool {
	switch l {
	case lvI:
		return !m.sp[spI].dropped
	case lvH:
		return m.hsKeys && !m.sp[spH].dropped
	case lv0:
		return !m.p.Server && m.zeroRTT && !m.complete
	case lv1:
		if m.p.Server {
			return m.hsKeys
		}
		return m.complete
	}
	return false
}

func (m *machine) canRecv(l int) bool {
	switch l {
	case lvI:
		return !m.sp[spI].dropped
	case lvH:
		return m.hsKeys && !m.sp[spH].dropped
	case lv0:
		return m.p.Server && !m.complete
	case lv1:
		return m.complete
	}
	return false
}

// ---------------------------------------------------------------------------------------------
// handler calls

func (m *machine) sendPacket(pk Pk, kind int, at int64) *vf.Verdict {
	lvl := pk.L
	s := spaceOf(lvl)
	sp := m.sp[s]
	enc := encLevels[lvl]
	peek, _ := m.h.PeekPacketNumber(enc)
	pn := m.h.PopPacketNumber(enc)
	if pn != peek {
		return vf.Bad("C06/pn/peek-pop-mismatch", "%s: PeekPacketNumber returned %d, PopPacketNumber %d", lvlName[lvl], peek, pn)
	}
	gap := int64(pn) - sp.lastPop
	switch {
	case gap <= 0:
		return vf.Bad("C06/pn/not-increasing", "%s: packet number %d after %d", spName[s], pn, sp.lastPop)
	case gap == 2 && s == spA:
		sp.skipped = append(sp.skipped, sp.lastPop+1)
		m.class("skip-gen")
	case gap != 1:
		return vf.Bad("C06/pn/gap", "%s: packet number %d after %d (at most one number is skipped, and only for application data)", spName[s], pn, sp.lastPop)
	}
	sp.lastPop = int64(pn)
	if s == spA {
		m.rearm()
	}

	p := &mpkt{pn: int64(pn), sp: s, lvl: lvl, size: int64(pk.Sz), sendT: at, ackLA: pk.A - 1, mtu: kind == 1, path: kind == 2}
	var frames []ackhandler.Frame
	var sframes []ackhandler.StreamFrame
	add := func(wf wire.Frame, withHandler bool) *mframe {
		m.nframes++
		f := &mframe{id: m.nframes, pkt: p, wf: wf}
		if withHandler {
			f.h = &fh{m: m, f: f}
			p.hasHdlr = true
		}
		p.frames = append(p.frames, f)
		m.frames = append(m.frames, f)
		return f
	}
	switch kind {
	case 1:
		f := add(&wire.PingFrame{}, true)
		frames = append(frames, ackhandler.Frame{Frame: f.wf, Handler: f.h})
	case 2:
		for i := 0; i < max(1, pk.C); i++ {
			var wf wire.Frame
			if i == 0 {
				wf = &wire.PathChallengeFrame{Data: [8]byte{byte(m.nframes), byte(m.nframes >> 8), 1}}
			} else {
				wf = &wire.PathResponseFrame{Data: [8]byte{byte(m.nframes), byte(m.nframes >> 8), 2}}
			}
			f := add(wf, true)
			frames = append(frames, ackhandler.Frame{Frame: f.wf, Handler: f.h})
		}
	default:
		for i := 0; i < pk.C; i++ {
			var wf wire.Frame
			if s == spA {
				wf = &wire.MaxStreamDataFrame{StreamID: protocol.StreamID(m.nframes), MaximumStreamData: 1}
			} else {
				wf = &wire.CryptoFrame{Offset: protocol.ByteCount(m.nframes), Data: []byte{1}}
			}
			f := add(wf, true)
			frames = append(frames, ackhandler.Frame{Frame: f.wf, Handler: f.h})
		}
		for i := 0; i < pk.N; i++ {
			var wf wire.Frame
			if s == spA && i%2 == 0 {
				wf = &wire.DatagramFrame{Data: []byte{byte(m.nframes)}}
			} else {
				wf = &wire.PingFrame{}
			}
			f := add(wf, false)
			frames = append(frames, ackhandler.Frame{Frame: f.wf})
		}
		if s == spA {
			for i := 0; i < pk.S; i++ {
				sf := &wire.StreamFrame{StreamID: protocol.StreamID(4 * m.nframes), Data: []byte{0}}
				f := add(sf, true)
				sframes = append(sframes, ackhandler.StreamFrame{Frame: sf, Handler: f.h})
			}
		}
	}
	p.ae = len(p.frames) > 0
	la := protocol.InvalidPacketNumber
	if p.ackLA >= 0 && kind == 0 {
		la = protocol.PacketNumber(p.ackLA)
	} else {
		p.ackLA = -1
	}
	if !p.ae && la == protocol.InvalidPacketNumber {
		panic("harness: empty packet")
	}
	m.begin("SentPacket")
	m.h.SentPacket(monotime.Time(at), pn, la, sframes, frames, enc, m.h.ECNMode(lvl == lv1), protocol.ByteCount(pk.Sz), kind == 1, kind == 2)
	sp.pk[p.pn] = p
	sp.order = append(sp.order, p.pn)
	sp.largestSent = p.pn
	m.sentIn[s] = true
	m.bytesSent += p.size
	if p.ae && !p.path {
		p.inflt = true
		m.ledger += p.size
	}
	if kind == 1 {
		m.mtuInFlight = p
		m.mtuPend = pendNo
	}
	if s == spA && kind == 0 {
		if p.ae {
			m.nonAE = 0
		} else {
			m.nonAE++
		}
	}
	m.sig = append(m.sig, 'S', byte(lvl), byte(len(p.frames)), byte(kind))
	return m.settle(&expect{what: "send " + lvlName[lvl], checkPIF: p.ae && !p.path})
}

func (m *machine) dropSpace(s int, at int64) *vf.Verdict {
	// connection.go dropEncryptionLevel: may be called for Initial a second time (handleHandshakeConfirmed)
	sp := m.sp[s]
	m.begin("DropPackets")
	m.h.DropPackets(encLevels[s], monotime.Time(at))
	if !sp.dropped {
		for _, p := range sp.pk {
			if p.st == stOut {
				p.st = stDropped
				if p.inflt {
					p.inflt = false
					m.ledger -= p.size
				}
			}
		}
		sp.dropped = true
		if s == spI {
			m.class("drop-initial")
		} else {
			m.class("drop-handshake")
		}
	}
	if s == spH {
		m.confirmed = true
		m.class("confirmed")
	}
	m.sig = append(m.sig, 'D', byte(s))
	return m.settle(&expect{what: "drop " + spName[s]})
}

func (m *machine) confirm(at int64) *vf.Verdict {
	if v := m.dropSpace(spI, at); v != nil {
		return v
	}
	return m.dropSpace(spH, at)
}

func (m *machine) reject0RTT(at int64) *vf.Verdict {
	m.begin("DropPackets(0-RTT)")
	m.h.DropPackets(protocol.Encryption0RTT, monotime.Time(at))
	for _, p := range m.sp[spA].pk {
		if p.lvl == lv0 && p.st == stOut {
			p.st = stDropped
			if p.inflt {
				p.inflt = false
				m.ledger -= p.size
			}
		}
	}
	m.zeroRTT = false
	m.rejected = true
	m.class("0rtt-reject")
	m.sig = append(m.sig, 'Z')
	return m.settle(&expect{what: "0-RTT rejected"})
}

func covered(r [][2]int64, pn int64) bool {
	for _, x := range r {
		if x[1] <= pn && pn <= x[0] {
			return true
		}
	}
	return false
}

func (m *machine) tracked(sp *mspace) (tracked, evicted []int64) {
	n := len(sp.skipped)
	if n <= 4 { // sent_packet_history.go maxSkippedPackets
		return sp.skipped, nil
	}
	return sp.skipped[n-4:], sp.skipped[:n-4]
}

func (m *machine) recvAck(lvl int, r [][2]int64, delayUs int64, at int64) *vf.Verdict {
	s := spaceOf(lvl)
	sp := m.sp[s]
	ack := &wire.AckFrame{DelayTime: time.Duration(delayUs) * time.Microsecond}
	for _, x := range r {
		ack.AckRanges = append(ack.AckRanges, wire.AckRange{Smallest: protocol.PacketNumber(x[1]), Largest: protocol.PacketNumber(x[0])})
	}
	largest := r[0][0]
	expectPV, mayPV := "", false
	if largest > sp.largestSent {
		expectPV = fmt.Sprintf("largest acked %d, largest sent %d", largest, sp.largestSent)
		m.class("adv-unsent")
	} else if lvl == lv1 {
		tr, ev := m.tracked(sp)
		for _, x := range tr {
			if covered(r, x) {
				expectPV = fmt.Sprintf("covers the deliberately skipped packet number %d (recently skipped: %v)", x, tr)
				m.class("adv-skipped")
				break
			}
		}
		if expectPV == "" {
			for _, x := range ev {
				if covered(r, x) {
					mayPV = true
					m.class("adv-skipped-evicted")
				}
			}
		}
	}
	if len(r) > 1 {
		m.class("ack-gap")
		m.nGapAck++
	}
	if largest < sp.largestAcked {
		m.class("ack-stale")
	}
	for _, prev := range sp.prevAcks {
		if fmt.Sprint(prev) == fmt.Sprint(r) {
			m.class("ack-dup")
		}
	}
	m.sig = append(m.sig, 'A', byte(lvl), byte(len(r)), byte(largest))
	m.begin("ReceivedAck")
	acked1, err := m.h.ReceivedAck(ack, encLevels[lvl], monotime.Time(at))
	if err != nil {
		var te *qerr.TransportError
		isPV := errors.As(err, &te) && te.ErrorCode == qerr.ProtocolViolation
		if expectPV == "" && !mayPV {
			return vf.Bad("C06/ack/rejected-valid", "%s ACK %v covers only packets that were sent (largest sent %d, skipped %v) but was rejected: %v", lvlName[lvl], r, sp.largestSent, sp.skipped, err)
		}
		if !isPV {
			return vf.Bad("C06/ack/wrong-error", "%s ACK %v (%s) must be a PROTOCOL_VIOLATION, got: %v", lvlName[lvl], r, expectPV, err)
		}
		if v := m.settle(&expect{what: "rejected ACK"}); v != nil {
			return v
		}
		m.closed = true // the connection closes
		return nil
	}
	if expectPV != "" {
		sig := "C06/ack/unsent-accepted"
		if largest <= sp.largestSent {
			sig = "C06/ack/skipped-accepted"
		}
		return vf.Bad(sig, "%s ACK %v was accepted although it %s; this must be a PROTOCOL_VIOLATION", lvlName[lvl], r, expectPV)
	}
	e := &expect{what: "ack", ack: map[*mpkt]bool{}, optAck: map[*mpkt]bool{}, loss: lossInSpace, lossSpace: s, pathLossOK: lvl == lv1, checkPIF: true}
	must1, may1 := false, false
	possibleNew := false // the frame may newly acknowledge something that is still in the handler's history
	probe := m.mtuInFlight
	for _, pn := range sp.order {
		p := sp.pk[pn]
		if p == nil || !covered(r, pn) {
			continue
		}
		if p.st == stOut || p.st == stLimbo {
			possibleNew = true
			if p.path {
				e.optAck[p] = true
				if p.lvl == lv1 {
					may1 = true
				}
				continue
			}
			if p.st == stLimbo {
				continue
			}
			if p.lvl == lv1 {
				if p.ae {
					must1 = true
				} else {
					may1 = true
				}
			}
			if p.ae {
				e.ack[p] = true
			} else {
				p.st = stAcked // ACK-only packet: nothing to report
			}
		}
	}
	if largest > sp.largestAcked {
		sp.largestAcked = largest
	}
	// ReceivedAck: "if len(ackedPackets) == 0 { return }" precedes the update of largestAcked and detectLostPackets
	run := runNone
	if len(e.ack) > 0 {
		run = runCertain
		sp.laLo, sp.laHi = max(sp.laLo, largest), max(sp.laHi, largest)
	} else if possibleNew {
		run = runMaybe
		sp.laHi = max(sp.laHi, largest)
	}
	wantIgn := map[int64]bool{}
	if lvl == lv1 {
		for p := range e.ack {
			if p.ackLA >= 0 {
				wantIgn[p.ackLA+1] = true
			}
		}
		for _, pn := range sp.order { // ACK-only packets covered by this frame
			if p := sp.pk[pn]; p != nil && !p.ae && p.ackLA >= 0 && covered(r, pn) {
				wantIgn[p.ackLA+1] = true
			}
		}
	}
	ign := append([]int64(nil), m.ignBelow...)
	if v := m.settle(e); v != nil {
		return v
	}
	if s == spA {
		if v := m.mtuJudge(probe, run, at, "ReceivedAck"); v != nil {
			return v
		}
	}
	for _, x := range ign {
		if !wantIgn[x] {
			return vf.Bad("C06/ack/ignore-below", "%s ACK %v: ignorePacketsBelow(%d) was invoked, but no newly acknowledged 1-RTT packet carried an ACK with largest acked %d", lvlName[lvl], r, x, x-1)
		}
	}
	if must1 && !acked1 {
		return vf.Bad("C06/ack/acked-1rtt-flag", "%s ACK %v newly acknowledged a 1-RTT packet, but ReceivedAck reported false", lvlName[lvl], r)
	}
	if acked1 && !must1 && !may1 {
		return vf.Bad("C06/ack/acked-1rtt-flag", "%s ACK %v covers no outstanding 1-RTT packet, but ReceivedAck reported that one was acknowledged", lvlName[lvl], r)
	}
	sp.prevAcks = append(sp.prevAcks, r)
	if len(sp.prevAcks) > 4 {
		sp.prevAcks = sp.prevAcks[1:]
	}
	// connection.go handleAckFrame
	if acked1 && !m.p.Server && !m.confirmed {
		if v := m.confirm(at); v != nil {
			return v
		}
	}
	if acked1 && m.confirmed && m.mtuInFlight == nil && m.mtuAcked > m.mtuSize {
		m.mtuSize = m.mtuAcked
		m.h.SetMaxDatagramSize(protocol.ByteCount(m.mtuSize))
	}
	return nil
}

// timeoutCheck is the run loop's "check for loss detection timeout" step.
func (m *machine) timeoutCheck() *vf.Verdict {
	to := m.h.GetLossDetectionTimeout()
	if to.IsZero() || int64(to) > m.now {
		return nil
	}
	peekBefore, _ := m.h.PeekPacketNumber(protocol.Encryption1RTT)
	probe := m.mtuInFlight
	m.begin("OnLossDetectionTimeout")
	if err := m.h.OnLossDetectionTimeout(m.t()); err != nil {
		return vf.Bad("C06/timeout/error", "OnLossDetectionTimeout at deadline+%v returned %v (the connection would close)", time.Duration(m.now-int64(to)), err)
	}
	m.class("timeout-fired")
	m.sig = append(m.sig, 'T')
	if v := m.settle(&expect{what: "timeout", loss: lossAny, pathLossOK: m.confirmed}); v != nil {
		return v
	}
	// OnLossDetectionTimeout runs detectLostPackets iff a loss time is set; after confirmation only the
	// application data space is left, and its loss time is certainly set while the probe is pending
	run := runMaybe
	if m.mtuPend == pendYes {
		run = runCertain
	}
	if v := m.mtuJudge(probe, run, m.now, "OnLossDetectionTimeout"); v != nil {
		return v
	}
	peekAfter, _ := m.h.PeekPacketNumber(protocol.Encryption1RTT)
	if peekAfter != peekBefore {
		// PTO in the application data space: one packet number was consumed to elicit an immediate ACK
		sp := m.sp[spA]
		popped := int64(peekBefore)
		if popped-sp.lastPop == 2 {
			sp.skipped = append(sp.skipped, sp.lastPop+1)
			m.class("skip-gen")
		} else if popped-sp.lastPop != 1 {
			return vf.Bad("C06/pn/gap", "PTO consumed application data packet number %d after %d", popped, sp.lastPop)
		}
		sp.skipped = append(sp.skipped, popped)
		sp.lastPop = popped
		if d := int64(peekAfter) - popped; d != 1 && d != 2 {
			return vf.Bad("C06/pn/gap", "after the PTO consumed packet number %d the next one is %d", popped, peekAfter)
		}
		m.class("skip-pto")
		m.rearm()
	}
	switch m.h.SendMode(m.t()) {
	case ackhandler.SendPTOInitial:
		m.class("pto-initial")
	case ackhandler.SendPTOHandshake:
		m.class("pto-handshake")
	case ackhandler.SendPTOAppData:
		m.class("pto-app")
	}
	return nil
}

func (m *machine) queueProbe(lvl int) (bool, *vf.Verdict) {
	sp := m.sp[spaceOf(lvl)]
	var first *mpkt
	for _, pn := range sp.order {
		if p := sp.pk[pn]; p != nil && p.outstandingData() {
			first = p
			break
		}
	}
	m.begin("QueueProbePacket")
	got := m.h.QueueProbePacket(encLevels[lvl])
	e := &expect{what: "probe " + lvlName[lvl], explicit: true, lost: map[*mpkt]bool{}}
	if first != nil {
		e.lost[first] = true
	}
	if v := m.settle(e); v != nil {
		return got, v
	}
	if got != (first != nil) {
		return got, vf.Bad("C06/probe/queue-mismatch", "QueueProbePacket(%s) returned %v; first outstanding packet in the model: %v", lvlName[lvl], got, first)
	}
	if got {
		m.class("loss-pto-probe")
		m.nLoss++
	}
	m.sig = append(m.sig, 'Q', byte(lvl))
	return got, nil
}

func (m *machine) migrate(at int64) *vf.Verdict {
	sp := m.sp[spA]
	e := &expect{what: "migrate", explicit: true, lost: map[*mpkt]bool{}}
	nProbes := 0
	for _, p := range sp.pk {
		if p.st != stOut {
			continue
		}
		if p.path {
			nProbes++
			continue
		}
		if p.ae {
			e.lost[p] = true
		} else {
			p.st = stLost
		}
	}
	m.begin("MigratedPath")
	m.h.MigratedPath(monotime.Time(at), 1252)
	m.mtuSize = 1252
	m.mtuAcked = 0
	if v := m.settle(e); v != nil {
		return v
	}
	for _, p := range sp.pk {
		if p.path && p.st == stOut {
			p.st = stLimbo
		}
	}
	if nProbes > 0 {
		m.class("migrate-with-probes")
	}
	if len(e.lost) > 0 {
		m.nLoss++
	}
	m.class("migrate")
	m.sig = append(m.sig, 'M')
	return nil
}

func (m *machine) retry(at int64) *vf.Verdict {
	e := &expect{what: "retry", explicit: true, lost: map[*mpkt]bool{}}
	for _, s := range []int{spI, spA} {
		for _, p := range m.sp[s].pk {
			if p.st == stOut && p.ae {
				e.lost[p] = true
			}
		}
	}
	m.begin("ResetForRetry")
	m.h.ResetForRetry(monotime.Time(at))
	if v := m.settle(e); v != nil {
		return v
	}
	for _, s := range []int{spI, spA} {
		sp := m.sp[s]
		for _, p := range sp.pk {
			if p.st == stOut {
				p.st = stDropped
			}
		}
		pk, _ := m.h.PeekPacketNumber(encLevels[[]int{lvI, lvH, lv1}[s]])
		if int64(pk) <= sp.lastPop {
			return vf.Bad("C06/pn/not-increasing", "after Retry the next %s packet number is %d, but %d was already used", spName[s], pk, sp.lastPop)
		}
		m.sp[s] = &mspace{pk: map[int64]*mpkt{}, largestSent: -1, largestAcked: -1, laLo: -1, laHi: -1, lastPop: int64(pk) - 1}
	}
	m.rearm()
	if m.ledger != 0 {
		return vf.Bad("C06/ledger/bytes-in-flight", "after Retry the model still has %d bytes in flight (%s)", m.ledger, m.inflightList())
	}
	m.retried = true
	m.class("retry")
	m.sig = append(m.sig, 'R')
	return nil
}

// ---------------------------------------------------------------------------------------------
// operations

func (m *machine) advance(op Op) {
	dt := op.Dt * 1000
	if dt < 0 {
		dt = 0
	}
	to := int64(m.h.GetLossDetectionTimeout())
	if op.TM == 4 || op.TM == 5 {
		if p := m.mtuInFlight; p != nil && p.st == stOut {
			x := p.sendT + m.lossDelay()
			if op.TM == 4 {
				m.now = max(m.now, x-dt)
			} else {
				m.now = max(m.now, x+dt)
			}
		} else {
			m.now += dt
		}
		return
	}
	switch {
	case op.TM == 0 || to == 0 || op.TM < 0 || op.TM > 3:
		m.now += dt
	case op.TM == 1:
		m.now = max(m.now, to)
	case op.TM == 2:
		m.now = max(m.now, to-dt)
	case op.TM == 3:
		m.now = max(m.now, to) + dt
	}
}

func (m *machine) Apply(op Op) *vf.Verdict {
	if m.closed {
		return nil
	}
	m.advance(op)
	var v *vf.Verdict
	switch op.K {
	case "tick":
		v = m.timeoutCheck()
	case "send":
		v = m.opSend(op)
	case "recv":
		v = m.opRecv(op)
	case "retry":
		if m.p.Server || m.rcvdAny || m.retried {
			return nil
		}
		// handleOnePacket: ReceivedBytes, then handleRetryPacket -> ResetForRetry
		sz := int64(max(op.Sz, 30))
		m.begin("ReceivedBytes")
		m.h.ReceivedBytes(protocol.ByteCount(sz), m.t())
		m.bytesRcvd += sz
		if v = m.settle(&expect{what: "retry datagram"}); v == nil {
			v = m.retry(m.now)
		}
	case "mig":
		// client: run loop, after the timeout check (switchToNewPath)
		if m.p.Server || !m.confirmed {
			return nil
		}
		if v = m.timeoutCheck(); v == nil {
			v = m.migrate(m.now)
		}
	}
	if v != nil {
		return v
	}
	if m.closed {
		return nil
	}
	return m.invariants(op.K)
}

func (m *machine) amplificationLimited() bool {
	return m.p.Server && !m.validated && m.bytesSent >= 3*m.bytesRcvd
}

func (m *machine) invariants(after string) *vf.Verdict {
	to := m.h.GetLossDetectionTimeout()
	limited := m.amplificationLimited()
	if limited {
		m.class("amp-limited")
	}
	need := ""
	switch {
	case m.hasOut(spI):
		need = "Initial"
	case m.hasOut(spH):
		need = "Handshake"
	case m.confirmed && m.hasOut(spA):
		need = "application (handshake confirmed)"
	}
	if need != "" && !limited && to.IsZero() {
		return vf.Bad("C06/timer/not-set", "after %s: %s data is outstanding, sending is not amplification-limited, but no loss detection deadline is set (bytes in flight %d)", after, need, m.ledger)
	}
	if v := m.mtuTimer(after, int64(to)); v != nil {
		return v
	}
	mode := m.h.SendMode(m.t())
	m.lastMode = mode
	if limited != (mode == ackhandler.SendNone) {
		return vf.Bad("C06/sendmode/amplification", "after %s: sent %d, received %d bytes, address validated %v: amplification-limited=%v but SendMode=%s", after, m.bytesSent, m.bytesRcvd, m.validated, limited, mode)
	}
	switch mode {
	case ackhandler.SendAny:
		if cw := int64(ackhandler.VerifCongestionWindow(m.h)); m.hook() >= cw {
			return vf.Bad("C06/sendmode/any-over-cwnd", "after %s: SendMode=any with %d bytes in flight and a congestion window of %d", after, m.hook(), cw)
		}
	case ackhandler.SendPTOInitial:
		if m.sp[spI].dropped {
			return vf.Bad("C06/sendmode/pto-dropped-space", "after %s: SendMode asks for an Initial probe but the Initial space was dropped", after)
		}
	case ackhandler.SendPTOHandshake:
		if m.sp[spH].dropped {
			return vf.Bad("C06/sendmode/pto-dropped-space", "after %s: SendMode asks for a Handshake probe but the Handshake space was dropped", after)
		}
	case ackhandler.SendPTOAppData:
		if !m.confirmed {
			return vf.Bad("C06/sendmode/pto-dropped-space", "after %s: SendMode asks for an application data probe before the handshake is confirmed", after)
		}
	}
	return nil
}

func (m *machine) normPk(pk Pk) Pk {
	pk.C, pk.S, pk.N = min(max(pk.C, 0), 3), min(max(pk.S, 0), 2), min(max(pk.N, 0), 2)
	if spaceOf(pk.L) != spA {
		pk.S = 0
	}
	if pk.L == lv0 {
		pk.A = 0 // 0-RTT packets cannot carry ACK frames
		if pk.C+pk.S+pk.N == 0 {
			pk.S = 1
		}
	}
	if pk.A < 0 {
		pk.A = 0
	}
	if pk.C+pk.S+pk.N == 0 && pk.A == 0 {
		pk.A = 1
	}
	if !m.p.Qlog && pk.C+pk.S == 0 && pk.N > 0 {
		pk.C = 1 // without the qlog recorder the loss of a packet without any handler cannot be observed
	}
	if pk.Sz < 25 {
		pk.Sz = 25
	}
	if pk.Sz > 1452 {
		pk.Sz = 1452
	}
	if pk.N > 0 {
		m.class("nilhandler")
	}
	return pk
}

func ackOnly(pk Pk) Pk {
	pk.C, pk.S, pk.N = 0, 0, 0
	if pk.A <= 0 {
		pk.A = 1
	}
	pk.Sz = min(max(pk.Sz, 25), 80)
	return pk
}

// sendOne registers one packet the way sendPackedCoalescedPacket / registerPackedShortHeaderPacket do.
func (m *machine) sendOne(pk Pk) *vf.Verdict {
	pk = m.normPk(pk)
	if spaceOf(pk.L) == spA && pk.C+pk.S+pk.N == 0 && pk.L == lv1 && m.nonAE >= protocol.MaxNonAckElicitingAcks {
		// packet_packer.go maybeGetAppDataPacket: every 20th ACK-only packet gets a PING (without handler)
		pk.N = 1
		if !m.p.Qlog {
			pk.N, pk.C = 0, 1
		}
		m.class("ack-ping")
	}
	if v := m.sendPacket(pk, 0, m.now); v != nil {
		return v
	}
	if !m.p.Server && pk.L == lvH && !m.sp[spI].dropped {
		// the client drops the Initial keys when it sends its first Handshake packet
		return m.dropSpace(spI, m.now)
	}
	return nil
}

func (m *machine) opSend(op Op) *vf.Verdict {
	// one run loop iteration: timeout check, then triggerSending
	if v := m.timeoutCheck(); v != nil {
		return v
	}
	mode := m.h.SendMode(m.t())
	m.lastMode = mode
	if mode == ackhandler.SendAny {
		if cw := int64(ackhandler.VerifCongestionWindow(m.h)); m.hook() >= cw {
			return vf.Bad("C06/sendmode/any-over-cwnd", "SendMode=any with %d bytes in flight and a congestion window of %d", m.hook(), cw)
		}
	}
	switch mode {
	case ackhandler.SendNone:
		m.class("send-none")
		return nil
	case ackhandler.SendAck, ackhandler.SendPacingLimited:
		if mode == ackhandler.SendAck {
			m.class("send-ack-mode")
		} else {
			m.class("send-pacing-limited")
		}
		// maybeSendAckOnlyPacket: a single ACK-only packet
		for _, pk := range op.Pk {
			if pk.L == lv0 || !m.canSend(pk.L) {
				continue
			}
			if m.confirmed && pk.L != lv1 {
				continue
			}
			return m.sendOne(ackOnly(pk))
		}
		return nil
	case ackhandler.SendPTOInitial, ackhandler.SendPTOHandshake, ackhandler.SendPTOAppData:
		lvl := map[ackhandler.SendMode]int{ackhandler.SendPTOInitial: lvI, ackhandler.SendPTOHandshake: lvH, ackhandler.SendPTOAppData: lv1}[mode]
		if !m.canSend(lvl) {
			return vf.Bad("C06/sendmode/pto-no-keys", "SendMode=%s but the connection has no %s keys (hsKeys=%v complete=%v confirmed=%v)", mode, lvlName[lvl], m.hsKeys, m.complete, m.confirmed)
		}
		// sendProbePacket: queue probe packets until the packer has something to send
		for i := 0; i < max(1, op.Q); i++ {
			ok, v := m.queueProbe(lvl)
			if v != nil {
				return v
			}
			if !ok {
				break
			}
		}
		probe := Pk{L: lvl, C: 1, Sz: 60}
		for _, pk := range op.Pk {
			if pk.L == lvl {
				probe = pk
				break
			}
		}
		m.class("pto-probe-sent")
		return m.sendOne(probe)
	}
	// SendAny
	if m.confirmed {
		switch {
		case op.X == 2 && !m.p.Server:
			// sendPackets: path probe of the outgoing path manager
			m.class("path-probe")
			return m.sendPacket(Pk{L: lv1, C: 1, Sz: 1200}, 2, m.now)
		case op.X == 1 && m.mtuInFlight == nil && m.mtuSize < 1452:
			m.class("mtu-probe")
			sz := min(1452, (m.mtuSize+1452+1)/2)
			if sz <= m.mtuSize {
				sz = m.mtuSize + 1
			}
			return m.sendPacket(Pk{L: lv1, C: 1, Sz: int(sz)}, 1, m.now)
		}
		// sendPacketsWithoutGSO: keep packing 1-RTT packets while the send mode stays "any"
		for _, pk := range op.Pk {
			if pk.L != lv1 {
				continue
			}
			if v := m.sendOne(pk); v != nil {
				return v
			}
			if m.h.SendMode(m.t()) != ackhandler.SendAny {
				break
			}
		}
		return nil
	}
	// PackCoalescedPacket: Initial, Handshake, then 0-RTT or 1-RTT, at most one each
	pks := append([]Pk(nil), op.Pk...)
	if !m.p.Server && m.complete && len(m.sp[spH].order) == 0 && m.canSend(lvH) {
		// the client's Finished is waiting in the Handshake crypto stream: the packer puts a Handshake packet
		// in front of any 1-RTT packet of the same datagram
		has1, hasH := false, false
		for _, pk := range pks {
			has1 = has1 || pk.L == lv1
			hasH = hasH || pk.L == lvH
		}
		if has1 && !hasH {
			pks = append(pks, Pk{L: lvH, C: 1, Sz: 80})
		}
	}
	sort.SliceStable(pks, func(i, j int) bool { return pks[i].L < pks[j].L })
	seen := map[int]bool{}
	for _, pk := range pks {
		s := spaceOf(pk.L)
		if pk.L < 0 || pk.L > lv1 || seen[s] || !m.canSend(pk.L) {
			continue
		}
		seen[s] = true
		if v := m.sendOne(pk); v != nil {
			return v
		}
	}
	return nil
}

func (m *machine) opRecv(op Op) *vf.Verdict {
	lvl := op.L
	if lvl < 0 || lvl > lv1 || !m.canRecv(lvl) {
		return nil
	}
	// receive timestamp: not before the previous datagram's, not before the send time of anything the ACK covers
	at := m.now - max(op.Lag, 0)*1000
	at = max(at, m.lastRcv)
	if len(op.Ack) > 0 && lvl != lv0 {
		sp := m.sp[spaceOf(lvl)]
		for _, pn := range sp.order {
			if p := sp.pk[pn]; p != nil && covered(op.Ack, pn) && p.sendT > at {
				at = p.sendT
			}
		}
	}
	at = min(at, m.now)
	if at < m.now {
		m.class("lag")
	}
	m.lastRcv = at
	m.sig = append(m.sig, 'r', byte(lvl), byte(op.Ev))
	if op.Sz > 0 {
		m.begin("ReceivedBytes")
		m.h.ReceivedBytes(protocol.ByteCount(op.Sz), monotime.Time(at))
		m.bytesRcvd += int64(op.Sz)
		if v := m.settle(&expect{what: "datagram"}); v != nil {
			return v
		}
	}
	m.rcvdAny = true
	if m.p.Server && lvl == lvH && !m.sp[spI].dropped {
		// the server drops the Initial keys when it receives the first Handshake packet
		if v := m.dropSpace(spI, at); v != nil {
			return v
		}
	}
	ev := op.Ev
	events := func() *vf.Verdict {
		if ev&evHSKeys != 0 && lvl == lvI && !m.hsKeys {
			m.hsKeys = true
			if m.p.Server {
				m.rtt.SetMaxAckDelay(time.Duration(m.mad()) * time.Millisecond)
			}
		}
		if ev&evReject != 0 && !m.p.Server && m.zeroRTT && !m.complete && (lvl == lvI || lvl == lvH) {
			if v := m.reject0RTT(at); v != nil {
				return v
			}
		}
		if ev&evComplete != 0 && lvl == lvH && !m.complete {
			m.complete = true
			if !m.p.Server {
				m.zeroRTT = false
				m.rtt.SetMaxAckDelay(time.Duration(m.mad()) * time.Millisecond)
			}
		}
		if ev&evDone != 0 && lvl == lv1 && !m.p.Server && !m.confirmed {
			if v := m.confirm(at); v != nil {
				return v
			}
		}
		return nil
	}
	wasComplete := m.complete
	if op.EF {
		if v := events(); v != nil {
			return v
		}
	}
	if len(op.Ack) > 0 && lvl != lv0 && m.canRecv(lvl) {
		if v := m.recvAck(lvl, op.Ack, op.AD, at); v != nil || m.closed {
			return v
		}
	}
	if !op.EF {
		if v := events(); v != nil {
			return v
		}
	}
	// handleFrames: completion of the handshake is handled after all frames
	if !wasComplete && m.complete && m.p.Server {
		if v := m.confirm(at); v != nil {
			return v
		}
	}
	m.begin("ReceivedPacket")
	m.h.ReceivedPacket(encLevels[lvl], monotime.Time(at))
	if m.p.Server && lvl == lvH {
		m.validated = true
	}
	if v := m.settle(&expect{what: "received packet"}); v != nil {
		return v
	}
	if m.p.Server && lvl == lv1 && m.confirmed {
		// handleShortHeaderPacket: packet from a new address
		if op.PP > 0 {
			m.class("path-probe")
			if v := m.sendPacket(Pk{L: lv1, C: min(op.PP, 2), Sz: 1200}, 2, at); v != nil {
				return v
			}
		}
		if op.Mig {
			if v := m.migrate(at); v != nil {
				return v
			}
		}
	}
	return nil
}

func (m *machine) mad() int {
	if m.p.MaxAckMs <= 0 {
		return 25
	}
	return m.p.MaxAckMs
}

// ---------------------------------------------------------------------------------------------
// RFC 9002 6.1 for path-MTU probe packets
//
// MTU probes are ack-eliciting and counted in bytes in flight, but they are not "outstanding" in the
// handler's sense (packet.Outstanding): no PTO covers them. The only ways their frame is ever resolved are an
// ACK, a migration, or loss detection by packet / time threshold, which therefore has to be applied to
// them exactly as sentPacketHandler.detectLostPackets does on the unchanged tree:
//
//   - it runs in ReceivedAck whenever the frame newly acknowledged at least one packet (time = receive time
//     of the ACK, after the RTT update), and in OnLossDetectionTimeout whenever a loss time is set;
//   - a packet with pn <= largest acked is lost if sendTime <= now - max(9/8 * max(latest, smoothed RTT), 1 ms)
//     or if history.Difference(largestAcked, pn) >= 3 (skipped numbers are not counted);
//   - otherwise the space's loss time is set (send time + that delay for the first such packet) and the
//     loss detection timer has to be armed for it (RFC 9002 6.1.2).
//
// The model does not know the handler's largest-acked exactly (see mspace.laLo/laHi); the verdicts below are
// the ones that hold for every value in that interval.

const (
	pendNo = iota
	pendMaybe
	pendYes
)

const (
	runNone = iota
	runMaybe
	runCertain
)

const sigLoneProbeTimer = "C06/mtu-probe/loss-timer-not-armed"

// strictTimer: raise the tolerated finding (see NOTES.md, "MTU probe loss detection").
func strictTimer() bool { return true } // the finding was repaired in /repo 930971c: always judged

func (m *machine) lossDelay() int64 {
	const timeThreshold = 9.0 / 8
	maxRTT := float64(max(m.rtt.LatestRTT(), m.rtt.SmoothedRTT()))
	d := time.Duration(timeThreshold * maxRTT)
	return int64(max(d, protocol.TimerGranularity))
}

// difference is sentPacketHistory.Difference: a - b without the tracked skipped numbers in between.
func (m *machine) difference(sp *mspace, a, b int64) int64 {
	d := a - b
	tr, _ := m.tracked(sp)
	for _, x := range tr {
		if x > b && x < a {
			d--
		}
	}
	return d
}

// mtuJudge is called after a ReceivedAck (application data) or OnLossDetectionTimeout call was settled. p is
// the MTU probe that was in flight before the call, run says whether detectLostPackets ran in that call with
// "now" = t.
func (m *machine) mtuJudge(p *mpkt, run int, t int64, call string) *vf.Verdict {
	if p == nil || p.st == stAcked || p.st == stDropped {
		return nil
	}
	sp := m.sp[spA]
	ld := m.lossDelay()
	timeLost := p.sendT <= t-ld
	lostAt := func(la int64) bool {
		return p.pn <= la && (timeLost || m.difference(sp, la, p.pn) >= 3)
	}
	desc := func() string {
		return fmt.Sprintf("%v sent %v before the loss detection of this call; time threshold %v (latest RTT %v, smoothed %v); largest acknowledged in [%d, %d], recently skipped %v; outstanding data packets: %d",
			p, time.Duration(t-p.sendT), time.Duration(ld), m.rtt.LatestRTT(), m.rtt.SmoothedRTT(), sp.laLo, sp.laHi, func() []int64 { tr, _ := m.tracked(sp); return tr }(), m.numOutstanding())
	}
	if call == "ReceivedAck" && run == runCertain && p.pn <= sp.laLo && !m.hasOut(spA) {
		// the ACK left no regular packet outstanding: loss detection has only the probe to look at
		m.class("mtu-probe-alone-outstanding-at-ack")
	}
	if p.st == stLost {
		if run == runNone || !lostAt(sp.laHi) {
			return vf.Bad("C06/mtu-probe/lost-before-threshold", "%s declared the path MTU probe lost although neither the packet threshold (3) nor the time threshold is reached (or no packet sent after it was newly acknowledged): %s", call, desc())
		}
		switch {
		case timeLost && call == "OnLossDetectionTimeout":
			m.class("mtu-probe-lost-by-time")
			m.class("mtu-probe-lost-at-loss-timer")
		case timeLost:
			m.class("mtu-probe-lost-by-time")
		default:
			m.class("mtu-probe-lost-by-packet-threshold")
		}
		return nil
	}
	if p.st != stOut {
		return nil
	}
	if run == runCertain && lostAt(sp.laLo) {
		which := "the time threshold has passed"
		if !timeLost {
			which = fmt.Sprintf("%d packets sent after it were sent before the largest acknowledged one", m.difference(sp, sp.laLo, p.pn))
		}
		return vf.Bad("C06/mtu-probe/not-declared-lost", "%s ran loss detection, a packet sent after the path MTU probe is acknowledged and %s, but the probe was not declared lost (its frame got no OnLost, its %d bytes stay in flight): %s", call, which, p.size, desc())
	}
	switch run {
	case runCertain:
		switch {
		case p.pn <= sp.laLo:
			m.mtuPend, m.mtuD = pendYes, p.sendT+ld
			m.class("mtu-probe-pending-loss-timer")
		case p.pn <= sp.laHi:
			m.mtuPend = pendMaybe
		default:
			m.mtuPend = pendNo
		}
	case runMaybe:
		if m.mtuPend != pendYes && p.pn <= sp.laHi {
			m.mtuPend = pendMaybe
		}
	}
	return nil
}

// mtuTimer: while the probe is pending (below largest acked, thresholds not reached at the last run) the
// loss detection timer has to fire no later than its time-threshold expiry.
func (m *machine) mtuTimer(after string, to int64) *vf.Verdict {
	p := m.mtuInFlight
	if p == nil || p.st != stOut || m.mtuPend != pendYes {
		return nil
	}
	if to == 0 {
		// Unchanged tree: lossDetectionTime cancels the alarm when nothing is "outstanding", which ignores
		// the loss time that detectLostPackets just set for the probe. Tolerated finding, see NOTES.md.
		detail := fmt.Sprintf("after %s: the path MTU probe %v is below the largest acknowledged packet and will pass the time threshold at +%v, but no loss detection timer is set (outstanding data packets: %d): until some later ACK newly acknowledges a packet the probe's frame is neither reported lost nor are its %d bytes removed from bytes in flight",
			after, p, time.Duration(m.mtuD-m.now), m.numOutstanding(), p.size)
		if m.hasOut(spA) {
			return vf.Bad("C06/mtu-probe/loss-timer-late", "%s", detail)
		}
		m.loneNoTimer++
		m.class("finding:lone-mtu-probe-without-loss-timer")
		if !vf.IsKnown(sigLoneProbeTimer) && strictTimer() {
			return vf.Bad(sigLoneProbeTimer, "%s", detail)
		}
		return nil
	}
	if to > m.mtuD {
		return vf.Bad("C06/mtu-probe/loss-timer-late", "after %s: the path MTU probe %v passes the time threshold at %v, but the loss detection timer is set to %v later", after, p, time.Duration(m.mtuD-startTime), time.Duration(to-m.mtuD))
	}
	m.class("mtu-probe-loss-timer-armed")
	return nil
}
